(* wire encoding of the C10 file-name cases; exported functions are [x_*] : val -> val
   murmur case = path bytes                     observation = hash
   two case    = ( pathA pathB k )              observation = ( hashA hashB a_reads_own b_reads_own ) *)
From Coq Require Import ZArith List Bool.
From V Require Import Val Bytes C10Names.
Import ListNotations.
Open Scope Z_scope.

Definition x_C10_murmur (c : val) : val := VI (murmur (as_bytes c)).

Definition x_C10_two_run (c : val) : val :=
  let '(ha, hb, oa, ob) := two_model (as_bytes (nthv 0 c)) (as_bytes (nthv 1 c)) (as_nat (nthv 2 c)) in
  VL [VI ha; VI hb; vbool oa; vbool ob].

(* the oracle of C10_two_streams_model_passes on (case, observed) *)
Definition x_C10_two_ok (v : val) : val :=
  let c := nthv 0 v in let o := nthv 1 v in
  vbool (two_ok (as_bytes (nthv 0 c)) (as_bytes (nthv 1 c))
           (as_int (nthv 0 o), as_int (nthv 1 o), as_bool (nthv 2 o), as_bool (nthv 3 o))).
