(* wire encoding of the C08 multi-client cases
   case  = ( cfg frames events )     cfg, frame as in RunC08.v
   event = ( 0 i ) deliver tag i | ( 1 ) attach a client | ( 2 j m ) client j writes up to m tags
   observation = ( ( (type ts data) ... ) ( out ... ) ): the source tags afterwards, every client's stream *)
From Coq Require Import ZArith List Bool.
From V Require Import Val Bytes C08Amf0 C08Flv C08Fanout RunC08.
Import ListNotations.
Open Scope Z_scope.

Definition dec_fev (v : val) : fev :=
  match as_int (nthv 0 v) with
  | 0 => EDeliver (as_nat (nthv 1 v))
  | 1 => EAttach
  | _ => EConsume (as_nat (nthv 1 v)) (as_nat (nthv 2 v))
  end.
Definition c08_events (c : val) : list fev := map dec_fev (as_list (nthv 2 c)).
Definition c08_store (c : val) : list tag := mux (c08_cfg c) (c08_frames c).

Definition enc_tag (t : tag) : val := VL [VI (t_type t); VI (t_ts t); VB (t_data t)].
Definition dec_tag (v : val) : tag := mkTag (as_int (nthv 0 v)) (as_int (nthv 1 v)) (as_bytes (nthv 2 v)).

Definition x_C08_fan_run (c : val) : val :=
  let '(after, outs) := fan_streams (type_flags (c08_cfg c)) (c08_store c) (c08_events c) in
  VL [VL (map enc_tag after); VL (map VB outs)].

(* the creation date is wall clock: it is an input of the model, read back from the metadata tag of
   the first observed client stream that has one *)
Fixpoint find_date (l : list amf_prop) : option bytes :=
  match l with
  | [] => None
  | (n, AStr d) :: r => if bytes_eqb n s_creationdate then Some d else find_date r
  | _ :: r => find_date r
  end.
Definition date_of_stream (o : bytes) : option bytes :=
  match parse_flv o with
  | Some (_, p :: _) =>
      match parse_script (p_data p) with Some (_, props) => find_date props | None => None end
  | _ => None
  end.
Fixpoint first_date (outs : list bytes) : option bytes :=
  match outs with
  | [] => None
  | o :: r => match date_of_stream o with Some d => Some d | None => first_date r end
  end.
Definition with_date (c : cfg) (d : option bytes) : cfg :=
  match d with
  | None => c
  | Some d => mkCfg (c_hevc c) (c_sps c) (c_pps c) (c_vps c) (c_hvcc c) (c_width c) (c_height c) (c_fr c)
                    (c_vdr c) (c_aac c) (c_asc c) (c_srate c) (c_ssize c) (c_chan c) (c_adr c) d
  end.

Definition x_C08_fan_ok (v : val) : val :=
  let c := nthv 0 v in let obs := nthv 1 v in
  let outs := map as_bytes (as_list (nthv 1 obs)) in
  let cf := with_date (c08_cfg c) (first_date outs) in
  vbool (fan_ok_bytes (type_flags cf) (mux cf (c08_frames c)) (c08_events c)
           (map dec_tag (as_list (nthv 0 obs))) outs).
