(* wire wrappers of the transport-adapter streams (C01 "transports").
   case = (refs packets clients events how); packets = ((channel data) ..);
   clients = ((kind (m0 m1 m2 m3) (delivered-index ..)) ..)
   observation = ((client ..) snapshots note); client = (received reference ended) *)
From Coq Require Import ZArith List Bool.
From V Require Import Val Bytes C01Wire.
Import ListNotations.
Open Scope Z_scope.

Definition dec_pkt (v : val) : pkt := (as_int (nthv 0 v), as_bytes (nthv 1 v)).
Definition dec_tag (v : val) : tag := (as_int (nthv 0 v), as_int (nthv 1 v), as_bytes (nthv 2 v)).
Definition dec_chmap (v : val) (ch : Z) : Z :=
  if (0 <=? ch) && (ch <? 4) then as_int (nthv (Z.to_nat ch) v) else -1.

Definition check_client (pkts : list pkt) (cv ov : val) : bool :=
  let kind := as_int (nthv 0 cv) in
  if (kind <? 4) || (kind =? 6) then
    ok_wire kind (dec_chmap (nthv 1 cv))
            (map (fun i => nth (as_nat i) pkts (0, [])) (as_list (nthv 2 cv)))
            (map dec_pkt (as_list (nthv 0 ov)))
  else ok_flv (map dec_tag (as_list (nthv 1 ov))) (map dec_tag (as_list (nthv 0 ov))).

Fixpoint forallb2 {A B} (f : A -> B -> bool) (a : list A) (b : list B) : bool :=
  match a, b with
  | [], [] => true
  | x :: a', y :: b' => f x y && forallb2 f a' b'
  | _, _ => false
  end.

(* oracle on (case observed): every client received exactly what its transport owes it *)
Definition x_C01_wire_ok (v : val) : val :=
  let c := nthv 0 v in let obs := nthv 1 v in
  let pkts := map dec_pkt (as_list (nthv 1 c)) in
  vbool (forallb pkt_wf pkts && forallb2 (check_client pkts) (as_list (nthv 2 c)) (as_list (nthv 0 obs))).

(* the model's clients of the RTP transports: what the independent readers make of the model's wire *)
Definition x_C01_wire_model (c : val) : val :=
  let pkts := map dec_pkt (as_list (nthv 1 c)) in
  vlist (fun cv =>
           let kind := as_int (nthv 0 cv) in
           match model_client kind (dec_chmap (nthv 1 cv))
                              (map (fun i => nth (as_nat i) pkts (0, [])) (as_list (nthv 2 cv))) with
           | Some l => vlist (fun p => VL [VI (fst p); VB (snd p)]) l
           | None => VL [VI (-1)]
           end) (as_list (nthv 2 c)).
