(* wire encoding of the consumer-id cases: case = ( type seed ), observation = ( Type(id) Sequence(id) new-seed ) *)
From Coq Require Import ZArith List Bool.
From V Require Import Val C05Cid.
Import ListNotations.
Open Scope Z_scope.
Definition x_C05_cid_run (c : val) : val :=
  let '(ty, sq, s') := cid_model (as_int (nthv 0 c)) (as_int (nthv 1 c)) in VL [VI ty; VI sq; VI s'].
(* the oracle of C05_consumer_id_keeps_its_type on (case, observed) *)
Definition x_C05_cid_ok (v : val) : val :=
  let c := nthv 0 v in let o := nthv 1 v in
  vbool (cid_ok (as_int (nthv 0 c)) (as_int (nthv 1 c)) (as_int (nthv 0 o), as_int (nthv 1 o), as_int (nthv 2 o))).
