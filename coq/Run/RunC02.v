From V Require Import Val LtsWire LtsOracle.
Definition x_C02_lts (v : val) : val := lts_run v.
(* v = (case observed): the oracle of Properties/C02.v, theorem C02_model_passes *)
Definition x_C02_ok (v : val) : val := vbool (ok_C02 (dec_lcase (nthv 0 v)) (dec_obs (nthv 1 v))).
