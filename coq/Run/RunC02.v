From V Require Import Val LtsWire.
Definition x_C02_lts (v : val) : val := lts_run v.
