(* wire encoding of the C17 "publish" stream (media.GetOrCreate histories) *)
From Coq Require Import ZArith List Bool.
From V Require Import Val Bytes StrGo Route C17Publish RunC17.
Import ListNotations.
Open Scope Z_scope.

Definition RTSP_PREFIX : bytes := [114; 116; 115; 112; 58; 47; 47].               (* "rtsp://" *)
Definition CAM_PREFIX : bytes :=                                                  (* "rtsp://cam.test" *)
  [114; 116; 115; 112; 58; 47; 47; 99; 97; 109; 46; 116; 101; 115; 116].

(* factory descriptions carried by the case: (kind can fail)
   kind 0 = the real RTSP pull factory (Can: "rtsp://" prefix, case folded; Create succeeds
            when the fake camera cam.test is addressed — loopback, trusted);
   kind 1 = recording fake: Can = URL starts with [can]; Create fails when the URL starts with [fail] *)
Definition dec_factory (v : val) : factory :=
  let can := as_bytes (nthv 1 v) in
  let fail := as_bytes (nthv 2 v) in
  match as_int (nthv 0 v) with
  | 0 => {| f_can := fun u => is_prefix RTSP_PREFIX (to_lower u);
            f_ok := fun _ u => is_prefix CAM_PREFIX (to_lower u);
            f_real := true;
            f_key := rtsp_key (fun _ => []) |}   (* url.Parse(remoteURL).Path: irrelevant, C17_pull_client_path_is_canonical *)
  | _ => {| f_can := fun u => is_prefix can u;
            f_ok := fun _ u => match fail with [] => true | _ => negb (is_prefix fail u) end;
            f_real := false;
            f_key := newstream_key |}
  end.

Definition dec_pop (v : val) : pop :=
  match as_int (nthv 0 v) with
  | 0 => PSave (dec_route (nthv 1 v))
  | 1 => PDel (as_bytes (nthv 1 v))
  | 2 => PPublish (as_bytes (nthv 1 v))
  | 3 => PClose (as_bytes (nthv 1 v))
  | 4 => PReq (as_bytes (nthv 1 v))
  | 5 => PGet (as_bytes (nthv 1 v))
  | _ => PAll
  end.

Definition enc_goc (o : goc) : val :=
  match o with
  | GNone => VL [VI 0]
  | GExisting s => VL [VI 1; VI s]
  | GCreated l u i k => VL [VI 2; VB l; VB u; vnat i; vbool k]
  | GFailed l u i => VL [VI 3; VB l; VB u; vnat i]
  | GPanic => VL [VI 4]
  end.
Definition dec_goc (v : val) : goc :=
  match as_int (nthv 0 v) with
  | 0 => GNone
  | 1 => GExisting (as_int (nthv 1 v))
  | 2 => GCreated (as_bytes (nthv 1 v)) (as_bytes (nthv 2 v)) (as_nat (nthv 3 v)) (as_bool (nthv 4 v))
  | 3 => GFailed (as_bytes (nthv 1 v)) (as_bytes (nthv 2 v)) (as_nat (nthv 3 v))
  | _ => GPanic
  end.

Definition enc_pout (o : pout) : val :=
  match o with
  | POUnit => VL [VI 0]
  | POId i => VL [VI 1; VI i]
  | POOpt x => VL [VI 2; vopt VI x]
  | POReq g s n r => VL [VI 3; enc_goc g; vopt VI s; vlist VB n; vlist (fun e => VL [VB (fst e); VI (snd e)]) r]
  | POAll t => VL [VI 4; vlist enc_route t]
  end.
Definition dec_pout (v : val) : pout :=
  match as_int (nthv 0 v) with
  | 0 => POUnit
  | 1 => POId (as_int (nthv 1 v))
  | 2 => POOpt (as_opt as_int (nthv 1 v))
  | 3 => POReq (dec_goc (nthv 1 v)) (as_opt as_int (nthv 2 v)) (map as_bytes (as_list (nthv 3 v)))
             (map (fun e => (as_bytes (nthv 0 e), as_int (nthv 1 e))) (as_list (nthv 4 v)))
  | _ => POAll (map dec_route (as_list (nthv 1 v)))
  end.

(* case = (factories ops) *)
Definition c17p_fs (c : val) : list factory := map dec_factory (as_list (nthv 0 c)).
Definition c17p_ops (c : val) : list pop := map dec_pop (as_list (nthv 1 c)).

(* model prediction: the code-level model from the empty state *)
Definition x_C17_publish_run (c : val) : val :=
  vlist enc_pout (snd (prun url_ok_all (c17p_fs c) pinit (c17p_ops c))).

(* oracle on (case observed): C17_publish_model_passes is about [ok_phist] *)
Definition x_C17_publish_ok (v : val) : val :=
  let c := nthv 0 v in let obs := nthv 1 v in
  vbool (ok_phist url_ok_all (c17p_fs c) pinit (c17p_ops c) (map dec_pout (as_list obs))).

(* does the history satisfy the guard of the theorems (every request canon-stable)? *)
Definition x_C17_publish_wf (c : val) : val :=
  vbool (forallb (pop_wf url_ok_all) (c17p_ops c)).
