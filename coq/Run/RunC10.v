(* wire encoding of C10 cases; exported functions are [x_*] : val -> val
   case        = ( cfg dtok ops )
   cfg         = ( frag rate mem copy path sps pps )
   op          = ( 0 kind pts dts payload ) | ( 1 seq ) | ( 2 h ) | ( 3 tok ) | ( 4 h ) | ( 5 ) | ( 6 sps pps ) | ( 7 ( ( seq bytes ) ... ) )
   observation = ( sobs ... )      one per op
   sobs        = ( pl live files new res )
   pl          = ( ) | ( ( target mseq ( ( disc ms uri tok ) ... ) ) raw )
   new         = ( ( seq ( ok ( ( pid pts dts key es ) ... ) ) ) ... )
   res         = ( 0 ) | ( 1 ok ) | ( 2 opt-segobs ) | ( 3 ok ) | ( 4 opt-bytes ) *)
From Coq Require Import ZArith List Bool.
From V Require Import Val Bytes C10Hls.
Import ListNotations.
Open Scope Z_scope.

Definition dec_kind (z : Z) : kind := match z with 0 => KA | 1 => KK | _ => KV end.

Definition dec_cfg (v : val) : cfg :=
  {| c_frag := as_int (nthv 0 v); c_rate := as_int (nthv 1 v); c_mem := as_bool (nthv 2 v);
     c_copy := as_bool (nthv 3 v); c_path := as_bytes (nthv 4 v); c_sps := as_bytes (nthv 5 v);
     c_pps := as_bytes (nthv 6 v); c_pick := fun _ => O |}.

Definition dec_op (v : val) : op :=
  match as_int (nthv 0 v) with
  | 0 => OFrame {| f_kind := dec_kind (as_int (nthv 1 v)); f_pts := as_int (nthv 2 v);
                   f_dts := as_int (nthv 3 v); f_pay := as_bytes (nthv 4 v) |}
  | 1 => OFetch (as_int (nthv 1 v))
  | 2 => ORead (as_int (nthv 1 v))
  | 3 => OPlGet (as_bytes (nthv 1 v))
  | 4 => OPlRead (as_int (nthv 1 v))
  | 6 => OSetPs (as_bytes (nthv 1 v)) (as_bytes (nthv 2 v))
  | 7 => ONewGen (map (fun x => (as_int (nthv 0 x), as_bytes (nthv 1 x))) (as_list (nthv 1 v)))
  | _ => OClose
  end.

Definition enc_wframe (w : wframe) : val :=
  VL [VI (w_pid w); VI (w_pts w); VI (w_dts w); vbool (w_key w); VB (w_es w)].
Definition dec_wframe (v : val) : wframe :=
  {| w_pid := as_int (nthv 0 v); w_pts := as_int (nthv 1 v); w_dts := as_int (nthv 2 v);
     w_key := as_bool (nthv 3 v); w_es := as_bytes (nthv 4 v); w_src := []; w_sps := []; w_pps := [] |}.
Definition enc_segobs (g : segobs) : val := VL [vbool (g_ok g); vlist enc_wframe (g_frames g)].
Definition dec_segobs (v : val) : segobs :=
  {| g_ok := as_bool (nthv 0 v); g_frames := map dec_wframe (as_list (nthv 1 v)) |}.

Definition enc_entry (e : entry) : val := VL [vbool (e_disc e); VI (e_ms e); VB (e_uri e); VB (e_tok e)].
Definition dec_entry (v : val) : entry :=
  {| e_disc := as_bool (nthv 0 v); e_ms := as_int (nthv 1 v); e_uri := as_bytes (nthv 2 v);
     e_tok := as_bytes (nthv 3 v) |}.
Definition enc_view (p : plview) : val := VL [VI (v_target p); VI (v_mseq p); vlist enc_entry (v_entries p)].
Definition dec_view (v : val) : plview :=
  {| v_target := as_int (nthv 0 v); v_mseq := as_int (nthv 1 v);
     v_entries := map dec_entry (as_list (nthv 2 v)) |}.

Definition enc_res (r : opres) : val :=
  match r with
  | RNone => VL [VI 0]
  | RFetch b => VL [VI 1; vbool b]
  | RRead o => VL [VI 2; vopt enc_segobs o]
  | RPlGet b => VL [VI 3; vbool b]
  | RPlRead o => VL [VI 4; vopt VB o]
  end.
Definition dec_res (v : val) : opres :=
  match as_int (nthv 0 v) with
  | 0 => RNone
  | 1 => RFetch (as_bool (nthv 1 v))
  | 2 => RRead (as_opt dec_segobs (nthv 1 v))
  | 3 => RPlGet (as_bool (nthv 1 v))
  | _ => RPlRead (as_opt as_bytes (nthv 1 v))
  end.

Definition enc_sobs (o : sobs) : val :=
  VL [ match o_pl o with None => VL [] | Some (p, raw) => VL [enc_view p; VB raw] end;
       vlist VI (o_live o); vlist VI (o_files o);
       vlist (fun x => VL [VI (fst x); enc_segobs (snd x)]) (o_new o);
       enc_res (o_res o) ].
Definition dec_sobs (v : val) : sobs :=
  {| o_pl := match as_list (nthv 0 v) with
             | [p; raw] => Some (dec_view p, as_bytes raw)
             | _ => None
             end;
     o_live := map as_int (as_list (nthv 1 v));
     o_files := map as_int (as_list (nthv 2 v));
     o_new := map (fun x => (as_int (nthv 0 x), dec_segobs (nthv 1 x))) (as_list (nthv 3 v));
     o_res := dec_res (nthv 4 v) |}.

Definition case_cfg (c : val) : cfg := dec_cfg (nthv 0 c).
Definition case_tok (c : val) : bytes := as_bytes (nthv 1 c).
Definition case_ops (c : val) : list op := map dec_op (as_list (nthv 2 c)).

(* model prediction *)
Definition x_C10_run (c : val) : val :=
  vlist enc_sobs (model (case_cfg c) (case_tok c) (case_ops c)).

(* the oracle of C10_model_passes on (case, observed) *)
Definition x_C10_ok (v : val) : val :=
  let c := nthv 0 v in
  vbool (ok (case_cfg c) (case_tok c) false (case_ops c) (map dec_sobs (as_list (nthv 1 v)))).

(* the unguarded oracle: the key-frame clause also for segments opened by the audio-driven reap (D35) *)
Definition x_C10_strict (v : val) : val :=
  let c := nthv 0 v in
  vbool (ok (case_cfg c) (case_tok c) true (case_ops c) (map dec_sobs (as_list (nthv 1 v)))).

(* does the model itself open a segment by the audio-driven reap on this case? (signature of D35) *)
Definition x_C10_audio_reap (c : val) : val :=
  vbool (existsb s_aud (closed (feed (case_cfg c) (frames_of (case_ops c)) (init (case_cfg c))))).

(* the float reformulations against Go's float64 arithmetic and fmt: ( x n ) ->
   ( "%.3f" of float64(x)/90000 ; float64(x)/90000 >= float64(n) ; float64(x)/90000*1000 < 100 ; int32(float64(x)/90000+1) ) *)
Definition x_C10_float (v : val) : val :=
  let x := as_int (nthv 0 v) in let n := as_int (nthv 1 v) in
  VL [VB (fmt_millis (millis x)); vbool (TICKS * n <=? x); vbool (x <? MIN_TICKS); VI (x / TICKS + 1)].
