(* wire encoding of C20 cases; exported functions are [x_*] : val -> val
   case  = (cfg rounds)   cfg = (creds tracks sdpkind urlkind keepalive routed split)  (split: DESCRIBE answer in two segments; not in the model)
   round = (again script) script = list of reply kinds 0..9
   observation per round = (outcome reqs mid again delivered final)
     reqs = list of (method auth session); mid = (conns registered counter goroutines);
     final = (conns registered counter goroutines consumer_closed) *)
From Coq Require Import ZArith List Bool.
From V Require Import Val C20Pull.
Import ListNotations.
Open Scope Z_scope.

Definition dec_reply (v : val) : reply :=
  match as_int v with
  | 0 => ROk | 1 => RBasic | 2 => RDigest | 3 => RErr4 | 4 => RErr5 | 5 => RMalformed
  | 6 => RSilence | 7 => RReset | 9 => RAuthOther | _ => REof
  end.

Definition dec_cfg (v : val) : cfg :=
  let tracks := as_int (nthv 1 v) in
  {| c_user := as_int (nthv 0 v) =? 1;
     c_video := Z.odd tracks;
     c_audio := Z.odd (tracks / 2);
     c_sdp_bad := negb (as_int (nthv 2 v) =? 0);
     c_routed := as_bool (nthv 5 v) |}.

Definition dec_script (v : val) : script := map dec_reply (as_list (nthv 1 v)).
Definition c20_cfg (c : val) : cfg := dec_cfg (nthv 0 c).
Definition c20_scripts (c : val) : list script := map dec_script (as_list (nthv 1 c)).

Definition enc_meth (m : meth) : val := VI (Z.of_nat (meth_rank m)).
Definition enc_auth (a : authk) : val :=
  VI (match a with ANone => 0 | ABasic false => 1 | ABasic true => 2 | ADigest false => 3 | ADigest true => 4 end).
Definition enc_req (q : req) : val := VL [enc_meth (q_meth q); enc_auth (q_auth q); vbool (q_sess q)].
Definition enc_world (w : world) : list val :=
  [VI (w_conns w); vbool (w_reg w); VI (w_cnt w); VI (w_readers w)].
Definition enc_robs (o : robs) : val :=
  VL [VI (match o_out o with Failed => 0 | Playing => 1 end);
      vlist enc_req (o_reqs o);
      VL (enc_world (o_mid o));
      vbool (o_again o);
      VI (o_delivered o);
      VL (enc_world (o_final o) ++ [vbool (o_closed o)])].

Definition dec_meth (v : val) : option meth :=
  match as_int v with 0 => Some MOptions | 1 => Some MDescribe | 2 => Some MSetup | 3 => Some MPlay | _ => None end.
Definition dec_auth (v : val) : option authk :=
  match as_int v with
  | 0 => Some ANone | 1 => Some (ABasic false) | 2 => Some (ABasic true)
  | 3 => Some (ADigest false) | 4 => Some (ADigest true) | _ => None
  end.
Definition dec_req (v : val) : option req :=
  match dec_meth (nthv 0 v), dec_auth (nthv 1 v) with
  | Some m, Some a => Some (mkreq m a (as_bool (nthv 2 v)))
  | _, _ => None
  end.
Fixpoint all_some {A} (l : list (option A)) : option (list A) :=
  match l with
  | [] => Some []
  | Some a :: l' => match all_some l' with Some r => Some (a :: r) | None => None end
  | None :: _ => None
  end.
Definition dec_world (v : val) : world :=
  {| w_reg := as_bool (nthv 1 v); w_cnt := as_int (nthv 2 v); w_conns := as_int (nthv 0 v); w_readers := as_int (nthv 3 v) |}.
Definition dec_robs (v : val) : option robs :=
  match (match as_int (nthv 0 v) with 0 => Some Failed | 1 => Some Playing | _ => None end),
        all_some (map dec_req (as_list (nthv 1 v))) with
  | Some out, Some qs =>
      if (length (as_list v) =? 6)%nat then
      Some {| o_out := out; o_reqs := qs; o_mid := dec_world (nthv 2 v); o_again := as_bool (nthv 3 v);
              o_delivered := as_int (nthv 4 v); o_final := dec_world (nthv 5 v);
              o_closed := as_bool (nthv 4 (nthv 5 v)) |}
      else None
  | _, _ => None
  end.

(* model prediction *)
Definition x_C20_run (c : val) : val :=
  vlist enc_robs (rounds (c20_cfg c) w0 (c20_scripts c)).

(* the oracle on (case observed): the specification [ok_rounds] *)
Definition x_C20_ok (v : val) : val :=
  let c := nthv 0 v in
  match all_some (map dec_robs (as_list (nthv 1 v))) with
  | Some os => vbool (ok_rounds (c20_cfg c) (c20_scripts c) os)
  | None => VI 0
  end.

(* concurrent first requests: case = (n tracks delays);
   observation = (answers live registered member conns counter goroutines (final world)) *)
Definition enc_cobs (o : cobs) : val :=
  VL [vbool (co_answers o); VI (co_live o); VI (co_registered o); vbool (co_member o);
      VI (w_conns (co_world o)); VI (w_cnt (co_world o)); VI (w_readers (co_world o));
      VL (enc_world (co_final o))].
Definition dec_cobs (v : val) : cobs :=
  {| co_answers := as_bool (nthv 0 v); co_live := as_int (nthv 1 v); co_registered := as_int (nthv 2 v);
     co_member := as_bool (nthv 3 v);
     co_world := {| w_reg := 0 <? as_int (nthv 2 v); w_cnt := as_int (nthv 5 v);
                    w_conns := as_int (nthv 4 v); w_readers := as_int (nthv 6 v) |};
     co_final := dec_world (nthv 7 v) |}.
Definition x_C20conc_run (c : val) : val := enc_cobs (conc_model (as_nat (nthv 0 c))).
Definition x_C20conc_ok (v : val) : val :=
  if (length (as_list (nthv 1 v)) =? 8)%nat then vbool (ok_conc (dec_cobs (nthv 1 v))) else VI 0.

(* overlapping pulls with consumers: case = (tracks first attach1 attach2 end2first kind1 kind2 keepalive);
   attach1 = 0 none, 1 before the second registration, 2 between its swap and its look at the consumer count
   (both early), 3 right after stream 1's status became "replaced", 4 after the second registration (both late);
   observation = three points, each (closed1 closed2 cc1 cc2 registered conns counter goroutines) *)
From V Require C20Replaced.
Definition enc_pobs (o : C20Replaced.pobs) : val :=
  VL [VI (C20Replaced.po_closed1 o); VI (C20Replaced.po_closed2 o); VI (C20Replaced.po_cc1 o);
      VI (C20Replaced.po_cc2 o); VI (C20Replaced.po_reg o);
      VI (C20Replaced.po_running o); VI (C20Replaced.po_running o); VI (C20Replaced.po_running o)].
Definition dec_pobs (v : val) : C20Replaced.pobs :=
  let a := as_int (nthv 5 v) in
  {| C20Replaced.po_closed1 := as_int (nthv 0 v); C20Replaced.po_closed2 := as_int (nthv 1 v);
     C20Replaced.po_cc1 := as_int (nthv 2 v); C20Replaced.po_cc2 := as_int (nthv 3 v);
     C20Replaced.po_reg := as_int (nthv 4 v);
     C20Replaced.po_running :=
       if (a =? as_int (nthv 6 v)) && (a =? as_int (nthv 7 v)) && (length (as_list v) =? 8)%nat then a else -1 |}.
Definition dec_when (v : val) : C20Replaced.when :=
  match as_int v with
  | 1 | 2 => C20Replaced.WEarly
  | 3 | 4 => C20Replaced.WLate
  | _ => C20Replaced.WNone
  end.
Definition x_C20repl_run (c : val) : val :=
  vlist enc_pobs (C20Replaced.repl_model (dec_when (nthv 2 c)) (as_bool (nthv 3 c)) (as_bool (nthv 4 c))).
Definition x_C20repl_ok (v : val) : val :=
  let c := nthv 0 v in
  vbool (C20Replaced.ok_repl (C20Replaced.attached (dec_when (nthv 2 c))) (as_bool (nthv 3 c)) (as_bool (nthv 4 c))
           (map dec_pobs (as_list (nthv 1 v)))).
