(* wire wrappers of the transport-adapter streams (C03 "transport-release").
   case = (refs packets clients events how); events = ((0 n) | (1 i) | (2 i mode) | (3) | (4) new publisher);
   observation = (clients (snapshot ..) note); snapshot = (cc rtsp flv wsp (ended ..) media-cc (cc per stream generation ..)) *)
From Coq Require Import ZArith List Bool.
From V Require Import Val Bytes C01Wire.
Import ListNotations.
Open Scope Z_scope.

Definition dec_tev (v : val) : tev :=
  match as_int (nthv 0 v) with
  | 0 => TPublish
  | 1 => TAttach (as_nat (nthv 1 v))
  | 2 => TStop (as_nat (nthv 1 v))
  | 4 => TReplace
  | _ => TEnd
  end.

Definition dec_snap (v : val) : snap :=
  {| sn_cc := as_int (nthv 0 v); sn_rtsp := as_int (nthv 1 v); sn_flv := as_int (nthv 2 v);
     sn_wsp := as_int (nthv 3 v); sn_closed := map as_bool (as_list (nthv 4 v));
     sn_gens := map as_int (as_list (nthv 6 v)); sn_of := [] |}.

(* oracle on (case observed): after every event the consumer count, the per-protocol connection
   counters (relative to their values before the first attach) and the set of ended connections are
   what the release specification says — the consumer count per stream generation included;
   media.Count (registered streams only) agrees with the count of the stream registered last *)
Definition x_C03_wire_ok (v : val) : val :=
  let c := nthv 0 v in let obs := nthv 1 v in
  let kinds := map (fun cv => as_int (nthv 0 cv)) (as_list (nthv 2 c)) in
  let snaps := as_list (nthv 1 obs) in
  vbool (ok_release (as_bool (nthv 0 c)) kinds (map dec_tev (as_list (nthv 3 c))) (map dec_snap snaps)
         && forallb (fun s => as_int (nthv 5 s) =? last (map as_int (as_list (nthv 6 s))) 0) snaps).
