(* wire wrappers for the multi-session stream of C12.
   case = ( ((path sdpid mcast) ..) ((ws wspath) ..) ((session-index request) ..) schedule )
   observation = ( ((session-id ((class cseq sid body) ..)) ..) note ) *)
From Coq Require Import ZArith List Bool.
From V Require Import Val Bytes StrGo C12RtspSession C12Multi RunC12.
Import ListNotations.
Open Scope Z_scope.

Definition mc_env (c : val) : env :=
  {| e_sdp := sdp_table; e_live := lookup_live (as_list (nthv 0 c)) |}.
Definition mc_sessions (c : val) : list sess :=
  map (fun v => init_sess (as_bool (nthv 0 v)) (as_bytes (nthv 1 v))) (as_list (nthv 1 c)).
Definition mc_hist (c : val) : list (nat * request) :=
  map (fun v => (as_nat (nthv 0 v), dec_req (nthv 1 v))) (as_list (nthv 2 c)).
Definition dec_mresp (v : val) : mresp :=
  {| mr_class := as_int (nthv 0 v); mr_cseq := as_bytes (nthv 1 v); mr_sid := as_bytes (nthv 2 v);
     mr_body := as_bool (nthv 3 v) |}.

(* oracle on (case observed): theorem C12_multi_model_passes *)
Definition x_C12_multi_ok (v : val) : val :=
  let c := nthv 0 v in let obs := as_list (nthv 0 (nthv 1 v)) in
  vbool (forallb (fun x => req_wf (snd x)) (mc_hist c) &&
         ok_multi (mc_env c) (mc_sessions c) (map (fun o => as_bytes (nthv 0 o)) obs) (mc_hist c)
                  (map (fun o => map dec_mresp (as_list (nthv 1 o))) obs)).
