(* wire encoding of C14 cases; exported functions are [x_*] : val -> val *)
From Coq Require Import ZArith List Bool.
From V Require Import Val Bytes StrGo C14RtspCodec.
Import ListNotations.
Open Scope Z_scope.

(* ---- structured URLs on the wire ----
   (0) = "*";  (1 path query?) = path only;  (2 scheme user? host port? path query?) = absolute,
   user? = () | (user) | (user password), host = (0 name) | (1 addr) | (1 addr zone),
   port? / query? = () | (bytes) *)
Definition dec_optb (v : val) : option bytes :=
  match as_list v with x :: _ => Some (as_bytes x) | [] => None end.
Definition dec_host (v : val) : shost :=
  match as_int (nthv 0 v) with
  | 0 => HName (as_bytes (nthv 1 v))
  | _ => HV6 (as_bytes (nthv 1 v)) (match as_list v with _ :: _ :: z :: _ => Some (as_bytes z) | _ => None end)
  end.
Definition dec_user (v : val) : option (bytes * option bytes) :=
  match as_list v with
  | [] => None
  | [u] => Some (as_bytes u, None)
  | u :: pw :: _ => Some (as_bytes u, Some (as_bytes pw))
  end.
Definition dec_surl (v : val) : surl :=
  match as_int (nthv 0 v) with
  | 0 => SStar
  | 1 => SPath (as_bytes (nthv 1 v)) (dec_optb (nthv 2 v))
  | _ => SAbs (as_bytes (nthv 1 v))
              {| a_user := dec_user (nthv 2 v); a_host := dec_host (nthv 3 v); a_port := dec_optb (nthv 4 v) |}
              (as_bytes (nthv 5 v)) (dec_optb (nthv 6 v))
  end.

Definition enc_optb (o : option bytes) : val := match o with Some b => VL [VB b] | None => VL [] end.
(* the parsed URL as observed: the fields, then Hostname(), Port(), String() *)
Definition enc_gourl (g : gourl) : val :=
  VL [VB (g_scheme g); enc_optb (g_user g); VB (g_host g); VB (g_path g); enc_optb (g_query g);
      VB (fst (split_host_port (g_host g))); VB (snd (split_host_port (g_host g))); VB (gourl_string g)].
Definition dec_gourl (v : val) : gourl :=
  {| g_scheme := as_bytes (nthv 0 v); g_user := dec_optb (nthv 1 v); g_host := as_bytes (nthv 2 v);
     g_path := as_bytes (nthv 3 v); g_query := dec_optb (nthv 4 v) |}.

(* net/url restricted to the Request-URIs the case itself emits (plus "*"): the law
   parse (print u) = u holds for this instance by construction; that the real net/url obeys it
   on the grammar is what the streams written_streams and url_law test *)
Definition url_table (urls : list surl) (s : bytes) : option gourl :=
  match find (fun u => bytes_eqb (surl_print u) s) (SStar :: urls) with
  | Some u => Some (gourl_of u)
  | None => None
  end.

Definition dec_field (v : val) : bytes * list bytes :=
  (as_bytes (nthv 0 v), map as_bytes (as_list (nthv 1 v))).
Definition dec_hdr (v : val) : header := map dec_field (as_list v).
Definition enc_hdr (h : header) : val :=
  vlist (fun e => VL [VB (fst e); vlist VB (snd e)]) (hsort h).

Definition dec_item (v : val) : item :=
  match as_int (nthv 0 v) with
  | 0 => IReq {| q_method := as_bytes (nthv 1 v); q_url := gourl_of (dec_surl (nthv 2 v)); q_proto := RTSP10;
                 q_hdr := dec_hdr (nthv 3 v); q_body := as_bytes (nthv 4 v) |}
  | 1 => IResp {| p_proto := RTSP10; p_code := as_int (nthv 1 v); p_status := as_bytes (nthv 2 v);
                  p_hdr := dec_hdr (nthv 3 v); p_body := as_bytes (nthv 4 v) |}
  | _ => IPack (as_int (nthv 1 v)) (as_bytes (nthv 2 v))
  end.

Definition enc_event (ev : event) : val :=
  match ev with
  | EvReq q => VL [VI 0; VB (q_method q); enc_gourl (q_url q); VB (q_proto q); enc_hdr (q_hdr q); VB (q_body q)]
  | EvResp p => VL [VI 1; VB (p_proto p); VI (p_code p); VB (p_status p); enc_hdr (p_hdr p); VB (p_body p)]
  | EvPack c d => VL [VI 2; VI c; VB d]
  | EvSkip => VL [VI 3]
  end.
Definition dec_event (v : val) : event :=
  match as_int (nthv 0 v) with
  | 0 => EvReq {| q_method := as_bytes (nthv 1 v); q_url := dec_gourl (nthv 2 v); q_proto := as_bytes (nthv 3 v);
                  q_hdr := dec_hdr (nthv 4 v); q_body := as_bytes (nthv 5 v) |}
  | 1 => EvResp {| p_proto := as_bytes (nthv 1 v); p_code := as_int (nthv 2 v); p_status := as_bytes (nthv 3 v);
                   p_hdr := dec_hdr (nthv 4 v); p_body := as_bytes (nthv 5 v) |}
  | 2 => EvPack (as_int (nthv 1 v)) (as_bytes (nthv 2 v))
  | _ => EvSkip
  end.

Definition enc_final (f : ofinal) : val :=
  match f with ODone => VI 0 | OErr => VI 1 | OUrlErr => VI 2 | OBad => VI 3 end.
(* anything that is not one of the three expected endings (a !panic / !crash / !hang
   marker decodes to this too) is OBad *)
Definition dec_final (v : val) : ofinal :=
  match v with
  | VI 0 => ODone
  | VI 1 => OErr
  | VI 2 => OUrlErr
  | _ => OBad
  end.

Definition enc_evs (l : list (event * Z)) : val := vlist (fun p => VL [enc_event (fst p); VI (snd p)]) l.
Definition dec_evs (v : val) : list (event * Z) :=
  map (fun p => (dec_event (nthv 0 p), as_int (nthv 1 p))) (as_list v).

Definition dec_cfg (v : val) : list Z := map as_int (as_list v).

(* ---- raw streams: case = (kind cfg bufsize chunks bytes extra) ---- *)
Definition slack_of (bufsize : Z) : Z := 2 * bufsize + 4096.

Definition x_C14_raw (c : val) : val :=
  let kind := as_int (nthv 0 c) in
  let cfg := dec_cfg (nthv 1 c) in
  let s := as_bytes (nthv 4 c) in
  let '(evs, fin) := model_obs url_accept kind cfg s in
  VL [enc_evs evs; enc_final fin].

(* observation = (events final pulled) *)
Definition x_C14_raw_ok (v : val) : val :=
  let c := nthv 0 v in let o := nthv 1 v in
  let kind := as_int (nthv 0 c) in
  let cfg := dec_cfg (nthv 1 c) in
  let bufsize := as_int (nthv 2 c) in
  let s := as_bytes (nthv 4 c) in
  match o with
  | VL [evs; fin; VI pulled] =>
      vbool (ok_raw kind cfg s (slack_of bufsize) (dec_evs evs) (dec_final fin) pulled)
  | _ => vbool false
  end.

(* ---- written streams: case = (cfg bufsize chunks items tail) ---- *)
Definition case_urls (c : val) : list surl :=
  flat_map (fun v => match as_int (nthv 0 v) with 0 => [dec_surl (nthv 2 v)] | _ => [] end) (as_list (nthv 3 c)).
Definition x_C14_items (c : val) : val :=
  let cfg := dec_cfg (nthv 0 c) in
  let items := map dec_item (as_list (nthv 3 c)) in
  let tail := as_bytes (nthv 4 c) in
  let s := concat_items cfg items ++ tail in
  let '(evs, fin) := model_obs (url_table (case_urls c)) 0 cfg s in
  VL [VB s; enc_evs evs; enc_final fin; VI (-1)].

(* observation = (wire events final pulled) *)
Definition x_C14_items_ok (v : val) : val :=
  let c := nthv 0 v in let o := nthv 1 v in
  let cfg := dec_cfg (nthv 0 c) in
  let bufsize := as_int (nthv 1 c) in
  let items := map dec_item (as_list (nthv 3 c)) in
  let tail := as_bytes (nthv 4 c) in
  match o with
  | VL [VB wire; evs; fin; VI pulled] =>
      vbool (ok_items (url_table (case_urls c)) cfg items tail (slack_of bufsize) wire (dec_evs evs) (dec_final fin) pulled)
  | _ => vbool false
  end.

(* is every item of the case in the emit grammar of the round-trip theorems? (statistics) *)
Definition x_C14_items_wf (c : val) : val :=
  let cfg := dec_cfg (nthv 0 c) in
  vbool (forallb (item_wf (url_table (case_urls c)) cfg) (map dec_item (as_list (nthv 3 c)))).

(* direct correspondence of the string helpers *)
Definition x_C14_canonkv (c : val) : val := VB (canonical_kv (as_bytes c)).
Definition x_C14_canonkey (c : val) : val := VB (canon_key (as_bytes c)).
Definition x_C14_rtphdr (c : val) : val :=
  VI (match rtp_hdr_check (as_bytes c) with HOk => 0 | HErr => 1 | HPanic => 2 | HFuel => 3 end).

(* ---- the URL grammar against net/url and against ReadRequest's host fix ----
   case = structured URL; observation = (printed URL, url.ParseRequestURI of it as observed,
   the same after the host fix of a request "OPTIONS|DESCRIBE <url> RTSP/1.0") *)
Definition x_C14_urllaw (c : val) : val :=
  let u := dec_surl c in
  VL [VB (surl_print u); enc_gourl (gourl_of u); enc_gourl (fix_url (gourl_of u))].
(* is the case in the grammar of the theorems, and does the fix change only an empty port? *)
Definition x_C14_urllaw_ok (v : val) : val :=
  let u := dec_surl (nthv 0 v) in let o := nthv 1 v in
  match o with
  | VL [VB printed; parsed; fixed] => vbool (ok_url u printed (dec_gourl parsed) (dec_gourl fixed))
  | _ => vbool false
  end.

(* ---- the pull client's URL: case = structured URL (scheme rtsp); observation = (URL kept by
   NewPullClient, URL of its first request as read back by ReadRequest) ---- *)
Definition x_C14_pullurl (c : val) : val :=
  let g := pull_url (gourl_of (dec_surl c)) in VL [enc_gourl g; enc_gourl (fix_url g)].
Definition x_C14_pullurl_ok (v : val) : val :=
  let u := dec_surl (nthv 0 v) in
  match nthv 1 v with
  | VL [kept; readback] => vbool (ok_pull u (dec_gourl kept) (dec_gourl readback))
  | _ => vbool false
  end.
