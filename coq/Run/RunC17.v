(* wire encoding of C17 cases; exported functions are [x_*] : val -> val *)
From Coq Require Import ZArith List Bool.
From V Require Import Val Bytes StrGo Route.
Import ListNotations.
Open Scope Z_scope.

Definition url_ok_all (u : bytes) : bool := true.  (* generator emits only URLs url.Parse accepts *)

Definition dec_route (v : val) : route :=
  {| r_pat := as_bytes (nthv 0 v); r_url := as_bytes (nthv 1 v); r_keep := as_bool (nthv 2 v) |}.
Definition enc_route (r : route) : val := VL [VB (r_pat r); VB (r_url r); vbool (r_keep r)].

Definition dec_rop (v : val) : rop :=
  match as_int (nthv 0 v) with
  | 0 => RSave (dec_route (nthv 1 v))
  | 1 => RDel (as_bytes (nthv 1 v))
  | 2 => RMatch (as_bytes (nthv 1 v))
  | 3 => RGet (as_bytes (nthv 1 v))
  | _ => RAll
  end.

Definition enc_outcome (o : outcome) : val :=
  match o with
  | NotFound => VL [VI 0]
  | Found r => VL [VI 1; enc_route r]
  | Panic => VL [VI 2]
  end.
Definition dec_outcome (v : val) : outcome :=
  match as_int (nthv 0 v) with
  | 0 => NotFound
  | 1 => Found (dec_route (nthv 1 v))
  | _ => Panic
  end.

Definition enc_rout (o : rout) : val :=
  match o with
  | OUnit => VL [VI 0]
  | OMatch m => VL [VI 1; enc_outcome m]
  | OGet g => VL [VI 2; vopt enc_route g]
  | OAll t => VL [VI 3; vlist enc_route t]
  end.
Definition dec_rout (v : val) : rout :=
  match as_int (nthv 0 v) with
  | 0 => OUnit
  | 1 => OMatch (dec_outcome (nthv 1 v))
  | 2 => OGet (as_opt dec_route (nthv 1 v))
  | _ => OAll (map dec_route (as_list (nthv 1 v)))
  end.

Definition c17_ops (c : val) : list rop := map dec_rop (as_list c).

(* model prediction for a history, starting from the empty table *)
Definition x_C17_run (c : val) : val :=
  vlist enc_rout (snd (rrun url_ok_all [] (c17_ops c))).

(* oracle on (case, observed) *)
Definition x_C17_ok (v : val) : val :=
  let c := nthv 0 v in let obs := nthv 1 v in
  vbool (ok_hist url_ok_all [] (c17_ops c) (map dec_rout (as_list obs))).

(* direct correspondence stream for the string functions *)
Definition x_C17_canon (c : val) : val := VB (canonical_path (as_bytes c)).
