(* wire wrapper for the publisher-effects stream of C12: the C12 case with a 6th element
   (recording-consumers real-player); the observation's 4th element is
   ( ((created live consumers) ..) (live consumers attached released) ) *)
From Coq Require Import ZArith List Bool.
From V Require Import Val Bytes StrGo C12RtspSession C12Effects RunC12.
Import ListNotations.
Open Scope Z_scope.

Definition x_C12_effects_ok (v : val) : val :=
  let c := nthv 0 v in let eo := nthv 3 (nthv 1 v) in
  let n := as_int (nthv 0 (nthv 5 c)) + (if as_bool (nthv 1 (nthv 5 c)) then 1 else 0) in
  let fin := nthv 1 eo in
  vbool (forallb req_wf (c12_reqs c) &&
         ok_effects (c12_env c) n (c12_sess0 c) (c12_reqs c)
           (map (fun t => (as_int (nthv 0 t), as_int (nthv 1 t), as_int (nthv 2 t))) (as_list (nthv 0 eo)))
           {| ef_live := as_int (nthv 0 fin); ef_cons := as_int (nthv 1 fin);
              ef_attached := as_int (nthv 2 fin); ef_released := as_int (nthv 3 fin) |}).
