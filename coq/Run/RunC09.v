(* wire encoding of C09 cases; exported functions are [x_*] : val -> val *)
From Coq Require Import ZArith List Bool.
From V Require Import Val Bytes C09Adts C09Asc C09TsFrame C09TsWriter C09TsDemux C09TsHls.
Import ListNotations.
Open Scope Z_scope.

(* mpegts.Frame: (pid sid dts pts header payload key) *)
Definition dec_tsframe (v : val) : tsframe :=
  {| f_pid := as_int (nthv 0 v); f_sid := as_int (nthv 1 v);
     f_dts := as_int (nthv 2 v); f_pts := as_int (nthv 3 v);
     f_hdr := as_bytes (nthv 4 v); f_pay := as_bytes (nthv 5 v);
     f_key := as_bool (nthv 6 v) |}.

Definition c09_frames (c : val) : list tsframe := map dec_tsframe (as_list c).

(* writer case = list of frames; observation = the bytes in the buffer *)
Definition x_C09_write (c : val) : val := VB (ts_write_all (c09_frames c)).

Definition x_C09_write_ok (v : val) : val :=
  let c := nthv 0 v in let obs := nthv 1 v in
  vbool (match obs with VB out => ok_writer (c09_frames c) out | _ => false end).

(* source frame: (isvideo dts_ns pts_ns payload) *)
Definition dec_cframe (v : val) : cframe :=
  {| c_video := as_bool (nthv 0 v); c_dts := as_int (nthv 1 v); c_pts := as_int (nthv 2 v);
     c_pay := as_bytes (nthv 3 v) |}.

(* event: a source frame, or (2 sps pps) = the shared video meta gets these parameter sets *)
Definition dec_event (v : val) : mevent :=
  match nthv 0 v with
  | VI 2 => EvSet (as_bytes (nthv 1 v)) (as_bytes (nthv 2 v))
  | _ => EvFrame (dec_cframe v)
  end.

(* mux case = (mode sps pps asc events); sps pps = the meta when the muxer is created;
   mode only selects the Go entry point *)
(* model side: the configuration bytes go through the model of Decode / ToAdtsHeader *)
Definition c09_asc (c : val) : asc :=
  match asc_of_config (as_bytes (nthv 3 c)) with
  | Some a => a
  | None => {| asc_obj := 0; asc_sidx := 0; asc_chan := 0 |}
  end.
(* oracle side: the case also carries the description of the configuration (aot sfi chan
   signalling ext_sfi) at index 7; the expected ADTS fields come from it (asc_of_env), never from
   the decoder model; it must be well-formed and encode to exactly the bytes given to Go *)
Definition dec_env (v : val) : asc_env :=
  {| e_aot := as_int (nthv 0 v); e_sfi := as_int (nthv 1 v); e_chan := as_int (nthv 2 v);
     e_sig := as_int (nthv 3 v); e_ext_sfi := as_int (nthv 4 v) |}.
Definition c09_env (c : val) : asc_env := dec_env (nthv 7 c).
Definition c09_env_ok (c : val) : bool :=
  wf_env (c09_env c) && bytes_eqb (asc_encode (c09_env c)) (as_bytes (nthv 3 c)).
Definition c09_asc_spec (c : val) : asc := asc_of_env (c09_env c).
Definition x_C09_asc_bytes (v : val) : val := VB (asc_encode (dec_env v)).

Definition c09_events (c : val) : list mevent := map dec_event (as_list (nthv 4 c)).
Definition c09_aframes (c : val) : list aframe :=
  annotate (as_bytes (nthv 1 c)) (as_bytes (nthv 2 c)) (c09_events c).

(* observation: (0 bytes) | (1) = panic *)
Definition x_C09_mux (c : val) : val :=
  match mux_events (as_bytes (nthv 1 c)) (as_bytes (nthv 2 c)) (c09_asc c) (c09_events c) with
  | MuxBytes b => VL [VI 0; VB b]
  | MuxPanic => VL [VI 1]
  end.

Definition x_C09_mux_ok (v : val) : val :=
  let c := nthv 0 v in let obs := nthv 1 v in
  vbool (match obs with
         | VL [VI 0; VB out] =>
             c09_env_ok c && ok_muxa (c09_asc_spec c) (c09_aframes c) out
         | _ => false
         end).

(* malformed source frames (empty video payload): the property leaves the
   result open — a panic, or the stream of the remaining frames *)
Definition x_C09_mux_loose_ok (v : val) : val :=
  let c := nthv 0 v in let obs := nthv 1 v in
  vbool (match obs with
         | VL [VI 0; VB out] =>
             c09_env_ok c && ok_muxa (c09_asc_spec c) (c09_aframes c) out
         | VL [VI 1] => true
         | _ => false
         end).

(* the pre-repair packetizer (in-band SPS/PPS/AUD written behind an empty header), for the record *)
Definition x_C09_mux_prefix (c : val) : val :=
  let fs := fold_right (fun af acc =>
              let cf := a_c af in
              match (if c_video cf then packetize_h264_prefix (a_sps af) (a_pps af) cf else packetize_aac (c09_asc c) cf) with
              | PkFrame f => f :: acc | _ => acc end) [] (c09_aframes c) in
  VL [VI 0; VB (ts_write_all fs)].

(* component streams *)
Definition x_C09_adts (c : val) : val :=
  VB (adts_header (as_int (nthv 0 c)) (as_int (nthv 1 c)) (as_int (nthv 2 c)) (as_int (nthv 3 c))).
Definition x_C09_crc (c : val) : val := VI (crc32_mpeg (as_bytes c)).

(* HLS path.  case = (0 sps pps asc frames fragment rate); the generator ends every case with
   [non-key, key, non-key, key] video frames far enough apart to close two segments, so
   that every source frame but the very last key frame is in a closed segment.
   observation = (0 (segment bytes ...)) *)
Definition x_C09_hls_ok (v : val) : val :=
  let c := nthv 0 v in let obs := nthv 1 v in
  let fs := c09_aframes c in
  let vids := removelast (filter (fun f => c_video (a_c f) && asrc_carried f) fs) in
  let auds := map a_c (filter (fun f => negb (c_video (a_c f)) && asrc_carried f) fs) in
  vbool (match obs with
         | VL [VI 0; VL segs] =>
             c09_env_ok c && ok_hls (c09_asc_spec c) vids auds (map as_bytes segs)
         | _ => false
         end).

(* end to end: media.NewStream with an SDP without sprop-parameter-sets, fed with RTP.  The
   H.264 depacketizer stores the first in-band SPS / PPS into the shared meta (only while the
   field is empty) and forwards frames once both are known; the generator starts every case
   with SPS, PPS.  [inband] turns the source NAL list into events accordingly. *)
Fixpoint inband (sps pps : bytes) (cs : list cframe) : list mevent :=
  match cs with
  | [] => []
  | c :: r =>
      match nal_type (c_pay c) with
      | Some 7 => match sps with
                  | [] => EvSet (c_pay c) pps :: EvFrame c :: inband (c_pay c) pps r
                  | _ => EvFrame c :: inband sps pps r
                  end
      | Some 8 => match pps with
                  | [] => EvSet sps (c_pay c) :: EvFrame c :: inband sps (c_pay c) r
                  | _ => EvFrame c :: inband sps pps r
                  end
      | _ => EvFrame c :: inband sps pps r
      end
  end.

Definition x_C09_e2e_ok (v : val) : val :=
  let c := nthv 0 v in let obs := nthv 1 v in
  let fs := annotate [] [] (inband [] [] (map dec_cframe (as_list (nthv 4 c)))) in
  let vids := removelast (filter (fun f => c_video (a_c f) && asrc_carried f) fs) in
  vbool (match obs with
         | VL [VI 0; VL segs] => ok_hls_es vids (map as_bytes segs)
         | _ => false
         end).

(* component: configuration bytes -> the ADTS header ToAdtsHeader builds for a payload of n bytes,
   (1) when Decode fails.  case = (bytes n) *)
Definition x_C09_asc_header (c : val) : val :=
  match asc_decode (as_bytes (nthv 0 c)) with
  | Some d => if asc_outside d then VL [VI 2]     (* not covered by the model *)
              else VL [VI 0; VB (to_adts_header (asc_effective d) (as_int (nthv 1 c)))]
  | None => VL [VI 1]
  end.
(* its oracle, for configurations described by an env: (bytes n env) *)
Definition x_C09_asc_header_ok (v : val) : val :=
  let c := nthv 0 v in let obs := nthv 1 v in
  let e := dec_env (nthv 2 c) in let n := as_int (nthv 1 c) in
  vbool (wf_env e && bytes_eqb (asc_encode e) (as_bytes (nthv 0 c)) &&
         match obs with
         | VL [VI 0; VB h] =>
             match adts_parse1 (h ++ repeat_byte 0 n) with
             | Some (fr, []) => adts_frame_eqb fr (adts_expect (asc_of_env e) (repeat_byte 0 n))
             | _ => false
             end
         | _ => false
         end).

(* concurrent writers.  case = ((frames of writer 0) (frames of writer 1) ...) triggers); the
   triggers only script the interleaving in the harness (after writer a's n-th packet, writer b
   writes its next frame in between).  Prediction: every writer's output is the single-writer
   output of its own frames (C09_writers_independent); observation = (out0 out1 ...) *)
Definition c09_writers (c : val) : list (list tsframe) := map c09_frames (as_list (nthv 0 c)).
Definition x_C09_writers (c : val) : val := VL (map (fun fs => VB (ts_write_all fs)) (c09_writers c)).
Fixpoint all_writers_ok (fss : list (list tsframe)) (outs : list val) : bool :=
  match fss, outs with
  | [], [] => true
  | fs :: fss', VB out :: outs' => ok_writer fs out && all_writers_ok fss' outs'
  | _, _ => false
  end.
Definition x_C09_writers_ok (v : val) : val :=
  let c := nthv 0 v in
  vbool (all_writers_ok (c09_writers c) (as_list (nthv 1 v))).

(* two HLS streams fed alternately: case = (caseA caseB), observation = (0 (segsA) (segsB)) *)
Definition c09_hls_case_ok (c : val) (segs : val) : bool :=
  let fs := c09_aframes c in
  let vids := removelast (filter (fun f => c_video (a_c f) && asrc_carried f) fs) in
  let auds := map a_c (filter (fun f => negb (c_video (a_c f)) && asrc_carried f) fs) in
  c09_env_ok c && ok_hls (c09_asc_spec c) vids auds (map as_bytes (as_list segs)).
Definition x_C09_hls2_ok (v : val) : val :=
  let c := nthv 0 v in let obs := nthv 1 v in
  vbool (match obs with
         | VL [VI 0; sa; sb] => c09_hls_case_ok (nthv 0 c) sa && c09_hls_case_ok (nthv 1 c) sb
         | _ => false
         end).
