(* wire encoding of C08 cases; exported functions are [x_*] : val -> val
   case  = ( cfg frames k t0 mode )      mode: 0 muxer straight into the writer (k = 0), 1 join at media tag k
   cfg   = ( hevc sps pps vps _ width height fr vdr aac asc srate ssize chan adr date derive )
           the hvcC general bytes of an H.265 stream are computed from vps/sps by the model; derive = 1:
           width/height/frame rate come from the SPS (hevc/h264.MetadataIsReady) instead of the case
   frame = ( kind dts_ns pts_ns payload ) *)
From Coq Require Import ZArith List Bool.
From V Require Import Val Bytes C15BitFmt C15Ebsp C15H264 C15Hevc C08Amf0 C08Flv C08Hevc.
Import ListNotations.
Open Scope Z_scope.

Definition dec_cfg_raw (v : val) : cfg :=
  mkCfg (as_bool (nthv 0 v)) (as_bytes (nthv 1 v)) (as_bytes (nthv 2 v)) (as_bytes (nthv 3 v))
        (as_bytes (nthv 4 v)) (as_int (nthv 5 v)) (as_int (nthv 6 v)) (as_int (nthv 7 v)) (as_int (nthv 8 v))
        (as_bool (nthv 9 v)) (as_bytes (nthv 10 v)) (as_int (nthv 11 v)) (as_int (nthv 12 v))
        (as_int (nthv 13 v)) (as_int (nthv 14 v)) (as_bytes (nthv 15 v)).

Definition dec_cfg (v : val) : cfg := cfg_derived (dec_cfg_raw v) (as_bool (nthv 16 v)).

Definition dec_frame (v : val) : frame :=
  mkFrame (as_int (nthv 0 v)) (as_int (nthv 1 v)) (as_int (nthv 2 v)) (as_bytes (nthv 3 v)).

Definition c08_cfg (c : val) : cfg := dec_cfg (nthv 0 c).
Definition c08_frames (c : val) : list frame := map dec_frame (as_list (nthv 1 c)).
Definition c08_k (c : val) : nat := as_nat (nthv 2 c).
Definition c08_t0 (c : val) : Z := as_int (nthv 3 c).

(* model prediction: the byte stream the client receives *)
Definition x_C08_run (c : val) : val :=
  VB (flv_bytes (c08_cfg c) (c08_frames c) (c08_k c) (c08_t0 c)).

(* oracle on (case, observed bytes) *)
Definition x_C08_ok (v : val) : val :=
  let c := nthv 0 v in
  vbool (flv_ok (c08_cfg c) (c08_frames c) (c08_k c) (as_bytes (nthv 1 v))).

(* the pre-fix writer on the same case (documents D17; used by the check to show the
   oracle rejects the old arithmetic) *)
Definition x_C08_run_old (c : val) : val :=
  VB (flv_write_old (type_flags (c08_cfg c))
        (join_tags (mux (c08_cfg c) (c08_frames c)) (c08_k c) (u32 (c08_t0 c)))).

(* float64(int) bit pattern, against math.Float64bits(float64(n)) *)
Definition x_C08_f64 (c : val) : val := VI (f64_of_Z (as_int c)).
Definition x_C08_f64_ok (v : val) : val :=
  let n := as_int (nthv 0 v) in
  vbool (match f64_to_Z (as_int (nthv 1 v)) with Some m => m =? n | None => false end).

(* AMF0: script data of (name, props) against amf.WriteString + amf.WriteAny(EcmaArray)
   prop = ( name kind value )  kind 0 number(bits) 1 bool 2 string *)
Definition dec_prop (v : val) : amf_prop :=
  (as_bytes (nthv 0 v),
   match as_int (nthv 1 v) with
   | 0 => ANum (as_int (nthv 2 v))
   | 1 => ABool (as_bool (nthv 2 v))
   | _ => AStr (as_bytes (nthv 2 v))
   end).
Definition x_C08_amf (c : val) : val :=
  VB (script_enc (as_bytes (nthv 0 c)) (map dec_prop (as_list (nthv 1 c)))).
Definition x_C08_amf_ok (v : val) : val :=
  let c := nthv 0 v in
  let want := map dec_prop (as_list (nthv 1 c)) in
  vbool (match parse_script (as_bytes (nthv 1 v)) with
         | Some (name, props) => bytes_eqb name (as_bytes (nthv 0 c)) && list_eqb amf_prop_eqb want props
         | None => false
         end).

(* H.265 parameter sets from field values: case = ( vps_record sps_record ), record = list of (key value)
   -> ( vps_nal sps_nal ok ), ok = the records are well-ranged (emit succeeds, NAL shapes, hvcc_ranges,
   h265_ranges); () when a record cannot be emitted *)
Definition dec_rec (v : val) : env :=
  fold_left (fun a kv => set a (as_int (nthv 0 kv)) (as_int (nthv 1 kv))) (as_list v) env0.
Definition x_C08_hevc_emit (c : val) : val :=
  match emit std_h265_vps (dec_rec (nthv 0 c)) env0, emit std_h265_sps (dec_rec (nthv 1 c)) env0 with
  | Some (bv, av), Some (bs, a) =>
      let nv := nal_of_bits bv in let ns := nal_of_bits bs in
      VL [VB nv; VB ns;
          vbool (nal_shape_ok nv && nal_shape_ok ns && hvcc_ranges av a && h265_ranges a &&
                 (zlen nv <? 65536) && (zlen ns <? 65536))]
  | _, _ => VL []
  end.
(* the record against the field values: case = ( vps_record sps_record vps_nal sps_nal pps );
   observed = bytes 1..21 of HEVCDecoderConfigurationRecord.Marshal *)
Definition x_C08_hvcc_run (c : val) : val := VB (hvcc_of_nals (as_bytes (nthv 2 c)) (as_bytes (nthv 3 c))).
Definition x_C08_hvcc_ok (v : val) : val :=
  let c := nthv 0 v in
  vbool (hvcc_ok (dec_rec (nthv 0 c)) (dec_rec (nthv 1 c)) (as_bytes (nthv 1 v))).
