(* wire encoding of the C02 byte-level classification cases (part C); exported [x_*] : val -> val.

   RTP caches:  case = (codec gopon pkts)        codec 0 = H.264, 1 = H.265; gopon 0/1;
                pkts = list of (channel payload)  channel 0 = video; payload = RTP payload bytes
     observation = (kinds pushed)   kinds: one int per packet, the p_kind (0..5) the cache treated it
                                    as, -1 = CachePack panicked (packet not cached);
                                    pushed: indexes (0-based) of the packets PushTo delivers, in order
   FLV cache:   case = (gopon tags)               tags = list of (tagtype timestamp data)
     observation = (kinds pushed origs)  kinds as above (1..5); pushed = list of (index timestamp) as
                                    delivered by PushTo; origs = the timestamps of the original tag
                                    objects read back after PushTo (must be the inputs) *)
From Coq Require Import ZArith List Bool.
From V Require Import C08Flv.
From V Require Import Val StreamLts Cache C02Classify C02FlvProducer C02FlvViewers.
From V Require Import LtsWire LtsOracle C02JoinSeam.
Import ListNotations.
Open Scope Z_scope.

Definition dec_codec (v : val) : codec := if as_int v =? 0 then H264 else H265.

Record ccase := { cc_codec : codec; cc_gop : bool; cc_pkts : list (Z * list Z) }.
Definition dec_ccase (v : val) : ccase :=
  {| cc_codec := dec_codec (nthv 0 v); cc_gop := as_bool (nthv 1 v);
     cc_pkts := map (fun p => (as_int (nthv 0 p), as_bytes (nthv 1 p))) (as_list (nthv 2 v)) |}.

Definition x_C02_classify (v : val) : val :=
  let c := dec_ccase v in
  let kinds := cc_kinds (cc_codec c) (cc_pkts c) in
  VL [ vlist VI kinds; vlist VI (cc_pushed (cc_gop c) kinds) ].

(* oracle on (case observed) = Model.cc_ok, the function of [classify_model_passes] *)
Definition x_C02_classify_ok (v : val) : val :=
  let c := dec_ccase (nthv 0 v) in let obs := nthv 1 v in
  vbool (cc_ok (cc_codec c) (cc_gop c) (cc_pkts c)
               (map as_int (as_list (nthv 0 obs))) (map as_int (as_list (nthv 1 obs)))).

(* ---- packetisation cases: the packetiser of the model feeds the real caches ----
   case = (codec form) with form = (0 nal) | (1 x y (nal ...)) | (2 nal (size ...));
   [x_C02_packetise] turns it into a classify case (gop on, video channel) for the harness;
   [x_C02_expected] = (wellformed expected-kinds) *)
Definition dec_pform (v : val) : pform :=
  match as_int (nthv 0 v) with
  | 0 => PSingle (as_bytes (nthv 1 v))
  | 1 => PAgg (as_int (nthv 1 v)) (as_int (nthv 2 v)) (map as_bytes (as_list (nthv 3 v)))
  | _ => PFrag (as_bytes (nthv 1 v)) (map as_nat (as_list (nthv 2 v)))
  end.

Definition x_C02_packetise (v : val) : val :=
  let c := dec_codec (nthv 0 v) in
  VL [ nthv 0 v; VI 1; vlist (fun p => VL [VI 0; VB p]) (packetise c (dec_pform (nthv 1 v))) ].

Definition x_C02_expected (v : val) : val :=
  let c := dec_codec (nthv 0 v) in let f := dec_pform (nthv 1 v) in
  VL [ vbool (pform_ok c f); vlist VI (expected c f) ].

(* ---- FLV ---- *)
Record fcase := { fcs_gop : bool; fcs_tags : list (Z * Z * list Z) }.
Definition dec_fcase (v : val) : fcase :=
  {| fcs_gop := as_bool (nthv 0 v);
     fcs_tags := map (fun t => (as_int (nthv 0 t), as_int (nthv 1 t), as_bytes (nthv 2 t))) (as_list (nthv 1 v)) |}.

Definition x_C02_classify_flv (v : val) : val :=
  let c := dec_fcase v in
  let kinds := flv_kinds (fcs_tags c) in let tss := flv_tss (fcs_tags c) in
  VL [ vlist VI kinds;
       vlist (fun t => VL [VI (t_id t); VI (t_ts t)]) (flv_pushed (fcs_gop c) kinds tss);
       vlist VI tss ].

(* oracle on (case observed) = Model.flv_ok, the function of [flv_model_passes] *)
Definition x_C02_classify_flv_ok (v : val) : val :=
  let c := dec_fcase (nthv 0 v) in let obs := nthv 1 v in
  vbool (flv_ok (fcs_gop c) (fcs_tags c)
                (map as_int (as_list (nthv 0 obs)))
                (map (fun p => (as_int (nthv 0 p), as_int (nthv 1 p))) (as_list (nthv 1 obs)))
                (map as_int (as_list (nthv 2 obs)))).

(* ---- FLV producer: frames through the real flv.Muxer into a real FlvCache (cache_gop on) ----
   case = (hevc aac frames)   hevc, aac 0/1; frames = list of (mediatype dts_ns pts_ns payload),
                              mediatype 0 video (payload = one NAL unit, non-empty), 1 audio
   observation = (kinds pushed origs), as for classify_flv: kinds of the tags the muxer wrote, in
   order (index = position); pushed = (index timestamp) list PushTo delivers; origs = the tags'
   timestamps read back afterwards *)
Record pcase := { pc_hevc : bool; pc_aac : bool; pc_frames : list frame }.
Definition dec_pcase (v : val) : pcase :=
  {| pc_hevc := as_bool (nthv 0 v); pc_aac := as_bool (nthv 1 v);
     pc_frames := map (fun f => mkFrame (as_int (nthv 0 f)) (as_int (nthv 1 f)) (as_int (nthv 2 f))
                                        (as_bytes (nthv 3 f))) (as_list (nthv 2 v)) |}.

Definition x_C02_flv_producer (v : val) : val :=
  let c := dec_pcase v in
  let kinds := prod_kinds (pc_hevc c) (pc_aac c) (pc_frames c) in
  let tss := prod_tss (pc_hevc c) (pc_aac c) (pc_frames c) in
  VL [ vlist VI kinds;
       vlist (fun t => VL [VI (C02Classify.t_id t); VI (C02Classify.t_ts t)]) (flv_pushed true kinds tss);
       vlist VI tss ].

(* oracle on (case observed) = Model.prod_ok, the function of [prod_model_passes] *)
Definition x_C02_flv_producer_ok (v : val) : val :=
  let c := dec_pcase (nthv 0 v) in let obs := nthv 1 v in
  vbool (prod_ok (pc_hevc c) (pc_aac c) (pc_frames c)
                 (map as_int (as_list (nthv 0 obs)))
                 (map (fun p => (as_int (nthv 0 p), as_int (nthv 1 p))) (as_list (nthv 1 obs)))
                 (map as_int (as_list (nthv 2 obs)))).

(* ---- FLV late join next to other viewers (real flv.Writer consumers sharing the tag objects) ----
   case = (gopon tags events)   tags = ((tagtype timestamp data) ...) in publication order;
                                events = (0) publish the next tag | (1) a viewer attaches |
                                         (2 j m) viewer j writes up to m queued tags | (3) the joiner attaches
   observation = (joins origs)  joins: per (3) event the pair (replay-at-join replay-at-end), a replay =
                                ((index timestamp data) ...); origs = ((timestamp data) ...) of the published
                                tag objects read at the end *)
Definition dec_vev (v : val) : vev :=
  match as_int (nthv 0 v) with
  | 0 => VPub
  | 1 => VAttach
  | 2 => VView (as_nat (nthv 1 v)) (as_nat (nthv 2 v))
  | _ => VJoin
  end.
Record vcase := { vc_gop : bool; vc_tags : list tagrec; vc_evs : list vev }.
Definition dec_vcase (v : val) : vcase :=
  {| vc_gop := as_bool (nthv 0 v);
     vc_tags := map (fun t => (as_int (nthv 0 t), as_int (nthv 1 t), as_bytes (nthv 2 t))) (as_list (nthv 1 v));
     vc_evs := map dec_vev (as_list (nthv 2 v)) |}.

Definition enc_replay (r : list (Z * Z * list Z)) : val :=
  vlist (fun x => VL [VI (fst (fst x)); VI (snd (fst x)); VB (snd x)]) r.
Definition dec_replay (v : val) : list (Z * Z * list Z) :=
  map (fun x => (as_int (nthv 0 x), as_int (nthv 1 x), as_bytes (nthv 2 x))) (as_list v).

Definition x_C02_flv_viewers (v : val) : val :=
  let c := dec_vcase v in
  VL [ vlist (fun r => VL [enc_replay r; enc_replay r]) (viewers_joins (vc_gop c) (vc_tags c) O (vc_evs c));
       vlist (fun t => VL [VI (snd (fst t)); VB (snd t)]) (vc_tags c) ].

(* oracle on (case observed) = Model.viewers_ok, the function of [viewers_model_passes] *)
Definition x_C02_flv_viewers_ok (v : val) : val :=
  let c := dec_vcase (nthv 0 v) in let obs := nthv 1 v in
  vbool (viewers_ok (vc_gop c) (vc_tags c) (vc_evs c)
           (map (fun p => (dec_replay (nthv 0 p), dec_replay (nthv 1 p))) (as_list (nthv 0 obs)))
           (map (fun p => (as_int (nthv 0 p), as_bytes (nthv 1 p))) (as_list (nthv 1 obs)))).

(* ---- the seam oracle on a stream-LTS case (same case / observation formats as x_C02_lts):
   v = (case observed); Model.C02JoinSeam.seam_ok, the function of [seam_model_passes] ---- *)
Definition x_C02_seam_ok (v : val) : val := vbool (seam_ok (dec_lcase (nthv 0 v)) (dec_obs (nthv 1 v))).
