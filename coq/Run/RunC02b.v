(* wire encoding of the C02 byte-level classification cases (part C); exported [x_*] : val -> val.

   RTP caches:  case = (codec gopon pkts)        codec 0 = H.264, 1 = H.265; gopon 0/1;
                pkts = list of (channel payload)  channel 0 = video; payload = RTP payload bytes
     observation = (kinds pushed)   kinds: one int per packet, the p_kind (0..5) the cache treated it
                                    as, -1 = CachePack panicked (packet not cached);
                                    pushed: indexes (0-based) of the packets PushTo delivers, in order
   FLV cache:   case = (gopon tags)               tags = list of (tagtype timestamp data)
     observation = (kinds pushed origs)  kinds as above (1..5); pushed = list of (index timestamp) as
                                    delivered by PushTo; origs = the timestamps of the original tag
                                    objects read back after PushTo (must be the inputs) *)
From Coq Require Import ZArith List Bool.
From V Require Import Val StreamLts Cache C02Classify.
Import ListNotations.
Open Scope Z_scope.

Definition dec_codec (v : val) : codec := if as_int v =? 0 then H264 else H265.

Definition cres_code (r : cres) : Z := match r with CK k => k | CPanic => -1 | CFuel => -2 end.

Record ccase := { cc_codec : codec; cc_gop : bool; cc_pkts : list (Z * list Z) }.
Definition dec_ccase (v : val) : ccase :=
  {| cc_codec := dec_codec (nthv 0 v); cc_gop := as_bool (nthv 1 v);
     cc_pkts := map (fun p => (as_int (nthv 0 p), as_bytes (nthv 1 p))) (as_list (nthv 2 v)) |}.

Definition cc_kinds (c : ccase) : list Z :=
  map (fun p => cres_code (classify (cc_codec c) (fst p) (snd p))) (cc_pkts c).

(* packets that made it into CachePack's state change: id = index, kind as classified; a packet
   whose classification panicked never reaches the cache *)
Fixpoint number_from (i : Z) (kinds : list Z) : list pkt :=
  match kinds with
  | [] => []
  | k :: ks => (if k <? 0 then [] else [ {| p_id := i; p_kind := k |} ]) ++ number_from (i + 1) ks
  end.

Definition cc_model (c : ccase) : val :=
  let kinds := cc_kinds c in
  let cache := fold_left rc_add (number_from 0 kinds) (rc_empty (cc_gop c)) in
  VL [ vlist VI kinds; vlist (fun p => VI (p_id p)) (rc_snap cache) ].

Definition x_C02_classify (v : val) : val := cc_model (dec_ccase v).

(* oracle on (case observed): the observed kinds are the classifier's, and what PushTo delivered is
   the SPECIFICATION [spec_snap] of the observed kind sequence *)
Definition cc_ok (c : ccase) (obs : val) : bool :=
  let okinds := map as_int (as_list (nthv 0 obs)) in
  let opushed := map as_int (as_list (nthv 1 obs)) in
  list_eqb Z.eqb okinds (cc_kinds c) &&
  list_eqb Z.eqb opushed (map p_id (spec_snap (cc_gop c) (number_from 0 okinds))).

Definition x_C02_classify_ok (v : val) : val :=
  vbool (cc_ok (dec_ccase (nthv 0 v)) (nthv 1 v)).

(* ---- packetisation cases: the packetiser of the model feeds the real caches ----
   case = (codec form) with form = (0 nal) | (1 x y (nal ...)) | (2 nal (size ...));
   [x_C02_packetise] turns it into a classify case (gop on, video channel) for the harness;
   [x_C02_expected] = (wellformed expected-kinds) *)
Definition dec_pform (v : val) : pform :=
  match as_int (nthv 0 v) with
  | 0 => PSingle (as_bytes (nthv 1 v))
  | 1 => PAgg (as_int (nthv 1 v)) (as_int (nthv 2 v)) (map as_bytes (as_list (nthv 3 v)))
  | _ => PFrag (as_bytes (nthv 1 v)) (map as_nat (as_list (nthv 2 v)))
  end.

Definition x_C02_packetise (v : val) : val :=
  let c := dec_codec (nthv 0 v) in
  VL [ nthv 0 v; VI 1; vlist (fun p => VL [VI 0; VB p]) (packetise c (dec_pform (nthv 1 v))) ].

Definition x_C02_expected (v : val) : val :=
  let c := dec_codec (nthv 0 v) in let f := dec_pform (nthv 1 v) in
  VL [ vbool (pform_ok c f); vlist VI (expected c f) ].

(* ---- FLV ---- *)
Record fcase := { fcs_gop : bool; fcs_tags : list (Z * Z * list Z) }.
Definition dec_fcase (v : val) : fcase :=
  {| fcs_gop := as_bool (nthv 0 v);
     fcs_tags := map (fun t => (as_int (nthv 0 t), as_int (nthv 1 t), as_bytes (nthv 2 t))) (as_list (nthv 1 v)) |}.

Fixpoint ftags_from (i : Z) (l : list (Z * Z * list Z)) : list ftag :=
  match l with
  | [] => []
  | (ty, ts, d) :: l' => {| t_id := i; t_kind := flv_classify ty d; t_ts := ts |} :: ftags_from (i + 1) l'
  end.

Definition fcs_model (c : fcase) : val :=
  let tags := ftags_from 0 (fcs_tags c) in
  let '(cache', q) := fc_push (fold_left fc_add tags (fc_empty (fcs_gop c))) in
  VL [ vlist (fun t => VI (t_kind t)) tags;
       vlist (fun t => VL [VI (t_id t); VI (t_ts t)]) q;
       vlist (fun t => VI (t_ts t)) tags ].

Definition x_C02_classify_flv (v : val) : val := fcs_model (dec_fcase v).

Definition x_C02_classify_flv_ok (v : val) : val :=
  vbool (val_eqb (nthv 1 v) (fcs_model (dec_fcase (nthv 0 v)))).
