(* wire encoding of C18 cases; exported functions are [x_*] : val -> val *)
From Coq Require Import ZArith List Bool.
From V Require Import Val Bytes StrGo Route C18Users C18Tables C18CrashFs C18Conc.
Import ListNotations.
Open Scope Z_scope.

(* url.Parse as an oracle: the generator emits URLs it accepts, and one rejected
   class, a leading ':' ("missing protocol scheme"); the harness reports what
   Save returned, so the agreement is checked on every case *)
Definition url_ok_c18 (u : bytes) : bool := match u with 58 :: _ => false | _ => true end.

Definition dec_user (v : val) : user :=
  {| u_name := as_bytes (nthv 0 v); u_pw := as_bytes (nthv 1 v); u_admin := as_bool (nthv 2 v);
     u_push := as_bytes (nthv 3 v); u_pull := as_bytes (nthv 4 v) |}.
Definition enc_user (u : user) : val :=
  VL [VB (u_name u); VB (u_pw u); vbool (u_admin u); VB (u_push u); VB (u_pull u)].
Definition dec_route (v : val) : route :=
  {| r_pat := as_bytes (nthv 0 v); r_url := as_bytes (nthv 1 v); r_keep := as_bool (nthv 2 v) |}.
Definition enc_route (r : route) : val := VL [VB (r_pat r); VB (r_url r); vbool (r_keep r)].

Section Wire.
  Context {E X : Type}.
  Variable M : tops E X.
  Variable dec_e : val -> E.
  Variable enc_e : E -> val.
  Variable dec_x : val -> X.

  Definition dec_mop (v : val) : mop X :=
    match as_int (nthv 0 v) with
    | 0 => MSave (dec_x (nthv 1 v))
    | 1 => MDel (as_bytes (nthv 1 v))
    | 2 => MGet (as_bytes (nthv 1 v))
    | 3 => MAll
    | 4 => MFlush
    | _ => MRestart
    end.

  Definition enc_call (c : fcall E) : val :=
    vopt (fun x => VL [vlist enc_e (fst (fst x)); vlist VB (snd (fst x)); vlist VB (snd x)]) c.
  Definition dec_call (v : val) : fcall E :=
    as_opt (fun x => (map dec_e (as_list (nthv 0 x)), map as_bytes (as_list (nthv 1 x)),
                      map as_bytes (as_list (nthv 2 x)))) v.

  Definition enc_mout (o : mout E) : val :=
    match o with
    | OSaved ok => VL [VI 0; vbool ok]
    | ODeleted => VL [VI 1]
    | OGot g => VL [VI 2; vopt enc_e g]
    | OAllIs t => VL [VI 3; vlist enc_e t]
    | OFlushed c d => VL [VI 4; enc_call c; vopt (vlist enc_e) d]
    | ORestarted t => VL [VI 5; vlist enc_e t]
    end.
  Definition dec_mout (v : val) : mout E :=
    match as_int (nthv 0 v) with
    | 0 => OSaved (as_bool (nthv 1 v))
    | 1 => ODeleted
    | 2 => OGot (as_opt dec_e (nthv 1 v))
    | 3 => OAllIs (map dec_e (as_list (nthv 1 v)))
    | 4 => OFlushed (dec_call (nthv 1 v)) (as_opt (fun x => map dec_e (as_list x)) (nthv 2 v))
    | _ => ORestarted (map dec_e (as_list (nthv 1 v)))
    end.

  (* every history starts like the server: Reset on a provider whose file does not exist *)
  Definition start : mstate E * @disk E := (restart M None, None).

  Definition hist_run (c : val) : val :=
    vlist enc_mout (snd (mrun M start (map dec_mop (as_list c)))).
  Definition hist_ok (v : val) : val :=
    vbool (ok_hist M start (map dec_mop (as_list (nthv 0 v))) (map dec_mout (as_list (nthv 1 v)))).

  (* ---- the crash experiment ----
     case = (ops_old ops_delta ks old_file new_bytes):
       a first server runs ops_old and flushes (old_file = what is on disk then, as
       observed on the implementation; () = no file); a second server starts on
       that disk, runs ops_delta and flushes new_bytes, dying at every crash point. *)
  Record crash_case := {
    cc_d1 : @disk E;               (* the disk, as a table, before the second flush *)
    cc_told : list E;               (* what a restart would load from it *)
    cc_tnew : list E;               (* the table being flushed *)
    cc_ops : list fsop;             (* the file operations of the second flush *)
    cc_fs0 : fs }.

  Definition TGT : path := 0.
  Definition TMP : path := 1.

  Definition crash_case_of (c : val) : crash_case :=
    let ops_old := map dec_mop (as_list (nthv 0 c)) in
    let ops_delta := map dec_mop (as_list (nthv 1 c)) in
    let old_file := as_opt as_bytes (nthv 3 c) in
    let new_bytes := as_bytes (nthv 4 c) in
    let '(st1, d1) := fst (mrun M start (ops_old ++ [MFlush])) in
    let '(st2, _) := fst (mrun M (restart M d1, d1) ops_delta) in
    {| cc_d1 := d1; cc_told := load M d1; cc_tnew := m_tab st2;
       cc_ops := if pend_empty st2 then [] else safe_flush TGT TMP new_bytes;
       cc_fs0 := fun p => if Z.eqb p TGT then old_file else None |}.

  Definition selected (ks : list Z) (x : nat * nat * fs) : bool :=
    let k := Z.of_nat (snd (fst x)) in (k =? 0) || existsb (Z.eqb k) ks.

  Definition crash_run (c : val) : val :=
    let cc := crash_case_of c in
    let ks := map as_int (as_list (nthv 2 c)) in
    let n := length (cc_ops cc) in
    VL [ vbool (is_some (cc_d1 cc));
         VL (VB [98;101;103;105;110] :: map (fun o => VB (op_name o)) (cc_ops cc));
         VL (map (fun x : nat * nat * fs =>
                    let '(i, k, s) := x in
                    VL [vnat i; vnat k; vopt VB (s TGT); vopt VB (s TMP);
                        vsome (vlist enc_e (if (0 <? Z.of_nat n) && (Nat.eqb i n) then cc_tnew cc else cc_told cc))])
                 (filter (selected ks) (crash_states (cc_fs0 cc) (cc_ops cc)))) ].

  (* observed: same shape; the last component of a state is () when LoadAll failed *)
  Definition crash_okv (v : val) : val :=
    let cc := crash_case_of (nthv 0 v) in
    let loads := map (fun st => as_opt (fun x => map dec_e (as_list x)) (nthv 4 st)) (as_list (nthv 2 (nthv 1 v))) in
    vbool (crash_ok (tab_eqb M) (cc_told cc) (cc_tnew cc) loads).

  (* ---- several flushes, crashes in between: the directory is NOT cleaned ----
     case = (ops_old rounds old_file datas); round = (delta i k): a server starts on the directory as
     the previous round left it, applies delta, flushes datas[j] and dies at crash label (i, k);
     (5, 0) = the flush completes.  Each flush uses its own temporary name (TMP + j). *)
  Record rstate := { rs_fs : fs; rs_d : @disk E; rs_j : nat; rs_out : list val; rs_judge : list (list E * list E * bool) }.

  Definition strays (n : nat) (s : fs) : list val :=
    flat_map (fun j => match s (TMP + Z.of_nat j) with Some c => [VB c] | None => [] end) (seq 0 n).

  Definition round_step (n : nat) (datas : list val) (st : rstate) (r : val) : rstate :=
    let delta := map dec_mop (as_list (nthv 0 r)) in
    let i := as_nat (nthv 1 r) in
    let k := as_nat (nthv 2 r) in
    let d := rs_d st in
    let '(st2, _) := fst (mrun M (restart M d, d) delta) in
    let pending := negb (pend_empty st2) in
    let ops := if pending then safe_flush TGT (TMP + Z.of_nat (rs_j st)) (as_bytes (nth (rs_j st) datas (VB []))) else [] in
    let s' := crash_pick (rs_fs st) ops i k in
    let d' := if pending && Nat.eqb i 5 then Some (m_tab st2) else d in
    {| rs_fs := s'; rs_d := d'; rs_j := S (rs_j st);
       rs_out := rs_out st ++ [VL [vopt VB (s' TGT); VL (strays n s'); vsome (vlist enc_e (load M d'))]];
       rs_judge := rs_judge st ++ [(load M d, m_tab st2, Nat.eqb i 5)] |}.

  Definition rounds_final (c : val) : rstate :=
    let ops_old := map dec_mop (as_list (nthv 0 c)) in
    let rounds := as_list (nthv 1 c) in
    let old_file := as_opt as_bytes (nthv 2 c) in
    let datas := as_list (nthv 3 c) in
    let '(_, d1) := fst (mrun M start (ops_old ++ [MFlush])) in
    fold_left (round_step (length rounds) datas) rounds
      {| rs_fs := fun p => if Z.eqb p TGT then old_file else None; rs_d := d1; rs_j := O; rs_out := []; rs_judge := [] |}.

  Definition recrash_run (c : val) : val := VL (rs_out (rounds_final c)).

  Fixpoint rounds_judge (js : list (list E * list E * bool)) (obs : list val) : bool :=
    match js, obs with
    | [], [] => true
    | (told, tnew, complete) :: js', o :: obs' =>
        round_ok (tab_eqb M) told tnew complete (as_opt (fun x => map dec_e (as_list x)) (nthv 2 o)) &&
        rounds_judge js' obs'
    | _, _ => false
    end.
  Definition recrash_okv (v : val) : val :=
    vbool (rounds_judge (rs_judge (rounds_final (nthv 0 v))) (as_list (nthv 1 v))).

  (* ---- schedules with a Flush in flight (Model/C18Conc.v) ----
     event = (0 op) | (6 ok) start a Flush that parks in the provider | (7 op) API call meanwhile |
             (8) release; op as in the histories (0 Save 1 Del 2 Get 3 All 4 Flush 5 Restart) *)
  Definition dec_sev (v : val) : sev (X := X) :=
    match as_int (nthv 0 v) with
    | 6 => SStart (as_bool (nthv 1 v))
    | 7 => SDuring (dec_mop (nthv 1 v))
    | 8 => SRelease
    | _ => SOp (dec_mop v)
    end.
  Definition enc_sout (o : sout (E := E)) : val :=
    match o with
    | OOp x => enc_mout x
    | OStart p => VL [VI 6; vbool p]
    | ODuring b x => VL [VI 7; vbool b; vopt enc_mout x]
    | ORelease f x => VL [VI 8; vbool f; vopt enc_mout x]
    | OSkip => VL [VI 9]
    end.
  Definition dec_sout (v : val) : sout (E := E) :=
    match as_int (nthv 0 v) with
    | 6 => OStart (as_bool (nthv 1 v))
    | 7 => ODuring (as_bool (nthv 1 v)) (as_opt dec_mout (nthv 2 v))
    | 8 => ORelease (as_bool (nthv 1 v)) (as_opt dec_mout (nthv 2 v))
    | 9 => OSkip
    | _ => OOp (dec_mout v)
    end.
  Definition sched_run (c : val) : val :=
    vlist enc_sout (snd (srun M VWhole (rstart M) (map dec_sev (as_list c)))).
  Definition sched_ok (v : val) : val :=
    vbool (sok M VWhole (rstart M) (map dec_sev (as_list (nthv 0 v))) (map dec_sout (as_list (nthv 1 v)))).

  (* ---- the JSON laws on the implementation's decoder: a torn target file ----
     case = (ops_old ops_delta ks): after the two flushes the target is overwritten with
     its own prefixes of the lengths ks (0 = empty file) and loaded by a fresh provider;
     k = -1 stands for the complete file. *)
  Definition torn_table (c : val) : option (list E) :=
    let ops_old := map dec_mop (as_list (nthv 0 c)) in
    let ops_delta := map dec_mop (as_list (nthv 1 c)) in
    let '(st1, d1) := fst (mrun M start (ops_old ++ [MFlush])) in
    let '(st2, d2) := fst (mrun M (restart M d1, d1) (ops_delta ++ [MFlush])) in
    match d2 with None => None | Some _ => Some (load M d2) end.

  Definition torn_run (c : val) : val :=
    match torn_table c with
    | None => VL []
    | Some t =>
        VL (map (fun k => VL [k; vnone]) (as_list (nthv 2 c)) ++ [VL [VI (-1); vsome (vlist enc_e t)]])
    end.

  Definition torn_entry_ok (t : list E) (v : val) : bool :=
    let k := as_int (nthv 0 v) in
    let got := as_opt (fun x => map dec_e (as_list x)) (nthv 1 v) in
    if k =? 0 then negb (is_some got)                                   (* empty_invalid *)
    else if k <? 0 then opt_eqb (tab_eqb M) got (Some t)                (* roundtrip *)
    else match got with None => true | Some t' => tab_eqb M t' t end.   (* prefix_safe *)

  Definition torn_ok (v : val) : val :=
    match torn_table (nthv 0 v) with
    | None => vbool (match as_list (nthv 1 v) with [] => true | _ => false end)
    | Some t => vbool (forallb (torn_entry_ok t) (as_list (nthv 1 v)) &&
                       negb (match as_list (nthv 1 v) with [] => true | _ => false end))
    end.
End Wire.

Definition dec_ux (v : val) : user * bool := (dec_user (nthv 0 v), as_bool (nthv 1 v)).

Definition x_C18_users_run : val -> val := hist_run user_ops enc_user dec_ux.
Definition x_C18_users_ok : val -> val := hist_ok user_ops dec_user dec_ux.
Definition x_C18_routes_run : val -> val := hist_run (route_ops url_ok_c18) enc_route dec_route.
Definition x_C18_routes_ok : val -> val := hist_ok (route_ops url_ok_c18) dec_route dec_route.
Definition x_C18_ucrash_run : val -> val := crash_run user_ops enc_user dec_ux.
Definition x_C18_ucrash_ok : val -> val := crash_okv user_ops dec_user dec_ux.
Definition x_C18_rcrash_run : val -> val := crash_run (route_ops url_ok_c18) enc_route dec_route.
Definition x_C18_rcrash_ok : val -> val := crash_okv (route_ops url_ok_c18) dec_route dec_route.
Definition x_C18_utorn_run : val -> val := torn_run user_ops enc_user dec_ux.
Definition x_C18_utorn_ok : val -> val := torn_ok user_ops dec_user dec_ux.
Definition x_C18_rtorn_run : val -> val := torn_run (route_ops url_ok_c18) enc_route dec_route.
Definition x_C18_rtorn_ok : val -> val := torn_ok (route_ops url_ok_c18) dec_route dec_route.
Definition x_C18_urecrash_run : val -> val := recrash_run user_ops enc_user dec_ux.
Definition x_C18_urecrash_ok : val -> val := recrash_okv user_ops dec_user enc_user dec_ux.
Definition x_C18_rrecrash_run : val -> val := recrash_run (route_ops url_ok_c18) enc_route dec_route.
Definition x_C18_rrecrash_ok : val -> val := recrash_okv (route_ops url_ok_c18) dec_route enc_route dec_route.
Definition x_C18_usched_run : val -> val := sched_run user_ops enc_user dec_ux.
Definition x_C18_usched_ok : val -> val := sched_ok user_ops dec_user dec_ux.
Definition x_C18_rsched_run : val -> val := sched_run (route_ops url_ok_c18) enc_route dec_route.
Definition x_C18_rsched_ok : val -> val := sched_ok (route_ops url_ok_c18) dec_route dec_route.
