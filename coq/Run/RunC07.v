(* wire encoding of C07 cases; exported functions are [x_*] : val -> val.
   stream plan = (codec clock cc seq0 ksuffix pin events suffix)
     pin     () | (rtptime ntp_msw ntp_lsw)     leading sender report that fixes the clock base
     event   (4 seq ts mk payload)   arbitrary RTP payload behind a valid RTP header
             (5 bytes)               arbitrary RTCP packet on the control channel
     suffix  legal items (0 ts mk unit) | (1 ts mk (unit ...)) | (2 ts mk unit (size ...)), no loss
   stream case = (plan (wire-frame ...)); the harness reads only the wire frames. *)
From Coq Require Import ZArith List Bool.
From V Require Import Val Bytes C06Rtp C06NalDepack C06H264Depack C06H265Depack C06AacDepack C06SyncClock C06Demux
  C07Cache C07Contain C07Meta RunC06.
Import ListNotations.
Open Scope Z_scope.

Definition dec_raw (v : val) : ev :=
  match as_int (nthv 0 v) with
  | 4 => EData (mkP (as_int (nthv 1 v)) (as_int (nthv 2 v)) (as_bool (nthv 3 v)) (as_bytes (nthv 4 v)))
  | _ => ESr (as_bytes (nthv 1 v))
  end.

Definition dec_item (v : val) : item :=
  match dec_titem v with TData it => it | TSr _ _ _ => ISingle 0 false [] end.

Record c07case := mkC7 {
  s_cd : cd; s_clock : Z; s_cc : Z; s_seq0 : Z; s_k : Z;
  s_pinned : bool; s_rt : Z; s_msw : Z; s_lsw : Z;
  s_events : list ev; s_suffix : list item }.

Definition dec_c07 (v : val) : c07case :=
  let pin := nthv 5 v in
  {| s_cd := dec_cd (nthv 0 v); s_clock := as_int (nthv 1 v); s_cc := as_int (nthv 2 v);
     s_seq0 := as_int (nthv 3 v); s_k := as_int (nthv 4 v);
     s_pinned := match as_list pin with [] => false | _ => true end;
     s_rt := as_int (nthv 0 pin); s_msw := as_int (nthv 1 pin); s_lsw := as_int (nthv 2 pin);
     s_events := map dec_raw (as_list (nthv 6 v));
     s_suffix := map dec_item (as_list (nthv 7 v)) |}.

Definition c07_all_events (k : c07case) : list ev :=
  (if s_pinned k then [ESr (sr_bytes (s_rt k) (s_msw k) (s_lsw k))] else [])
  ++ s_events k ++ suffix_events (s_cd k) (s_seq0 k) (s_k k) (s_suffix k).

Definition x_C07_gen (v : val) : val :=
  let k := dec_c07 v in
  VL (map (fun e => VB (ev_wire (s_cd k) (s_cc k) e)) (c07_all_events k)).

Definition run_c07 (k : c07case) : list oframe * bool :=
  let '(_, fs, pn) := drun (s_cd k) (s_clock k) dst_init (c07_all_events k) in (fs, pn).

(* the stream's shared video metadata, observed after the run as three pseudo-frames (media types 97..99) *)
Definition is_hevc (c : cd) : bool := match c with CH265 => true | _ => false end.
Definition init_meta (c : cd) : vmeta :=
  match c with
  | CH265 => mkM [64; 1; 2] [66; 1; 2] [68; 1; 2]
  | _ => mkM [] [103; 1; 2; 3] [104; 1; 2; 3]
  end.
Definition meta_frames (m : vmeta) : list oframe := [mkO 97 0 (m_vps m); mkO 98 0 (m_sps m); mkO 99 0 (m_pps m)].
Definition video_nals (fs : list oframe) : list bytes := map o_pl (filter (fun o => o_mt o =? 0) fs).
Definition meta_after (c : cd) (fs : list oframe) : vmeta := meta_run (is_hevc c) (init_meta c) (video_nals fs).
Definition is_meta_frame (o : oframe) : bool := 97 <=? o_mt o.

Definition x_C07_run (v : val) : val :=
  let k := dec_c07 (nthv 0 v) in
  let '(fs, pn) := run_c07 k in enc_out (fs ++ meta_frames (meta_after (s_cd k) fs)) pn.

Definition ok_c07 (k : c07case) (obs : list oframe) (dead : bool) : bool :=
  ok_suffix (s_cd k) (s_clock k) (s_pinned k) (s_rt k) (s_suffix k) obs dead.

(* ... and the metadata the stream had before the input is the metadata it has afterwards *)
Definition meta_kept (c : cd) (obs : list oframe) : bool :=
  list_eqb oframe_eqb (filter is_meta_frame obs) (meta_frames (init_meta c)).

Definition x_C07_ok (v : val) : val :=
  let k := dec_c07 (nthv 0 (nthv 0 v)) in
  let '(obs, dead) := dec_obs (nthv 1 v) in
  vbool (ok_c07 k (filter (fun o => negb (is_meta_frame o)) obs) dead && meta_kept (s_cd k) obs).

(* inside the theorem's guard? *)
Definition c07_wf (k : c07case) : bool :=
  forallb ev_ok (s_events k) && suffix_ok (s_cd k) (s_suffix k) &&
  (if s_pinned k then u32 (s_rt k) && negb (s_rt k =? 0) else true).
Definition x_C07_wf (v : val) : val := vbool (c07_wf (dec_c07 v)).

(* cache classifiers *)
Definition enc_cls (o : option cls) : val :=
  match o with
  | None => VL [VB [33; 112; 97; 110; 105; 99]]
  | Some k => VL [vbool (k_vps k); vbool (k_sps k); vbool (k_pps k); vbool (k_key k)]
  end.
Definition x_C07_cls264 (v : val) : val := enc_cls (classify264 (as_bytes v)).
Definition x_C07_cls265 (v : val) : val := enc_cls (classify265 (as_bytes v)).

(* SyncClock.Decode on arbitrary RTCP bytes: (ok rtptime) *)
Definition x_C07_sr (v : val) : val :=
  match sr_decode (as_bytes v) with
  | CNo => VL [VI 0; VI 0]
  | CSet rt => VL [VI 1; VI rt]
  | CPanic => VL [VB [33; 112; 97; 110; 105; 99]]
  end.

(* the loosest oracle: the implementation answered (no panic, crash or hang marker) *)
Definition is_marker (v : val) : bool :=
  match v with
  | VL (VB (33 :: _) :: _) => true
  | _ => false
  end.
Definition x_C07_alive (v : val) : val := vbool (negb (is_marker (nthv 1 v))).

(* receive loop: every frame that is well-formed must be delivered, the others
   skipped; case = ((valid bytes) ...), observed = (delivered error-flag) *)
Definition x_C07_recv_ok (v : val) : val :=
  let frames := as_list (nthv 0 v) in
  let want := Z.of_nat (length (filter (fun f => as_bool (nthv 0 f)) frames)) in
  let obs := nthv 1 v in
  vbool (negb (is_marker obs) && (as_int (nthv 0 obs) =? want) && (as_int (nthv 1 obs) =? 0)).

(* the legal base streams are produced by C06's packetisers *)
Definition x_C07_legal (v : val) : val := x_C06_gen v.

(* ---- converters (C07Conv.v): case = (hevc sps pps vps aac asc ((kind payload) ...)) ---- *)
From V Require C08Flv C09Adts C09TsFrame.
From V Require Import C07Conv.

Definition conv_cfg (v : val) : C08Flv.cfg :=
  C08Flv.mkCfg (as_bool (nthv 0 v)) (as_bytes (nthv 1 v)) (as_bytes (nthv 2 v)) (as_bytes (nthv 3 v))
    (repeat 0 21) 0 0 0 0 (as_bool (nthv 4 v)) (as_bytes (nthv 5 v)) 44100 16 2 0 [].
Definition conv_frames (v : val) : list oframe :=
  map (fun f => mkO (as_int (nthv 0 f)) 1000000 (as_bytes (nthv 1 f))) (as_list (nthv 6 v)).
Definition zero_dts (fs : list oframe) : list Z := map (fun _ => 0) fs.

(* FLV: the muxer goroutine is alive after the frames; when the parameter sets
   are known from the start the number of media tags is the model's *)
Definition flvconv_ok (c : C08Flv.cfg) (fs : list oframe) (alive : bool) (ntags : Z) : bool :=
  match flv_run c false (flv_in (zero_dts fs) fs) with
  | None => false                               (* excluded by C07_flvpack_total for non-empty video frames *)
  | Some (_, tags) =>
      alive && (if psets_known c then ntags =? Z.of_nat (length (C08Flv.mux_frames c (flv_in (zero_dts fs) fs)))
                else true)
  end.
Definition x_C07_flvconv_ok (v : val) : val :=
  let c := nthv 0 v in let obs := nthv 1 v in
  vbool (negb (is_marker obs) &&
         flvconv_ok (conv_cfg c) (conv_frames c) (as_bool (nthv 0 obs)) (as_int (nthv 1 obs))).

(* TS: alive; video frames written = the model's (in-band SPS/PPS/AUD skipped);
   audio frames either all refused (undecodable config) or at most one per frame *)
Definition tsconv_ok (sps pps : bytes) (fs : list oframe) (alive : bool) (nvideo naudio : Z) : bool :=
  let cs := ts_in (zero_dts fs) fs in
  match ts_run sps pps None cs with
  | None => false
  | Some vf => alive && (nvideo =? Z.of_nat (length vf)) &&
               (naudio <=? Z.of_nat (length (filter (fun c => negb (C09TsFrame.c_video c)) cs)))
  end.
Definition x_C07_tsconv_ok (v : val) : val :=
  let c := nthv 0 v in let obs := nthv 1 v in
  vbool (negb (is_marker obs) &&
         tsconv_ok (as_bytes (nthv 1 c)) (as_bytes (nthv 2 c)) (conv_frames c)
                   (as_bool (nthv 0 obs)) (as_int (nthv 1 obs)) (as_int (nthv 2 obs))).

(* isolation replay: case = (pin (fault ...)); observed = ((panicked other_ok self_ok join_ok goroutines_ok) ...) per fault: all must be 0 1 1 1 1 *)
Definition iso_step_ok (v : val) : bool :=
  (as_int (nthv 0 v) =? 0) && (as_int (nthv 1 v) =? 1) && (as_int (nthv 2 v) =? 1) &&
  (as_int (nthv 3 v) =? 1) && (as_int (nthv 4 v) =? 1).
Definition x_C07_iso_ok (v : val) : val :=
  let faults := as_list (nthv 1 (nthv 0 v)) in
  let obs := nthv 1 v in
  vbool (negb (is_marker obs) && Nat.eqb (length (as_list obs)) (length faults) && forallb iso_step_ok (as_list obs)).

(* ---- real viewers on real transports (harness/transports, shared with C01 / C03) ----
   case = (refs packets clients events how) as in Run/RunC01Wire.v; observation =
   ((client ..) snapshots note); the snapshot before the closing event tells which sessions ended *)
From V Require C01Wire.
From V Require Import C07Transport.

Definition tr_pkt (v : val) : C01Wire.pkt := (as_int (nthv 0 v), as_bytes (nthv 1 v)).
Definition tr_chmap (v : val) (ch : Z) : Z :=
  if (0 <=? ch) && (ch <? 4) then as_int (nthv (Z.to_nat ch) v) else -1.
Definition tr_tag (v : val) : C01Wire.tag := (as_int (nthv 0 v), as_int (nthv 1 v), as_bytes (nthv 2 v)).

(* FLV viewers: the same tags (type, data) as an in-process consumer attached at the same moment;
   the time line of the tags is C01's / C08's business (hostile input bends presentation times) *)
Definition tag_same (a b : C01Wire.tag) : bool :=
  (C01Wire.tag_type a =? C01Wire.tag_type b) && bytes_eqb (snd a) (snd b).

Definition tr_check_client (pkts : list C01Wire.pkt) (cv ov : val) (ended : bool) : bool :=
  let kind := as_int (nthv 0 cv) in
  if (kind <? 4) || (kind =? 6) then
    tr_client_ok kind (tr_chmap (nthv 1 cv)) pkts (map tr_pkt (as_list (nthv 0 ov))) ended
  else negb ended && list_eqb tag_same (map tr_tag (as_list (nthv 1 ov))) (map tr_tag (as_list (nthv 0 ov))).

Fixpoint tr_all (pkts : list C01Wire.pkt) (cs os : list val) (es : list val) : bool :=
  match cs, os, es with
  | [], [], _ => true
  | c :: cs', o :: os', e :: es' => tr_check_client pkts c o (as_bool e) && tr_all pkts cs' os' es'
  | _, _, _ => false
  end.

Definition x_C07_tr_ok (v : val) : val :=
  let c := nthv 0 v in let obs := nthv 1 v in
  let pkts := map tr_pkt (as_list (nthv 1 c)) in
  let snaps := as_list (nthv 1 obs) in
  let before_close := nth (length snaps - 2) snaps (VL []) in
  vbool (negb (is_marker obs) && (2 <=? Z.of_nat (length snaps)) &&
         forallb C01Wire.pkt_wf pkts &&
         tr_all pkts (as_list (nthv 2 c)) (as_list (nthv 0 obs)) (as_list (nthv 4 before_close))).
