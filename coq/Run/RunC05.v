From Coq Require Import ZArith List Bool.
From V Require Import Val Bytes StrGo Registry.
Import ListNotations.
Open Scope Z_scope.

Definition dec_gop (v : val) : gop :=
  let a := nthv 1 v in
  match as_int (nthv 0 v) with
  | 0 => GNew (as_bytes a) (as_bool (nthv 2 v))
  | 1 => GRegist (as_nat a)
  | 2 => GUnregist (as_nat a)
  | 3 => GClose (as_nat a)
  | 4 => GGet (as_bytes a)
  | 5 => GCount
  | 6 => GList
  | 7 => GAttach (as_nat a) (as_bool (nthv 2 v))
  | 8 => GDetach (as_nat a) (as_bool (nthv 2 v))
  | 10 => GUnregistAll
  | 11 => GTick (as_int a)
  | 12 => GSeg (as_nat a)
  | 13 => GHlsPoll (as_nat a)
  | 14 => GHlsSeg (as_nat a) (as_int (nthv 2 v))
  | 15 => GFire
  | _ => GIdle (as_nat a) (as_int (nthv 2 v))        (* 9: idle decision with period *)
  end.

Definition enc_gout (o : gout) : val :=
  match o with
  | RUnit => VL [VI 0]
  | RGet r => VL [VI 1; vopt vnat r]
  | RCount a b => VL [VI 2; VI a; VI b]
  | RList l => VL [VI 3; vlist VB l]
  | RIdle b => VL [VI 4; vbool b]
  | RHls b => VL [VI 5; vbool b]
  end.
Definition dec_gout (v : val) : gout :=
  match as_int (nthv 0 v) with
  | 0 => RUnit
  | 1 => RGet (as_opt as_nat (nthv 1 v))
  | 2 => RCount (as_int (nthv 1 v)) (as_int (nthv 2 v))
  | 3 => RList (map as_bytes (as_list (nthv 1 v)))
  | 5 => RHls (as_bool (nthv 1 v))
  | _ => RIdle (as_bool (nthv 1 v))
  end.

Definition c05_variant (v : val) : rvariant :=
  {| v_unmap := as_bool (nthv 0 v); v_anycons := as_bool (nthv 1 v); v_hlsstamp := as_bool (nthv 2 v) |}.

(* the end of the history: per stream (live, consumers ever attached, Consumer.Close calls) *)
Definition enc_end (v : list (bool * Z * Z)) : val :=
  vlist (fun t => VL [vbool (fst (fst t)); VI (snd (fst t)); VI (snd t)]) v.
Definition dec_end (v : val) : list (bool * Z * Z) :=
  map (fun t => (as_bool (nthv 0 t), as_int (nthv 1 t), as_int (nthv 2 t))) (as_list v).

Definition c05_ops (c : val) : list gop := map dec_gop (as_list (nthv 1 c)).

(* case = (variant ops); observation = (answer_1 ... answer_n end_vector) *)
Definition x_C05_run (c : val) : val :=
  let r := grun (c05_variant (nthv 0 c)) rinit (c05_ops c) in
  VL (map enc_gout (snd r) ++ [enc_end (end_vec (g_streams (fst r)))]).

Definition x_C05_ok (v : val) : val :=
  let c := nthv 0 v in
  let obs := as_list (nthv 1 v) in
  vbool (ok_hist_end_C05 (c05_ops c) (map dec_gout (removelast obs)) (dec_end (last obs (VL [])))).

Definition x_C05_wf (c : val) : val := vbool (hist_wf sinit (c05_ops c)).
