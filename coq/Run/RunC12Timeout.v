(* wire wrapper for the timeout stream of C12.
   case = ( ((path sdpid mcast) ..) T ( (0 request) | (1 d patience) .. ) )
   observation = ( ( (0 ((class cseq) ..)) | (1 gone) .. ) note ) *)
From Coq Require Import ZArith List Bool.
From V Require Import Val Bytes StrGo C12RtspSession C12Timeout RunC12.
Import ListNotations.
Open Scope Z_scope.

Definition dec_tev (v : val) : tev :=
  match as_int (nthv 0 v) with
  | 0 => TReq (dec_req (nthv 1 v))
  | _ => TTick (as_int (nthv 1 v))
  end.
Definition dec_seen (v : val) : tseen :=
  match as_int (nthv 0 v) with
  | 0 => SeenResp (map (fun r => (as_int (nthv 0 r), as_bytes (nthv 1 r))) (as_list (nthv 1 v)))
  | _ => SeenTick (as_int (nthv 1 v))
  end.

Definition x_C12_timeout_ok (v : val) : val :=
  let c := nthv 0 v in
  let e := {| e_sdp := sdp_table; e_live := lookup_live (as_list (nthv 0 c)) |} in
  let T := as_int (nthv 1 c) in
  let evs := map dec_tev (as_list (nthv 2 c)) in
  let obs := map dec_seen (as_list (nthv 0 (nthv 1 v))) in
  (* an unevaluated case is cut short by the harness: compare on the common prefix *)
  vbool (ok_timeout (firstn (length obs) (snd (trun true T e (tinit T false []) evs))) obs).
