From Coq Require Import ZArith List Bool.
From V Require Import Val Bytes Writers C13Pool C13Shared.
Import ListNotations.
Open Scope Z_scope.

Definition dec_bop (v : val) : bop :=
  match as_int (nthv 0 v) with
  | 0 => BWrite (as_bytes (nthv 1 v)) (as_bool (nthv 2 v))
  | 2 => BWrite [] false   (* harness pause: empty writes that drain the limiter, then a sleep *)
  | _ => BFlush
  end.

(* case = (size ops); model trace with the verdicts written in the case *)
Definition x_C13_bconn_run (c : val) : val :=
  vlist (fun e => VL [VB (fst e); VI (snd e)])
        (b_trace (b_init (as_int (nthv 0 c))) (map dec_bop (as_list (nthv 1 c)))).

(* oracle on (case observed): observed = list of (sent-so-far buffered) after every operation *)
Definition x_C13_bconn_ok (v : val) : val :=
  let c := nthv 0 v in
  vbool (ok_bconn (as_int (nthv 0 c)) [] (map dec_bop (as_list (nthv 1 c)))
                  (map (fun e => (as_bytes (nthv 0 e), as_int (nthv 1 e))) (as_list (nthv 1 v)))).

Definition dec_msgs (v : val) : list msg := map (fun m => map as_bytes (as_list m)) (as_list v).

(* case = (media-messages request-messages schedule locked); each message = list of chunks *)
Definition x_C13_writers_run (c : val) : val :=
  let a := dec_msgs (nthv 0 c) in let b := dec_msgs (nthv 1 c) in
  let s := wrun (as_bool (nthv 3 c)) (map as_bool (as_list (nthv 2 c))) (winit a b) in
  VL [VB (w_sink s); vbool (wfinished s)].

(* oracle on ((a b …) sink): the sink is an order-preserving interleaving of complete messages *)
Definition x_C13_sink_ok (v : val) : val :=
  let c := nthv 0 v in
  let a := map msg_bytes (dec_msgs (nthv 0 c)) in let b := map msg_bytes (dec_msgs (nthv 1 c)) in
  vbool (ok_sink (length a + length b) a b (as_bytes (nthv 0 (nthv 1 v)))).

(* ---------- pooled staging buffers (Model/C13Pool.v) ---------- *)

(* instr = (0 v reset) | (1 v b) | (2 v bytes) | (3 v k) | (4 v) *)
Definition dec_instr (v : val) : instr :=
  match as_int (nthv 0 v) with
  | 0 => IGet (as_nat (nthv 1 v)) (as_bool (nthv 2 v))
  | 1 => IAlias (as_nat (nthv 1 v)) (as_nat (nthv 2 v))
  | 2 => IWrite (as_nat (nthv 1 v)) (as_bytes (nthv 2 v))
  | 3 => ISend (as_nat (nthv 1 v)) (as_nat (nthv 2 v))
  | _ => IPut (as_nat (nthv 1 v))
  end.
Definition dec_progs (v : val) : list (list instr) := map (fun p => map dec_instr (as_list p)) (as_list v).
Definition enc_obs (o : list (wconn * list bytes)) : val :=
  vlist (fun e => VL [vnat (fst e); vlist VB (snd e)]) o.

(* case = (programs schedule connections); schedule = ((goroutine choice) ..)
   result = (((k (message ..)) ..) (pool ..) finished disciplined) *)
Definition x_C13_pool_run (c : val) : val :=
  let progs := dec_progs (nthv 0 c) in
  let s := prun (map (fun e => (as_nat (nthv 0 e), as_nat (nthv 1 e))) (as_list (nthv 1 c))) (pinit progs) in
  VL [enc_obs (pobserve (map as_nat (as_list (nthv 2 c))) s); vlist vnat (ps_pool s);
      vbool (pfinished (length progs) s); vbool (disciplined progs)].

(* oracle on ((programs ..) (((k (message ..)) ..) (drained ..))): the function of C13_model_passes_pool *)
Definition x_C13_pool_ok (v : val) : val :=
  let progs := dec_progs (nthv 0 (nthv 0 v)) in
  let o := nthv 1 v in
  vbool (ok_pool progs
                 (map (fun e => (as_nat (nthv 0 e), map as_bytes (as_list (nthv 1 e)))) (as_list (nthv 0 o)))
                 (map as_nat (as_list (nthv 1 o)))).

(* ---------- shared packets (Model/C13Shared.v) ---------- *)
(* oracle on ((published ..) (after ..)): every published packet is unchanged after the history *)
Definition x_C13_pure_ok (v : val) : val :=
  vbool (ok_pure (map as_bytes (as_list (nthv 0 (nthv 0 v)))) (map as_bytes (as_list (nthv 0 (nthv 1 v))))).
(* oracle on ((published ..) ((packet announced body) ..)): the function of C13_model_passes_shared *)
Definition x_C13_frames_ok (v : val) : val :=
  let pub := map as_bytes (as_list (nthv 0 (nthv 0 v))) in
  vbool (ok_frames (fun i => nth i pub [])
                   (map (fun e => {| f_writer := O; f_pkt := as_nat (nthv 0 e); f_len := as_nat (nthv 1 e);
                                     f_body := as_bytes (nthv 2 e) |}) (as_list (nthv 0 (nthv 1 v))))).
