From V Require Import Val LtsWire LtsOracle.
Definition x_C03_lts (v : val) : val := lts_run v.
(* v = (case observed): the oracle of Properties/C03.v, theorem C03_model_passes *)
Definition x_C03_ok (v : val) : val := vbool (ok_C03 (dec_lcase (nthv 0 v)) (dec_obs (nthv 1 v))).
