(* wire encoding of the AudioSpecificConfig cases *)
From Coq Require Import ZArith List Bool.
From V Require Import Val Bytes C15BitFmt C15H264 C15Asc C15Pure RunC15.
Import ListNotations.
Open Scope Z_scope.

Definition enc_aobs (o : aobs) : val :=
  match o with None => VL [VI 0] | Some (r, c) => VL [VI 1; VI r; VI c] end.
Definition dec_aobs (v : val) : aobs :=
  match as_int (nthv 0 v) with 1 => Some (as_int (nthv 1 v), as_int (nthv 2 v)) | _ => None end.
Definition aobs_wellformed (v : val) : bool :=
  match v with VL [VI 0] => true | VL [VI 1; VI _; VI _] => true | _ => false end.

Definition x_C15_asc_emit (c : val) : val :=
  let e := dec_env c in if asc_wf e then VL [VB (asc_bytes e)] else VL [].
Definition x_C15_asc_run (c : val) : val := enc_twice enc_aobs (twice go_asc (as_bytes (nthv 1 c))).
Definition x_C15_asc_ok (v : val) : val :=
  let c := nthv 0 v in let o := nthv 1 v in
  let cfg := as_bytes (nthv 1 c) in
  vbool (both_wf aobs_wellformed o &&
         pure_ok aobs_eqb (ok_asc (dec_env (nthv 0 c)) cfg) cfg (dec_twice dec_aobs o)).
Definition x_C15_asc_bytes (c : val) : val := enc_twice enc_aobs (twice go_asc (as_bytes c)).
Definition x_C15_asc_total_ok (v : val) : val :=
  let o := nthv 1 v in
  vbool (both_wf aobs_wellformed o &&
         pure_ok aobs_eqb (fun _ => true) (as_bytes (nthv 0 v)) (dec_twice dec_aobs o)).
Definition x_C15_aac_glue_ok (v : val) : val := vbool (aobs_wellformed (nthv 1 v)).

(* ALS with more than 255 channels: known finding, oracle without the uint8 guard *)
Definition x_C15_asc_wide_emit (c : val) : val :=
  let e := dec_env c in
  if asc_wf_gen 65535 e && (255 <=? get e ka_als_chan) then VL [VB (asc_bytes e)] else VL [].
Definition x_C15_asc_wide_ok (v : val) : val :=
  let c := nthv 0 v in let o := nthv 1 v in
  let cfg := as_bytes (nthv 1 c) in
  vbool (both_wf aobs_wellformed o &&
         pure_ok aobs_eqb (ok_asc_wide (dec_env (nthv 0 c)) cfg) cfg (dec_twice dec_aobs o)).
