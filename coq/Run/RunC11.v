(* wire encoding of C11 cases; exported functions are [x_*] : val -> val *)
From Coq Require Import ZArith List Bool.
From V Require Import Val Bytes StrGo C16PathMatch C11AuthZ.
Import ListNotations.
Open Scope Z_scope.

Definition dec_user (v : val) : user :=
  {| u_name := as_bytes (nthv 0 v); u_pw := as_bytes (nthv 1 v); u_admin := as_bool (nthv 2 v);
     u_push := as_bytes (nthv 3 v); u_pull := as_bytes (nthv 4 v) |}.

Definition dec_tok (v : val) : tokv :=
  match as_int (nthv 0 v) with
  | 1 => TA (as_nat (nthv 1 v))
  | 2 => TR (as_nat (nthv 1 v))
  | 3 => TRaw (as_bytes (nthv 1 v))
  | _ => TNone
  end.

Definition dec_cred (v : val) : cred :=
  match as_int (nthv 0 v) with
  | 1 => CDigest (as_bytes (nthv 1 v)) (as_bytes (nthv 2 v)) (as_int (nthv 4 v)) (as_int (nthv 5 v))
  | _ => CNone
  end.

(* request headers of the client's choosing: ( ( key value ) ... ) *)
Definition dec_hdrs (v : val) : list (bytes * bytes) :=
  map (fun kv => (as_bytes (nthv 0 kv), as_bytes (nthv 1 kv))) (as_list v).

Definition dec_event (v : val) : event :=
  match as_int (nthv 0 v) with
  | 0 => ESave (dec_user (VL (tl (as_list v)))) (as_bool (nthv 6 v))
  | 1 => EDel (as_bytes (nthv 1 v))
  | 2 => ETick (as_int (nthv 1 v))
  | 3 => ELogin (as_bytes (nthv 1 v)) (as_bytes (nthv 2 v))
  | 4 => ERefresh (dec_tok (nthv 1 v))
  | 5 => ERtspOpen
  | 6 => ERtsp (as_nat (nthv 1 v)) (as_int (nthv 2 v)) (as_bytes (nthv 3 v)) (dec_cred (nthv 4 v))
  | 7 => EWsOpen (as_int (nthv 1 v)) (as_bytes (nthv 2 v)) (dec_tok (nthv 3 v)) (as_nat (nthv 4 v)) (dec_hdrs (nthv 5 v))
  | 8 => EWsRtsp (as_nat (nthv 1 v)) (as_int (nthv 2 v)) (as_bytes (nthv 3 v))
  | 9 => EWsp (as_nat (nthv 1 v)) (as_int (nthv 2 v)) (as_bytes (nthv 3 v))
  | 10 => EHttp (as_int (nthv 1 v)) (as_bytes (nthv 2 v)) (dec_tok (nthv 3 v)) (as_int (nthv 4 v)) (dec_hdrs (nthv 5 v))
  | 12 => EUrl (as_bytes (nthv 1 v)) (dec_tok (nthv 2 v)) (dec_hdrs (nthv 3 v))
  | _ => EApi (as_int (nthv 1 v)) (dec_tok (nthv 2 v)) (dec_user (nthv 3 v)) (as_bool (nthv 4 v)) (as_bytes (nthv 5 v))
              (dec_hdrs (nthv 6 v))
  end.

(* the shape of an observation depends on the kind of event *)
Definition enc_obs (ev : event) (o : obs) : val :=
  match ev with
  | ESave _ _ | EDel _ | ETick _ => VL [VI 0]
  | ELogin _ _ | ERefresh _ | EApi _ _ _ _ _ _ => VL [VI (o_code o)]
  | ERtspOpen => VL [VI (o_id o)]
  | ERtsp _ _ _ _ | EWsRtsp _ _ _ => VL [VI (o_code o); vbool (o_media o); VL (map VI (o_reg o)); VI (o_aux o)]
  | EWsOpen _ _ _ _ _ => VL [VI (o_code o); VI (o_aux o); vbool (o_media o); VI (o_id o)]
  | EWsp _ _ _ => VL [VI (o_code o); vbool (o_media o); VI (o_aux o)]
  | EHttp _ _ _ _ _ => VL [VI (o_code o); vbool (o_media o); VI (o_aux o)]
  | EUrl _ _ _ => VL [VI (o_code o); vbool (o_media o); VI (o_aux o); VI (o_id o)]
  end.

Definition dec_obs (ev : event) (v : val) : obs :=
  match ev with
  | ESave _ _ | EDel _ | ETick _ => ob (as_int (nthv 0 v)) 0 false 0
  | ELogin _ _ | ERefresh _ | EApi _ _ _ _ _ _ => ob (as_int (nthv 0 v)) 0 false 0
  | ERtspOpen => ob 0 0 false (as_int (nthv 0 v))
  | ERtsp _ _ _ _ | EWsRtsp _ _ _ =>
      {| o_code := as_int (nthv 0 v); o_aux := as_int (nthv 3 v); o_media := as_bool (nthv 1 v); o_id := 0;
         o_reg := map as_int (as_list (nthv 2 v)) |}
  | EWsOpen _ _ _ _ _ => ob (as_int (nthv 0 v)) (as_int (nthv 1 v)) (as_bool (nthv 2 v)) (as_int (nthv 3 v))
  | EWsp _ _ _ => ob (as_int (nthv 0 v)) (as_int (nthv 2 v)) (as_bool (nthv 1 v)) 0
  | EHttp _ _ _ _ _ => ob (as_int (nthv 0 v)) (as_int (nthv 2 v)) (as_bool (nthv 1 v)) 0
  | EUrl _ _ _ => ob (as_int (nthv 0 v)) (as_int (nthv 2 v)) (as_bool (nthv 1 v)) (as_int (nthv 3 v))
  end.

Definition case_users (c : val) : list user := map dec_user (as_list (nthv 0 (nthv 0 c))).
Definition case_ext (c : val) : list bytes := map as_bytes (as_list (nthv 1 (nthv 0 c))).
Definition case_watch (c : val) : list bytes := map as_bytes (as_list (nthv 2 (nthv 0 c))).
Definition case_events (c : val) : list event := map dec_event (as_list (nthv 1 c)).

Fixpoint enc_run (evs : list event) (os : list obs) : list val :=
  match evs, os with
  | e :: evs', o :: os' => enc_obs e o :: enc_run evs' os'
  | _, _ => []
  end.

Fixpoint dec_run (evs : list event) (vs : list val) : list obs :=
  match evs, vs with
  | e :: evs', v :: vs' => dec_obs e v :: dec_run evs' vs'
  | _, _ => []
  end.

(* model prediction *)
Definition x_C11_run (c : val) : val :=
  let evs := case_events c in
  VL (enc_run evs (run (case_watch c) (state0 (case_users c) (case_ext c)) evs)).

(* the behaviour before the repairs (used to show that the generated histories reach the defects) *)
Definition x_C11_run_orig (c : val) : val :=
  let evs := case_events c in
  VL (enc_run evs (run_gen false (case_watch c) (state0 (case_users c) (case_ext c)) evs)).

(* oracle on (case, observed) *)
Definition x_C11_ok (v : val) : val :=
  let c := nthv 0 v in
  let evs := case_events c in
  let vs := as_list (nthv 1 v) in
  vbool (Nat.eqb (length vs) (length evs) &&
         ok_run (case_watch c) (state0 (case_users c) (case_ext c)) evs (dec_run evs vs)).

(* D24 witness replayed on the implementation: ( predicted works distinct ) *)
Definition x_C11_predict_run (c : val) : val := VL [VI 0; VI 1; VI 1].
Definition x_C11_predict_ok (v : val) : val :=
  let o := nthv 1 v in
  vbool (negb (as_bool (nthv 0 o)) && as_bool (nthv 1 o) && as_bool (nthv 2 o)).

(* the strict oracle (decision on the served resource, no exclusion of the class of the known finding
   path-check-differs-from-served): applied to the witness histories of that class only *)
Definition x_C11_ok_strict (v : val) : val :=
  let c := nthv 0 v in
  let evs := case_events c in
  let vs := as_list (nthv 1 v) in
  vbool (Nat.eqb (length vs) (length evs) &&
         ok_run_strict (case_watch c) (state0 (case_users c) (case_ext c)) evs (dec_run evs vs)).
