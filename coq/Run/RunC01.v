From V Require Import Val LtsWire LtsOracle C04RawPkt.
(* packets of a case may be given by kind, (id kind), or by channel + RTP payload bytes,
   (id _ channel xPAYLOAD): the kind of the latter is the classification of Model/C02Classify.v
   (Model/C04RawPkt.v, [norm_case]) *)
Definition x_C01_lts (v : val) : val := lts_run (norm_case v).
(* v = (case observed): the oracle of Properties/C01.v, theorem C01_model_passes_on_the_wire_raw *)
Definition x_C01_ok (v : val) : val :=
  vbool (ok_C01 (dec_lcase (norm_case (nthv 0 v))) (dec_obs (nthv 1 v))).
