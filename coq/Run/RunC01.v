From V Require Import Val LtsWire LtsOracle.
Definition x_C01_lts (v : val) : val := lts_run v.
(* v = (case observed): the oracle of Properties/C01.v, theorem C01_model_passes *)
Definition x_C01_ok (v : val) : val := vbool (ok_C01 (dec_lcase (nthv 0 v)) (dec_obs (nthv 1 v))).
