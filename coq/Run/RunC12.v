(* wire encoding of C12 cases; exported functions are [x_*] : val -> val
   case = ( ws wspath ( (path sdpid mcast) .. ) ( watchpath .. ) ( request .. ) )
   request = ( meth cseq url path transport ctype_ok sdpid )
   observation = ( ( step .. ) finalreg [ ( media .. ) ] )
   step = ( ( (class cseq sess) .. ) eof ( (kind consumers) .. ) ) *)
From Coq Require Import ZArith List Bool.
From V Require Import Val Bytes StrGo C12RtspSession.
Import ListNotations.
Open Scope Z_scope.

Import C12Lit.

(* what service/rtsp parseSdp + getControlPath make of the SDP texts of the harness
   (checked against the real parser on every run by the stream "sdp_table") *)
Module C12RunLit.
Import Coq.Strings.String.
Definition c_s0 : bytes := Eval compute in bs "streamid=0".
Definition c_s1 : bytes := Eval compute in bs "streamid=1".
Definition c_abs0 : bytes := Eval compute in bs "rtsp://127.0.0.1:554/live/a/streamid=0".
Definition c_abs1 : bytes := Eval compute in bs "rtsp://127.0.0.1:554/live/a/streamid=1".
Definition c_trk : bytes := Eval compute in bs "trk".
End C12RunLit.
Import C12RunLit.

Definition sdp_table (id : Z) : option sdpinfo :=
  match id with
  | 1 => Some {| si_v := Some (CtlOk c_s0); si_a := Some (CtlOk c_s1) |}
  | 2 => Some {| si_v := Some (CtlOk c_s0); si_a := None |}
  | 3 => Some {| si_v := None; si_a := Some (CtlOk c_s1) |}
  | 5 => Some {| si_v := Some (CtlOk c_abs0); si_a := Some (CtlOk c_abs1) |}
  | 6 => Some {| si_v := Some (CtlOk []); si_a := Some (CtlOk c_s1) |}
  | 7 => Some {| si_v := Some CtlBad; si_a := Some (CtlOk c_s1) |}
  | 8 => Some {| si_v := Some (CtlOk c_trk); si_a := Some (CtlOk c_trk) |}
  | _ => None      (* 0 empty body, 4 not SDP *)
  end.

Definition enc_ctl (c : option ctl) : val :=
  match c with
  | None => VL []
  | Some CtlBad => VL [VI 0]
  | Some (CtlOk b) => VL [VI 1; VB b]
  end.
Definition x_C12_sdp (c : val) : val :=
  match sdp_table (as_int c) with
  | None => VL [VI 0]
  | Some si => VL [VI 1; enc_ctl (si_v si); enc_ctl (si_a si)]
  end.

Definition dec_meth (z : Z) : meth :=
  match z with
  | 0 => MOptions | 1 => MDescribe | 2 => MAnnounce | 3 => MSetup
  | 4 => MPlay | 5 => MRecord | 6 => MTeardown | k => MOther k
  end.

Definition dec_req (v : val) : request :=
  {| q_meth := dec_meth (as_int (nthv 0 v));
     q_cseq := as_bytes (nthv 1 v);
     q_url := as_bytes (nthv 2 v);
     q_path := as_bytes (nthv 3 v);
     q_transport := as_bytes (nthv 4 v);
     q_ctype_ok := as_bool (nthv 5 v);
     q_sdp := as_int (nthv 6 v) |}.

Fixpoint lookup_live (l : list val) (p : bytes) : option (Z * bool) :=
  match l with
  | [] => None
  | x :: l' => if bytes_eqb (as_bytes (nthv 0 x)) p
               then Some (as_int (nthv 1 x), as_bool (nthv 2 x))
               else lookup_live l' p
  end.

Definition c12_env (c : val) : env :=
  {| e_sdp := sdp_table; e_live := lookup_live (as_list (nthv 2 c)) |}.
Definition c12_ext (c : val) : list bytes := map (fun x => as_bytes (nthv 0 x)) (as_list (nthv 2 c)).
Definition c12_watch (c : val) : list bytes := map as_bytes (as_list (nthv 3 c)).
Definition c12_reqs (c : val) : list request := map dec_req (as_list (nthv 4 c)).
Definition c12_sess0 (c : val) : sess := init_sess (as_bool (nthv 0 c)) (as_bytes (nthv 1 c)).

Definition enc_resp (r : response) : val :=
  VL [VI (code_class (rs_code r)); VB (rs_cseq r); vbool (rs_sess r)].
Definition enc_reg (r : list (Z * Z)) : val := vlist (fun x => VL [VI (fst x); VI (snd x)]) r.
Definition enc_step (o : obs_step) : val :=
  VL [vlist enc_resp (o_resps o); vbool (o_eof o); enc_reg (o_reg o)].

(* responses travel as classes; a class is its own representative code *)
Definition dec_resp (v : val) : response :=
  {| rs_code := match as_int (nthv 0 v) with 2 => 200 | 455 => 455 | 4 => 400 | 5 => 500 | _ => 0 end;
     rs_cseq := as_bytes (nthv 1 v); rs_sess := as_bool (nthv 2 v) |}.
Definition dec_reg (v : val) : list (Z * Z) :=
  map (fun x => (as_int (nthv 0 x), as_int (nthv 1 x))) (as_list v).
Definition dec_step (vm : val * bool) : obs_step :=
  let v := fst vm in
  {| o_resps := map dec_resp (as_list (nthv 0 v)); o_eof := as_bool (nthv 1 v);
     o_reg := dec_reg (nthv 2 v); o_media := snd vm |}.

Fixpoint zip_media (l : list val) (m : list val) : list (val * bool) :=
  match l with
  | [] => []
  | x :: l' => match m with
               | [] => (x, false) :: zip_media l' []
               | b :: m' => (x, as_bool b) :: zip_media l' m'
               end
  end.

Definition enc_obs (o : list obs_step * list (Z * Z)) : val :=
  VL [vlist enc_step (fst o); enc_reg (snd o)].

(* model prediction (repaired behaviour) *)
Definition x_C12_run (c : val) : val :=
  enc_obs (run_case true (c12_env c) (c12_watch c) (c12_ext c) (c12_sess0 c) (c12_reqs c)).
(* the behaviour of the code before the fix: commits (D25, D25b) *)
Definition x_C12_run_orig (c : val) : val :=
  enc_obs (run_case false (c12_env c) (c12_watch c) (c12_ext c) (c12_sess0 c) (c12_reqs c)).

(* oracle on (case observed): the specification monitor *)
Definition x_C12_ok (v : val) : val :=
  let c := nthv 0 v in let obs := nthv 1 v in
  let steps := map dec_step (zip_media (as_list (nthv 0 obs)) (as_list (nthv 2 obs))) in
  vbool (forallb req_wf (c12_reqs c) &&
         c12_ok (registry (c12_ext c) HNone (c12_watch c)) (c12_reqs c) (steps, dec_reg (nthv 1 obs))).

(* ParseTransport alone: (mode0 type0 text) -> (mode type err) *)
Definition enc_mode (m : smode) : Z := match m with MdUnknown => 0 | MdPlay => 1 | MdRecord => 2 end.
Definition dec_mode (z : Z) : smode := match z with 1 => MdPlay | 2 => MdRecord | _ => MdUnknown end.
Definition enc_type (t : ttype) : Z := match t with TUnknown => 0 | TTcp => 1 | TUdp => 2 | TMcast => 3 end.
Definition dec_type (z : Z) : ttype := match z with 1 => TTcp | 2 => TUdp | 3 => TMcast | _ => TUnknown end.
Definition x_C12_transport (c : val) : val :=
  let t0 := {| t_mode := dec_mode (as_int (nthv 0 c)); t_type := dec_type (as_int (nthv 1 c)) |} in
  let '(t, err) := parse_transport t0 (as_bytes (nthv 2 c)) in
  VL [VI (enc_mode (t_mode t)); VI (enc_type (t_type t)); vbool err].

(* oracle on (case observed) of the parse_transport stream: the implementation's verdict is the
   order-independent specification's (theorem C12_transport_error_is_spec says the model's is) *)
Definition x_C12_transport_ok (v : val) : val :=
  let c := nthv 0 v in let obs := nthv 1 v in
  vbool (Bool.eqb (as_bool (nthv 2 obs)) (transport_invalid (as_bytes (nthv 2 c)))).
