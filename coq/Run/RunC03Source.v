(* wire wrappers of the stream "source-release" of checks/c03.py (harness/transports/source.go).
   case        = (kinds events)    kinds = transport of every player; events = ((0 r) publisher request: 0 OPTIONS,
                                   1 ANNOUNCE, 2 SETUP, 3 RECORD | (1 c) player c attaches | (2 c mode) player c leaves |
                                   (3) another publisher takes the path | (4 how) the source ends: 0 TEARDOWN, 1 dropped)
   observation = (((consumers per stream ..) rtsp flv wsp (ended ..) (demuxers flv-muxers ts-muxers)) ..) per event *)
From Coq Require Import ZArith List Bool.
From V Require Import Val C03Source.
Import ListNotations.
Open Scope Z_scope.

Definition dec_sev (v : val) : sev :=
  match as_int (nthv 0 v) with
  | 0 => SReq (match as_int (nthv 1 v) with 0 => QOptions | 1 => QAnnounce | 2 => QSetup | _ => QRecord end)
  | 1 => SAttach (as_nat (nthv 1 v))
  | 2 => SDetach (as_nat (nthv 1 v))
  | 3 => SOther
  | _ => SEnd
  end.
Definition dec_skinds (c : val) : list Z := map as_int (as_list (nthv 0 c)).
Definition dec_shist (c : val) : list sev := map dec_sev (as_list (nthv 1 c)).

Definition enc_sobs (o : sobs) : val :=
  VL [vlist VI (so_gens o); VI (so_rtsp o); VI (so_flv o); VI (so_wsp o); vlist vbool (so_ended o);
      VL [VI (so_conv o); VI (so_conv o); VI (so_conv o)]].
Definition dec_sobs (v : val) : sobs :=
  let cv := map as_int (as_list (nthv 5 v)) in
  {| so_gens := map as_int (as_list (nthv 0 v)); so_rtsp := as_int (nthv 1 v); so_flv := as_int (nthv 2 v);
     so_wsp := as_int (nthv 3 v); so_ended := map as_bool (as_list (nthv 4 v));
     so_conv := match cv with
                | [a; b; c] => if (a =? b) && (b =? c) then a else -1
                | _ => -1
                end |}.

Definition x_C03_source_wf (c : val) : val :=
  vbool (swf true (length (dec_skinds c)) sinit (dec_shist c)).

Definition x_C03_source_run (c : val) : val :=
  vlist enc_sobs (strace true (length (dec_skinds c)) (dec_skinds c) sinit (dec_shist c)).

(* v = (case observed): the oracle of Properties/C03.v, theorem C03_source_model_passes *)
Definition x_C03_source_ok (v : val) : val :=
  let c := nthv 0 v in
  vbool (negb (is_panic (nthv 1 v))
         && ok_source (length (dec_skinds c)) (dec_skinds c) (dec_shist c) (map dec_sobs (as_list (nthv 1 v)))).
