(* wire encoding of the H.265 cases *)
From Coq Require Import ZArith List Bool.
From V Require Import Val Bytes C15BitFmt C15Ebsp C15H264 C15Hevc C15Pure RunC15.
Import ListNotations.
Open Scope Z_scope.

Definition x_C15_h265_emit (c : val) : val :=
  match emit std_h265_sps (dec_env c) env0 with
  | Some (b, a) => if h265_ranges a then VL [VB (nal_of_bits b)] else VL []
  | None => VL []
  end.
Definition x_C15_h265_run (c : val) : val := enc_twice enc_vobs (twice go_h265_obs (as_bytes (nthv 1 c))).
Definition x_C15_h265_ok (v : val) : val :=
  let c := nthv 0 v in let o := nthv 1 v in
  let nal := as_bytes (nthv 1 c) in
  vbool (both_wf obs_wellformed o &&
         pure_ok vobs_eqb (ok_h265 (dec_env (nthv 0 c)) nal) nal (dec_twice dec_vobs o)).
Definition x_C15_h265_bytes (c : val) : val := enc_twice enc_vobs (twice go_h265_obs (as_bytes c)).
Definition x_C15_h265_glue_ok (v : val) : val :=
  let c := nthv 0 v in let o := nthv 1 v in
  vbool (obs_wellformed (nthv 0 o) && zlist_eqb (as_bytes (nthv 1 o)) (remove_separator (as_bytes (nthv 1 c))) &&
         ok_h265 (dec_env (nthv 0 c)) (as_bytes (nthv 1 c)) (dec_vobs (nthv 0 o))).
Definition x_C15_h265_d29 (c : val) : val := enc_vobs (go_h265_decode_with go_h265_sps_d29 (as_bytes c)).

Definition enc_pobs (o : pobs) : val :=
  match o with None => VL [VI 0] | Some (a, b, c) => VL [VI 1; VI a; VI b; VI c] end.
Definition dec_pobs (v : val) : pobs :=
  match as_int (nthv 0 v) with
  | 1 => Some (as_int (nthv 1 v), as_int (nthv 2 v), as_int (nthv 3 v))
  | _ => None
  end.
Definition pobs_wellformed (v : val) : bool :=
  match v with VL [VI 0] => true | VL [VI 1; VI _; VI _; VI _] => true | _ => false end.
Definition x_C15_vps_emit (c : val) : val :=
  match emit std_h265_vps (dec_env c) env0 with
  | Some (b, a) => VL [VB (nal_of_bits b)]
  | None => VL []
  end.
Definition x_C15_vps_run (c : val) : val := enc_twice enc_pobs (twice go_vps_obs (as_bytes (nthv 1 c))).
Definition x_C15_vps_ok (v : val) : val :=
  let c := nthv 0 v in let o := nthv 1 v in
  let nal := as_bytes (nthv 1 c) in
  vbool (both_wf pobs_wellformed o &&
         pure_ok pobs_eqb (ok_vps (dec_env (nthv 0 c)) nal) nal (dec_twice dec_pobs o)).
Definition x_C15_vps_bytes (c : val) : val := enc_twice enc_pobs (twice go_vps_obs (as_bytes c)).
Definition x_C15_vps_total_ok (v : val) : val :=
  let o := nthv 1 v in
  vbool (both_wf pobs_wellformed o &&
         pure_ok pobs_eqb (fun _ => true) (as_bytes (nthv 0 v)) (dec_twice dec_pobs o)).

(* D30 witnesses: the last short-term RPS uses inter prediction *)
Definition x_C15_h265i_emit (c : val) : val :=
  match emit std_h265_sps_i (dec_env c) env0 with
  | Some (b, a) => if h265_ranges a && uses_inter_rps a then VL [VB (nal_of_bits b)] else VL []
  | None => VL []
  end.
Definition x_C15_h265i_ok (v : val) : val :=
  let c := nthv 0 v in let o := nthv 1 v in
  let nal := as_bytes (nthv 1 c) in
  vbool (both_wf obs_wellformed o &&
         pure_ok vobs_eqb (ok_h265_i (dec_env (nthv 0 c)) nal) nal (dec_twice dec_vobs o)).

(* SDP glue: Stream.Video stays empty when the SPS does not decode or decodes to width 0 *)
Definition glue_view (o : vobs) : vobs :=
  match o with Some (0, _, _, _) => None | _ => o end.
(* the SDP code stores the sprop parameter set after utils.RemoveNaluSeparator and parses that:
   observation = (what Stream.Video reports, the stored Sps) *)
Definition glue_obs (f : list Z -> vobs) (nal : list Z) : val :=
  let st := remove_separator nal in VL [enc_vobs (glue_view (f st)); VB st].
Definition x_C15_h264_glue (c : val) : val := glue_obs go_h264_obs (as_bytes (nthv 1 c)).
Definition x_C15_h264_glueb (c : val) : val := glue_obs go_h264_obs (as_bytes c).
Definition x_C15_h265_glue (c : val) : val := glue_obs go_h265_obs (as_bytes (nthv 1 c)).
Definition x_C15_h265_glueb (c : val) : val := glue_obs go_h265_obs (as_bytes c).
(* stored = the bytes sent without a start-code prefix *)
Definition stored_ok (nal : list Z) (o : val) : bool :=
  zlist_eqb (as_bytes (nthv 1 o)) (remove_separator nal).
Definition x_C15_sdpaac (c : val) : val := VL [VI 1; VI 48000; VI 2].
