#!/bin/sh
# regenerate _CoqProject from the files on disk (one logical root V)
cd "$(dirname "$0")"
{ echo "-Q . V"; echo "-arg -w -arg -notation-overridden,-deprecated-hint-without-locality,-deprecated-instance-without-locality"; ls Base/*.v Model/*.v Proofs/*.v Properties/*.v Run/*.v 2>/dev/null | sort; } > _CoqProject
coq_makefile -f _CoqProject -o Makefile.coq >/dev/null
