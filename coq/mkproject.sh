#!/bin/sh
# regenerate _CoqProject / Makefile.coq from the files on disk (one logical root V); atomic, only when changed
cd "$(dirname "$0")"
tmp=$(mktemp ./.proj.XXXXXX)
{ echo "-Q . V"; echo "-arg -w -arg -notation-overridden,-deprecated-hint-without-locality,-deprecated-instance-without-locality"; ls Base/*.v Model/*.v Proofs/*.v Properties/*.v Run/*.v 2>/dev/null | sort; } > "$tmp"
if [ -f _CoqProject ] && [ -f Makefile.coq ] && cmp -s "$tmp" _CoqProject; then rm -f "$tmp"; exit 0; fi
mv "$tmp" _CoqProject
coq_makefile -f _CoqProject -o Makefile.coq >/dev/null
