(* C16 — proofs: the string-scanning matcher of provider/auth (as repaired)
   equals the documented pattern language over segment lists, for every right
   string, administrator flag and path (no length bound, no alphabet guard:
   the byte model is total; ASCII is an assumption of the correspondence only). *)
From Coq Require Import ZArith List Bool Lia Arith.
From V Require Import Bytes StrGo BytesLemmas C16PathMatch.
Import ListNotations.
Open Scope Z_scope.

(* ------------------------------------------------------------------ *)
(* trimming                                                            *)

Lemma trim_left_app_all f a b : forallb f a = true -> trim_left f (a ++ b) = trim_left f b.
Proof.
  induction a as [|c a IH]; simpl; intros H; [reflexivity|].
  apply andb_true_iff in H as [Hc Ha]. rewrite Hc. auto.
Qed.

Lemma trim_left_all f a : forallb f a = true -> trim_left f a = [].
Proof.
  intros H. rewrite <- (app_nil_r a). rewrite trim_left_app_all by exact H. reflexivity.
Qed.

Lemma trim_left_decomp f s : exists a, s = a ++ trim_left f s /\ forallb f a = true.
Proof.
  induction s as [|c s [a [E Ha]]]; simpl.
  - exists []. auto.
  - destruct (f c) eqn:Hc.
    + exists (c :: a). simpl. rewrite Hc, Ha. split; [congruence|reflexivity].
    + exists []. auto.
Qed.

Lemma trim_left_app_split f s w :
  trim_left f (s ++ w) = if forallb f s then trim_left f w else trim_left f s ++ w.
Proof.
  induction s as [|c s IH]; simpl; [reflexivity|].
  destruct (f c); simpl; auto.
Qed.

Lemma forallb_rev {A} (f : A -> bool) l : forallb f (rev l) = forallb f l.
Proof.
  induction l as [|x l IH]; simpl; [reflexivity|].
  rewrite forallb_app, IH. simpl. rewrite andb_true_r. apply andb_comm.
Qed.

Lemma trim_right_app_all f s w : forallb f w = true -> trim_right f (s ++ w) = trim_right f s.
Proof.
  intros H. unfold trim_right. rewrite rev_app_distr.
  rewrite trim_left_app_all; [reflexivity|]. rewrite forallb_rev. exact H.
Qed.

Lemma trim_right_all f w : forallb f w = true -> trim_right f w = [].
Proof.
  intros H. unfold trim_right. rewrite trim_left_all; [reflexivity|]. rewrite forallb_rev. exact H.
Qed.

Lemma trim_right_decomp f s : exists w, s = trim_right f s ++ w /\ forallb f w = true.
Proof.
  destruct (trim_left_decomp f (rev s)) as [a [E Ha]].
  exists (rev a). split.
  - unfold trim_right. rewrite <- rev_app_distr, <- E, rev_involutive. reflexivity.
  - rewrite forallb_rev. exact Ha.
Qed.

Lemma trim_fn_app_all_l f a s : forallb f a = true -> trim_fn f (a ++ s) = trim_fn f s.
Proof. intros H. unfold trim_fn. rewrite trim_left_app_all by exact H. reflexivity. Qed.

Lemma trim_fn_app_all_r f s w : forallb f w = true -> trim_fn f (s ++ w) = trim_fn f s.
Proof.
  intros H. unfold trim_fn. rewrite trim_left_app_split.
  destruct (forallb f s) eqn:Hs.
  - rewrite (trim_left_all f w H), (trim_left_all f s Hs). reflexivity.
  - apply trim_right_app_all. exact H.
Qed.

Lemma trim_fn_all f a : forallb f a = true -> trim_fn f a = [].
Proof. intros H. unfold trim_fn. rewrite trim_left_all by exact H. reflexivity. Qed.

(* s = blanks ++ trim_fn f s ++ blanks *)
Lemma trim_fn_decomp f s :
  exists a w, s = a ++ trim_fn f s ++ w /\ forallb f a = true /\ forallb f w = true.
Proof.
  destruct (trim_left_decomp f s) as [a [E Ha]].
  destruct (trim_right_decomp f (trim_left f s)) as [w [E' Hw]].
  exists a, w. unfold trim_fn. rewrite <- E'. auto.
Qed.

Lemma trim_fn_length f s : (length (trim_fn f s) <= length s)%nat.
Proof.
  destruct (trim_fn_decomp f s) as [a [w [E _]]].
  rewrite E at 2. rewrite !app_length. lia.
Qed.

Lemma trim_left_none f s : forallb (fun c => negb (f c)) s = true -> trim_left f s = s.
Proof.
  destruct s as [|c s]; simpl; [reflexivity|]. intros H.
  apply andb_true_iff in H as [Hc _]. apply negb_true_iff in Hc. rewrite Hc. reflexivity.
Qed.

Lemma trim_fn_none f s : forallb (fun c => negb (f c)) s = true -> trim_fn f s = s.
Proof.
  intros H. unfold trim_fn, trim_right. rewrite (trim_left_none f s H).
  rewrite trim_left_none; [apply rev_involutive|]. rewrite forallb_rev. exact H.
Qed.

Lemma trim_left_map f (g : Z -> Z) s :
  (forall c, f (g c) = f c) -> trim_left f (map g s) = map g (trim_left f s).
Proof.
  intros Hg. induction s as [|c s IH]; simpl; [reflexivity|].
  rewrite Hg. destruct (f c); auto.
Qed.

Lemma trim_fn_map f (g : Z -> Z) s :
  (forall c, f (g c) = f c) -> trim_fn f (map g s) = map g (trim_fn f s).
Proof.
  intros Hg. unfold trim_fn, trim_right.
  rewrite (trim_left_map f g s Hg), <- map_rev, (trim_left_map f g _ Hg), map_rev. reflexivity.
Qed.

Lemma is_space_lower c : is_space (lower_byte c) = is_space c.
Proof.
  unfold is_space, lower_byte.
  destruct ((65 <=? c) && (c <=? 90)) eqn:H; [|reflexivity].
  apply andb_true_iff in H as [H1 H2]. apply Z.leb_le in H1. apply Z.leb_le in H2.
  repeat match goal with
         | |- context [?a <=? ?b] => destruct (Z.leb_spec a b)
         | |- context [?a =? ?b] => destruct (Z.eqb_spec a b)
         end; try lia; reflexivity.
Qed.

Lemma eqb_lower_nonletter d c :
  lower_byte d = d -> (forall x, lower_byte x = d -> x = d) -> Z.eqb (lower_byte c) d = Z.eqb c d.
Proof.
  intros Hd Hinj. destruct (Z.eqb c d) eqn:E.
  - apply Z.eqb_eq in E. subst. rewrite Hd. apply Z.eqb_refl.
  - apply Z.eqb_neq. intros H. apply Hinj in H. apply Z.eqb_neq in E. contradiction.
Qed.

Lemma lower_eq_slash c : Z.eqb (lower_byte c) SLASH = Z.eqb c SLASH.
Proof.
  apply eqb_lower_nonletter; [reflexivity|].
  intros x. unfold lower_byte, SLASH.
  destruct ((65 <=? x) && (x <=? 90)) eqn:H; [|auto].
  apply andb_true_iff in H as [H1 H2]. apply Z.leb_le in H1. lia.
Qed.

Lemma trim_space_lower s : trim_space (to_lower s) = to_lower (trim_space s).
Proof. apply trim_fn_map. apply is_space_lower. Qed.

Lemma trim_slash_lower s : trim_byte SLASH (to_lower s) = to_lower (trim_byte SLASH s).
Proof.
  apply trim_fn_map. intros c. rewrite Z.eqb_sym, lower_eq_slash. apply Z.eqb_sym.
Qed.

Lemma split_acc_lower s cur :
  split_on_acc SLASH (to_lower s) (to_lower cur) = map to_lower (split_on_acc SLASH s cur).
Proof.
  revert cur. induction s as [|c s IH]; intros cur; simpl.
  - unfold to_lower. rewrite map_rev. reflexivity.
  - rewrite lower_eq_slash. destruct (Z.eqb c SLASH).
    + simpl. f_equal; [unfold to_lower; rewrite map_rev; reflexivity | apply (IH [])].
    + apply (IH (c :: cur)).
Qed.

Lemma split_lower s : split_on SLASH (to_lower s) = map to_lower (split_on SLASH s).
Proof. apply (split_acc_lower s []). Qed.

(* ------------------------------------------------------------------ *)
(* cut and split_on                                                    *)

Definition nodelim (d : Z) (s : bytes) : bool := forallb (fun c => negb (Z.eqb c d)) s.

Lemma nodelim_sym d s : forallb (fun c => negb (Z.eqb d c)) s = nodelim d s.
Proof.
  unfold nodelim. induction s as [|c s IH]; cbn [forallb]; [reflexivity|].
  rewrite IH, (Z.eqb_sym d c). reflexivity.
Qed.

Lemma split_on_acc_cut d s cur :
  split_on_acc d s cur =
  match cut d s with
  | None => [rev cur ++ s]
  | Some (a, b) => (rev cur ++ a) :: split_on_acc d b []
  end.
Proof.
  revert cur. induction s as [|c s IH]; intros cur; simpl.
  - rewrite app_nil_r. reflexivity.
  - destruct (Z.eqb c d).
    + rewrite app_nil_r. reflexivity.
    + rewrite IH. simpl. destruct (cut d s) as [[a b]|]; rewrite <- app_assoc; reflexivity.
Qed.

Lemma split_on_cut d s :
  split_on d s = match cut d s with None => [s] | Some (a, b) => a :: split_on d b end.
Proof. unfold split_on. rewrite split_on_acc_cut. reflexivity. Qed.

Lemma cut_length d s a b : cut d s = Some (a, b) -> (length b < length s)%nat.
Proof.
  revert a b. induction s as [|c s IH]; simpl; intros a b H; [discriminate|].
  destruct (Z.eqb c d).
  - inversion H; subst. lia.
  - destruct (cut d s) as [[a' b']|]; [|discriminate].
    inversion H; subst. specialize (IH a' b eq_refl). lia.
Qed.

Lemma cut_nodelim d s : nodelim d s = true -> cut d s = None.
Proof.
  induction s as [|c s IH]; simpl; [reflexivity|]. intros H.
  apply andb_true_iff in H as [Hc Hs]. apply negb_true_iff in Hc. rewrite Hc, (IH Hs). reflexivity.
Qed.

Lemma cut_app_r d s w :
  nodelim d w = true ->
  cut d (s ++ w) = match cut d s with None => None | Some (a, b) => Some (a, b ++ w) end.
Proof.
  intros Hw. induction s as [|c s IH]; simpl.
  - apply cut_nodelim. exact Hw.
  - destruct (Z.eqb c d); [reflexivity|]. rewrite IH. destruct (cut d s) as [[a b]|]; reflexivity.
Qed.

Lemma cut_app_l d a s :
  nodelim d a = true ->
  cut d (a ++ s) = match cut d s with None => None | Some (x, b) => Some (a ++ x, b) end.
Proof.
  induction a as [|c a IH]; simpl; intros H.
  - destruct (cut d s) as [[x b]|]; reflexivity.
  - apply andb_true_iff in H as [Hc Ha]. apply negb_true_iff in Hc. rewrite Hc, (IH Ha).
    destruct (cut d s) as [[x b]|]; reflexivity.
Qed.

Lemma cut_ind d (P : bytes -> Prop) :
  (forall s, cut d s = None -> P s) ->
  (forall s a b, cut d s = Some (a, b) -> P b -> P s) ->
  forall s, P s.
Proof.
  intros Hn Hs s. remember (length s) as n eqn:En. revert s En.
  induction n as [n IH] using lt_wf_ind. intros s En.
  destruct (cut d s) as [[a b]|] eqn:Hc.
  - apply (Hs s a b Hc). apply (IH (length b)); [|reflexivity].
    subst. apply (cut_length d s a b Hc).
  - apply Hn. exact Hc.
Qed.

Lemma spaces_nodelim d a : is_space d = false -> forallb is_space a = true -> nodelim d a = true.
Proof.
  intros Hd. induction a as [|c a IH]; simpl; [reflexivity|]. intros H.
  apply andb_true_iff in H as [Hc Ha]. rewrite (IH Ha), andb_true_r.
  apply negb_true_iff. apply Z.eqb_neq. intros E. subst. congruence.
Qed.

(* ------------------------------------------------------------------ *)
(* what the scanner produces: the trimmed pieces                        *)

Definition toks (d : Z) (s : bytes) : list bytes := map trim_space (split_on d s).

Lemma toks_app_l d a s :
  is_space d = false -> forallb is_space a = true -> toks d (a ++ s) = toks d s.
Proof.
  intros Hd Ha. unfold toks. rewrite (split_on_cut d (a ++ s)), (split_on_cut d s).
  rewrite (cut_app_l d a s (spaces_nodelim d a Hd Ha)).
  destruct (cut d s) as [[x b]|]; simpl; unfold trim_space;
    rewrite (trim_fn_app_all_l is_space a _ Ha); reflexivity.
Qed.

Lemma toks_app_r d s w :
  is_space d = false -> forallb is_space w = true -> toks d (s ++ w) = toks d s.
Proof.
  intros Hd Hw. pose proof (spaces_nodelim d w Hd Hw) as Hn.
  pattern s. apply (cut_ind d); clear s.
  - intros s Hc. unfold toks.
    rewrite (split_on_cut d (s ++ w)), (split_on_cut d s), (cut_app_r d s w Hn), Hc. simpl.
    unfold trim_space. rewrite (trim_fn_app_all_r is_space s w Hw). reflexivity.
  - intros s a b Hc IH. unfold toks in *.
    rewrite (split_on_cut d (s ++ w)), (split_on_cut d s), (cut_app_r d s w Hn), Hc. simpl.
    rewrite IH. reflexivity.
Qed.

Lemma toks_trim_space d s : is_space d = false -> toks d (trim_space s) = toks d s.
Proof.
  intros Hd. destruct (trim_fn_decomp is_space s) as [a [w [E [Ha Hw]]]].
  rewrite E at 2. rewrite (toks_app_l d a _ Hd Ha), (toks_app_r d _ w Hd Hw). reflexivity.
Qed.

Lemma length_split_acc s cur :
  Z.of_nat (length (split_on_acc SLASH s cur)) = part_count s + 1.
Proof.
  revert cur. induction s as [|c s IH]; intros cur; simpl length; cbn [part_count].
  - reflexivity.
  - destruct (Z.eqb c SLASH).
    + cbn [length]. rewrite Nat2Z.inj_succ, IH. lia.
    + rewrite IH. lia.
Qed.

Lemma length_split s : Z.of_nat (length (split_on SLASH s)) = part_count s + 1.
Proof. apply length_split_acc. Qed.

(* ------------------------------------------------------------------ *)
(* the for-loop of Match                                                *)

Fixpoint prefix_match (parts ts : list bytes) : bool :=
  match parts, ts with
  | [], _ => true
  | p :: ps, t :: ts' => (is_plus p || bytes_eqb t p) && prefix_match ps ts'
  | _ :: _, [] => true
  end.

Lemma slash_not_space : is_space SLASH = false. Proof. reflexivity. Qed.
Lemma semi_not_space : is_space SEMI = false. Proof. reflexivity. Qed.

Lemma match_loop_toks : forall parts adv,
  (length parts <= length (split_on SLASH adv))%nat ->
  match_loop parts adv true = prefix_match parts (toks SLASH adv).
Proof.
  induction parts as [|p ps IH]; intros adv H; [reflexivity|].
  cbn [match_loop]. unfold scan, toks. rewrite split_on_cut in H |- *.
  destruct (cut SLASH adv) as [[a b]|] eqn:Hc.
  - cbn [map prefix_match]. fold (toks SLASH b).
    assert (Hlen : (length ps <= length (split_on SLASH (trim_space b)))%nat).
    { assert (E : length (toks SLASH (trim_space b)) = length (toks SLASH b))
        by (rewrite toks_trim_space by exact slash_not_space; reflexivity).
      unfold toks in E. rewrite !map_length in E. rewrite E. simpl in H. lia. }
    rewrite (IH _ Hlen), (toks_trim_space SLASH b slash_not_space).
    unfold is_plus. destruct (bytes_eqb p [PLUS]); simpl; [reflexivity|].
    destruct (bytes_eqb (trim_space a) p); reflexivity.
  - simpl in H. destruct ps as [|q ps]; [|simpl in H; lia].
    cbn [map prefix_match match_loop]. unfold is_plus.
    destruct (bytes_eqb p [PLUS]); simpl; [reflexivity|].
    destruct (bytes_eqb (trim_space adv) p); reflexivity.
Qed.

(* ------------------------------------------------------------------ *)
(* count guard + prefix comparison  =  the documented language          *)

Lemma ltb_succ a b : (Z.succ a <? Z.succ b) = (a <? b).
Proof. destruct (Z.ltb_spec (Z.succ a) (Z.succ b)), (Z.ltb_spec a b); try reflexivity; lia. Qed.

Definition go_list (P X : list bytes) : bool :=
  let wild := bytes_eqb (last P []) [STAR] in
  let parts := if wild then removelast P else P in
  let n := Z.of_nat (length parts) in
  let count := Z.of_nat (length X) in
  if count <? n then false
  else if (n <? count) && negb wild then false
  else prefix_match parts X.

Lemma go_list_spec : forall P X, P <> [] -> go_list P X = seg_match P X.
Proof.
  induction P as [|p P IH]; intros X Hne; [contradiction|].
  destruct P as [|q P'].
  - (* single pattern segment *)
    unfold go_list. cbn [last removelast seg_match]. fold (is_star p).
    destruct (is_star p) eqn:Hs; cbn [andb].
    + cbn [length]. destruct (Z.of_nat (length X) <? Z.of_nat 0) eqn:E.
      * apply Z.ltb_lt in E. lia.
      * rewrite andb_false_r. reflexivity.
    + destruct X as [|x [|y X]]; cbn [length prefix_match seg_match andb negb].
      * reflexivity.
      * replace (Z.of_nat 1 <? Z.of_nat 1) with false by reflexivity. cbn [andb].
        rewrite (bytes_eqb_sym x p). reflexivity.
      * replace (Z.of_nat (S (S (length X))) <? Z.of_nat 1) with false
          by (symmetry; apply Z.ltb_ge; lia).
        replace (Z.of_nat 1 <? Z.of_nat (S (S (length X)))) with true
          by (symmetry; apply Z.ltb_lt; lia).
        cbn [andb]. rewrite andb_false_r. reflexivity.
  - (* at least two pattern segments: peel the first *)
    assert (Hq : q :: P' <> []) by discriminate.
    change (seg_match (p :: q :: P') X)
      with (if is_star p && false then true
            else match X with
                 | [] => false
                 | x :: X' => (is_plus p || bytes_eqb p x) && seg_match (q :: P') X'
                 end).
    rewrite andb_false_r.
    unfold go_list.
    change (last (p :: q :: P') []) with (last (q :: P') []).
    change (removelast (p :: q :: P')) with (p :: removelast (q :: P')).
    set (wild := bytes_eqb (last (q :: P') []) [STAR]).
    assert (Hparts : (if wild then p :: removelast (q :: P') else p :: q :: P')
                     = p :: (if wild then removelast (q :: P') else q :: P'))
      by (destruct wild; reflexivity).
    rewrite Hparts. set (parts := if wild then removelast (q :: P') else q :: P').
    destruct X as [|x X'].
    + cbn [length]. replace (Z.of_nat 0 <? Z.of_nat (S (length parts))) with true
        by (symmetry; apply Z.ltb_lt; lia). reflexivity.
    + rewrite <- (IH X' Hq). unfold go_list. fold wild. fold parts.
      cbn [length prefix_match]. rewrite !Nat2Z.inj_succ.
      rewrite (bytes_eqb_sym x p).
      rewrite !ltb_succ.
      destruct (Z.of_nat (length X') <? Z.of_nat (length parts));
        [rewrite andb_false_r; reflexivity|].
      destruct ((Z.of_nat (length parts) <? Z.of_nat (length X')) && negb wild);
        [rewrite andb_false_r; reflexivity|reflexivity].
Qed.

(* ------------------------------------------------------------------ *)
(* NewPathMatcher(mask).Match(path)  =  spec_pattern mask path          *)

Lemma toks_lower_segments s : toks SLASH (to_lower (trim_byte SLASH s)) = segments s.
Proof.
  unfold toks, segments. rewrite split_lower, map_map.
  apply map_ext. intros x. unfold norm_seg. apply trim_space_lower.
Qed.

Lemma segments_nonempty s : segments s <> [].
Proof.
  unfold segments. rewrite split_on_cut.
  destruct (cut SLASH (trim_byte SLASH s)) as [[a b]|]; discriminate.
Qed.

Lemma match_go_finish P path :
  match_go (finish_matcher P) path = go_list P (segments path).
Proof.
  unfold finish_matcher, match_go, go_list.
  set (wild := bytes_eqb (last P []) [STAR]).
  set (parts := if wild then removelast P else P).
  set (path' := to_lower (trim_byte SLASH path)).
  assert (Hcount : part_count path' + 1 = Z.of_nat (length (segments path))).
  { rewrite <- length_split. unfold path'. rewrite <- toks_lower_segments.
    unfold toks. rewrite map_length. reflexivity. }
  rewrite Hcount.
  destruct (Z.of_nat (length (segments path)) <? Z.of_nat (length parts)) eqn:E1; [reflexivity|].
  destruct ((Z.of_nat (length parts) <? Z.of_nat (length (segments path))) && negb wild);
    [reflexivity|].
  rewrite match_loop_toks.
  - unfold path'. rewrite toks_lower_segments. reflexivity.
  - apply Z.ltb_ge in E1. rewrite <- (toks_lower_segments path) in E1.
    unfold toks in E1. rewrite map_length in E1. fold path' in E1. lia.
Qed.

Lemma star_mask_segments mask : trim_space mask = [STAR] -> segments mask = [[STAR]].
Proof.
  intros H. destruct (trim_fn_decomp is_space mask) as [a [w [E [Ha Hw]]]].
  fold (trim_space mask) in E. rewrite H in E.
  assert (Hn : nodelim SLASH mask = true).
  { rewrite E. unfold nodelim. rewrite !forallb_app.
    fold (nodelim SLASH a). fold (nodelim SLASH w).
    rewrite (spaces_nodelim SLASH a slash_not_space Ha), (spaces_nodelim SLASH w slash_not_space Hw).
    reflexivity. }
  unfold segments.
  assert (Ht : trim_byte SLASH mask = mask).
  { apply trim_fn_none. rewrite nodelim_sym. exact Hn. }
  rewrite Ht, split_on_cut, (cut_nodelim SLASH mask Hn). cbn [map].
  unfold norm_seg. rewrite H. reflexivity.
Qed.

Theorem matcher_is_spec : forall mask path,
  match_go (compile mask) path = spec_pattern mask path.
Proof.
  intros mask path. unfold compile, spec_pattern.
  destruct (bytes_eqb (trim_space mask) [STAR]) eqn:Hs.
  - apply bytes_eqb_eq in Hs. rewrite (star_mask_segments mask Hs). reflexivity.
  - unfold mask_parts. fold (toks SLASH (to_lower (trim_byte SLASH mask))).
    rewrite toks_lower_segments, match_go_finish.
    apply go_list_spec. apply segments_nonempty.
Qed.

(* ------------------------------------------------------------------ *)
(* initMatchers / User.init / ValidatePermission                        *)

Definition nonempty (it : bytes) : bool := negb (bytes_eqb it []).

Lemma init_loop_spec mk : forall fuel adv,
  (length adv < fuel)%nat ->
  init_loop mk fuel adv = map mk (filter nonempty (toks SEMI adv)).
Proof.
  induction fuel as [|fuel IH]; intros adv H; [lia|].
  cbn [init_loop]. unfold scan, toks. rewrite split_on_cut.
  destruct (cut SEMI adv) as [[a b]|] eqn:Hc.
  - cbn [map filter]. fold (toks SEMI b).
    assert (Hlen : (length (trim_space b) < fuel)%nat).
    { pose proof (cut_length SEMI adv a b Hc). pose proof (trim_fn_length is_space b).
      unfold trim_space. lia. }
    rewrite (IH _ Hlen), (toks_trim_space SEMI b semi_not_space).
    destruct (trim_space a); reflexivity.
  - cbn [map filter]. destruct (trim_space adv); reflexivity.
Qed.

Lemma init_matchers_spec mk access :
  init_matchers mk access = map mk (spec_items access).
Proof. unfold init_matchers. rewrite init_loop_spec by lia. reflexivity. Qed.

Lemma admin_default_spec admin access : admin_default admin access = spec_right admin access.
Proof. unfold admin_default, spec_right. destruct admin, access; reflexivity. Qed.

Lemma existsb_map {A B} (f : B -> bool) (g : A -> B) l :
  existsb f (map g l) = existsb (fun x => f (g x)) l.
Proof. induction l as [|x l IH]; simpl; [reflexivity|]. rewrite IH. reflexivity. Qed.

Lemma existsb_ext {A} (f g : A -> bool) l : (forall x, f x = g x) -> existsb f l = existsb g l.
Proof. intros H. induction l as [|x l IH]; simpl; [reflexivity|]. rewrite H, IH. reflexivity. Qed.

(* the core theorem: every right string, administrator flag and path *)
Theorem matcher_refines_spec : forall admin access path,
  validate_go admin access path = spec_permit admin access path.
Proof.
  intros admin access path. unfold validate_go, validate_with, spec_permit.
  rewrite init_matchers_spec, admin_default_spec.
  set (items := spec_items (spec_right admin access)).
  transitivity (existsb (fun m => match_go m (trim_space path)) (map compile items)).
  - destruct (map compile items); reflexivity.
  - rewrite existsb_map. apply existsb_ext. intros it. apply matcher_is_spec.
Qed.

(* ------------------------------------------------------------------ *)
(* auth.Save of an existing name: nothing of the earlier saves survives  *)

Lemma admin_default_idem a x : admin_default a (admin_default a x) = admin_default a x.
Proof. destruct a, x; reflexivity. Qed.

Definition right_of (r : access_right) (push pull : bytes) : bytes :=
  match r with PushRight => push | PullRight => pull end.

Lemma validate_user_init u r path :
  validate_user (user_init u) r path = validate_go (u_admin u) (right_of r (u_push u) (u_pull u)) path.
Proof. destruct r; reflexivity. Qed.

Lemma validate_go_default a x path : validate_go a (admin_default a x) path = validate_go a x path.
Proof. unfold validate_go, validate_with. rewrite admin_default_idem. reflexivity. Qed.

(* one Save, on top of ANY earlier state of that name (none, or whatever was stored) *)
Theorem save_is_fresh : forall st s,
  exists u, save_go st s = Some u /\
            forall r path, validate_user u r path = spec_save s r path.
Proof.
  intros st s. destruct st as [u0|]; cbn [save_go].
  - eexists. split; [reflexivity|]. intros r path. unfold copy_from.
    rewrite validate_user_init. cbn [u_admin u_push u_pull user_init].
    unfold spec_save. rewrite <- matcher_refines_spec.
    destruct r; cbn [right_of]; apply validate_go_default.
  - eexists. split; [reflexivity|]. intros r path.
    rewrite validate_user_init. cbn [u_admin u_push u_pull].
    unfold spec_save. rewrite <- matcher_refines_spec. destruct r; reflexivity.
Qed.

(* the two-save history of the coordinator's statement *)
Theorem resave_is_fresh : forall s1 s2,
  exists u, save_go (save_go None s1) s2 = Some u /\
            forall r path, validate_user u r path = spec_save s2 r path.
Proof. intros s1 s2. apply save_is_fresh. Qed.

(* any number of saves: only the last one counts *)
Theorem history_is_last : forall saves s,
  last_save saves = Some s ->
  exists u, fold_left save_go saves None = Some u /\
            forall r path, validate_user u r path = spec_save s r path.
Proof.
  intros saves s H. unfold last_save in H.
  destruct (rev saves) as [|s' l] eqn:E; [discriminate|]. inversion H; subst s'.
  assert (Es : saves = rev l ++ [s]).
  { rewrite <- (rev_involutive saves), E. reflexivity. }
  rewrite Es, fold_left_app. cbn [fold_left]. apply save_is_fresh.
Qed.

Lemma history_none saves : last_save saves = None -> saves = [].
Proof.
  unfold last_save. destruct (rev saves) eqn:E; [|discriminate]. intros _.
  rewrite <- (rev_involutive saves), E. reflexivity.
Qed.

Lemma both_rights_ext f g paths : (forall r p, f r p = g r p) -> both_rights f paths = both_rights g paths.
Proof.
  intros H. unfold both_rights. induction paths as [|p paths IH]; simpl; [reflexivity|].
  rewrite !H, IH. reflexivity.
Qed.

(* the pre-CopyFrom-order seed, as a model: init runs with the OLD admin flag *)
Definition copy_from_late_admin (u src : user) (with_pw : bool) : user :=
  let v := user_init (mkUser (u_admin u) (if with_pw then u_pw src else u_pw u)
                             (u_push src) (u_pull src) (u_pushm u) (u_pullm u)) in
  mkUser (u_admin src) (u_pw v) (u_push v) (u_pull v) (u_pushm v) (u_pullm v).

(* demote an administrator with empty rights: the late assignment leaves '*' in force *)
Example late_admin_refuted :
  let adm := user_init (mkUser true [] [] [] [] []) in
  let plain := user_init (mkUser false [] [] [] [] []) in
  validate_user (copy_from_late_admin adm plain false) PullRight [47; 97] = true /\
  validate_user (copy_from adm plain false) PullRight [47; 97] = false.
Proof. vm_compute. auto. Qed.

(* ------------------------------------------------------------------ *)
(* the oracle accepts the model                                         *)

Theorem run_case_is_spec : forall c, run_case c = spec_case c.
Proof.
  intros [admin rt paths | mask paths | saves paths]; unfold run_case, spec_case.
  - apply map_ext; intros p. apply matcher_refines_spec.
  - apply map_ext; intros p. apply matcher_is_spec.
  - destruct (last_save saves) as [s|] eqn:E.
    + destruct (history_is_last saves s E) as [u [Hu Hv]]. rewrite Hu.
      apply both_rights_ext. exact Hv.
    + rewrite (history_none saves E). reflexivity.
Qed.

Theorem model_passes_oracle : forall c, ok_case c (enc_answers (run_case c)) = true.
Proof. intros c. unfold ok_case. rewrite run_case_is_spec. apply bytes_eqb_refl. Qed.

(* and accepts nothing else: an observation passes only if it is the documented answer for every path *)
Theorem oracle_sound : forall c obs,
  ok_case c obs = true -> obs = enc_answers (spec_case c).
Proof. intros c obs H. apply bytes_eqb_eq in H. auto. Qed.

(* ------------------------------------------------------------------ *)
(* what seg_match means, clause by clause of the statement              *)

Lemma is_star_eq p : is_star p = true <-> p = [STAR].
Proof. unfold is_star. apply bytes_eqb_eq. Qed.
Lemma is_plus_eq p : is_plus p = true <-> p = [PLUS].
Proof. unfold is_plus. apply bytes_eqb_eq. Qed.

Theorem seg_match_meaning : forall pat path, seg_match pat path = true <-> Matches pat path.
Proof.
  induction pat as [|p pat IH]; intros path.
  - simpl. destruct path; split; intros H; try constructor; try discriminate. inversion H.
  - cbn [seg_match]. split.
    + destruct (is_star p && match pat with [] => true | _ => false end) eqn:Hs.
      * intros _. apply andb_true_iff in Hs as [Hp Hl]. apply is_star_eq in Hp. subst.
        destruct pat; [constructor|discriminate].
      * destruct path as [|x path]; [discriminate|]. intros H.
        apply andb_true_iff in H as [H1 H2]. apply IH in H2.
        apply orb_true_iff in H1 as [H1|H1].
        -- apply is_plus_eq in H1. subst. constructor. exact H2.
        -- apply bytes_eqb_eq in H1. subst. constructor. exact H2.
    + intros H. inversion H; subst.
      * reflexivity.
      * replace (is_plus [PLUS]) with true by reflexivity. cbn [orb andb].
        destruct (is_star [PLUS] && _); [reflexivity|]. apply IH. assumption.
      * rewrite bytes_eqb_refl, orb_true_r. cbn [andb].
        destruct (is_star p && _); [reflexivity|]. apply IH. assumption.
Qed.

(* '*' alone matches everything *)
Theorem star_alone_matches_all : forall path, seg_match [[STAR]] path = true.
Proof. reflexivity. Qed.

(* segment-wise agreement: '+' or the same segment *)
Definition seg_ok (p x : bytes) : Prop := p = [PLUS] \/ p = x.

Lemma seg_ok_bool p x : (is_plus p || bytes_eqb p x) = true <-> seg_ok p x.
Proof.
  unfold seg_ok. rewrite orb_true_iff, is_plus_eq, bytes_eqb_eq. reflexivity.
Qed.

Lemma seg_match_cons p pat path :
  is_star p && (match pat with [] => true | _ => false end) = false ->
  seg_match (p :: pat) path =
  match path with
  | [] => false
  | x :: path' => (is_plus p || bytes_eqb p x) && seg_match pat path'
  end.
Proof. intros H. cbn [seg_match]. rewrite H. reflexivity. Qed.

(* a trailing '*' matches zero or more remaining segments: the segments before it
   must agree one by one with the first segments of the path, the rest is free *)
Theorem open_pattern_meaning : forall (pre path : list bytes),
  seg_match (pre ++ [([STAR] : bytes)]) path = true <->
  exists front rest, path = front ++ rest /\ Forall2 seg_ok pre front.
Proof.
  induction pre as [|p pre IH]; intros path.
  - split; [intros _; exists [], path; split; [reflexivity|constructor] | reflexivity].
  - assert (Hl : is_star p && (match pre ++ [([STAR] : bytes)] with [] => true | _ => false end) = false)
      by (destruct pre; apply andb_false_r).
    rewrite <- app_comm_cons, (seg_match_cons p _ path Hl). split.
    + destruct path as [|x path]; [discriminate|]. intros H.
      apply andb_true_iff in H as [H1 H2]. apply seg_ok_bool in H1.
      apply IH in H2 as [front [rest [E F]]]. subst.
      exists (x :: front), rest. split; [reflexivity|constructor; assumption].
    + intros [front [rest [E F]]]. inversion F as [|p' x pre' front' Hpx F' E1 E2]; subst.
      simpl app. apply andb_true_iff. split; [apply seg_ok_bool; exact Hpx|].
      apply IH. exists front', rest. auto.
Qed.

(* a pattern without trailing '*': same number of segments, agreeing one by one *)
Theorem closed_pattern_meaning : forall (pat path : list bytes),
  is_star (last pat []) = false ->
  (seg_match pat path = true <-> Forall2 seg_ok pat path).
Proof.
  induction pat as [|p pat IH]; intros path Hl.
  - destruct path; split; intros H; try constructor; try discriminate; inversion H.
  - assert (Hc : is_star p && (match pat with [] => true | _ => false end) = false).
    { destruct pat; [cbn [last] in Hl; rewrite Hl; reflexivity | apply andb_false_r]. }
    assert (Hl' : is_star (last pat []) = false).
    { destruct pat; [reflexivity | exact Hl]. }
    rewrite (seg_match_cons p pat path Hc). destruct path as [|x path].
    + split; intros H; [discriminate|inversion H].
    + rewrite andb_true_iff, seg_ok_bool, (IH path Hl'). split.
      * intros [H1 H2]. constructor; assumption.
      * intros H. inversion H; subst. auto.
Qed.

(* a pattern without trailing '*' matches only paths with the same number of segments *)
Theorem closed_pattern_same_length : forall (pat path : list bytes),
  is_star (last pat []) = false -> seg_match pat path = true -> length pat = length path.
Proof.
  induction pat as [|p pat IH]; intros path Hl H.
  - destruct path; [reflexivity|discriminate].
  - cbn [seg_match] in H. destruct pat as [|q pat'].
    + cbn [last] in Hl. rewrite Hl in H. cbn [andb] in H.
      destruct path as [|x [|y path]]; try discriminate; [reflexivity|].
      rewrite andb_false_r in H. discriminate.
    + rewrite andb_false_r in H. destruct path as [|x path]; [discriminate|].
      apply andb_true_iff in H as [_ H]. cbn [length]. f_equal. apply IH; assumption.
Qed.

(* an open-ended pattern needs at least its fixed segments *)
Theorem open_pattern_min_length : forall (pat path : list bytes),
  seg_match pat path = true -> (length pat <= S (length path))%nat.
Proof.
  induction pat as [|p pat IH]; intros path H; [simpl; lia|].
  cbn [seg_match] in H.
  destruct (is_star p && match pat with [] => true | _ => false end) eqn:Hs.
  - apply andb_true_iff in Hs as [_ Hs]. destruct pat; [simpl; lia|discriminate].
  - destruct path as [|x path]; [discriminate|].
    apply andb_true_iff in H as [_ H]. apply IH in H. simpl in *. lia.
Qed.

(* an empty right permits nothing; an administrator's empty right permits everything *)
Theorem empty_right_permits_nothing : forall path, spec_permit false [] path = false.
Proof. reflexivity. Qed.

Theorem admin_empty_right_is_star : forall path, spec_permit true [] path = true.
Proof. intros path. unfold spec_permit. cbn. reflexivity. Qed.

(* a right made of blanks and ';' only has no pattern at all, for anybody *)
Theorem no_items_permits_nothing : forall admin rt path,
  spec_items (spec_right admin rt) = [] -> spec_permit admin rt path = false.
Proof. intros admin rt path H. unfold spec_permit. rewrite H. reflexivity. Qed.

(* permitted exactly when at least one pattern of the right matches *)
Theorem permit_iff_some_item : forall admin rt path,
  spec_permit admin rt path = true <->
  exists item, In item (spec_items (spec_right admin rt)) /\
               Matches (segments item) (segments (trim_space path)).
Proof.
  intros admin rt path. unfold spec_permit. rewrite existsb_exists.
  split; intros [it [Hin H]]; exists it; (split; [exact Hin|]);
    unfold spec_pattern in *; apply seg_match_meaning; exact H.
Qed.

(* ------------------------------------------------------------------ *)
(* D31: the code before the repair did not implement the language       *)

(* right "/a /b", path "/a /b": a literal segment must match itself *)
Definition d31_right : bytes := [47; 97; 32; 47; 98].

Theorem prefix_matcher_refuted :
  exists access path,
    right_blank_edges access = true /\
    spec_permit false access path = true /\
    validate_go_prefix false access path = false.
Proof. exists d31_right, d31_right. vm_compute. auto. Qed.

(* outside that class the old code was right: without blank-edged pattern
   segments the repair changes nothing *)
Lemma map_trim_id l : existsb blank_edged l = false -> map trim_space l = l.
Proof.
  induction l as [|x l IH]; simpl; intros H; [reflexivity|].
  apply orb_false_iff in H as [Hx Hl]. unfold blank_edged in Hx.
  apply negb_false_iff, bytes_eqb_eq in Hx. rewrite Hx, (IH Hl). reflexivity.
Qed.

Lemma blank_edged_lower s : blank_edged s = false -> blank_edged (to_lower s) = false.
Proof.
  unfold blank_edged. intros H. apply negb_false_iff, bytes_eqb_eq in H.
  apply negb_false_iff, bytes_eqb_eq. rewrite trim_space_lower, H. reflexivity.
Qed.

Lemma existsb_blank_lower l :
  existsb blank_edged l = false -> existsb blank_edged (map to_lower l) = false.
Proof.
  induction l as [|x l IH]; simpl; intros H; [reflexivity|].
  apply orb_false_iff in H as [Hx Hl]. rewrite (blank_edged_lower x Hx), (IH Hl). reflexivity.
Qed.

Lemma compile_prefix_same item :
  item_blank_edges item = false -> compile_prefix item = compile item.
Proof.
  unfold item_blank_edges, compile_prefix, compile, mask_parts. intros H.
  rewrite split_lower. rewrite (map_trim_id _ (existsb_blank_lower _ H)). reflexivity.
Qed.

(* exactly the blank-edged pattern segments were affected *)
Theorem prefix_matcher_right_elsewhere : forall admin access path,
  right_blank_edges (spec_right admin access) = false ->
  validate_go_prefix admin access path = spec_permit admin access path.
Proof.
  intros admin access path H. rewrite <- matcher_refines_spec.
  unfold validate_go_prefix, validate_go, validate_with.
  rewrite !init_matchers_spec, admin_default_spec.
  unfold right_blank_edges in H.
  assert (E : map compile_prefix (spec_items (spec_right admin access))
            = map compile (spec_items (spec_right admin access))).
  { apply map_ext_in. intros it Hin. apply compile_prefix_same.
    destruct (item_blank_edges it) eqn:Hb; [|reflexivity].
    assert (existsb item_blank_edges (spec_items (spec_right admin access)) = true)
      by (apply existsb_exists; exists it; auto).
    congruence. }
  rewrite E. reflexivity.
Qed.
