(* C04 — stalled or failing consumers are isolated; backlog bounded; drops align to GOPs.
   Proofs about the stream LTS (Model/StreamLts.v, read-only) for the variant [fixed],
   for every schedule, every packet list, any number of consumers, any [maxq], any [panic_at]
   and an abstract cache.

   Structure
     1. list lemmas: [since] / [gap_ok] (key spacing), [window], [select], [aligned]
     2. "view" lemmas of the per-consumer operations (wake push send close_cons ...)
     3. per-consumer invariants  CInv0 (attach phases, window, keep/drop trace, Close count),
        PInv (panic), BInv (backlog) and their preservation by every operation
     4. lock discipline LInvC and its preservation by acquire / release
     5. the state invariant [Inv], [inv_step], [inv_run]
     6. the C04 theorems
     7. non-interference: a consumer that is never scheduled is invisible to everybody else *)
From Coq Require Import ZArith List Bool Arith Lia.
From V Require Import StreamLts Cache LtsWire.
Import ListNotations.
Local Open Scope nat_scope.

Local Arguments s_ok {cache_t}.
Local Arguments s_lock {cache_t}.
Local Arguments s_lockq {cache_t}.
Local Arguments s_cache {cache_t}.
Local Arguments s_sent {cache_t}.
Local Arguments s_cached {cache_t}.
Local Arguments s_todo {cache_t}.
Local Arguments s_pp {cache_t}.
Local Arguments s_count {cache_t}.
Local Arguments s_cs {cache_t}.
Local Arguments s_att {cache_t}.
Local Arguments s_stp {cache_t}.
Local Arguments s_kp {cache_t}.

(* ------------------------------------------------------------------ *)
(** * 1. Lists *)

Lemma upd_same {A} (f : nat -> A) c v : upd f c v c = v.
Proof. unfold upd. now rewrite Nat.eqb_refl. Qed.

Lemma upd_other {A} (f : nat -> A) c c' v : c <> c' -> upd f c v c' = f c'.
Proof. unfold upd. intros H. destruct (Nat.eqb_spec c c'); congruence. Qed.

(* number of packets published after the most recent key-start packet (all of them when there
   is none yet) *)
Fixpoint since_acc (n : nat) (l : list pkt) : nat :=
  match l with
  | [] => n
  | p :: l' => if p_key p then since_acc 0 l' else since_acc (S n) l'
  end.
Definition since (l : list pkt) : nat := since_acc 0 l.

(* [gap_ok G pkts]: every window of [G] consecutive published packets contains a key-start
   packet, i.e. there are never [G] packets in a row without the key flag (the packets before
   the first key frame included).  Packets that are not on the video channel count toward the
   window, because [send] queues them like any other packet.  A window of 0 packets contains no
   key packet, so [G = 0] is unsatisfiable; this is what the leading [0 <? G] says (with [G = 0]
   and every packet a key packet the queue reaches [maxq + 2], which is why the degenerate
   reading "G = 0: every packet is a key packet" cannot be allowed in the bound). *)
Fixpoint gap_from (G n : nat) (l : list pkt) : bool :=
  match l with
  | [] => true
  | p :: l' => if p_key p then gap_from G 0 l' else (S n <? G) && gap_from G (S n) l'
  end.
Definition gap_ok (G : nat) (pkts : list pkt) : bool := (0 <? G) && gap_from G 0 pkts.

Lemma since_acc_snoc n l p :
  since_acc n (l ++ [p]) = if p_key p then 0 else S (since_acc n l).
Proof.
  revert n. induction l as [|q l IH]; intros n; simpl.
  - destruct (p_key p); reflexivity.
  - destruct (p_key q); apply IH.
Qed.

Lemma since_snoc l p : since (l ++ [p]) = if p_key p then 0 else S (since l).
Proof. apply since_acc_snoc. Qed.

Lemma gap_from_prefix G n l1 l2 :
  n < G -> gap_from G n (l1 ++ l2) = true -> since_acc n l1 < G.
Proof.
  revert n. induction l1 as [|p l1 IH]; intros n Hn H; simpl in *; [exact Hn|].
  destruct (p_key p).
  - apply IH; [lia|exact H].
  - apply andb_true_iff in H. destruct H as [H1 H2]. apply Nat.ltb_lt in H1.
    apply IH; assumption.
Qed.

Lemma gap_ok_pos G pkts : gap_ok G pkts = true -> 0 < G.
Proof. unfold gap_ok. intros H. apply andb_true_iff in H. destruct H as [H _]. now apply Nat.ltb_lt in H. Qed.

Lemma gap_ok_prefix G pkts l1 l2 :
  gap_ok G pkts = true -> pkts = l1 ++ l2 -> since l1 < G.
Proof.
  intros H ->. pose proof (gap_ok_pos _ _ H) as HG. unfold gap_ok in H.
  apply andb_true_iff in H. destruct H as [_ H].
  unfold since. eapply gap_from_prefix; eassumption.
Qed.

Lemma since_acc_app n l1 l2 : since_acc n (l1 ++ l2) = since_acc (since_acc n l1) l2.
Proof.
  revert n. induction l1 as [|p l1 IH]; intros n; simpl; [reflexivity|].
  destruct (p_key p); apply IH.
Qed.

Lemma since_acc_nokey n w : existsb p_key w = false -> since_acc n w = n + length w.
Proof.
  revert n. induction w as [|p w IH]; intros n H; simpl in *; [lia|].
  apply orb_false_iff in H. destruct H as [H1 H2]. rewrite H1, IH by assumption. lia.
Qed.

(* the meaning of [gap_ok] in the property's words: any [G] consecutive packets contain a key *)
Lemma gap_ok_meaning G pkts :
  gap_ok G pkts = true ->
  forall a w b, pkts = a ++ w ++ b -> length w = G -> existsb p_key w = true.
Proof.
  intros H a w b E Hw.
  destruct (existsb p_key w) eqn:Ew; [reflexivity|exfalso].
  assert (Hs : since (a ++ w) < G) by (eapply gap_ok_prefix; [eassumption|rewrite E, app_assoc; reflexivity]).
  unfold since in Hs. rewrite since_acc_app, since_acc_nokey in Hs by assumption. lia.
Qed.

(* ... and conversely, so [gap_ok] is exactly the property's hypothesis *)
Lemma gap_from_complete G : forall l pre run n,
  n < G -> length run = n -> existsb p_key run = false ->
  (forall a w b, (pre ++ run) ++ l = a ++ w ++ b -> length w = G -> existsb p_key w = true) ->
  gap_from G n l = true.
Proof.
  induction l as [|p l IH]; intros pre run n Hn Hlen Hrun Hw; [reflexivity|]. simpl.
  destruct (p_key p) eqn:Kp.
  - apply (IH ((pre ++ run) ++ [p]) [] 0); [lia|reflexivity|reflexivity|].
    intros a w b E. apply (Hw a w b). rewrite <- E. rewrite app_nil_r, <- !app_assoc. reflexivity.
  - assert (Hrun' : existsb p_key (run ++ [p]) = false).
    { rewrite existsb_app, Hrun. simpl. now rewrite Kp. }
    assert (HS : S n < G).
    { destruct (Nat.lt_ge_cases (S n) G) as [?|Hge]; [assumption|exfalso].
      assert (E : existsb p_key (run ++ [p]) = true); [|congruence].
      apply (Hw pre (run ++ [p]) l).
      - rewrite <- !app_assoc. reflexivity.
      - rewrite app_length. simpl. lia. }
    apply andb_true_iff. split; [now apply Nat.ltb_lt|].
    apply (IH pre (run ++ [p]) (S n)); [exact HS|rewrite app_length; simpl; lia|exact Hrun'|].
    intros a w b E. apply (Hw a w b). rewrite <- E. rewrite <- !app_assoc. reflexivity.
Qed.

Lemma gap_ok_iff G pkts :
  gap_ok G pkts = true <->
  0 < G /\ forall a w b, pkts = a ++ w ++ b -> length w = G -> existsb p_key w = true.
Proof.
  split.
  - intros H. split; [eapply gap_ok_pos; eassumption|now apply gap_ok_meaning].
  - intros [HG Hw]. unfold gap_ok. apply andb_true_iff. split; [now apply Nat.ltb_lt|].
    apply (gap_from_complete G pkts [] [] 0); auto.
Qed.

(* the packets broadcast while the consumer was registered: from the length of the sent log at
   registration to the length at removal (to the end while still registered) *)
Definition window (sent : list pkt) (r u : option nat) : list pkt :=
  match r with
  | None => []
  | Some a => skipn a (match u with None => sent | Some b => firstn b sent end)
  end.

Lemma window_snoc_reg sent p r :
  r <= length sent -> window (sent ++ [p]) (Some r) None = window sent (Some r) None ++ [p].
Proof.
  intros H. unfold window. rewrite skipn_app.
  replace (r - length sent) with 0 by lia. reflexivity.
Qed.

Lemma window_snoc_unreg sent p r u :
  u <= length sent -> window (sent ++ [p]) r (Some u) = window sent r (Some u).
Proof.
  intros H. unfold window. destruct r as [a|]; [|reflexivity].
  rewrite firstn_app. replace (u - length sent) with 0 by lia.
  simpl. rewrite app_nil_r. reflexivity.
Qed.

Lemma window_unreg_now sent r :
  window sent r (Some (length sent)) = window sent r None.
Proof. unfold window. destruct r; [|reflexivity]. now rewrite firstn_all. Qed.

Lemma window_reg_now sent u : window sent (Some (length sent)) u = [].
Proof.
  unfold window. apply skipn_all2. destruct u as [b|]; [|lia].
  rewrite firstn_length. lia.
Qed.

(* the packets of [w] whose keep flag is set *)
Fixpoint select (keep : list bool) (w : list pkt) : list pkt :=
  match keep, w with
  | b :: keep', p :: w' => if b then p :: select keep' w' else select keep' w'
  | _, _ => []
  end.

Lemma select_snoc keep w b p :
  length keep = length w ->
  select (keep ++ [b]) (w ++ [p]) = select keep w ++ (if b then [p] else []).
Proof.
  revert w. induction keep as [|x keep IH]; intros [|y w] H; simpl in *; try discriminate.
  - destruct b; reflexivity.
  - injection H as H. rewrite IH by assumption. destruct x; reflexivity.
Qed.

(* [aligned prev keep w]: walking through the window, the keep flag differs from the previous
   one ([prev] before the first packet) only at a key-start packet *)
Fixpoint aligned (prev : bool) (keep : list bool) (w : list pkt) : Prop :=
  match keep, w with
  | [], [] => True
  | b :: keep', p :: w' => (b <> prev -> p_key p = true) /\ aligned b keep' w'
  | _, _ => False
  end.

Lemma aligned_length prev keep w : aligned prev keep w -> length keep = length w.
Proof.
  revert prev w. induction keep as [|b keep IH]; intros prev [|p w] H; simpl in *; try tauto.
  destruct H as [_ H]. f_equal. eapply IH; eassumption.
Qed.

Lemma last_default_irrel {A} (l : list A) (y d d' : A) : last (y :: l) d = last (y :: l) d'.
Proof.
  revert y. induction l as [|z l IH]; intros y; [reflexivity|].
  change (last (z :: l) d = last (z :: l) d'). apply IH.
Qed.

Lemma last_cons_default {A} (x : A) (l : list A) (d : A) : last (x :: l) d = last l x.
Proof.
  destruct l as [|z l]; [reflexivity|].
  change (last (z :: l) d = last (z :: l) x). apply last_default_irrel.
Qed.

Lemma aligned_snoc prev keep w b p :
  aligned prev keep w -> (b <> last keep prev -> p_key p = true) ->
  aligned prev (keep ++ [b]) (w ++ [p]).
Proof.
  revert prev w. induction keep as [|x keep IH]; intros prev [|y w] H Hb; try (simpl in H; tauto).
  - simpl. split; [exact Hb|exact I].
  - destruct H as [H1 H2]. fold aligned in H2.
    change ((x :: keep) ++ [b]) with (x :: (keep ++ [b])).
    change ((y :: w) ++ [p]) with (y :: (w ++ [p])).
    split; [exact H1|]. fold aligned.
    apply IH; [exact H2|]. intros Hne. apply Hb.
    rewrite last_cons_default. exact Hne.
Qed.

Lemma aligned_nth prev keep w d :
  aligned prev keep w ->
  (forall i, S i < length keep -> nth i keep true <> nth (S i) keep true ->
             p_key (nth (S i) w d) = true) /\
  (0 < length keep -> nth 0 keep true <> prev -> p_key (nth 0 w d) = true).
Proof.
  revert prev w. induction keep as [|b keep IH]; intros prev [|p w] H; simpl in H; try tauto.
  - split; intros; simpl in *; lia.
  - destruct H as [H1 H2]. destruct (IH _ _ H2) as [IH1 IH2]. split.
    + intros [|i] Hi Hne.
      * simpl in *. apply IH2; [lia|]. intros E. apply Hne. symmetry. exact E.
      * simpl in *. apply IH1; [lia|exact Hne].
    + intros _ Hne. simpl in *. apply H1. exact Hne.
Qed.

Lemma last_snoc {A} (l : list A) (x d : A) : last (l ++ [x]) d = x.
Proof. apply last_last. Qed.

Lemma NoDup_snoc {A} (l : list A) (x : A) : NoDup l -> ~ In x l -> NoDup (l ++ [x]).
Proof.
  induction l as [|y l IH]; intros Hnd Hin; simpl.
  - constructor; [intros []|constructor].
  - inversion Hnd as [|? ? Hy Hl]; subst. constructor.
    + rewrite in_app_iff. simpl. intros [H|[H|[]]]; [tauto|]. subst. apply Hin. now left.
    + apply IH; [assumption|]. intros H. apply Hin. now right.
Qed.

(* ------------------------------------------------------------------ *)
(** * 2. Views of the per-consumer operations *)

Definition cl (k : cons) : nat := if c_closed k then 0 else 1.

(* what a signal can do to the goroutine position: nothing, or resume a waiter *)
Definition pc_step (pc pc' : cpc) : Prop := pc' = pc \/ (pc = CWait /\ exists y, pc' = CGot y).

Lemma pc_step_refl pc : pc_step pc pc.
Proof. now left. Qed.

Lemma pc_step_none pc pc' : pc_step pc pc' -> (pc' = CNone <-> pc = CNone).
Proof. intros [->|[-> [y ->]]]; split; intros; congruence. Qed.

Lemma pc_step_done pc pc' : pc_step pc pc' -> (pc' = CDone <-> pc = CDone).
Proof. intros [->|[-> [y ->]]]; split; intros; congruence. Qed.

Lemma pc_step_exit pc pc' : pc_step pc pc' -> (pc' = CExitLoaded <-> pc = CExitLoaded).
Proof. intros [->|[-> [y ->]]]; split; intros; congruence. Qed.

Lemma wake_view k : exists q' pc',
  wake k = Build_cons (c_reg k) (c_closed k) q' pc' (c_out k) (c_disc k) (c_closes k) (c_pushed k)
                      (c_prefill k) (c_regat k) (c_unregat k) (c_keep k)
  /\ length q' <= length (c_q k) /\ pc_step (c_pc k) pc'.
Proof.
  destruct k as [reg closed q pc out disc closes pushed prefill regat unregat keep].
  unfold wake, pc_step; simpl.
  destruct pc; try (eexists _, _; split; [reflexivity|split; [lia|left; reflexivity]]).
  destruct q as [|x q'].
  - eexists _, _; split; [reflexivity|split; [simpl; lia|right; eauto]].
  - eexists _, _; split; [reflexivity|split; [simpl; lia|right; eauto]].
Qed.

Lemma push_view k x : exists q' pc',
  push k x = Build_cons (c_reg k) (c_closed k) q' pc' (c_out k) (c_disc k) (c_closes k)
                        (match x with Some p => c_pushed k ++ [p] | None => c_pushed k end)
                        (c_prefill k) (c_regat k) (c_unregat k) (c_keep k)
  /\ length q' <= S (length (c_q k)) /\ pc_step (c_pc k) pc'.
Proof.
  unfold push.
  match goal with |- context [wake ?K] => destruct (wake_view K) as (q' & pc' & E & Hq & Hpc) end.
  rewrite E. simpl in *. exists q', pc'. split; [reflexivity|]. split; [|exact Hpc].
  rewrite app_length in Hq. simpl in Hq. lia.
Qed.

Section Backlog.
Variable maxq : nat.                    (* maxQLen *)
Variable cache_t : Type.
Variable cache_empty : cache_t.
Variable cache_add : cache_t -> pkt -> cache_t.
Variable cache_snap : cache_t -> list pkt.
Variable ncons : nat.
Variable panic_at : nat -> nat.

Notation state := (st cache_t).
Notation stepF := (step fixed maxq cache_t cache_empty cache_add cache_snap ncons panic_at).
Notation runF := (run fixed maxq cache_t cache_empty cache_add cache_snap ncons panic_at).
Notation initF := (init cache_t cache_empty).

(* the new value of [discarding] computed by [send] *)
Definition send_d (k : cons) (p : pkt) : bool :=
  let n := length (c_q k) in
  if p_key p
  then (if c_disc k && (n <? maxq) then false
        else if negb (c_disc k) && (maxq <? n) then true else c_disc k)
  else c_disc k.

Lemma send_d_nonkey k p : p_key p = false -> send_d k p = c_disc k.
Proof. unfold send_d. now intros ->. Qed.

Lemma send_d_change k p : send_d k p <> c_disc k -> p_key p = true.
Proof. destruct (p_key p) eqn:K; [reflexivity|]. rewrite send_d_nonkey by assumption. congruence. Qed.

(* a key packet that is queued found at most [maxq] elements in the queue *)
Lemma send_d_key_false k p : p_key p = true -> send_d k p = false -> length (c_q k) <= maxq.
Proof.
  unfold send_d. intros ->. destruct (c_disc k); simpl.
  - destruct (Nat.ltb_spec (length (c_q k)) maxq); [lia|discriminate].
  - destruct (Nat.ltb_spec maxq (length (c_q k))); [discriminate|lia].
Qed.

Lemma send_view k p : exists q' pc',
  send maxq k p =
    Build_cons (c_reg k) (c_closed k) q' pc' (c_out k) (send_d k p) (c_closes k)
               (if send_d k p then c_pushed k else c_pushed k ++ [p])
               (c_prefill k) (c_regat k) (c_unregat k) (c_keep k ++ [negb (send_d k p)])
  /\ length q' <= (if send_d k p then 0 else 1) + length (c_q k) /\ pc_step (c_pc k) pc'.
Proof.
  unfold send. fold (send_d k p). destruct (send_d k p).
  - exists (c_q k), (c_pc k). split; [reflexivity|]. split; [simpl; lia|apply pc_step_refl].
  - match goal with |- context [push ?K ?X] => destruct (push_view K X) as (q' & pc' & E & Hq & Hpc) end.
    rewrite E. simpl in *. exists q', pc'. split; [reflexivity|]. split; [lia|exact Hpc].
Qed.

(* [discarding] changes only while a key-start packet is processed *)
Lemma send_disc k p : c_disc (send maxq k p) = send_d k p.
Proof. destruct (send_view k p) as (q' & pc' & E & _). rewrite E. reflexivity. Qed.

Lemma send_disc_changes_only_at_key k p :
  c_disc (send maxq k p) <> c_disc k -> p_key p = true.
Proof. rewrite send_disc. apply send_d_change. Qed.

Lemma close_view k : exists q' pc',
  close_cons fixed k =
    Build_cons (c_reg k) true q' pc' (c_out k) (c_disc k) (c_closes k) (c_pushed k)
               (c_prefill k) (c_regat k) (c_unregat k) (c_keep k)
  /\ length q' <= length (c_q k) + cl k /\ pc_step (c_pc k) pc'.
Proof.
  unfold close_cons, cl. destruct (c_closed k) eqn:Ec.
  - exists (c_q k), (c_pc k). split; [|split; [lia|apply pc_step_refl]].
    destruct k; simpl in *; subst; reflexivity.
  - simpl.
    match goal with |- context [push ?K ?X] => destruct (push_view K X) as (q' & pc' & E & Hq & Hpc) end.
    rewrite E. simpl in *. exists q', pc'. split; [reflexivity|]. split; [lia|exact Hpc].
Qed.

(* ------------------------------------------------------------------ *)
(** * 3. Per-consumer invariants *)

Definition early (a : apc) : Prop := a = A0 \/ a = A0W \/ a = A1.

(* [sent]: the broadcast log, [a]: the attacher's position, [k]: the consumer *)
Record CInv0 (sent : list pkt) (a : apc) (k : cons) : Prop := {
  ci_early : early a ->
             c_reg k = false /\ c_regat k = None /\ c_unregat k = None /\ c_keep k = [];
  ci_pc : c_pc k <> CNone -> a = ADone;
  ci_a1 : a = A1 -> length (c_q k) + cl k <= length (c_prefill k) + 1;
  ci_reg : c_reg k = true ->
           exists r, c_regat k = Some r /\ r <= length sent /\ c_unregat k = None;
  ci_unreg : c_reg k = false ->
             c_regat k = None \/ exists u, c_unregat k = Some u /\ u <= length sent;
  ci_align : aligned true (c_keep k) (window sent (c_regat k) (c_unregat k));
  ci_last : last (c_keep k) true = negb (c_disc k);
  ci_pushed : c_pushed k =
              c_prefill k ++ select (c_keep k) (window sent (c_regat k) (c_unregat k));
  ci_closes : (c_pc k = CDone -> c_closes k = 1) /\ (c_pc k <> CDone -> c_closes k = 0);
  (* on the exit path (parked at remove.loaded, or finished) the consumer is out of the map *)
  ci_exit : c_pc k = CExitLoaded \/ c_pc k = CDone -> c_reg k = false;
  (* registered before the attach returns; nothing is handed over before the goroutine runs *)
  ci_regat : a = A2 \/ a = ADone -> c_regat k <> None;
  ci_out0 : c_pc k = CNone -> c_out k = []
}.

(* panic: once the n-th call of Consume has happened the goroutine is on its exit path *)
Definition PInv (n : nat) (k : cons) : Prop :=
  0 < n ->
  length (c_out k) < n \/
  (length (c_out k) = n /\ (c_pc k = CExitLoaded \/ c_pc k = CDone) /\ c_reg k = false).

(* backlog *)
Definition Bq (k : cons) : nat := Nat.max (S maxq) (length (c_prefill k)).
Definition BInv (G : nat) (sent : list pkt) (k : cons) : Prop :=
  length (c_q k) + cl k <= Bq k + G /\
  (c_reg k = true -> c_disc k = false -> length (c_q k) + cl k <= Bq k + since sent + 1).

(* explicit forms of the anonymous record updates in the model *)
Definition snapk (k : cons) (pre : list pkt) : cons :=
  Build_cons (c_reg k) (c_closed k) (map Some pre) (c_pc k) (c_out k) (c_disc k) (c_closes k)
             pre pre (c_regat k) (c_unregat k) (c_keep k).
Definition with_qpc (k : cons) (q' : list (option pkt)) (pc' : cpc) : cons :=
  Build_cons (c_reg k) (c_closed k) q' pc' (c_out k) (c_disc k) (c_closes k) (c_pushed k)
             (c_prefill k) (c_regat k) (c_unregat k) (c_keep k).
Definition add_out (k : cons) (p : pkt) : cons :=
  Build_cons (c_reg k) (c_closed k) (c_q k) (c_pc k) (c_out k ++ [p]) (c_disc k) (c_closes k)
             (c_pushed k) (c_prefill k) (c_regat k) (c_unregat k) (c_keep k).

Definition live (pc : cpc) : Prop := pc = CPop \/ pc = CWait \/ exists x, pc = CGot x.

Lemma live_facts pc : live pc -> pc <> CNone /\ pc <> CDone /\ pc <> CExitLoaded.
Proof. intros [->|[->|[x ->]]]; repeat split; discriminate. Qed.

Ltac csimpl :=
  cbn [c_reg c_closed c_q c_pc c_out c_disc c_closes c_pushed c_prefill c_regat c_unregat c_keep
       set_reg set_pc finish snapk with_qpc add_out cons0].

Ltac cinv_break H :=
  destruct H as [Hearly Hpc Ha1 Hreg Hunreg Halign Hlast Hpushed Hcloses Hexit Hregat Hout0].

(* ---- CInv0 ---- *)

Lemma cinv0_init sent : CInv0 sent A0 cons0.
Proof.
  constructor; csimpl; auto; try discriminate.
  - intros H. congruence.
  - exact I.
  - split; [discriminate|reflexivity].
  - intros [E|E]; discriminate.
Qed.

Lemma cinv0_snap sent a k pre :
  a = A0 \/ a = A0W -> CInv0 sent a k -> CInv0 sent A1 (snapk k pre).
Proof.
  intros Ha H. cinv_break H.
  assert (He : early a) by (unfold early; tauto).
  destruct (Hearly He) as (E1 & E2 & E3 & E4).
  constructor; csimpl.
  - intros _. auto.
  - intros Hne. specialize (Hpc Hne). destruct Ha; congruence.
  - intros _. rewrite map_length. unfold cl; simpl. destruct (c_closed k); lia.
  - congruence.
  - intros _. now left.
  - rewrite E2, E4. exact I.
  - exact Hlast.
  - rewrite E2, E4. simpl. now rewrite app_nil_r.
  - exact Hcloses.
  - exact Hexit.
  - intros [E|E]; discriminate.
  - exact Hout0.
Qed.

Lemma cinv0_queue sent k : CInv0 sent A0 k -> CInv0 sent A0W k.
Proof.
  intros H. cinv_break H. constructor; auto.
  - intros _. apply Hearly. unfold early; tauto.
  - intros Hne. specialize (Hpc Hne). discriminate.
  - discriminate.
  - intros [E|E]; discriminate.
Qed.

Lemma cinv0_register sent k :
  CInv0 sent A1 k -> CInv0 sent A2 (set_reg k true (length sent)).
Proof.
  intros H. cinv_break H.
  assert (He : early A1) by (unfold early; tauto).
  destruct (Hearly He) as (E1 & E2 & E3 & E4).
  constructor; csimpl.
  - unfold early. intros [?|[?|?]]; discriminate.
  - intros Hne. specialize (Hpc Hne). discriminate.
  - discriminate.
  - intros _. exists (length sent). auto.
  - discriminate.
  - rewrite E4, window_reg_now. exact I.
  - exact Hlast.
  - rewrite E4, window_reg_now. rewrite Hpushed, E2, E4. reflexivity.
  - exact Hcloses.
  - intros Hp. exfalso. assert (E : A1 = ADone); [|discriminate].
    apply Hpc. destruct Hp as [Hp|Hp]; rewrite Hp; discriminate.
  - discriminate.
  - exact Hout0.
Qed.

Lemma cinv0_unreg sent a k :
  c_reg k = true -> CInv0 sent a k -> CInv0 sent a (set_reg k false (length sent)).
Proof.
  intros Hr H. cinv_break H.
  destruct (Hreg Hr) as (r & E2 & Hle & E3).
  constructor; csimpl.
  - intros He. destruct (Hearly He) as (E1 & _). congruence.
  - exact Hpc.
  - exact Ha1.
  - discriminate.
  - intros _. right. exists (length sent). auto.
  - rewrite window_unreg_now. rewrite E3 in Halign. exact Halign.
  - exact Hlast.
  - rewrite window_unreg_now. rewrite E3 in Hpushed. exact Hpushed.
  - exact Hcloses.
  - reflexivity.
  - exact Hregat.
  - exact Hout0.
Qed.

Lemma cinv0_close sent a k : CInv0 sent a k -> CInv0 sent a (close_cons fixed k).
Proof.
  intros H. cinv_break H.
  destruct (close_view k) as (q' & pc' & E & Hq & Hstep). rewrite E.
  constructor; csimpl; auto.
  - intros Hne. apply Hpc. intros E0. apply Hne. now apply (pc_step_none _ _ Hstep).
  - intros Ea. specialize (Ha1 Ea). unfold cl at 1; simpl. lia.
  - destruct Hcloses as [Hc1 Hc2]. split; intros Hd.
    + apply Hc1. now apply (pc_step_done _ _ Hstep).
    + apply Hc2. intros E0. apply Hd. now apply (pc_step_done _ _ Hstep).
  - intros [Hp|Hp]; apply Hexit; [left; now apply (pc_step_exit _ _ Hstep)|right; now apply (pc_step_done _ _ Hstep)].
  - intros E0. apply Hout0. now apply (pc_step_none _ _ Hstep).
Qed.

Lemma cinv0_send sent a k p :
  c_reg k = true -> CInv0 sent a k -> CInv0 (sent ++ [p]) a (send maxq k p).
Proof.
  intros Hr H. cinv_break H.
  destruct (Hreg Hr) as (r & E2 & Hle & E3).
  destruct (send_view k p) as (q' & pc' & E & Hq & Hstep). rewrite E.
  pose proof (aligned_length _ _ _ Halign) as Hlen.
  rewrite E2, E3 in *.
  constructor; csimpl.
  - intros He. destruct (Hearly He) as (E1 & _). congruence.
  - intros Hne. apply Hpc. intros E0. apply Hne. now apply (pc_step_none _ _ Hstep).
  - intros Ea. assert (He : early a) by (unfold early; tauto).
    destruct (Hearly He) as (E1 & _). congruence.
  - intros _. exists r. rewrite app_length. simpl. split; [reflexivity|]. split; [lia|reflexivity].
  - congruence.
  - rewrite window_snoc_reg by assumption.
    apply aligned_snoc; [assumption|]. rewrite Hlast. intros Hne. apply (send_d_change k p).
    intros E0. apply Hne. now rewrite E0.
  - rewrite last_snoc. reflexivity.
  - rewrite window_snoc_reg by assumption. rewrite select_snoc by assumption.
    rewrite Hpushed. destruct (send_d k p); simpl.
    + now rewrite app_nil_r.
    + now rewrite app_assoc.
  - destruct Hcloses as [Hc1 Hc2]. split; intros Hd.
    + apply Hc1. now apply (pc_step_done _ _ Hstep).
    + apply Hc2. intros E0. apply Hd. now apply (pc_step_done _ _ Hstep).
  - intros [Hp|Hp]; apply Hexit; [left; now apply (pc_step_exit _ _ Hstep)|right; now apply (pc_step_done _ _ Hstep)].
  - discriminate.
  - intros E0. apply Hout0. now apply (pc_step_none _ _ Hstep).
Qed.

Lemma cinv0_grow sent a k p :
  c_reg k = false -> CInv0 sent a k -> CInv0 (sent ++ [p]) a k.
Proof.
  intros Hr H. cinv_break H.
  assert (Hw : window (sent ++ [p]) (c_regat k) (c_unregat k) = window sent (c_regat k) (c_unregat k)).
  { destruct (Hunreg Hr) as [E|(u & E & Hu)].
    - rewrite E. reflexivity.
    - rewrite E. now apply window_snoc_unreg. }
  constructor; auto.
  - congruence.
  - intros _. destruct (Hunreg Hr) as [E|(u & E & Hu)]; [now left|right].
    exists u. rewrite app_length. split; [assumption|lia].
  - now rewrite Hw.
  - now rewrite Hw.
Qed.

Lemma cinv0_qpc sent a k q' pc' :
  CInv0 sent a k -> live (c_pc k) -> live pc' -> CInv0 sent a (with_qpc k q' pc').
Proof.
  intros H Hl Hl'. cinv_break H.
  destruct (live_facts _ Hl) as (L1 & L2 & L3). destruct (live_facts _ Hl') as (L1' & L2' & L3').
  constructor; csimpl; auto.
  - intros Ea. specialize (Hpc L1). congruence.
  - split; [intros; congruence|]. intros _. now apply Hcloses.
  - intros [E|E]; congruence.
  - congruence.
Qed.

Lemma cinv0_add_out sent a k p : c_pc k <> CNone -> CInv0 sent a k -> CInv0 sent a (add_out k p).
Proof. intros Hn H. cinv_break H. constructor; csimpl; auto. congruence. Qed.

Lemma cinv0_done sent a k : a = A2 \/ a = ADone -> CInv0 sent a k -> CInv0 sent ADone k.
Proof.
  intros Ha H. cinv_break H. constructor; auto.
  - unfold early. intros [?|[?|?]]; discriminate.
  - discriminate.
Qed.

Lemma cinv0_set_pc sent k pc' :
  CInv0 sent ADone k -> c_pc k <> CDone -> pc' <> CDone -> (pc' = CExitLoaded -> c_reg k = false) ->
  pc' <> CNone -> CInv0 sent ADone (set_pc k pc').
Proof.
  intros H Hd Hd' Hx Hn. cinv_break H. constructor; csimpl; auto.
  - split; [intros; congruence|]. intros _. now apply Hcloses.
  - intros [E|E]; [auto|congruence].
  - congruence.
Qed.

Lemma cinv0_finish sent k :
  CInv0 sent ADone k -> c_pc k <> CDone -> c_reg k = false -> CInv0 sent ADone (finish k).
Proof.
  intros H Hd Hr. cinv_break H. constructor; csimpl; auto.
  - discriminate.
  - split; [|congruence]. intros _. destruct Hcloses as [_ Hc]. now rewrite Hc.
  - discriminate.
Qed.

Lemma cinv0_exit_path sent k :
  CInv0 sent ADone k -> c_pc k <> CDone ->
  CInv0 sent ADone (exit_path fixed k (length sent)).
Proof.
  intros H Hd. unfold exit_path. simpl. destruct (c_reg k) eqn:Hr.
  - apply cinv0_set_pc; [now apply cinv0_unreg|exact Hd|discriminate|reflexivity|discriminate].
  - now apply cinv0_finish.
Qed.

Lemma cinv0_loop_test sent k :
  CInv0 sent ADone k -> c_pc k <> CDone ->
  CInv0 sent ADone (loop_test fixed k (length sent)).
Proof.
  intros H Hd. unfold loop_test. destruct (c_closed k).
  - now apply cinv0_exit_path.
  - apply cinv0_set_pc; [assumption|assumption|discriminate|discriminate|discriminate].
Qed.

(* ---- frames of the composite operations ---- *)

Definition frame (k k' : cons) : Prop :=
  length (c_q k') <= length (c_q k) /\ c_closed k' = c_closed k /\ c_prefill k' = c_prefill k /\
  (c_reg k' = true -> c_reg k = true) /\ c_disc k' = c_disc k /\ c_out k' = c_out k.

Lemma exit_path_frame k sent : frame k (exit_path fixed k sent).
Proof.
  unfold exit_path, frame. simpl. destruct (c_reg k) eqn:Hr; simpl; repeat split; auto; try lia.
  intros; congruence.
Qed.

Lemma loop_test_frame k sent : frame k (loop_test fixed k sent).
Proof.
  unfold loop_test. destruct (c_closed k); [apply exit_path_frame|].
  unfold frame; simpl; repeat split; auto.
Qed.

Lemma exit_path_pc k sent :
  (c_pc (exit_path fixed k sent) = CExitLoaded \/ c_pc (exit_path fixed k sent) = CDone) /\
  c_reg (exit_path fixed k sent) = false.
Proof. unfold exit_path. simpl. destruct (c_reg k) eqn:Hr; simpl; auto. Qed.

(* ---- PInv ---- *)

Lemma pinv_keep n k k' :
  PInv n k -> c_out k' = c_out k ->
  ((c_pc k = CExitLoaded \/ c_pc k = CDone) -> c_reg k = false ->
   (c_pc k' = CExitLoaded \/ c_pc k' = CDone) /\ c_reg k' = false) ->
  PInv n k'.
Proof.
  unfold PInv. intros H Eo Hk Hn. rewrite Eo. destruct (H Hn) as [Hlt|(He & Hp & Hr)]; [now left|right].
  destruct (Hk Hp Hr). auto.
Qed.

Lemma pinv_pc_step n k k' :
  PInv n k -> c_out k' = c_out k -> c_reg k' = c_reg k -> pc_step (c_pc k) (c_pc k') -> PInv n k'.
Proof.
  intros H Eo Er Hs. apply (pinv_keep n k); [assumption|assumption|].
  intros Hp Hr. split; [|congruence].
  destruct Hp as [Hp|Hp]; [left; now apply (pc_step_exit _ _ Hs)|right; now apply (pc_step_done _ _ Hs)].
Qed.

Lemma pinv_exit_path n k sent :
  (0 < n -> length (c_out k) <= n) -> PInv n (exit_path fixed k sent).
Proof.
  intros H Hn. destruct (exit_path_frame k sent) as (_ & _ & _ & _ & _ & Eo).
  destruct (exit_path_pc k sent) as [Hp Hr]. rewrite Eo.
  specialize (H Hn). destruct (Nat.eq_dec (length (c_out k)) n); [right; auto|left; lia].
Qed.

Lemma pinv_loop_test n k sent :
  (0 < n -> length (c_out k) < n) -> PInv n (loop_test fixed k sent).
Proof.
  intros H Hn. destruct (loop_test_frame k sent) as (_ & _ & _ & _ & _ & Eo). rewrite Eo. left. auto.
Qed.

(* ---- BInv ---- *)

Lemma binv_shrink G sent k k' :
  BInv G sent k ->
  length (c_q k') + cl k' <= length (c_q k) + cl k -> c_prefill k' = c_prefill k ->
  (c_reg k' = true -> c_reg k = true) -> c_disc k' = c_disc k -> BInv G sent k'.
Proof.
  unfold BInv, Bq. intros [H1 H2] Hq Ep Hr Ed. rewrite Ep, Ed. split; [lia|].
  intros R D. specialize (H2 (Hr R) D). lia.
Qed.

Lemma binv_frame G sent k k' : BInv G sent k -> frame k k' -> BInv G sent k'.
Proof.
  intros H (Hq & Ec & Ep & Hr & Ed & _). apply (binv_shrink G sent k); auto.
  unfold cl. rewrite Ec. lia.
Qed.

Lemma binv_init G sent : 0 < G -> BInv G sent cons0.
Proof. unfold BInv, Bq, cl; csimpl. intros; split; [simpl length; lia|discriminate]. Qed.

Lemma binv_snap G sent k pre : 0 < G -> c_reg k = false -> BInv G sent (snapk k pre).
Proof.
  unfold BInv, Bq, cl; csimpl. intros HG Hr. rewrite map_length. split; [|congruence].
  destruct (c_closed k); lia.
Qed.

Lemma binv_register G sent k :
  length (c_q k) + cl k <= length (c_prefill k) + 1 -> BInv G sent k ->
  BInv G sent (set_reg k true (length sent)).
Proof.
  unfold BInv, Bq, cl; csimpl. intros H [H1 _]. split; [exact H1|]. intros _ _. lia.
Qed.

Lemma binv_send G sent k p :
  0 < G -> since (sent ++ [p]) < G -> c_reg k = true -> BInv G sent k ->
  BInv G (sent ++ [p]) (send maxq k p).
Proof.
  intros HG Hs Hr [H1 H2].
  destruct (send_view k p) as (q' & pc' & E & Hq & _). rewrite E.
  unfold BInv, Bq, cl in *; csimpl. rewrite since_snoc in *.
  destruct (p_key p) eqn:Kp.
  - (* key-start packet *)
    destruct (send_d k p) eqn:Ed.
    + split; [lia|discriminate].
    + pose proof (send_d_key_false k p Kp Ed) as Hn.
      split; [destruct (c_closed k); lia|]. intros _ _. destruct (c_closed k); lia.
  - rewrite (send_d_nonkey k p Kp) in *.
    destruct (c_disc k) eqn:Ed.
    + split; [lia|discriminate].
    + specialize (H2 Hr eq_refl). split; [lia|]. intros _ _. lia.
Qed.

Lemma binv_grow G sent k p : c_reg k = false -> BInv G sent k -> BInv G (sent ++ [p]) k.
Proof. unfold BInv. intros Hr [H1 _]. split; [exact H1|congruence]. Qed.

(* ------------------------------------------------------------------ *)
(** * 4. Lock discipline of the join mutex *)

Record LInvC (lock : option holder) (q : list holder) (pp : ppc) (att : nat -> apc)
             (todo : list pkt) : Prop := {
  l_pub : lock = Some HPub <-> pp = P2;
  l_att : forall c, lock = Some (HAtt c) <-> att c = A1;
  l_free : lock = None -> q = [];
  l_nodup : NoDup q;
  l_qpub : In HPub q <-> pp = P1W;
  l_qatt : forall c, In (HAtt c) q <-> att c = A0W;
  l_todo : pp = P1W -> todo <> [];
  l_rng : forall c, ncons <= c -> att c = A0
}.

Ltac linv_break H := destruct H as [Lpub Latt Lfree Lnodup Lqpub Lqatt Ltodo Lrng].

Lemma upd_eq_cases {A} (f : nat -> A) c v c' :
  (c' = c /\ upd f c v c' = v) \/ (c' <> c /\ upd f c v c' = f c').
Proof.
  destruct (Nat.eq_dec c' c) as [->|Hne]; [left|right].
  - now rewrite upd_same.
  - rewrite upd_other by congruence. auto.
Qed.

Lemma linv_init pkts : LInvC None [] P0 (fun _ => A0) pkts.
Proof.
  constructor.
  - split; discriminate.
  - intros c. split; discriminate.
  - reflexivity.
  - constructor.
  - split; [intros []|discriminate].
  - intros c. split; [intros []|discriminate].
  - discriminate.
  - reflexivity.
Qed.

(* publisher moves between P0 and P1 (or drops a packet at P0) *)
Lemma linv_pp_plain lock q pp att todo pp' todo' :
  LInvC lock q pp att todo -> pp <> P1W -> pp <> P2 -> pp' <> P1W -> pp' <> P2 ->
  LInvC lock q pp' att todo'.
Proof.
  intros H N1 N2 N1' N2'. linv_break H. constructor.
  - tauto.
  - exact Latt.
  - exact Lfree.
  - exact Lnodup.
  - tauto.
  - exact Lqatt.
  - tauto.
  - exact Lrng.
Qed.

Lemma linv_pub_acquire_free q att todo :
  LInvC None q P1 att todo -> LInvC (Some HPub) q P2 att todo.
Proof.
  intros H. linv_break H. pose proof (Lfree eq_refl) as ->. constructor.
  - tauto.
  - intros c. split; [discriminate|]. intros E. apply Latt in E. discriminate.
  - discriminate.
  - exact Lnodup.
  - split; [intros []|discriminate].
  - exact Lqatt.
  - discriminate.
  - exact Lrng.
Qed.

Lemma linv_pub_acquire_wait h q att todo :
  LInvC (Some h) q P1 att todo -> todo <> [] -> LInvC (Some h) (q ++ [HPub]) P1W att todo.
Proof.
  intros H Ht. linv_break H. constructor.
  - split; [|discriminate]. intros E. apply Lpub in E. discriminate.
  - exact Latt.
  - discriminate.
  - apply NoDup_snoc; [assumption|]. intros E. apply Lqpub in E. discriminate.
  - split; [reflexivity|]. intros _. apply in_app_iff. right. now left.
  - intros c. rewrite in_app_iff. rewrite <- Lqatt. split; [|tauto].
    intros [E|[E|[]]]; [assumption|discriminate].
  - intros _. exact Ht.
  - exact Lrng.
Qed.

Lemma linv_att_acquire_free q pp att todo c :
  LInvC None q pp att todo -> att c = A0 -> c < ncons ->
  LInvC (Some (HAtt c)) q pp (upd att c A1) todo.
Proof.
  intros H Ha Hc. linv_break H. pose proof (Lfree eq_refl) as ->. constructor.
  - split; [discriminate|]. intros E. apply Lpub in E. discriminate.
  - intros c'. destruct (upd_eq_cases att c A1 c') as [[-> ->]|[Hne ->]].
    + tauto.
    + split; [intros E; injection E; congruence|]. intros E. apply Latt in E. discriminate.
  - discriminate.
  - exact Lnodup.
  - exact Lqpub.
  - intros c'. destruct (upd_eq_cases att c A1 c') as [[-> ->]|[Hne ->]].
    + split; [intros []|discriminate].
    + apply Lqatt.
  - exact Ltodo.
  - intros c' Hc'. destruct (upd_eq_cases att c A1 c') as [[-> ->]|[Hne ->]]; [lia|auto].
Qed.

Lemma linv_att_acquire_wait h q pp att todo c :
  LInvC (Some h) q pp att todo -> att c = A0 -> c < ncons ->
  LInvC (Some h) (q ++ [HAtt c]) pp (upd att c A0W) todo.
Proof.
  intros H Ha Hc. linv_break H. constructor.
  - exact Lpub.
  - intros c'. destruct (upd_eq_cases att c A0W c') as [[-> ->]|[Hne ->]].
    + split; [|discriminate]. intros E. apply Latt in E. congruence.
    + apply Latt.
  - discriminate.
  - apply NoDup_snoc; [assumption|]. intros E. apply Lqatt in E. congruence.
  - rewrite in_app_iff. rewrite <- Lqpub. split; [|tauto].
    intros [E|[E|[]]]; [assumption|discriminate].
  - intros c'. rewrite in_app_iff. destruct (upd_eq_cases att c A0W c') as [[-> ->]|[Hne ->]].
    + split; [reflexivity|]. intros _. right. now left.
    + rewrite <- Lqatt. split; [|tauto]. intros [E|[E|[]]]; [assumption|]. congruence.
  - exact Ltodo.
  - intros c' Hc'. destruct (upd_eq_cases att c A0W c') as [[-> ->]|[Hne ->]]; [lia|auto].
Qed.

(* handing the mutex to the first waiter [h] of the queue [h :: r] *)
Lemma linv_pub_release q att todo todo' :
  LInvC (Some HPub) q P2 att todo ->
  match q with
  | [] => LInvC None [] P0 att todo'
  | HPub :: _ => False
  | HAtt c :: r => att c = A0W /\ LInvC (Some (HAtt c)) r P0 (upd att c A1) todo'
  end.
Proof.
  intros H. linv_break H. destruct q as [|[|c] r].
  - constructor.
    + split; discriminate.
    + intros c. split; [discriminate|]. intros E. apply Latt in E. discriminate.
    + reflexivity.
    + constructor.
    + split; [intros []|discriminate].
    + exact Lqatt.
    + discriminate.
    + exact Lrng.
  - assert (E : P2 = P1W) by (apply Lqpub; now left). discriminate.
  - assert (Ea : att c = A0W) by (apply Lqatt; now left). split; [exact Ea|].
    inversion Lnodup as [|? ? Hnin Hnd]; subst.
    constructor.
    + split; discriminate.
    + intros c'. destruct (upd_eq_cases att c A1 c') as [[-> ->]|[Hne ->]].
      * tauto.
      * split; [intros E; injection E; congruence|]. intros E. apply Latt in E. discriminate.
    + discriminate.
    + exact Hnd.
    + split; [|discriminate]. intros E. assert (P2 = P1W) by (apply Lqpub; now right). discriminate.
    + intros c'. destruct (upd_eq_cases att c A1 c') as [[-> ->]|[Hne ->]].
      * split; [intros E; contradiction|discriminate].
      * rewrite <- Lqatt. split; [intros E; now right|]. intros [E|E]; [congruence|assumption].
    + discriminate.
    + intros c' Hc'. destruct (upd_eq_cases att c A1 c') as [[-> ->]|[Hne ->]]; [|auto].
      specialize (Lrng _ Hc'). congruence.
Qed.

Lemma linv_att_release c q pp att todo :
  LInvC (Some (HAtt c)) q pp att todo ->
  match q with
  | [] => LInvC None [] pp (upd att c A2) todo
  | HPub :: r => pp = P1W /\ todo <> [] /\ LInvC (Some HPub) r P2 (upd att c A2) todo
  | HAtt c' :: r => att c' = A0W /\ LInvC (Some (HAtt c')) r pp (upd (upd att c A2) c' A1) todo
  end.
Proof.
  intros H. linv_break H.
  assert (Ec : att c = A1) by (now apply Latt).
  assert (Np2 : pp <> P2) by (intros E; apply Lpub in E; discriminate).
  assert (Hrng : forall c', ncons <= c' -> upd att c A2 c' = A0).
  { intros c' Hc'. destruct (upd_eq_cases att c A2 c') as [[-> ->]|[Hne ->]]; [|auto].
    specialize (Lrng _ Hc'). congruence. }
  assert (Hother : forall c', att c' = A1 -> c' = c).
  { intros c' E. apply Latt in E. injection E. auto. }
  destruct q as [|[|c'] r].
  - constructor.
    + split; [discriminate|tauto].
    + intros c'. split; [discriminate|]. destruct (upd_eq_cases att c A2 c') as [[-> ->]|[Hne ->]].
      * discriminate.
      * intros E. elim Hne. auto.
    + reflexivity.
    + constructor.
    + exact Lqpub.
    + intros c'. destruct (upd_eq_cases att c A2 c') as [[-> ->]|[Hne ->]].
      * split; [intros []|discriminate].
      * apply Lqatt.
    + exact Ltodo.
    + exact Hrng.
  - assert (Ep : pp = P1W) by (apply Lqpub; now left). split; [exact Ep|]. split; [auto|].
    inversion Lnodup as [|? ? Hnin Hnd]; subst.
    constructor.
    + tauto.
    + intros c'. split; [discriminate|]. destruct (upd_eq_cases att c A2 c') as [[-> ->]|[Hne ->]].
      * discriminate.
      * intros E. elim Hne. auto.
    + discriminate.
    + exact Hnd.
    + split; [contradiction|discriminate].
    + intros c'. destruct (upd_eq_cases att c A2 c') as [[-> ->]|[Hne ->]].
      * split; [|discriminate]. intros E. assert (att c = A0W) by (apply Lqatt; now right). congruence.
      * rewrite <- Lqatt. split; [intros E; now right|]. intros [E|E]; [discriminate|assumption].
    + discriminate.
    + exact Hrng.
  - assert (Ea : att c' = A0W) by (apply Lqatt; now left). split; [exact Ea|].
    assert (Hcc : c' <> c) by congruence.
    inversion Lnodup as [|? ? Hnin Hnd]; subst.
    constructor.
    + split; [discriminate|tauto].
    + intros c''. destruct (upd_eq_cases (upd att c A2) c' A1 c'') as [[-> ->]|[Hne ->]].
      * tauto.
      * split; [intros E; injection E; congruence|].
        destruct (upd_eq_cases att c A2 c'') as [[-> ->]|[Hne2 ->]]; [discriminate|].
        intros E. elim Hne2. auto.
    + discriminate.
    + exact Hnd.
    + rewrite <- Lqpub. split; [intros E; now right|]. intros [E|E]; [discriminate|assumption].
    + intros c''. destruct (upd_eq_cases (upd att c A2) c' A1 c'') as [[-> ->]|[Hne ->]].
      * split; [intros E; contradiction|discriminate].
      * destruct (upd_eq_cases att c A2 c'') as [[-> ->]|[Hne2 ->]].
        -- split; [|discriminate]. intros E. assert (att c = A0W) by (apply Lqatt; now right). congruence.
        -- rewrite <- Lqatt. split; [intros E; now right|]. intros [E|E]; [congruence|assumption].
    + exact Ltodo.
    + intros c'' Hc''. destruct (upd_eq_cases (upd att c A2) c' A1 c'') as [[-> ->]|[Hne ->]]; [|auto].
      specialize (Lrng _ Hc''). congruence.
Qed.

(* the attacher's last step A2 -> ADone *)
Lemma linv_att_done lock q pp att todo c :
  LInvC lock q pp att todo -> att c = A2 -> LInvC lock q pp (upd att c ADone) todo.
Proof.
  intros H Ha. linv_break H. constructor.
  - exact Lpub.
  - intros c'. destruct (upd_eq_cases att c ADone c') as [[-> ->]|[Hne ->]]; [|apply Latt].
    split; [|discriminate]. intros E. apply Latt in E. congruence.
  - exact Lfree.
  - exact Lnodup.
  - exact Lqpub.
  - intros c'. destruct (upd_eq_cases att c ADone c') as [[-> ->]|[Hne ->]]; [|apply Lqatt].
    split; [|discriminate]. intros E. apply Lqatt in E. congruence.
  - exact Ltodo.
  - intros c' Hc'. destruct (upd_eq_cases att c ADone c') as [[-> ->]|[Hne ->]]; [|auto].
    specialize (Lrng _ Hc'). congruence.
Qed.

(* ------------------------------------------------------------------ *)
(** * 5. The three per-consumer invariants together, per operation *)

Section K3.
Variable G : nat.
Variable pkts : list pkt.

Definition K3 (sent : list pkt) (a : apc) (k : cons) (n : nat) : Prop :=
  CInv0 sent a k /\ PInv n k /\ (gap_ok G pkts = true -> BInv G sent k).

Lemma k3_init sent n : K3 sent A0 cons0 n.
Proof.
  split; [apply cinv0_init|]. split.
  - intros Hn. left. simpl. exact Hn.
  - intros Hg. apply binv_init. eapply gap_ok_pos; eassumption.
Qed.

Lemma k3_snap sent a k n pre :
  a = A0 \/ a = A0W -> K3 sent a k n -> K3 sent A1 (snapk k pre) n.
Proof.
  intros Ha (HC & HP & HB). split; [eapply cinv0_snap; eassumption|]. split.
  - apply (pinv_keep n k); [assumption|reflexivity|]. auto.
  - intros Hg. apply binv_snap; [eapply gap_ok_pos; eassumption|].
    apply (ci_early _ _ _ HC). unfold early. tauto.
Qed.

Lemma k3_queue sent k n : K3 sent A0 k n -> K3 sent A0W k n.
Proof. intros (HC & HP & HB). split; [now apply cinv0_queue|]. auto. Qed.

Lemma k3_register sent k n : K3 sent A1 k n -> K3 sent A2 (set_reg k true (length sent)) n.
Proof.
  intros (HC & HP & HB). split; [now apply cinv0_register|]. split.
  - apply (pinv_keep n k); [assumption|reflexivity|]. intros Hp _. exfalso.
    assert (E : A1 = ADone); [|discriminate].
    apply (ci_pc _ _ _ HC). destruct Hp as [Hp|Hp]; rewrite Hp; discriminate.
  - intros Hg. apply binv_register; [|auto]. now apply (ci_a1 _ _ _ HC).
Qed.

Lemma k3_unreg sent a k n :
  c_reg k = true -> K3 sent a k n -> K3 sent a (set_reg k false (length sent)) n.
Proof.
  intros Hr (HC & HP & HB). split; [now apply cinv0_unreg|]. split.
  - apply (pinv_keep n k); [assumption|reflexivity|]. intros _ E. congruence.
  - intros Hg. apply (binv_shrink G sent k); auto.
Qed.

Lemma k3_close sent a k n : K3 sent a k n -> K3 sent a (close_cons fixed k) n.
Proof.
  intros (HC & HP & HB). split; [now apply cinv0_close|].
  destruct (close_view k) as (q' & pc' & E & Hq & Hstep). rewrite E. split.
  - apply (pinv_pc_step n k); auto.
  - intros Hg. apply (binv_shrink G sent k); auto. unfold cl at 1. csimpl. lia.
Qed.

Lemma k3_send sent a k n p :
  c_reg k = true -> (gap_ok G pkts = true -> since (sent ++ [p]) < G) ->
  K3 sent a k n -> K3 (sent ++ [p]) a (send maxq k p) n.
Proof.
  intros Hr Hs (HC & HP & HB). split; [now apply cinv0_send|]. split.
  - destruct (send_view k p) as (q' & pc' & E & Hq & Hstep). rewrite E.
    apply (pinv_pc_step n k); auto.
  - intros Hg. apply binv_send; auto. eapply gap_ok_pos; eassumption.
Qed.

Lemma k3_grow sent a k n p : c_reg k = false -> K3 sent a k n -> K3 (sent ++ [p]) a k n.
Proof.
  intros Hr (HC & HP & HB). split; [now apply cinv0_grow|]. split; [assumption|].
  intros Hg. apply binv_grow; auto.
Qed.

(* the attacher's last step: re-check of the status, then the goroutine runs to its first point *)
Lemma k3_start sent k n (b : bool) :
  K3 sent A2 k n ->
  K3 sent ADone
     (loop_test fixed (if b && c_reg k then close_cons fixed (set_reg k false (length sent)) else k)
                (length sent)) n.
Proof.
  intros H.
  assert (Hpc0 : c_pc k = CNone).
  { destruct H as (HC & _). destruct (c_pc k) eqn:E; try reflexivity;
      (assert (E' : A2 = ADone); [apply (ci_pc _ _ _ HC); rewrite E; discriminate|discriminate]). }
  set (k1 := if b && c_reg k then close_cons fixed (set_reg k false (length sent)) else k).
  assert (H1 : K3 sent A2 k1 n /\ c_pc k1 = CNone).
  { subst k1. destruct (b && c_reg k) eqn:Eb; [|auto].
    apply andb_true_iff in Eb. destruct Eb as [_ Hr]. split.
    - apply k3_close. now apply k3_unreg.
    - destruct (close_view (set_reg k false (length sent))) as (q' & pc' & E & _ & Hstep).
      rewrite E. csimpl. now apply (pc_step_none _ _ Hstep). }
  destruct H1 as ((HC & HP & HB) & Hpc1). split; [|split].
  - apply cinv0_loop_test; [apply (cinv0_done sent A2); auto|congruence].
  - apply pinv_loop_test. intros Hn. destruct (HP Hn) as [Hlt|(_ & [Hp|Hp] & _)]; [assumption|congruence|congruence].
  - intros Hg. apply (binv_frame G sent k1); [auto|apply loop_test_frame].
Qed.

(* one step of the delivery goroutine, as a function of the consumer alone *)
Definition cons_next (n : nat) (k : cons) (sent : nat) : option cons :=
  match c_pc k with
  | CPop => match c_q k with
            | [] => Some (set_pc k CWait)
            | x :: q' => Some (with_qpc k q' (CGot x))
            end
  | CGot (Some p) =>
      if Nat.eqb (S (length (c_out k))) n
      then Some (exit_path fixed (add_out k p) sent)
      else Some (loop_test fixed (add_out k p) sent)
  | CGot None => Some (loop_test fixed k sent)
  | CExitLoaded => Some (finish (close_cons fixed k))
  | _ => None
  end.

Lemma k3_cons_next sent a k n k' :
  K3 sent a k n -> cons_next n k (length sent) = Some k' -> K3 sent a k' n.
Proof.
  intros (HC & HP & HB) E.
  assert (Ha : a = ADone).
  { apply (ci_pc _ _ _ HC). intros E0. unfold cons_next in E. rewrite E0 in E. discriminate. }
  subst a. unfold cons_next in E. destruct (c_pc k) as [| |[p|]| | |] eqn:Epc; try discriminate.
  - (* CPop *)
    assert (Hl : live (c_pc k)) by (rewrite Epc; unfold live; auto).
    assert (Hlt : 0 < n -> length (c_out k) < n).
    { intros Hn. destruct (HP Hn) as [?|(_ & [Hp|Hp] & _)]; [assumption|congruence|congruence]. }
    destruct (c_q k) as [|x q'] eqn:Eq; injection E as <-.
    + change (set_pc k CWait) with (with_qpc k (c_q k) CWait). split; [|split].
      * apply cinv0_qpc; [assumption|assumption|unfold live; auto].
      * intros Hn. left. csimpl. auto.
      * intros Hg. apply (binv_shrink G sent k); auto.
    + split; [|split].
      * apply cinv0_qpc; [assumption|assumption|unfold live; eauto].
      * intros Hn. left. csimpl. auto.
      * intros Hg. apply (binv_shrink G sent k); auto. unfold cl; csimpl. rewrite Eq. simpl. lia.
  - (* CGot (Some p) *)
    assert (Hlt : 0 < n -> length (c_out k) < n).
    { intros Hn. destruct (HP Hn) as [?|(_ & [Hp|Hp] & _)]; [assumption|congruence|congruence]. }
    assert (HC1 : CInv0 sent ADone (add_out k p)) by (apply cinv0_add_out; [congruence|assumption]).
    assert (Hpc1 : c_pc (add_out k p) <> CDone) by (csimpl; congruence).
    assert (HB1 : gap_ok G pkts = true -> BInv G sent (add_out k p)).
    { intros Hg. apply (binv_shrink G sent k); auto. }
    destruct (Nat.eqb_spec (S (length (c_out k))) n) as [En|En]; injection E as <-.
    + split; [|split].
      * now apply cinv0_exit_path.
      * apply pinv_exit_path. intros _. csimpl. rewrite app_length. simpl. lia.
      * intros Hg. apply (binv_frame G sent (add_out k p)); [auto|apply exit_path_frame].
    + split; [|split].
      * now apply cinv0_loop_test.
      * apply pinv_loop_test. intros Hn. csimpl. rewrite app_length. simpl. specialize (Hlt Hn). lia.
      * intros Hg. apply (binv_frame G sent (add_out k p)); [auto|apply loop_test_frame].
  - (* CGot None *)
    assert (Hlt : 0 < n -> length (c_out k) < n).
    { intros Hn. destruct (HP Hn) as [?|(_ & [Hp|Hp] & _)]; [assumption|congruence|congruence]. }
    injection E as <-. split; [|split].
    + apply cinv0_loop_test; [assumption|congruence].
    + now apply pinv_loop_test.
    + intros Hg. apply (binv_frame G sent k); [auto|apply loop_test_frame].
  - (* CExitLoaded *)
    injection E as <-.
    destruct (k3_close sent ADone k n (conj HC (conj HP HB))) as (HC1 & HP1 & HB1).
    destruct (close_view k) as (q' & pc' & Ev & Hq & Hstep).
    assert (Hpc1 : c_pc (close_cons fixed k) = CExitLoaded).
    { rewrite Ev. csimpl. now apply (pc_step_exit _ _ Hstep). }
    split; [|split].
    + apply cinv0_finish; [assumption|congruence|].
      apply (ci_exit _ _ _ HC1). left. exact Hpc1.
    + apply (pinv_keep n (close_cons fixed k)); [assumption|reflexivity|].
      intros _ Hr. csimpl. auto.
    + intros Hg. apply (binv_shrink G sent (close_cons fixed k)); auto.
      unfold cl; csimpl. simpl length. lia.
Qed.

End K3.

(* ------------------------------------------------------------------ *)
(** * 6. The state invariant *)

Ltac ssimpl :=
  cbn [s_ok s_lock s_lockq s_cache s_sent s_cached s_todo s_pp s_count s_cs s_att s_stp s_kp
       set_cs set_core set_att set_stp].

(* the broadcast and the closer's sweep act on each consumer separately *)
Lemma send_all_at n f p : forall c,
  send_all maxq n f p c = if (c <? n) && c_reg (f c) then send maxq (f c) p else f c.
Proof.
  induction n as [|n IH]; intros c; [reflexivity|]. simpl.
  assert (En : send_all maxq n f p n = f n).
  { rewrite IH. now rewrite Nat.ltb_irrefl. }
  rewrite En.
  destruct (Nat.eq_dec c n) as [->|Hne].
  - assert (E1 : (n <? S n) = true) by (apply Nat.ltb_lt; lia). rewrite E1. simpl.
    destruct (c_reg (f n)); [now rewrite upd_same|exact En].
  - assert (E1 : (c <? S n) = (c <? n)).
    { destruct (Nat.ltb_spec c (S n)), (Nat.ltb_spec c n); try reflexivity; lia. }
    rewrite E1. destruct (c_reg (f n)); [rewrite upd_other by congruence|]; apply IH.
Qed.

Lemma sweep_at n f sent : forall c,
  fst (sweep fixed n f sent) c =
  if (c <? n) && c_reg (f c) then close_cons fixed (set_reg (f c) false sent) else f c.
Proof.
  induction n as [|n IH]; intros c; [reflexivity|]. simpl.
  destruct (sweep fixed n f sent) as [f' d] eqn:Es. simpl in IH.
  assert (En : f' n = f n).
  { rewrite IH. now rewrite Nat.ltb_irrefl. }
  rewrite En.
  destruct (Nat.eq_dec c n) as [->|Hne].
  - assert (E1 : (n <? S n) = true) by (apply Nat.ltb_lt; lia). rewrite E1. simpl.
    destruct (c_reg (f n)); simpl; [now rewrite upd_same|exact En].
  - assert (E1 : (c <? S n) = (c <? n)).
    { destruct (Nat.ltb_spec c (S n)), (Nat.ltb_spec c n); try reflexivity; lia. }
    rewrite E1. destruct (c_reg (f n)); simpl; [rewrite upd_other by congruence|]; apply IH.
Qed.

Section Global.
Variable G : nat.
Variable pkts : list pkt.

Definition LInv (s : state) : Prop :=
  LInvC (s_lock s) (s_lockq s) (s_pp s) (s_att s) (s_todo s).

(* the broadcast log is a prefix of the packet list (a closed stream drops the remaining packets) *)
Definition Prefix (s : state) : Prop :=
  pkts = s_sent s ++ s_todo s \/
  (s_ok s = false /\ s_pp s = P0 /\ exists l, pkts = s_sent s ++ l).

Definition CAllC (sent : list pkt) (att : nat -> apc) (cs : nat -> cons) : Prop :=
  forall c, K3 G pkts sent (att c) (cs c) (panic_at c).
Definition CAll (s : state) : Prop := CAllC (s_sent s) (s_att s) (s_cs s).

Record Inv (s : state) : Prop := { inv_l : LInv s; inv_p : Prefix s; inv_c : CAll s }.

Lemma callc_upd sent att cs c a k :
  CAllC sent att cs -> K3 G pkts sent a k (panic_at c) -> CAllC sent (upd att c a) (upd cs c k).
Proof.
  intros H Hk c'. destruct (Nat.eq_dec c c') as [<-|Hne].
  - now rewrite !upd_same.
  - rewrite !upd_other by assumption. apply H.
Qed.

Lemma callc_upd_cs sent att cs c k :
  CAllC sent att cs -> K3 G pkts sent (att c) k (panic_at c) -> CAllC sent att (upd cs c k).
Proof.
  intros H Hk c'. destruct (Nat.eq_dec c c') as [<-|Hne].
  - now rewrite upd_same.
  - rewrite upd_other by assumption. apply H.
Qed.

Lemma callc_send_all sent att cs p :
  CAllC sent att cs -> (forall c, ncons <= c -> att c = A0) ->
  (gap_ok G pkts = true -> since (sent ++ [p]) < G) ->
  CAllC (sent ++ [p]) att (send_all maxq ncons cs p).
Proof.
  intros H Hrng Hs c. rewrite send_all_at.
  destruct (Nat.ltb_spec c ncons) as [Hc|Hc]; simpl.
  - destruct (c_reg (cs c)) eqn:Hr; [now apply k3_send|now apply k3_grow].
  - apply k3_grow; [|apply H].
    destruct (H c) as (HC & _). apply (ci_early _ _ _ HC). rewrite (Hrng c Hc). unfold early. tauto.
Qed.

Lemma callc_sweep sent att cs :
  CAllC sent att cs -> CAllC sent att (fst (sweep fixed ncons cs (length sent))).
Proof.
  intros H c. rewrite sweep_at. destruct ((c <? ncons) && c_reg (cs c)) eqn:E; [|apply H].
  apply andb_true_iff in E. destruct E as [_ Hr]. apply k3_close. now apply k3_unreg.
Qed.

(* what Unlock() needs to know about the state it is called in *)
Definition RelPre (m : state) : Prop :=
  match s_lockq m with
  | [] => LInvC None [] (s_pp m) (s_att m) (s_todo m)
  | HPub :: r => s_pp m = P1W /\ s_todo m <> [] /\ LInvC (Some HPub) r P2 (s_att m) (s_todo m)
  | HAtt c :: r => (s_att m c = A0 \/ s_att m c = A0W) /\
                   LInvC (Some (HAtt c)) r (s_pp m) (upd (s_att m) c A1) (s_todo m)
  end.

Lemma release_inv (m : state) :
  CAll m -> RelPre m -> Prefix m -> Inv (release fixed cache_t cache_add cache_snap m).
Proof.
  intros HC HR HP. unfold RelPre in HR. unfold release. cbn [v_lock fixed].
  destruct (s_lockq m) as [|[|c] r] eqn:Eq.
  - constructor; [exact HR|exact HP|exact HC].
  - destruct HR as (Epp & Ht & HL). unfold after_acquire.
    destruct (s_todo m) as [|p rest] eqn:Et; [contradiction|].
    constructor.
    + unfold LInv. ssimpl. rewrite Et. exact HL.
    + unfold Prefix in *. ssimpl. destruct HP as [HP|(_ & E & _)]; [now left|congruence].
    + exact HC.
  - destruct HR as (Ea & HL). unfold after_acquire. constructor.
    + exact HL.
    + exact HP.
    + unfold CAll. ssimpl. apply callc_upd; [exact HC|].
      apply (k3_snap G pkts _ (s_att m c) (s_cs m c)); [exact Ea|apply HC].
Qed.

Lemma acquire_inv_pub (s : state) p rest :
  Inv s -> s_pp s = P1 -> s_todo s = p :: rest ->
  Inv (acquire fixed cache_t cache_add cache_snap s HPub).
Proof.
  intros [HL HP HC] Epp Et. unfold acquire. cbn [v_lock fixed]. unfold LInv in HL. rewrite Epp in HL.
  destruct (s_lock s) as [h|] eqn:El.
  - constructor.
    + unfold LInv. ssimpl. apply linv_pub_acquire_wait; [exact HL|congruence].
    + unfold Prefix in *. ssimpl. destruct HP as [HP|(_ & E & _)]; [now left|congruence].
    + exact HC.
  - unfold after_acquire. rewrite Et. constructor.
    + unfold LInv. ssimpl. rewrite Et. apply linv_pub_acquire_free. rewrite <- Et. exact HL.
    + unfold Prefix in *. ssimpl. destruct HP as [HP|(_ & E & _)]; [now left|congruence].
    + exact HC.
Qed.

Lemma acquire_inv_att (s : state) c :
  Inv s -> s_att s c = A0 -> c < ncons ->
  Inv (acquire fixed cache_t cache_add cache_snap s (HAtt c)).
Proof.
  intros [HL HP HC] Ea Hc. unfold acquire. cbn [v_lock fixed]. unfold LInv in HL.
  destruct (s_lock s) as [h|] eqn:El.
  - constructor.
    + unfold LInv. ssimpl. now apply linv_att_acquire_wait.
    + exact HP.
    + unfold CAll. ssimpl. intros c'. destruct (Nat.eq_dec c c') as [<-|Hne].
      * rewrite upd_same. apply k3_queue. rewrite <- Ea. apply HC.
      * rewrite upd_other by assumption. apply HC.
  - unfold after_acquire. constructor.
    + unfold LInv. ssimpl. now apply linv_att_acquire_free.
    + exact HP.
    + unfold CAll. ssimpl. apply callc_upd; [exact HC|].
      apply (k3_snap G pkts _ (s_att s c) (s_cs s c)); [now left|apply HC].
Qed.

(* fields that the consumer-side steps leave alone *)
Definition same_ctl (s s' : state) : Prop :=
  s_ok s' = s_ok s /\ s_lock s' = s_lock s /\ s_lockq s' = s_lockq s /\ s_sent s' = s_sent s /\
  s_todo s' = s_todo s /\ s_pp s' = s_pp s /\ s_att s' = s_att s.

Lemma inv_same_ctl s s' : Inv s -> same_ctl s s' -> CAll s' -> Inv s'.
Proof.
  intros [HL HP _] (E1 & E2 & E3 & E4 & E5 & E6 & E7) HC. constructor; [| |exact HC].
  - unfold LInv in *. now rewrite E2, E3, E5, E6, E7.
  - unfold Prefix in *. now rewrite E1, E4, E5, E6.
Qed.

Lemma step_cons_spec (s : state) c s' :
  step_cons fixed cache_t panic_at s c = Some s' ->
  exists k', cons_next (panic_at c) (s_cs s c) (length (s_sent s)) = Some k' /\
             s_cs s' = upd (s_cs s) c k' /\ same_ctl s s' /\
             s_cache s' = s_cache s /\ s_cached s' = s_cached s /\ s_kp s' = s_kp s /\
             (forall x, s_stp s' x = s_stp s x).
Proof.
  unfold step_cons, cons_next, same_ctl. cbn [v_atomic fixed].
  assert (Hstp : forall x, upd (s_stp s) c (s_stp s c) x = s_stp s x).
  { intros x. destruct (upd_eq_cases (s_stp s) c (s_stp s c) x) as [[-> ->]|[_ ->]]; reflexivity. }
  destruct (c_pc (s_cs s c)) as [| |[p|]| | |]; try discriminate.
  - destruct (c_q (s_cs s c)) as [|x q']; intros E; injection E as <-;
      (eexists; split; [reflexivity|]; ssimpl; repeat split; reflexivity).
  - destruct (Nat.eqb (S (length (c_out (s_cs s c)))) (panic_at c)); intros E; injection E as <-;
      (eexists; split; [reflexivity|]; ssimpl; repeat split; reflexivity).
  - intros E; injection E as <-. eexists; split; [reflexivity|]; ssimpl; repeat split; reflexivity.
  - intros E; injection E as <-. eexists; split; [reflexivity|]; ssimpl; repeat split; auto.
Qed.

Lemma inv_init stoppers : Inv (initF pkts stoppers).
Proof.
  constructor.
  - apply linv_init.
  - left. reflexivity.
  - intros c. apply k3_init.
Qed.

Lemma inv_step s t s' : Inv s -> stepF s t = Some s' -> Inv s'.
Proof.
  intros HI Hstep. pose proof HI as [HL HP HC]. destruct t as [| |c|c|c]; simpl in Hstep.
  - (* TPub *)
    unfold step_pub in Hstep.
    destruct (s_pp s) eqn:Epp; destruct (s_todo s) as [|p rest] eqn:Et; try discriminate.
    + (* P0 *)
      destruct (s_ok s) eqn:Eok; injection Hstep as <-.
      * constructor.
        -- unfold LInv in *. ssimpl. rewrite Epp, Et in HL.
           apply (linv_pp_plain _ _ _ _ _ P1 (p :: rest) HL); discriminate.
        -- unfold Prefix in *. ssimpl. rewrite Et in HP.
           destruct HP as [HP|(E & _)]; [now left|congruence].
        -- exact HC.
      * constructor.
        -- unfold LInv in *. ssimpl. rewrite Epp, Et in HL.
           apply (linv_pp_plain _ _ _ _ _ P0 rest HL); discriminate.
        -- unfold Prefix in *. ssimpl. right. split; [reflexivity|]. split; [reflexivity|].
           rewrite Et in HP. destruct HP as [HP|(_ & _ & l & HP)]; eauto.
        -- exact HC.
    + (* P1 *)
      injection Hstep as <-. eapply acquire_inv_pub; eassumption.
    + (* P2 *)
      injection Hstep as <-.
      assert (Epk : pkts = (s_sent s ++ [p]) ++ rest).
      { unfold Prefix in HP. rewrite Et in HP. destruct HP as [HP|(_ & E & _)]; [|congruence].
        rewrite <- app_assoc. exact HP. }
      assert (El : s_lock s = Some HPub) by (apply (l_pub _ _ _ _ _ HL); exact Epp).
      unfold LInv in HL. rewrite El, Epp, Et in HL.
      pose proof (linv_pub_release _ _ _ rest HL) as HR.
      apply release_inv.
      * unfold CAll. ssimpl. apply callc_send_all; [exact HC|apply (l_rng _ _ _ _ _ HL)|].
        intros Hg. eapply gap_ok_prefix; eassumption.
      * unfold RelPre. ssimpl. destruct (s_lockq s) as [|[|c] r]; [exact HR|contradiction|].
        destruct HR as [Ea HR]. split; [now right|exact HR].
      * left. ssimpl. exact Epk.
  - (* TClose *)
    unfold step_close in Hstep. destruct (s_kp s) eqn:Ek; try discriminate.
    + injection Hstep as <-. constructor.
      * exact HL.
      * unfold Prefix in *. ssimpl. destruct HP as [HP|(E1 & E2 & HP)]; [now left|right; auto].
      * exact HC.
    + destruct (sweep fixed ncons (s_cs s) (length (s_sent s))) as [f d] eqn:Es.
      cbn [v_atomic fixed] in Hstep. injection Hstep as <-.
      apply (inv_same_ctl s); [exact HI|unfold same_ctl; ssimpl; repeat split; reflexivity|].
      unfold CAll. ssimpl. replace f with (fst (sweep fixed ncons (s_cs s) (length (s_sent s)))) by now rewrite Es.
      apply callc_sweep. exact HC.
    + injection Hstep as <-.
      apply (inv_same_ctl s); [exact HI|unfold same_ctl; ssimpl; repeat split; reflexivity|exact HC].
  - (* TAtt c *)
    destruct (Nat.ltb_spec c ncons) as [Hc|Hc]; [|discriminate].
    unfold step_att in Hstep. destruct (s_att s c) eqn:Ea; try discriminate.
    + (* A0 *) injection Hstep as <-. now apply acquire_inv_att.
    + (* A1 *)
      injection Hstep as <-.
      assert (El : s_lock s = Some (HAtt c)) by (apply (l_att _ _ _ _ _ HL); exact Ea).
      unfold LInv in HL. rewrite El in HL.
      pose proof (linv_att_release _ _ _ _ _ HL) as HR.
      apply release_inv.
      * unfold CAll. ssimpl. apply callc_upd; [exact HC|].
        apply k3_register. rewrite <- Ea. apply HC.
      * unfold RelPre. ssimpl. destruct (s_lockq s) as [|[|c'] r]; [exact HR|exact HR|].
        destruct HR as [Ea' HR]. split; [|exact HR].
        right. rewrite upd_other; [exact Ea'|]. intros <-. congruence.
      * exact HP.
    + (* A2 *)
      assert (HK : K3 G pkts (s_sent s) ADone
                      (loop_test fixed
                         (if negb (s_ok s) && c_reg (s_cs s c)
                          then close_cons fixed (set_reg (s_cs s c) false (length (s_sent s)))
                          else s_cs s c) (length (s_sent s))) (panic_at c)).
      { apply k3_start. rewrite <- Ea. apply HC. }
      cbn [v_recheck fixed] in Hstep.
      destruct (s_ok s) eqn:Eok, (c_reg (s_cs s c)) eqn:Er; simpl in Hstep, HK;
        injection Hstep as <-;
        (constructor;
         [ unfold LInv; ssimpl; now apply linv_att_done
         | exact HP
         | unfold CAll; ssimpl; apply callc_upd; [exact HC|exact HK] ]).
  - (* TStop c *)
    destruct (Nat.ltb_spec c ncons) as [Hc|Hc]; [|discriminate].
    destruct (s_att s c) eqn:Ea; try discriminate.
    unfold step_stop in Hstep. cbn [v_atomic fixed] in Hstep.
    destruct (s_stp s c) eqn:Es; try discriminate.
    + destruct (c_reg (s_cs s c)) eqn:Er; injection Hstep as <-.
      * apply (inv_same_ctl s); [exact HI|unfold same_ctl; ssimpl; repeat split; reflexivity|].
        unfold CAll. ssimpl. apply callc_upd_cs; [exact HC|]. apply k3_unreg; [exact Er|apply HC].
      * apply (inv_same_ctl s); [exact HI|unfold same_ctl; ssimpl; repeat split; reflexivity|exact HC].
    + injection Hstep as <-.
      apply (inv_same_ctl s); [exact HI|unfold same_ctl; ssimpl; repeat split; reflexivity|].
      unfold CAll. ssimpl. apply callc_upd_cs; [exact HC|]. apply k3_close. apply HC.
  - (* TCons c *)
    destruct (Nat.ltb_spec c ncons) as [Hc|Hc]; [|discriminate].
    destruct (step_cons_spec _ _ _ Hstep) as (k' & En & Ecs & Hctl & _).
    apply (inv_same_ctl s); [exact HI|exact Hctl|].
    unfold CAll. destruct Hctl as (_ & _ & _ & E4 & _ & _ & E7). rewrite Ecs, E4, E7.
    apply callc_upd_cs; [exact HC|]. eapply k3_cons_next; [apply HC|exact En].
Qed.

Lemma inv_run sched : forall s, Inv s -> Inv (runF sched s).
Proof.
  induction sched as [|t sched IH]; intros s HI; simpl; [exact HI|].
  apply IH. destruct (stepF s t) as [s'|] eqn:E; [eapply inv_step; eassumption|exact HI].
Qed.

Lemma inv_reachable sched stoppers : Inv (runF sched (initF pkts stoppers)).
Proof. apply inv_run, inv_init. Qed.

End Global.
(* ------------------------------------------------------------------ *)
(** * 7. The C04 theorems *)

(** ** 7.1 backlog bound *)

(* sharp form: the +1 is the nil element that Close pushes, available only while not closed;
   a join replay longer than the limit is not increased by the limit *)
Theorem backlog_bound_tight G pkts stoppers sched c :
  gap_ok G pkts = true ->
  let k := s_cs (runF sched (initF pkts stoppers)) c in
  length (c_q k) + (if c_closed k then 0 else 1)
    <= Nat.max (S maxq) (length (c_prefill k)) + G.
Proof.
  intros Hg k. destruct (inv_reachable G pkts sched stoppers) as [_ _ HC].
  destruct (HC c) as (_ & _ & HB). destruct (HB Hg) as [H _]. exact H.
Qed.

Theorem backlog_bound G pkts stoppers sched c :
  gap_ok G pkts = true ->
  let k := s_cs (runF sched (initF pkts stoppers)) c in
  length (c_q k) <= Nat.max maxq (length (c_prefill k)) + G + 1.
Proof.
  intros Hg k. pose proof (backlog_bound_tight G pkts stoppers sched c Hg) as H.
  cbv zeta in H. fold k in H. destruct (c_closed k); lia.
Qed.

(* while registered and not discarding the queue is within the limit plus the packets since
   the last key-frame start *)
Theorem backlog_bound_since G pkts stoppers sched c :
  gap_ok G pkts = true ->
  let s := runF sched (initF pkts stoppers) in
  let k := s_cs s c in
  c_reg k = true -> c_disc k = false ->
  length (c_q k) + (if c_closed k then 0 else 1)
    <= Nat.max (S maxq) (length (c_prefill k)) + since (s_sent s) + 1.
Proof.
  intros Hg s k. destruct (inv_reachable G pkts sched stoppers) as [_ _ HC].
  destruct (HC c) as (_ & _ & HB). destruct (HB Hg) as [_ H]. exact H.
Qed.

(** ** 7.2 drops are aligned to key-frame starts *)

Theorem drops_gop_aligned pkts stoppers sched c :
  let s := runF sched (initF pkts stoppers) in
  let k := s_cs s c in
  let w := window (s_sent s) (c_regat k) (c_unregat k) in
  length (c_keep k) = length w /\
  c_pushed k = c_prefill k ++ select (c_keep k) w /\
  (forall i d, S i < length (c_keep k) ->
     nth i (c_keep k) true = false -> nth (S i) (c_keep k) true = true ->
     p_key (nth (S i) w d) = true) /\
  (forall i d, S i < length (c_keep k) ->
     nth i (c_keep k) true = true -> nth (S i) (c_keep k) true = false ->
     p_key (nth (S i) w d) = true) /\
  (forall d, 0 < length (c_keep k) -> nth 0 (c_keep k) true = false -> p_key (nth 0 w d) = true).
Proof.
  intros s k w. destruct (inv_reachable 0 pkts sched stoppers) as [_ _ HC].
  destruct (HC c) as (H0 & _). fold s k in H0.
  pose proof (ci_align _ _ _ H0) as Ha. fold w in Ha.
  split; [eapply aligned_length; exact Ha|]. split; [exact (ci_pushed _ _ _ H0)|].
  split; [|split].
  - intros i d Hi E1 E2. destruct (aligned_nth _ _ _ d Ha) as [H _]. apply H; [exact Hi|congruence].
  - intros i d Hi E1 E2. destruct (aligned_nth _ _ _ d Ha) as [H _]. apply H; [exact Hi|congruence].
  - intros d Hl E. destruct (aligned_nth _ _ _ d Ha) as [_ H]. apply H; [exact Hl|congruence].
Qed.

Lemma first_true_after (f : nat -> bool) : forall n i j,
  j - i = n -> i < j -> f i = false -> f j = true ->
  exists m, i < m /\ m <= j /\ f m = true /\ (forall x, i <= x -> x < m -> f x = false).
Proof.
  induction n as [|n IH]; intros i j Hn Hij Ei Ej; [lia|].
  destruct (f (S i)) eqn:E.
  - exists (S i). split; [lia|]. split; [lia|]. split; [exact E|].
    intros x H1 H2. assert (x = i) by lia. now subst x.
  - assert (S i <> j) by (intros <-; congruence).
    destruct (IH (S i) j) as (m & M1 & M2 & M3 & M4); [lia|lia|exact E|exact Ej|].
    exists m. split; [lia|]. split; [exact M2|]. split; [exact M3|].
    intros x H1 H2. destruct (Nat.eq_dec x i) as [->|Hne]; [exact Ei|]. apply M4; lia.
Qed.

(* hence: the first packet queued after a dropped one starts a key frame *)
Corollary first_kept_after_drop_is_key pkts stoppers sched c :
  let s := runF sched (initF pkts stoppers) in
  let k := s_cs s c in
  let w := window (s_sent s) (c_regat k) (c_unregat k) in
  forall i j d, i < j -> j < length (c_keep k) ->
    nth i (c_keep k) true = false -> nth j (c_keep k) true = true ->
    exists m, i < m /\ m <= j /\ nth m (c_keep k) true = true /\
              (forall x, i <= x -> x < m -> nth x (c_keep k) true = false) /\
              p_key (nth m w d) = true.
Proof.
  intros s k w i j d Hij Hj Ei Ej.
  destruct (drops_gop_aligned pkts stoppers sched c) as (_ & _ & H1 & _). fold s k w in H1.
  destruct (first_true_after (fun x => nth x (c_keep k) true) (j - i) i j eq_refl Hij Ei Ej)
    as (m & M1 & M2 & M3 & M4).
  exists m. split; [exact M1|]. split; [exact M2|]. split; [exact M3|]. split; [exact M4|].
  destruct m as [|m]; [lia|]. apply H1; [lia|apply M4; lia|exact M3].
Qed.

(** ** 7.3 the publisher never waits on a consumer *)

Notation step_pubF := (step_pub fixed maxq cache_t cache_add cache_snap ncons).
Notation step_attF := (step_att fixed cache_t cache_add cache_snap).
Notation step_stopF := (step_stop fixed cache_t).
Notation step_consF := (step_cons fixed cache_t panic_at).

(* in any state whatsoever: the publisher's next step is enabled unless it has nothing to write
   or is queued behind the join mutex; no consumer field is consulted *)
Lemma publisher_enabled (s : state) :
  step_pubF s = None -> s_todo s = [] \/ s_pp s = P1W.
Proof.
  unfold step_pub. destruct (s_pp s), (s_todo s); try discriminate; auto.
  destruct (s_ok s); discriminate.
Qed.

Lemma waiting_publisher_holder (s : state) :
  LInv s -> s_pp s = P1W ->
  exists c, c < ncons /\ s_lock s = Some (HAtt c) /\ s_att s c = A1 /\
            step_attF s c <> None /\ stepF s (TAtt c) <> None.
Proof.
  intros HL Epp. unfold LInv in HL. pose proof HL as HL0. linv_break HL.
  assert (Hin : In HPub (s_lockq s)) by now apply Lqpub.
  destruct (s_lock s) as [[|c]|] eqn:El.
  - assert (E : s_pp s = P2) by now apply Lpub. congruence.
  - assert (Ea : s_att s c = A1) by now apply Latt.
    assert (Hc : c < ncons).
    { destruct (Nat.lt_ge_cases c ncons) as [?|Hge]; [assumption|]. rewrite (Lrng c Hge) in Ea. discriminate. }
    exists c. split; [exact Hc|]. split; [reflexivity|]. split; [exact Ea|].
    assert (Hs : step_attF s c <> None) by (unfold step_att; rewrite Ea; discriminate).
    split; [exact Hs|]. simpl. destruct (Nat.ltb_spec c ncons); [exact Hs|lia].
  - rewrite (Lfree eq_refl) in Hin. destruct Hin.
Qed.

Theorem publisher_never_waits_on_consumer pkts stoppers sched :
  let s := runF sched (initF pkts stoppers) in
  (step_pubF s = None -> s_todo s = [] \/ s_pp s = P1W) /\
  (s_pp s = P1W ->
   exists c, c < ncons /\ s_lock s = Some (HAtt c) /\ s_att s c = A1 /\
             step_attF s c <> None /\ stepF s (TAtt c) <> None).
Proof.
  intros s. split; [apply publisher_enabled|].
  apply waiting_publisher_holder. apply (inv_l 0 pkts). apply inv_reachable.
Qed.

(* the holder's single step inside the section hands the mutex to the first waiter: the queue
   is served in FIFO order, so a queued publisher is preceded by at most the attachers that
   queued before it, each of which needs exactly one (always enabled) step *)
Lemma holder_step_serves_queue (s : state) c s' :
  LInv s -> s_lock s = Some (HAtt c) -> stepF s (TAtt c) = Some s' ->
  match s_lockq s with
  | [] => s_lock s' = None /\ s_lockq s' = []
  | HPub :: r => s_lock s' = Some HPub /\ s_lockq s' = r /\ s_pp s' = P2
  | HAtt c' :: r => s_lock s' = Some (HAtt c') /\ s_lockq s' = r /\ s_pp s' = s_pp s
  end.
Proof.
  intros HL El Hstep. unfold LInv in HL. pose proof HL as HL0. linv_break HL.
  assert (Ea : s_att s c = A1) by now apply Latt.
  simpl in Hstep. destruct (c <? ncons); [|discriminate].
  unfold step_att in Hstep. rewrite Ea in Hstep. injection Hstep as <-.
  unfold release. cbn [v_lock fixed]. ssimpl.
  destruct (s_lockq s) as [|[|c'] r] eqn:Eq.
  - ssimpl. auto.
  - assert (Epp : s_pp s = P1W) by (apply Lqpub; now left).
    unfold after_acquire. ssimpl. destruct (s_todo s) eqn:Et; [elim (Ltodo Epp); reflexivity|].
    ssimpl. auto.
  - unfold after_acquire. ssimpl. auto.
Qed.

Theorem join_mutex_fifo pkts stoppers sched c s' :
  let s := runF sched (initF pkts stoppers) in
  s_lock s = Some (HAtt c) -> stepF s (TAtt c) = Some s' ->
  match s_lockq s with
  | [] => s_lock s' = None /\ s_lockq s' = []
  | HPub :: r => s_lock s' = Some HPub /\ s_lockq s' = r /\ s_pp s' = P2
  | HAtt c' :: r => s_lock s' = Some (HAtt c') /\ s_lockq s' = r /\ s_pp s' = s_pp s
  end.
Proof.
  intros s. apply holder_step_serves_queue. apply (inv_l 0 pkts). apply inv_reachable.
Qed.

(** ** 7.4 a stalled consumer does not affect the others *)

(* steps of the goroutines that belong to another consumer leave this consumer alone *)
Lemma cons_step_frame (s : state) c' s' c :
  c' <> c -> stepF s (TCons c') = Some s' -> s_cs s' c = s_cs s c.
Proof.
  intros Hne Hstep. simpl in Hstep. destruct (c' <? ncons); [|discriminate].
  destruct (step_cons_spec _ _ _ Hstep) as (k' & _ & Ecs & _). rewrite Ecs. now apply upd_other.
Qed.

Lemma stop_step_frame (s : state) c' s' c :
  c' <> c -> stepF s (TStop c') = Some s' -> s_cs s' c = s_cs s c.
Proof.
  intros Hne Hstep. simpl in Hstep. destruct (c' <? ncons); [|discriminate].
  destruct (s_att s c'); try discriminate.
  unfold step_stop in Hstep. cbn [v_atomic fixed] in Hstep.
  destruct (s_stp s c'); try discriminate.
  - destruct (c_reg (s_cs s c')); injection Hstep as <-; ssimpl; [now apply upd_other|reflexivity].
  - injection Hstep as <-. ssimpl. now apply upd_other.
Qed.

(* the attacher of another consumer: in the model the goroutine that releases the join mutex
   also performs the first waiter's entry into the section (its cache snapshot), so the
   statement needs "c is not the first waiter" *)
Lemma att_step_frame_raw (s : state) c' s' c :
  c' <> c -> hd_error (s_lockq s) <> Some (HAtt c) ->
  stepF s (TAtt c') = Some s' -> s_cs s' c = s_cs s c.
Proof.
  intros Hne Hhd Hstep. simpl in Hstep. destruct (c' <? ncons); [|discriminate].
  unfold step_att in Hstep. destruct (s_att s c') eqn:Ea; try discriminate.
  - injection Hstep as <-. unfold acquire. cbn [v_lock fixed].
    destruct (s_lock s); [reflexivity|]. unfold after_acquire. ssimpl. now apply upd_other.
  - injection Hstep as <-. unfold release. cbn [v_lock fixed]. ssimpl.
    destruct (s_lockq s) as [|[|c''] r].
    + ssimpl. now apply upd_other.
    + unfold after_acquire. ssimpl. destruct (s_todo s); ssimpl; now apply upd_other.
    + unfold after_acquire. ssimpl. rewrite upd_other; [now apply upd_other|].
      intros ->. apply Hhd. reflexivity.
  - cbn [v_recheck fixed] in Hstep.
    match type of Hstep with context [if ?b then _ else _] => destruct b end;
      injection Hstep as <-; ssimpl; now apply upd_other.
Qed.

Lemma att_step_frame (s : state) c' s' c :
  LInv s -> s_att s c <> A0W -> c' <> c ->
  stepF s (TAtt c') = Some s' -> s_cs s' c = s_cs s c.
Proof.
  intros HL Ha Hne. apply att_step_frame_raw; [exact Hne|].
  intros E. apply Ha. apply (l_qatt _ _ _ _ _ HL).
  destruct (s_lockq s) as [|h r]; [discriminate|]. injection E as ->. now left.
Qed.

Theorem stalled_consumer_does_not_affect_others pkts stoppers sched c c' :
  c' <> c ->
  let s := runF sched (initF pkts stoppers) in
  (forall s', stepF s (TCons c') = Some s' -> s_cs s' c = s_cs s c) /\
  (forall s', stepF s (TStop c') = Some s' -> s_cs s' c = s_cs s c) /\
  (forall s', s_att s c <> A0W -> stepF s (TAtt c') = Some s' -> s_cs s' c = s_cs s c) /\
  (forall p, send_all maxq ncons (s_cs s) p c =
             if (c <? ncons) && c_reg (s_cs s c) then send maxq (s_cs s c) p else s_cs s c) /\
  (forall sent, fst (sweep fixed ncons (s_cs s) sent) c =
             if (c <? ncons) && c_reg (s_cs s c)
             then close_cons fixed (set_reg (s_cs s c) false sent) else s_cs s c).
Proof.
  intros Hne s. split; [|split; [|split; [|split]]].
  - intros s'. now apply cons_step_frame.
  - intros s'. now apply stop_step_frame.
  - intros s' Ha. apply att_step_frame; [|exact Ha|exact Hne].
    apply (inv_l 0 pkts). apply inv_reachable.
  - intros p. apply send_all_at.
  - intros sent. apply sweep_at.
Qed.

(** ** 7.5 a panicking consumer is detached and closed *)

Definition quiescent (s : state) : Prop := forall t, stepF s t = None.

Theorem panic_detaches pkts stoppers sched c :
  0 < panic_at c ->
  let s := runF sched (initF pkts stoppers) in
  let k := s_cs s c in
  length (c_out k) <= panic_at c /\
  (c_closes k = 1 <-> c_pc k = CDone) /\ c_closes k <= 1 /\
  (panic_at c <= length (c_out k) ->
     (c_pc k = CExitLoaded \/ c_pc k = CDone) /\ c_reg k = false /\
     (c_pc k = CExitLoaded ->
        exists s', stepF s (TCons c) = Some s' /\
                   c_pc (s_cs s' c) = CDone /\ c_closes (s_cs s' c) = 1) /\
     (quiescent s -> c_pc k = CDone /\ c_closes k = 1)).
Proof.
  intros Hn s k. pose proof (inv_reachable 0 pkts sched stoppers) as HI. fold s in HI.
  destruct HI as [HL _ HC]. destruct (HC c) as (H0 & HP & _). fold k in H0, HP.
  destruct (ci_closes _ _ _ H0) as [Hc1 Hc2].
  assert (Hle : length (c_out k) <= panic_at c).
  { destruct (HP Hn) as [?|(E & _)]; lia. }
  split; [exact Hle|]. split; [|split].
  - split; [|exact Hc1]. intros E. destruct (c_pc k) eqn:Epc; try reflexivity;
      (rewrite Hc2 in E; [discriminate|discriminate]).
  - destruct (c_pc k) eqn:Epc; try (rewrite Hc2; [lia|discriminate]). rewrite Hc1; auto.
  - intros Hge. destruct (HP Hn) as [Hlt|(_ & Hp & Hr)]; [lia|].
    split; [exact Hp|]. split; [exact Hr|].
    assert (Hc : c < ncons).
    { destruct (Nat.lt_ge_cases c ncons) as [?|Hge']; [assumption|exfalso].
      assert (Ea : s_att s c = ADone).
      { apply (ci_pc _ _ _ H0). fold k. destruct Hp as [Hp|Hp]; rewrite Hp; discriminate. }
      rewrite (l_rng _ _ _ _ _ HL c Hge') in Ea. discriminate. }
    assert (Hexit : c_pc k = CExitLoaded ->
        exists s', stepF s (TCons c) = Some s' /\
                   c_pc (s_cs s' c) = CDone /\ c_closes (s_cs s' c) = 1).
    { intros Epc. simpl. destruct (Nat.ltb_spec c ncons); [|lia].
      destruct (step_consF s c) as [s'|] eqn:Es.
      - exists s'. split; [reflexivity|].
        destruct (step_cons_spec _ _ _ Es) as (k' & En & Ecs & _).
        unfold cons_next in En. fold k in En. rewrite Epc in En. injection En as <-.
        rewrite Ecs, upd_same. csimpl. split; [reflexivity|].
        destruct (close_view k) as (q' & pc' & E & _ & Hst). rewrite E. csimpl.
        rewrite Hc2; [reflexivity|congruence].
      - exfalso. unfold step_cons in Es. fold k in Es. rewrite Epc in Es. discriminate. }
    split; [exact Hexit|].
    intros Hq. destruct Hp as [Hp|Hp].
    + destruct (Hexit Hp) as (s' & Es & _). rewrite (Hq (TCons c)) in Es. discriminate.
    + split; [exact Hp|auto].
Qed.

(* ------------------------------------------------------------------ *)
(** * 8. Non-interference: a consumer that is never scheduled is invisible *)

(* equal in everything except consumer c' itself, its stopper's position and the shared counter
   (which no step reads) *)
Definition same_but (c' : nat) (s1 s2 : state) : Prop :=
  s_ok s1 = s_ok s2 /\ s_lock s1 = s_lock s2 /\ s_lockq s1 = s_lockq s2 /\
  s_cache s1 = s_cache s2 /\ s_sent s1 = s_sent s2 /\ s_cached s1 = s_cached s2 /\
  s_todo s1 = s_todo s2 /\ s_pp s1 = s_pp s2 /\
  (forall x, x <> c' -> s_cs s1 x = s_cs s2 x) /\ (forall x, s_att s1 x = s_att s2 x) /\
  (forall x, x <> c' -> s_stp s1 x = s_stp s2 x) /\ s_kp s1 = s_kp s2.

Ltac sb_break H := destruct H as (Eok & Elock & Elockq & Ecache & Esent & Ecached & Etodo & Epp & Ecs & Eatt & Estp & Ekp).

Lemma same_but_refl c' s : same_but c' s s.
Proof. unfold same_but. repeat split; auto. Qed.

Lemma same_but_sym c' s1 s2 : same_but c' s1 s2 -> same_but c' s2 s1.
Proof.
  intros H. sb_break H. unfold same_but. repeat split; auto; intros; symmetry; auto.
Qed.

Lemma same_but_trans c' s1 s2 s3 : same_but c' s1 s2 -> same_but c' s2 s3 -> same_but c' s1 s3.
Proof.
  intros H H'. sb_break H. destruct H' as (A1' & A2' & A3' & A4' & A5' & A6' & A7' & A8' & A9' & A10' & A11' & A12').
  unfold same_but. repeat split; try congruence; intros;
    first [ rewrite Ecs by assumption; now auto
          | rewrite Estp by assumption; now auto
          | rewrite Eatt; now auto ].
Qed.

Lemma upd_ext_but {A} c' (f1 f2 : nat -> A) c v1 v2 :
  (forall x, x <> c' -> f1 x = f2 x) -> (c <> c' -> v1 = v2) ->
  forall x, x <> c' -> upd f1 c v1 x = upd f2 c v2 x.
Proof.
  intros Hf Hv x Hx. destruct (Nat.eq_dec c x) as [->|Hne].
  - rewrite !upd_same. auto.
  - rewrite !upd_other by assumption. auto.
Qed.

Lemma upd_ext {A} (f1 f2 : nat -> A) c v :
  (forall x, f1 x = f2 x) -> forall x, upd f1 c v x = upd f2 c v x.
Proof.
  intros Hf x. destruct (Nat.eq_dec c x) as [->|Hne].
  - now rewrite !upd_same.
  - rewrite !upd_other by assumption. auto.
Qed.

Notation after_acquireF := (after_acquire cache_t cache_add cache_snap).
Notation acquireF := (acquire fixed cache_t cache_add cache_snap).
Notation releaseF := (release fixed cache_t cache_add cache_snap).

Lemma after_acquire_same_but c' m1 m2 h r :
  same_but c' m1 m2 -> same_but c' (after_acquireF m1 h r) (after_acquireF m2 h r).
Proof.
  intros H. pose proof H as H0. sb_break H. unfold after_acquire. destruct h as [|c].
  - rewrite Etodo. destruct (s_todo m2) eqn:Et2; [exact H0|].
    unfold same_but. ssimpl. repeat split; auto; try congruence.
  - unfold same_but. ssimpl. repeat split; auto; try congruence.
    + apply upd_ext_but; [exact Ecs|]. intros Hc. rewrite (Ecs c Hc), Ecache. reflexivity.
    + apply upd_ext. exact Eatt.
Qed.

Lemma acquire_same_but c' m1 m2 h :
  same_but c' m1 m2 -> same_but c' (acquireF m1 h) (acquireF m2 h).
Proof.
  intros H. pose proof H as H0. sb_break H. unfold acquire. cbn [v_lock fixed].
  rewrite Elock, Elockq. destruct (s_lock m2) eqn:El2.
  - destruct h as [|c]; unfold same_but; ssimpl; repeat split; auto; try congruence.
    apply upd_ext. exact Eatt.
  - now apply after_acquire_same_but.
Qed.

Lemma release_same_but c' m1 m2 :
  same_but c' m1 m2 -> same_but c' (releaseF m1) (releaseF m2).
Proof.
  intros H. pose proof H as H0. sb_break H. unfold release. cbn [v_lock fixed].
  rewrite Elockq. destruct (s_lockq m2) as [|h r] eqn:Eq2.
  - unfold same_but; ssimpl; repeat split; auto.
  - now apply after_acquire_same_but.
Qed.

Lemma send_all_ext_but c' f1 f2 p :
  (forall x, x <> c' -> f1 x = f2 x) ->
  forall x, x <> c' -> send_all maxq ncons f1 p x = send_all maxq ncons f2 p x.
Proof. intros H x Hx. rewrite !send_all_at. now rewrite (H x Hx). Qed.

Lemma sweep_ext_but c' f1 f2 sent :
  (forall x, x <> c' -> f1 x = f2 x) ->
  forall x, x <> c' -> fst (sweep fixed ncons f1 sent) x = fst (sweep fixed ncons f2 sent) x.
Proof. intros H x Hx. rewrite !sweep_at. now rewrite (H x Hx). Qed.

Lemma step_cons_none (s : state) c :
  step_consF s c = None <-> cons_next (panic_at c) (s_cs s c) (length (s_sent s)) = None.
Proof.
  unfold step_cons, cons_next.
  destruct (c_pc (s_cs s c)) as [| |[p|]| | |]; try tauto; try (split; discriminate).
  - destruct (c_q (s_cs s c)); split; discriminate.
  - destruct (Nat.eqb (S (length (c_out (s_cs s c)))) (panic_at c)); split; discriminate.
Qed.

(* the steps of c' 's own goroutine and of its stopper touch nothing else *)
Lemma own_step_same_but c' t (s s' : state) :
  t = TCons c' \/ t = TStop c' -> stepF s t = Some s' -> same_but c' s s'.
Proof.
  intros [->| ->] Hstep; simpl in Hstep; destruct (c' <? ncons); try discriminate.
  - destruct (step_cons_spec _ _ _ Hstep) as (k' & _ & Ecs & Hctl & E1 & E2 & E3 & E4).
    destruct Hctl as (C1 & C2 & C3 & C4 & C5 & C6 & C7).
    unfold same_but. repeat split; try congruence; intros x; intros;
      first [ rewrite Ecs; rewrite upd_other by congruence; reflexivity
            | now rewrite C7 | now rewrite E4 ].
  - destruct (s_att s c'); try discriminate.
    unfold step_stop in Hstep. cbn [v_atomic fixed] in Hstep.
    destruct (s_stp s c'); try discriminate.
    + destruct (c_reg (s_cs s c')); injection Hstep as <-; unfold same_but; ssimpl;
        repeat split; auto; intros x Hx; rewrite upd_other by congruence; reflexivity.
    + injection Hstep as <-; unfold same_but; ssimpl;
        repeat split; auto; intros x Hx; rewrite upd_other by congruence; reflexivity.
Qed.

Definition opt_same_but (c' : nat) (o1 o2 : option state) : Prop :=
  match o1, o2 with
  | Some a, Some b => same_but c' a b
  | None, None => True
  | _, _ => False
  end.

(* every other step is enabled in both states or in neither, and leads to related states *)
Lemma step_same_but c' t (s1 s2 : state) :
  same_but c' s1 s2 -> t <> TCons c' -> t <> TStop c' ->
  opt_same_but c' (stepF s1 t) (stepF s2 t).
Proof.
  intros H Ht1 Ht2. pose proof H as H0. sb_break H. destruct t as [| |c|c|c]; simpl.
  - (* TPub *)
    unfold step_pub. rewrite Epp, Etodo, Eok.
    destruct (s_pp s2) eqn:Epp2; destruct (s_todo s2) as [|p rest] eqn:Et2; simpl; auto.
    + destruct (s_ok s2) eqn:Eok2; simpl; unfold same_but; ssimpl; repeat split; auto; try congruence.
    + now apply acquire_same_but.
    + apply release_same_but. unfold same_but; ssimpl; repeat split; auto; try congruence.
      now apply send_all_ext_but.
  - (* TClose *)
    unfold step_close. rewrite Ekp. destruct (s_kp s2) eqn:Ekp2; simpl; auto.
    + rewrite Eok. unfold same_but; ssimpl; repeat split; auto.
    + rewrite Esent.
      pose proof (sweep_ext_but c' (s_cs s1) (s_cs s2) (length (s_sent s2)) Ecs) as Hsw.
      destruct (sweep fixed ncons (s_cs s1) (length (s_sent s2))) as [f1 d1].
      destruct (sweep fixed ncons (s_cs s2) (length (s_sent s2))) as [f2 d2].
      simpl in Hsw. simpl. unfold same_but; ssimpl; repeat split; auto.
    + unfold same_but; ssimpl; repeat split; auto.
  - (* TAtt c *)
    destruct (c <? ncons); simpl; auto.
    unfold step_att. rewrite (Eatt c). destruct (s_att s2 c) eqn:Ea; simpl; auto.
    + now apply acquire_same_but.
    + apply release_same_but. unfold same_but; ssimpl; repeat split; auto.
      * apply upd_ext_but; [exact Ecs|]. intros Hc. rewrite (Ecs c Hc), Esent. reflexivity.
      * apply upd_ext. exact Eatt.
    + cbn [v_recheck fixed]. rewrite Eok, Esent.
      destruct (Nat.eq_dec c c') as [->|Hc].
      * repeat match goal with |- context [if ?b then _ else _] => destruct b end; simpl;
          unfold same_but; ssimpl; repeat split; auto;
          try (apply upd_ext_but; [exact Ecs|congruence]); try (apply upd_ext; exact Eatt).
      * rewrite (Ecs c Hc).
        repeat match goal with |- context [if ?b then _ else _] => destruct b end; simpl;
          unfold same_but; ssimpl; repeat split; auto;
          try (apply upd_ext_but; [exact Ecs|reflexivity]); try (apply upd_ext; exact Eatt).
  - (* TStop c *)
    assert (Hc : c <> c') by congruence.
    destruct (c <? ncons); simpl; auto. rewrite (Eatt c). destruct (s_att s2 c); simpl; auto.
    unfold step_stop. cbn [v_atomic fixed]. rewrite (Estp c Hc), (Ecs c Hc), Esent.
    destruct (s_stp s2 c); simpl; auto.
    + destruct (c_reg (s_cs s2 c)); simpl; unfold same_but; ssimpl; repeat split; auto.
      * apply upd_ext_but; [exact Ecs|reflexivity].
      * apply upd_ext_but; [exact Estp|reflexivity].
      * apply upd_ext_but; [exact Estp|reflexivity].
    + unfold same_but; ssimpl; repeat split; auto.
      * apply upd_ext_but; [exact Ecs|reflexivity].
      * apply upd_ext_but; [exact Estp|reflexivity].
  - (* TCons c *)
    assert (Hc : c <> c') by congruence.
    destruct (c <? ncons); simpl; auto.
    assert (En : cons_next (panic_at c) (s_cs s1 c) (length (s_sent s1)) =
                 cons_next (panic_at c) (s_cs s2 c) (length (s_sent s2))).
    { now rewrite (Ecs c Hc), Esent. }
    destruct (step_consF s1 c) as [a|] eqn:E1; destruct (step_consF s2 c) as [b|] eqn:E2; simpl; auto.
    + destruct (step_cons_spec _ _ _ E1) as (k1 & N1 & C1 & (A1 & A2 & A3 & A4 & A5 & A6 & A7) & A8 & A9 & A10 & A11).
      destruct (step_cons_spec _ _ _ E2) as (k2 & N2 & C2 & (B1 & B2 & B3 & B4 & B5 & B6 & B7) & B8 & B9 & B10 & B11).
      assert (k1 = k2) by congruence. subst k2.
      unfold same_but. repeat split; try congruence;
        first [ rewrite C1, C2; apply upd_ext_but; [exact Ecs|reflexivity]
              | intros x; rewrite A7, B7; apply Eatt
              | intros x Hx; rewrite A11, B11; now apply Estp ].
    + apply step_cons_none in E2. rewrite <- En in E2.
      destruct (step_cons_spec _ _ _ E1) as (k1 & N1 & _). congruence.
    + apply step_cons_none in E1. rewrite En in E1.
      destruct (step_cons_spec _ _ _ E2) as (k2 & N2 & _). congruence.
Qed.

Definition is_cons_of (c' : nat) (t : tid) : bool :=
  match t with TCons x => Nat.eqb x c' | _ => false end.

Definition step_or_skip (s : state) (t : tid) : state :=
  match stepF s t with Some s' => s' | None => s end.

Lemma run_cons sched t (s : state) : runF (t :: sched) s = runF sched (step_or_skip s t).
Proof. reflexivity. Qed.

(* Run the same schedule twice, once as it is and once with every step of consumer c' 's
   goroutine removed (c' never reads: it is stalled from the start).  The two final states agree
   on the publisher, the closer, the join mutex, every other consumer (queue, delivered packets,
   discarding flag, Close calls ...), every attacher and every other stopper. *)
Theorem stalled_invisible c' sched : forall s1 s2,
  same_but c' s1 s2 ->
  same_but c' (runF sched s1) (runF (filter (fun t => negb (is_cons_of c' t)) sched) s2).
Proof.
  induction sched as [|t sched IH]; intros s1 s2 H; [exact H|].
  rewrite run_cons.
  assert (Hown : forall s, t = TCons c' \/ t = TStop c' -> same_but c' s (step_or_skip s t)).
  { intros s Ht. unfold step_or_skip. destruct (stepF s t) eqn:E.
    - eapply own_step_same_but; eassumption.
    - apply same_but_refl. }
  destruct t as [| |c|c|c]; simpl filter.
  1-3: (rewrite run_cons; apply IH; unfold step_or_skip;
        match goal with |- same_but _ (match stepF _ ?T with _ => _ end) _ =>
          pose proof (step_same_but c' T s1 s2 H) as Hs end;
        unfold opt_same_but in Hs;
        match type of Hs with _ -> _ -> match ?A with _ => _ end =>
          destruct A; match goal with |- context [match ?B with _ => _ end] => destruct B end end;
        try (apply Hs; discriminate); try (exfalso; apply Hs; discriminate); exact H).
  - (* TStop c *)
    rewrite run_cons. apply IH. destruct (Nat.eq_dec c c') as [->|Hc].
    + eapply same_but_trans; [apply same_but_sym, Hown; auto|].
      eapply same_but_trans; [exact H|apply Hown; auto].
    + unfold step_or_skip. pose proof (step_same_but c' (TStop c) s1 s2 H) as Hs.
      unfold opt_same_but in Hs.
      destruct (stepF s1 (TStop c)); destruct (stepF s2 (TStop c));
        try (apply Hs; congruence); try (exfalso; apply Hs; congruence); exact H.
  - (* TCons c *)
    unfold is_cons_of. destruct (Nat.eqb_spec c c') as [->|Hc]; cbn [negb].
    + apply IH. eapply same_but_trans; [apply same_but_sym, Hown; auto|exact H].
    + rewrite run_cons. apply IH.
      unfold step_or_skip. pose proof (step_same_but c' (TCons c) s1 s2 H) as Hs.
      unfold opt_same_but in Hs.
      destruct (stepF s1 (TCons c)); destruct (stepF s2 (TCons c));
        try (apply Hs; congruence); try (exfalso; apply Hs; congruence); exact H.
Qed.

Corollary stalled_consumer_invisible pkts stoppers sched c' :
  let s := runF sched (initF pkts stoppers) in
  let s0 := runF (filter (fun t => negb (is_cons_of c' t)) sched) (initF pkts stoppers) in
  (forall c, c <> c' -> s_cs s c = s_cs s0 c) /\
  s_sent s = s_sent s0 /\ s_todo s = s_todo s0 /\ s_pp s = s_pp s0 /\
  s_lock s = s_lock s0 /\ s_lockq s = s_lockq s0 /\ (forall c, s_att s c = s_att s0 c) /\
  s_ok s = s_ok s0 /\ s_kp s = s_kp s0.
Proof.
  intros s s0.
  pose proof (stalled_invisible c' sched _ _ (same_but_refl c' (initF pkts stoppers))) as H.
  fold s s0 in H. sb_break H. repeat split; auto.
Qed.

End Backlog.

(* ------------------------------------------------------------------ *)
(** * 9. Concrete runs (rcache instance, computable) *)

Definition mkp (i k : Z) : pkt := {| p_id := i; p_kind := k |}.

(* twelve packets, a key-frame start every third packet *)
Definition c04_pkts : list pkt :=
  [mkp 1 2; mkp 2 1; mkp 3 1; mkp 4 2; mkp 5 1; mkp 6 1;
   mkp 7 2; mkp 8 1; mkp 9 1; mkp 10 2; mkp 11 1; mkp 12 1]%Z.

Definition att_steps (c : nat) : list tid := [TAtt c; TAtt c; TAtt c].
(* the publisher writes one packet; consumer 1 takes it at once (pop, Consume) *)
Definition pub_and_read1 : list tid := [TPub; TPub; TPub; TCons 1; TCons 1].

(* consumer 0 is stalled while nine packets are published ... *)
Definition c04_sched_stalled : list tid :=
  att_steps 0 ++ att_steps 1 ++ concat (repeat pub_and_read1 9).
(* ... then reads four packets, and three more packets are published *)
Definition c04_sched : list tid :=
  c04_sched_stalled ++ repeat (TCons 0) 8 ++ concat (repeat pub_and_read1 3).

Definition c04_case (sched : list tid) : lcase :=
  {| l_var := fixed; l_n := 2; l_maxq := 3; l_gop := true; l_pkts := c04_pkts; l_stop := [];
     l_sched := sched; l_panic := [] |}.

(* consumer 0 panics in its second Consume call *)
Definition c04_panic_case : lcase :=
  {| l_var := fixed; l_n := 1; l_maxq := 3; l_gop := true;
     l_pkts := [mkp 1 2; mkp 2 1; mkp 3 1]%Z; l_stop := [];
     l_sched := att_steps 0 ++ [TPub; TPub; TPub; TCons 0; TCons 0; TPub; TPub; TPub;
                                TCons 0; TCons 0; TCons 0; TPub; TPub; TPub];
     l_panic := [2] |}.

(* Counterexample to the unguarded frame statement "a step of another consumer's attacher leaves
   this consumer unchanged": when attacher 0 leaves the join section it hands the mutex to the
   queued attacher 1, whose entry into the section (the cache snapshot) is part of the same
   atomic step of the model.  (The snapshot is attacher 1's own action; consumer 0 has no
   influence on its content.) *)
Definition c04_att_case : lcase :=
  {| l_var := fixed; l_n := 2; l_maxq := 3; l_gop := true; l_pkts := [mkp 1 3]%Z; l_stop := [];
     l_sched := [TPub; TPub; TPub; TAtt 0; TAtt 1]; l_panic := [] |}.

Example att_step_frame_unguarded_refuted :
  let s := lrun c04_att_case in
  exists s', step fixed 3 rcache (rc_empty true) rc_add rc_snap 2 (fun _ => 0) s (TAtt 0) = Some s' /\
             s_att s 1 = A0W /\ c_q (s_cs s 1) = [] /\ c_q (s_cs s' 1) = [Some (mkp 1 3)].
Proof. vm_compute. eexists. split; [reflexivity|]. repeat split. Qed.
