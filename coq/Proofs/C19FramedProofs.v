(* C19: the handler-side reader (header block + Content-Length body through a
   bufio.Reader over the Conn) yields the framing of the client's byte stream,
   whatever chunks the connection's reads returned. *)
From Coq Require Import ZArith List Bool Lia.
From V Require Import Bytes BytesLemmas C19PTree C19Sniffer C19Mux C19Framed C19PTreeProofs C19SnifferProofs C19MuxProofs.
Import ListNotations.
Open Scope Z_scope.

Lemma find_end_unfold s :
  find_end s = if is_prefix CRLFCRLF s then Some 4%nat
               else match s with [] => None | _ :: s' => option_map S (find_end s') end.
Proof. destruct s; reflexivity. Qed.

Lemma find_end_short s : (length s < 4)%nat -> find_end s = None.
Proof.
  induction s as [|c s IH]; intros H; rewrite find_end_unfold.
  - reflexivity.
  - destruct (is_prefix CRLFCRLF (c :: s)) eqn:E.
    + apply is_prefix_length in E. cbn [length CRLFCRLF] in *. lia.
    + rewrite IH by (cbn [length] in H; lia). reflexivity.
Qed.

Lemma find_end_bounds s k : find_end s = Some k -> (4 <= k <= length s)%nat.
Proof.
  revert k; induction s as [|c s IH]; intros k H; rewrite find_end_unfold in H.
  - cbn in H. discriminate.
  - destruct (is_prefix CRLFCRLF (c :: s)) eqn:E.
    + injection H as <-. apply is_prefix_length in E. cbn [length CRLFCRLF] in *. lia.
    + destruct (find_end s) as [k'|]; [|discriminate]. injection H as <-.
      specialize (IH k' eq_refl). cbn [length]. lia.
Qed.

(* the first CRLF CRLF stays the first when more bytes arrive *)
Lemma find_end_app s x k : find_end s = Some k -> find_end (s ++ x) = Some k.
Proof.
  revert k; induction s as [|c s IH]; intros k H.
  - cbn in H. discriminate.
  - rewrite find_end_unfold in H. cbn [app]. rewrite find_end_unfold.
    destruct (is_prefix CRLFCRLF (c :: s)) eqn:E.
    + injection H as <-.
      assert (is_prefix CRLFCRLF (c :: s ++ x) = true) as ->; [|reflexivity].
      apply is_prefix_app in E as [t Ht]. apply is_prefix_app. exists (t ++ x).
      change (c :: s ++ x) with ((c :: s) ++ x). rewrite Ht, app_assoc. reflexivity.
    + destruct (find_end s) as [k'|] eqn:Ek; [|discriminate]. injection H as <-.
      pose proof (find_end_bounds _ _ Ek) as Hb.
      assert (is_prefix CRLFCRLF (c :: s ++ x) = false) as ->.
      { rewrite <- E. rewrite <- (is_prefix_firstn_ge CRLFCRLF (c :: s ++ x) (length (c :: s)))
          by (cbn [length CRLFCRLF]; lia).
        change (c :: s ++ x) with ((c :: s) ++ x). rewrite firstn_app, Nat.sub_diag, firstn_all.
        cbn [firstn]. rewrite app_nil_r. reflexivity. }
      rewrite (IH k' eq_refl). reflexivity.
Qed.

Lemma get_hdr_nil p : get_hdr [] p =
  match find_end p with Some k => HFound (firstn k p) (skipn k p) [] | None => HEnd p end.
Proof. reflexivity. Qed.

Lemma firstn_app_le {A} k (a x : list A) : (k <= length a)%nat -> firstn k (a ++ x) = firstn k a.
Proof. intros H. rewrite firstn_app. replace (k - length a)%nat with 0%nat by lia. cbn. apply app_nil_r. Qed.

Lemma skipn_app_le {A} k (a x : list A) : (k <= length a)%nat -> skipn k (a ++ x) = skipn k a ++ x.
Proof. intros H. rewrite skipn_app. replace (k - length a)%nat with 0%nat by lia. reflexivity. Qed.

Lemma get_hdr_concat : forall chunks pend,
  match get_hdr chunks pend with
  | HFound h r cs => get_hdr [] (pend ++ concat chunks) = HFound h (r ++ concat cs) []
  | HEnd p => get_hdr [] (pend ++ concat chunks) = HEnd p
  end.
Proof.
  induction chunks as [|c cs IH]; intros pend.
  - cbn [concat]. rewrite app_nil_r. rewrite get_hdr_nil. destruct (find_end pend); cbn [concat]; now rewrite ?app_nil_r.
  - assert (get_hdr (c :: cs) pend =
            match find_end pend with
            | Some k => HFound (firstn k pend) (skipn k pend) (c :: cs)
            | None => get_hdr cs (pend ++ c)
            end) as -> by (destruct pend; reflexivity).
    destruct (find_end pend) as [k|] eqn:E.
    + rewrite get_hdr_nil, (find_end_app _ (concat (c :: cs)) _ E).
      pose proof (find_end_bounds _ _ E) as Hb.
      rewrite firstn_app_le, skipn_app_le by lia. reflexivity.
    + specialize (IH (pend ++ c)). cbn [concat]. rewrite app_assoc. exact IH.
Qed.

Lemma get_body_full_nil cl r : get_body_full cl [] r =
  if Nat.leb cl (length r) then BFound (firstn cl r) (skipn cl r) [] else BTrunc.
Proof. reflexivity. Qed.

Lemma get_body_full_concat cl : forall chunks rest,
  match get_body_full cl chunks rest with
  | BFound b r cs => get_body_full cl [] (rest ++ concat chunks) = BFound b (r ++ concat cs) []
  | BTrunc => get_body_full cl [] (rest ++ concat chunks) = BTrunc
  end.
Proof.
  induction chunks as [|c cs IH]; intros rest.
  - cbn [concat]. rewrite app_nil_r, get_body_full_nil.
    destruct (Nat.leb cl (length rest)); cbn [concat]; now rewrite ?app_nil_r.
  - cbn [get_body_full]. destruct (Nat.leb cl (length rest)) eqn:E.
    + apply Nat.leb_le in E.
      assert (Nat.leb cl (length (rest ++ concat (c :: cs))) = true) as ->
        by (apply Nat.leb_le; rewrite app_length; lia).
      rewrite firstn_app_le, skipn_app_le by lia. reflexivity.
    + specialize (IH (rest ++ c)). cbn [concat]. rewrite app_assoc.
      destruct (get_body_full cl cs (rest ++ c)); rewrite get_body_full_nil in IH; exact IH.
Qed.

(* the chunking of the connection's reads does not matter to a reader that takes bodies with ReadFull *)
Theorem framed_reader_chunking_independent : forall clen fuel chunks pend,
  read_msgs true clen fuel chunks pend = read_msgs true clen fuel [] (pend ++ concat chunks).
Proof.
  intros clen. induction fuel as [|f IH]; intros chunks pend; [reflexivity|].
  cbn [read_msgs].
  pose proof (get_hdr_concat chunks pend) as Hh.
  destruct (get_hdr chunks pend) as [h r cs|p]; rewrite Hh; [|reflexivity].
  pose proof (get_body_full_concat (clen h) cs r) as Hb.
  destruct (get_body_full (clen h) cs r) as [b r' cs'|]; rewrite Hb; [|reflexivity].
  rewrite (IH cs' r'). reflexivity.
Qed.

Lemma concat_map_data rs : concat (map sres_data rs) = delivered rs.
Proof. unfold delivered. symmetry. apply flat_map_concat_map. Qed.

Theorem handler_msgs_is_frames : forall clen rs,
  handler_msgs true clen rs = frames clen (delivered rs).
Proof.
  intros clen rs. unfold handler_msgs, frames, msgs_fuel.
  rewrite framed_reader_chunking_independent. cbn [app concat length].
  rewrite concat_map_data, Nat.add_0_r. reflexivity.
Qed.

(* end to end: client byte stream -> any segmentation -> sniffing sessions ->
   service reads of any (positive) sizes -> bufio framing: the message list is
   the framing of the client's bytes, the same for every segmentation *)
Theorem service_reads_are_segmentation_independent :
  forall clen fx1 fx2 sc1 sc2 sessions1 sessions2 svc1 svc2 ms1 ms2 rem1 rem2 rs1 rs2 s1 s2,
  stream sc1 = stream sc2 ->
  sniff_run fx1 sc1 sessions1 svc1 = (ms1, rem1, rs1, s1) ->
  sniff_run fx2 sc2 sessions2 svc2 = (ms2, rem2, rs2, s2) ->
  Forall (fun n => (0 < n)%nat) svc1 -> Forall (fun n => (0 < n)%nat) svc2 ->
  (length (stream sc1) + length sc1 <= length svc1)%nat ->
  (length (stream sc2) + length sc2 <= length svc2)%nat ->
  handler_msgs true clen rs1 = frames clen (stream sc1) /\
  handler_msgs true clen rs1 = handler_msgs true clen rs2.
Proof.
  intros clen fx1 fx2 sc1 sc2 se1 se2 svc1 svc2 ms1 ms2 rem1 rem2 rs1 rs2 s1 s2 Hst H1 H2 P1 P2 L1 L2.
  pose proof (service_reads_complete _ _ _ _ _ _ _ _ H1 P1 L1) as D1.
  pose proof (service_reads_complete _ _ _ _ _ _ _ _ H2 P2 L2) as D2.
  rewrite !handler_msgs_is_frames, D1, D2, Hst. auto.
Qed.

(* the framing itself never runs out of the fuel it is given *)
Lemma read_msgs_no_fuel clen : forall fuel st,
  (length st < fuel)%nat -> snd (read_msgs true clen fuel [] st) <> FinFuel.
Proof.
  induction fuel as [|f IH]; intros st H; [lia|].
  cbn [read_msgs]. rewrite get_hdr_nil.
  destruct (find_end st) as [k|] eqn:E; [|cbn; destruct (is_nil st); discriminate].
  pose proof (find_end_bounds _ _ E) as Hb.
  rewrite get_body_full_nil.
  destruct (Nat.leb (clen (firstn k st)) (length (skipn k st))); [|cbn; discriminate].
  specialize (IH (skipn (clen (firstn k st)) (skipn k st))).
  destruct (read_msgs true clen f [] (skipn (clen (firstn k st)) (skipn k st))) as [ms e].
  cbn [snd] in *. apply IH. rewrite !skipn_length. lia.
Qed.

Theorem frames_no_fuel clen st : snd (frames clen st) <> FinFuel.
Proof. unfold frames, msgs_fuel. apply read_msgs_no_fuel. cbn [concat length]. lia. Qed.

Lemma views_eqb_refl l : views_eqb l l = true.
Proof. induction l as [|[m b] l IH]; [reflexivity|]. cbn. now rewrite !bytes_eqb_refl, IH. Qed.

(* the oracle of the message streams accepts the model *)
Theorem msgs_model_passes : forall clen fx sc sessions svc ms rem0 rs s3,
  sniff_run fx sc sessions svc = (ms, rem0, rs, s3) ->
  Forall (fun n => (0 < n)%nat) svc -> (length (stream sc) + length sc <= length svc)%nat ->
  let (m, e) := handler_msgs true clen rs in
  ok_msgs clen (stream sc) (map msg_view m) (fin_code e) = true.
Proof.
  intros clen fx sc sessions svc ms rem0 rs s3 H P L.
  rewrite handler_msgs_is_frames, (service_reads_complete _ _ _ _ _ _ _ _ H P L).
  unfold ok_msgs. destruct (frames clen (stream sc)) as [m e].
  now rewrite views_eqb_refl, Z.eqb_refl.
Qed.

(* a body taken with a single Read: the client's SET_PARAMETER (Content-Length 5,
   body "abcde") is cut after "ab"; the service gets "ab\0\0\0" and then tries to
   read "cde" + the next request as a header block *)
Example single_read_body_refuted :
  let hdr := [83;69;84;95;80;65;82;65;77;69;84;69;82;32;42;32;82;84;83;80;47;49;46;48;13;10] ++
             CL_KEY ++ [53;13;10;13;10] in
  let nxt := [79;80;84;73;79;78;83;32;42;32;82;84;83;80;47;49;46;48;13;10;13;10] in
  let body := [97;98;99;100;101] in
  let whole := [hdr ++ body ++ nxt] in
  let cut := [hdr ++ [97;98]; [99;100;101] ++ nxt] in
  read_msgs true clen_simple 9 cut [] = read_msgs true clen_simple 9 whole [] /\
  read_msgs true clen_simple 9 whole [] = ([(hdr, body); (nxt, [])], FinEOF) /\
  read_msgs false clen_simple 9 cut [] = ([(hdr, [97;98;0;0;0]); ([99;100;101] ++ nxt, [])], FinEOF).
Proof. vm_compute. repeat split; reflexivity. Qed.

(* ---------- the oracle of the message streams accepts the model *)
Lemma errfree_good n sc : errfree sc = true -> good n sc = true.
Proof.
  revert n; induction sc as [|it sc IH]; intros n H; [reflexivity|].
  cbn [errfree forallb] in H. apply andb_true_iff in H as [He Hs].
  cbn [good]. destruct (Nat.leb n (length (it_data it))); [reflexivity|].
  rewrite He, (IH _ Hs). reflexivity.
Qed.

Lemma svc_plenty_ok sc :
  Forall (fun n => (0 < n)%nat) (svc_plenty sc) /\
  (length (stream sc) + length sc <= length (svc_plenty sc))%nat.
Proof.
  unfold svc_plenty. split.
  - apply Forall_forall. intros x Hx. apply repeat_spec in Hx. subst. lia.
  - rewrite repeat_length. lia.
Qed.

Theorem msgs_case_model_passes : forall clen tables sc,
  tables_wf tables = true -> errfree sc = true ->
  let '(d, views, code) := msgs_run clen tables sc in
  ok_msgs_case clen tables sc d views code = true.
Proof.
  intros clen tables sc Hwf Hef. unfold msgs_run.
  destruct (mux_run true tables sc (svc_plenty sc)) as [[d rem0] rs] eqn:ER.
  pose proof (mux_classify true tables sc Hwf (errfree_good _ _ Hef)) as Hc.
  assert (d = fst (mux_serve true tables sc)) as Hd.
  { unfold mux_run in ER. destruct (mux_serve true tables sc) as [d0 s0]. cbn [fst].
    destruct d0; [destruct (service_reads true (svc_plenty sc) s0)|..]; injection ER as <- _ _; reflexivity. }
  destruct (svc_plenty_ok sc) as [Hpos Hlen].
  destruct d as [i| | |].
  - pose proof (mux_service_complete _ _ _ _ _ _ Hwf ER Hpos Hlen) as Hdel.
    rewrite handler_msgs_is_frames, Hdel.
    assert (classify tables (stream sc) = DSvc i) as Hcl by (rewrite <- Hc, <- Hd; reflexivity).
    destruct (frames clen (stream sc)) as [m e] eqn:EF.
    unfold ok_msgs_case, ok_msgs. rewrite Hcl, decision_eqb_refl, EF. cbn [andb].
    now rewrite views_eqb_refl, Z.eqb_refl.
  - assert (classify tables (stream sc) = DNone) as Hcl by (rewrite <- Hc, <- Hd; reflexivity).
    unfold ok_msgs_case. rewrite Hcl. reflexivity.
  - exfalso. pose proof (mux_sound true tables sc) as Hs.
    destruct (mux_serve true tables sc) as [d0 s0] eqn:EM. cbn [fst] in Hd. subst d0.
    specialize (Hs _ _ Hwf eq_refl). discriminate.
  - exfalso. pose proof (mux_sound true tables sc) as Hs.
    destruct (mux_serve true tables sc) as [d0 s0] eqn:EM. cbn [fst] in Hd. subst d0.
    specialize (Hs _ _ Hwf eq_refl). discriminate.
Qed.
