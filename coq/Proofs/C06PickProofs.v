(* C06 — arbitrary rearrangements (reordering, duplication, loss) at the demuxer
   level: nothing is spliced or invented; the oracle ok_pick accepts the model. *)
From Coq Require Import ZArith List Bool Lia ZifyBool.
From V Require Import Val Bytes BytesLemmas C06Rtp C06NalDepack C06H264Depack C06H265Depack C06AacDepack
  C06SyncClock C06Demux C06BaseProofs C06NalProofs C06H26xProofs C06AacProofs C06DemuxProofs.
Import ListNotations.
Open Scope Z_scope.

Definition ditems (items : list titem) : list item :=
  flat_map (fun ti => match ti with TData it => [it] | TSr _ _ _ => [] end) items.

Lemma plan_frames_ditems c items : plan_frames c items = flat_map (true_frames c) (ditems items).
Proof.
  unfold plan_frames, ditems. induction items as [|[it|rt msw lsw] r IH]; simpl; auto.
  rewrite IH. reflexivity.
Qed.

Lemma pick_in {A} (ix : list nat) (l : list A) x : In x (pick ix l) -> In x l.
Proof.
  induction ix as [|i r IH]; simpl; [tauto|].
  destruct (nth_error l i) eqn:E; auto. intros [<-|H]; auto. eapply nth_error_In; eauto.
Qed.

Section Pick.
Variables (c : cd) (clock seq0 : Z) (items : list titem).
Hypothesis items_ok : forallb (titem_ok c) items = true.
Hypothesis items_few : total_dpk c items <= 65536.

Lemma ditems_ok : forallb (fun it => data_ok c it && no_ts_wrap_item c it) (ditems items) = true.
Proof.
  unfold ditems. clear items_few. induction items as [|[it|rt msw lsw] r IH]; simpl in *; auto.
  - apply andb_true_iff in items_ok as [A B]. rewrite A. simpl. auto.
  - apply andb_true_iff in items_ok as [A B]. auto.
Qed.

(* where an event of the stream comes from *)
Definition data_stream (k : Z) (its : list item) : list packet :=
  match c with
  | CH264 => packetize z264 seq0 k its
  | CH265 => packetize z265 seq0 k its
  | CAAC => packetize_aac seq0 k its
  end.

Lemma tevents_in : forall its k e, In e (tevents c seq0 k its) ->
  (exists p, e = EData p /\ In p (data_stream k (ditems its))) \/
  (exists rt msw lsw, e = ESr (sr_bytes rt msw lsw) /\ In (TSr rt msw lsw) its).
Proof.
  induction its as [|[it|rt msw lsw] r IH]; intros k e H; simpl in H; [destruct H| |].
  - apply in_app_or in H as [H|H].
    + apply in_map_iff in H as (p & <- & Hp). left. exists p. split; auto.
      unfold data_stream. simpl ditems. unfold data_pkts in Hp.
      destruct c; simpl; try (apply in_or_app; left; exact Hp).
      destruct Hp as [<-|[]]. left. reflexivity.
    + destruct (IH _ _ H) as [(p & -> & Hp)|(rt & msw & lsw & -> & Hin)].
      * left. exists p. split; auto. unfold data_stream in *. simpl ditems.
        destruct c; simpl in *; try (apply in_or_app; right; exact Hp). right. exact Hp.
      * right. exists rt, msw, lsw. split; auto. right. exact Hin.
  - destruct H as [<-|H].
    + right. exists rt, msw, lsw. split; auto. left. reflexivity.
    + replace (k + 0) with k in H by lia.
      destruct (IH _ _ H) as [(p & -> & Hp)|(rt' & msw' & lsw' & -> & Hin)].
      * left. exists p. split; auto.
      * right. exists rt', msw', lsw'. split; auto. right. exact Hin.
Qed.

Definition base_ok (b : Z) : Prop := In b (plan_bases items).
Definition frame_ok (o : oframe) : Prop :=
  exists f b, In f (plan_frames c items) /\ base_ok b /\ o = to_oframe c clock b f.

Lemma sr_base_ok rt msw lsw : In (TSr rt msw lsw) items -> base_ok rt.
Proof.
  intros H. unfold base_ok, plan_bases. right. apply in_flat_map. exists (TSr rt msw lsw). split; auto. left. reflexivity.
Qed.

Lemma sr_u32 rt msw lsw : In (TSr rt msw lsw) items -> u32 rt = true.
Proof.
  intros H. pose proof items_ok as O. rewrite forallb_forall in O. specialize (O _ H). simpl in O.
  apply andb_true_iff in O as [O _]. apply andb_true_iff in O as [O _]. exact O.
Qed.

(* video: the generic invariant, instantiated *)
Definition vid_inv (g : gst) : Prop :=
  w_ready (g_w g) = true /\
  match c with
  | CH264 => good_buf c264 z264 seq0 (ditems items) (g_frags g)
  | CH265 => good_buf c265 z265 seq0 (ditems items) (g_frags g)
  | CAAC => True
  end.

Lemma video_ok_items z (H : forall it, data_ok c it = item_ok z it) :
  forallb (item_ok z) (ditems items) = true.
Proof.
  pose proof ditems_ok as O. rewrite forallb_forall in *. intros it Hin. specialize (O it Hin).
  apply andb_true_iff in O as [O _]. rewrite <- H. exact O.
Qed.

Lemma total_dpk_video : c <> CAAC -> total_dpk c items = Z.of_nat (total_pk (ditems items)).
Proof.
  intros NA. unfold ditems. clear items_ok items_few. induction items as [|[it|rt msw lsw] r IH]; simpl; auto;
    rewrite IH; destruct c; try contradiction; simpl; lia.
Qed.

Lemma true_frames_allowed_264 f : c = CH264 ->
  allowed keep264 (ditems items) f -> In f (plan_frames c items).
Proof.
  intros EC H. pose proof ditems_ok as O. rewrite plan_frames_ditems. rewrite EC in O |- *.
  unfold allowed in H. apply filter_In in H as [H K].
  apply in_flat_map in H as (it & Hit & Hf). apply in_flat_map. exists it. split; auto.
  rewrite forallb_forall in O. specialize (O it Hit).
  apply andb_true_iff in O as [_ NW]. unfold no_ts_wrap_item in NW. apply andb_true_iff in NW as [T0 TB].
  simpl. apply filter_In. split; auto. unfold item_frames in Hf. rewrite ts32_small in Hf by lia. exact Hf.
Qed.

Lemma true_frames_allowed_265 f : c = CH265 ->
  allowed keep265 (ditems items) f -> In f (plan_frames c items).
Proof.
  intros EC H. pose proof ditems_ok as O. rewrite plan_frames_ditems. rewrite EC in O |- *.
  unfold allowed in H. apply filter_In in H as [H K].
  apply in_flat_map in H as (it & Hit & Hf). apply in_flat_map. exists it. split; auto.
  rewrite forallb_forall in O. specialize (O it Hit).
  apply andb_true_iff in O as [_ NW]. unfold no_ts_wrap_item in NW. apply andb_true_iff in NW as [T0 TB].
  simpl. unfold item_frames in Hf. rewrite ts32_small in Hf by lia. exact Hf.
Qed.

Lemma packetize_aac_in : forall its k p, In p (packetize_aac seq0 k its) -> exists it k', In it its /\ p = aac_item_pkt seq0 k' it.
Proof.
  induction its as [|it r IH]; intros k p H; simpl in H; [destruct H|].
  destruct H as [<-|H]; [exists it, k; split; auto; left; reflexivity|].
  destruct (IH _ _ H) as (it' & k' & Hin & ->). exists it', k'. split; auto. right. exact Hin.
Qed.

(* one event from the plan *)
Lemma pick_step st e :
  In e (tevents c seq0 0 items) -> vid_inv (d_g st) -> base_ok (d_base st) ->
  exists st' fs, dstep c clock st e = (st', fs, false) /\ vid_inv (d_g st') /\ base_ok (d_base st') /\
                 Forall frame_ok fs.
Proof.
  intros Hin [R GB] BO. destruct (tevents_in _ _ _ Hin) as [(p & -> & Hp)|(rt & msw & lsw & -> & Hsr)].
  - cbn [dstep]. unfold media_step, data_stream in *.
    pose proof ditems_ok as DOK. pose proof total_dpk_video as TDV. pose proof items_few as FEW0.
    pose proof true_frames_allowed_264 as A264. pose proof true_frames_allowed_265 as A265.
    assert (VOK : forall z, (forall it, data_ok c it = item_ok z it) -> forallb (item_ok z) (ditems items) = true).
    { intros z0 Hz. rewrite forallb_forall in *. intros it Hi. specialize (DOK it Hi).
      apply andb_true_iff in DOK as [X _]. rewrite <- Hz. exact X. }
    destruct c eqn:EC.
    + assert (OK : forallb (item_ok z264) (ditems items) = true) by (apply VOK; reflexivity).
      assert (FEW : Z.of_nat (total_pk (ditems items)) <= 65536) by (rewrite <- TDV by discriminate; exact FEW0).
      pose proof (h264_packetize_prov seq0 (ditems items) (ditems items) [] p eq_refl Hp) as PV.
      destruct (d_g st) as [F w] eqn:EG. cbn [g_frags g_w] in *.
      destruct (h264_splice_step seq0 (ditems items) OK FEW F w p PV GB R) as (F' & w' & r & E & NP & GB' & R' & AL).
      rewrite E, NP. eexists; eexists; split; [reflexivity|]. cbn [d_g d_base g_frags g_w].
      unfold vid_inv, frame_ok. rewrite ?EC. cbn [g_frags g_w].
      repeat split; auto. apply Forall_forall. intros o Ho. apply in_map_iff in Ho as (f & <- & Hf).
      exists f, (d_base st). repeat split; auto. all: try (apply A264; auto).
    + assert (OK : forallb (item_ok z265) (ditems items) = true) by (apply VOK; reflexivity).
      assert (FEW : Z.of_nat (total_pk (ditems items)) <= 65536) by (rewrite <- TDV by discriminate; exact FEW0).
      pose proof (h265_packetize_prov seq0 (ditems items) (ditems items) [] p eq_refl Hp) as PV.
      destruct (d_g st) as [F w] eqn:EG. cbn [g_frags g_w] in *.
      destruct (h265_splice_step seq0 (ditems items) OK FEW F w p PV GB R) as (F' & w' & r & E & NP & GB' & R' & AL).
      rewrite E, NP. eexists; eexists; split; [reflexivity|]. cbn [d_g d_base g_frags g_w].
      unfold vid_inv, frame_ok. rewrite ?EC. cbn [g_frags g_w].
      repeat split; auto. apply Forall_forall. intros o Ho. apply in_map_iff in Ho as (f & <- & Hf).
      exists f, (d_base st). repeat split; auto. all: try (apply A265; auto).
    + destruct (packetize_aac_in _ _ _ Hp) as (it & k' & Hit & ->).
      rewrite forallb_forall in DOK. specialize (DOK it Hit).
      apply andb_true_iff in DOK as [OD NW]. simpl in OD.
      rewrite (aac_step_ok seq0 k' it OD). eexists; eexists; split; [reflexivity|]. cbn [d_g d_base].
      unfold vid_inv, frame_ok. rewrite ?EC.
      repeat split; auto. apply Forall_forall. intros o Ho. simpl in Ho. apply in_map_iff in Ho as (f & <- & Hf).
      exists f, (d_base st). repeat split; auto.
      rewrite plan_frames_ditems. apply in_flat_map. exists it. split; auto.
      unfold no_ts_wrap_item in NW. apply andb_true_iff in NW as [T0 TB].
      simpl. unfold aac_item_frames, aac_units in Hf. rewrite ts32_small in Hf by lia.
      rewrite aac_frames_nowrap in Hf by lia. exact Hf.
  - cbn [dstep]. destruct (d_base st =? 0).
    + rewrite (sr_decode_ok rt msw lsw (sr_u32 _ _ _ Hsr)).
      eexists; eexists; split; [reflexivity|]. cbn [d_g d_base]. repeat split; auto.
      eapply sr_base_ok; eauto.
    + eexists; eexists; split; [reflexivity|]. repeat split; auto.
Qed.

Theorem pick_run : forall es st,
  (forall e, In e es -> In e (tevents c seq0 0 items)) -> vid_inv (d_g st) -> base_ok (d_base st) ->
  exists st' fs, drun c clock st es = (st', fs, false) /\ Forall frame_ok fs.
Proof.
  induction es as [|e r IH]; intros st Hin VI BO.
  - exists st, []. split; auto.
  - destruct (pick_step st e (Hin e (or_introl eq_refl)) VI BO) as (st1 & f1 & E1 & VI1 & BO1 & A1).
    destruct (IH st1 (fun e' H => Hin e' (or_intror H)) VI1 BO1) as (st2 & f2 & E2 & A2).
    cbn [drun]. rewrite E1, E2. exists st2, (f1 ++ f2). split; auto. apply Forall_app. auto.
Qed.

End Pick.

(* the oracle of the rearrangement stream accepts the model *)
Theorem model_passes_pick c clock seq0 items ix :
  forallb (titem_ok c) items = true -> total_dpk c items <= 65536 ->
  let '(_, fs, pn) := drun c clock dst_init (pick ix (tevents c seq0 0 items)) in
  ok_pick c clock items fs pn = true.
Proof.
  intros OK FEW.
  destruct (pick_run c clock seq0 items OK FEW (pick ix (tevents c seq0 0 items)) dst_init) as (st' & fs & E & A).
  - intros e. apply pick_in.
  - split; [reflexivity|]. destruct c; simpl; auto; left; reflexivity.
  - left. reflexivity.
  - rewrite E. unfold ok_pick. change (negb false) with true. rewrite andb_true_l. apply forallb_forall. intros o Ho.
    rewrite Forall_forall in A. destruct (A o Ho) as (f & b & Hf & Hb & ->).
    apply existsb_exists. exists f. split; auto.
    unfold to_oframe. cbn [o_pl o_mt o_pts]. rewrite bytes_eqb_refl, Z.eqb_refl. cbn [andb].
    apply existsb_exists. exists b. split; [exact Hb|apply Z.eqb_refl].
Qed.
