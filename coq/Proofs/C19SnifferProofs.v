(* C19: the sniffing Conn replays exactly.  Invariants over arbitrary sequences
   of matcher reads (any sizes, any number of startSniffing sessions) followed
   by arbitrary service reads, for every read script of the raw connection. *)
From Coq Require Import ZArith List Bool Lia.
From V Require Import Bytes BytesLemmas C19PTree C19Sniffer.
Import ListNotations.
Open Scope Z_scope.

(* ---------- list facts *)
Lemma firstn_plus {A} (a b : nat) (l : list A) :
  firstn a l ++ firstn b (skipn a l) = firstn (a + b) l.
Proof.
  revert l; induction a as [|a IH]; intros l; [reflexivity|].
  destruct l as [|x l]; simpl; [now rewrite firstn_nil|]. now rewrite IH.
Qed.

Lemma skipn_add {A} (a b : nat) (l : list A) : skipn b (skipn a l) = skipn (a + b) l.
Proof.
  revert l; induction a as [|a IH]; intros l; [reflexivity|].
  destruct l as [|x l]; simpl; [now rewrite skipn_nil | apply IH].
Qed.

Lemma skipn_len_firstn {A} (n : nat) (l : list A) : skipn (length (firstn n l)) l = skipn n l.
Proof.
  revert l; induction n as [|n IH]; intros l; [reflexivity|].
  destruct l as [|x l]; [reflexivity|]. simpl. apply IH.
Qed.

Lemma firstn_all_ge {A} (n : nat) (l : list A) : (length l <= n)%nat -> firstn n l = l.
Proof. intros H. apply firstn_all2. exact H. Qed.

Lemma is_prefix_self_app a b : is_prefix a (a ++ b) = true.
Proof. apply is_prefix_app. now exists b. Qed.

Lemma is_prefix_firstn_app k a b : is_prefix (firstn k a) (a ++ b) = true.
Proof.
  apply is_prefix_app. exists (skipn k a ++ b). now rewrite app_assoc, firstn_skipn.
Qed.

(* ---------- the raw connection *)
Lemma src_read_spec n sc d e sc' :
  src_read n sc = (d, e, sc') ->
  stream sc = d ++ stream sc' /\ (length d <= n)%nat /\ (length sc' <= length sc)%nat /\
  ((0 < n)%nat -> d <> [] \/ (length sc' < length sc)%nat \/ (sc = [] /\ sc' = [] /\ e = EOF)).
Proof.
  unfold src_read. destruct n as [|n].
  - intros H; inversion H; subst. repeat split; simpl; try lia.
  - destruct sc as [|it sc0].
    + intros H; inversion H; subst. repeat split; simpl; try lia; try (intros _; right; right; auto).
    + remember (S n) as k eqn:Ek.
      destruct (Nat.leb (length (it_data it)) k) eqn:E; intros [= <- <- <-].
      * apply Nat.leb_le in E. repeat split; simpl; try lia; try (intros _; right; left; lia).
      * apply Nat.leb_gt in E. cbn [stream flat_map it_data]. repeat split.
        -- rewrite app_assoc, firstn_skipn. reflexivity.
        -- rewrite firstn_length. lia.
        -- simpl; lia.
        -- intros _. left. intros C. apply (f_equal (@length Z)) in C. rewrite firstn_length in C. simpl in C. lia.
Qed.

Ltac proj := cbn [sn_src sn_buf sn_rd sn_size sn_sniffing sn_lasterr sn_direct] in *.

(* ---------- sniffing sessions *)
Section Replay.
Variable st0 : bytes.        (* the original byte stream of the connection *)

(* between sessions *)
Definition base (s : sniffer) : Prop :=
  sn_direct s = false /\ sn_buf s ++ stream (sn_src s) = st0.

(* inside a session that has delivered [m] to the matcher *)
Definition minv (s : sniffer) (m : bytes) : Prop :=
  sn_sniffing s = true /\ base s /\
  (sn_rd s <= sn_size s)%nat /\ (sn_size s <= length (sn_buf s))%nat /\
  ((sn_rd s < sn_size s)%nat -> sn_size s = length (sn_buf s)) /\
  m = (if Nat.ltb (sn_rd s) (sn_size s) then firstn (sn_rd s) (sn_buf s) else sn_buf s).

Lemma base_new sc : st0 = stream sc -> base (new_sniffer sc).
Proof. intros H. split; [reflexivity | cbn; now rewrite H]. Qed.

Lemma minv_start s : base s -> minv (reset true s) [].
Proof.
  intros [Hd Hb]. unfold minv, base, reset; cbn.
  repeat split; auto; try lia.
  destruct (sn_buf s); reflexivity.
Qed.

Lemma minv_base s m : minv s m -> base s.
Proof. intros (_ & B & _). exact B. Qed.

Lemma minv_prefix s m : minv s m -> is_prefix m st0 = true.
Proof.
  intros (_ & [_ Hb] & _ & _ & _ & ->). rewrite <- Hb.
  destruct (Nat.ltb _ _); [apply is_prefix_firstn_app | apply is_prefix_self_app].
Qed.

Lemma minv_read fx n s m r s' :
  minv s m -> sniffer_read fx n s = (r, s') ->
  exists d e, r = ROk d e /\ minv s' (m ++ d) /\ (length d <= n)%nat.
Proof.
  intros (Hsn & [Hdir Hb] & Hle & Hsz & Hfull & Hm) H.
  destruct s as [src buf rd size snf le dir]. proj. subst snf dir.
  unfold sniffer_read in H; proj.
  destruct (Nat.ltb rd size) eqn:E.
  - apply Nat.ltb_lt in E. specialize (Hfull E). subst size.
    rewrite Nat.leb_refl in H.
    assert (firstn (length buf - rd) (skipn rd buf) = skipn rd buf) as HX.
    { apply firstn_all_ge. rewrite skipn_length. lia. }
    rewrite HX in H. inversion H; subst; clear H.
    eexists _, _. split; [reflexivity|].
    assert (length (firstn n (skipn rd buf)) <= length buf - rd)%nat as Ld.
    { rewrite firstn_length, skipn_length. lia. }
    split; [|rewrite firstn_length; lia].
    unfold minv, base; proj. repeat split; auto; try lia.
    rewrite firstn_plus.
    destruct (Nat.ltb (rd + length (firstn n (skipn rd buf))) (length buf)) eqn:E2.
    + rewrite firstn_length, skipn_length in *. apply Nat.ltb_lt in E2. f_equal. lia.
    + apply Nat.ltb_ge in E2. rewrite firstn_length, skipn_length in *.
      apply firstn_all_ge. lia.
  - apply Nat.ltb_ge in E. proj.
    destruct (src_read n src) as [[d e] src'] eqn:ES.
    apply src_read_spec in ES as (Hst & Hl & _).
    destruct (Nat.ltb 0 (length d)) eqn:Ed; cbn in H; inversion H; subst; clear H.
    + eexists _, _. split; [reflexivity|]. split; [|exact Hl].
      unfold minv, base; proj. repeat split; auto; try lia.
      * rewrite <- app_assoc, <- Hst. exact Hb.
      * rewrite app_length. lia.
      * assert (Nat.ltb rd size = false) as -> by (apply Nat.ltb_ge; lia). reflexivity.
    + apply Nat.ltb_ge in Ed. destruct d; [|simpl in Ed; lia].
      eexists _, _. split; [reflexivity|]. split; [|exact Hl].
      unfold minv, base; proj. repeat split; auto; try lia.
      * rewrite <- Hb, Hst. reflexivity.
      * assert (Nat.ltb rd size = false) as -> by (apply Nat.ltb_ge; lia). now rewrite app_nil_r.
Qed.

Lemma matcher_reads_inv fx sizes : forall s m rs s',
  minv s m -> matcher_reads fx sizes s = (rs, s') ->
  no_rpanic rs = true /\ minv s' (m ++ session_seen rs) /\ length rs = length sizes.
Proof.
  induction sizes as [|n sizes IH]; intros s m rs s' Hi H; cbn in H.
  - inversion H; subst. cbn. rewrite app_nil_r. auto.
  - destruct (sniffer_read fx n s) as [r s1] eqn:ER.
    destruct (minv_read _ _ _ _ _ _ Hi ER) as (d & e & -> & Hi1 & _).
    destruct (matcher_reads fx sizes s1) as [rs2 s2] eqn:EM. inversion H; subst; clear H.
    destruct (IH _ _ _ _ Hi1 EM) as (Hp & Hi2 & Hlen).
    split; [unfold no_rpanic in *; cbn [forallb]; exact Hp|].
    split; [|cbn [length]; now rewrite Hlen].
    unfold session_seen in *. cbn [flat_map rres_data]. rewrite app_assoc. exact Hi2.
Qed.

Lemma sessions_run_inv fx sessions : forall s ms s',
  base s -> sessions_run fx sessions s = (ms, s') ->
  base s' /\ length ms = length sessions /\
  forallb (fun m => no_rpanic m && is_prefix (session_seen m) st0) ms = true.
Proof.
  induction sessions as [|sz rest IH]; intros s ms s' Hb H; cbn in H.
  - inversion H; subst. auto.
  - destruct (matcher_reads fx sz (reset true s)) as [rs s1] eqn:EM.
    destruct (sessions_run fx rest s1) as [rss s2] eqn:ES. inversion H; subst; clear H.
    destruct (matcher_reads_inv _ _ _ _ _ _ (minv_start _ Hb) EM) as (Hp & Hi & _).
    destruct (IH _ _ _ (minv_base _ _ Hi) ES) as (Hb2 & Hl & Hall).
    split; [exact Hb2|]. split; [cbn; now rewrite Hl|].
    cbn. rewrite Hp, Hall. cbn in Hi. rewrite (minv_prefix _ _ Hi). reflexivity.
Qed.

(* ---------- the service phase *)
Definition sinv (s : sniffer) (D : bytes) : Prop :=
  sn_sniffing s = false /\
  D ++ pending s ++ stream (sn_src s) = st0 /\
  (sn_direct s = false -> (sn_rd s < sn_size s)%nat -> sn_size s = length (sn_buf s)).

Lemma sinv_start s : base s -> sinv (reset false s) [].
Proof.
  intros [Hd Hb]. unfold sinv, pending, reset; cbn. rewrite Hd.
  repeat split; auto.
  rewrite Nat.sub_0_r, firstn_all. exact Hb.
Qed.

Ltac split_all := repeat match goal with |- _ /\ _ => split end.

Lemma sinv_read fx n s D r s' :
  sinv s D -> conn_read fx n s = (r, s') ->
  exists d e, r = ROk d e /\ sinv s' (D ++ d) /\ (length d <= n)%nat /\
    pending s ++ stream (sn_src s) = d ++ pending s' ++ stream (sn_src s') /\
    (fx = true -> e <> 0 -> pending s' = []) /\
    ((0 < n)%nat -> pending s <> [] -> d <> []) /\
    (* progress *)
    ((0 < n)%nat -> d <> [] \/ (length (sn_src s') < length (sn_src s))%nat \/
                    (pending s = [] /\ sn_src s = [])) /\
    (length (sn_src s') <= length (sn_src s))%nat.
Proof.
  intros (Hsn & Hst & Hfull) H.
  destruct s as [src buf rd size snf le dir]. proj. subst snf.
  unfold conn_read in H; proj. destruct dir.
  - (* reader already switched to the raw connection *)
    destruct (src_read n src) as [[d e] src'] eqn:ES. injection H as <- <-.
    apply src_read_spec in ES as (Hs & Hl & Hlen & Hprog).
    exists d, e. split; [reflexivity|]. unfold sinv, pending in *; proj. cbn [app] in *. split_all.
    + reflexivity.
    + rewrite <- app_assoc, <- Hs. exact Hst.
    + discriminate.
    + exact Hl.
    + exact Hs.
    + reflexivity.
    + intros _ C; congruence.
    + intros Hn. destruct (Hprog Hn) as [?|[?|(?&?&?)]]; auto.
    + exact Hlen.
  - unfold sniffer_read in H; proj. unfold pending in *; proj.
    destruct (Nat.ltb rd size) eqn:E.
    + apply Nat.ltb_lt in E. specialize (Hfull eq_refl E). subst size.
      rewrite Nat.leb_refl in H.
      assert (firstn (length buf - rd) (skipn rd buf) = skipn rd buf) as HX.
      { apply firstn_all_ge. rewrite skipn_length. lia. }
      rewrite HX in *. injection H as <- <-.
      set (X := skipn rd buf) in *. set (d := firstn n X).
      assert (length X = (length buf - rd)%nat) as LX by (unfold X; now rewrite skipn_length).
      assert (length d = Nat.min n (length X)) as Ld by (unfold d; now rewrite firstn_length).
      assert (firstn (length buf - (rd + length d)) (skipn (rd + length d) buf) = skipn n X) as HP.
      { rewrite firstn_all_ge by (rewrite skipn_length; lia).
        rewrite <- skipn_add. fold X. apply skipn_len_firstn. }
      assert (X = d ++ skipn n X) as HXs by (unfold d; now rewrite firstn_skipn).
      exists d. eexists. split; [reflexivity|]. unfold sinv, pending; proj. rewrite HP. split_all.
      * reflexivity.
      * rewrite <- Hst, <- app_assoc. f_equal. rewrite app_assoc, <- HXs. reflexivity.
      * reflexivity.
      * lia.
      * rewrite app_assoc, <- HXs. reflexivity.
      * intros -> He. cbn [andb] in He.
        destruct (Nat.ltb (rd + length d) (length buf)) eqn:E2; [congruence|].
        apply Nat.ltb_ge in E2. apply length_zero_iff_nil. rewrite skipn_length. lia.
      * intros Hn HXne C. apply (f_equal (@length Z)) in C. cbn [length] in C.
        destruct X; [congruence|]. cbn [length] in *. lia.
      * intros Hn. left. intros C. apply (f_equal (@length Z)) in C. cbn [length] in C. lia.
      * apply Nat.le_refl.
    + apply Nat.ltb_ge in E.
      replace (size - rd)%nat with 0%nat in * by lia. cbn [firstn app] in *.
      cbv zeta in H. cbn [negb andb] in H.
      destruct (src_read n src) as [[d e] src'] eqn:ES.
      rewrite andb_false_r in H. injection H as <- <-.
      apply src_read_spec in ES as (Hs & Hl & Hlen & Hprog).
      exists d, e. split; [reflexivity|]. unfold sinv, pending; proj.
      replace (size - rd)%nat with 0%nat by lia. cbn [firstn].
      destruct (negb (is_nil buf)); cbn [app];
        (split_all;
         [ reflexivity
         | rewrite <- app_assoc, <- Hs; exact Hst
         | first [discriminate | intros _ C; lia]
         | exact Hl
         | exact Hs
         | reflexivity
         | intros _ C; congruence
         | intros Hn; destruct (Hprog Hn) as [?|[?|(?&?&?)]]; auto
         | exact Hlen ]).
Qed.

(* everything the oracle checks, step by step *)
Lemma service_reads_ok sizes : forall s D rs s',
  sinv s D -> service_reads true sizes s = (rs, s') ->
  ok_reads st0 (length D) (length st0 - remaining s) sizes rs = true /\
  sinv s' (D ++ delivered rs).
Proof.
  induction sizes as [|n sizes IH]; intros s D rs s' Hi H; cbn in H.
  - inversion H; subst. cbn. rewrite app_nil_r. auto.
  - destruct (conn_read true n s) as [r s1] eqn:ER.
    destruct (sinv_read _ _ _ _ _ _ Hi ER) as (d & e & -> & Hi1 & Hl & Hstep & Herr & Hpend & _).
    destruct (service_reads true sizes s1) as [rs2 s2] eqn:ES. inversion H; subst; clear H.
    destruct (IH _ _ _ _ Hi1 ES) as (Hok & Hi2).
    split; [|cbn; rewrite app_assoc; exact Hi2].
    destruct Hi as (_ & Hst & _). destruct Hi1 as (_ & Hst1 & _).
    assert (length st0 = (length D + length (pending s) + remaining s)%nat) as L0.
    { rewrite <- Hst. rewrite !app_length. unfold remaining. lia. }
    assert (length st0 = (length D + length d + length (pending s1) + remaining s1)%nat) as L1.
    { rewrite <- Hst1. rewrite !app_length. unfold remaining. lia. }
    cbn [ok_reads].
    rewrite app_length in Hok.
    replace (length st0 - remaining s1)%nat with (length D + length d + length (pending s1))%nat in * by lia.
    rewrite Hok, andb_true_r.
    repeat (apply andb_true_iff; split).
    + apply Nat.leb_le. lia.
    + apply Nat.leb_le. exact Hl.
    + rewrite <- Hst. rewrite skipn_app, skipn_all, Nat.sub_diag. cbn [skipn app].
      rewrite Hstep. apply is_prefix_self_app.
    + apply Nat.leb_le. lia.
    + destruct (Z.eqb e 0) eqn:Ee; [reflexivity|]. apply Z.eqb_neq in Ee.
      rewrite (Herr eq_refl Ee). cbn. apply Nat.eqb_eq. lia.
    + destruct (Nat.ltb 0 n) eqn:En; cbn [andb]; [|reflexivity].
      destruct (Nat.ltb (length D) (length st0 - remaining s)) eqn:Ep; [|reflexivity].
      apply Nat.ltb_lt in En, Ep. apply Nat.ltb_lt.
      assert (pending s <> []) as NE by (intros C; rewrite C in L0; simpl in L0; lia).
      specialize (Hpend En NE). destruct d; [congruence | simpl; lia].
Qed.

(* the same replay equation for either treatment of lastErr *)
Lemma service_reads_replay fx sizes : forall s D rs s',
  sinv s D -> service_reads fx sizes s = (rs, s') ->
  sinv s' (D ++ delivered rs) /\ length rs = length sizes /\
  forallb (fun r => match r with SPanic => false | _ => true end) rs = true.
Proof.
  induction sizes as [|n sizes IH]; intros s D rs s' Hi H; cbn in H.
  - inversion H; subst. cbn. rewrite app_nil_r. auto.
  - destruct (conn_read fx n s) as [r s1] eqn:ER.
    destruct (sinv_read _ _ _ _ _ _ Hi ER) as (d & e & -> & Hi1 & _).
    destruct (service_reads fx sizes s1) as [rs2 s2] eqn:ES. inversion H; subst; clear H.
    destruct (IH _ _ _ _ Hi1 ES) as (Hi2 & Hl & Hp).
    cbn. rewrite app_assoc. auto.
Qed.

(* progress: every positive-size read either returns a byte or uses up a script item *)
Definition todo (s : sniffer) : nat :=
  (length (pending s) + length (stream (sn_src s)) + length (sn_src s))%nat.

Lemma service_reads_drain fx sizes : forall s D rs s',
  sinv s D -> Forall (fun n => (0 < n)%nat) sizes ->
  service_reads fx sizes s = (rs, s') ->
  (todo s' + length sizes <= todo s)%nat \/ (pending s' = [] /\ sn_src s' = []).
Proof.
  induction sizes as [|n sizes IH]; intros s D rs s' Hi Hpos H; cbn in H.
  - inversion H; subst. left. simpl. lia.
  - inversion Hpos as [|? ? Hn Hpos']; subst.
    destruct (conn_read fx n s) as [r s1] eqn:ER.
    destruct (sinv_read _ _ _ _ _ _ Hi ER) as (d & e & -> & Hi1 & _ & Hstep & _ & _ & Hprog & Hlen).
    destruct (service_reads fx sizes s1) as [rs2 s2] eqn:ES. inversion H; subst; clear H.
    assert (todo s1 + 1 <= todo s \/ (pending s1 = [] /\ sn_src s1 = []))%nat as Hone.
    { apply (f_equal (@length Z)) in Hstep. rewrite !app_length in Hstep. unfold todo.
      destruct (Hprog Hn) as [Hd|[Hl|[Hp Hs]]].
      - left. destruct d; [congruence|]. simpl in Hstep. lia.
      - left. lia.
      - right. rewrite Hp, Hs in Hstep. simpl in Hstep.
        assert (length (sn_src s1) = 0)%nat by (rewrite Hs in Hlen; simpl in Hlen; lia).
        split; apply length_zero_iff_nil; lia. }
    destruct (IH _ _ _ _ Hi1 Hpos' ES) as [Hk|Hdone]; [|right; exact Hdone].
    destruct Hone as [Hone|[Hp Hs]].
    + left. simpl. lia.
    + (* already drained after the first read: stays drained *)
      right. clear -Hk Hp Hs. unfold todo in Hk. rewrite Hp, Hs in Hk. simpl in Hk.
      split; apply length_zero_iff_nil; lia.
Qed.

End Replay.

(* ---------- errors: which ones the replay may hand to the service *)
Lemma src_read_aerr n src d e src' :
  src_read n src = (d, e, src') ->
  (d <> [] -> e = aerr src (length d)) /\
  (forall j, (0 < j)%nat -> aerr src' j = aerr src (length d + j)).
Proof.
  unfold src_read. destruct n as [|n].
  - intros [= <- <- <-]. split; [congruence|]. intros j Hj. reflexivity.
  - destruct src as [|it sc].
    + intros [= <- <- <-]. split; [congruence|]. intros j Hj. reflexivity.
    + remember (S n) as k eqn:Ek.
      destruct (Nat.leb (length (it_data it)) k) eqn:E; intros [= <- <- <-].
      * split.
        -- intros Hd. cbn [aerr].
           assert (length (it_data it) <> 0)%nat as Hl by (destruct (it_data it); [congruence | simpl; lia]).
           apply Nat.eqb_neq in Hl. rewrite Hl, Nat.ltb_irrefl, Nat.eqb_refl. reflexivity.
        -- intros j Hj. cbn [aerr].
           assert (Nat.eqb (length (it_data it) + j) 0 = false) as -> by (apply Nat.eqb_neq; lia).
           destruct (Nat.eqb (length (it_data it)) 0) eqn:E0.
           ++ apply Nat.eqb_eq in E0. rewrite E0. reflexivity.
           ++ apply Nat.eqb_neq in E0.
              assert (Nat.ltb (length (it_data it) + j) (length (it_data it)) = false) as -> by (apply Nat.ltb_ge; lia).
              assert (Nat.eqb (length (it_data it) + j) (length (it_data it)) = false) as -> by (apply Nat.eqb_neq; lia).
              f_equal. lia.
      * apply Nat.leb_gt in E.
        assert (length (firstn k (it_data it)) = k) as Lk by (rewrite firstn_length; lia).
        rewrite Lk. split.
        -- intros _. cbn [aerr].
           assert (Nat.eqb k 0 = false) as -> by (apply Nat.eqb_neq; lia).
           assert (Nat.eqb (length (it_data it)) 0 = false) as -> by (apply Nat.eqb_neq; lia).
           assert (Nat.ltb k (length (it_data it)) = true) as -> by (apply Nat.ltb_lt; lia). reflexivity.
        -- intros j Hj. cbn [aerr it_data it_err]. rewrite skipn_length.
           assert (Nat.eqb j 0 = false) as -> by (apply Nat.eqb_neq; lia).
           assert (Nat.eqb (k + j) 0 = false) as -> by (apply Nat.eqb_neq; lia).
           assert (Nat.eqb (length (it_data it) - k) 0 = false) as -> by (apply Nat.eqb_neq; lia).
           assert (Nat.eqb (length (it_data it)) 0 = false) as -> by (apply Nat.eqb_neq; lia).
           destruct (Nat.ltb j (length (it_data it) - k)) eqn:E1.
           ++ apply Nat.ltb_lt in E1.
              assert (Nat.ltb (k + j) (length (it_data it)) = true) as -> by (apply Nat.ltb_lt; lia). reflexivity.
           ++ apply Nat.ltb_ge in E1.
              assert (Nat.ltb (k + j) (length (it_data it)) = false) as -> by (apply Nat.ltb_ge; lia).
              destruct (Nat.eqb j (length (it_data it) - k)) eqn:E2.
              ** apply Nat.eqb_eq in E2.
                 assert (Nat.eqb (k + j) (length (it_data it)) = true) as -> by (apply Nat.eqb_eq; lia). reflexivity.
              ** apply Nat.eqb_neq in E2.
                 assert (Nat.eqb (k + j) (length (it_data it)) = false) as -> by (apply Nat.eqb_neq; lia).
                 f_equal. lia.
Qed.

Section Errs.
Variable sc0 : script.

(* the rest of the script lines up with the original one, [c] bytes in *)
Definition aligned (c : nat) (src : script) : Prop :=
  forall j, (0 < j)%nat -> aerr sc0 (c + j) = aerr src j.

(* sniff phase: lastErr is the error that came with the last buffered byte *)
Definition linv (s : sniffer) : Prop :=
  aligned (length (sn_buf s)) (sn_src s) /\
  (sn_buf s <> [] -> sn_lasterr s = aerr sc0 (length (sn_buf s))).

Lemma linv_new : linv (new_sniffer sc0).
Proof. split; [intros j Hj; reflexivity | cbn; congruence]. Qed.

Lemma linv_reset b s : linv s -> linv (reset b s).
Proof. intros H. exact H. Qed.

Lemma linv_read fx n s r s' :
  sn_sniffing s = true -> linv s -> sniffer_read fx n s = (r, s') ->
  linv s' /\ sn_sniffing s' = true.
Proof.
  intros Hsn [Hal Hle] H.
  destruct s as [src buf rd size snf le dir]. proj. subst snf.
  unfold sniffer_read in H; proj.
  destruct (Nat.ltb rd size).
  - destruct (Nat.leb size (length buf)); injection H as _ <-; split; try reflexivity; split; assumption.
  - cbn [negb andb] in H.
    destruct (src_read n src) as [[d e] src'] eqn:ES.
    apply src_read_aerr in ES as [He Hj].
    destruct (Nat.ltb 0 (length d)) eqn:Ed; cbn [andb] in H; injection H as _ <-; (split; [|reflexivity]).
    + apply Nat.ltb_lt in Ed. assert (d <> []) as Hd by (destruct d; [simpl in Ed; lia | congruence]).
      unfold linv; proj. rewrite app_length. split.
      * intros j Hj0. rewrite <- Nat.add_assoc, (Hal (length d + j)%nat) by lia. symmetry. apply Hj. exact Hj0.
      * intros _. rewrite (He Hd). symmetry. apply Hal. exact Ed.
    + apply Nat.ltb_ge in Ed. assert (d = []) as -> by (destruct d; [reflexivity | simpl in Ed; lia]).
      unfold linv; proj. split; [|exact Hle].
      intros j Hj0. rewrite (Hal j Hj0). symmetry. apply (Hj j Hj0).
Qed.

Lemma matcher_reads_linv fx sizes : forall s rs s',
  sn_sniffing s = true -> linv s -> matcher_reads fx sizes s = (rs, s') ->
  linv s' /\ sn_sniffing s' = true.
Proof.
  induction sizes as [|n sizes IH]; intros s rs s' Hsn Hl H; cbn in H.
  - injection H as _ <-. auto.
  - destruct (sniffer_read fx n s) as [r s1] eqn:ER.
    destruct (linv_read _ _ _ _ _ Hsn Hl ER) as [Hl1 Hsn1].
    destruct r.
    + destruct (matcher_reads fx sizes s1) as [rs2 s2] eqn:EM. injection H as _ <-. eapply IH; eauto.
    + injection H as _ <-. auto.
Qed.

Lemma sessions_run_linv fx sessions : forall s ms s',
  linv s -> sessions_run fx sessions s = (ms, s') -> linv s'.
Proof.
  induction sessions as [|sz rest IH]; intros s ms s' Hl H; cbn in H.
  - injection H as _ <-. exact Hl.
  - destruct (matcher_reads fx sz (reset true s)) as [rs s1] eqn:EM.
    destruct (sessions_run fx rest s1) as [rss s2] eqn:ES. injection H as _ <-.
    assert (sn_sniffing (reset true s) = true) as Hsn by reflexivity.
    destruct (matcher_reads_linv _ _ _ _ _ Hsn (linv_reset true _ Hl) EM) as [Hl1 _].
    eapply IH; eauto.
Qed.

(* service phase: while sniffed bytes are withheld, lastErr is the error that
   came with the last of them *)
Definition slinv (s : sniffer) : Prop :=
  pending s <> [] -> sn_lasterr s = aerr sc0 (length (stream sc0) - remaining s).

Lemma slinv_start s : base (stream sc0) s -> linv s -> slinv (reset false s).
Proof.
  intros [Hd Hb] [_ Hle]. unfold slinv, pending, remaining, reset; cbn. rewrite Hd.
  rewrite Nat.sub_0_r, firstn_all. intros Hne. rewrite (Hle Hne). f_equal.
  rewrite <- Hb, app_length. unfold stream. lia.
Qed.

Lemma conn_read_replay n s D d e s' :
  sinv (stream sc0) s D -> conn_read true n s = (ROk d e, s') ->
  (pending s <> [] -> sn_src s' = sn_src s /\ sn_lasterr s' = sn_lasterr s /\
                      (e = 0 \/ (e = sn_lasterr s /\ pending s' = []))) /\
  (pending s = [] -> pending s' = []).
Proof.
  intros (Hsn & Hst & Hfull) H.
  destruct s as [src buf rd size snf le dir]. proj. subst snf.
  unfold conn_read in H; proj. destruct dir.
  - destruct (src_read n src) as [[d0 e0] src']. injection H as _ _ <-.
    unfold pending; proj. split; [congruence | reflexivity].
  - unfold sniffer_read in H; proj. unfold pending in *; proj.
    destruct (Nat.ltb rd size) eqn:E.
    + apply Nat.ltb_lt in E. specialize (Hfull eq_refl E). subst size.
      rewrite Nat.leb_refl in H. injection H as <- <- <-. proj. cbn [andb].
      split.
      * intros _. split; [reflexivity|]. split; [reflexivity|].
        destruct (Nat.ltb (rd + length (firstn n (firstn (length buf - rd) (skipn rd buf)))) (length buf)) eqn:E2.
        -- left; reflexivity.
        -- right. split; [reflexivity|]. apply Nat.ltb_ge in E2.
           replace (length buf - (rd + length (firstn n (firstn (length buf - rd) (skipn rd buf)))))%nat with 0%nat by lia.
           reflexivity.
      * intros Hp. exfalso. apply (f_equal (@length Z)) in Hp.
        rewrite firstn_length, skipn_length in Hp. simpl in Hp. lia.
    + apply Nat.ltb_ge in E. replace (size - rd)%nat with 0%nat in * by lia. cbn [firstn] in *.
      split; [congruence|]. intros _.
      cbv zeta in H. cbn [negb andb] in H.
      destruct (src_read n src) as [[d0 e0] src']. rewrite andb_false_r in H. injection H as _ _ <-. proj.
      replace (size - rd)%nat with 0%nat by lia.
      destruct (if negb (is_nil buf) then true else false); reflexivity.
Qed.

Lemma service_reads_errs_ok sizes : forall s D rs s',
  sinv (stream sc0) s D -> slinv s -> service_reads true sizes s = (rs, s') ->
  ok_errs sc0 (length (stream sc0)) (length D) (length (stream sc0) - remaining s) rs = true.
Proof.
  induction sizes as [|n sizes IH]; intros s D rs s' Hi Hsl H; cbn in H.
  - injection H as <- _. reflexivity.
  - destruct (conn_read true n s) as [r s1] eqn:ER.
    destruct (sinv_read _ _ _ _ _ _ _ Hi ER) as (d & e & -> & Hi1 & _).
    destruct (conn_read_replay _ _ _ _ _ _ Hi ER) as [Hrep Hnil].
    destruct (service_reads true sizes s1) as [rs2 s2] eqn:ES. injection H as <- _.
    pose proof Hi as (_ & Hst & _). pose proof Hi1 as (_ & Hst1 & _).
    assert (length (stream sc0) = (length D + length (pending s) + remaining s)%nat) as L0.
    { rewrite <- Hst at 1. rewrite !app_length. unfold remaining. lia. }
    assert (length (stream sc0) = (length D + length d + length (pending s1) + remaining s1)%nat) as L1.
    { rewrite <- Hst1 at 1. rewrite !app_length. unfold remaining. lia. }
    cbn [ok_errs]. apply andb_true_iff. split.
    + destruct (Nat.ltb (length D) (length (stream sc0) - remaining s)) eqn:Ep; [|reflexivity].
      apply Nat.ltb_lt in Ep.
      assert (pending s <> []) as NE by (intros C; rewrite C in L0; simpl in L0; lia).
      destruct (Hrep NE) as (Hsrc & Hle & [He|[He Hp1]]).
      * rewrite He. reflexivity.
      * apply orb_true_iff. right. apply andb_true_iff. split.
        -- apply Nat.eqb_eq. rewrite Hp1 in L1. simpl in L1. lia.
        -- rewrite He, (Hsl NE). unfold remaining. rewrite Hsrc. apply Z.eqb_refl.
    + rewrite <- app_length. apply (IH s1 (D ++ d) rs2 s2 Hi1); [|exact ES].
      intros NE1.
      assert (pending s = [] \/ pending s <> []) as [Hp|NE]
        by (destruct (pending s); [left; reflexivity | right; discriminate]).
      * rewrite (Hnil Hp) in NE1. congruence.
      * destruct (Hrep NE) as (Hsrc & Hle & _). rewrite Hle, (Hsl NE). unfold remaining. rewrite Hsrc. reflexivity.
Qed.

End Errs.

(* with every error coming without bytes, nothing is attached to any byte *)
Lemma aerr_data_errfree sc : data_errfree sc = true -> forall k, aerr sc k = 0.
Proof.
  induction sc as [|it sc IH]; intros H k; [reflexivity|].
  cbn [data_errfree forallb] in H. apply andb_true_iff in H as [Hit Hs].
  cbn [aerr]. destruct (Nat.eqb k 0); [reflexivity|].
  destruct (Nat.eqb (length (it_data it)) 0) eqn:E0; [apply IH; exact Hs|].
  destruct (Nat.ltb k (length (it_data it))); [reflexivity|].
  destruct (Nat.eqb k (length (it_data it))).
  - apply orb_true_iff in Hit as [Hn|He]; [|apply Z.eqb_eq; exact He].
    destruct (it_data it); [discriminate E0 | discriminate Hn].
  - apply IH; exact Hs.
Qed.

Lemma ok_errs_replayed_zero sc total : (forall k, aerr sc k = 0) -> forall rs dl pc,
  ok_errs sc total dl pc rs = true -> Forall (fun e => e = 0) (replayed_errs total dl pc rs).
Proof.
  intros Hz. induction rs as [|r rs IH]; intros dl pc H; [constructor|].
  destruct r as [d e rem|]; [|constructor]. cbn [ok_errs replayed_errs] in *.
  apply andb_true_iff in H as [H1 H2]. apply Forall_app. split; [|apply IH; exact H2].
  destruct (Nat.ltb dl pc); [|constructor]. constructor; [|constructor].
  apply orb_true_iff in H1 as [H1|H1]; [apply Z.eqb_eq; exact H1|].
  apply andb_true_iff in H1 as [_ H1]. apply Z.eqb_eq in H1. rewrite Hz in H1. exact H1.
Qed.

(* the script only shrinks while sniffing *)
Lemma sniffer_read_len fx n s r s' :
  sniffer_read fx n s = (r, s') -> (length (sn_src s') <= length (sn_src s))%nat.
Proof.
  intros H. unfold sniffer_read in H.
  destruct (Nat.ltb (sn_rd s) (sn_size s)).
  - destruct (Nat.leb _ _); injection H as <- <-; cbn; lia.
  - destruct (src_read n (sn_src s)) as [[d e] src'] eqn:ES.
    apply src_read_spec in ES as (_ & _ & Hl & _).
    destruct (_ && _); injection H as <- <-; cbn; exact Hl.
Qed.

Lemma matcher_reads_len fx sizes : forall s rs s',
  matcher_reads fx sizes s = (rs, s') -> (length (sn_src s') <= length (sn_src s))%nat.
Proof.
  induction sizes as [|n sizes IH]; intros s rs s' H; cbn in H.
  - injection H as <- <-; lia.
  - destruct (sniffer_read fx n s) as [r s1] eqn:ER. apply sniffer_read_len in ER.
    destruct r.
    + destruct (matcher_reads fx sizes s1) as [rs2 s2] eqn:EM. injection H as <- <-. apply IH in EM. lia.
    + injection H as <- <-. exact ER.
Qed.

Lemma sessions_run_len fx sessions : forall s ms s',
  sessions_run fx sessions s = (ms, s') -> (length (sn_src s') <= length (sn_src s))%nat.
Proof.
  induction sessions as [|sz rest IH]; intros s ms s' H; cbn in H.
  - injection H as <- <-; lia.
  - destruct (matcher_reads fx sz (reset true s)) as [rs s1] eqn:EM.
    destruct (sessions_run fx rest s1) as [rss s2] eqn:ES. injection H as <- <-.
    apply matcher_reads_len in EM. apply IH in ES. cbn in EM. lia.
Qed.

(* ---------- theorems *)

(* For every read script of the raw connection (every segmentation of the
   client's writes, errors and deadlines included), every number of sniffing
   sessions with matcher reads of any sizes, and every sequence of service reads
   of any sizes: nothing panics, every matcher saw a prefix of the stream, and
   the bytes returned to the service, followed by what the sniffer still holds
   and what the raw connection still holds, are exactly the original stream —
   each byte once, in order, starting at the first byte. *)
Theorem sniffer_replays_exactly : forall fx sc sessions svc ms rem0 rs s3,
  sniff_run fx sc sessions svc = (ms, rem0, rs, s3) ->
  forallb (fun m => no_rpanic m && is_prefix (session_seen m) (stream sc)) ms = true /\
  length ms = length sessions /\
  forallb (fun r => match r with SPanic => false | _ => true end) rs = true /\
  length rs = length svc /\
  delivered rs ++ pending s3 ++ stream (sn_src s3) = stream sc.
Proof.
  intros fx sc sessions svc ms rem0 rs s3 H. unfold sniff_run in H.
  destruct (sessions_run fx sessions (new_sniffer sc)) as [ms' s1] eqn:E1.
  destruct (service_reads fx svc (reset false s1)) as [rs' s3'] eqn:E2.
  inversion H; subst; clear H.
  destruct (sessions_run_inv (stream sc) fx sessions _ _ _ (base_new _ sc eq_refl) E1) as (Hb & Hl & Hall).
  destruct (service_reads_replay (stream sc) fx svc _ _ _ _ (sinv_start _ _ Hb) E2) as (Hi & Hl2 & Hp).
  destruct Hi as (_ & Hst & _). cbn in Hst. auto.
Qed.

(* complete: a service that keeps reading with non-empty buffers has received
   the whole stream after at most |stream| + |script| reads *)
Theorem service_reads_complete : forall fx sc sessions svc ms rem0 rs s3,
  sniff_run fx sc sessions svc = (ms, rem0, rs, s3) ->
  Forall (fun n => (0 < n)%nat) svc ->
  (length (stream sc) + length sc <= length svc)%nat ->
  delivered rs = stream sc.
Proof.
  intros fx sc sessions svc ms rem0 rs s3 H Hpos Hlen.
  pose proof (sniffer_replays_exactly _ _ _ _ _ _ _ _ H) as (_ & _ & _ & _ & Heq).
  unfold sniff_run in H.
  destruct (sessions_run fx sessions (new_sniffer sc)) as [ms' s1] eqn:E1.
  destruct (service_reads fx svc (reset false s1)) as [rs' s3'] eqn:E2.
  inversion H; subst; clear H.
  destruct (sessions_run_inv (stream sc) fx sessions _ _ _ (base_new _ sc eq_refl) E1) as (Hb & _ & _).
  pose proof (sinv_start _ _ Hb) as Hi.
  assert (todo (reset false s1) <= length (stream sc) + length sc)%nat as Hbound.
  { destruct Hi as (_ & Hst & _). cbn [app] in Hst. apply (f_equal (@length Z)) in Hst.
    rewrite app_length in Hst. unfold todo.
    assert (length (sn_src (reset false s1)) <= length sc)%nat; [|lia].
    apply sessions_run_len in E1. cbn [reset sn_src]. exact E1. }
  destruct (service_reads_drain (stream sc) fx svc _ _ _ _ Hi Hpos E2) as [Hk|[Hp Hs]].
  - (* todo s3 + |svc| <= todo <= |stream| + |script| <= |svc| : todo s3 = 0 *)
    assert (todo s3 = 0)%nat as Hz by lia. unfold todo in Hz.
    assert (pending s3 = []) as Hp by (apply length_zero_iff_nil; lia).
    assert (stream (sn_src s3) = []) as Hs by (apply length_zero_iff_nil; lia).
    rewrite Hp, Hs, !app_nil_r in Heq. exact Heq.
  - rewrite Hp, Hs in Heq. cbn in Heq. rewrite !app_nil_r in Heq. exact Heq.
Qed.

(* the oracle applied to the implementation accepts the (repaired) model *)
Theorem sniff_model_passes : forall sc sessions svc ms rem0 rs s3,
  sniff_run true sc sessions svc = (ms, rem0, rs, s3) ->
  ok_sniff sc sessions svc ms rem0 rs = true.
Proof.
  intros sc sessions svc ms rem0 rs s3 H. unfold sniff_run in H.
  destruct (sessions_run true sessions (new_sniffer sc)) as [ms' s1] eqn:E1.
  destruct (service_reads true svc (reset false s1)) as [rs' s3'] eqn:E2.
  inversion H; subst; clear H.
  destruct (sessions_run_inv (stream sc) true sessions _ _ _ (base_new _ sc eq_refl) E1) as (Hb & Hl & Hall).
  pose proof (sinv_start _ _ Hb) as Hi.
  destruct (service_reads_ok (stream sc) svc _ _ _ _ Hi E2) as (Hok & _).
  unfold ok_sniff, ok_service. rewrite Hl, Nat.eqb_refl, Hall. cbn [andb].
  destruct Hi as (_ & Hst & _). cbn [app] in Hst.
  assert (length (stream sc) = (length (pending (reset false s1)) + remaining (reset false s1))%nat) as L.
  { rewrite <- Hst at 1. rewrite app_length. reflexivity. }
  pose proof (sessions_run_linv sc true sessions _ _ _ (linv_new sc) E1) as Hlv.
  pose proof (service_reads_errs_ok sc svc _ _ _ _ (sinv_start _ _ Hb) (slinv_start sc _ Hb Hlv) E2) as Herr.
  cbn [length] in Hok, Herr. rewrite Hok, Herr, !andb_true_r. apply Nat.leb_le; lia.
Qed.

(* errors consumed while sniffing that came with no bytes — a sniff deadline
   that fired and was followed by more data, an EOF — are not replayed: every
   read of the service that is answered from the replay buffer reports no error *)
Theorem sniff_timeout_not_replayed : forall sc sessions svc ms rem0 rs s3,
  sniff_run true sc sessions svc = (ms, rem0, rs, s3) ->
  data_errfree sc = true ->
  Forall (fun e => e = 0) (replayed_errs (length (stream sc)) 0 (length (stream sc) - rem0) rs).
Proof.
  intros sc sessions svc ms rem0 rs s3 H Hd.
  pose proof (sniff_model_passes _ _ _ _ _ _ _ H) as Hok.
  unfold ok_sniff, ok_service in Hok.
  apply andb_true_iff in Hok as [_ Hok]. apply andb_true_iff in Hok as [_ Hok].
  eapply ok_errs_replayed_zero; [apply aerr_data_errfree; exact Hd | exact Hok].
Qed.

(* … while a terminal condition is still reported: once everything has been
   delivered and the script is exhausted, the next read returns (0, EOF) *)
Theorem terminal_eof_after_last_byte : forall fx sc sessions svc ms rem0 rs s3 n,
  sniff_run fx sc sessions svc = (ms, rem0, rs, s3) ->
  Forall (fun n => (0 < n)%nat) svc ->
  (length (stream sc) + length sc <= length svc)%nat ->
  fst (conn_read fx (S n) s3) = ROk [] EOF.
Proof.
  intros fx sc sessions svc ms rem0 rs s3 n H Hpos Hlen.
  unfold sniff_run in H.
  destruct (sessions_run fx sessions (new_sniffer sc)) as [ms' s1] eqn:E1.
  destruct (service_reads fx svc (reset false s1)) as [rs' s3'] eqn:E2.
  injection H as _ _ _ <-.
  destruct (sessions_run_inv (stream sc) fx sessions _ _ _ (base_new _ sc eq_refl) E1) as (Hb & _ & _).
  pose proof (sinv_start _ _ Hb) as Hi.
  pose proof (sessions_run_len _ _ _ _ _ E1) as Hl1. cbn [new_sniffer sn_src] in Hl1.
  assert (todo (reset false s1) <= length (stream sc) + length sc)%nat as Hbound.
  { destruct Hi as (_ & Hst & _). cbn [app] in Hst. apply (f_equal (@length Z)) in Hst.
    rewrite app_length in Hst. unfold todo. cbn [reset sn_src] in *. lia. }
  destruct (service_reads_replay (stream sc) fx svc _ _ _ _ Hi E2) as (Hi3 & _ & _).
  assert (pending s3' = [] /\ sn_src s3' = []) as [Hp Hs].
  { destruct (service_reads_drain (stream sc) fx svc _ _ _ _ Hi Hpos E2) as [Hk|Hd]; [|exact Hd].
    assert (todo s3' = 0)%nat as Hz by lia. unfold todo in Hz.
    split; apply length_zero_iff_nil; lia. }
  destruct Hi3 as (Hsn & _ & Hfull).
  destruct s3' as [src buf rd size snf le dir]. proj. subst src snf.
  unfold conn_read; proj. destruct dir; [reflexivity|].
  unfold sniffer_read; proj. unfold pending in Hp; proj.
  destruct (Nat.ltb rd size) eqn:E.
  - exfalso. apply Nat.ltb_lt in E. specialize (Hfull eq_refl E). subst size.
    apply (f_equal (@length Z)) in Hp. rewrite firstn_length, skipn_length in Hp. simpl in Hp. lia.
  - cbn. destruct (is_nil buf); reflexivity.
Qed.

(* the original code: an error attached to the last sniffed read is returned
   with every partial read of the replay buffer — a service reading "PO" then
   stopping at EOF loses "ST *x\r\n" *)
Example lasterr_prefix_refuted :
  let sc := [{| it_data := [80;79;83;84;32;42;120;13;10]; it_err := EOF |}] in
  let '(ms, rem0, rs, _) := sniff_run false sc [[16%nat]; [8%nat]] [2%nat; 31%nat] in
  rs = [SOk [80;79] EOF 0; SOk [83;84;32;42;120;13;10] EOF 0] /\
  ok_sniff sc [[16%nat]; [8%nat]] [2%nat; 31%nat] ms rem0 rs = false.
Proof. vm_compute. split; reflexivity. Qed.
