(* C15 — emulation prevention: the Go removal undoes the standard's insertion. *)
From Coq Require Import ZArith List Bool Lia ZifyBool.
From V Require Import C15Ebsp.
Import ListNotations.
Open Scope Z_scope.

Lemma remove03_nz : forall a t, a <> 0 -> remove03 (a :: t) = a :: remove03 t.
Proof.
  intros a t H. destruct t as [|b [|c t3]]; cbn [remove03]; auto.
  replace (a =? 0) with false by lia. reflexivity.
Qed.

Lemma remove03_0nz : forall b t, b <> 0 -> remove03 (0 :: b :: t) = 0 :: remove03 (b :: t).
Proof.
  intros b t H. destruct t as [|c t3]; cbn [remove03]; auto.
  replace (b =? 0) with false by lia. cbn [andb Z.eqb]. reflexivity.
Qed.

Lemma remove03_00x : forall c t, c <> 3 ->
  remove03 (0 :: 0 :: c :: t) = 0 :: remove03 (0 :: c :: t).
Proof.
  intros c t H. cbn [remove03]. replace (c =? 3) with false by lia. reflexivity.
Qed.

Lemma esc_nz : forall zc b s, b <> 0 -> (zc <> 2 \/ 3 < b) ->
  escape_from zc (b :: s) = b :: escape_from 0 s.
Proof.
  intros zc b s H1 H2. cbn [escape_from].
  replace ((zc =? 2) && (b <=? 3)) with false by lia.
  replace (b =? 0) with false by lia. reflexivity.
Qed.

Lemma esc_2_small : forall b s, b <> 0 -> b <= 3 ->
  escape_from 2 (b :: s) = 3 :: b :: escape_from 0 s.
Proof.
  intros b s H1 H2. cbn [escape_from].
  replace ((2 =? 2) && (b <=? 3)) with true by lia.
  replace (b =? 0) with false by lia. reflexivity.
Qed.

Lemma remove03_escape : forall s,
  remove03 (escape_from 0 s) = s /\
  remove03 (0 :: escape_from 1 s) = 0 :: s /\
  remove03 (0 :: 0 :: escape_from 2 s) = 0 :: 0 :: s.
Proof.
  induction s as [|b s [IH0 [IH1 IH2]]].
  - cbn. auto.
  - destruct (Z.eq_dec b 0) as [->|Hb].
    + change (escape_from 0 (0 :: s)) with (0 :: escape_from 1 s).
      change (escape_from 1 (0 :: s)) with (0 :: escape_from 2 s).
      change (escape_from 2 (0 :: s)) with (3 :: 0 :: escape_from 1 s).
      repeat split.
      * exact IH1.
      * exact IH2.
      * change (remove03 (0 :: 0 :: 3 :: 0 :: escape_from 1 s)) with (0 :: 0 :: remove03 (0 :: escape_from 1 s)).
        rewrite IH1. reflexivity.
    + repeat split.
      * rewrite esc_nz by lia. rewrite remove03_nz by auto. rewrite IH0. reflexivity.
      * rewrite esc_nz by lia. rewrite remove03_0nz by auto. rewrite remove03_nz by auto.
        rewrite IH0. reflexivity.
      * destruct (Z_le_gt_dec b 3).
        -- rewrite esc_2_small by lia.
           change (remove03 (0 :: 0 :: 3 :: b :: escape_from 0 s)) with (0 :: 0 :: remove03 (b :: escape_from 0 s)).
           rewrite remove03_nz by auto. rewrite IH0. reflexivity.
        -- rewrite esc_nz by lia. rewrite remove03_00x by lia. rewrite remove03_0nz by auto.
           rewrite remove03_nz by auto. rewrite IH0. reflexivity.
Qed.

(* a NAL unit starts with its (non-zero) header byte, so no start code is stripped *)
Theorem ebsp_roundtrip : forall b s, b <> 0 -> unescape_go (escape (b :: s)) = b :: s.
Proof.
  intros b s H. unfold unescape_go, escape.
  assert (E : escape_from 0 (b :: s) = b :: escape_from 0 s) by (apply esc_nz; lia).
  assert (R : remove_separator (b :: escape_from 0 s) = b :: escape_from 0 s).
  { unfold remove_separator. destruct b; try lia; reflexivity. }
  rewrite E, R, <- E. apply remove03_escape.
Qed.

Theorem remove03_escape_all : forall s, remove03 (escape s) = s.
Proof. intros. apply remove03_escape. Qed.
