(* C05: proofs about Model/Registry.v.
   1. the implementation model (registry map with delete/store, close removing the stream from the
      map) answers exactly like the specification (last registered stream per key, filtered by
      liveness) on every well-formed history;
   2. the oracle accepts the model;
   3. readable consequences of the specification;
   4. the pre-repair behaviours (D5, D7) refuted;
   5. the registration race of two publishers (D6): all schedules for Swap+retire, witness schedule
      for Load/Store. *)
From Coq Require Import ZArith List Bool Lia Arith.
From V Require Import Bytes StrGo Registry BytesLemmas CanonProofs.
Import ListNotations.
Open Scope Z_scope.

(* ------------------------------------------------------------------ *)
(* lists *)

Lemma lset_length {A} (l : list A) i v : length (lset l i v) = length l.
Proof. revert i; induction l as [|x l IH]; intros [|i]; simpl; auto. Qed.

Lemma nth_lset {A} (l : list A) i k v d :
  nth k (lset l i v) d = if (Nat.eqb k i && (i <? length l)%nat)%bool then v else nth k l d.
Proof.
  revert i k; induction l as [|x l IH]; intros [|i] [|k]; simpl; auto.
  - rewrite andb_false_r. reflexivity.
  - rewrite IH. reflexivity.
Qed.

Lemma nth_snoc {A} (l : list A) x j d :
  nth j (l ++ [x]) d = if (j <? length l)%nat then nth j l d else if Nat.eqb j (length l) then x else d.
Proof.
  destruct (j <? length l)%nat eqn:E.
  - apply Nat.ltb_lt in E. apply app_nth1; exact E.
  - apply Nat.ltb_ge in E. rewrite app_nth2 by exact E.
    destruct (Nat.eqb j (length l)) eqn:E2.
    + apply Nat.eqb_eq in E2. subst. rewrite Nat.sub_diag. reflexivity.
    + apply Nat.eqb_neq in E2. destruct (j - length l)%nat as [|[|n]] eqn:E3; simpl; auto. lia.
Qed.

Lemma filter_comm {A} (f g : A -> bool) l : filter f (filter g l) = filter g (filter f l).
Proof.
  induction l as [|x l IH]; simpl; auto.
  destruct (g x) eqn:G, (f x) eqn:F; simpl; rewrite ?G, ?F, ?IH; reflexivity.
Qed.

Lemma filter_andb {A} (f g : A -> bool) l : filter (fun x => f x && g x) l = filter g (filter f l).
Proof.
  induction l as [|x l IH]; simpl; auto.
  destruct (f x) eqn:F; simpl; [destruct (g x); rewrite IH; reflexivity | exact IH].
Qed.

Lemma filter_id_in {A} (f : A -> bool) l : (forall x, In x l -> f x = true) -> filter f l = l.
Proof.
  induction l as [|x l IH]; simpl; intros H; auto.
  rewrite (H x) by auto. f_equal. apply IH. intros; apply H; auto.
Qed.

Lemma NoDup_map_filter {A B} (h : A -> B) (f : A -> bool) l :
  NoDup (map h l) -> NoDup (map h (filter f l)).
Proof.
  induction l as [|x l IH]; simpl; intros H; auto.
  inversion H as [|? ? Hn Hd]; subst.
  destruct (f x); simpl; auto. constructor; auto.
  intros Hin. apply Hn. apply in_map_iff in Hin as [y [E Hy]].
  apply filter_In in Hy as [Hy _]. apply in_map_iff. exists y; auto.
Qed.

(* ------------------------------------------------------------------ *)
(* the association list *)

Lemma mlookup_notin m k : ~ In k (map fst m) -> mlookup m k = None.
Proof.
  induction m as [|[k' v] m IH]; simpl; intros H; auto.
  destruct (bytes_eqb k' k) eqn:E.
  - apply bytes_eqb_eq in E. exfalso; apply H; auto.
  - apply IH. intros Hin; apply H; auto.
Qed.

Lemma mlookup_in m k i : mlookup m k = Some i -> In (k, i) m.
Proof.
  induction m as [|[k' v] m IH]; simpl; intros H; [discriminate|].
  destruct (bytes_eqb k' k) eqn:E.
  - apply bytes_eqb_eq in E. inversion H; subst; auto.
  - right; auto.
Qed.

Lemma in_mlookup m k i : NoDup (map fst m) -> In (k, i) m -> mlookup m k = Some i.
Proof.
  induction m as [|[k' v] m IH]; simpl; intros Hn Hin; [contradiction|].
  inversion Hn as [|? ? Hni Hnd]; subst.
  destruct Hin as [E|Hin].
  - inversion E; subst. rewrite bytes_eqb_refl. reflexivity.
  - destruct (bytes_eqb k' k) eqn:E.
    + apply bytes_eqb_eq in E; subst. exfalso. apply Hni.
      apply in_map_iff. exists (k, i); auto.
    + auto.
Qed.

Lemma mdelete_keys m k : ~ In k (map fst (mdelete m k)).
Proof.
  unfold mdelete. intros H. apply in_map_iff in H as [[k' v] [E H]]. simpl in E; subst k'.
  apply filter_In in H as [_ H]. simpl in H. rewrite bytes_eqb_refl in H. discriminate.
Qed.

Lemma mlookup_mdelete_same m k : mlookup (mdelete m k) k = None.
Proof. apply mlookup_notin, mdelete_keys. Qed.

Lemma mlookup_mdelete_other m k k' : k <> k' -> mlookup (mdelete m k) k' = mlookup m k'.
Proof.
  intros Hne. induction m as [|[k0 v] m IH]; simpl; auto.
  destruct (bytes_eqb k0 k) eqn:E; simpl.
  - apply bytes_eqb_eq in E; subst k0.
    apply bytes_eqb_neq in Hne. rewrite Hne. exact IH.
  - destruct (bytes_eqb k0 k'); auto.
Qed.

Lemma mlookup_app m1 m2 k :
  mlookup (m1 ++ m2) k = match mlookup m1 k with Some v => Some v | None => mlookup m2 k end.
Proof.
  induction m1 as [|[k0 v] m1 IH]; simpl; auto. destruct (bytes_eqb k0 k); auto.
Qed.

Lemma mlookup_mstore_same m k v : mlookup (mstore m k v) k = Some v.
Proof.
  unfold mstore. rewrite mlookup_app, mlookup_mdelete_same. simpl. rewrite bytes_eqb_refl. reflexivity.
Qed.

Lemma mlookup_mstore_other m k v k' : k <> k' -> mlookup (mstore m k v) k' = mlookup m k'.
Proof.
  intros Hne. unfold mstore. rewrite mlookup_app, mlookup_mdelete_other by exact Hne. simpl.
  apply bytes_eqb_neq in Hne. rewrite Hne. destruct (mlookup m k'); reflexivity.
Qed.

Lemma mlookup_filter (f : bytes * nat -> bool) m k :
  NoDup (map fst m) ->
  mlookup (filter f m) k =
  match mlookup m k with Some i => if f (k, i) then Some i else None | None => None end.
Proof.
  induction m as [|[k0 v] m IH]; simpl; intros Hn; auto.
  inversion Hn as [|? ? Hni Hnd]; subst.
  destruct (bytes_eqb k0 k) eqn:E.
  - apply bytes_eqb_eq in E; subst k0.
    destruct (f (k, v)) eqn:F; simpl.
    + rewrite bytes_eqb_refl. reflexivity.
    + apply mlookup_notin. intros Hin. apply Hni.
      apply in_map_iff in Hin as [y [Ey Hy]]. apply filter_In in Hy as [Hy _].
      apply in_map_iff. exists y; auto.
  - destruct (f (k0, v)); simpl; [rewrite E|]; auto.
Qed.

Lemma NoDup_keys_mstore m k v : NoDup (map fst m) -> NoDup (map fst (mstore m k v)).
Proof.
  intros Hn. unfold mstore. rewrite map_app. simpl.
  apply NoDup_app_iff_local.
  - unfold mdelete. apply NoDup_map_filter. exact Hn.
  - apply mdelete_keys.
Qed.

Lemma in_mstore m k v e : In e (mstore m k v) -> e = (k, v) \/ (In e m /\ fst e <> k).
Proof.
  unfold mstore, mdelete. intros H. apply in_app_iff in H as [H|[H|[]]]; auto.
  apply filter_In in H as [H1 H2]. right. split; auto.
  apply negb_true_iff in H2. apply bytes_eqb_neq in H2. exact H2.
Qed.

(* ------------------------------------------------------------------ *)
(* specification state: basic facts *)

Definition dead_of (s : strm) : strm :=
  {| st_path := st_path s; st_live := false; st_rtp := 0; st_flv := 0; st_retire := false; st_hls := st_hls s;
     st_att_total := st_att_total s; st_det_total := st_det_total s;
     st_hls_idle := st_hls_idle s; st_segs := st_segs s |}.

Lemma sp_kill_eq sp i :
  sp_kill sp i = if negb (st_live (sp_get sp i)) then sp else sp_set sp i (dead_of (sp_get sp i)).
Proof. reflexivity. Qed.

Lemma sp_get_set sp i v j :
  sp_get (sp_set sp i v) j =
  if (Nat.eqb j i && (i <? length (sp_streams sp))%nat)%bool then v else sp_get sp j.
Proof. unfold sp_get, sp_set; simpl. apply nth_lset. Qed.

Lemma live_lt sp i : st_live (sp_get sp i) = true -> (i < length (sp_streams sp))%nat.
Proof.
  unfold sp_get. intros H. destruct (Nat.lt_ge_cases i (length (sp_streams sp))) as [L|L]; auto.
  rewrite nth_overflow in H by exact L. discriminate.
Qed.

Lemma length_kill sp i : length (sp_streams (sp_kill sp i)) = length (sp_streams sp).
Proof. rewrite sp_kill_eq. destruct (negb _); simpl; auto. apply lset_length. Qed.

Lemma last_kill sp i : sp_last (sp_kill sp i) = sp_last sp.
Proof. rewrite sp_kill_eq. destruct (negb _); reflexivity. Qed.

Lemma live_kill sp i j :
  st_live (sp_get (sp_kill sp i) j) = st_live (sp_get sp j) && negb (Nat.eqb j i).
Proof.
  rewrite sp_kill_eq. destruct (st_live (sp_get sp i)) eqn:L; simpl.
  - rewrite sp_get_set. destruct (Nat.eqb j i) eqn:E; simpl.
    + apply live_lt in L. apply Nat.ltb_lt in L. rewrite L. simpl. rewrite andb_false_r. reflexivity.
    + rewrite andb_true_r. reflexivity.
  - destruct (Nat.eqb j i) eqn:E; simpl.
    + apply Nat.eqb_eq in E; subst. rewrite L. reflexivity.
    + rewrite andb_true_r. reflexivity.
Qed.

Lemma path_kill sp i j : st_path (sp_get (sp_kill sp i) j) = st_path (sp_get sp j).
Proof.
  rewrite sp_kill_eq. destruct (negb _); auto. rewrite sp_get_set.
  destruct (Nat.eqb j i && _)%bool eqn:E; auto.
  apply andb_true_iff in E as [E _]. apply Nat.eqb_eq in E; subst. reflexivity.
Qed.

Lemma other_kill sp i j : j <> i -> sp_get (sp_kill sp i) j = sp_get sp j.
Proof.
  intros Hne. rewrite sp_kill_eq. destruct (negb _); auto. rewrite sp_get_set.
  apply Nat.eqb_neq in Hne. rewrite Hne. reflexivity.
Qed.

(* ------------------------------------------------------------------ *)
(* the simulation: the implementation state is a function of the specification state *)

Definition absg (sp : sstate) : rstate :=
  {| g_map := filter (sp_live sp) (sp_last sp); g_streams := sp_streams sp |}.

(* keys of [sp_last] are unique and each entry's stream exists and has the key as its path *)
Definition keys_ok (sp : sstate) : Prop :=
  NoDup (map fst (sp_last sp)) /\
  forall k i, In (k, i) (sp_last sp) -> (i < length (sp_streams sp))%nat /\ st_path (sp_get sp i) = k.

Lemma absg_init : absg sinit = rinit.
Proof. reflexivity. Qed.

Lemma keys_ok_init : keys_ok sinit.
Proof. split; simpl; [constructor | intros ? ? []]. Qed.

Lemma mlookup_absg sp k : keys_ok sp -> mlookup (g_map (absg sp)) k = sp_resolve sp k.
Proof.
  intros [Hn _]. unfold absg, sp_resolve; simpl. rewrite mlookup_filter by exact Hn. reflexivity.
Qed.

Lemma keys_ok_set sp i v :
  keys_ok sp -> st_path v = st_path (sp_get sp i) -> keys_ok (sp_set sp i v).
Proof.
  intros [Hn Hk] Hp. split; [exact Hn|]. simpl. intros k j Hin.
  destruct (Hk k j Hin) as [H1 H2]. rewrite lset_length. split; auto.
  rewrite sp_get_set. destruct (Nat.eqb j i && _)%bool eqn:E; auto.
  apply andb_true_iff in E as [E _]. apply Nat.eqb_eq in E; subst. congruence.
Qed.

Lemma keys_ok_kill sp i : keys_ok sp -> keys_ok (sp_kill sp i).
Proof.
  intros H. rewrite sp_kill_eq. destruct (negb _); auto. apply keys_ok_set; auto.
Qed.

Lemma keys_ok_mstore sp i :
  keys_ok sp -> (i < length (sp_streams sp))%nat ->
  keys_ok {| sp_last := mstore (sp_last sp) (st_path (sp_get sp i)) i; sp_streams := sp_streams sp |}.
Proof.
  intros [Hn Hk] Hi. split; simpl.
  - apply NoDup_keys_mstore; exact Hn.
  - intros k j Hin. apply in_mstore in Hin as [E|[Hin _]].
    + inversion E; subst. split; auto.
    + apply Hk; exact Hin.
Qed.

Lemma keys_ok_new sp s :
  keys_ok sp -> keys_ok {| sp_last := sp_last sp; sp_streams := sp_streams sp ++ [s] |}.
Proof.
  intros [Hn Hk]. split; [exact Hn|]. simpl. intros k j Hin.
  destruct (Hk k j Hin) as [H1 H2]. rewrite app_length; simpl. split; [lia|].
  unfold sp_get in *; simpl. rewrite nth_snoc. apply Nat.ltb_lt in H1. rewrite H1. exact H2.
Qed.

(* updating a stream without changing its liveness leaves the registry unchanged *)
Lemma absg_set sp i v :
  st_live v = st_live (sp_get sp i) -> sset (absg sp) i v = absg (sp_set sp i v).
Proof.
  intros Hl. unfold sset, absg; simpl. f_equal.
  apply filter_ext. intros e. unfold sp_live. rewrite sp_get_set.
  destruct (Nat.eqb (snd e) i && _)%bool eqn:E; auto.
  apply andb_true_iff in E as [E _]. apply Nat.eqb_eq in E. rewrite E. symmetry; exact Hl.
Qed.

(* a new stream does not change the liveness of registered ones *)
Lemma absg_new sp s :
  keys_ok sp ->
  absg {| sp_last := sp_last sp; sp_streams := sp_streams sp ++ [s] |} =
  {| g_map := g_map (absg sp); g_streams := sp_streams sp ++ [s] |}.
Proof.
  intros [_ Hk]. unfold absg; simpl. f_equal.
  apply filter_ext_in. intros [k i] Hin. destruct (Hk k i Hin) as [H1 _].
  unfold sp_live, sp_get; simpl. rewrite nth_snoc. apply Nat.ltb_lt in H1. rewrite H1. reflexivity.
Qed.

Lemma absg_mstore sp k i :
  st_live (sp_get sp i) = true ->
  absg {| sp_last := mstore (sp_last sp) k i; sp_streams := sp_streams sp |} =
  {| g_map := mstore (g_map (absg sp)) k i; g_streams := sp_streams sp |}.
Proof.
  intros Hl. unfold absg; simpl. f_equal. unfold mstore.
  rewrite filter_app. simpl.
  change (sp_live {| sp_last := mdelete (sp_last sp) k ++ [(k, i)]; sp_streams := sp_streams sp |})
    with (sp_live sp).
  replace (sp_live sp (k, i)) with true by (symmetry; exact Hl).
  f_equal. unfold mdelete. apply filter_comm.
Qed.

(* killing the stream registered under its path removes exactly its entry *)
Lemma kill_filter_in sp i v :
  keys_ok sp -> st_live (sp_get sp i) = true -> st_live v = false ->
  mlookup (sp_last sp) (st_path (sp_get sp i)) = Some i ->
  filter (sp_live (sp_set sp i v)) (sp_last sp) =
  mdelete (filter (sp_live sp) (sp_last sp)) (st_path (sp_get sp i)).
Proof.
  intros [Hn Hk] Hl Hv Hm.
  assert (Hlt := live_lt _ _ Hl). apply Nat.ltb_lt in Hlt.
  transitivity (filter (fun e => sp_live sp e && negb (Nat.eqb (snd e) i)) (sp_last sp)).
  - apply filter_ext. intros e. unfold sp_live. rewrite sp_get_set, Hlt, andb_true_r.
    destruct (Nat.eqb (snd e) i); simpl; [rewrite andb_false_r; exact Hv | rewrite andb_true_r; reflexivity].
  - rewrite filter_andb. unfold mdelete.
    rewrite (filter_comm (fun e => negb (Nat.eqb (snd e) i)) (sp_live sp)).
    rewrite (filter_comm (fun e => negb (bytes_eqb (fst e) (st_path (sp_get sp i)))) (sp_live sp)).
    f_equal.
    apply filter_ext_in. intros [k j] Hin. simpl. f_equal.
    destruct (Nat.eqb j i) eqn:E.
    + apply Nat.eqb_eq in E; subst j. destruct (Hk k i Hin) as [_ Hp]. rewrite Hp.
      symmetry. apply bytes_eqb_refl.
    + symmetry. apply bytes_eqb_neq. intros Ek. subst k.
      apply (in_mlookup _ _ _ Hn) in Hin. rewrite Hm in Hin. inversion Hin; subst.
      rewrite Nat.eqb_refl in E. discriminate.
Qed.

(* killing a stream that is not the one registered under its path changes nothing in the registry *)
Lemma kill_filter_out sp i v :
  keys_ok sp -> st_live (sp_get sp i) = true ->
  mlookup (sp_last sp) (st_path (sp_get sp i)) <> Some i ->
  filter (sp_live (sp_set sp i v)) (sp_last sp) = filter (sp_live sp) (sp_last sp).
Proof.
  intros [Hn Hk] Hl Hm.
  apply filter_ext_in. intros [k j] Hin. unfold sp_live. simpl. rewrite sp_get_set.
  destruct (Nat.eqb j i) eqn:E; simpl; auto.
  apply Nat.eqb_eq in E; subst j. exfalso. apply Hm.
  destruct (Hk k i Hin) as [_ Hp]. rewrite Hp. apply in_mlookup; auto.
Qed.

(* Stream.close on the implementation = kill in the specification *)
Lemma close_is_kill sp i : keys_ok sp -> close_stream rfixed (absg sp) i = absg (sp_kill sp i).
Proof.
  intros Hok. unfold close_stream. rewrite sp_kill_eq.
  change (sget (absg sp) i) with (sp_get sp i).
  destruct (st_live (sp_get sp i)) eqn:Hl; simpl negb; cbv iota; [|reflexivity].
  change (v_unmap rfixed) with true. cbv iota.
  fold (dead_of (sp_get sp i)).
  change (g_map (sset (absg sp) i (dead_of (sp_get sp i)))) with (g_map (absg sp)).
  rewrite mlookup_absg by exact Hok. unfold sp_resolve.
  destruct (mlookup (sp_last sp) (st_path (sp_get sp i))) as [j|] eqn:Hm.
  - destruct (Nat.eq_dec i j) as [E|E].
    + subst j. rewrite Hl, Nat.eqb_refl. unfold absg; simpl. f_equal.
      symmetry. apply kill_filter_in; auto.
    + assert (Hout : filter (sp_live (sp_set sp i (dead_of (sp_get sp i)))) (sp_last sp) =
                     filter (sp_live sp) (sp_last sp)).
      { apply kill_filter_out; auto. rewrite Hm. intros X; inversion X; congruence. }
      apply Nat.eqb_neq in E.
      destruct (st_live (sp_get sp j)); [rewrite E|]; unfold sset, absg; simpl; f_equal; auto.
  - unfold sset, absg; simpl; f_equal. symmetry. apply kill_filter_out; auto.
    rewrite Hm. discriminate.
Qed.

Lemma close_after_delete g i :
  st_live (sget g i) = true -> mlookup (g_map g) (st_path (sget g i)) = Some i ->
  close_stream rfixed {| g_map := mdelete (g_map g) (st_path (sget g i)); g_streams := g_streams g |} i =
  close_stream rfixed g i.
Proof.
  intros Hl Hm. unfold close_stream.
  change (sget {| g_map := mdelete (g_map g) (st_path (sget g i)); g_streams := g_streams g |} i)
    with (sget g i).
  rewrite Hl. simpl. rewrite mlookup_mdelete_same, Hm, Nat.eqb_refl. reflexivity.
Qed.

(* ------------------------------------------------------------------ *)
(* UnregistAll: killing a list of registry entries *)

Definition kill_list (sp : sstate) (l : list (bytes * nat)) : sstate :=
  fold_left (fun g e => sp_kill g (snd e)) l sp.

Lemma kill_list_cons sp e l : kill_list sp (e :: l) = kill_list (sp_kill sp (snd e)) l.
Proof. reflexivity. Qed.

Lemma keys_ok_kill_list l : forall sp, keys_ok sp -> keys_ok (kill_list sp l).
Proof.
  induction l as [|e l IH]; intros sp H; simpl; auto. apply IH, keys_ok_kill, H.
Qed.

Lemma last_kill_list l : forall sp, sp_last (kill_list sp l) = sp_last sp.
Proof.
  induction l as [|e l IH]; intros sp; simpl; auto. rewrite IH. apply last_kill.
Qed.

Lemma length_kill_list l : forall sp, length (sp_streams (kill_list sp l)) = length (sp_streams sp).
Proof.
  induction l as [|e l IH]; intros sp; simpl; auto. rewrite IH. apply length_kill.
Qed.

Lemma live_kill_list l : forall sp j,
  st_live (sp_get (kill_list sp l) j) =
  st_live (sp_get sp j) && negb (existsb (fun e => Nat.eqb j (snd e)) l).
Proof.
  induction l as [|e l IH]; intros sp j; simpl.
  - rewrite andb_true_r. reflexivity.
  - rewrite IH, live_kill, negb_orb, andb_assoc. reflexivity.
Qed.

Lemma other_kill_list l : forall sp j,
  (forall e, In e l -> snd e <> j) -> sp_get (kill_list sp l) j = sp_get sp j.
Proof.
  induction l as [|e l IH]; intros sp j H; simpl; auto.
  rewrite IH by (intros; apply H; right; auto).
  apply other_kill. intros E. apply (H e); auto. left; reflexivity.
Qed.

(* one iteration of UnregistAll on an entry of the registry *)
Lemma unregist_entry sp k i :
  keys_ok sp -> In (k, i) (g_map (absg sp)) ->
  close_stream rfixed {| g_map := mdelete (g_map (absg sp)) k; g_streams := g_streams (absg sp) |} i =
  absg (sp_kill sp i).
Proof.
  intros Hok Hin. pose proof Hok as [Hn Hk].
  unfold absg in Hin; simpl in Hin. apply filter_In in Hin as [Hin Hl]. unfold sp_live in Hl; simpl in Hl.
  destruct (Hk k i Hin) as [_ Hp].
  rewrite <- close_is_kill by exact Hok.
  rewrite <- Hp. change (sp_get sp i) with (sget (absg sp) i).
  apply close_after_delete.
  - exact Hl.
  - rewrite mlookup_absg by exact Hok. unfold sp_resolve.
    change (sget (absg sp) i) with (sp_get sp i). rewrite Hp.
    rewrite (in_mlookup _ _ _ Hn Hin), Hl. reflexivity.
Qed.

Lemma unregist_all_fold l : forall sp,
  keys_ok sp -> NoDup (map fst l) -> (forall e, In e l -> In e (g_map (absg sp))) ->
  fold_left (fun g' e => close_stream rfixed {| g_map := mdelete (g_map g') (fst e); g_streams := g_streams g' |} (snd e))
            l (absg sp) = absg (kill_list sp l).
Proof.
  induction l as [|[k i] l IH]; intros sp Hok Hnd Hin; [reflexivity|].
  simpl fold_left. cbv beta. rewrite kill_list_cons. simpl fst; simpl snd.
  change {| g_map := mdelete (filter (sp_live sp) (sp_last sp)) k; g_streams := sp_streams sp |}
    with {| g_map := mdelete (g_map (absg sp)) k; g_streams := g_streams (absg sp) |}.
  rewrite unregist_entry by (auto; apply Hin; left; reflexivity).
  inversion Hnd as [|? ? Hni Hnd']; subst.
  apply IH; [apply keys_ok_kill; exact Hok | exact Hnd' |].
  intros [k' i'] He. assert (H0 := Hin _ (or_intror He)).
  unfold absg in *; simpl in *. apply filter_In in H0 as [H1 H2]. apply filter_In.
  rewrite last_kill. split; [exact H1|].
  unfold sp_live in *; simpl in *. rewrite live_kill, H2. simpl.
  apply negb_true_iff, Nat.eqb_neq. intros E. subst i'.
  destruct Hok as [_ Hk]. destruct (Hk k' i H1) as [_ Hp1].
  assert (H3 := Hin _ (or_introl eq_refl)). apply filter_In in H3 as [H3 _].
  destruct (Hk k i H3) as [_ Hp2].
  apply Hni. apply in_map_iff. exists (k', i). split; [simpl; congruence | exact He].
Qed.

Lemma unregist_all_refines sp :
  keys_ok sp ->
  fst (gstep rfixed (absg sp) GUnregistAll) = absg (fst (sstep sp GUnregistAll)).
Proof.
  intros Hok. simpl. apply (unregist_all_fold (filter (sp_live sp) (sp_last sp)) sp Hok).
  - apply NoDup_map_filter. apply Hok.
  - auto.
Qed.

(* ------------------------------------------------------------------ *)
(* the clock: every playlist ages *)

Definition aged (sp : sstate) (d : Z) : sstate :=
  {| sp_last := sp_last sp; sp_streams := map (age_strm d) (sp_streams sp) |}.

Lemma sp_get_aged sp d i :
  (sp_get (aged sp d) i = age_strm d (sp_get sp i)) \/
  (sp_get (aged sp d) i = strm0 /\ sp_get sp i = strm0).
Proof.
  unfold sp_get, aged; simpl. destruct (Nat.lt_ge_cases i (length (sp_streams sp))) as [L|L].
  - left. rewrite (nth_indep _ strm0 (age_strm d strm0)) by (rewrite map_length; exact L). apply map_nth.
  - right. split; apply nth_overflow; [rewrite map_length|]; exact L.
Qed.

Lemma live_aged sp d i : st_live (sp_get (aged sp d) i) = st_live (sp_get sp i).
Proof. destruct (sp_get_aged sp d i) as [H|[H1 H2]]; [rewrite H | rewrite H1, H2]; reflexivity. Qed.

Lemma path_aged sp d i : st_path (sp_get (aged sp d) i) = st_path (sp_get sp i).
Proof. destruct (sp_get_aged sp d i) as [H|[H1 H2]]; [rewrite H | rewrite H1, H2]; reflexivity. Qed.

Lemma keys_ok_aged sp d : keys_ok sp -> keys_ok (aged sp d).
Proof.
  intros [Hn Hk]. split; [exact Hn|]. simpl. intros k i Hin. destruct (Hk k i Hin) as [H1 H2].
  rewrite map_length. split; auto. rewrite path_aged. exact H2.
Qed.

Lemma absg_aged sp d :
  absg (aged sp d) = {| g_map := g_map (absg sp); g_streams := map (age_strm d) (sp_streams sp) |}.
Proof.
  unfold absg; simpl. f_equal. apply filter_ext. intros e. unfold sp_live. apply live_aged.
Qed.

(* ------------------------------------------------------------------ *)
(* the retire tasks: each run is an idle decision on one stream, i.e. nothing or a kill *)

Definition fire_list (sp : sstate) (l : list nat) : sstate :=
  fold_left (fun g' i => if st_retire (sp_get g' i) then fst (sp_idle_task g' i retire_period) else g') l sp.

Lemma idle_task_cases sp i p : fst (sp_idle_task sp i p) = sp \/ fst (sp_idle_task sp i p) = sp_kill sp i.
Proof.
  unfold sp_idle_task. destruct (negb _); simpl; auto. destruct (_ && _); simpl; auto.
Qed.

Lemma fire_ind (P : sstate -> Prop) l :
  (forall s i, P s -> P (sp_kill s i)) -> forall sp, P sp -> P (fire_list sp l).
Proof.
  intros Hk. induction l as [|i l IH]; intros sp H; [exact H|].
  change (fire_list sp (i :: l))
    with (fire_list (if st_retire (sp_get sp i) then fst (sp_idle_task sp i retire_period) else sp) l).
  apply IH. destruct (st_retire (sp_get sp i)); auto.
  destruct (idle_task_cases sp i retire_period) as [E|E]; rewrite E; auto.
Qed.

Lemma fire_step sp : fst (sstep sp GFire) = fire_list sp (seq 0 (length (sp_streams sp))).
Proof. reflexivity. Qed.

(* ------------------------------------------------------------------ *)
(* one step: the implementation started in [absg sp] answers like the specification and ends in
   [absg] of the specification's next state *)

Definition op_wf (sp : sstate) (o : gop) : bool :=
  match o with
  | GRegist i => (i <? length (sp_streams sp))%nat && st_live (sp_get sp i)
  | _ => true
  end.

Lemma hist_wf_cons sp o ops : hist_wf sp (o :: ops) = op_wf sp o && hist_wf (fst (sstep sp o)) ops.
Proof. reflexivity. Qed.

Lemma keys_ok_step sp o : keys_ok sp -> keys_ok (fst (sstep sp o)).
Proof.
  intros Hok. destruct o as [p hls|i|i|i|p| | |i flv|i flv|i r| |d|i|i|i n|]; simpl.
  - apply keys_ok_new; exact Hok.
  - destruct (i <? length (sp_streams sp))%nat eqn:Hi; simpl; [|exact Hok].
    apply Nat.ltb_lt in Hi.
    assert (Hok1 := keys_ok_mstore sp i Hok Hi).
    destruct (sp_resolve sp (st_path (sp_get sp i))) as [j|]; [|exact Hok1].
    destruct (Nat.eqb i j); [exact Hok|].
    destruct (consumers (sp_get sp j) <=? 0); simpl.
    + apply keys_ok_kill; exact Hok1.
    + apply keys_ok_set; auto.
  - destruct (i <? length (sp_streams sp))%nat; simpl; [apply keys_ok_kill|]; exact Hok.
  - destruct (i <? length (sp_streams sp))%nat; simpl; [apply keys_ok_kill|]; exact Hok.
  - exact Hok.
  - exact Hok.
  - exact Hok.
  - destruct (negb (i <? length (sp_streams sp))%nat || negb (st_live (sp_get sp i))); simpl; auto.
    apply keys_ok_set; auto.
  - destruct (negb (i <? length (sp_streams sp))%nat || negb (st_live (sp_get sp i))); simpl; auto.
    destruct ((if flv then st_flv (sp_get sp i) else st_rtp (sp_get sp i)) <=? 0); simpl; auto.
    apply keys_ok_set; auto.
  - destruct (i <? length (sp_streams sp))%nat; simpl; auto.
    destruct ((consumers (sp_get sp i) <=? 0) && negb (hls_recent (sp_get sp i) r)); simpl; auto.
    apply keys_ok_kill; exact Hok.
  - apply (keys_ok_kill_list _ sp Hok).
  - apply keys_ok_aged; exact Hok.
  - destruct (negb (i <? length (sp_streams sp))%nat || negb (hls_usable (sp_get sp i))); simpl; auto.
    apply keys_ok_set; auto.
  - destruct (negb (i <? length (sp_streams sp))%nat || negb (hls_usable (sp_get sp i))); simpl; auto.
    apply keys_ok_set; auto.
  - destruct (negb (i <? length (sp_streams sp))%nat || negb (hls_usable (sp_get sp i))); simpl; auto.
    apply keys_ok_set; auto.
  - exact (fire_ind keys_ok (seq 0 (length (sp_streams sp))) (fun s i H => keys_ok_kill s i H) sp Hok).
Qed.

Lemma idle_refines sp i p :
  keys_ok sp ->
  idle_task rfixed (absg sp) i p = (absg (fst (sp_idle_task sp i p)), snd (sp_idle_task sp i p)).
Proof.
  intros Hok. unfold idle_task, sp_idle_task. change (g_streams (absg sp)) with (sp_streams sp).
  change (sget (absg sp) i) with (sp_get sp i).
  destruct (i <? length (sp_streams sp))%nat; simpl negb; cbv iota; [|reflexivity].
  change (v_anycons rfixed) with true. cbv iota.
  destruct ((consumers (sp_get sp i) <=? 0) && negb (hls_recent (sp_get sp i) p)); [|reflexivity].
  rewrite close_is_kill by exact Hok. reflexivity.
Qed.

Lemma fire_refines l : forall sp,
  keys_ok sp ->
  fold_left (fun g' i => if st_retire (sget g' i) then fst (idle_task rfixed g' i retire_period) else g') l (absg sp) =
  absg (fire_list sp l).
Proof.
  induction l as [|i l IH]; intros sp Hok; [reflexivity|].
  change (fire_list sp (i :: l))
    with (fire_list (if st_retire (sp_get sp i) then fst (sp_idle_task sp i retire_period) else sp) l).
  cbn [fold_left]. change (sget (absg sp) i) with (sp_get sp i).
  destruct (st_retire (sp_get sp i)).
  - rewrite idle_refines by exact Hok. cbn [fst]. apply IH.
    destruct (idle_task_cases sp i retire_period) as [E|E]; rewrite E; [exact Hok | apply keys_ok_kill; exact Hok].
  - apply IH; exact Hok.
Qed.

Lemma step_refines sp o :
  keys_ok sp -> op_wf sp o = true ->
  gstep rfixed (absg sp) o = (absg (fst (sstep sp o)), snd (sstep sp o)).
Proof.
  intros Hok Hwf. destruct o as [p hls|i|i|i|p| | |i flv|i flv|i r| |d|i|i|i n|].
  - (* GNew *) simpl. rewrite absg_new by exact Hok. reflexivity.
  - (* GRegist *)
    simpl in Hwf. apply andb_true_iff in Hwf as [Hi Hl].
    unfold gstep, sstep. change (g_streams (absg sp)) with (sp_streams sp).
    change (sget (absg sp) i) with (sp_get sp i).
    rewrite Hi. simpl negb. cbv iota.
    rewrite mlookup_absg by exact Hok.
    apply Nat.ltb_lt in Hi.
    assert (Hok1 := keys_ok_mstore sp i Hok Hi).
    rewrite <- (absg_mstore sp (st_path (sp_get sp i)) i Hl).
    set (sp1 := {| sp_last := mstore (sp_last sp) (st_path (sp_get sp i)) i; sp_streams := sp_streams sp |}) in *.
    destruct (sp_resolve sp (st_path (sp_get sp i))) as [j|] eqn:Hr; [|reflexivity].
    destruct (Nat.eqb i j); [reflexivity|].
    change (sget (absg sp1) j) with (sp_get sp j).
    destruct (consumers (sp_get sp j) <=? 0).
    + rewrite close_is_kill by exact Hok1. reflexivity.
    + rewrite absg_set by reflexivity. reflexivity.
  - (* GUnregist *)
    unfold gstep, sstep. change (g_streams (absg sp)) with (sp_streams sp).
    change (sget (absg sp) i) with (sp_get sp i).
    destruct (i <? length (sp_streams sp))%nat eqn:Hi; simpl negb; cbv iota; [|reflexivity].
    simpl fst; simpl snd. f_equal.
    rewrite <- close_is_kill by exact Hok.
    destruct (mlookup (g_map (absg sp)) (st_path (sp_get sp i))) as [j|] eqn:Hm; [|reflexivity].
    destruct (Nat.eqb i j) eqn:E; [|reflexivity].
    apply Nat.eqb_eq in E; subst j.
    apply (close_after_delete (absg sp) i); [|exact Hm].
    rewrite mlookup_absg in Hm by exact Hok. unfold sp_resolve in Hm.
    change (sget (absg sp) i) with (sp_get sp i).
    destruct (mlookup (sp_last sp) (st_path (sp_get sp i))) as [j|]; [|discriminate].
    destruct (st_live (sp_get sp j)) eqn:Hl; [|discriminate]. inversion Hm; subst. exact Hl.
  - (* GClose *)
    unfold gstep, sstep. change (g_streams (absg sp)) with (sp_streams sp).
    destruct (i <? length (sp_streams sp))%nat; simpl negb; cbv iota; [|reflexivity].
    rewrite close_is_kill by exact Hok. reflexivity.
  - (* GGet *) simpl. rewrite <- mlookup_absg by exact Hok. reflexivity.
  - (* GCount *) reflexivity.
  - (* GList *) reflexivity.
  - (* GAttach *)
    unfold gstep, sstep. change (g_streams (absg sp)) with (sp_streams sp).
    change (sget (absg sp) i) with (sp_get sp i).
    destruct (i <? length (sp_streams sp))%nat; simpl negb; simpl orb; [|reflexivity].
    destruct (st_live (sp_get sp i)) eqn:Hl; simpl negb; cbv iota; [|reflexivity].
    rewrite absg_set by (simpl; congruence). reflexivity.
  - (* GDetach *)
    unfold gstep, sstep. change (g_streams (absg sp)) with (sp_streams sp).
    change (sget (absg sp) i) with (sp_get sp i).
    destruct (i <? length (sp_streams sp))%nat; simpl negb; simpl orb; [|reflexivity].
    destruct (st_live (sp_get sp i)) eqn:Hl; simpl negb; cbv iota; [|reflexivity].
    destruct ((if flv then st_flv (sp_get sp i) else st_rtp (sp_get sp i)) <=? 0); [reflexivity|].
    rewrite absg_set by (simpl; congruence). reflexivity.
  - (* GIdle *) exact (idle_refines sp i r Hok).
  - (* GUnregistAll *)
    exact (f_equal (fun x => (x, RUnit)) (unregist_all_refines sp Hok)).
  - (* GTick *)
    exact (f_equal (fun x => (x, RUnit)) (eq_sym (absg_aged sp d))).
  - (* GSeg *)
    unfold gstep, sstep. change (g_streams (absg sp)) with (sp_streams sp).
    change (sget (absg sp) i) with (sp_get sp i).
    destruct (negb (i <? length (sp_streams sp))%nat || negb (hls_usable (sp_get sp i))); [reflexivity|].
    rewrite absg_set by reflexivity. reflexivity.
  - (* GHlsPoll *)
    unfold gstep, sstep. change (g_streams (absg sp)) with (sp_streams sp).
    change (sget (absg sp) i) with (sp_get sp i).
    destruct (negb (i <? length (sp_streams sp))%nat || negb (hls_usable (sp_get sp i))); [reflexivity|].
    change (v_hlsstamp rfixed) with true. simpl orb.
    rewrite absg_set by reflexivity. reflexivity.
  - (* GHlsSeg *)
    unfold gstep, sstep. change (g_streams (absg sp)) with (sp_streams sp).
    change (sget (absg sp) i) with (sp_get sp i).
    destruct (negb (i <? length (sp_streams sp))%nat || negb (hls_usable (sp_get sp i))); [reflexivity|].
    rewrite absg_set by reflexivity. reflexivity.
  - (* GFire *)
    exact (f_equal (fun x => (x, RUnit)) (fire_refines (seq 0 (length (sp_streams sp))) sp Hok)).
Qed.

Lemma run_refines ops : forall sp,
  keys_ok sp -> hist_wf sp ops = true -> snd (grun rfixed (absg sp) ops) = srun sp ops.
Proof.
  induction ops as [|o ops IH]; intros sp Hok Hwf; [reflexivity|].
  rewrite hist_wf_cons in Hwf. apply andb_true_iff in Hwf as [Hw1 Hw2].
  simpl. rewrite (step_refines sp o Hok Hw1).
  assert (Hok' := keys_ok_step sp o Hok).
  specialize (IH _ Hok' Hw2).
  destruct (sstep sp o) as [sp' r]. simpl in *.
  destruct (grun rfixed (absg sp') ops) as [g2 rs]. simpl in *. f_equal. exact IH.
Qed.

Lemma run_refines_state ops : forall sp,
  keys_ok sp -> hist_wf sp ops = true -> fst (grun rfixed (absg sp) ops) = absg (sexec sp ops).
Proof.
  induction ops as [|o ops IH]; intros sp Hok Hwf; [reflexivity|].
  rewrite hist_wf_cons in Hwf. apply andb_true_iff in Hwf as [Hw1 Hw2].
  simpl. rewrite (step_refines sp o Hok Hw1).
  assert (Hok' := keys_ok_step sp o Hok).
  specialize (IH _ Hok' Hw2).
  destruct (sstep sp o) as [sp' r]. simpl in *.
  destruct (grun rfixed (absg sp') ops) as [g2 rs]. simpl in *. exact IH.
Qed.

(* the implementation model's end state is the abstraction of the specification's *)
Theorem impl_end_state : forall ops,
  hist_wf sinit ops = true -> fst (grun rfixed rinit ops) = absg (sexec sinit ops).
Proof.
  intros ops Hwf. rewrite <- absg_init. apply run_refines_state; [apply keys_ok_init | exact Hwf].
Qed.

(* 1. refinement: on every well-formed history the implementation model answers as the specification *)
Theorem impl_refines_spec : forall ops,
  hist_wf sinit ops = true -> snd (grun rfixed rinit ops) = srun sinit ops.
Proof.
  intros ops Hwf. rewrite <- absg_init. apply run_refines; [apply keys_ok_init | exact Hwf].
Qed.

Lemma bytes_list_eqb_refl (x : list bytes) :
  (fix eq (x y : list bytes) := match x, y with
     | [], [] => true | a :: x', b :: y' => bytes_eqb a b && eq x' y' | _, _ => false end) x x = true.
Proof. induction x as [|a x IH]; auto. rewrite bytes_eqb_refl. exact IH. Qed.

Lemma gout_eqb_refl a : gout_eqb a a = true.
Proof.
  destruct a as [|[x|]|a b|x|x|x]; simpl; auto.
  - apply Nat.eqb_refl.
  - rewrite !Z.eqb_refl. reflexivity.
  - apply bytes_list_eqb_refl.
  - destruct x; reflexivity.
  - destruct x; reflexivity.
Qed.

Lemma gouts_eqb_refl a : gouts_eqb a a = true.
Proof. induction a as [|x a IH]; simpl; auto. rewrite gout_eqb_refl. exact IH. Qed.

(* 2. the oracle applied to the implementation accepts the model *)
Theorem model_passes : forall ops,
  hist_wf sinit ops = true -> ok_hist_C05 ops (snd (grun rfixed rinit ops)) = true.
Proof.
  intros ops Hwf. unfold ok_hist_C05. rewrite impl_refines_spec by exact Hwf. apply gouts_eqb_refl.
Qed.

Lemma zs_eqb_refl a : zs_eqb a a = true.
Proof. induction a as [|x a IH]; simpl; auto. rewrite Z.eqb_refl. exact IH. Qed.

Lemma end_eqb_refl a : end_eqb a a = true.
Proof.
  induction a as [|[[l t] c] a IH]; simpl; auto.
  rewrite !Z.eqb_refl, IH. destruct l; reflexivity.
Qed.

Theorem end_vec_refines : forall ops,
  hist_wf sinit ops = true ->
  end_vec (g_streams (fst (grun rfixed rinit ops))) = end_vec (sp_streams (sexec sinit ops)).
Proof. intros ops Hwf. rewrite impl_end_state by exact Hwf. reflexivity. Qed.

(* the whole observation (answers and end vector) of the model passes C05's oracle *)
Theorem model_passes_end : forall ops,
  hist_wf sinit ops = true ->
  ok_hist_end_C05 ops (snd (grun rfixed rinit ops)) (end_vec (g_streams (fst (grun rfixed rinit ops)))) = true.
Proof.
  intros ops Hwf. unfold ok_hist_end_C05. rewrite model_passes by exact Hwf.
  rewrite end_vec_refines by exact Hwf. apply end_eqb_refl.
Qed.

(* ------------------------------------------------------------------ *)
(* 3. consequences of the specification, for the states the specification reaches *)

Lemma sexec_app g a b : sexec g (a ++ b) = sexec (sexec g a) b.
Proof. revert g; induction a as [|o a IH]; intros g; simpl; auto. Qed.

Lemma hist_wf_app g a b : hist_wf g (a ++ b) = hist_wf g a && hist_wf (sexec g a) b.
Proof.
  revert g; induction a as [|o a IH]; intros g; simpl; auto. rewrite IH, andb_assoc. reflexivity.
Qed.

(* consumer counts never go negative *)
Definition cnt_ok (sp : sstate) : Prop :=
  forall i, 0 <= st_rtp (sp_get sp i) /\ 0 <= st_flv (sp_get sp i).

Lemma cnt_ok_set sp i v : cnt_ok sp -> 0 <= st_rtp v -> 0 <= st_flv v -> cnt_ok (sp_set sp i v).
Proof.
  intros H Hr Hf j. rewrite sp_get_set. destruct (Nat.eqb j i && _)%bool; auto.
Qed.

Lemma cnt_ok_kill sp i : cnt_ok sp -> cnt_ok (sp_kill sp i).
Proof.
  intros H. rewrite sp_kill_eq. destruct (negb _); auto. apply cnt_ok_set; simpl; auto; lia.
Qed.

Lemma cnt_ok_kill_list l : forall sp, cnt_ok sp -> cnt_ok (kill_list sp l).
Proof.
  induction l as [|e l IH]; intros sp H; simpl; auto. apply IH, cnt_ok_kill, H.
Qed.

Lemma cnt_ok_step sp o : cnt_ok sp -> cnt_ok (fst (sstep sp o)).
Proof.
  intros Hc. destruct o as [p hls|i|i|i|p| | |i flv|i flv|i r| |d|i|i|i n|]; simpl.
  - intros j. unfold sp_get; simpl. rewrite nth_snoc.
    destruct (j <? length (sp_streams sp))%nat; [apply Hc|].
    destruct (Nat.eqb j (length (sp_streams sp))); simpl; lia.
  - destruct (i <? length (sp_streams sp))%nat; simpl; [|exact Hc].
    set (sp1 := {| sp_last := mstore (sp_last sp) (st_path (sp_get sp i)) i; sp_streams := sp_streams sp |}).
    assert (Hc1 : cnt_ok sp1) by exact Hc.
    destruct (sp_resolve sp (st_path (sp_get sp i))) as [j|]; [|exact Hc1].
    destruct (Nat.eqb i j); [exact Hc|].
    destruct (consumers (sp_get sp j) <=? 0); simpl.
    + apply cnt_ok_kill; exact Hc1.
    + apply cnt_ok_set; simpl; auto; apply Hc.
  - destruct (i <? length (sp_streams sp))%nat; simpl; [apply cnt_ok_kill|]; exact Hc.
  - destruct (i <? length (sp_streams sp))%nat; simpl; [apply cnt_ok_kill|]; exact Hc.
  - exact Hc.
  - exact Hc.
  - exact Hc.
  - destruct (negb (i <? length (sp_streams sp))%nat || negb (st_live (sp_get sp i))); simpl; auto.
    destruct (Hc i). apply cnt_ok_set; simpl; auto; destruct flv; lia.
  - destruct (negb (i <? length (sp_streams sp))%nat || negb (st_live (sp_get sp i))); simpl; auto.
    destruct ((if flv then st_flv (sp_get sp i) else st_rtp (sp_get sp i)) <=? 0) eqn:E; simpl; auto.
    apply Z.leb_gt in E. destruct (Hc i). apply cnt_ok_set; simpl; auto; destruct flv; lia.
  - destruct (i <? length (sp_streams sp))%nat; simpl; auto.
    destruct ((consumers (sp_get sp i) <=? 0) && negb (hls_recent (sp_get sp i) r)); simpl; auto.
    apply cnt_ok_kill; exact Hc.
  - apply (cnt_ok_kill_list _ sp Hc).
  - intros j. change (sp_get _ j) with (sp_get (aged sp d) j).
    destruct (sp_get_aged sp d j) as [H|[H _]]; rewrite H; simpl; [apply Hc | lia].
  - destruct (negb (i <? length (sp_streams sp))%nat || negb (hls_usable (sp_get sp i))); simpl; auto.
    apply cnt_ok_set; simpl; auto; apply Hc.
  - destruct (negb (i <? length (sp_streams sp))%nat || negb (hls_usable (sp_get sp i))); simpl; auto.
    apply cnt_ok_set; simpl; auto; apply Hc.
  - destruct (negb (i <? length (sp_streams sp))%nat || negb (hls_usable (sp_get sp i))); simpl; auto.
    apply cnt_ok_set; simpl; auto; apply Hc.
  - exact (fire_ind cnt_ok (seq 0 (length (sp_streams sp))) (fun s i H => cnt_ok_kill s i H) sp Hc).
Qed.

Lemma cnt_ok_init : cnt_ok sinit.
Proof. intros [|i]; simpl; lia. Qed.

Lemma sexec_inv ops : forall sp,
  keys_ok sp -> cnt_ok sp -> keys_ok (sexec sp ops) /\ cnt_ok (sexec sp ops).
Proof.
  induction ops as [|o ops IH]; intros sp Hk Hc; simpl; auto.
  apply IH; [apply keys_ok_step | apply cnt_ok_step]; auto.
Qed.

Lemma reach_keys_ok ops : keys_ok (sexec sinit ops).
Proof. apply sexec_inv; [apply keys_ok_init | apply cnt_ok_init]. Qed.

Lemma reach_cnt_ok ops : cnt_ok (sexec sinit ops).
Proof. apply sexec_inv; [apply keys_ok_init | apply cnt_ok_init]. Qed.

(* the run of the specification is the list of answers along [sexec] *)
Lemma srun_app g a b : srun g (a ++ b) = srun g a ++ srun (sexec g a) b.
Proof.
  revert g; induction a as [|o a IH]; intros g; simpl; auto.
  destruct (sstep g o) as [g1 r] eqn:E. simpl. rewrite IH. reflexivity.
Qed.

(* (a) what a lookup returns is a live stream whose path is the key *)
Lemma resolve_live_path sp k i :
  keys_ok sp -> sp_resolve sp k = Some i ->
  (i < length (sp_streams sp))%nat /\ st_live (sp_get sp i) = true /\ st_path (sp_get sp i) = k.
Proof.
  intros [_ Hk] Hr. unfold sp_resolve in Hr.
  destruct (mlookup (sp_last sp) k) as [j|] eqn:Hm; [|discriminate].
  destruct (st_live (sp_get sp j)) eqn:Hl; [|discriminate]. inversion Hr; subst j.
  apply mlookup_in in Hm. destruct (Hk k i Hm). auto.
Qed.

Theorem lookup_only_live : forall ops k i,
  let sp := sexec sinit ops in
  sp_resolve sp k = Some i ->
  (i < length (sp_streams sp))%nat /\ st_live (sp_get sp i) = true /\ st_path (sp_get sp i) = k.
Proof. intros ops k i sp. apply resolve_live_path. apply reach_keys_ok. Qed.

Theorem get_only_live : forall ops p i,
  let sp := sexec sinit ops in
  snd (sstep sp (GGet p)) = RGet (Some i) ->
  (i < length (sp_streams sp))%nat /\ st_live (sp_get sp i) = true /\
  st_path (sp_get sp i) = canonical_path p.
Proof.
  intros ops p i sp H. simpl in H. inversion H as [Hr]. apply lookup_only_live. exact Hr.
Qed.

(* (b) the most recently registered stream is the one found *)
Theorem regist_then_resolves : forall sp i,
  (i < length (sp_streams sp))%nat -> st_live (sp_get sp i) = true ->
  sp_resolve (fst (sstep sp (GRegist i))) (st_path (sp_get sp i)) = Some i.
Proof.
  intros sp i Hi Hl. simpl. apply Nat.ltb_lt in Hi. rewrite Hi. simpl.
  set (k := st_path (sp_get sp i)).
  set (sp1 := {| sp_last := mstore (sp_last sp) k i; sp_streams := sp_streams sp |}).
  assert (H1 : sp_resolve sp1 k = Some i).
  { unfold sp_resolve. simpl. rewrite mlookup_mstore_same.
    change (sp_get sp1 i) with (sp_get sp i). rewrite Hl. reflexivity. }
  destruct (sp_resolve sp k) as [j|] eqn:Hr; [|exact H1].
  destruct (Nat.eqb i j) eqn:E.
  - apply Nat.eqb_eq in E; subst j. exact Hr.
  - destruct (consumers (sp_get sp j) <=? 0); simpl.
    + unfold sp_resolve. rewrite last_kill. simpl. rewrite mlookup_mstore_same, live_kill.
      change (sp_get sp1 i) with (sp_get sp i). rewrite Hl, E. reflexivity.
    + unfold sp_resolve. simpl. rewrite mlookup_mstore_same, sp_get_set. rewrite E. simpl.
      change (sp_get sp1 i) with (sp_get sp i). rewrite Hl. reflexivity.
Qed.

(* registering over a live stream retires it: closed at once without consumers, else marked for the
   retire task and left live for its consumers; in both cases no key resolves to it any more *)
Theorem regist_retires_old : forall ops i j,
  let sp := sexec sinit ops in
  let sp' := fst (sstep sp (GRegist i)) in
  (i < length (sp_streams sp))%nat -> st_live (sp_get sp i) = true ->
  sp_resolve sp (st_path (sp_get sp i)) = Some j -> j <> i ->
  (if consumers (sp_get sp j) <=? 0 then st_live (sp_get sp' j) = false
   else st_live (sp_get sp' j) = true /\ st_retire (sp_get sp' j) = true /\
        st_rtp (sp_get sp' j) = st_rtp (sp_get sp j) /\ st_flv (sp_get sp' j) = st_flv (sp_get sp j)) /\
  (forall k, sp_resolve sp' k <> Some j).
Proof.
  intros ops i j sp sp' Hi Hl Hr Hne.
  assert (Hok : keys_ok sp) by apply reach_keys_ok.
  destruct (resolve_live_path sp _ j Hok Hr) as [Hj [Hlj Hpj]].
  assert (Hok' : keys_ok sp') by (apply keys_ok_step; exact Hok).
  assert (Hlast : forall k, mlookup (sp_last sp') k = Some j -> False).
  { intros k Hm. destruct Hok' as [_ Hk']. apply mlookup_in in Hm.
    assert (Hin : In (k, j) (mstore (sp_last sp) (st_path (sp_get sp i)) i)).
    { revert Hm. unfold sp'. simpl. apply Nat.ltb_lt in Hi. rewrite Hi. simpl. rewrite Hr.
      assert (E : Nat.eqb i j = false) by (apply Nat.eqb_neq; congruence). rewrite E.
      destruct (consumers (sp_get sp j) <=? 0); simpl; [rewrite last_kill|]; simpl; auto. }
    apply in_mstore in Hin as [E|[Hin Hne2]].
    - inversion E; congruence.
    - destruct Hok as [_ Hk]. destruct (Hk k j Hin) as [_ Hp]. simpl in Hne2. congruence. }
  split.
  - unfold sp'. simpl. apply Nat.ltb_lt in Hi. rewrite Hi. simpl. rewrite Hr.
    assert (E : Nat.eqb i j = false) by (apply Nat.eqb_neq; congruence). rewrite E.
    destruct (consumers (sp_get sp j) <=? 0); simpl.
    + rewrite live_kill, Nat.eqb_refl, andb_false_r. reflexivity.
    + rewrite sp_get_set. simpl. apply Nat.ltb_lt in Hj. rewrite Nat.eqb_refl, Hj. simpl. auto.
  - intros k Hk. unfold sp_resolve in Hk.
    destruct (mlookup (sp_last sp') k) as [x|] eqn:Hm; [|discriminate].
    destruct (st_live (sp_get sp' x)); [|discriminate]. inversion Hk; subst x. eauto.
Qed.

Lemma close_step_kill sp j : fst (sstep sp (GClose j)) = sp_kill sp j.
Proof.
  simpl. destruct (j <? length (sp_streams sp))%nat eqn:E; simpl; auto.
  apply Nat.ltb_ge in E. rewrite sp_kill_eq. unfold sp_get. rewrite nth_overflow by exact E. reflexivity.
Qed.

Lemma unregist_step_kill sp j : fst (sstep sp (GUnregist j)) = sp_kill sp j.
Proof. apply close_step_kill. Qed.

Lemma resolve_kill sp j k :
  sp_resolve (sp_kill sp j) k =
  match sp_resolve sp k with Some i => if Nat.eqb i j then None else Some i | None => None end.
Proof.
  unfold sp_resolve. rewrite last_kill. destruct (mlookup (sp_last sp) k) as [i|]; auto.
  rewrite live_kill. destruct (st_live (sp_get sp i)); simpl; auto.
  destruct (Nat.eqb i j); reflexivity.
Qed.

(* closing or unregistering stream j removes exactly the resolutions to j *)
Theorem close_effect : forall sp j k,
  sp_resolve (fst (sstep sp (GClose j))) k =
  match sp_resolve sp k with Some i => if Nat.eqb i j then None else Some i | None => None end.
Proof. intros. rewrite close_step_kill. apply resolve_kill. Qed.

Theorem unregist_effect : forall sp j k,
  sp_resolve (fst (sstep sp (GUnregist j))) k =
  match sp_resolve sp k with Some i => if Nat.eqb i j then None else Some i | None => None end.
Proof. intros. rewrite unregist_step_kill. apply resolve_kill. Qed.

(* unregistering (or closing) a stream that is not the one currently found under its path — a
   retired stream — leaves every resolution as it was: the successor stays *)
Theorem unregist_retired_keeps_successor : forall ops j,
  let sp := sexec sinit ops in
  sp_resolve sp (st_path (sp_get sp j)) <> Some j ->
  forall k, sp_resolve (fst (sstep sp (GUnregist j))) k = sp_resolve sp k /\
            sp_resolve (fst (sstep sp (GClose j))) k = sp_resolve sp k.
Proof.
  intros ops j sp Hne k. rewrite unregist_effect, close_effect.
  destruct (sp_resolve sp k) as [i|] eqn:Hr; auto.
  destruct (Nat.eqb i j) eqn:E; auto.
  apply Nat.eqb_eq in E; subst i. exfalso. apply Hne.
  destruct (resolve_live_path sp k j (reach_keys_ok ops) Hr) as [_ [_ Hp]]. rewrite Hp. exact Hr.
Qed.

(* liveness is never regained, and stream numbers are never reused *)
Lemma length_step sp o : (length (sp_streams sp) <= length (sp_streams (fst (sstep sp o))))%nat.
Proof.
  destruct o as [p hls|i|i|i|p| | |i flv|i flv|i r| |d|i|i|i n|]; simpl; auto.
  - rewrite app_length. simpl. lia.
  - destruct (i <? length (sp_streams sp))%nat; simpl; auto.
    destruct (sp_resolve sp (st_path (sp_get sp i))) as [j|]; simpl; auto.
    destruct (Nat.eqb i j); auto.
    destruct (consumers (sp_get sp j) <=? 0); simpl; [rewrite length_kill | rewrite lset_length]; auto.
  - destruct (i <? length (sp_streams sp))%nat; simpl; auto. rewrite length_kill; auto.
  - destruct (i <? length (sp_streams sp))%nat; simpl; auto. rewrite length_kill; auto.
  - destruct (negb (i <? length (sp_streams sp))%nat || negb (st_live (sp_get sp i))); simpl; auto.
    rewrite lset_length; auto.
  - destruct (negb (i <? length (sp_streams sp))%nat || negb (st_live (sp_get sp i))); simpl; auto.
    destruct ((if flv then st_flv (sp_get sp i) else st_rtp (sp_get sp i)) <=? 0); simpl; auto.
    rewrite lset_length; auto.
  - destruct (i <? length (sp_streams sp))%nat; simpl; auto.
    destruct ((consumers (sp_get sp i) <=? 0) && negb (hls_recent (sp_get sp i) r)); simpl; auto.
    rewrite length_kill; auto.
  - change (length (sp_streams sp) <= length (sp_streams (kill_list sp (filter (sp_live sp) (sp_last sp)))))%nat.
    rewrite length_kill_list; auto.
  - rewrite map_length; auto.
  - destruct (negb (i <? length (sp_streams sp))%nat || negb (hls_usable (sp_get sp i))); simpl; auto.
    rewrite lset_length; auto.
  - destruct (negb (i <? length (sp_streams sp))%nat || negb (hls_usable (sp_get sp i))); simpl; auto.
    rewrite lset_length; auto.
  - destruct (negb (i <? length (sp_streams sp))%nat || negb (hls_usable (sp_get sp i))); simpl; auto.
    rewrite lset_length; auto.
  - apply (fire_ind (fun s => (length (sp_streams sp) <= length (sp_streams s))%nat) (seq 0 (length (sp_streams sp))));
      [intros s i0 H; rewrite length_kill; exact H | auto].
Qed.

Lemma dead_step sp o j :
  (j < length (sp_streams sp))%nat -> st_live (sp_get sp j) = false ->
  st_live (sp_get (fst (sstep sp o)) j) = false.
Proof.
  intros Hj Hd.
  assert (Hkill : forall s i, st_live (sp_get s j) = false -> st_live (sp_get (sp_kill s i) j) = false).
  { intros s i H. rewrite live_kill, H. reflexivity. }
  assert (Hset : forall s i v, st_live (sp_get s j) = false -> (i = j -> st_live v = false) ->
                               st_live (sp_get (sp_set s i v) j) = false).
  { intros s i v H Hv. rewrite sp_get_set. destruct (Nat.eqb j i && _)%bool eqn:E; auto.
    apply andb_true_iff in E as [E _]. apply Nat.eqb_eq in E. auto. }
  destruct o as [p hls|i|i|i|p| | |i flv|i flv|i r| |d|i|i|i n|]; simpl; auto.
  - unfold sp_get; simpl. rewrite nth_snoc. apply Nat.ltb_lt in Hj. rewrite Hj. exact Hd.
  - destruct (i <? length (sp_streams sp))%nat; simpl; auto.
    destruct (sp_resolve sp (st_path (sp_get sp i))) as [x|]; simpl; auto.
    destruct (Nat.eqb i x); auto.
    destruct (consumers (sp_get sp x) <=? 0); simpl.
    + apply Hkill. exact Hd.
    + apply Hset; [exact Hd|]. intros ->. simpl. exact Hd.
  - destruct (i <? length (sp_streams sp))%nat; simpl; auto.
  - destruct (i <? length (sp_streams sp))%nat; simpl; auto.
  - destruct (i <? length (sp_streams sp))%nat; simpl; auto.
    destruct (st_live (sp_get sp i)) eqn:Hl; simpl; auto.
    apply Hset; auto. intros ->. congruence.
  - destruct (i <? length (sp_streams sp))%nat; simpl; auto.
    destruct (st_live (sp_get sp i)) eqn:Hl; simpl; auto.
    destruct ((if flv then st_flv (sp_get sp i) else st_rtp (sp_get sp i)) <=? 0); simpl; auto.
    apply Hset; auto. intros ->. congruence.
  - destruct (i <? length (sp_streams sp))%nat; simpl; auto.
    destruct ((consumers (sp_get sp i) <=? 0) && negb (hls_recent (sp_get sp i) r)); simpl; auto.
  - change (st_live (sp_get (kill_list sp (filter (sp_live sp) (sp_last sp))) j) = false).
    rewrite live_kill_list, Hd. reflexivity.
  - change (st_live (sp_get (aged sp d) j) = false). rewrite live_aged. exact Hd.
  - destruct (negb (i <? length (sp_streams sp))%nat || negb (hls_usable (sp_get sp i))); simpl; auto.
    apply Hset; auto. intros ->. exact Hd.
  - destruct (negb (i <? length (sp_streams sp))%nat || negb (hls_usable (sp_get sp i))); simpl; auto.
    apply Hset; auto. intros ->. exact Hd.
  - destruct (negb (i <? length (sp_streams sp))%nat || negb (hls_usable (sp_get sp i))); simpl; auto.
    apply Hset; auto. intros ->. exact Hd.
  - apply (fire_ind (fun s => st_live (sp_get s j) = false) (seq 0 (length (sp_streams sp))));
      [intros s i0 H; apply Hkill; exact H | exact Hd].
Qed.

Lemma dead_forever ops : forall sp j,
  (j < length (sp_streams sp))%nat -> st_live (sp_get sp j) = false ->
  st_live (sp_get (sexec sp ops) j) = false.
Proof.
  induction ops as [|o ops IH]; intros sp j Hj Hd; simpl; auto.
  apply IH; [|apply dead_step; auto].
  pose proof (length_step sp o). lia.
Qed.

(* a stream that was closed or unregistered is never returned by any later lookup *)
Theorem closed_never_returned : forall ops1 j ops2 k,
  (j < length (sp_streams (sexec sinit ops1)))%nat ->
  sp_resolve (sexec sinit (ops1 ++ GClose j :: ops2)) k <> Some j /\
  sp_resolve (sexec sinit (ops1 ++ GUnregist j :: ops2)) k <> Some j.
Proof.
  intros ops1 j ops2 k Hj.
  assert (H : forall o, fst (sstep (sexec sinit ops1) o) = sp_kill (sexec sinit ops1) j ->
                        sp_resolve (sexec sinit (ops1 ++ o :: ops2)) k <> Some j).
  { intros o Ho Hr. rewrite sexec_app in Hr. simpl in Hr. rewrite Ho in Hr.
    assert (Hd : st_live (sp_get (sexec (sp_kill (sexec sinit ops1) j) ops2) j) = false).
    { apply dead_forever; [rewrite length_kill; exact Hj|].
      rewrite live_kill, Nat.eqb_refl, andb_false_r. reflexivity. }
    unfold sp_resolve in Hr.
    destruct (mlookup _ k) as [x|]; [|discriminate].
    destruct (st_live (sp_get _ x)) eqn:Hl; [|discriminate]. inversion Hr; subst x. congruence. }
  split; apply H; [apply close_step_kill | apply unregist_step_kill].
Qed.

(* (c) the idle task closes a stream only when it has no consumer of any protocol and no recent HLS
   access; its answer says whether it closed it; other streams are untouched *)
Theorem idle_only_when_unused : forall ops i d,
  let sp := sexec sinit ops in
  let s := sp_get sp i in
  let sp' := fst (sstep sp (GIdle i d)) in
  (st_live s = true -> st_live (sp_get sp' i) = false ->
     st_rtp s = 0 /\ st_flv s = 0 /\ (st_hls s = false \/ d <= st_hls_idle s)) /\
  (snd (sstep sp (GIdle i d)) = RIdle true <->
     st_live s = true /\ st_rtp s = 0 /\ st_flv s = 0 /\ (st_hls s = false \/ d <= st_hls_idle s)) /\
  (snd (sstep sp (GIdle i d)) = RIdle true -> st_live (sp_get sp' i) = false) /\
  (forall j, j <> i -> sp_get sp' j = sp_get sp j).
Proof.
  intros ops i r sp s sp'.
  destruct (reach_cnt_ok ops i) as [Hr Hf]. fold sp in Hr, Hf. fold s in Hr, Hf.
  assert (Hcond : (consumers s <=? 0) && negb (hls_recent s r) = true <->
                  st_rtp s = 0 /\ st_flv s = 0 /\ (st_hls s = false \/ r <= st_hls_idle s)).
  { unfold consumers, hls_recent. rewrite andb_true_iff, Z.leb_le, negb_true_iff, andb_false_iff, Z.ltb_ge.
    split; [intros [H1 H2] | intros [H1 [H2 H3]]]; repeat split; auto; lia. }
  unfold sp'. simpl. fold s.
  destruct (i <? length (sp_streams sp))%nat eqn:Hi; simpl.
  - destruct ((consumers s <=? 0) && negb (hls_recent s r)) eqn:C; simpl.
    + assert (C' := proj1 Hcond eq_refl).
      assert (Hk : st_live (sp_get (sp_kill sp i) i) = false).
      { rewrite live_kill, Nat.eqb_refl, andb_false_r. reflexivity. }
      refine (conj _ (conj _ (conj _ _))).
      * intros _ _. exact C'.
      * split.
        -- intros X. split; [congruence | exact C'].
        -- intros [X _]. rewrite X. reflexivity.
      * intros _. exact Hk.
      * intros j Hj. apply other_kill; exact Hj.
    + refine (conj _ (conj _ (conj _ _))).
      * intros H1 H2. fold s in H2. congruence.
      * split.
        -- intros X. discriminate X.
        -- intros [_ X]. apply Hcond in X. discriminate X.
      * intros X. discriminate X.
      * reflexivity.
  - apply Nat.ltb_ge in Hi.
    assert (Hd : st_live s = false) by (unfold s, sp_get; rewrite nth_overflow by exact Hi; reflexivity).
    refine (conj _ (conj _ (conj _ _))).
    + intros H1. congruence.
    + split.
      * intros X. discriminate X.
      * intros [X _]. congruence.
    + intros X. discriminate X.
    + reflexivity.
Qed.

(* (c') HLS viewers are seen by the idle task only through the playlist's last access: the time
   since the last access never exceeds the clock ticks since then, so a stream with an HLS access
   (playlist request in any playlist state, or segment request) within the period is never closed
   for idleness *)
Definition tick_of (o : gop) : Z := match o with GTick d => Z.max 0 d | _ => 0 end.
Fixpoint ticks (ops : list gop) : Z :=
  match ops with [] => 0 | o :: ops' => tick_of o + ticks ops' end.

Definition age_ok (sp : sstate) : Prop := forall i, 0 <= st_hls_idle (sp_get sp i).

Lemma hls_kill sp i j :
  st_hls (sp_get (sp_kill sp i) j) = st_hls (sp_get sp j) /\
  st_hls_idle (sp_get (sp_kill sp i) j) = st_hls_idle (sp_get sp j).
Proof.
  rewrite sp_kill_eq. destruct (negb _); auto. rewrite sp_get_set.
  destruct (Nat.eqb j i && _)%bool eqn:E; auto.
  apply andb_true_iff in E as [E _]. apply Nat.eqb_eq in E; subst. auto.
Qed.

Lemma hls_kill_list l : forall sp j,
  st_hls (sp_get (kill_list sp l) j) = st_hls (sp_get sp j) /\
  st_hls_idle (sp_get (kill_list sp l) j) = st_hls_idle (sp_get sp j).
Proof.
  induction l as [|e l IH]; intros sp j; simpl; auto.
  destruct (IH (sp_kill sp (snd e)) j) as [H1 H2]. destruct (hls_kill sp (snd e) j) as [H3 H4].
  split; congruence.
Qed.

Lemma hls_set (s : sstate) i v j :
  st_hls v = st_hls (sp_get s i) -> 0 <= st_hls_idle v <= st_hls_idle (sp_get s i) ->
  st_hls (sp_get (sp_set s i v) j) = st_hls (sp_get s j) /\
  0 <= st_hls_idle (sp_get s j) - st_hls_idle (sp_get (sp_set s i v) j) /\
  (0 <= st_hls_idle (sp_get s j) -> 0 <= st_hls_idle (sp_get (sp_set s i v) j)).
Proof.
  intros H1 H2. rewrite sp_get_set. destruct (Nat.eqb j i && _)%bool eqn:E.
  - apply andb_true_iff in E as [E _]. apply Nat.eqb_eq in E; subst. repeat split; auto; lia.
  - repeat split; auto; lia.
Qed.

(* one step: the HLS capability of an existing stream never changes, its idle time grows by at most
   the tick, and stays non-negative *)
Lemma hls_step sp o j :
  age_ok sp ->
  let sp' := fst (sstep sp o) in
  0 <= st_hls_idle (sp_get sp' j) /\
  ((j < length (sp_streams sp))%nat ->
   st_hls (sp_get sp' j) = st_hls (sp_get sp j) /\
   st_hls_idle (sp_get sp' j) <= st_hls_idle (sp_get sp j) + tick_of o).
Proof.
  intros Ha sp'. pose proof (Ha j) as Hj.
  assert (Hsame : forall s : sstate, sp_get s j = sp_get sp j ->
     0 <= st_hls_idle (sp_get s j) /\
     ((j < length (sp_streams sp))%nat ->
      st_hls (sp_get s j) = st_hls (sp_get sp j) /\
      st_hls_idle (sp_get s j) <= st_hls_idle (sp_get sp j) + tick_of o)).
  { intros s0 E. rewrite E. split; auto. intros _. split; auto. destruct o; simpl; lia. }
  assert (Hkill : forall (s : sstate) i, sp_get s j = sp_get sp j ->
     0 <= st_hls_idle (sp_get (sp_kill s i) j) /\
     ((j < length (sp_streams sp))%nat ->
      st_hls (sp_get (sp_kill s i) j) = st_hls (sp_get sp j) /\
      st_hls_idle (sp_get (sp_kill s i) j) <= st_hls_idle (sp_get sp j) + tick_of o)).
  { intros s0 i E. destruct (hls_kill s0 i j) as [H1 H2]. rewrite H1, H2, E.
    split; auto. intros _. split; auto. destruct o; simpl; lia. }
  assert (Hset : forall (s : sstate) i v, (forall x, sp_get s x = sp_get sp x) ->
     st_hls v = st_hls (sp_get sp i) -> 0 <= st_hls_idle v <= st_hls_idle (sp_get sp i) ->
     0 <= st_hls_idle (sp_get (sp_set s i v) j) /\
     ((j < length (sp_streams sp))%nat ->
      st_hls (sp_get (sp_set s i v) j) = st_hls (sp_get sp j) /\
      st_hls_idle (sp_get (sp_set s i v) j) <= st_hls_idle (sp_get sp j) + tick_of o)).
  { intros s0 i v E H1 H2. rewrite <- (E i) in H1, H2.
    destruct (hls_set s0 i v j H1 H2) as [A [B C]]. rewrite (E j) in *.
    split; [auto|]. intros _. split; auto. destruct o; simpl; lia. }
  unfold sp'. destruct o as [p hls|i|i|i|p| | |i flv|i flv|i r| |d|i|i|i n|]; simpl.
  - unfold sp_get; simpl. rewrite nth_snoc.
    destruct (j <? length (sp_streams sp))%nat eqn:L.
    + fold (sp_get sp j). split; auto. intros _. split; auto. lia.
    + split; [destruct (Nat.eqb j (length (sp_streams sp))); simpl; lia|].
      intros H. apply Nat.ltb_lt in H. congruence.
  - destruct (i <? length (sp_streams sp))%nat; simpl; [|apply Hsame; reflexivity].
    destruct (sp_resolve sp (st_path (sp_get sp i))) as [x|]; [|apply Hsame; reflexivity].
    destruct (Nat.eqb i x); [apply Hsame; reflexivity|].
    destruct (consumers (sp_get sp x) <=? 0); simpl.
    + apply Hkill. reflexivity.
    + apply Hset; simpl; auto. pose proof (Ha x). lia.
  - destruct (i <? length (sp_streams sp))%nat; simpl; [apply Hkill | apply Hsame]; reflexivity.
  - destruct (i <? length (sp_streams sp))%nat; simpl; [apply Hkill | apply Hsame]; reflexivity.
  - apply Hsame; reflexivity.
  - apply Hsame; reflexivity.
  - apply Hsame; reflexivity.
  - destruct (negb (i <? length (sp_streams sp))%nat || negb (st_live (sp_get sp i))); simpl;
      [apply Hsame; reflexivity|].
    apply Hset; simpl; auto. pose proof (Ha i). lia.
  - destruct (negb (i <? length (sp_streams sp))%nat || negb (st_live (sp_get sp i))); simpl;
      [apply Hsame; reflexivity|].
    destruct ((if flv then st_flv (sp_get sp i) else st_rtp (sp_get sp i)) <=? 0); simpl;
      [apply Hsame; reflexivity|].
    apply Hset; simpl; auto. pose proof (Ha i). lia.
  - destruct (i <? length (sp_streams sp))%nat; simpl; [|apply Hsame; reflexivity].
    destruct ((consumers (sp_get sp i) <=? 0) && negb (hls_recent (sp_get sp i) r)); simpl;
      [apply Hkill | apply Hsame]; reflexivity.
  - change (fold_left _ _ sp) with (kill_list sp (filter (sp_live sp) (sp_last sp))).
    destruct (hls_kill_list (filter (sp_live sp) (sp_last sp)) sp j) as [H1 H2]. rewrite H1, H2.
    split; auto. intros _. split; auto. lia.
  - fold (aged sp d).
    destruct (sp_get_aged sp d j) as [H|[H H']]; rewrite H; simpl.
    + split; [lia|]. intros _. split; auto. lia.
    + rewrite H'. simpl. split; [lia|]. intros _. split; auto. lia.
  - destruct (negb (i <? length (sp_streams sp))%nat || negb (hls_usable (sp_get sp i))); simpl;
      [apply Hsame; reflexivity|].
    apply Hset; simpl; auto. pose proof (Ha i). lia.
  - destruct (negb (i <? length (sp_streams sp))%nat || negb (hls_usable (sp_get sp i))); simpl;
      [apply Hsame; reflexivity|].
    apply Hset; simpl; auto. pose proof (Ha i). lia.
  - destruct (negb (i <? length (sp_streams sp))%nat || negb (hls_usable (sp_get sp i))); simpl;
      [apply Hsame; reflexivity|].
    apply Hset; simpl; auto. pose proof (Ha i). lia.
  - apply (fire_ind (fun s => 0 <= st_hls_idle (sp_get s j) /\
        ((j < length (sp_streams sp))%nat ->
         st_hls (sp_get s j) = st_hls (sp_get sp j) /\
         st_hls_idle (sp_get s j) <= st_hls_idle (sp_get sp j) + 0)) (seq 0 (length (sp_streams sp)))).
    + intros s i0 [H1 H2]. destruct (hls_kill s i0 j) as [E1 E2]. rewrite E1, E2. auto.
    + split; auto. intros _. split; auto. lia.
Qed.

Lemma age_ok_step sp o : age_ok sp -> age_ok (fst (sstep sp o)).
Proof. intros Ha j. apply (hls_step sp o j Ha). Qed.

Lemma age_ok_init : age_ok sinit.
Proof. intros [|i]; simpl; lia. Qed.

Lemma age_bound ops : forall sp j,
  age_ok sp -> (j < length (sp_streams sp))%nat ->
  st_hls (sp_get (sexec sp ops) j) = st_hls (sp_get sp j) /\
  st_hls_idle (sp_get (sexec sp ops) j) <= st_hls_idle (sp_get sp j) + ticks ops.
Proof.
  induction ops as [|o ops IH]; intros sp j Ha Hj; simpl.
  - split; auto. lia.
  - destruct (hls_step sp o j Ha) as [_ H]. destruct (H Hj) as [H1 H2].
    assert (Hj' : (j < length (sp_streams (fst (sstep sp o))))%nat).
    { pose proof (length_step sp o). lia. }
    destruct (IH _ j (age_ok_step sp o Ha) Hj') as [H3 H4]. split; [congruence | lia].
Qed.

Lemma reach_age_ok ops : age_ok (sexec sinit ops).
Proof.
  assert (H : forall ops sp, age_ok sp -> age_ok (sexec sp ops)).
  { clear ops. induction ops as [|o ops IH]; intros sp Ha; simpl; auto. apply IH, age_ok_step, Ha. }
  apply H, age_ok_init.
Qed.

Theorem hls_access_protects : forall ops1 acc ops2 i p,
  let sp0 := sexec sinit ops1 in
  (acc = GHlsPoll i \/ exists n, acc = GHlsSeg i n) ->
  (i < length (sp_streams sp0))%nat -> st_live (sp_get sp0 i) = true -> st_hls (sp_get sp0 i) = true ->
  ticks ops2 < p ->
  let sp := sexec sinit (ops1 ++ acc :: ops2) in
  sstep sp (GIdle i p) = (sp, RIdle false).
Proof.
  intros ops1 acc ops2 i p sp0 Hacc Hi Hl Hh Ht sp.
  unfold sp. rewrite sexec_app. fold sp0. simpl sexec.
  set (sp1 := fst (sstep sp0 acc)).
  assert (H1 : (i < length (sp_streams sp1))%nat /\ st_hls (sp_get sp1 i) = true /\
               st_hls_idle (sp_get sp1 i) = 0).
  { assert (Hu : negb (i <? length (sp_streams sp0))%nat || negb (hls_usable (sp_get sp0 i)) = false).
    { apply Nat.ltb_lt in Hi. unfold hls_usable. rewrite Hi, Hl, Hh. reflexivity. }
    apply Nat.ltb_lt in Hi.
    unfold sp1. destruct Hacc as [->|[n ->]]; simpl; rewrite Hu; simpl;
      (split; [rewrite lset_length; apply Nat.ltb_lt; exact Hi|]);
      rewrite sp_get_set, Nat.eqb_refl, Hi; simpl; auto. }
  destruct H1 as [Hi1 [Hh1 Ha1]].
  assert (Hok1 : age_ok sp1) by (apply age_ok_step, reach_age_ok).
  destruct (age_bound ops2 sp1 i Hok1 Hi1) as [H2 H3].
  set (spf := sexec sp1 ops2) in *.
  simpl. destruct (i <? length (sp_streams spf))%nat; simpl; [|reflexivity].
  assert (Hrec : hls_recent (sp_get spf i) p = true).
  { unfold hls_recent. rewrite H2, Hh1. simpl. apply Z.ltb_lt. lia. }
  rewrite Hrec. simpl. rewrite andb_false_r. reflexivity.
Qed.

(* (d) counts and listings range over exactly the keys that resolve to a live stream *)
Definition resolves (sp : sstate) (k : bytes) : bool :=
  match sp_resolve sp k with Some _ => true | None => false end.
Definition consumers_at (sp : sstate) (k : bytes) : Z :=
  match sp_resolve sp k with Some i => consumers (sp_get sp i) | None => 0 end.

Lemma live_keys_are_resolving sp l :
  (forall k i, In (k, i) l -> mlookup (sp_last sp) k = Some i) ->
  map fst (filter (sp_live sp) l) = filter (resolves sp) (map fst l).
Proof.
  induction l as [|[k i] l IH]; simpl; intros H; auto.
  unfold resolves at 1, sp_resolve. rewrite (H k i) by auto.
  unfold sp_live at 1. simpl.
  destruct (st_live (sp_get sp i)); simpl; rewrite IH; auto.
Qed.

Lemma live_consumers_sum sp l : forall acc,
  (forall k i, In (k, i) l -> mlookup (sp_last sp) k = Some i) ->
  fold_left (fun a e => a + consumers (sp_get sp (snd e))) (filter (sp_live sp) l) acc =
  fold_left (fun a k => a + consumers_at sp k) (map fst l) acc.
Proof.
  induction l as [|[k i] l IH]; simpl; intros acc H; auto.
  unfold consumers_at at 2, sp_resolve. rewrite (H k i) by auto.
  unfold sp_live at 1. simpl.
  destruct (st_live (sp_get sp i)); simpl; [|rewrite Z.add_0_r]; apply IH; auto.
Qed.

Theorem count_matches_live_set : forall ops,
  let sp := sexec sinit ops in
  let keys := map fst (sp_last sp) in
  snd (sstep sp GCount) =
    RCount (Z.of_nat (length (filter (resolves sp) keys)))
           (fold_left (fun a k => a + consumers_at sp k) keys 0) /\
  snd (sstep sp GList) = RList (sort_paths (filter (resolves sp) keys)) /\
  NoDup keys.
Proof.
  intros ops sp keys. destruct (reach_keys_ok ops) as [Hn Hk]. fold sp in Hn, Hk.
  assert (H : forall k i, In (k, i) (sp_last sp) -> mlookup (sp_last sp) k = Some i).
  { intros k i Hin. apply in_mlookup; auto. }
  simpl. unfold keys. rewrite <- live_keys_are_resolving by exact H.
  rewrite map_length, live_consumers_sum by exact H. auto.
Qed.

(* (e) shutdown: after UnregistAll no key resolves, every stream that resolved has ended, and the
   other streams are exactly as they were *)
Lemma unregist_all_step sp :
  fst (sstep sp GUnregistAll) = kill_list sp (filter (sp_live sp) (sp_last sp)).
Proof. reflexivity. Qed.

Lemma resolve_in_live sp k i :
  keys_ok sp -> (sp_resolve sp k = Some i <-> In (k, i) (filter (sp_live sp) (sp_last sp))).
Proof.
  intros [Hn Hk]. unfold sp_resolve. split.
  - intros H. destruct (mlookup (sp_last sp) k) as [j|] eqn:Hm; [|discriminate].
    destruct (st_live (sp_get sp j)) eqn:Hl; [|discriminate]. inversion H; subst j.
    apply filter_In. split; [apply mlookup_in; exact Hm | exact Hl].
  - intros H. apply filter_In in H as [H1 H2]. rewrite (in_mlookup _ _ _ Hn H1).
    unfold sp_live in H2; simpl in H2. rewrite H2. reflexivity.
Qed.

Lemma existsb_snd_in (l : list (bytes * nat)) k i :
  In (k, i) l -> existsb (fun e => Nat.eqb i (snd e)) l = true.
Proof.
  intros H. apply existsb_exists. exists (k, i). split; auto. simpl. apply Nat.eqb_refl.
Qed.

Theorem unregist_all_closes_everything : forall ops,
  let sp := sexec sinit ops in
  let sp' := fst (sstep sp GUnregistAll) in
  (forall k, sp_resolve sp' k = None) /\
  (forall k i, sp_resolve sp k = Some i -> st_live (sp_get sp' i) = false) /\
  (forall i, (forall k, sp_resolve sp k <> Some i) -> sp_get sp' i = sp_get sp i).
Proof.
  intros ops sp sp'. assert (Hok : keys_ok sp) by apply reach_keys_ok.
  unfold sp'. rewrite unregist_all_step.
  assert (Hdead : forall k i, sp_resolve sp k = Some i ->
            st_live (sp_get (kill_list sp (filter (sp_live sp) (sp_last sp))) i) = false).
  { intros k i Hr. apply (resolve_in_live sp k i Hok) in Hr.
    rewrite live_kill_list, (existsb_snd_in _ k i Hr). apply andb_false_r. }
  refine (conj _ (conj Hdead _)).
  - intros k. unfold sp_resolve. rewrite last_kill_list.
    destruct (mlookup (sp_last sp) k) as [i|] eqn:Hm; [|reflexivity].
    destruct (st_live (sp_get (kill_list sp _) i)) eqn:Hl; [|reflexivity].
    exfalso. assert (Hl0 : st_live (sp_get sp i) = true).
    { rewrite live_kill_list in Hl. apply andb_true_iff in Hl as [Hl _]. exact Hl. }
    assert (Hr : sp_resolve sp k = Some i) by (unfold sp_resolve; rewrite Hm, Hl0; reflexivity).
    rewrite (Hdead k i Hr) in Hl. discriminate.
  - intros i Hn. apply other_kill_list. intros [k j] He E. simpl in E. subst j.
    apply (Hn k). apply resolve_in_live; assumption.
Qed.

(* ------------------------------------------------------------------ *)
(* C03 through the registry: the accounting of consumers.  Per stream: while it is live the
   consumers ever attached are the attached ones plus the detached ones; once it has ended nobody
   is attached.  Hence released + attached = ever attached, always. *)
Definition strm_ok (s : strm) : Prop :=
  if st_live s then st_det_total s + st_rtp s + st_flv s = st_att_total s
  else st_rtp s = 0 /\ st_flv s = 0.
Definition acct_ok (sp : sstate) : Prop := forall i, strm_ok (sp_get sp i).

Lemma acct_ok_set sp i v : acct_ok sp -> strm_ok v -> acct_ok (sp_set sp i v).
Proof. intros H Hv j. rewrite sp_get_set. destruct (Nat.eqb j i && _)%bool; auto. Qed.

Lemma acct_ok_kill sp i : acct_ok sp -> acct_ok (sp_kill sp i).
Proof.
  intros H. rewrite sp_kill_eq. destruct (negb _); auto. apply acct_ok_set; auto.
  unfold strm_ok; simpl; auto.
Qed.

Lemma acct_ok_kill_list l : forall sp, acct_ok sp -> acct_ok (kill_list sp l).
Proof.
  induction l as [|e l IH]; intros sp H; simpl; auto. apply IH, acct_ok_kill, H.
Qed.

Lemma acct_ok_step sp o : acct_ok sp -> acct_ok (fst (sstep sp o)).
Proof.
  intros Hc. destruct o as [p hls|i|i|i|p| | |i flv|i flv|i r| |d|i|i|i n|]; simpl.
  - intros j. unfold sp_get; simpl. rewrite nth_snoc.
    destruct (j <? length (sp_streams sp))%nat; [apply Hc|].
    destruct (Nat.eqb j (length (sp_streams sp))); unfold strm_ok; simpl; auto.
  - destruct (i <? length (sp_streams sp))%nat; simpl; [|exact Hc].
    set (sp1 := {| sp_last := mstore (sp_last sp) (st_path (sp_get sp i)) i; sp_streams := sp_streams sp |}).
    assert (Hc1 : acct_ok sp1) by exact Hc.
    destruct (sp_resolve sp (st_path (sp_get sp i))) as [j|]; [|exact Hc1].
    destruct (Nat.eqb i j); [exact Hc|].
    destruct (consumers (sp_get sp j) <=? 0); simpl.
    + apply acct_ok_kill; exact Hc1.
    + apply acct_ok_set; [exact Hc1|]. exact (Hc j).
  - destruct (i <? length (sp_streams sp))%nat; simpl; [apply acct_ok_kill|]; exact Hc.
  - destruct (i <? length (sp_streams sp))%nat; simpl; [apply acct_ok_kill|]; exact Hc.
  - exact Hc.
  - exact Hc.
  - exact Hc.
  - destruct (i <? length (sp_streams sp))%nat; simpl; auto.
    destruct (st_live (sp_get sp i)) eqn:Hl; simpl; auto.
    pose proof (Hc i) as Hi. unfold strm_ok in Hi. rewrite Hl in Hi.
    apply acct_ok_set; auto. unfold strm_ok; simpl. destruct flv; lia.
  - destruct (i <? length (sp_streams sp))%nat; simpl; auto.
    destruct (st_live (sp_get sp i)) eqn:Hl; simpl; auto.
    destruct ((if flv then st_flv (sp_get sp i) else st_rtp (sp_get sp i)) <=? 0); simpl; auto.
    pose proof (Hc i) as Hi. unfold strm_ok in Hi. rewrite Hl in Hi.
    apply acct_ok_set; auto. unfold strm_ok; simpl. destruct flv; lia.
  - destruct (i <? length (sp_streams sp))%nat; simpl; auto.
    destruct ((consumers (sp_get sp i) <=? 0) && negb (hls_recent (sp_get sp i) r)); simpl; auto.
    apply acct_ok_kill; exact Hc.
  - apply (acct_ok_kill_list _ sp Hc).
  - intros j. change (sp_get _ j) with (sp_get (aged sp d) j).
    destruct (sp_get_aged sp d j) as [H|[H _]]; rewrite H; [exact (Hc j) | unfold strm_ok; simpl; auto].
  - destruct (negb (i <? length (sp_streams sp))%nat || negb (hls_usable (sp_get sp i))); simpl; auto.
    apply acct_ok_set; auto. exact (Hc i).
  - destruct (negb (i <? length (sp_streams sp))%nat || negb (hls_usable (sp_get sp i))); simpl; auto.
    apply acct_ok_set; auto. exact (Hc i).
  - destruct (negb (i <? length (sp_streams sp))%nat || negb (hls_usable (sp_get sp i))); simpl; auto.
    apply acct_ok_set; auto. exact (Hc i).
  - exact (fire_ind acct_ok (seq 0 (length (sp_streams sp))) (fun s i H => acct_ok_kill s i H) sp Hc).
Qed.

Lemma acct_ok_init : acct_ok sinit.
Proof. intros [|i]; unfold strm_ok; simpl; auto. Qed.

Lemma reach_acct_ok ops : acct_ok (sexec sinit ops).
Proof.
  assert (H : forall ops sp, acct_ok sp -> acct_ok (sexec sp ops)).
  { clear ops. induction ops as [|o ops IH]; intros sp Hc; simpl; auto. apply IH, acct_ok_step, Hc. }
  apply H, acct_ok_init.
Qed.

Lemma att_total_kill sp i j : st_att_total (sp_get (sp_kill sp i) j) = st_att_total (sp_get sp j).
Proof.
  rewrite sp_kill_eq. destruct (negb _); auto. rewrite sp_get_set.
  destruct (Nat.eqb j i && _)%bool eqn:E; auto.
  apply andb_true_iff in E as [E _]. apply Nat.eqb_eq in E; subst. reflexivity.
Qed.

Lemma att_total_kill_list l : forall sp j,
  st_att_total (sp_get (kill_list sp l) j) = st_att_total (sp_get sp j).
Proof.
  induction l as [|e l IH]; intros sp j; simpl; auto. rewrite IH. apply att_total_kill.
Qed.

(* every consumer ever attached to a stream is either still attached or has been released; a stream
   that has ended — for whatever reason — has no consumer attached, all of them were released; and
   the shutdown ends every stream that resolves, releasing all its consumers *)
Theorem registry_end_releases : forall ops,
  let sp := sexec sinit ops in
  (forall i, released (sp_get sp i) + consumers (sp_get sp i) = st_att_total (sp_get sp i)) /\
  (forall i, st_live (sp_get sp i) = false ->
     st_rtp (sp_get sp i) = 0 /\ st_flv (sp_get sp i) = 0 /\
     released (sp_get sp i) = st_att_total (sp_get sp i)) /\
  (let sp' := fst (sstep sp GUnregistAll) in
   forall k i, sp_resolve sp k = Some i ->
     st_live (sp_get sp' i) = false /\ st_rtp (sp_get sp' i) = 0 /\ st_flv (sp_get sp' i) = 0 /\
     released (sp_get sp' i) = st_att_total (sp_get sp i)).
Proof.
  intros ops sp.
  assert (Hgen : forall sp0, acct_ok sp0 ->
     (forall i, released (sp_get sp0 i) + consumers (sp_get sp0 i) = st_att_total (sp_get sp0 i)) /\
     (forall i, st_live (sp_get sp0 i) = false ->
        st_rtp (sp_get sp0 i) = 0 /\ st_flv (sp_get sp0 i) = 0 /\
        released (sp_get sp0 i) = st_att_total (sp_get sp0 i))).
  { intros sp0 H. split; intros i; pose proof (H i) as Hi; unfold strm_ok, released, consumers in *.
    - destruct (st_live (sp_get sp0 i)); lia.
    - intros Hl. rewrite Hl in *. tauto. }
  destruct (Hgen sp (reach_acct_ok ops)) as [H1 H2].
  refine (conj H1 (conj H2 _)).
  intros sp' k i Hr.
  assert (Hd : st_live (sp_get sp' i) = false).
  { exact (proj1 (proj2 (unregist_all_closes_everything ops)) k i Hr). }
  assert (Hacc : acct_ok sp') by (apply acct_ok_step, reach_acct_ok).
  destruct (proj2 (Hgen sp' Hacc) i Hd) as [Ha [Hb Hc]].
  repeat split; auto. rewrite Hc. unfold sp'. rewrite unregist_all_step. apply att_total_kill_list.
Qed.

(* the implementation model passes C03's registry oracle *)
Theorem reg_model_passes : forall ops,
  hist_wf sinit ops = true ->
  ok_reg_end_C03 ops (end_vec (g_streams (fst (grun rfixed rinit ops)))) = true.
Proof.
  intros ops Hwf. unfold ok_reg_end_C03. rewrite end_vec_refines by exact Hwf.
  unfold end_vec. rewrite map_map. simpl. apply zs_eqb_refl.
Qed.

(* ------------------------------------------------------------------ *)
(* 4. the behaviours before the repairs, refuted on the original variant *)

(* D5: Stream.Close did not touch the registry — a closed stream is still returned by Get *)
Example closed_stream_returned_refuted :
  exists ops,
    hist_wf sinit ops = true /\
    snd (grun roriginal rinit ops) = [RUnit; RUnit; RUnit; RGet (Some 0%nat)] /\
    st_live (sget (fst (grun roriginal rinit ops)) 0) = false /\
    srun sinit ops = [RUnit; RUnit; RUnit; RGet None] /\
    ok_hist_C05 ops (snd (grun roriginal rinit ops)) = false.
Proof.
  exists [GNew [47;97] true; GRegist 0; GClose 0; GGet [47;97]]. vm_compute. auto.
Qed.

(* D7: the idle decision counted RTP consumers only — a stream with an FLV consumer is closed *)
Example idle_close_ignores_flv_refuted :
  exists ops,
    hist_wf sinit ops = true /\
    snd (grun roriginal rinit ops) = [RUnit; RUnit; RUnit; RIdle true] /\
    st_live (sget (fst (grun roriginal rinit ops)) 0) = false /\
    srun sinit ops = [RUnit; RUnit; RUnit; RIdle false] /\
    ok_hist_C05 ops (snd (grun roriginal rinit ops)) = false.
Proof.
  exists [GNew [47;97] true; GRegist 0; GAttach 0 true; GIdle 0 0]. vm_compute. auto.
Qed.

(* ------------------------------------------------------------------ *)
(* 5. the registration race (D6): publishers A and B register streams 1 and 2 on the path where
   stream 0 may already be registered.  Repaired code: Regist = atomic Swap (install self, learn
   the replaced stream), then — as a separate step — retire the replaced stream (no consumers
   attached: Stream.close). *)

Inductive pc := PStart | PSwapped (replaced : option nat) | PDone.

(* the map part of GRegist as one atomic step *)
Definition reg_swap (g : rstate) (i : nat) : rstate * option nat :=
  let k := st_path (sget g i) in
  ({| g_map := mstore (g_map g) k i; g_streams := g_streams g |}, mlookup (g_map g) k).

Definition reg_retire (g : rstate) (i : nat) (r : option nat) : rstate :=
  match r with
  | Some j => if Nat.eqb i j then g else close_stream rfixed g j
  | None => g
  end.

Definition tstep (g : rstate) (i : nat) (c : pc) : option (rstate * pc) :=
  match c with
  | PStart => let '(g', r) := reg_swap g i in Some (g', PSwapped r)
  | PSwapped r => Some (reg_retire g i r, PDone)
  | PDone => None
  end.

Record cfg := { c_g : rstate; c_a : pc; c_b : pc }.

(* schedule element true = A moves, false = B moves; a finished thread's move is skipped *)
Definition race_step (c : cfg) (b : bool) : cfg :=
  if b then
    match tstep (c_g c) 1 (c_a c) with
    | Some (g', a') => {| c_g := g'; c_a := a'; c_b := c_b c |}
    | None => c
    end
  else
    match tstep (c_g c) 2 (c_b c) with
    | Some (g', b') => {| c_g := g'; c_a := c_a c; c_b := b' |}
    | None => c
    end.

Definition race_run (c : cfg) (sched : list bool) : cfg := fold_left race_step sched c.

Definition mkstrm (p : bytes) (l h : bool) : strm :=
  {| st_path := p; st_live := l; st_rtp := 0; st_flv := 0; st_retire := false; st_hls := h;
     st_att_total := 0; st_det_total := 0; st_hls_idle := 0; st_segs := 0 |}.

(* three streams on path p; stream 0 is registered and live iff [reg0] (else it has been closed) *)
Definition race_init (p : bytes) (h0 h1 h2 reg0 : bool) : cfg :=
  {| c_g := {| g_map := if reg0 then [(p, 0%nat)] else [];
               g_streams := [mkstrm p reg0 h0; mkstrm p true h1; mkstrm p true h2] |};
     c_a := PStart; c_b := PStart |}.

(* run without interleaving, swap then retire is GRegist (replaced stream without consumers) *)
Lemma swap_retire_is_regist g i :
  (i <? length (g_streams g))%nat = true ->
  mlookup (g_map g) (st_path (sget g i)) <> Some i ->
  (forall j, mlookup (g_map g) (st_path (sget g i)) = Some j -> consumers (sget g j) <= 0) ->
  reg_retire (fst (reg_swap g i)) i (snd (reg_swap g i)) = fst (gstep rfixed g (GRegist i)).
Proof.
  intros Hi Hne Hc. unfold gstep, reg_swap, reg_retire. rewrite Hi. simpl.
  destruct (mlookup (g_map g) (st_path (sget g i))) as [j|] eqn:Hm; [|reflexivity].
  destruct (Nat.eqb i j) eqn:E.
  - apply Nat.eqb_eq in E; subst j. exfalso; apply Hne; reflexivity.
  - specialize (Hc j eq_refl). apply Z.leb_le in Hc.
    change (sget {| g_map := mstore (g_map g) (st_path (sget g i)) i; g_streams := g_streams g |} j)
      with (sget g j).
    rewrite Hc. reflexivity.
Qed.

(* --- finite abstraction of the configurations the race can be in --- *)
Inductive sid := S0 | S1 | S2.
Definition nat_of (s : sid) : nat := match s with S0 => 0 | S1 => 1 | S2 => 2 end.
Definition sid_eqb (a b : sid) : bool :=
  match a, b with S0, S0 | S1, S1 | S2, S2 => true | _, _ => false end.

Record ast := { a_hd : option sid; a_l0 : bool; a_l1 : bool; a_l2 : bool }.
Inductive apc := AStart | ASwapped (replaced : option sid) | ADone.
Record acfg := { a_s : ast; a_a : apc; a_b : apc }.

Definition alive (s : ast) (j : sid) : bool :=
  match j with S0 => a_l0 s | S1 => a_l1 s | S2 => a_l2 s end.
Definition akill (s : ast) (j : sid) : ast :=
  match j with
  | S0 => {| a_hd := a_hd s; a_l0 := false; a_l1 := a_l1 s; a_l2 := a_l2 s |}
  | S1 => {| a_hd := a_hd s; a_l0 := a_l0 s; a_l1 := false; a_l2 := a_l2 s |}
  | S2 => {| a_hd := a_hd s; a_l0 := a_l0 s; a_l1 := a_l1 s; a_l2 := false |}
  end.
Definition aclose (s : ast) (j : sid) : ast :=
  if alive s j then
    let s' := akill s j in
    match a_hd s with
    | Some x => if sid_eqb j x
                then {| a_hd := None; a_l0 := a_l0 s'; a_l1 := a_l1 s'; a_l2 := a_l2 s' |} else s'
    | None => s'
    end
  else s.
Definition aswap (s : ast) (i : sid) : ast * option sid :=
  ({| a_hd := Some i; a_l0 := a_l0 s; a_l1 := a_l1 s; a_l2 := a_l2 s |}, a_hd s).
Definition aretire (s : ast) (i : sid) (r : option sid) : ast :=
  match r with Some j => if sid_eqb i j then s else aclose s j | None => s end.
Definition atstep (s : ast) (i : sid) (c : apc) : option (ast * apc) :=
  match c with
  | AStart => let '(s', r) := aswap s i in Some (s', ASwapped r)
  | ASwapped r => Some (aretire s i r, ADone)
  | ADone => None
  end.
Definition astep (c : acfg) (b : bool) : acfg :=
  if b then
    match atstep (a_s c) S1 (a_a c) with
    | Some (s', a') => {| a_s := s'; a_a := a'; a_b := a_b c |}
    | None => c
    end
  else
    match atstep (a_s c) S2 (a_b c) with
    | Some (s', b') => {| a_s := s'; a_a := a_a c; a_b := b' |}
    | None => c
    end.
Definition arun (c : acfg) (sched : list bool) : acfg := fold_left astep sched c.
Definition ainit (reg0 : bool) : acfg :=
  {| a_s := {| a_hd := if reg0 then Some S0 else None; a_l0 := reg0; a_l1 := true; a_l2 := true |};
     a_a := AStart; a_b := AStart |}.

Section RaceConc.
Variable p : bytes.
Variables h0 h1 h2 : bool.

Definition gof (s : ast) : rstate :=
  {| g_map := match a_hd s with Some x => [(p, nat_of x)] | None => [] end;
     g_streams := [mkstrm p (a_l0 s) h0; mkstrm p (a_l1 s) h1; mkstrm p (a_l2 s) h2] |}.
Definition conc_pc (c : apc) : pc :=
  match c with
  | AStart => PStart
  | ASwapped r => PSwapped (option_map nat_of r)
  | ADone => PDone
  end.
Definition conc (c : acfg) : cfg :=
  {| c_g := gof (a_s c); c_a := conc_pc (a_a c); c_b := conc_pc (a_b c) |}.

Lemma close_conc s j : close_stream rfixed (gof s) (nat_of j) = gof (aclose s j).
Proof.
  destruct s as [[[]|] [] [] []], j; unfold close_stream, gof;
    repeat (cbn; rewrite ?bytes_eqb_refl); reflexivity.
Qed.

Lemma swap_conc s i :
  reg_swap (gof s) (nat_of i) = (gof (fst (aswap s i)), option_map nat_of (snd (aswap s i))).
Proof.
  destruct s as [[[]|] l0 l1 l2], i; unfold reg_swap, gof, mstore, mdelete;
    repeat (cbn; rewrite ?bytes_eqb_refl); reflexivity.
Qed.

Lemma nat_of_eqb i j : Nat.eqb (nat_of i) (nat_of j) = sid_eqb i j.
Proof. destruct i, j; reflexivity. Qed.

Lemma retire_conc s i r :
  reg_retire (gof s) (nat_of i) (option_map nat_of r) = gof (aretire s i r).
Proof.
  destruct r as [j|]; simpl; [|reflexivity].
  rewrite nat_of_eqb. destruct (sid_eqb i j); [reflexivity | apply close_conc].
Qed.

Lemma tstep_conc s i c :
  tstep (gof s) (nat_of i) (conc_pc c) =
  match atstep s i c with Some (s', c') => Some (gof s', conc_pc c') | None => None end.
Proof.
  destruct c as [|r|].
  - unfold tstep, conc_pc. rewrite swap_conc. reflexivity.
  - unfold tstep, conc_pc. rewrite retire_conc. reflexivity.
  - reflexivity.
Qed.

Lemma step_conc c b : race_step (conc c) b = conc (astep c b).
Proof.
  unfold race_step, astep.
  change (c_g (conc c)) with (gof (a_s c)).
  change (c_a (conc c)) with (conc_pc (a_a c)). change (c_b (conc c)) with (conc_pc (a_b c)).
  destruct b.
  - pose proof (tstep_conc (a_s c) S1 (a_a c)) as H. change (nat_of S1) with 1%nat in H. rewrite H.
    destruct (atstep (a_s c) S1 (a_a c)) as [[s' a']|]; reflexivity.
  - pose proof (tstep_conc (a_s c) S2 (a_b c)) as H. change (nat_of S2) with 2%nat in H. rewrite H.
    destruct (atstep (a_s c) S2 (a_b c)) as [[s' b']|]; reflexivity.
Qed.

Lemma run_conc sched : forall c, race_run (conc c) sched = conc (arun c sched).
Proof.
  induction sched as [|b sched IH]; intros c; simpl; auto. rewrite step_conc. apply IH.
Qed.

Lemma init_conc reg0 : race_init p h0 h1 h2 reg0 = conc (ainit reg0).
Proof. destruct reg0; reflexivity. Qed.

End RaceConc.

(* --- the abstract system is finite: enumerate what is reachable, check that the set is closed
       under steps and that every finished configuration in it is good --- *)
Definition acfg_eq_dec : forall a b : acfg, {a = b} + {a <> b}.
Proof. repeat decide equality. Defined.

Definition amem (a : acfg) (l : list acfg) : bool :=
  existsb (fun x => if acfg_eq_dec a x then true else false) l.

Lemma amem_In a l : amem a l = true -> In a l.
Proof.
  unfold amem. intros H. apply existsb_exists in H as [x [Hin Hx]].
  destruct (acfg_eq_dec a x); [subst; exact Hin | discriminate].
Qed.

Fixpoint all_scheds (n : nat) : list (list bool) :=
  match n with
  | O => [[]]
  | S n' => [] :: flat_map (fun s => [true :: s; false :: s]) (all_scheds n')
  end.

(* each thread has two steps, so four moves suffice to reach everything *)
Definition areach (reg0 : bool) : list acfg := map (arun (ainit reg0)) (all_scheds 4).

Lemma areach_closed_check reg0 :
  forallb (fun c => amem (astep c true) (areach reg0) && amem (astep c false) (areach reg0)) (areach reg0) = true.
Proof. destruct reg0; vm_compute; reflexivity. Qed.

Lemma areach_closed reg0 c b : In c (areach reg0) -> In (astep c b) (areach reg0).
Proof.
  intros Hin. pose proof (areach_closed_check reg0) as H.
  rewrite forallb_forall in H. specialize (H c Hin). apply andb_true_iff in H as [Ht Hf].
  destruct b; apply amem_In; assumption.
Qed.

Lemma arun_in reg0 sched : forall c, In c (areach reg0) -> In (arun c sched) (areach reg0).
Proof.
  induction sched as [|b sched IH]; intros c Hin; simpl; auto. apply IH, areach_closed, Hin.
Qed.

Lemma ainit_in reg0 : In (ainit reg0) (areach reg0).
Proof. left. reflexivity. Qed.

Definition adone (c : acfg) : bool :=
  match a_a c, a_b c with ADone, ADone => true | _, _ => false end.
(* exactly one of streams 1, 2 holds the path and is live; the other and stream 0 are closed *)
Definition agood (c : acfg) : bool :=
  let s := a_s c in
  match a_hd s with
  | Some S1 => a_l1 s && negb (a_l2 s) && negb (a_l0 s)
  | Some S2 => a_l2 s && negb (a_l1 s) && negb (a_l0 s)
  | _ => false
  end.

Lemma areach_good_check reg0 :
  forallb (fun c => implb (adone c) (agood c)) (areach reg0) = true.
Proof. destruct reg0; vm_compute; reflexivity. Qed.

Lemma arace_good reg0 sched :
  adone (arun (ainit reg0) sched) = true -> agood (arun (ainit reg0) sched) = true.
Proof.
  intros Hd. pose proof (areach_good_check reg0) as H. rewrite forallb_forall in H.
  specialize (H _ (arun_in reg0 sched _ (ainit_in reg0))). rewrite Hd in H. exact H.
Qed.

(* for every schedule after which both publishers have finished: exactly one of streams 1 / 2 is
   registered under the path and is live, the other one has been closed, stream 0 is closed, and
   the registry has the single entry *)
Theorem regist_race_one_live : forall (p : bytes) (h0 h1 h2 reg0 : bool) (sched : list bool),
  let c := race_run (race_init p h0 h1 h2 reg0) sched in
  c_a c = PDone -> c_b c = PDone ->
  exists w l, ((w = 1 /\ l = 2) \/ (w = 2 /\ l = 1))%nat /\
    g_map (c_g c) = [(p, w)] /\
    st_live (sget (c_g c) w) = true /\
    st_live (sget (c_g c) l) = false /\
    st_live (sget (c_g c) 0) = false.
Proof.
  intros p h0 h1 h2 reg0 sched c. unfold c.
  rewrite init_conc, run_conc. intros Ha Hb.
  pose proof (arace_good reg0 sched) as Hg.
  destruct (arun (ainit reg0) sched) as [[hd l0 l1 l2] pa pb].
  simpl in Ha, Hb.
  assert (Hd : adone {| a_s := {| a_hd := hd; a_l0 := l0; a_l1 := l1; a_l2 := l2 |}; a_a := pa; a_b := pb |} = true).
  { destruct pa; try discriminate Ha. destruct pb; try discriminate Hb. reflexivity. }
  specialize (Hg Hd). unfold agood in Hg. simpl in Hg.
  destruct hd as [[]|]; try discriminate Hg;
    apply andb_true_iff in Hg as [Hg H0]; apply andb_true_iff in Hg as [Hw Hl];
    apply negb_true_iff in H0; apply negb_true_iff in Hl; subst.
  - exists 1%nat, 2%nat. cbn. auto.
  - exists 2%nat, 1%nat. cbn. auto.
Qed.

(* the hypotheses are satisfiable: e.g. A runs to completion, then B *)
Lemma regist_race_finishes : forall (p : bytes) (h0 h1 h2 reg0 : bool),
  let c := race_run (race_init p h0 h1 h2 reg0) [true; true; false; false] in
  c_a c = PDone /\ c_b c = PDone.
Proof.
  intros p h0 h1 h2 reg0 c. unfold c. rewrite init_conc, run_conc. destruct reg0; vm_compute; auto.
Qed.

(* --- the code before the repair: Load, and later Store + retire of the stream that was loaded --- *)
Inductive opc := OStart | OLoaded (old : option nat) | ODone.

(* the part of GRegist after the Load *)
Definition reg_store_retire (V : rvariant) (g : rstate) (i : nat) (r : option nat) : rstate :=
  let g1 := {| g_map := mstore (g_map g) (st_path (sget g i)) i; g_streams := g_streams g |} in
  match r with
  | Some j =>
      if Nat.eqb i j then g else
      let old := sget g1 j in
      if consumers old <=? 0 then close_stream V g1 j
      else sset g1 j {| st_path := st_path old; st_live := st_live old; st_rtp := st_rtp old;
                        st_flv := st_flv old; st_retire := true; st_hls := st_hls old;
                        st_att_total := st_att_total old; st_det_total := st_det_total old;
     st_hls_idle := st_hls_idle old; st_segs := st_segs old |}
  | None => g1
  end.

Lemma load_store_is_regist V g i :
  (i <? length (g_streams g))%nat = true ->
  reg_store_retire V g i (mlookup (g_map g) (st_path (sget g i))) = fst (gstep V g (GRegist i)).
Proof.
  intros Hi. unfold gstep, reg_store_retire. rewrite Hi. simpl.
  destruct (mlookup (g_map g) (st_path (sget g i))) as [j|]; [|reflexivity].
  destruct (Nat.eqb i j); [reflexivity|].
  destruct (consumers _ <=? 0); reflexivity.
Qed.

Definition otstep (g : rstate) (i : nat) (c : opc) : option (rstate * opc) :=
  match c with
  | OStart => Some (g, OLoaded (mlookup (g_map g) (st_path (sget g i))))
  | OLoaded r => Some (reg_store_retire roriginal g i r, ODone)
  | ODone => None
  end.

Record ocfg := { o_g : rstate; o_a : opc; o_b : opc }.

Definition orace_step (c : ocfg) (b : bool) : ocfg :=
  if b then
    match otstep (o_g c) 1 (o_a c) with
    | Some (g', a') => {| o_g := g'; o_a := a'; o_b := o_b c |}
    | None => c
    end
  else
    match otstep (o_g c) 2 (o_b c) with
    | Some (g', b') => {| o_g := g'; o_a := o_a c; o_b := b' |}
    | None => c
    end.
Definition orace_run (c : ocfg) (sched : list bool) : ocfg := fold_left orace_step sched c.
Definition orace_init (p : bytes) (h0 h1 h2 reg0 : bool) : ocfg :=
  {| o_g := c_g (race_init p h0 h1 h2 reg0); o_a := OStart; o_b := OStart |}.

(* D6: A loads, B loads (both see stream 0), A stores and retires 0, B stores and retires 0:
   stream 1 is overwritten, stays live and is registered nowhere — two live streams for one path *)
Example regist_race_leak_refuted :
  exists sched,
    let c := orace_run (orace_init [47;97] false false false true) sched in
    o_a c = ODone /\ o_b c = ODone /\
    g_map (o_g c) = [([47;97], 2%nat)] /\
    st_live (sget (o_g c) 1) = true /\ st_live (sget (o_g c) 2) = true /\
    st_live (sget (o_g c) 0) = false.
Proof. exists [true; false; true; false]. vm_compute. auto 10. Qed.

(* ------------------------------------------------------------------ *)
(* 6. non-vacuity: a well-formed history with three spellings of one path, a replacement of a stream
   that still has a consumer, the unregistration of the retired stream, lookups, counts and the
   idle close *)
Definition example_hist : list gop :=
  [ GNew [47;97] true;                     (* stream 0 on "/a" *)
    GRegist 0;
    GAttach 0 false;                       (* an RTP consumer *)
    GNew [32;47;65] false;                 (* stream 1 on " /A" -> "/a" *)
    GGet [65];                             (* "A" *)
    GRegist 1;                             (* replaces 0, which keeps its consumer and is retired *)
    GGet [47;97];
    GCount; GList;
    GUnregist 0;                           (* the retired stream: its successor must stay *)
    GGet [47;47;120;47;46;46;47;65];       (* "//x/../A" *)
    GCount;
    GIdle 1 5;                             (* no consumers, no HLS: closed *)
    GGet [47;97];
    GCount; GList ].

Example example_hist_ok :
  hist_wf sinit example_hist = true /\
  snd (grun rfixed rinit example_hist) = srun sinit example_hist /\
  srun sinit example_hist =
    [ RUnit; RUnit; RUnit; RUnit; RGet (Some 0%nat); RUnit; RGet (Some 1%nat);
      RCount 1 0; RList [[47;97]]; RUnit; RGet (Some 1%nat); RCount 1 0;
      RIdle true; RGet None; RCount 0 0; RList [] ].
Proof. vm_compute. auto. Qed.

(* replacement, late unregistration of the replaced stream, shutdown: stream 0 ("/a", one RTP
   consumer) is replaced by stream 1 (" /A", one FLV consumer); the old publisher leaves; the
   successor is still found; the shutdown ends it; both consumers have been released *)
Definition example_shutdown : list gop :=
  [ GNew [47;97] true; GRegist 0; GAttach 0 false;
    GNew [32;47;65] false; GRegist 1; GAttach 1 true;
    GUnregist 0; GGet [47;97]; GCount;
    GUnregistAll; GGet [47;97]; GCount ].

Example example_shutdown_ok :
  hist_wf sinit example_shutdown = true /\
  snd (grun rfixed rinit example_shutdown) = srun sinit example_shutdown /\
  srun sinit example_shutdown =
    [ RUnit; RUnit; RUnit; RUnit; RUnit; RUnit; RUnit; RGet (Some 1%nat); RCount 1 1;
      RUnit; RGet None; RCount 0 0 ] /\
  end_vec (g_streams (fst (grun rfixed rinit example_shutdown))) = [(false, 1, 1); (false, 1, 1)] /\
  end_vec (sp_streams (sexec sinit example_shutdown)) = [(false, 1, 1); (false, 1, 1)].
Proof. vm_compute. auto 10. Qed.

(* the seeded class "a playlist request is recorded as an access only when it can be served": the
   stream is polled a moment before the idle decision and is closed and unregistered all the same *)
Example hls_poll_unstamped_refuted :
  exists ops,
    hist_wf sinit ops = true /\
    snd (grun rpollunstamped rinit ops) = [RUnit; RUnit; RUnit; RHls false; RIdle true; RGet None] /\
    srun sinit ops = [RUnit; RUnit; RUnit; RHls false; RIdle false; RGet (Some 0%nat)] /\
    ok_hist_C05 ops (snd (grun rpollunstamped rinit ops)) = false.
Proof.
  exists [GNew [47;97] true; GRegist 0; GTick 5; GHlsPoll 0; GIdle 0 5; GGet [47;97]]. vm_compute. auto.
Qed.

(* HLS viewers only: polls of a playlist that cannot be served yet keep the stream, three segments make
   it servable, segments are found among the last three, and a silent period lets the idle task close *)
Definition example_hls : list gop :=
  [ GNew [47;97] true; GRegist 0; GTick 3; GHlsPoll 0; GTick 4; GIdle 0 5;
    GSeg 0; GSeg 0; GSeg 0; GSeg 0; GHlsPoll 0; GHlsSeg 0 1; GHlsSeg 0 0; GHlsSeg 0 7;
    GTick 4; GIdle 0 5; GTick 1; GIdle 0 5; GGet [47;97] ].

Example example_hls_ok :
  hist_wf sinit example_hls = true /\
  snd (grun rfixed rinit example_hls) = srun sinit example_hls /\
  srun sinit example_hls =
    [ RUnit; RUnit; RUnit; RHls false; RUnit; RIdle false;
      RUnit; RUnit; RUnit; RUnit; RHls true; RHls true; RHls false; RHls false;
      RUnit; RIdle false; RUnit; RIdle true; RGet None ].
Proof. vm_compute. auto. Qed.

(* ------------------------------------------------------------------ *)
(* spellings: the registry depends on a path only through CanonicalPath *)

(* o' is o with its path (if it has one) spelled differently *)
Definition respelled (o o' : gop) : Prop :=
  match o, o' with
  | GNew p h, GNew p' h' => canonical_path p = canonical_path p' /\ h = h'
  | GGet p, GGet p' => canonical_path p = canonical_path p'
  | _, _ => o = o'
  end.

Lemma respelled_refl o : respelled o o.
Proof. destruct o; simpl; auto. Qed.

Lemma sstep_respelled sp o o' : respelled o o' -> sstep sp o = sstep sp o'.
Proof.
  destruct o, o'; simpl; intros H; try discriminate H; try (inversion H; subst; reflexivity);
    try (destruct H as [H ->]); try rewrite H; reflexivity.
Qed.

Lemma gstep_respelled V g o o' : respelled o o' -> gstep V g o = gstep V g o'.
Proof.
  destruct o, o'; simpl; intros H; try discriminate H; try (inversion H; subst; reflexivity);
    try (destruct H as [H ->]); try rewrite H; reflexivity.
Qed.

Lemma op_wf_respelled sp o o' : respelled o o' -> op_wf sp o = op_wf sp o'.
Proof. destruct o, o'; simpl; intros H; try discriminate H; try (inversion H; subst; reflexivity); reflexivity. Qed.

(* re-spelling every path of a history changes no answer, no state, and not its well-formedness —
   of the specification and of the implementation model in every variant *)
Theorem spelling_independent : forall ops ops',
  Forall2 respelled ops ops' ->
  (forall sp, srun sp ops = srun sp ops' /\ sexec sp ops = sexec sp ops' /\ hist_wf sp ops = hist_wf sp ops') /\
  (forall V g, grun V g ops = grun V g ops').
Proof.
  intros ops ops' H. induction H as [|o o' ops ops' Ho Hf [IH1 IH2]].
  - split; intros; simpl; auto.
  - split.
    + intros sp. rewrite !hist_wf_cons. simpl srun. simpl sexec.
      rewrite (op_wf_respelled sp o o' Ho), (sstep_respelled sp o o' Ho).
      destruct (sstep sp o') as [sp1 r]. simpl. destruct (IH1 sp1) as [A [B C]].
      rewrite A, B, C. auto.
    + intros V g. simpl. rewrite (gstep_respelled V g o o' Ho).
      destruct (gstep V g o') as [g1 r]. rewrite (IH2 V g1). reflexivity.
Qed.

(* the canonical form is itself a spelling of the path (CanonicalPath is idempotent) *)
Lemma canonical_is_spelling p h :
  respelled (GNew p h) (GNew (canonical_path p) h) /\ respelled (GGet p) (GGet (canonical_path p)).
Proof. simpl. rewrite canonical_path_idem. auto. Qed.

(* every stream's path is in canonical form (so a lookup under a stream's own Path() is a lookup
   under its key) *)
Definition canon_ok (sp : sstate) : Prop :=
  Forall (fun s => canonical_path (st_path s) = st_path s) (sp_streams sp).

Lemma Forall_lset {A} (Q : A -> Prop) l i v :
  Forall Q l -> ((i < length l)%nat -> Q v) -> Forall Q (lset l i v).
Proof.
  revert i; induction l as [|x l IH]; intros [|i] H Hv; simpl; auto.
  - inversion H; subst. constructor; auto. apply Hv. simpl. lia.
  - inversion H; subst. constructor; auto. apply IH; auto. intros L. apply Hv. simpl. lia.
Qed.

Lemma canon_ok_set sp i v :
  canon_ok sp -> st_path v = st_path (sp_get sp i) -> canon_ok (sp_set sp i v).
Proof.
  intros H Hp. unfold canon_ok, sp_set; simpl. apply Forall_lset; auto.
  intros L. rewrite Hp. unfold sp_get. unfold canon_ok in H.
  rewrite Forall_forall in H. apply H. apply nth_In. exact L.
Qed.

Lemma canon_ok_kill sp i : canon_ok sp -> canon_ok (sp_kill sp i).
Proof. intros H. rewrite sp_kill_eq. destruct (negb _); auto. apply canon_ok_set; auto. Qed.

Lemma canon_ok_kill_list l : forall sp, canon_ok sp -> canon_ok (kill_list sp l).
Proof. induction l as [|e l IH]; intros sp H; simpl; auto. apply IH, canon_ok_kill, H. Qed.

Lemma canon_ok_step sp o : canon_ok sp -> canon_ok (fst (sstep sp o)).
Proof.
  intros Hc. destruct o as [p hls|i|i|i|p| | |i flv|i flv|i r| |d|i|i|i n|]; simpl; auto.
  - unfold canon_ok; simpl. apply Forall_app. split; [exact Hc|]. constructor; [|constructor].
    simpl. apply canonical_path_idem.
  - destruct (i <? length (sp_streams sp))%nat; simpl; [|exact Hc].
    set (sp1 := {| sp_last := mstore (sp_last sp) (st_path (sp_get sp i)) i; sp_streams := sp_streams sp |}).
    assert (Hc1 : canon_ok sp1) by exact Hc.
    destruct (sp_resolve sp (st_path (sp_get sp i))) as [j|]; [|exact Hc1].
    destruct (Nat.eqb i j); [exact Hc|].
    destruct (consumers (sp_get sp j) <=? 0); simpl.
    + apply canon_ok_kill; exact Hc1.
    + apply canon_ok_set; auto.
  - destruct (i <? length (sp_streams sp))%nat; simpl; [apply canon_ok_kill|]; exact Hc.
  - destruct (i <? length (sp_streams sp))%nat; simpl; [apply canon_ok_kill|]; exact Hc.
  - destruct (negb (i <? length (sp_streams sp))%nat || negb (st_live (sp_get sp i))); simpl; auto.
    apply canon_ok_set; auto.
  - destruct (negb (i <? length (sp_streams sp))%nat || negb (st_live (sp_get sp i))); simpl; auto.
    destruct ((if flv then st_flv (sp_get sp i) else st_rtp (sp_get sp i)) <=? 0); simpl; auto.
    apply canon_ok_set; auto.
  - destruct (i <? length (sp_streams sp))%nat; simpl; auto.
    destruct ((consumers (sp_get sp i) <=? 0) && negb (hls_recent (sp_get sp i) r)); simpl; auto.
    apply canon_ok_kill; exact Hc.
  - apply (canon_ok_kill_list _ sp Hc).
  - unfold canon_ok; simpl. apply Forall_map. simpl. exact Hc.
  - destruct (negb (i <? length (sp_streams sp))%nat || negb (hls_usable (sp_get sp i))); simpl; auto.
    apply canon_ok_set; auto.
  - destruct (negb (i <? length (sp_streams sp))%nat || negb (hls_usable (sp_get sp i))); simpl; auto.
    apply canon_ok_set; auto.
  - destruct (negb (i <? length (sp_streams sp))%nat || negb (hls_usable (sp_get sp i))); simpl; auto.
    apply canon_ok_set; auto.
  - exact (fire_ind canon_ok (seq 0 (length (sp_streams sp))) (fun s i H => canon_ok_kill s i H) sp Hc).
Qed.

Theorem paths_are_canonical : forall ops i,
  let sp := sexec sinit ops in
  (i < length (sp_streams sp))%nat ->
  canonical_path (st_path (sp_get sp i)) = st_path (sp_get sp i) /\
  snd (sstep sp (GGet (st_path (sp_get sp i)))) = RGet (sp_resolve sp (st_path (sp_get sp i))).
Proof.
  intros ops i sp Hi.
  assert (H : forall ops sp, canon_ok sp -> canon_ok (sexec sp ops)).
  { clear. induction ops as [|o ops IH]; intros sp Hc; simpl; auto. apply IH, canon_ok_step, Hc. }
  assert (Hc : canon_ok sp) by (apply H; constructor).
  assert (E : canonical_path (st_path (sp_get sp i)) = st_path (sp_get sp i)).
  { unfold canon_ok in Hc. rewrite Forall_forall in Hc. apply Hc. apply nth_In. exact Hi. }
  split; [exact E|]. simpl. rewrite E. reflexivity.
Qed.

(* two spellings of one canonical path are one key: a stream created under spelling p and registered
   is what a lookup under any spelling p' of the same canonical path — the canonical form itself
   included — returns *)
Theorem spelling_same_key : forall sp p p' hls,
  canonical_path p = canonical_path p' ->
  let i := length (sp_streams sp) in
  let sp1 := fst (sstep sp (GNew p hls)) in
  let sp2 := fst (sstep sp1 (GRegist i)) in
  snd (sstep sp2 (GGet p')) = RGet (Some i) /\ snd (sstep sp2 (GGet (canonical_path p))) = RGet (Some i).
Proof.
  intros sp p p' hls Hc i sp1 sp2.
  assert (Hget : sp_get sp1 i = {| st_path := canonical_path p; st_live := true; st_rtp := 0; st_flv := 0;
                                   st_retire := false; st_hls := hls; st_att_total := 0; st_det_total := 0;
                                   st_hls_idle := 0; st_segs := 0 |}).
  { unfold sp1, sp_get, i. simpl. rewrite nth_snoc, Nat.ltb_irrefl, Nat.eqb_refl. reflexivity. }
  assert (Hi : (i < length (sp_streams sp1))%nat).
  { unfold sp1, i. simpl. rewrite app_length. simpl. lia. }
  assert (Hl : st_live (sp_get sp1 i) = true) by (rewrite Hget; reflexivity).
  pose proof (regist_then_resolves sp1 i Hi Hl) as Hr. fold sp2 in Hr. rewrite Hget in Hr. simpl in Hr.
  split; simpl.
  - rewrite <- Hc. rewrite Hr. reflexivity.
  - rewrite canonical_path_idem, Hr. reflexivity.
Qed.

(* two spellings of one history over the key "/a/b/" (trailing slash kept): "/a/b/", " /A//b/./",
   "a/b/x/../" against "/A/B//", "/a/b/.//", "\t/a/./b/" *)
Definition example_spelled_1 : list gop :=
  [ GNew [47;97;47;98;47] true; GRegist 0; GNew [32;47;65;47;47;98;47;46;47] false; GRegist 1;
    GGet [97;47;98;47;120;47;46;46;47]; GCount ].
Definition example_spelled_2 : list gop :=
  [ GNew [47;65;47;66;47;47] true; GRegist 0; GNew [47;97;47;98;47;46;47;47] false; GRegist 1;
    GGet [9;47;97;47;46;47;98;47]; GCount ].

Example example_spelled_ok :
  Forall2 respelled example_spelled_1 example_spelled_2 /\
  hist_wf sinit example_spelled_1 = true /\
  srun sinit example_spelled_1 = [RUnit; RUnit; RUnit; RUnit; RGet (Some 1%nat); RCount 1 0] /\
  srun sinit example_spelled_2 = [RUnit; RUnit; RUnit; RUnit; RGet (Some 1%nat); RCount 1 0].
Proof.
  split; [|vm_compute; auto].
  repeat constructor; vm_compute; auto.
Qed.

(* ------------------------------------------------------------------ *)
(* the registry's own pending tasks: which stream a retire task is bound to *)

(* what one run of its retire task (if it has one) does to a stream *)
Definition fired (s : strm) : strm :=
  if st_retire s && st_live s && (consumers s <=? 0) && negb (hls_recent s retire_period) then dead_of s else s.

Lemma fire_one_get sp i j :
  sp_get (if st_retire (sp_get sp i) then fst (sp_idle_task sp i retire_period) else sp) j =
  if Nat.eqb j i then fired (sp_get sp i) else sp_get sp j.
Proof.
  unfold fired. simpl. destruct (st_live (sp_get sp i)) eqn:Hl.
  - assert (Hi := live_lt _ _ Hl). apply Nat.ltb_lt in Hi. rewrite Hi. simpl negb. cbv iota.
    destruct (st_retire (sp_get sp i)); simpl.
    + destruct ((consumers (sp_get sp i) <=? 0) && negb (hls_recent (sp_get sp i) retire_period)); simpl.
      * rewrite sp_kill_eq, Hl. simpl. rewrite sp_get_set, Hi, andb_true_r. reflexivity.
      * destruct (Nat.eqb j i) eqn:E; [apply Nat.eqb_eq in E; subst|]; reflexivity.
    + destruct (Nat.eqb j i) eqn:E; [apply Nat.eqb_eq in E; subst|]; reflexivity.
  - rewrite andb_false_r. simpl.
    assert (H : forall s : sstate, s = sp -> sp_get s j = if Nat.eqb j i then sp_get sp i else sp_get sp j).
    { intros s ->. destruct (Nat.eqb j i) eqn:E; [apply Nat.eqb_eq in E; subst|]; reflexivity. }
    apply H. destruct (st_retire (sp_get sp i)); auto.
    destruct (negb (i <? length (sp_streams sp))%nat); simpl; auto.
    destruct ((consumers (sp_get sp i) <=? 0) && negb (hls_recent (sp_get sp i) retire_period)); simpl; auto.
    rewrite sp_kill_eq, Hl. reflexivity.
Qed.

Lemma existsb_eqb_notin j l : ~ In j l -> existsb (Nat.eqb j) l = false.
Proof.
  induction l as [|x l IH]; simpl; intros H; auto.
  rewrite IH by tauto. destruct (Nat.eqb j x) eqn:E; auto. apply Nat.eqb_eq in E. subst. tauto.
Qed.

Lemma fire_list_get l : forall sp j,
  NoDup l ->
  sp_get (fire_list sp l) j = if existsb (Nat.eqb j) l then fired (sp_get sp j) else sp_get sp j.
Proof.
  induction l as [|i l IH]; intros sp j Hn; [reflexivity|].
  inversion Hn as [|? ? Hni Hn']; subst.
  change (fire_list sp (i :: l))
    with (fire_list (if st_retire (sp_get sp i) then fst (sp_idle_task sp i retire_period) else sp) l).
  rewrite IH by exact Hn'. rewrite fire_one_get. simpl existsb.
  destruct (Nat.eqb j i) eqn:E; simpl.
  - apply Nat.eqb_eq in E; subst j. rewrite existsb_eqb_notin by exact Hni. reflexivity.
  - reflexivity.
Qed.

(* the effect of firing every pending task: each stream, independently, undergoes its own task *)
Theorem fire_effect : forall sp j, sp_get (fst (sstep sp GFire)) j = fired (sp_get sp j).
Proof.
  intros sp j. rewrite fire_step, fire_list_get by apply seq_NoDup.
  destruct (existsb (Nat.eqb j) (seq 0 (length (sp_streams sp)))) eqn:E; [reflexivity|].
  assert (L : (length (sp_streams sp) <= j)%nat).
  { destruct (Nat.lt_ge_cases j (length (sp_streams sp))) as [L|L]; auto.
    exfalso. assert (X : existsb (Nat.eqb j) (seq 0 (length (sp_streams sp))) = true).
    { apply existsb_exists. exists j. split; [apply in_seq; lia | apply Nat.eqb_refl]. }
    congruence. }
  unfold sp_get. rewrite nth_overflow by exact L. reflexivity.
Qed.

(* a fired task closes only the stream it was created for (the one replaced while it had consumers)
   and only when that stream is unused; registering a stream never puts that stream under a task *)
Theorem retire_task_targets_old_stream : forall ops j,
  let sp := sexec sinit ops in
  let sp' := fst (sstep sp GFire) in
  (st_retire (sp_get sp j) = false -> sp_get sp' j = sp_get sp j) /\
  (st_live (sp_get sp j) = true -> st_live (sp_get sp' j) = false ->
     st_retire (sp_get sp j) = true /\ st_rtp (sp_get sp j) = 0 /\ st_flv (sp_get sp j) = 0 /\
     (st_hls (sp_get sp j) = false \/ retire_period <= st_hls_idle (sp_get sp j))) /\
  (forall i, st_retire (sp_get (fst (sstep sp (GRegist i))) i) = st_retire (sp_get sp i)).
Proof.
  intros ops j sp sp'. unfold sp'. rewrite fire_effect. unfold fired.
  refine (conj _ (conj _ _)).
  - intros H. rewrite H. reflexivity.
  - intros Hl. rewrite Hl, andb_true_r.
    destruct (st_retire (sp_get sp j)); simpl; [|congruence].
    destruct (consumers (sp_get sp j) <=? 0) eqn:C; simpl; [|congruence].
    destruct (hls_recent (sp_get sp j) retire_period) eqn:R; simpl; [congruence|].
    intros _. destruct (reach_cnt_ok ops j) as [Hr Hf]. fold sp in Hr, Hf.
    apply Z.leb_le in C. unfold consumers in C. unfold hls_recent in R.
    apply andb_false_iff in R. rewrite Z.ltb_ge in R. repeat split; auto; lia.
  - intros i. simpl. destruct (i <? length (sp_streams sp))%nat; simpl; auto.
    destruct (sp_resolve sp (st_path (sp_get sp i))) as [x|]; auto.
    destruct (Nat.eqb i x) eqn:E; auto. apply Nat.eqb_neq in E.
    destruct (consumers (sp_get sp x) <=? 0); simpl.
    + rewrite other_kill by exact E. reflexivity.
    + rewrite sp_get_set. apply Nat.eqb_neq in E. rewrite E. reflexivity.
Qed.

(* the retired stream is closed by its task once its consumers have left (and HLS has been silent
   for the period): the task never forgets it *)
Theorem retired_stream_eventually_closed : forall sp j,
  st_retire (sp_get sp j) = true ->
  st_rtp (sp_get sp j) = 0 -> st_flv (sp_get sp j) = 0 ->
  (st_hls (sp_get sp j) = false \/ retire_period <= st_hls_idle (sp_get sp j)) ->
  st_live (sp_get (fst (sstep sp GFire)) j) = false.
Proof.
  intros sp j Hr H1 H2 H3. rewrite fire_effect. unfold fired. rewrite Hr. simpl.
  destruct (st_live (sp_get sp j)) eqn:Hl; simpl; [|exact Hl].
  assert (C : consumers (sp_get sp j) <=? 0 = true) by (apply Z.leb_le; unfold consumers; lia).
  assert (R : hls_recent (sp_get sp j) retire_period = false).
  { unfold hls_recent. apply andb_false_iff. rewrite Z.ltb_ge. exact H3. }
  rewrite C, R. reflexivity.
Qed.

(* A (with a viewer) is replaced by B: the task posted watches A.  It fires while the viewer is
   attached: nothing happens, B stays.  The viewer leaves, the task fires: A is closed, B stays. *)
Definition example_retire : list gop :=
  [ GNew [47;97] false; GRegist 0; GAttach 0 false; GNew [47;65] false; GRegist 1;
    GFire; GGet [47;97]; GDetach 0 false; GFire; GGet [47;97]; GCount ].

Example example_retire_ok :
  hist_wf sinit example_retire = true /\
  snd (grun rfixed rinit example_retire) = srun sinit example_retire /\
  srun sinit example_retire =
    [ RUnit; RUnit; RUnit; RUnit; RUnit; RUnit; RGet (Some 1%nat); RUnit; RUnit; RGet (Some 1%nat); RCount 1 0 ] /\
  end_vec (sp_streams (sexec sinit example_retire)) = [(false, 1, 1); (true, 0, 0)].
Proof. vm_compute. auto. Qed.
