(* C05: proofs about Model/Registry.v.
   1. the implementation model (registry map with delete/store, close removing the stream from the
      map) answers exactly like the specification (last registered stream per key, filtered by
      liveness) on every well-formed history;
   2. the oracle accepts the model;
   3. readable consequences of the specification;
   4. the pre-repair behaviours (D5, D7) refuted;
   5. the registration race of two publishers (D6): all schedules for Swap+retire, witness schedule
      for Load/Store. *)
From Coq Require Import ZArith List Bool Lia Arith.
From V Require Import Bytes StrGo Registry BytesLemmas.
Import ListNotations.
Open Scope Z_scope.

(* ------------------------------------------------------------------ *)
(* lists *)

Lemma lset_length {A} (l : list A) i v : length (lset l i v) = length l.
Proof. revert i; induction l as [|x l IH]; intros [|i]; simpl; auto. Qed.

Lemma nth_lset {A} (l : list A) i k v d :
  nth k (lset l i v) d = if (Nat.eqb k i && (i <? length l)%nat)%bool then v else nth k l d.
Proof.
  revert i k; induction l as [|x l IH]; intros [|i] [|k]; simpl; auto.
  - rewrite andb_false_r. reflexivity.
  - rewrite IH. reflexivity.
Qed.

Lemma nth_snoc {A} (l : list A) x j d :
  nth j (l ++ [x]) d = if (j <? length l)%nat then nth j l d else if Nat.eqb j (length l) then x else d.
Proof.
  destruct (j <? length l)%nat eqn:E.
  - apply Nat.ltb_lt in E. apply app_nth1; exact E.
  - apply Nat.ltb_ge in E. rewrite app_nth2 by exact E.
    destruct (Nat.eqb j (length l)) eqn:E2.
    + apply Nat.eqb_eq in E2. subst. rewrite Nat.sub_diag. reflexivity.
    + apply Nat.eqb_neq in E2. destruct (j - length l)%nat as [|[|n]] eqn:E3; simpl; auto. lia.
Qed.

Lemma filter_comm {A} (f g : A -> bool) l : filter f (filter g l) = filter g (filter f l).
Proof.
  induction l as [|x l IH]; simpl; auto.
  destruct (g x) eqn:G, (f x) eqn:F; simpl; rewrite ?G, ?F, ?IH; reflexivity.
Qed.

Lemma filter_andb {A} (f g : A -> bool) l : filter (fun x => f x && g x) l = filter g (filter f l).
Proof.
  induction l as [|x l IH]; simpl; auto.
  destruct (f x) eqn:F; simpl; [destruct (g x); rewrite IH; reflexivity | exact IH].
Qed.

Lemma filter_id_in {A} (f : A -> bool) l : (forall x, In x l -> f x = true) -> filter f l = l.
Proof.
  induction l as [|x l IH]; simpl; intros H; auto.
  rewrite (H x) by auto. f_equal. apply IH. intros; apply H; auto.
Qed.

Lemma NoDup_map_filter {A B} (h : A -> B) (f : A -> bool) l :
  NoDup (map h l) -> NoDup (map h (filter f l)).
Proof.
  induction l as [|x l IH]; simpl; intros H; auto.
  inversion H as [|? ? Hn Hd]; subst.
  destruct (f x); simpl; auto. constructor; auto.
  intros Hin. apply Hn. apply in_map_iff in Hin as [y [E Hy]].
  apply filter_In in Hy as [Hy _]. apply in_map_iff. exists y; auto.
Qed.

(* ------------------------------------------------------------------ *)
(* the association list *)

Lemma mlookup_notin m k : ~ In k (map fst m) -> mlookup m k = None.
Proof.
  induction m as [|[k' v] m IH]; simpl; intros H; auto.
  destruct (bytes_eqb k' k) eqn:E.
  - apply bytes_eqb_eq in E. exfalso; apply H; auto.
  - apply IH. intros Hin; apply H; auto.
Qed.

Lemma mlookup_in m k i : mlookup m k = Some i -> In (k, i) m.
Proof.
  induction m as [|[k' v] m IH]; simpl; intros H; [discriminate|].
  destruct (bytes_eqb k' k) eqn:E.
  - apply bytes_eqb_eq in E. inversion H; subst; auto.
  - right; auto.
Qed.

Lemma in_mlookup m k i : NoDup (map fst m) -> In (k, i) m -> mlookup m k = Some i.
Proof.
  induction m as [|[k' v] m IH]; simpl; intros Hn Hin; [contradiction|].
  inversion Hn as [|? ? Hni Hnd]; subst.
  destruct Hin as [E|Hin].
  - inversion E; subst. rewrite bytes_eqb_refl. reflexivity.
  - destruct (bytes_eqb k' k) eqn:E.
    + apply bytes_eqb_eq in E; subst. exfalso. apply Hni.
      apply in_map_iff. exists (k, i); auto.
    + auto.
Qed.

Lemma mdelete_keys m k : ~ In k (map fst (mdelete m k)).
Proof.
  unfold mdelete. intros H. apply in_map_iff in H as [[k' v] [E H]]. simpl in E; subst k'.
  apply filter_In in H as [_ H]. simpl in H. rewrite bytes_eqb_refl in H. discriminate.
Qed.

Lemma mlookup_mdelete_same m k : mlookup (mdelete m k) k = None.
Proof. apply mlookup_notin, mdelete_keys. Qed.

Lemma mlookup_mdelete_other m k k' : k <> k' -> mlookup (mdelete m k) k' = mlookup m k'.
Proof.
  intros Hne. induction m as [|[k0 v] m IH]; simpl; auto.
  destruct (bytes_eqb k0 k) eqn:E; simpl.
  - apply bytes_eqb_eq in E; subst k0.
    apply bytes_eqb_neq in Hne. rewrite Hne. exact IH.
  - destruct (bytes_eqb k0 k'); auto.
Qed.

Lemma mlookup_app m1 m2 k :
  mlookup (m1 ++ m2) k = match mlookup m1 k with Some v => Some v | None => mlookup m2 k end.
Proof.
  induction m1 as [|[k0 v] m1 IH]; simpl; auto. destruct (bytes_eqb k0 k); auto.
Qed.

Lemma mlookup_mstore_same m k v : mlookup (mstore m k v) k = Some v.
Proof.
  unfold mstore. rewrite mlookup_app, mlookup_mdelete_same. simpl. rewrite bytes_eqb_refl. reflexivity.
Qed.

Lemma mlookup_mstore_other m k v k' : k <> k' -> mlookup (mstore m k v) k' = mlookup m k'.
Proof.
  intros Hne. unfold mstore. rewrite mlookup_app, mlookup_mdelete_other by exact Hne. simpl.
  apply bytes_eqb_neq in Hne. rewrite Hne. destruct (mlookup m k'); reflexivity.
Qed.

Lemma mlookup_filter (f : bytes * nat -> bool) m k :
  NoDup (map fst m) ->
  mlookup (filter f m) k =
  match mlookup m k with Some i => if f (k, i) then Some i else None | None => None end.
Proof.
  induction m as [|[k0 v] m IH]; simpl; intros Hn; auto.
  inversion Hn as [|? ? Hni Hnd]; subst.
  destruct (bytes_eqb k0 k) eqn:E.
  - apply bytes_eqb_eq in E; subst k0.
    destruct (f (k, v)) eqn:F; simpl.
    + rewrite bytes_eqb_refl. reflexivity.
    + apply mlookup_notin. intros Hin. apply Hni.
      apply in_map_iff in Hin as [y [Ey Hy]]. apply filter_In in Hy as [Hy _].
      apply in_map_iff. exists y; auto.
  - destruct (f (k0, v)); simpl; [rewrite E|]; auto.
Qed.

Lemma NoDup_keys_mstore m k v : NoDup (map fst m) -> NoDup (map fst (mstore m k v)).
Proof.
  intros Hn. unfold mstore. rewrite map_app. simpl.
  apply NoDup_app_iff_local.
  - unfold mdelete. apply NoDup_map_filter. exact Hn.
  - apply mdelete_keys.
Qed.

Lemma in_mstore m k v e : In e (mstore m k v) -> e = (k, v) \/ (In e m /\ fst e <> k).
Proof.
  unfold mstore, mdelete. intros H. apply in_app_iff in H as [H|[H|[]]]; auto.
  apply filter_In in H as [H1 H2]. right. split; auto.
  apply negb_true_iff in H2. apply bytes_eqb_neq in H2. exact H2.
Qed.

(* ------------------------------------------------------------------ *)
(* specification state: basic facts *)

Definition dead_of (s : strm) : strm :=
  {| st_path := st_path s; st_live := false; st_rtp := 0; st_flv := 0; st_retire := false; st_hls := st_hls s |}.

Lemma sp_kill_eq sp i :
  sp_kill sp i = if negb (st_live (sp_get sp i)) then sp else sp_set sp i (dead_of (sp_get sp i)).
Proof. reflexivity. Qed.

Lemma sp_get_set sp i v j :
  sp_get (sp_set sp i v) j =
  if (Nat.eqb j i && (i <? length (sp_streams sp))%nat)%bool then v else sp_get sp j.
Proof. unfold sp_get, sp_set; simpl. apply nth_lset. Qed.

Lemma live_lt sp i : st_live (sp_get sp i) = true -> (i < length (sp_streams sp))%nat.
Proof.
  unfold sp_get. intros H. destruct (Nat.lt_ge_cases i (length (sp_streams sp))) as [L|L]; auto.
  rewrite nth_overflow in H by exact L. discriminate.
Qed.

Lemma length_kill sp i : length (sp_streams (sp_kill sp i)) = length (sp_streams sp).
Proof. rewrite sp_kill_eq. destruct (negb _); simpl; auto. apply lset_length. Qed.

Lemma last_kill sp i : sp_last (sp_kill sp i) = sp_last sp.
Proof. rewrite sp_kill_eq. destruct (negb _); reflexivity. Qed.

Lemma live_kill sp i j :
  st_live (sp_get (sp_kill sp i) j) = st_live (sp_get sp j) && negb (Nat.eqb j i).
Proof.
  rewrite sp_kill_eq. destruct (st_live (sp_get sp i)) eqn:L; simpl.
  - rewrite sp_get_set. destruct (Nat.eqb j i) eqn:E; simpl.
    + apply live_lt in L. apply Nat.ltb_lt in L. rewrite L. simpl. rewrite andb_false_r. reflexivity.
    + rewrite andb_true_r. reflexivity.
  - destruct (Nat.eqb j i) eqn:E; simpl.
    + apply Nat.eqb_eq in E; subst. rewrite L. reflexivity.
    + rewrite andb_true_r. reflexivity.
Qed.

Lemma path_kill sp i j : st_path (sp_get (sp_kill sp i) j) = st_path (sp_get sp j).
Proof.
  rewrite sp_kill_eq. destruct (negb _); auto. rewrite sp_get_set.
  destruct (Nat.eqb j i && _)%bool eqn:E; auto.
  apply andb_true_iff in E as [E _]. apply Nat.eqb_eq in E; subst. reflexivity.
Qed.

Lemma other_kill sp i j : j <> i -> sp_get (sp_kill sp i) j = sp_get sp j.
Proof.
  intros Hne. rewrite sp_kill_eq. destruct (negb _); auto. rewrite sp_get_set.
  apply Nat.eqb_neq in Hne. rewrite Hne. reflexivity.
Qed.

(* ------------------------------------------------------------------ *)
(* the simulation: the implementation state is a function of the specification state *)

Definition absg (sp : sstate) : rstate :=
  {| g_map := filter (sp_live sp) (sp_last sp); g_streams := sp_streams sp |}.

(* keys of [sp_last] are unique and each entry's stream exists and has the key as its path *)
Definition keys_ok (sp : sstate) : Prop :=
  NoDup (map fst (sp_last sp)) /\
  forall k i, In (k, i) (sp_last sp) -> (i < length (sp_streams sp))%nat /\ st_path (sp_get sp i) = k.

Lemma absg_init : absg sinit = rinit.
Proof. reflexivity. Qed.

Lemma keys_ok_init : keys_ok sinit.
Proof. split; simpl; [constructor | intros ? ? []]. Qed.

Lemma mlookup_absg sp k : keys_ok sp -> mlookup (g_map (absg sp)) k = sp_resolve sp k.
Proof.
  intros [Hn _]. unfold absg, sp_resolve; simpl. rewrite mlookup_filter by exact Hn. reflexivity.
Qed.

Lemma keys_ok_set sp i v :
  keys_ok sp -> st_path v = st_path (sp_get sp i) -> keys_ok (sp_set sp i v).
Proof.
  intros [Hn Hk] Hp. split; [exact Hn|]. simpl. intros k j Hin.
  destruct (Hk k j Hin) as [H1 H2]. rewrite lset_length. split; auto.
  rewrite sp_get_set. destruct (Nat.eqb j i && _)%bool eqn:E; auto.
  apply andb_true_iff in E as [E _]. apply Nat.eqb_eq in E; subst. congruence.
Qed.

Lemma keys_ok_kill sp i : keys_ok sp -> keys_ok (sp_kill sp i).
Proof.
  intros H. rewrite sp_kill_eq. destruct (negb _); auto. apply keys_ok_set; auto.
Qed.

Lemma keys_ok_mstore sp i :
  keys_ok sp -> (i < length (sp_streams sp))%nat ->
  keys_ok {| sp_last := mstore (sp_last sp) (st_path (sp_get sp i)) i; sp_streams := sp_streams sp |}.
Proof.
  intros [Hn Hk] Hi. split; simpl.
  - apply NoDup_keys_mstore; exact Hn.
  - intros k j Hin. apply in_mstore in Hin as [E|[Hin _]].
    + inversion E; subst. split; auto.
    + apply Hk; exact Hin.
Qed.

Lemma keys_ok_new sp s :
  keys_ok sp -> keys_ok {| sp_last := sp_last sp; sp_streams := sp_streams sp ++ [s] |}.
Proof.
  intros [Hn Hk]. split; [exact Hn|]. simpl. intros k j Hin.
  destruct (Hk k j Hin) as [H1 H2]. rewrite app_length; simpl. split; [lia|].
  unfold sp_get in *; simpl. rewrite nth_snoc. apply Nat.ltb_lt in H1. rewrite H1. exact H2.
Qed.

(* updating a stream without changing its liveness leaves the registry unchanged *)
Lemma absg_set sp i v :
  st_live v = st_live (sp_get sp i) -> sset (absg sp) i v = absg (sp_set sp i v).
Proof.
  intros Hl. unfold sset, absg; simpl. f_equal.
  apply filter_ext. intros e. unfold sp_live. rewrite sp_get_set.
  destruct (Nat.eqb (snd e) i && _)%bool eqn:E; auto.
  apply andb_true_iff in E as [E _]. apply Nat.eqb_eq in E. rewrite E. symmetry; exact Hl.
Qed.

(* a new stream does not change the liveness of registered ones *)
Lemma absg_new sp s :
  keys_ok sp ->
  absg {| sp_last := sp_last sp; sp_streams := sp_streams sp ++ [s] |} =
  {| g_map := g_map (absg sp); g_streams := sp_streams sp ++ [s] |}.
Proof.
  intros [_ Hk]. unfold absg; simpl. f_equal.
  apply filter_ext_in. intros [k i] Hin. destruct (Hk k i Hin) as [H1 _].
  unfold sp_live, sp_get; simpl. rewrite nth_snoc. apply Nat.ltb_lt in H1. rewrite H1. reflexivity.
Qed.

Lemma absg_mstore sp k i :
  st_live (sp_get sp i) = true ->
  absg {| sp_last := mstore (sp_last sp) k i; sp_streams := sp_streams sp |} =
  {| g_map := mstore (g_map (absg sp)) k i; g_streams := sp_streams sp |}.
Proof.
  intros Hl. unfold absg; simpl. f_equal. unfold mstore.
  rewrite filter_app. simpl.
  change (sp_live {| sp_last := mdelete (sp_last sp) k ++ [(k, i)]; sp_streams := sp_streams sp |})
    with (sp_live sp).
  replace (sp_live sp (k, i)) with true by (symmetry; exact Hl).
  f_equal. unfold mdelete. apply filter_comm.
Qed.

(* killing the stream registered under its path removes exactly its entry *)
Lemma kill_filter_in sp i v :
  keys_ok sp -> st_live (sp_get sp i) = true -> st_live v = false ->
  mlookup (sp_last sp) (st_path (sp_get sp i)) = Some i ->
  filter (sp_live (sp_set sp i v)) (sp_last sp) =
  mdelete (filter (sp_live sp) (sp_last sp)) (st_path (sp_get sp i)).
Proof.
  intros [Hn Hk] Hl Hv Hm.
  assert (Hlt := live_lt _ _ Hl). apply Nat.ltb_lt in Hlt.
  transitivity (filter (fun e => sp_live sp e && negb (Nat.eqb (snd e) i)) (sp_last sp)).
  - apply filter_ext. intros e. unfold sp_live. rewrite sp_get_set, Hlt, andb_true_r.
    destruct (Nat.eqb (snd e) i); simpl; [rewrite andb_false_r; exact Hv | rewrite andb_true_r; reflexivity].
  - rewrite filter_andb. unfold mdelete.
    rewrite (filter_comm (fun e => negb (Nat.eqb (snd e) i)) (sp_live sp)).
    rewrite (filter_comm (fun e => negb (bytes_eqb (fst e) (st_path (sp_get sp i)))) (sp_live sp)).
    f_equal.
    apply filter_ext_in. intros [k j] Hin. simpl. f_equal.
    destruct (Nat.eqb j i) eqn:E.
    + apply Nat.eqb_eq in E; subst j. destruct (Hk k i Hin) as [_ Hp]. rewrite Hp.
      symmetry. apply bytes_eqb_refl.
    + symmetry. apply bytes_eqb_neq. intros Ek. subst k.
      apply (in_mlookup _ _ _ Hn) in Hin. rewrite Hm in Hin. inversion Hin; subst.
      rewrite Nat.eqb_refl in E. discriminate.
Qed.

(* killing a stream that is not the one registered under its path changes nothing in the registry *)
Lemma kill_filter_out sp i v :
  keys_ok sp -> st_live (sp_get sp i) = true ->
  mlookup (sp_last sp) (st_path (sp_get sp i)) <> Some i ->
  filter (sp_live (sp_set sp i v)) (sp_last sp) = filter (sp_live sp) (sp_last sp).
Proof.
  intros [Hn Hk] Hl Hm.
  apply filter_ext_in. intros [k j] Hin. unfold sp_live. simpl. rewrite sp_get_set.
  destruct (Nat.eqb j i) eqn:E; simpl; auto.
  apply Nat.eqb_eq in E; subst j. exfalso. apply Hm.
  destruct (Hk k i Hin) as [_ Hp]. rewrite Hp. apply in_mlookup; auto.
Qed.

(* Stream.close on the implementation = kill in the specification *)
Lemma close_is_kill sp i : keys_ok sp -> close_stream rfixed (absg sp) i = absg (sp_kill sp i).
Proof.
  intros Hok. unfold close_stream. rewrite sp_kill_eq.
  change (sget (absg sp) i) with (sp_get sp i).
  destruct (st_live (sp_get sp i)) eqn:Hl; simpl negb; cbv iota; [|reflexivity].
  change (v_unmap rfixed) with true. cbv iota.
  fold (dead_of (sp_get sp i)).
  change (g_map (sset (absg sp) i (dead_of (sp_get sp i)))) with (g_map (absg sp)).
  rewrite mlookup_absg by exact Hok. unfold sp_resolve.
  destruct (mlookup (sp_last sp) (st_path (sp_get sp i))) as [j|] eqn:Hm.
  - destruct (Nat.eq_dec i j) as [E|E].
    + subst j. rewrite Hl, Nat.eqb_refl. unfold absg; simpl. f_equal.
      symmetry. apply kill_filter_in; auto.
    + assert (Hout : filter (sp_live (sp_set sp i (dead_of (sp_get sp i)))) (sp_last sp) =
                     filter (sp_live sp) (sp_last sp)).
      { apply kill_filter_out; auto. rewrite Hm. intros X; inversion X; congruence. }
      apply Nat.eqb_neq in E.
      destruct (st_live (sp_get sp j)); [rewrite E|]; unfold sset, absg; simpl; f_equal; auto.
  - unfold sset, absg; simpl; f_equal. symmetry. apply kill_filter_out; auto.
    rewrite Hm. discriminate.
Qed.

Lemma close_after_delete g i :
  st_live (sget g i) = true -> mlookup (g_map g) (st_path (sget g i)) = Some i ->
  close_stream rfixed {| g_map := mdelete (g_map g) (st_path (sget g i)); g_streams := g_streams g |} i =
  close_stream rfixed g i.
Proof.
  intros Hl Hm. unfold close_stream.
  change (sget {| g_map := mdelete (g_map g) (st_path (sget g i)); g_streams := g_streams g |} i)
    with (sget g i).
  rewrite Hl. simpl. rewrite mlookup_mdelete_same, Hm, Nat.eqb_refl. reflexivity.
Qed.

(* ------------------------------------------------------------------ *)
(* one step: the implementation started in [absg sp] answers like the specification and ends in
   [absg] of the specification's next state *)

Definition op_wf (sp : sstate) (o : gop) : bool :=
  match o with
  | GRegist i => (i <? length (sp_streams sp))%nat && st_live (sp_get sp i)
  | _ => true
  end.

Lemma hist_wf_cons sp o ops : hist_wf sp (o :: ops) = op_wf sp o && hist_wf (fst (sstep sp o)) ops.
Proof. reflexivity. Qed.

Lemma keys_ok_step sp o : keys_ok sp -> keys_ok (fst (sstep sp o)).
Proof.
  intros Hok. destruct o as [p hls|i|i|i|p| | |i flv|i flv|i r]; simpl.
  - apply keys_ok_new; exact Hok.
  - destruct (i <? length (sp_streams sp))%nat eqn:Hi; simpl; [|exact Hok].
    apply Nat.ltb_lt in Hi.
    assert (Hok1 := keys_ok_mstore sp i Hok Hi).
    destruct (sp_resolve sp (st_path (sp_get sp i))) as [j|]; [|exact Hok1].
    destruct (Nat.eqb i j); [exact Hok|].
    destruct (consumers (sp_get sp j) <=? 0); simpl.
    + apply keys_ok_kill; exact Hok1.
    + apply keys_ok_set; auto.
  - destruct (i <? length (sp_streams sp))%nat; simpl; [apply keys_ok_kill|]; exact Hok.
  - destruct (i <? length (sp_streams sp))%nat; simpl; [apply keys_ok_kill|]; exact Hok.
  - exact Hok.
  - exact Hok.
  - exact Hok.
  - destruct (negb (i <? length (sp_streams sp))%nat || negb (st_live (sp_get sp i))); simpl; auto.
    apply keys_ok_set; auto.
  - destruct (negb (i <? length (sp_streams sp))%nat || negb (st_live (sp_get sp i))); simpl; auto.
    destruct ((if flv then st_flv (sp_get sp i) else st_rtp (sp_get sp i)) <=? 0); simpl; auto.
    apply keys_ok_set; auto.
  - destruct (i <? length (sp_streams sp))%nat; simpl; auto.
    destruct ((consumers (sp_get sp i) <=? 0) && negb (r && st_hls (sp_get sp i))); simpl; auto.
    apply keys_ok_kill; exact Hok.
Qed.

Lemma step_refines sp o :
  keys_ok sp -> op_wf sp o = true ->
  gstep rfixed (absg sp) o = (absg (fst (sstep sp o)), snd (sstep sp o)).
Proof.
  intros Hok Hwf. destruct o as [p hls|i|i|i|p| | |i flv|i flv|i r].
  - (* GNew *) simpl. rewrite absg_new by exact Hok. reflexivity.
  - (* GRegist *)
    simpl in Hwf. apply andb_true_iff in Hwf as [Hi Hl].
    unfold gstep, sstep. change (g_streams (absg sp)) with (sp_streams sp).
    change (sget (absg sp) i) with (sp_get sp i).
    rewrite Hi. simpl negb. cbv iota.
    rewrite mlookup_absg by exact Hok.
    apply Nat.ltb_lt in Hi.
    assert (Hok1 := keys_ok_mstore sp i Hok Hi).
    rewrite <- (absg_mstore sp (st_path (sp_get sp i)) i Hl).
    set (sp1 := {| sp_last := mstore (sp_last sp) (st_path (sp_get sp i)) i; sp_streams := sp_streams sp |}) in *.
    destruct (sp_resolve sp (st_path (sp_get sp i))) as [j|] eqn:Hr; [|reflexivity].
    destruct (Nat.eqb i j); [reflexivity|].
    change (sget (absg sp1) j) with (sp_get sp j).
    destruct (consumers (sp_get sp j) <=? 0).
    + rewrite close_is_kill by exact Hok1. reflexivity.
    + rewrite absg_set by reflexivity. reflexivity.
  - (* GUnregist *)
    unfold gstep, sstep. change (g_streams (absg sp)) with (sp_streams sp).
    change (sget (absg sp) i) with (sp_get sp i).
    destruct (i <? length (sp_streams sp))%nat eqn:Hi; simpl negb; cbv iota; [|reflexivity].
    simpl fst; simpl snd. f_equal.
    rewrite <- close_is_kill by exact Hok.
    destruct (mlookup (g_map (absg sp)) (st_path (sp_get sp i))) as [j|] eqn:Hm; [|reflexivity].
    destruct (Nat.eqb i j) eqn:E; [|reflexivity].
    apply Nat.eqb_eq in E; subst j.
    apply (close_after_delete (absg sp) i); [|exact Hm].
    rewrite mlookup_absg in Hm by exact Hok. unfold sp_resolve in Hm.
    change (sget (absg sp) i) with (sp_get sp i).
    destruct (mlookup (sp_last sp) (st_path (sp_get sp i))) as [j|]; [|discriminate].
    destruct (st_live (sp_get sp j)) eqn:Hl; [|discriminate]. inversion Hm; subst. exact Hl.
  - (* GClose *)
    unfold gstep, sstep. change (g_streams (absg sp)) with (sp_streams sp).
    destruct (i <? length (sp_streams sp))%nat; simpl negb; cbv iota; [|reflexivity].
    rewrite close_is_kill by exact Hok. reflexivity.
  - (* GGet *) simpl. rewrite <- mlookup_absg by exact Hok. reflexivity.
  - (* GCount *) reflexivity.
  - (* GList *) reflexivity.
  - (* GAttach *)
    unfold gstep, sstep. change (g_streams (absg sp)) with (sp_streams sp).
    change (sget (absg sp) i) with (sp_get sp i).
    destruct (i <? length (sp_streams sp))%nat; simpl negb; simpl orb; [|reflexivity].
    destruct (st_live (sp_get sp i)) eqn:Hl; simpl negb; cbv iota; [|reflexivity].
    rewrite absg_set by (simpl; congruence). reflexivity.
  - (* GDetach *)
    unfold gstep, sstep. change (g_streams (absg sp)) with (sp_streams sp).
    change (sget (absg sp) i) with (sp_get sp i).
    destruct (i <? length (sp_streams sp))%nat; simpl negb; simpl orb; [|reflexivity].
    destruct (st_live (sp_get sp i)) eqn:Hl; simpl negb; cbv iota; [|reflexivity].
    destruct ((if flv then st_flv (sp_get sp i) else st_rtp (sp_get sp i)) <=? 0); [reflexivity|].
    rewrite absg_set by (simpl; congruence). reflexivity.
  - (* GIdle *)
    unfold gstep, sstep. change (g_streams (absg sp)) with (sp_streams sp).
    change (sget (absg sp) i) with (sp_get sp i).
    destruct (i <? length (sp_streams sp))%nat; simpl negb; cbv iota; [|reflexivity].
    change (v_anycons rfixed) with true. cbv iota.
    destruct ((consumers (sp_get sp i) <=? 0) && negb (r && st_hls (sp_get sp i))); [|reflexivity].
    rewrite close_is_kill by exact Hok. reflexivity.
Qed.

Lemma run_refines ops : forall sp,
  keys_ok sp -> hist_wf sp ops = true -> snd (grun rfixed (absg sp) ops) = srun sp ops.
Proof.
  induction ops as [|o ops IH]; intros sp Hok Hwf; [reflexivity|].
  rewrite hist_wf_cons in Hwf. apply andb_true_iff in Hwf as [Hw1 Hw2].
  simpl. rewrite (step_refines sp o Hok Hw1).
  assert (Hok' := keys_ok_step sp o Hok).
  specialize (IH _ Hok' Hw2).
  destruct (sstep sp o) as [sp' r]. simpl in *.
  destruct (grun rfixed (absg sp') ops) as [g2 rs]. simpl in *. f_equal. exact IH.
Qed.

(* 1. refinement: on every well-formed history the implementation model answers as the specification *)
Theorem impl_refines_spec : forall ops,
  hist_wf sinit ops = true -> snd (grun rfixed rinit ops) = srun sinit ops.
Proof.
  intros ops Hwf. rewrite <- absg_init. apply run_refines; [apply keys_ok_init | exact Hwf].
Qed.

Lemma bytes_list_eqb_refl (x : list bytes) :
  (fix eq (x y : list bytes) := match x, y with
     | [], [] => true | a :: x', b :: y' => bytes_eqb a b && eq x' y' | _, _ => false end) x x = true.
Proof. induction x as [|a x IH]; auto. rewrite bytes_eqb_refl. exact IH. Qed.

Lemma gout_eqb_refl a : gout_eqb a a = true.
Proof.
  destruct a as [|[x|]|a b|x|x]; simpl; auto.
  - apply Nat.eqb_refl.
  - rewrite !Z.eqb_refl. reflexivity.
  - apply bytes_list_eqb_refl.
  - destruct x; reflexivity.
Qed.

Lemma gouts_eqb_refl a : gouts_eqb a a = true.
Proof. induction a as [|x a IH]; simpl; auto. rewrite gout_eqb_refl. exact IH. Qed.

(* 2. the oracle applied to the implementation accepts the model *)
Theorem model_passes : forall ops,
  hist_wf sinit ops = true -> ok_hist_C05 ops (snd (grun rfixed rinit ops)) = true.
Proof.
  intros ops Hwf. unfold ok_hist_C05. rewrite impl_refines_spec by exact Hwf. apply gouts_eqb_refl.
Qed.
