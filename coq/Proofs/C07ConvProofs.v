(* C07 — the converters never panic on what the depacketisers emit, and the
   composed pipeline survives every input and converts a later legal suffix
   exactly at every stage. *)
From Coq Require Import ZArith List Bool Lia ZifyBool.
From V Require Import Val Bytes BytesLemmas C06Rtp C06NalDepack C06H264Depack C06H265Depack C06AacDepack
  C06SyncClock C06Demux C06BaseProofs C07Cache C07Contain C07Proofs C07Conv.
From V Require C08Flv C09Adts C09TsFrame.
Import ListNotations.
Open Scope Z_scope.

(* a frame the depacketisers can emit: video frames are never empty *)
Definition flv_frame_ok (f : C08Flv.frame) : Prop := C08Flv.f_kind f = 0 -> C08Flv.f_data f <> [].
Definition ts_frame_ok (c : C09TsFrame.cframe) : Prop := C09TsFrame.c_video c = true -> C09TsFrame.c_pay c <> [].
(* the H.265 record is built from decoder output; "the decoders return a value
   or an error" is the C08 model's convention: 21 general bytes *)
Definition hvcc_built (c : C08Flv.cfg) : Prop := C08Flv.c_hevc c = true -> length (C08Flv.c_hvcc c) = 21%nat.

Lemma packetize_some c f : flv_frame_ok f -> exists ts, C08Flv.packetize c f = Some ts.
Proof.
  intros OK. unfold C08Flv.packetize. destruct (C08Flv.f_kind f =? 0) eqn:K.
  - assert (K' : C08Flv.f_kind f = 0) by lia. specialize (OK K').
    destruct (C08Flv.f_data f); [contradiction|]. eauto.
  - destruct (C08Flv.f_kind f =? 1); [destruct (C08Flv.c_aac c)|]; eauto.
Qed.

Lemma headers_some c : psets_known c = true -> hvcc_built c -> exists h, flv_headers c = Some h.
Proof.
  intros PK HB. unfold flv_headers, C08Flv.vseq_tag. unfold psets_known in PK.
  destruct (C08Flv.c_hevc c) eqn:HE.
  - unfold C08Flv.hvcc. rewrite (HB HE). simpl. eauto.
  - apply andb_true_iff in PK as [L _]. unfold C08Flv.avcc.
    destruct (C08Flv.c_sps c) as [|a [|b [|d [|e r]]]]; rewrite ?zlen_cons, ?zlen_nil in L; try lia. eauto.
Qed.

(* flvpack_total: one round of the muxer loop, any metadata, any state *)
Theorem flv_step_total c started f : hvcc_built c -> flv_frame_ok f -> flv_step c started f <> None.
Proof.
  intros HB OK. unfold flv_step. destruct (packetize_some c f OK) as [ts E]. rewrite E.
  destruct started; [discriminate|].
  destruct (psets_known c) eqn:PK; simpl; [|discriminate].
  destruct (headers_some c PK HB) as [h ->]. discriminate.
Qed.

Lemma flv_run_app c : forall a s b,
  flv_run c s (a ++ b) =
  match flv_run c s a with
  | None => None
  | Some (s1, t1) => match flv_run c s1 b with None => None | Some (s2, t2) => Some (s2, t1 ++ t2) end
  end.
Proof.
  induction a as [|f r IH]; intros s b; simpl.
  - destruct (flv_run c s b) as [[? ?]|]; reflexivity.
  - destruct (flv_step c s f) as [[st ts]|]; [|reflexivity]. rewrite IH.
    destruct (flv_run c st r) as [[s1 t1]|]; [|reflexivity].
    destruct (flv_run c s1 b) as [[s2 t2]|]; [|reflexivity]. rewrite app_assoc. reflexivity.
Qed.

Lemma flv_run_total c : hvcc_built c -> forall fs s, Forall flv_frame_ok fs -> exists b T, flv_run c s fs = Some (b, T).
Proof.
  intros HB. induction fs as [|f r IH]; intros s OK; simpl; [eauto|].
  inversion OK as [|? ? O1 O2]; subst.
  destruct (flv_step c s f) as [[st ts]|] eqn:E; [|exfalso; eapply flv_step_total; eauto].
  destruct (IH st O2) as (b & T & ->). eauto.
Qed.

Lemma flv_run_started c : forall fs, Forall flv_frame_ok fs -> flv_run c true fs = Some (true, C08Flv.mux_frames c fs).
Proof.
  induction fs as [|f r IH]; intros OK; simpl; [reflexivity|].
  inversion OK as [|? ? O1 O2]; subst. destruct (packetize_some c f O1) as [ts E]. rewrite E, (IH O2). reflexivity.
Qed.

(* after any frames, the tags of a later frame list are exactly C08's one-tag-per-frame list *)
Lemma flv_run_suffix c pre sfx :
  hvcc_built c -> psets_known c = true -> Forall flv_frame_ok pre -> Forall flv_frame_ok sfx ->
  exists b T0, flv_run c false (pre ++ sfx) = Some (b, T0 ++ C08Flv.mux_frames c sfx).
Proof.
  intros HB PK O1 O2. rewrite flv_run_app.
  destruct (flv_run_total c HB pre false O1) as (s1 & t1 & ->).
  destruct s1.
  - rewrite (flv_run_started c sfx O2). eauto.
  - destruct sfx as [|f r].
    + simpl. exists false, t1. reflexivity.
    + inversion O2 as [|? ? Of Or]; subst. simpl flv_run. unfold flv_step. rewrite PK. simpl negb. cbv iota.
      destruct (headers_some c PK HB) as [h ->]. destruct (packetize_some c f Of) as [ts E]. rewrite E.
      rewrite (flv_run_started c r Or). simpl C08Flv.mux_frames. rewrite E.
      exists true, (t1 ++ h). rewrite <- !app_assoc. reflexivity.
Qed.

(* tspack_total *)
Theorem ts_step_total sps pps a c : ts_frame_ok c -> ts_step sps pps a c <> TsPanic.
Proof.
  intros OK. unfold ts_step. destruct (C09TsFrame.c_video c) eqn:V.
  - unfold C09TsFrame.packetize_h264, C09TsFrame.nal_type. specialize (OK V).
    destruct (C09TsFrame.c_pay c); [contradiction|].
    destruct (C09TsFrame.is_paramset_type _); discriminate.
  - destruct a; [|discriminate]. unfold C09TsFrame.packetize_aac. discriminate.
Qed.

Lemma ts_run_spec sps pps a : forall cs, Forall ts_frame_ok cs -> ts_run sps pps a cs = Some (ts_spec sps pps a cs).
Proof.
  induction cs as [|c r IH]; intros OK; simpl; [reflexivity|].
  inversion OK as [|? ? O1 O2]; subst. pose proof (ts_step_total sps pps a c O1) as NP.
  rewrite (IH O2). unfold ts_spec. simpl. destruct (ts_step sps pps a c); try contradiction; reflexivity.
Qed.

Lemma ts_spec_app sps pps a x y : ts_spec sps pps a (x ++ y) = ts_spec sps pps a x ++ ts_spec sps pps a y.
Proof. unfold ts_spec. apply flat_map_app. Qed.

(* ---- what the demuxer emits ---- *)
Definition oframe_ok (o : oframe) : Prop := o_mt o = 0 -> o_pl o <> [].

Lemma dstep_frames_ok c clock st e st' fs pn :
  dst_ok c st = true -> dstep c clock st e = (st', fs, pn) -> Forall oframe_ok fs.
Proof.
  intros OK E. destruct e as [p|data]; cbn [dstep] in E.
  - unfold media_step in E. destruct c; unfold dst_ok in OK.
    + destruct (h264_step_total (d_g st) p OK) as (g' & r & E1 & _ & _ & _ & NE). rewrite E1 in E.
      injection E as <- <- <-. apply Forall_forall. intros o Ho. apply in_map_iff in Ho as (f & <- & Hf).
      intros _. cbn [to_oframe o_pl]. apply NE. exact Hf.
    + destruct (h265_step_total (d_g st) p OK) as (g' & r & E1 & _ & _ & _ & NE). rewrite E1 in E.
      injection E as <- <- <-. apply Forall_forall. intros o Ho. apply in_map_iff in Ho as (f & <- & Hf).
      intros _. cbn [to_oframe o_pl]. apply NE. exact Hf.
    + injection E as <- <- <-. apply Forall_forall. intros o Ho. apply in_map_iff in Ho as (f & <- & Hf).
      intros M. cbn [to_oframe o_mt mt_of] in M. discriminate.
  - destruct (d_base st =? 0); [destruct (sr_decode data)|]; injection E as <- <- <-; constructor.
Qed.

Lemma drun_frames_ok c clock : forall es st st' fs pn,
  dst_ok c st = true -> forallb ev_ok es = true -> drun c clock st es = (st', fs, pn) -> Forall oframe_ok fs.
Proof.
  induction es as [|e r IH]; intros st st' fs pn OK EV E; simpl in E.
  - injection E as <- <- <-. constructor.
  - simpl in EV. apply andb_true_iff in EV as [E1 E2].
    destruct (dstep_total c clock st e OK E1) as (st1 & f1 & S1 & OK1 & _ & _).
    pose proof (dstep_frames_ok c clock st e _ _ _ OK S1) as F1.
    rewrite S1 in E. destruct (drun c clock st1 r) as [[st2 f2] p2] eqn:E3. injection E as <- <- <-.
    apply Forall_app. split; auto. eapply IH; eauto.
Qed.

Lemma combine_app {A B} (a1 a2 : list A) (b1 b2 : list B) :
  length a1 = length b1 -> combine (a1 ++ a2) (b1 ++ b2) = combine a1 b1 ++ combine a2 b2.
Proof.
  revert b1; induction a1 as [|x a1 IH]; intros [|y b1] L; simpl in *; try discriminate; auto.
  injection L as L. rewrite IH; auto.
Qed.

Lemma flv_in_ok ds fs : Forall oframe_ok fs -> Forall flv_frame_ok (flv_in ds fs).
Proof.
  intros H. unfold flv_in. apply Forall_forall. intros f Hf. apply in_map_iff in Hf as ([d o] & <- & Hin).
  apply in_combine_r in Hin. rewrite Forall_forall in H. exact (H o Hin).
Qed.
Lemma ts_in_ok ds fs : Forall oframe_ok fs -> Forall ts_frame_ok (ts_in ds fs).
Proof.
  intros H. unfold ts_in. apply Forall_forall. intros f Hf. apply in_map_iff in Hf as ([d o] & <- & Hin).
  apply in_combine_r in Hin. rewrite Forall_forall in H. intros V. cbn [to_ts_frame C09TsFrame.c_video C09TsFrame.c_pay fst snd] in *.
  apply (H o Hin). lia.
Qed.


(* ================= the composition ================= *)
(* reader -> cache classification -> (fan-out: no parsing) -> RTP demuxer -> FLV muxer / TS muxer.
   Stage results relied on:
     C07_classify_total_h264/h265    (this property)  cache classification never panics
     C07_stream_resync         (this property)  demuxer: no panic on es, suffix frames exact
     depack frames non-empty   (C07_depack_total_h264/h265)
     C08Flv.packetize / vseq_tag / mux_frames   (C08 model; meaning of the tags: C08 theorems
                                                 flv_one_tag_per_frame, flv_video_faithful, flv_audio_faithful)
     C09TsFrame.packetize_h264 / packetize_aac  (C09 model; meaning of the frames: C09 theorems) *)
Theorem stream_survives c clock seq0 k es items fc sps pps a d1 d2 :
  forallb ev_ok es = true -> suffix_ok c items = true ->
  hvcc_built fc -> psets_known fc = true ->
  exists st1 f1 st2,
    (* cache classification of every arriving packet *)
    forallb classify_ev (es ++ suffix_events c seq0 k items) = true /\
    (* demuxer *)
    drun c clock dst_init es = (st1, f1, false) /\
    let sfx := suffix_frames c clock (d_base st1) items in
    drun c clock dst_init (es ++ suffix_events c seq0 k items) = (st2, f1 ++ sfx, false) /\
    (length d1 = length f1 -> length d2 = length sfx ->
     (* FLV muxer: never panics; the tags of the suffix are exactly one per frame *)
     (exists b T0, flv_run fc false (flv_in (d1 ++ d2) (f1 ++ sfx))
                   = Some (b, T0 ++ C08Flv.mux_frames fc (flv_in d2 sfx))) /\
     (* TS muxer: never panics; the frames of the suffix are exactly the packetisers' *)
     (exists F0, ts_run sps pps a (ts_in (d1 ++ d2) (f1 ++ sfx))
                 = Some (F0 ++ ts_spec sps pps a (ts_in d2 sfx)))).
Proof.
  intros EV OK HB PK.
  destruct (stream_resync c clock seq0 k es items EV OK) as (st1 & f1 & st2 & E1 & E2).
  exists st1, f1, st2. split; [|split; [exact E1|]].
  { apply forallb_forall. intros e _. destruct e as [p|d]; simpl; auto.
    pose proof (classify264_total (p_pl p)). pose proof (classify265_total (p_pl p)).
    destruct (classify264 (p_pl p)); [|contradiction]. destruct (classify265 (p_pl p)); [|contradiction]. reflexivity. }
  cbv zeta. split; [exact E2|]. intros L1 L2.
  assert (FO : Forall oframe_ok (f1 ++ suffix_frames c clock (d_base st1) items)).
  { (* all frames of the whole run come out of drun: first part by totality, suffix by resync from a good state *)
    apply Forall_app. split.
    - eapply drun_frames_ok; [apply dst_init_ok|exact EV|exact E1].
    - destruct (drun_total c clock es dst_init (dst_init_ok c) EV) as (st1' & f1' & E1' & OK1 & R1 & _).
      rewrite E1 in E1'. injection E1' as <- <-.
      destruct (resync c clock items seq0 k st1 OK (R1 eq_refl)) as [st2' E3].
      unfold suffix_frames. apply Forall_forall. intros o Ho. apply in_map_iff in Ho as (f & <- & Hf).
      intros M. cbn [to_oframe o_pl o_mt] in *.
      (* video: every true frame is a unit of an ok item, hence non-empty *)
      apply in_flat_map in Hf as (it & Hit & Hf).
      unfold suffix_ok in OK. rewrite forallb_forall in OK. specialize (OK it Hit).
      apply andb_true_iff in OK as [DOK _].
      destruct c; simpl in M; try discriminate; simpl in Hf, DOK.
      + apply filter_In in Hf as [Hf _]. apply in_map_iff in Hf as (u & <- & Hu). cbn [u_pl].
        destruct it as [ts mk u0|ts mk us|ts mk u0 sz]; simpl in Hu, DOK.
        * destruct Hu as [<-|[]]. apply andb_true_iff in DOK as [S _]. unfold single264_ok in S. destruct u0; [discriminate|discriminate].
        * apply andb_true_iff in DOK as [_ A]. rewrite forallb_forall in A. specialize (A u Hu).
          unfold agg_unit_ok in A. intros ->. rewrite zlen_nil in A. lia.
        * destruct Hu as [<-|[]]. apply andb_true_iff in DOK as [S _]. apply andb_true_iff in S as [S _].
          unfold frag264_ok in S. destruct u0; [discriminate|discriminate].
      + apply in_map_iff in Hf as (u & <- & Hu). cbn [u_pl].
        destruct it as [ts mk u0|ts mk us|ts mk u0 sz]; simpl in Hu, DOK.
        * destruct Hu as [<-|[]]. apply andb_true_iff in DOK as [S _]. unfold single265_ok in S.
          intros ->. rewrite zlen_nil in S. lia.
        * apply andb_true_iff in DOK as [_ A]. rewrite forallb_forall in A. specialize (A u Hu).
          unfold agg_unit_ok in A. intros ->. rewrite zlen_nil in A. lia.
        * destruct Hu as [<-|[]]. apply andb_true_iff in DOK as [S _]. apply andb_true_iff in S as [S _].
          unfold frag265_ok in S. intros ->. rewrite zlen_nil in S. lia. }
  apply Forall_app in FO as [FO1 FO2].
  split.
  - unfold flv_in. rewrite combine_app by exact L1. rewrite map_app.
    apply flv_run_suffix; auto; [apply (flv_in_ok d1 f1 FO1)|apply (flv_in_ok d2 _ FO2)].
  - unfold ts_in. rewrite combine_app by exact L1. rewrite map_app.
    rewrite ts_run_spec.
    + rewrite ts_spec_app. eauto.
    + apply Forall_app. split; [apply (ts_in_ok d1 f1 FO1)|apply (ts_in_ok d2 _ FO2)].
Qed.
