(* C09 — the HLS path: for EVERY segmentation / audio grouping the segment
   generator may choose (hplan), the oracle ok_hls accepts the model's segments:
   each segment is a Writer stream (C09StreamProofs), a grouped audio frame is a
   chain of ADTS frames (adts_chain applies to the concatenation). *)
From Coq Require Import ZArith List Bool Lia ZifyBool.
From V Require Import Bytes BytesLemmas C09Adts C09TsFrame C09TsWriter C09TsDemux C09TsHls
  C09BitLemmas C09CodecProofs C09PacketProofs C09StreamProofs C09MuxProofs.
Import ListNotations.
Open Scope Z_scope.
Ltac Zify.zify_post_hook ::= Z.div_mod_to_equations.

(* ---- a grouped audio frame is a chain of ADTS frames ---- *)
Lemma group_frame_bytes a pts g :
  f_hdr (group_frame a pts g) ++ f_pay (group_frame a pts g) =
  concat (map (adts_enc a) (map c_pay g)).
Proof.
  destruct g as [| c0 rest]; [reflexivity |].
  cbn [group_frame f_hdr f_pay map concat]. unfold adts_enc at 1. rewrite <- app_assoc.
  rewrite map_map. reflexivity.
Qed.

Lemma wf_haudio_len c : wf_haudio c = true -> zlen (c_pay c) + 7 < 8192.
Proof. unfold wf_haudio. destruct (c_pay c); [discriminate | intros H; lia]. Qed.
Lemma wf_haudio_nonempty c : wf_haudio c = true -> c_pay c <> [].
Proof. unfold wf_haudio. destruct (c_pay c); [discriminate | discriminate]. Qed.

Theorem audio_group_chain a pts g : asc_plain a = true -> forallb wf_haudio g = true ->
  adts_parse (f_hdr (group_frame a pts g) ++ f_pay (group_frame a pts g)) =
  Some (map (fun c => adts_expect a (c_pay c)) g).
Proof.
  intros Ha Hg. rewrite group_frame_bytes. rewrite adts_chain; [rewrite map_map; reflexivity | exact Ha |].
  rewrite forallb_forall in Hg. apply Forall_forall. intros p Hp.
  apply in_map_iff in Hp. destruct Hp as (c & <- & Hc). apply wf_haudio_len. apply Hg. exact Hc.
Qed.

Lemma frames_match_refl a g : frames_match a (map (fun c => adts_expect a (c_pay c)) g) g = true.
Proof. induction g as [| c g IH]; [reflexivity |]. cbn [map frames_match]. rewrite adts_frame_eqb_refl, IH. reflexivity. Qed.

Lemma audio_group_take a pts g u A :
  asc_plain a = true -> wf_hitem (HAudio pts g) = true ->
  unit_ok (group_frame a pts g) u = true ->
  u_pid u = TS_AUDIO_PID /\ audio_unit_take a u (g ++ A) = Some A.
Proof.
  intros Ha Hwf Hu. cbn [wf_hitem] in Hwf. destruct g as [| c0 rest]; [discriminate |].
  apply andb_true_iff in Hwf. destruct Hwf as (Hwf & Hjit).
  apply andb_true_iff in Hwf. destruct Hwf as (Hwf & Hhi).
  apply andb_true_iff in Hwf. destruct Hwf as (Hg & Hlo).
  pose proof (audio_group_chain a pts (c0 :: rest) Ha Hg) as Hchain.
  set (g := c0 :: rest) in *.
  unfold unit_ok in Hu.
  assert (Hpid : f_pid (group_frame a pts g) = TS_AUDIO_PID) by reflexivity.
  assert (Hdts : f_dts (group_frame a pts g) = pts) by reflexivity.
  assert (Hpts : f_pts (group_frame a pts g) = pts) by reflexivity.
  assert (Hsid : f_sid (group_frame a pts g) = TS_AUDIO_AAC) by reflexivity.
  assert (Hkey : f_key (group_frame a pts g) = false) by reflexivity.
  rewrite Hpid, Hdts, Hpts, Hsid, Hkey in Hu.
  apply andb_true_iff in Hu. destruct Hu as (Hfl & Hu).
  split.
  { unfold unit_flags_ok in Hfl. apply andb_true_iff in Hfl. destruct Hfl as (Hfl & _).
    apply andb_true_iff in Hfl. destruct Hfl as (Hfl & _). apply Z.eqb_eq. exact Hfl. }
  unfold audio_unit_take.
  change (unit_flags_ok TS_AUDIO_PID 0 false u) with (unit_flags_ok TS_AUDIO_PID pts false u).
  rewrite Hfl. cbn [negb].
  destruct (parse_pes (u_data u)) as [p |]; [| discriminate].
  apply andb_true_iff in Hu. destruct Hu as (Hst & Hb).
  apply bytes_eqb_eq in Hb.
  unfold pes_stamps_ok in Hst. rewrite Z.eqb_refl in Hst.
  apply andb_true_iff in Hst. destruct Hst as (Hst & Hd).
  apply andb_true_iff in Hst. destruct Hst as (Hs & Hp).
  change (TS_AUDIO_AAC mod 256) with TS_AUDIO_AAC in Hs.
  rewrite Hs, Hd. cbn [andb negb].
  rewrite Hb, Hchain.
  subst g. cbn [map]. set (frs := map (fun c => adts_expect a (c_pay c)) rest).
  assert (Hn : length (adts_expect a (c_pay c0) :: frs) = length (c0 :: rest)).
  { subst frs. cbn [length]. rewrite map_length. reflexivity. }
  rewrite Hn. cbn [app].
  change (c0 :: rest ++ A) with ((c0 :: rest) ++ A).
  rewrite firstn_app_len, skipn_app_len.
  subst frs. change (adts_expect a (c_pay c0) :: map (fun c => adts_expect a (c_pay c)) rest)
    with (map (fun c => adts_expect a (c_pay c)) (c0 :: rest)).
  rewrite frames_match_refl. cbn [andb].
  apply Z.eqb_eq in Hp. rewrite Hp. unfold M33 in *.
  replace (pts mod 8589934592) with pts by lia.
  rewrite Hjit. reflexivity.
Qed.

(* ---- items ---- *)
Lemma item_frame_ok a it : wf_hitem it = true ->
  frame_pid_ok (item_frame a it) = true /\ has_payload (item_frame a it) = true.
Proof.
  destruct it as [[sps pps c] | pts g]; cbn [wf_hitem item_frame a_sps a_pps a_c].
  - unfold wf_hvideo. intros H. apply andb_true_iff in H. destruct H as (_ & H).
    destruct (c_pay c) as [| b0 pay] eqn:E; [discriminate |].
    split; [reflexivity |]. unfold has_payload, video_frame. cbn [f_pay]. rewrite E. reflexivity.
  - destruct g as [| c0 rest]; [discriminate |]. intros H.
    apply andb_true_iff in H. destruct H as (H & _). apply andb_true_iff in H. destruct H as (H & _).
    apply andb_true_iff in H. destruct H as (H & _). cbn [forallb] in H.
    apply andb_true_iff in H. destruct H as (H0 & _). apply wf_haudio_nonempty in H0.
    split; [reflexivity |]. unfold has_payload. cbn [group_frame f_pay].
    destruct (c_pay c0); [congruence | reflexivity].
Qed.

Lemma filter_id {A} (f : A -> bool) l : forallb f l = true -> filter f l = l.
Proof.
  induction l as [| x l IH]; [reflexivity |]. cbn. intros H. apply andb_true_iff in H.
  destruct H as (Hx & Hl). rewrite Hx, (IH Hl). reflexivity.
Qed.

Lemma units_ok_app {A} (ok : A -> tsunit -> bool) f1 : forall u1 f2 u2,
  units_ok ok f1 u1 = true -> units_ok ok f2 u2 = true -> units_ok ok (f1 ++ f2) (u1 ++ u2) = true.
Proof.
  induction f1 as [| f f1 IH]; intros u1 f2 u2 H1 H2.
  - destruct u1; [exact H2 | discriminate].
  - destruct u1 as [| u u1]; [discriminate |]. cbn [units_ok app] in *.
    apply andb_true_iff in H1. destruct H1 as (Hf & H1). rewrite Hf, (IH _ _ _ H1 H2). reflexivity.
Qed.

(* a segment is a Writer stream *)
Lemma segment_units a seg : forallb wf_hitem seg = true ->
  exists us, ts_units (ts_write_all (map (item_frame a) seg)) = Some (upat :: upmt :: us) /\
             units_ok unit_ok (map (item_frame a) seg) us = true.
Proof.
  intros Hwf. set (fs := map (item_frame a) seg).
  assert (Hall : forallb frame_pid_ok fs = true /\ forallb has_payload fs = true).
  { subst fs. induction seg as [| it seg IH]; [split; reflexivity |].
    cbn [forallb map] in *. apply andb_true_iff in Hwf. destruct Hwf as (Hit & Hwf).
    destruct (item_frame_ok a it Hit) as (H1 & H2). destruct (IH Hwf) as (H3 & H4).
    rewrite H1, H2, H3, H4. split; reflexivity. }
  destruct Hall as (Hpid & Hpay).
  destruct (ts_stream_spec fs Hpid) as (ks & us & _ & _ & Hu & Hok).
  exists us. split; [exact Hu |]. rewrite (filter_id _ _ Hpay) in Hok. exact Hok.
Qed.

Lemma plan_units a plan : forallb (forallb wf_hitem) plan = true ->
  exists us, collect_units (hls_model a plan) = Some us /\
             units_ok unit_ok (map (item_frame a) (concat plan)) us = true.
Proof.
  induction plan as [| seg plan IH]; intros Hwf.
  - exists []. split; reflexivity.
  - cbn [forallb] in Hwf. apply andb_true_iff in Hwf. destruct Hwf as (Hseg & Hwf).
    destruct (segment_units a seg Hseg) as (us & Hu & Hok).
    destruct (IH Hwf) as (more & Hmore & Hokm).
    exists (us ++ more). unfold hls_model in *. cbn [map collect_units concat].
    rewrite Hu, psi_units_ok, Hmore. split; [reflexivity |].
    rewrite map_app. apply units_ok_app; assumption.
Qed.

(* the walk over the units against the per-medium source lists *)
Lemma walk_items a : asc_plain a = true -> forall its us V A,
  forallb wf_hitem its = true ->
  units_ok unit_ok (map (item_frame a) its) us = true ->
  hls_walk a us (flat_map item_videos its ++ V) (flat_map item_audios its ++ A) =
  hls_walk a [] V A.
Proof.
  intros Ha. induction its as [| it its IH]; intros us V A Hwf Hok.
  - destruct us; [reflexivity | discriminate].
  - destruct us as [| u us]; [discriminate |].
    cbn [forallb] in Hwf. apply andb_true_iff in Hwf. destruct Hwf as (Hit & Hwf).
    cbn [map units_ok] in Hok. apply andb_true_iff in Hok. destruct Hok as (Hu & Hok).
    specialize (IH us V A Hwf Hok).
    destruct it as [[sps pps c] | pts g]; cbn [flat_map item_videos item_audios app].
    + (* video *)
      cbn [wf_hitem a_c] in Hit. unfold wf_hvideo in Hit.
      apply andb_true_iff in Hit. destruct Hit as (Hit & Ht).
      apply andb_true_iff in Hit. destruct Hit as (Hit & _).
      apply andb_true_iff in Hit. destruct Hit as (Hv & _).
      cbn [item_frame a_sps a_pps a_c] in Hu.
      destruct (nal_type (c_pay c)) as [t |] eqn:Et; [| discriminate].
      apply negb_true_iff in Ht.
      assert (Hpid : u_pid u = TS_VIDEO_PID).
      { unfold unit_ok, unit_flags_ok, video_frame in Hu. cbn [f_pid] in Hu.
        apply andb_true_iff in Hu. destruct Hu as (Hu & _). apply andb_true_iff in Hu. destruct Hu as (Hu & _).
        apply andb_true_iff in Hu. destruct Hu as (Hu & _). apply Z.eqb_eq. exact Hu. }
      cbn [hls_walk]. rewrite Hpid, Z.eqb_refl.
      unfold hls_video_unit_ok, asrc_unit_ok. cbn [a_sps a_pps a_c]. rewrite Hv.
      rewrite (video_unit_ok sps pps a c t u Hv Et Ht Hu). cbn [andb]. exact IH.
    + (* audio group *)
      cbn [item_frame] in Hu. rewrite <- app_assoc.
      destruct (audio_group_take a pts g u (flat_map item_audios its ++ A) Ha Hit Hu) as (Hpid & Htake).
      cbn [hls_walk]. rewrite Hpid. change (TS_AUDIO_PID =? TS_VIDEO_PID) with false.
      rewrite Z.eqb_refl, Htake. exact IH.
Qed.

Theorem hls_passes a plan : wf_hplan a plan = true ->
  ok_hls a (plan_videos plan) (plan_audios plan) (hls_model a plan) = true.
Proof.
  unfold wf_hplan. intros H. apply andb_true_iff in H. destruct H as (Ha & Hwf).
  destruct (plan_units a plan Hwf) as (us & Hc & Hok).
  unfold ok_hls. rewrite Hc.
  assert (Hits : forallb wf_hitem (concat plan) = true).
  { clear Hc Hok. induction plan as [| seg plan IH]; [reflexivity |].
    cbn [forallb concat] in *. apply andb_true_iff in Hwf. destruct Hwf as (H1 & H2).
    rewrite forallb_app, H1, (IH H2). reflexivity. }
  pose proof (walk_items a Ha (concat plan) us [] [] Hits Hok) as Hw.
  rewrite !app_nil_r in Hw. exact Hw.
Qed.

(* the elementary-stream-only oracle is a weakening of ok_hls on audio-less input *)
Lemma src_unit_es a af u : c_video (a_c af) = true -> asrc_unit_ok a af u = true -> es_video_unit_ok af u = true.
Proof.
  intros Hv H. unfold asrc_unit_ok, src_unit_ok in H. rewrite Hv in H. unfold es_video_unit_ok.
  destruct (nal_type (c_pay (a_c af))) as [t |]; [| discriminate].
  apply andb_true_iff in H. destruct H as (Hfl & H).
  unfold unit_flags_ok in Hfl.
  apply andb_true_iff in Hfl. destruct Hfl as (Hfl & Hpcr).
  apply andb_true_iff in Hfl. destruct Hfl as (Hpid & Hrai).
  rewrite Hpid, Hrai. cbn [andb].
  destruct (parse_pes (u_data u)) as [p |]; [| discriminate].
  apply andb_true_iff in H. destruct H as (Hst & Hb). rewrite Hb.
  unfold pes_stamps_ok in Hst. apply andb_true_iff in Hst. destruct Hst as (Hst & _).
  apply andb_true_iff in Hst. destruct Hst as (Hs & _).
  change (TS_VIDEO_AVC mod 256) with TS_VIDEO_AVC in Hs. rewrite Hs.
  destruct (t =? 5); [| reflexivity].
  destruct (u_pcr u); [reflexivity | discriminate].
Qed.

Lemma walk_es a : forall us vids, hls_walk a us vids [] = true -> units_ok es_video_unit_ok vids us = true.
Proof.
  induction us as [| u us IH]; intros vids H.
  - destruct vids; [reflexivity | discriminate].
  - cbn [hls_walk] in H. destruct (u_pid u =? TS_VIDEO_PID).
    + destruct vids as [| af vids]; [discriminate |].
      apply andb_true_iff in H. destruct H as (Hu & H).
      unfold hls_video_unit_ok in Hu. apply andb_true_iff in Hu. destruct Hu as (Hv & Hu).
      cbn [units_ok]. rewrite (src_unit_es a af u Hv Hu), (IH vids H). reflexivity.
    + destruct (u_pid u =? TS_AUDIO_PID); [| discriminate].
      unfold audio_unit_take in H.
      destruct (negb (unit_flags_ok TS_AUDIO_PID 0 false u)); [discriminate |].
      destruct (parse_pes (u_data u)) as [p |]; [| discriminate].
      destruct (negb ((p_sid p =? TS_AUDIO_AAC) && optz_eqb (p_dts p) None)); [discriminate |].
      destruct (adts_parse (p_payload p)) as [[| fr frs] |]; discriminate.
Qed.

Theorem hls_es_passes a plan : wf_hplan a plan = true -> plan_audios plan = [] ->
  ok_hls_es (plan_videos plan) (hls_model a plan) = true.
Proof.
  intros Hwf Hno. pose proof (hls_passes a plan Hwf) as H. rewrite Hno in H.
  unfold ok_hls in H. unfold ok_hls_es. destruct (collect_units (hls_model a plan)); [| discriminate].
  apply (walk_es a). exact H.
Qed.
