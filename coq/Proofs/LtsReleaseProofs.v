(* C03 — release of consumers in the stream LTS (Model/StreamLts.v), variant [fixed].
   Invariant [Inv] (lock discipline, per-consumer phase invariant [cinv], counter =
   weighted sum), preserved by every step, lifted to every schedule by [inv_run];
   the C03 theorems are read off the invariant in a quiescent state.  The [_refuted]
   examples replay the witness schedules of D2/D3/D4 on the [original] variant. *)
From Coq Require Import ZArith List Bool Arith Lia.
From V Require Import StreamLts Cache LtsWire.
Import ListNotations.
Local Open Scope nat_scope.

(* ---------- counting ---------- *)
Definition b2z (b : bool) : Z := if b then 1%Z else 0%Z.
Fixpoint sumn (n : nat) (f : nat -> Z) : Z :=
  match n with O => 0%Z | S n' => (sumn n' f + f n')%Z end.
Definition is_s1 (p : spc) : bool := match p with S1 => true | _ => false end.
Definition is_loaded (p : cpc) : bool := match p with CExitLoaded => true | _ => false end.
(* what one consumer contributes to consumptions.count: 1 while it is in the map, 1 while an
   external StopConsume has done LoadAndDelete and not yet decremented, 1 while its own deferred
   StopConsume has done so *)
Definition cweight (k : cons) (sp : spc) : Z :=
  (b2z (c_reg k) + b2z (is_s1 sp) + b2z (is_loaded (c_pc k)))%Z.

Lemma sumn_ext : forall n f g, (forall c, c < n -> f c = g c) -> sumn n f = sumn n g.
Proof.
  induction n as [|n IH]; intros f g H; simpl; [reflexivity|].
  rewrite (IH f g), (H n); auto.
Qed.

Lemma sumn_zero : forall n f, (forall c, c < n -> f c = 0%Z) -> sumn n f = 0%Z.
Proof.
  induction n as [|n IH]; intros f H; simpl; [reflexivity|].
  rewrite IH, H; auto.
Qed.

Lemma sumn_add : forall n f g, sumn n (fun c => (f c + g c)%Z) = (sumn n f + sumn n g)%Z.
Proof. induction n as [|n IH]; intros; simpl; [reflexivity|]. rewrite IH. lia. Qed.

Lemma sumn_nonneg : forall n f, (forall c, c < n -> (0 <= f c)%Z) -> (0 <= sumn n f)%Z.
Proof.
  induction n as [|n IH]; intros f H; simpl; [lia|].
  assert (0 <= sumn n f)%Z by (apply IH; auto). assert (0 <= f n)%Z by (apply H; lia). lia.
Qed.

(* g differs from f only at c *)
Lemma sumn_upd1 : forall n f g c, c < n -> (forall c', c' <> c -> g c' = f c') ->
  sumn n g = (sumn n f - f c + g c)%Z.
Proof.
  induction n as [|n IH]; intros f g c Hc H; [lia|]. simpl.
  destruct (Nat.eq_dec c n) as [-> | Hn].
  - rewrite (sumn_ext n g f); [lia|]. intros c' Hc'. apply H. lia.
  - rewrite (IH f g c); [|lia|auto]. rewrite (H n); [lia|auto].
Qed.

Lemma cweight_nonneg : forall k sp, (0 <= cweight k sp)%Z.
Proof. intros k sp. unfold cweight, b2z. destruct (c_reg k), (is_s1 sp), (is_loaded (c_pc k)); lia. Qed.

Lemma upd_same : forall A (f : nat -> A) c v, upd f c v c = v.
Proof. intros. unfold upd. rewrite Nat.eqb_refl. reflexivity. Qed.
Lemma upd_other : forall A (f : nat -> A) c v c', c' <> c -> upd f c v c' = f c'.
Proof. intros. unfold upd. destruct (Nat.eqb c c') eqn:E; [apply Nat.eqb_eq in E; congruence|reflexivity]. Qed.

(* ---------- per-consumer phase invariant ---------- *)
Definition fresh (k : cons) : Prop :=
  c_reg k = false /\ c_pc k = CNone /\ c_closed k = false /\ c_closes k = O.

(* kp: closer position, a: attacher position, sp: stopper position *)
Definition cinv (kp : kpc) (a : apc) (sp : spc) (k : cons) : Prop :=
  c_closes k = (match c_pc k with CDone => 1 | _ => 0 end) /\
  match a with
  | A0 | A0W | A1 => fresh k /\ sp <> S1
  | A2 => c_pc k = CNone /\ (c_reg k = true \/ c_closed k = true \/ sp = S1)
  | ADone =>
      (kp = KDone -> c_reg k = false) /\
      (c_reg k = false -> c_closed k = true \/ sp = S1 \/ c_pc k = CExitLoaded) /\
      match c_pc k with
      | CNone => False
      | CWait => c_closed k = false /\ c_q k = []
      | CPop => c_closed k = true -> In None (c_q k)
      | _ => True
      end
  end.

(* a queue operation (Push, send): flags untouched; a waiter is woken, anybody else keeps its
   position and the queue only grows *)
Definition qrel (k k' : cons) : Prop :=
  c_reg k' = c_reg k /\ c_closed k' = c_closed k /\ c_closes k' = c_closes k /\
  ((c_pc k' = c_pc k /\ (c_pc k = CWait -> c_q k' = c_q k) /\ (In None (c_q k) -> In None (c_q k')))
   \/ (c_pc k = CWait /\ exists y, c_pc k' = CGot y)).

Lemma qrel_refl : forall k, qrel k k.
Proof. intros k. unfold qrel. repeat split; auto. Qed.

Lemma push_qrel : forall k x, qrel k (push k x).
Proof.
  intros [reg closed q pc out disc closes pushed prefill regat unregat keep] x.
  unfold qrel, push, wake; simpl.
  assert (Hin : In None q -> In None (q ++ [x])) by (intro; apply in_or_app; auto).
  destruct pc; simpl;
    try (split; [reflexivity|split; [reflexivity|split; [reflexivity|]]];
         left; split; [reflexivity|split; [discriminate|exact Hin]]).
  destruct (q ++ [x]); simpl; (split; [reflexivity|split; [reflexivity|split; [reflexivity|]]]);
    right; split; eauto.
Qed.

Lemma push_none_in : forall k, c_pc k <> CWait -> In None (c_q (push k None)).
Proof.
  intros [reg closed q pc out disc closes pushed prefill regat unregat keep] H; simpl in *.
  unfold push, wake; simpl. destruct pc; simpl; try congruence; apply in_or_app; right; left; auto.
Qed.

Lemma push_not_wait : forall k x, c_pc (push k x) <> CWait.
Proof.
  intros [reg closed q pc out disc closes pushed prefill regat unregat keep] x.
  unfold push, wake; simpl. destruct pc; simpl; try discriminate.
  destruct (q ++ [x]); simpl; discriminate.
Qed.

Lemma qrel_same_src : forall k k1 k',
  c_reg k1 = c_reg k -> c_closed k1 = c_closed k -> c_closes k1 = c_closes k ->
  c_pc k1 = c_pc k -> c_q k1 = c_q k -> qrel k1 k' -> qrel k k'.
Proof. intros k k1 k' H1 H2 H3 H4 H5 H. unfold qrel in *. rewrite H1, H2, H3, H4, H5 in H. exact H. Qed.

Lemma send_qrel : forall maxq k p, qrel k (send maxq k p).
Proof.
  intros maxq k p. unfold send. cbv zeta.
  match goal with |- qrel _ (if ?d then _ else _) => destruct d end.
  - unfold qrel; simpl. repeat split; auto.
  - eapply qrel_same_src; [| | | | |apply push_qrel]; reflexivity.
Qed.

Lemma cinv_qrel : forall kp a sp k k', cinv kp a sp k -> qrel k k' -> cinv kp a sp k'.
Proof.
  intros kp a sp k k' [Hc Ha] (Hr & Hcl & Hcs & Hq). unfold cinv, fresh in *.
  rewrite Hr, Hcl, Hcs.
  destruct Hq as [(Hpc & Hw & Hin) | (Hpc & y & Hy)].
  - rewrite Hpc. split; [exact Hc|].
    destruct a; auto.
    destruct Ha as (H1 & H2 & H3). split; [exact H1|]. split; [exact H2|].
    destruct (c_pc k); [exact H3| |exact I| |exact I|exact I].
    + intro Hx. apply Hin. auto.
    + destruct H3 as [H3 H4]. split; auto. rewrite Hw; auto.
  - rewrite Hy. rewrite Hpc in *. split; [exact Hc|].
    destruct a; try (destruct Ha as [(_ & Hx & _) _]; discriminate).
    + destruct Ha as [Hx _]; discriminate.
    + destruct Ha as (H1 & H2 & H3). split; [exact H1|]. split; [|exact I].
      intro Hx. destruct (H2 Hx) as [|[|]]; auto. discriminate.
Qed.

Lemma qrel_weight : forall k k' sp, qrel k k' -> cweight k' sp = cweight k sp.
Proof.
  intros k k' sp (Hr & _ & _ & Hq). unfold cweight. rewrite Hr.
  destruct Hq as [(Hpc & _) | (Hpc & y & Hy)]; [rewrite Hpc; reflexivity|].
  rewrite Hpc, Hy. reflexivity.
Qed.

(* removal from the map by StopConsume / the sweep / the re-check: the decrement is still owed,
   which is the situation [sp = S1] describes; used as the intermediate state of every removal *)
Lemma cinv_unreg : forall kp a sp k n, cinv kp a sp k -> c_reg k = true -> cinv kp a S1 (set_reg k false n).
Proof.
  intros kp a sp [reg closed q pc out disc closes pushed prefill regat unregat keep] n [Hc Ha] Hreg.
  unfold cinv, fresh in *; simpl in *. subst reg. split; [exact Hc|].
  destruct a; try (destruct Ha as [(Hx & _) _]; discriminate).
  - destruct Ha as [Hp _]. auto.
  - destruct Ha as (H1 & H2 & H3). repeat split; auto.
Qed.

(* consumption.Close on a consumer whose removal is in progress (fixed variant: Push(nil)) *)
Lemma cinv_close : forall kp a k sp', cinv kp a S1 k -> cinv kp a sp' (close_cons fixed k).
Proof.
  intros kp a k sp' H. unfold close_cons. destruct (c_closed k) eqn:Ecl.
  - (* already closed *)
    destruct H as [Hc Ha]. unfold cinv in *. split; [exact Hc|].
    destruct a; try (destruct Ha as [_ Hx]; congruence).
    + destruct Ha as [Hp _]. auto.
    + destruct Ha as (H1 & H2 & H3). auto.
  - simpl v_push. cbv iota.
    match goal with |- cinv _ _ _ (push ?k1 None) => set (kk := k1) end.
    assert (Hkk : c_pc kk = c_pc k) by reflexivity.
    pose proof (push_qrel kk None) as (Hr & Hcl & Hcs & Hq).
    pose proof (push_none_in kk) as Hin.
    change (c_reg kk) with (c_reg k) in Hr. change (c_closed kk) with true in Hcl.
    change (c_closes kk) with (c_closes k) in Hcs. rewrite Hkk in *.
    destruct H as [Hc Ha]. unfold cinv, fresh in *. rewrite Hr, Hcl, Hcs.
    destruct Hq as [(Hpc & Hw & _) | (Hpc & y & Hy)].
    + rewrite Hpc. split; [exact Hc|].
      destruct a; try (destruct Ha as [_ Hx]; congruence).
      * destruct Ha as [Hp _]. auto.
      * destruct Ha as (H1 & H2 & H3). split; [exact H1|]. split; [auto|].
        destruct (c_pc k) eqn:Epc; auto.
        -- intros _. apply Hin. congruence.
        -- exfalso. apply (push_not_wait kk None). congruence.
    + rewrite Hy. rewrite Hpc in *. split; [exact Hc|].
      destruct a; try (destruct Ha as [_ Hx]; congruence).
      * destruct Ha as [Hx _]. discriminate.
      * destruct Ha as (H1 & H2 & H3). auto.
Qed.

Lemma close_reg : forall k, c_reg (close_cons fixed k) = c_reg k.
Proof.
  intros k. unfold close_cons. destruct (c_closed k); auto. simpl v_push. cbv iota.
  match goal with |- c_reg (push ?k1 None) = _ => destruct (push_qrel k1 None) as (Hr & _) end.
  exact Hr.
Qed.

Lemma close_closes : forall k, c_closes (close_cons fixed k) = c_closes k.
Proof.
  intros k. unfold close_cons. destruct (c_closed k); auto. simpl v_push. cbv iota.
  match goal with |- c_closes (push ?k1 None) = _ => destruct (push_qrel k1 None) as (_ & _ & Hr & _) end.
  exact Hr.
Qed.

Lemma close_closed : forall k, c_closed (close_cons fixed k) = true.
Proof.
  intros k. unfold close_cons. destruct (c_closed k) eqn:E; auto. simpl v_push. cbv iota.
  match goal with |- c_closed (push ?k1 None) = _ => destruct (push_qrel k1 None) as (_ & Hr & _) end.
  exact Hr.
Qed.

Lemma close_loaded : forall k, is_loaded (c_pc (close_cons fixed k)) = is_loaded (c_pc k).
Proof.
  intros k. unfold close_cons. destruct (c_closed k); auto. simpl v_push. cbv iota.
  match goal with |- is_loaded (c_pc (push ?k1 None)) = _ =>
    destruct (push_qrel k1 None) as (_ & _ & _ & [(Hp & _)|(Hp & y & Hy)]); simpl in Hp end.
  - rewrite Hp. reflexivity.
  - rewrite Hy, Hp. reflexivity.
Qed.

Lemma close_weight : forall k sp, cweight (close_cons fixed k) sp = cweight k sp.
Proof. intros. unfold cweight. rewrite close_reg, close_loaded. reflexivity. Qed.

(* the loop test / exit path of consume(): what must hold of the consumer just before *)
Definition preloop (kp : kpc) (sp : spc) (k : cons) : Prop :=
  c_closes k = O /\ (kp = KDone -> c_reg k = false) /\ (c_reg k = false -> c_closed k = true \/ sp = S1).

Lemma cinv_exit : forall kp sp k n, preloop kp sp k -> cinv kp ADone sp (exit_path fixed k n).
Proof.
  intros kp sp [reg closed q pc out disc closes pushed prefill regat unregat keep] n (Hc & Hk & Hr).
  unfold cinv, exit_path, set_pc, set_reg, finish; simpl in *. subst closes.
  destruct reg; simpl; repeat split; auto. intros _. destruct (Hr eq_refl); auto.
Qed.

Lemma cinv_loop : forall kp sp k n, preloop kp sp k -> cinv kp ADone sp (loop_test fixed k n).
Proof.
  intros kp sp k n H. unfold loop_test. destruct (c_closed k) eqn:E; [apply cinv_exit; exact H|].
  destruct H as (Hc & Hk & Hr). destruct k; unfold cinv, set_pc; simpl in *. subst.
  repeat split; auto.
  intro Hx. destruct (Hr Hx) as [|]; auto. discriminate.
Qed.

Lemma exit_weight : forall k n, (b2z (c_reg (exit_path fixed k n)) + b2z (is_loaded (c_pc (exit_path fixed k n))) = b2z (c_reg k))%Z.
Proof. intros k n. unfold exit_path. destruct (c_reg k) eqn:E; simpl; rewrite ?E; reflexivity. Qed.

Lemma loop_weight : forall k n, (b2z (c_reg (loop_test fixed k n)) + b2z (is_loaded (c_pc (loop_test fixed k n))) = b2z (c_reg k))%Z.
Proof. intros k n. unfold loop_test. destruct (c_closed k); [apply exit_weight|]. simpl. lia. Qed.

Lemma cinv_kp : forall kp kp' a sp k, cinv kp a sp k -> (kp' = KDone -> c_reg k = false) -> cinv kp' a sp k.
Proof.
  intros kp kp' a sp k [Hc Ha] H. split; [exact Hc|]. destruct a; auto.
  destruct Ha as (_ & H2 & H3). auto.
Qed.

Lemma cinv_sp : forall kp a sp sp' k, cinv kp a sp k -> sp <> S1 -> sp' <> S1 -> cinv kp a sp' k.
Proof.
  intros kp a sp sp' k [Hc Ha] H H'. split; [exact Hc|]. destruct a.
  - destruct Ha; auto.
  - destruct Ha; auto.
  - destruct Ha; auto.
  - destruct Ha as [H1 [H2|[H2|H2]]]; auto; contradiction.
  - destruct Ha as (H1 & H2 & H3). split; [exact H1|]. split; [|exact H3].
    intro Hx. destruct (H2 Hx) as [|[|]]; auto; contradiction.
Qed.

Lemma cinv_fresh : forall kp a sp k, cinv kp a sp k -> a = A0 \/ a = A0W \/ a = A1 -> fresh k /\ sp <> S1.
Proof. intros kp a sp k [_ Ha] [-> | [-> | ->]]; exact Ha. Qed.

Lemma cinv_of_fresh : forall kp a sp k, fresh k -> sp <> S1 -> a = A0 \/ a = A0W \/ a = A1 -> cinv kp a sp k.
Proof.
  intros kp a sp k Hf Hs Ha. split.
  - destruct Hf as (_ & Hp & _ & Hc). rewrite Hp, Hc. reflexivity.
  - destruct Ha as [-> | [-> | ->]]; split; assumption.
Qed.

(* the attacher took the cache snapshot *)
Lemma fresh_snap : forall k q pu pf,
  fresh k ->
  fresh {| c_reg := c_reg k; c_closed := c_closed k; c_q := q; c_pc := c_pc k;
           c_out := c_out k; c_disc := c_disc k; c_closes := c_closes k; c_pushed := pu;
           c_prefill := pf; c_regat := c_regat k; c_unregat := c_unregat k; c_keep := c_keep k |}.
Proof. intros k q pu pf H. exact H. Qed.

Lemma cinv_register : forall kp sp k n, cinv kp A1 sp k -> cinv kp A2 sp (set_reg k true n).
Proof.
  intros kp sp k n [Hc [(Hr & Hp & Hcl & Hcs) Hs]]. split; simpl.
  - exact Hc.
  - split; auto.
Qed.

Lemma cinv_reg_phase : forall kp a sp k, cinv kp a sp k -> c_reg k = true -> a = A2 \/ a = ADone.
Proof.
  intros kp a sp k [_ Ha] Hr. destruct a; auto; destruct Ha as [(Hx & _) _]; congruence.
Qed.

Lemma cinv_s1_phase : forall kp a k, cinv kp a S1 k -> a = A2 \/ a = ADone.
Proof. intros kp a k [_ Ha]. destruct a; auto; destruct Ha as [_ Hx]; congruence. Qed.

Lemma cinv_pc_adone : forall kp a sp k, cinv kp a sp k -> c_pc k <> CNone -> a = ADone.
Proof.
  intros kp a sp k [_ Ha] Hp. destruct a; auto.
  - destruct Ha as [(_ & Hx & _) _]; congruence.
  - destruct Ha as [(_ & Hx & _) _]; congruence.
  - destruct Ha as [(_ & Hx & _) _]; congruence.
  - destruct Ha as [Hx _]; congruence.
Qed.

Lemma preloop_fields : forall kp sp k k1,
  c_closes k1 = c_closes k -> c_reg k1 = c_reg k -> c_closed k1 = c_closed k ->
  preloop kp sp k -> preloop kp sp k1.
Proof. intros kp sp k k1 H1 H2 H3 H. unfold preloop in *. rewrite H1, H2, H3. exact H. Qed.

Lemma preloop_att_plain : forall kp sp k, cinv kp A2 sp k -> (kp = KDone -> c_reg k = false) -> preloop kp sp k.
Proof.
  intros kp sp k [Hc [Hp Hd]] Hk. rewrite Hp in Hc. split; [exact Hc|]. split; [exact Hk|].
  intro Hr. destruct Hd as [Hd|[Hd|Hd]]; auto. congruence.
Qed.

Lemma preloop_att_recheck : forall kp sp k n, cinv kp A2 sp k -> c_reg k = true ->
  preloop kp sp (close_cons fixed (set_reg k false n)).
Proof.
  intros kp sp k n [Hc [Hp Hd]] Hr. rewrite Hp in Hc. unfold preloop.
  rewrite close_closes, close_reg, close_closed. simpl. auto.
Qed.

Lemma preloop_got : forall kp sp k x, cinv kp ADone sp k -> c_pc k = CGot x -> preloop kp sp k.
Proof.
  intros kp sp k x [Hc (H1 & H2 & _)] Hp. rewrite Hp in *. split; [exact Hc|]. split; [exact H1|].
  intro Hr. destruct (H2 Hr) as [|[|]]; auto. discriminate.
Qed.

Lemma cinv_pop_wait : forall kp sp k, cinv kp ADone sp k -> c_pc k = CPop -> c_q k = [] ->
  cinv kp ADone sp (set_pc k CWait).
Proof.
  intros kp sp k [Hc (H1 & H2 & H3)] Hp Hq. rewrite Hp in *. unfold cinv; simpl. split; [exact Hc|].
  split; [exact H1|]. split.
  - intro Hr. destruct (H2 Hr) as [|[|]]; auto. discriminate.
  - split; [|exact Hq]. destruct (c_closed k); [|reflexivity]. rewrite Hq in H3. destruct (H3 eq_refl).
Qed.

Lemma cinv_pop_got : forall kp sp k x q', cinv kp ADone sp k -> c_pc k = CPop -> c_q k = x :: q' ->
  cinv kp ADone sp
    {| c_reg := c_reg k; c_closed := c_closed k; c_q := q'; c_pc := CGot x; c_out := c_out k;
       c_disc := c_disc k; c_closes := c_closes k; c_pushed := c_pushed k; c_prefill := c_prefill k;
       c_regat := c_regat k; c_unregat := c_unregat k; c_keep := c_keep k |}.
Proof.
  intros kp sp k x q' [Hc (H1 & H2 & H3)] Hp Hq. rewrite Hp in *. unfold cinv; simpl. split; [exact Hc|].
  split; [exact H1|]. split; [|exact I].
  intro Hr. destruct (H2 Hr) as [|[|]]; auto. discriminate.
Qed.

Lemma cinv_loaded : forall kp sp k, cinv kp ADone sp k -> c_pc k = CExitLoaded ->
  cinv kp ADone sp (finish (close_cons fixed k)).
Proof.
  intros kp sp k [Hc (H1 & H2 & H3)] Hp. rewrite Hp in *. unfold cinv, finish; simpl.
  rewrite close_closes, close_reg, close_closed. rewrite Hc. repeat split; auto.
Qed.

Lemma finish_weight : forall k, (b2z (c_reg (finish k)) + b2z (is_loaded (c_pc (finish k))) = b2z (c_reg k))%Z.
Proof. intros k. simpl. lia. Qed.

(* ---------- broadcast and sweep, pointwise ---------- *)
Lemma ltb_succ_ne : forall c n, c <> n -> (c <? S n) = (c <? n).
Proof. intros c n H. destruct (Nat.ltb_spec c (S n)), (Nat.ltb_spec c n); auto; lia. Qed.

Lemma send_all_spec : forall maxq n f p c,
  send_all maxq n f p c = if (c <? n) && c_reg (f c) then send maxq (f c) p else f c.
Proof.
  intros maxq n f p. induction n as [|n IH]; intros c; [reflexivity|]. simpl.
  assert (Hn : send_all maxq n f p n = f n) by (rewrite IH, Nat.ltb_irrefl; reflexivity).
  rewrite Hn. destruct (Nat.eq_dec c n) as [-> | Hc].
  - rewrite (proj2 (Nat.ltb_lt n (S n))) by lia. simpl. destruct (c_reg (f n)); [apply upd_same|exact Hn].
  - rewrite (ltb_succ_ne _ _ Hc). destruct (c_reg (f n)); [rewrite upd_other by exact Hc|]; apply IH.
Qed.

Lemma sweep_spec : forall n f sent,
  (forall c, fst (sweep fixed n f sent) c =
             if (c <? n) && c_reg (f c) then close_cons fixed (set_reg (f c) false sent) else f c) /\
  snd (sweep fixed n f sent) = sumn n (fun c => b2z (c_reg (f c))).
Proof.
  intros n f sent. induction n as [|n [IH1 IH2]]; [split; reflexivity|]. simpl.
  destruct (sweep fixed n f sent) as [f' d]. simpl in IH1, IH2.
  assert (Hn : f' n = f n) by (rewrite IH1, Nat.ltb_irrefl; reflexivity).
  rewrite Hn. destruct (c_reg (f n)) eqn:E; simpl; split.
  - intros c. destruct (Nat.eq_dec c n) as [-> | Hc].
    + rewrite upd_same, (proj2 (Nat.ltb_lt n (S n))) by lia. rewrite E. reflexivity.
    + rewrite upd_other by exact Hc. rewrite (ltb_succ_ne _ _ Hc). apply IH1.
  - rewrite IH2. reflexivity.
  - intros c. destruct (Nat.eq_dec c n) as [-> | Hc].
    + rewrite (proj2 (Nat.ltb_lt n (S n))) by lia. rewrite E. exact Hn.
    + rewrite (ltb_succ_ne _ _ Hc). apply IH1.
  - rewrite IH2. lia.
Qed.

(* ---------- lock discipline ---------- *)
Definition lq (lockq : list holder) (pp : ppc) (att : nat -> apc) (todo : list pkt) : Prop :=
  NoDup lockq /\ (In HPub lockq <-> pp = P1W) /\ (forall c, In (HAtt c) lockq <-> att c = A0W) /\
  (pp <> P0 -> todo <> []).
Definition lh (lock : option holder) (lockq : list holder) (pp : ppc) (att : nat -> apc) : Prop :=
  (lock = Some HPub <-> pp = P2) /\ (forall c, lock = Some (HAtt c) <-> att c = A1) /\
  (lock = None -> lockq = []).
(* nobody inside the critical section *)
Definition lfree (pp : ppc) (att : nat -> apc) : Prop := pp <> P2 /\ forall c, att c <> A1.

Lemma aa_pub : forall q att todo,
  NoDup q -> ~ In HPub q -> (forall c, In (HAtt c) q <-> att c = A0W) -> todo <> [] ->
  (forall c, att c <> A1) -> lq q P2 att todo /\ lh (Some HPub) q P2 att.
Proof.
  intros q att todo Hnd Hp Ha Ht Hf. split.
  - split; [exact Hnd|]. split; [split; [intro; contradiction|discriminate]|]. split; [exact Ha|auto].
  - split; [split; auto|]. split; [|discriminate].
    intro c; split; [discriminate|]. intro Hx. destruct (Hf c Hx).
Qed.

Lemma aa_att : forall q pp att todo c,
  NoDup q -> ~ In (HAtt c) q -> (In HPub q <-> pp = P1W) ->
  (forall c', c' <> c -> (In (HAtt c') q <-> att c' = A0W)) -> (pp <> P0 -> todo <> []) ->
  pp <> P2 -> (forall c', c' <> c -> att c' <> A1) ->
  lq q pp (upd att c A1) todo /\ lh (Some (HAtt c)) q pp (upd att c A1).
Proof.
  intros q pp att todo c Hnd Hc Hp Ha Ht Hpp Hf. split.
  - split; [exact Hnd|]. split; [exact Hp|]. split; [|exact Ht].
    intro c'. destruct (Nat.eq_dec c' c) as [-> | Hn].
    + rewrite upd_same. split; [intro; contradiction|discriminate].
    + rewrite upd_other by exact Hn. apply Ha; exact Hn.
  - split; [split; [discriminate|intro; contradiction]|]. split; [|discriminate].
    intro c'. destruct (Nat.eq_dec c' c) as [-> | Hn].
    + rewrite upd_same. split; auto.
    + rewrite upd_other by exact Hn. split.
      * intro Hx. inversion Hx. congruence.
      * intro Hx. destruct (Hf c' Hn Hx).
Qed.

(* ---------- weights ---------- *)
Lemma cweight_unreg : forall k n sp, c_reg k = true -> cweight (set_reg k false n) sp = (cweight k sp - 1)%Z.
Proof.
  intros k n sp H. unfold cweight. change (c_reg (set_reg k false n)) with false.
  change (c_pc (set_reg k false n)) with (c_pc k). rewrite H. cbn [b2z]. lia.
Qed.

Lemma cweight_reg : forall k n sp, c_reg k = false -> cweight (set_reg k true n) sp = (cweight k sp + 1)%Z.
Proof.
  intros k n sp H. unfold cweight. change (c_reg (set_reg k true n)) with true.
  change (c_pc (set_reg k true n)) with (c_pc k). rewrite H. cbn [b2z]. lia.
Qed.

Lemma cweight_sp : forall k sp sp', cweight k sp' = (cweight k sp - b2z (is_s1 sp) + b2z (is_s1 sp'))%Z.
Proof. intros. unfold cweight. lia. Qed.

Lemma cweight_fields : forall k k' sp, c_reg k' = c_reg k -> is_loaded (c_pc k') = is_loaded (c_pc k) ->
  cweight k' sp = cweight k sp.
Proof. intros k k' sp H1 H2. unfold cweight. rewrite H1, H2. reflexivity. Qed.

Lemma cweight_loop : forall k n sp, is_loaded (c_pc k) = false -> cweight (loop_test fixed k n) sp = cweight k sp.
Proof.
  intros k n sp Hl. unfold cweight. pose proof (loop_weight k n) as Hw.
  rewrite Hl. cbn [b2z]. lia.
Qed.

Lemma cweight_exit : forall k n sp, is_loaded (c_pc k) = false -> cweight (exit_path fixed k n) sp = cweight k sp.
Proof.
  intros k n sp Hl. unfold cweight. pose proof (exit_weight k n) as Hw.
  rewrite Hl. cbn [b2z]. lia.
Qed.

Lemma cweight_loaded : forall k sp, c_pc k = CExitLoaded -> cweight (finish (close_cons fixed k)) sp = (cweight k sp - 1)%Z.
Proof.
  intros k sp H. unfold cweight. rewrite H.
  change (c_reg (finish (close_cons fixed k))) with (c_reg (close_cons fixed k)).
  change (c_pc (finish (close_cons fixed k))) with CDone. rewrite close_reg. cbn [is_loaded b2z]. lia.
Qed.

(* ---------- the external stopper ---------- *)
(* b: this consumer has a stopper thread.  A stop can only begin once the attach has returned. *)
Definition sinv (a : apc) (sp : spc) (b : bool) (k : cons) : Prop :=
  (a <> ADone -> sp = if b then S0 else SDone) /\
  (sp = S1 -> c_reg k = false) /\
  (b = true -> sp = SDone -> c_reg k = false /\ (c_closed k = true \/ c_pc k = CExitLoaded)).

Definition mono (k k' : cons) : Prop :=
  (c_reg k = false -> c_reg k' = false) /\
  (c_closed k = true \/ c_pc k = CExitLoaded -> c_closed k' = true \/ c_pc k' = CExitLoaded).

Lemma sinv_mono : forall a sp b k k', sinv a sp b k -> mono k k' -> sinv a sp b k'.
Proof.
  intros a sp b k k' (H1 & H2 & H3) [M1 M2]. split; [exact H1|]. split; [auto|].
  intros Hb Hs. destruct (H3 Hb Hs) as [Hr Hc]. auto.
Qed.

Lemma sinv_att : forall a a' sp b k k', sinv a sp b k -> a <> ADone -> sinv a' sp b k'.
Proof.
  intros a a' sp b k k' (H1 & _ & _) Ha. specialize (H1 Ha). split; [auto|]. split.
  - intro Hs. rewrite Hs in H1. destruct b; discriminate.
  - intros Hb Hs. rewrite Hb, Hs in H1. discriminate.
Qed.

Lemma sinv_stop_reg : forall a b k n, sinv a S0 b k -> sinv ADone S1 b (set_reg k false n).
Proof.
  intros a b k n _. split; [intro Hx; congruence|]. split; [reflexivity|]. intros _ Hx; discriminate.
Qed.

Lemma sinv_stop_noreg : forall kp b k, cinv kp ADone S0 k -> c_reg k = false -> sinv ADone SDone b k.
Proof.
  intros kp b k [_ (_ & H2 & _)] Hr. split; [intro Hx; congruence|]. split; [discriminate|].
  intros _ _. split; [exact Hr|]. destruct (H2 Hr) as [Hx|[Hx|Hx]]; auto. discriminate.
Qed.

Lemma sinv_stop_close : forall b k, sinv ADone S1 b k -> sinv ADone SDone b (close_cons fixed k).
Proof.
  intros b k (_ & H2 & _). split; [intro Hx; congruence|]. split; [discriminate|].
  intros _ _. rewrite close_reg, close_closed. auto.
Qed.

Lemma mono_refl : forall k, mono k k.
Proof. intros k. split; auto. Qed.

Lemma mono_trans : forall k1 k2 k3, mono k1 k2 -> mono k2 k3 -> mono k1 k3.
Proof. intros k1 k2 k3 [A1 A2] [B1 B2]. split; auto. Qed.

Lemma qrel_mono : forall k k', qrel k k' -> mono k k'.
Proof.
  intros k k' (Hr & Hcl & _ & Hq). split; [congruence|]. rewrite Hcl.
  destruct Hq as [(Hp & _)|(Hp & _)]; [rewrite Hp; auto|].
  intros [Hx|Hx]; [auto|congruence].
Qed.

Lemma close_mono : forall k, mono k (close_cons fixed k).
Proof. intros k. split; [rewrite close_reg; auto|]. rewrite close_closed. auto. Qed.

Lemma unreg_mono : forall k n, mono k (set_reg k false n).
Proof. intros k n. split; simpl; auto. Qed.

Lemma mono_fields : forall k k', c_reg k' = c_reg k -> c_closed k' = c_closed k -> is_loaded (c_pc k) = false -> mono k k'.
Proof.
  intros k k' H1 H2 H3. split; [congruence|]. rewrite H2. intros [Hx|Hx]; [auto|].
  rewrite Hx in H3. discriminate.
Qed.

Lemma exit_mono : forall k n, is_loaded (c_pc k) = false -> mono k (exit_path fixed k n).
Proof.
  intros k n Hp. unfold exit_path. split.
  - intro Hr. rewrite Hr. simpl. exact Hr.
  - intros [Hx|Hx]; [|rewrite Hx in Hp; discriminate]. destruct (c_reg k); simpl; auto.
Qed.

Lemma loop_mono : forall k n, is_loaded (c_pc k) = false -> mono k (loop_test fixed k n).
Proof.
  intros k n Hp. unfold loop_test. destruct (c_closed k) eqn:E; [apply exit_mono; exact Hp|].
  apply mono_fields; auto.
Qed.

Lemma loaded_mono : forall k, mono k (finish (close_cons fixed k)).
Proof. intros k. split; simpl; [rewrite close_reg; auto|]. rewrite close_closed. auto. Qed.


Lemma nodup_snoc : forall (l : list holder) x, NoDup l -> ~ In x l -> NoDup (l ++ [x]).
Proof.
  induction l as [|y l IH]; intros x Hnd Hx; simpl.
  - constructor; [intros []|constructor].
  - inversion Hnd as [|? ? Hy Hl]; subst. constructor.
    + intro Hi. apply in_app_or in Hi. destruct Hi as [Hi|[Hi|[]]]; [contradiction|]. subst. apply Hx. left; reflexivity.
    + apply IH; [exact Hl|]. intro Hi. apply Hx. right; exact Hi.
Qed.

(* no thread of the system can move *)
Definition quiescent (V : variant) (maxq : nat) (cache_t : Type) (cache_empty : cache_t)
  (cache_add : cache_t -> pkt -> cache_t) (cache_snap : cache_t -> list pkt) (ncons : nat)
  (panic_at : nat -> nat) (s : st cache_t) : Prop :=
  forall t, step V maxq cache_t cache_empty cache_add cache_snap ncons panic_at s t = None.

Section Release.
Variable maxq : nat.
Variable cache_t : Type.
Variable cache_empty : cache_t.
Variable cache_add : cache_t -> pkt -> cache_t.
Variable cache_snap : cache_t -> list pkt.
Variable ncons : nat.
Variable panic_at : nat -> nat.
Variable stoppers : nat -> bool.

Local Notation state := (st cache_t).
Local Notation stepf := (step fixed maxq cache_t cache_empty cache_add cache_snap ncons panic_at).
Local Notation runf := (run fixed maxq cache_t cache_empty cache_add cache_snap ncons panic_at).
Local Notation initf := (init cache_t cache_empty).
Local Notation quiet := (quiescent fixed maxq cache_t cache_empty cache_add cache_snap ncons panic_at).
Local Notation aacq := (after_acquire cache_t cache_add cache_snap).
Local Notation acq := (acquire fixed cache_t cache_add cache_snap).
Local Notation rel := (release fixed cache_t cache_add cache_snap).

Definition corep (kp : kpc) (ok : bool) (count : Z) (cs : nat -> cons) (att : nat -> apc) (stp : nat -> spc) : Prop :=
  (forall c, cinv kp (att c) (stp c) (cs c)) /\
  count = sumn ncons (fun c => cweight (cs c) (stp c)) /\
  (ok = true <-> kp = K0) /\ kp <> K2 /\
  (forall c, att c <> A0 -> c < ncons) /\
  (forall c, sinv (att c) (stp c) (stoppers c) (cs c)).

Definition Inv (s : state) : Prop :=
  lq (s_lockq _ s) (s_pp _ s) (s_att _ s) (s_todo _ s) /\
  lh (s_lock _ s) (s_lockq _ s) (s_pp _ s) (s_att _ s) /\
  corep (s_kp _ s) (s_ok _ s) (s_count _ s) (s_cs _ s) (s_att _ s) (s_stp _ s).

Lemma corep_snap : forall kp ok count cs att stp c q pu pf,
  corep kp ok count cs att stp -> att c = A0 \/ att c = A0W -> c < ncons ->
  corep kp ok count
    (upd cs c {| c_reg := c_reg (cs c); c_closed := c_closed (cs c); c_q := q; c_pc := c_pc (cs c);
                 c_out := c_out (cs c); c_disc := c_disc (cs c); c_closes := c_closes (cs c); c_pushed := pu;
                 c_prefill := pf; c_regat := c_regat (cs c); c_unregat := c_unregat (cs c);
                 c_keep := c_keep (cs c) |})
    (upd att c A1) stp.
Proof.
  intros kp ok count cs att stp c q pu pf (Hc & Hn & Hok & Hk2 & Hlt & Hs) Ha Hlc.
  assert (Hf : fresh (cs c) /\ stp c <> S1) by (apply (cinv_fresh _ _ _ _ (Hc c)); tauto).
  split; [|split; [|split; [exact Hok|split; [exact Hk2|split]]]].
  - intro c'. destruct (Nat.eq_dec c' c) as [-> | Hne].
    + rewrite !upd_same. apply cinv_of_fresh; [apply fresh_snap; apply Hf|apply Hf|auto].
    + rewrite !upd_other by exact Hne. apply Hc.
  - rewrite Hn. apply sumn_ext. intros c' _. destruct (Nat.eq_dec c' c) as [-> | Hne].
    + rewrite upd_same. reflexivity.
    + rewrite upd_other by exact Hne. reflexivity.
  - intros c'. destruct (Nat.eq_dec c' c) as [-> | Hne]; [auto|]. rewrite upd_other by exact Hne. apply Hlt.
  - intros c'. destruct (Nat.eq_dec c' c) as [-> | Hne].
    + rewrite !upd_same. apply (sinv_att (att c) A1 _ _ (cs c)); [apply Hs|]. destruct Ha as [Hx|Hx]; rewrite Hx; discriminate.
    + rewrite !upd_other by exact Hne. apply Hs.
Qed.

Lemma aacq_inv : forall (s : state) h q,
  corep (s_kp _ s) (s_ok _ s) (s_count _ s) (s_cs _ s) (s_att _ s) (s_stp _ s) ->
  match h with
  | HPub => NoDup q /\ ~ In HPub q /\ (forall c, In (HAtt c) q <-> s_att _ s c = A0W) /\
            s_todo _ s <> [] /\ (forall c, s_att _ s c <> A1)
  | HAtt c => NoDup q /\ ~ In (HAtt c) q /\ (In HPub q <-> s_pp _ s = P1W) /\
              (forall c', c' <> c -> (In (HAtt c') q <-> s_att _ s c' = A0W)) /\
              (s_pp _ s <> P0 -> s_todo _ s <> []) /\ s_pp _ s <> P2 /\
              (forall c', c' <> c -> s_att _ s c' <> A1) /\
              (s_att _ s c = A0 \/ s_att _ s c = A0W) /\ c < ncons
  end -> Inv (aacq s h q).
Proof.
  intros [ok lock lockq cache sent cached todo pp count cs att stp kp] h q Hcore Hh. simpl in *.
  destruct h as [|c].
  - destruct Hh as (H1 & H2 & H3 & H4 & H5). unfold after_acquire; simpl.
    destruct todo as [|p rest]; [congruence|]. unfold Inv; simpl.
    destruct (aa_pub q att (p :: rest) H1 H2 H3 H4 H5) as [Ha Hb]. auto.
  - destruct Hh as (H1 & H2 & H3 & H4 & H5 & H6 & H7 & H8 & H9). unfold after_acquire, Inv; simpl.
    destruct (aa_att q pp att todo c H1 H2 H3 H4 H5 H6 H7) as [Ha Hb].
    split; [exact Ha|]. split; [exact Hb|]. apply corep_snap; assumption.
Qed.

Lemma acquire_inv : forall (s : state) h, Inv s ->
  match h with
  | HPub => s_pp _ s = P1 /\ s_todo _ s <> []
  | HAtt c => s_att _ s c = A0 /\ c < ncons
  end -> Inv (acq s h).
Proof.
  intros s h (Hq & Hh & Hcore) Hen. unfold acquire. simpl v_lock. cbv iota.
  destruct Hq as (Q1 & Q2 & Q3 & Q4). destruct Hh as (L1 & L2 & L3).
  destruct (s_lock _ s) as [h0|] eqn:El.
  - (* busy: queue up *)
    destruct h as [|c]; unfold Inv, set_core; simpl.
    + destruct Hen as [Hp Ht]. split; [|split; [|exact Hcore]].
      * split; [apply nodup_snoc; [exact Q1|rewrite Q2, Hp; discriminate]|].
        split; [split; [reflexivity|intros _; apply in_or_app; right; left; reflexivity]|].
        split; [|intros _; exact Ht].
        intro c. rewrite <- Q3. rewrite in_app_iff. simpl. split; [intros [Hx|[Hx|[]]]; [exact Hx|discriminate]|auto].
      * split; [split; [intro Hx; apply L1 in Hx; congruence|discriminate]|].
        split; [exact L2|discriminate].
    + destruct Hen as [Ha Hc]. split; [|split].
      * split; [apply nodup_snoc; [exact Q1|rewrite Q3, Ha; discriminate]|].
        split; [rewrite <- Q2, in_app_iff; simpl; split; [intros [Hx|[Hx|[]]]; [exact Hx|discriminate]|auto]|].
        split; [|exact Q4].
        intro c'. rewrite in_app_iff. simpl. destruct (Nat.eq_dec c' c) as [-> | Hne].
        -- rewrite upd_same. split; auto.
        -- rewrite upd_other by exact Hne. rewrite <- Q3.
           split; [intros [Hx|[Hx|[]]]; [exact Hx|congruence]|auto].
      * split; [exact L1|]. split; [|discriminate].
        intro c'. destruct (Nat.eq_dec c' c) as [-> | Hne].
        -- rewrite upd_same. split; [|discriminate]. intro Hx. apply L2 in Hx. congruence.
        -- rewrite upd_other by exact Hne. apply L2.
      * destruct Hcore as (C1 & C2 & C3 & C4 & C5 & C6).
        split; [|split; [exact C2|split; [exact C3|split; [exact C4|split]]]].
        -- intro c'. destruct (Nat.eq_dec c' c) as [-> | Hne].
           ++ rewrite upd_same. specialize (C1 c). rewrite Ha in C1. exact C1.
           ++ rewrite upd_other by exact Hne. apply C1.
        -- intro c'. destruct (Nat.eq_dec c' c) as [-> | Hne]; [auto|].
           rewrite upd_other by exact Hne. apply C5.
        -- intro c'. destruct (Nat.eq_dec c' c) as [-> | Hne].
           ++ rewrite upd_same. apply (sinv_att (s_att _ s c) A0W _ _ (s_cs _ s c)); [apply C6|]. rewrite Ha. discriminate.
           ++ rewrite upd_other by exact Hne. apply C6.
  - (* free: enter *)
    rewrite (L3 eq_refl) in *. apply aacq_inv; [exact Hcore|].
    assert (Hno1 : forall c, s_att _ s c <> A1) by (intros c Hx; apply L2 in Hx; discriminate).
    destruct h as [|c].
    + destruct Hen as [Hp Ht]. split; [constructor|]. split; [intros []|]. split; [exact Q3|]. split; [exact Ht|exact Hno1].
    + destruct Hen as [Ha Hc]. split; [constructor|]. split; [intros []|]. split; [exact Q2|].
      split; [intros c' _; apply Q3|]. split; [exact Q4|].
      split; [intro Hx; apply L1 in Hx; discriminate|]. split; [intros c' _; apply Hno1|]. auto.
Qed.

Lemma release_inv : forall (s : state),
  lq (s_lockq _ s) (s_pp _ s) (s_att _ s) (s_todo _ s) -> lfree (s_pp _ s) (s_att _ s) ->
  corep (s_kp _ s) (s_ok _ s) (s_count _ s) (s_cs _ s) (s_att _ s) (s_stp _ s) -> Inv (rel s).
Proof.
  intros s (Q1 & Q2 & Q3 & Q4) [F1 F2] Hcore. unfold release. simpl v_lock. cbv iota.
  destruct (s_lockq _ s) as [|h rest] eqn:Eq.
  - unfold Inv, set_core; simpl. split; [|split; [|exact Hcore]].
    + split; [constructor|]. split; [exact Q2|]. split; [exact Q3|exact Q4].
    + split; [split; [discriminate|intro; contradiction]|]. split; [|reflexivity].
      intro c. split; [discriminate|]. intro Hx. destruct (F2 c Hx).
  - apply aacq_inv; [exact Hcore|]. inversion Q1 as [|? ? Hnin Hnd]; subst.
    destruct h as [|c].
    + split; [exact Hnd|]. split; [exact Hnin|].
      assert (Hp : s_pp _ s = P1W) by (apply Q2; left; reflexivity).
      split; [|split; [apply Q4; rewrite Hp; discriminate|exact F2]].
      intro c. rewrite <- Q3. simpl. split; [auto|intros [Hx|Hx]; [discriminate|exact Hx]].
    + split; [exact Hnd|]. split; [exact Hnin|].
      assert (Ha : s_att _ s c = A0W) by (apply Q3; left; reflexivity).
      split; [rewrite <- Q2; simpl; split; [auto|intros [Hx|Hx]; [discriminate|exact Hx]]|].
      split; [intros c' Hne; rewrite <- Q3; simpl; split; [auto|intros [Hx|Hx]; [congruence|exact Hx]]|].
      split; [exact Q4|]. split; [exact F1|]. split; [intros c' _; apply F2|]. split; [auto|].
      destruct Hcore as (_ & _ & _ & _ & C5 & _). apply C5. rewrite Ha. discriminate.
Qed.

(* one consumer (and its attacher / stopper position) changes *)
Lemma corep_change : forall kp ok count count' cs cs' att att' stp stp' c,
  corep kp ok count cs att stp -> c < ncons ->
  (forall c', c' <> c -> cs' c' = cs c' /\ att' c' = att c' /\ stp' c' = stp c') ->
  cinv kp (att' c) (stp' c) (cs' c) -> sinv (att' c) (stp' c) (stoppers c) (cs' c) ->
  count' = (count - cweight (cs c) (stp c) + cweight (cs' c) (stp' c))%Z ->
  corep kp ok count' cs' att' stp'.
Proof.
  intros kp ok count count' cs cs' att att' stp stp' c (C1 & C2 & C3 & C4 & C5 & C6) Hc Hoth Hci Hsi Hcnt.
  split; [|split; [|split; [exact C3|split; [exact C4|split]]]].
  - intro c'. destruct (Nat.eq_dec c' c) as [-> | Hne]; [exact Hci|].
    destruct (Hoth c' Hne) as (E1 & E2 & E3). rewrite E1, E2, E3. apply C1.
  - rewrite Hcnt, C2.
    rewrite (sumn_upd1 ncons (fun c0 => cweight (cs c0) (stp c0)) (fun c0 => cweight (cs' c0) (stp' c0)) c Hc); [lia|].
    intros c' Hne. destruct (Hoth c' Hne) as (E1 & E2 & E3). rewrite E1, E3. reflexivity.
  - intro c'. destruct (Nat.eq_dec c' c) as [-> | Hne]; [auto|].
    destruct (Hoth c' Hne) as (E1 & E2 & E3). rewrite E2. apply C5.
  - intro c'. destruct (Nat.eq_dec c' c) as [-> | Hne]; [exact Hsi|].
    destruct (Hoth c' Hne) as (E1 & E2 & E3). rewrite E1, E2, E3. apply C6.
Qed.

Lemma corep_send_all : forall kp ok count cs att stp p,
  corep kp ok count cs att stp -> corep kp ok count (send_all maxq ncons cs p) att stp.
Proof.
  intros kp ok count cs att stp p (C1 & C2 & C3 & C4 & C5 & C6).
  split; [|split; [|split; [exact C3|split; [exact C4|split; [exact C5|]]]]].
  - intro c. rewrite send_all_spec. destruct ((c <? ncons) && c_reg (cs c)); [|apply C1].
    apply cinv_qrel with (k := cs c); [apply C1|apply send_qrel].
  - rewrite C2. apply sumn_ext. intros c _. rewrite send_all_spec.
    destruct ((c <? ncons) && c_reg (cs c)); [|reflexivity]. symmetry. apply qrel_weight, send_qrel.
  - intro c. rewrite send_all_spec. destruct ((c <? ncons) && c_reg (cs c)); [|apply C6].
    apply sinv_mono with (k := cs c); [apply C6|apply qrel_mono, send_qrel].
Qed.

Lemma step_pub_inv : forall (s s' : state), Inv s ->
  step_pub fixed maxq cache_t cache_add cache_snap ncons s = Some s' -> Inv s'.
Proof.
  intros s s' H Hs. unfold step_pub in Hs.
  destruct (s_pp _ s) eqn:Epp; destruct (s_todo _ s) as [|p rest] eqn:Et; try discriminate.
  - (* P0 *)
    destruct H as ((Q1 & Q2 & Q3 & Q4) & (L1 & L2 & L3) & Hcore). rewrite Epp, Et in *.
    destruct (s_ok _ s); inversion Hs; subst s'; clear Hs; unfold Inv; simpl; rewrite ?Et.
    + split; [|split; [|exact Hcore]].
      * split; [exact Q1|]. split; [rewrite Q2; split; discriminate|]. split; [exact Q3|]. intros _; discriminate.
      * split; [rewrite L1; split; discriminate|]. split; [exact L2|exact L3].
    + split; [|split; [|exact Hcore]].
      * split; [exact Q1|]. split; [exact Q2|]. split; [exact Q3|]. intro Hx; congruence.
      * split; [exact L1|]. split; [exact L2|exact L3].
  - (* P1 *)
    inversion Hs; subst s'. apply acquire_inv; [exact H|]. rewrite Epp, Et. split; [reflexivity|discriminate].
  - (* P2 *)
    inversion Hs; subst s'; clear Hs.
    destruct H as ((Q1 & Q2 & Q3 & Q4) & (L1 & L2 & L3) & Hcore). rewrite Epp in *.
    assert (Hl : s_lock _ s = Some HPub) by (apply L1; reflexivity).
    apply release_inv; simpl.
    + split; [exact Q1|]. split; [rewrite Q2; split; discriminate|]. split; [exact Q3|]. intro Hx; congruence.
    + split; [discriminate|]. intros c Hx. apply L2 in Hx. congruence.
    + apply corep_send_all. exact Hcore.
Qed.

Lemma step_close_inv : forall (s s' : state), Inv s ->
  step_close fixed cache_t cache_empty ncons s = Some s' -> Inv s'.
Proof.
  intros s s' (Hq & Hh & (C1 & C2 & C3 & C4 & C5 & C6)) Hs. unfold step_close in Hs.
  destruct (s_kp _ s) eqn:Ek.
  - (* K0: status := closed *)
    assert (Hok : s_ok _ s = true) by (apply C3; reflexivity). rewrite Hok in Hs.
    inversion Hs; subst s'; clear Hs. unfold Inv; simpl. split; [exact Hq|]. split; [exact Hh|].
    split; [|split; [exact C2|split; [split; discriminate|split; [discriminate|split; [exact C5|exact C6]]]]].
    intro c. apply cinv_kp with (kp := K0); [apply C1|discriminate].
  - (* K1: sweep *)
    destruct (sweep_spec ncons (s_cs _ s) (length (s_sent _ s))) as [Sf Sd].
    destruct (sweep fixed ncons (s_cs _ s) (length (s_sent _ s))) as [f d]. simpl in Sf, Sd.
    simpl v_atomic in Hs. cbv iota in Hs. inversion Hs; subst s'; clear Hs. unfold Inv; simpl.
    split; [exact Hq|]. split; [exact Hh|].
    assert (Hnr : forall c, (c <? ncons) && c_reg (s_cs _ s c) = false -> c_reg (s_cs _ s c) = false).
    { intros c Hx. destruct (c_reg (s_cs _ s c)) eqn:Er; [|reflexivity].
      rewrite andb_true_r in Hx. apply Nat.ltb_ge in Hx.
      assert (Ha : s_att _ s c <> A0).
      { destruct (cinv_reg_phase _ _ _ _ (C1 c) Er) as [Hy|Hy]; rewrite Hy; discriminate. }
      apply C5 in Ha. lia. }
    split; [|split; [|split; [|split; [discriminate|split; [exact C5|]]]]].
    + intro c. rewrite Sf. destruct ((c <? ncons) && c_reg (s_cs _ s c)) eqn:Eb.
      * apply andb_true_iff in Eb. destruct Eb as [_ Er].
        apply cinv_kp with (kp := K1); [|intros _; rewrite close_reg; reflexivity].
        apply cinv_close. apply cinv_unreg with (sp := s_stp _ s c); [apply C1|exact Er].
      * apply cinv_kp with (kp := K1); [apply C1|]. intros _. apply Hnr. exact Eb.
    + rewrite Sd, C2.
      rewrite (sumn_ext ncons (fun c => cweight (s_cs _ s c) (s_stp _ s c))
                 (fun c => (cweight (f c) (s_stp _ s c) + b2z (c_reg (s_cs _ s c)))%Z)).
      * rewrite sumn_add. lia.
      * intros c Hc. rewrite Sf. apply Nat.ltb_lt in Hc. rewrite Hc. rewrite andb_true_l.
        destruct (c_reg (s_cs _ s c)) eqn:Er.
        -- rewrite close_weight, cweight_unreg by exact Er. cbn [b2z]. lia.
        -- cbn [b2z]. lia.
    + split; [intro Hx|discriminate].
      assert (K1 = K0) by (apply C3; exact Hx). discriminate.
    + intro c. rewrite Sf. destruct ((c <? ncons) && c_reg (s_cs _ s c)); [|apply C6].
      apply sinv_mono with (k := s_cs _ s c); [apply C6|].
      eapply mono_trans; [apply unreg_mono|apply close_mono].
  - congruence.
  - discriminate.
Qed.

Lemma step_att_inv : forall (s s' : state) c, Inv s -> c < ncons ->
  step_att fixed cache_t cache_add cache_snap s c = Some s' -> Inv s'.
Proof.
  intros s s' c H Hc Hs. unfold step_att in Hs. destruct (s_att _ s c) eqn:Ea; try discriminate.
  - (* A0: Lock() *)
    inversion Hs. apply acquire_inv; [exact H|]. split; assumption.
  - (* A1: Add, Unlock *)
    inversion Hs; subst s'; clear Hs. destruct H as ((Q1 & Q2 & Q3 & Q4) & (L1 & L2 & L3) & Hcore).
    assert (Hl : s_lock _ s = Some (HAtt c)) by (apply L2; exact Ea).
    assert (Hf : fresh (s_cs _ s c) /\ s_stp _ s c <> S1).
    { destruct Hcore as (C1 & _). apply (cinv_fresh _ _ _ _ (C1 c)). rewrite Ea. auto. }
    apply release_inv; unfold set_att; simpl.
    + split; [exact Q1|]. split; [exact Q2|]. split; [|exact Q4].
      intro c'. destruct (Nat.eq_dec c' c) as [-> | Hne].
      * rewrite upd_same, Q3, Ea. split; discriminate.
      * rewrite upd_other by exact Hne. apply Q3.
    + split; [intro Hx; apply L1 in Hx; congruence|].
      intro c'. destruct (Nat.eq_dec c' c) as [-> | Hne].
      * rewrite upd_same. discriminate.
      * rewrite upd_other by exact Hne. intro Hx. apply L2 in Hx. congruence.
    + apply corep_change with (count := s_count _ s) (cs := s_cs _ s) (att := s_att _ s) (stp := s_stp _ s) (c := c);
        [exact Hcore|exact Hc| | | |].
      * intros c' Hne. rewrite !upd_other by exact Hne. auto.
      * rewrite !upd_same. apply cinv_register. destruct Hcore as (C1 & _). specialize (C1 c). rewrite Ea in C1. exact C1.
      * rewrite !upd_same. destruct Hcore as (_ & _ & _ & _ & _ & C6).
        apply (sinv_att (s_att _ s c) A2 _ _ (s_cs _ s c)); [apply C6|]. rewrite Ea. discriminate.
      * rewrite upd_same. rewrite cweight_reg by apply Hf. lia.
  - (* A2: re-check the status, start the goroutine *)
    destruct H as ((Q1 & Q2 & Q3 & Q4) & (L1 & L2 & L3) & Hcore).
    assert (Hlq : lq (s_lockq _ s) (s_pp _ s) (upd (s_att _ s) c ADone) (s_todo _ s)).
    { split; [exact Q1|]. split; [exact Q2|]. split; [|exact Q4].
      intro c'. destruct (Nat.eq_dec c' c) as [-> | Hne].
      - rewrite upd_same, Q3, Ea. split; discriminate.
      - rewrite upd_other by exact Hne. apply Q3. }
    assert (Hlh : lh (s_lock _ s) (s_lockq _ s) (s_pp _ s) (upd (s_att _ s) c ADone)).
    { split; [exact L1|]. split; [|exact L3].
      intro c'. destruct (Nat.eq_dec c' c) as [-> | Hne].
      - rewrite upd_same, L2, Ea. split; discriminate.
      - rewrite upd_other by exact Hne. apply L2. }
    pose proof Hcore as (C1 & C2 & C3 & C4 & C5 & C6).
    pose proof (C1 c) as Hci. rewrite Ea in Hci.
    assert (Hpc : c_pc (s_cs _ s c) = CNone) by (destruct Hci as [_ [Hx _]]; exact Hx).
    assert (Hsi : forall k', sinv ADone (s_stp _ s c) (stoppers c) k').
    { intro k'. apply (sinv_att (s_att _ s c) ADone _ _ (s_cs _ s c)); [apply C6|]. rewrite Ea. discriminate. }
    destruct (v_recheck fixed && negb (s_ok _ s) && c_reg (s_cs _ s c)) eqn:Eb; simpl in Eb;
      inversion Hs; subst s'; clear Hs; unfold Inv, set_att; simpl;
      (split; [exact Hlq|]); (split; [exact Hlh|]).
    + apply andb_true_iff in Eb. destruct Eb as [_ Er].
      apply corep_change with (count := s_count _ s) (cs := s_cs _ s) (att := s_att _ s) (stp := s_stp _ s) (c := c);
        [exact Hcore|exact Hc| | | |].
      * intros c' Hne. rewrite !upd_other by exact Hne. auto.
      * rewrite !upd_same. apply cinv_loop. apply preloop_att_recheck; assumption.
      * rewrite !upd_same. apply Hsi.
      * rewrite upd_same. rewrite cweight_loop.
        -- rewrite close_weight, cweight_unreg by exact Er. lia.
        -- rewrite close_loaded. simpl. rewrite Hpc. reflexivity.
    + apply corep_change with (count := s_count _ s) (cs := s_cs _ s) (att := s_att _ s) (stp := s_stp _ s) (c := c);
        [exact Hcore|exact Hc| | | |].
      * intros c' Hne. rewrite !upd_other by exact Hne. auto.
      * rewrite !upd_same. apply cinv_loop. apply preloop_att_plain; [exact Hci|].
        intro Hk. destruct (s_ok _ s) eqn:Eok.
        -- assert (s_kp _ s = K0) by (apply C3; reflexivity). congruence.
        -- simpl in Eb. exact Eb.
      * rewrite !upd_same. apply Hsi.
      * rewrite upd_same. rewrite cweight_loop; [lia|]. rewrite Hpc. reflexivity.
Qed.

Lemma step_stop_inv : forall (s s' : state) c, Inv s -> c < ncons -> s_att _ s c = ADone ->
  step_stop fixed cache_t s c = Some s' -> Inv s'.
Proof.
  intros s s' c (Hq & Hh & Hcore) Hc Ha Hs. unfold step_stop in Hs.
  pose proof Hcore as (C1 & C2 & C3 & C4 & C5 & C6).
  pose proof (C1 c) as Hci. rewrite Ha in Hci. pose proof (C6 c) as Hsi. rewrite Ha in Hsi.
  destruct (s_stp _ s c) eqn:Es; try discriminate.
  - (* S0: LoadAndDelete *)
    destruct (c_reg (s_cs _ s c)) eqn:Er; inversion Hs; subst s'; clear Hs; unfold Inv, set_stp; simpl;
      (split; [exact Hq|]); (split; [exact Hh|]).
    + apply corep_change with (count := s_count _ s) (cs := s_cs _ s) (att := s_att _ s) (stp := s_stp _ s) (c := c);
        [exact Hcore|exact Hc| | | |].
      * intros c' Hne. rewrite !upd_other by exact Hne. auto.
      * rewrite !upd_same, Ha. apply cinv_unreg with (sp := S0); assumption.
      * rewrite !upd_same, Ha. apply sinv_stop_reg with (a := ADone). exact Hsi.
      * rewrite !upd_same, Es. rewrite cweight_unreg by exact Er. rewrite (cweight_sp _ S0 S1).
        cbn [is_s1 b2z]. lia.
    + apply corep_change with (count := s_count _ s) (cs := s_cs _ s) (att := s_att _ s) (stp := s_stp _ s) (c := c);
        [exact Hcore|exact Hc| | | |].
      * intros c' Hne. rewrite !upd_other by exact Hne. auto.
      * rewrite !upd_same, Ha. apply cinv_sp with (sp := S0); [exact Hci|discriminate|discriminate].
      * rewrite !upd_same, Ha. apply sinv_stop_noreg with (kp := s_kp _ s); assumption.
      * rewrite !upd_same, Es. rewrite (cweight_sp _ S0 SDone). cbn [is_s1 b2z]. lia.
  - (* S1: decrement, Close *)
    inversion Hs; subst s'; clear Hs; unfold Inv, set_stp; simpl.
    split; [exact Hq|]. split; [exact Hh|].
    apply corep_change with (count := s_count _ s) (cs := s_cs _ s) (att := s_att _ s) (stp := s_stp _ s) (c := c);
      [exact Hcore|exact Hc| | | |].
    + intros c' Hne. rewrite !upd_other by exact Hne. auto.
    + rewrite !upd_same, Ha. apply cinv_close. exact Hci.
    + rewrite !upd_same, Ha. apply sinv_stop_close. exact Hsi.
    + rewrite !upd_same, Es. rewrite close_weight, (cweight_sp _ S1 SDone). cbn [is_s1 b2z]. lia.
Qed.

Lemma not_loaded : forall pc, pc <> CExitLoaded -> is_loaded pc = false.
Proof. intros pc H. destruct pc; try reflexivity. congruence. Qed.

Lemma step_cons_inv : forall (s s' : state) c, Inv s -> c < ncons ->
  step_cons fixed cache_t panic_at s c = Some s' -> Inv s'.
Proof.
  intros s s' c (Hq & Hh & Hcore) Hc Hs. unfold step_cons in Hs.
  pose proof Hcore as (C1 & C2 & C3 & C4 & C5 & C6).
  pose proof (C1 c) as Hci. pose proof (C6 c) as Hsi.
  assert (Ha : c_pc (s_cs _ s c) <> CNone -> s_att _ s c = ADone) by (apply (cinv_pc_adone _ _ _ _ Hci)).
  destruct (c_pc (s_cs _ s c)) eqn:Epc; try discriminate.
  - (* CPop *)
    rewrite Ha in Hci, Hsi by discriminate.
    destruct (c_q (s_cs _ s c)) as [|x q'] eqn:Eq; inversion Hs; subst s'; clear Hs; unfold Inv, set_cs; simpl;
      (split; [exact Hq|]); (split; [exact Hh|]).
    + apply corep_change with (count := s_count _ s) (cs := s_cs _ s) (att := s_att _ s) (stp := s_stp _ s) (c := c);
        [exact Hcore|exact Hc| | | |].
      * intros c' Hne. rewrite !upd_other by exact Hne. auto.
      * rewrite !upd_same, Ha by discriminate. apply cinv_pop_wait; assumption.
      * rewrite !upd_same, Ha by discriminate. apply sinv_mono with (k := s_cs _ s c); [exact Hsi|].
        apply mono_fields; [reflexivity|reflexivity|rewrite Epc; reflexivity].
      * rewrite !upd_same. rewrite (cweight_fields (s_cs _ s c) (set_pc (s_cs _ s c) CWait)); [lia|reflexivity|].
        simpl. rewrite Epc. reflexivity.
    + apply corep_change with (count := s_count _ s) (cs := s_cs _ s) (att := s_att _ s) (stp := s_stp _ s) (c := c);
        [exact Hcore|exact Hc| | | |].
      * intros c' Hne. rewrite !upd_other by exact Hne. auto.
      * rewrite !upd_same, Ha by discriminate. apply cinv_pop_got; assumption.
      * rewrite !upd_same, Ha by discriminate. apply sinv_mono with (k := s_cs _ s c); [exact Hsi|].
        apply mono_fields; [reflexivity|reflexivity|rewrite Epc; reflexivity].
      * rewrite !upd_same.
        match goal with |- context [cweight ?k' (s_stp _ s c)] =>
          rewrite (cweight_fields (s_cs _ s c) k'); [lia|reflexivity|simpl; rewrite Epc; reflexivity] end.
  - (* CGot *)
    rewrite Ha in Hci, Hsi by discriminate.
    assert (Hpre : preloop (s_kp _ s) (s_stp _ s c) (s_cs _ s c)) by (eapply preloop_got; eassumption).
    assert (Hnl : is_loaded (c_pc (s_cs _ s c)) = false) by (rewrite Epc; reflexivity).
    destruct x as [p|].
    + (* a packet: Consume, possibly panicking *)
      match type of Hs with context [exit_path fixed ?k1 _] => set (kk := k1) in * end.
      assert (Hpre1 : preloop (s_kp _ s) (s_stp _ s c) kk)
        by (apply preloop_fields with (k := s_cs _ s c); [reflexivity|reflexivity|reflexivity|exact Hpre]).
      assert (Hnl1 : is_loaded (c_pc kk) = false) by reflexivity.
      assert (Hm1 : mono (s_cs _ s c) kk) by (apply mono_fields; [reflexivity|reflexivity|exact Hnl]).
      assert (Hw1 : forall sp, cweight kk sp = cweight (s_cs _ s c) sp)
        by (intro sp; apply cweight_fields; [reflexivity|rewrite Hnl; reflexivity]).
      clearbody kk.
      destruct (Nat.eqb (S (length (c_out (s_cs _ s c)))) (panic_at c));
        inversion Hs; subst s'; clear Hs; unfold Inv, set_cs; simpl;
        (split; [exact Hq|]); (split; [exact Hh|]).
      * apply corep_change with (count := s_count _ s) (cs := s_cs _ s) (att := s_att _ s) (stp := s_stp _ s) (c := c);
          [exact Hcore|exact Hc| | | |].
        -- intros c' Hne. rewrite !upd_other by exact Hne. auto.
        -- rewrite !upd_same, Ha by discriminate. apply cinv_exit. exact Hpre1.
        -- rewrite !upd_same, Ha by discriminate. apply sinv_mono with (k := s_cs _ s c); [exact Hsi|].
           eapply mono_trans; [exact Hm1|apply exit_mono; exact Hnl1].
        -- rewrite !upd_same. rewrite cweight_exit by exact Hnl1. rewrite Hw1. lia.
      * apply corep_change with (count := s_count _ s) (cs := s_cs _ s) (att := s_att _ s) (stp := s_stp _ s) (c := c);
          [exact Hcore|exact Hc| | | |].
        -- intros c' Hne. rewrite !upd_other by exact Hne. auto.
        -- rewrite !upd_same, Ha by discriminate. apply cinv_loop. exact Hpre1.
        -- rewrite !upd_same, Ha by discriminate. apply sinv_mono with (k := s_cs _ s c); [exact Hsi|].
           eapply mono_trans; [exact Hm1|apply loop_mono; exact Hnl1].
        -- rewrite !upd_same. rewrite cweight_loop by exact Hnl1. rewrite Hw1. lia.
    + (* nil pack *)
      inversion Hs; subst s'; clear Hs; unfold Inv, set_cs; simpl.
      split; [exact Hq|]. split; [exact Hh|].
      apply corep_change with (count := s_count _ s) (cs := s_cs _ s) (att := s_att _ s) (stp := s_stp _ s) (c := c);
        [exact Hcore|exact Hc| | | |].
      * intros c' Hne. rewrite !upd_other by exact Hne. auto.
      * rewrite !upd_same, Ha by discriminate. apply cinv_loop. exact Hpre.
      * rewrite !upd_same, Ha by discriminate. apply sinv_mono with (k := s_cs _ s c); [exact Hsi|].
        apply loop_mono; exact Hnl.
      * rewrite !upd_same. rewrite cweight_loop by exact Hnl. lia.
  - (* CExitLoaded: the deferred StopConsume decrements and closes *)
    rewrite Ha in Hci, Hsi by discriminate.
    inversion Hs; subst s'; clear Hs; unfold Inv, set_stp; simpl.
    split; [exact Hq|]. split; [exact Hh|].
    apply corep_change with (count := s_count _ s) (cs := s_cs _ s) (att := s_att _ s) (stp := s_stp _ s) (c := c);
      [exact Hcore|exact Hc| | | |].
    + intros c' Hne. rewrite !upd_other by exact Hne. auto.
    + rewrite !upd_same, Ha by discriminate. apply cinv_loaded; assumption.
    + rewrite !upd_same, Ha by discriminate. apply sinv_mono with (k := s_cs _ s c); [exact Hsi|apply loaded_mono].
    + rewrite !upd_same. rewrite cweight_loaded by exact Epc. lia.
Qed.

Theorem step_inv : forall (s s' : state) t, Inv s -> stepf s t = Some s' -> Inv s'.
Proof.
  intros s s' t H Hs. destruct t as [| |c|c|c]; simpl in Hs.
  - eapply step_pub_inv; eassumption.
  - eapply step_close_inv; eassumption.
  - destruct (c <? ncons) eqn:E; [apply Nat.ltb_lt in E|discriminate]. eapply step_att_inv; eassumption.
  - destruct (c <? ncons) eqn:E; [apply Nat.ltb_lt in E|discriminate].
    destruct (s_att _ s c) eqn:Ea; try discriminate. eapply step_stop_inv; eassumption.
  - destruct (c <? ncons) eqn:E; [apply Nat.ltb_lt in E|discriminate]. eapply step_cons_inv; eassumption.
Qed.

Lemma init_inv : forall pkts, Inv (initf pkts stoppers).
Proof.
  intros pkts. unfold Inv, init; simpl. split; [|split].
  - split; [constructor|]. split; [split; [intros []|discriminate]|]. split; [|intro Hx; congruence].
    intro c. split; [intros []|discriminate].
  - split; [split; discriminate|]. split; [|reflexivity]. intro c. split; discriminate.
  - split; [|split; [|split; [|split; [discriminate|split]]]].
    + intro c. split; [reflexivity|]. split; [repeat split|]. destruct (stoppers c); discriminate.
    + symmetry. apply sumn_zero. intros c _. destruct (stoppers c); reflexivity.
    + split; reflexivity.
    + intros c Hx. congruence.
    + intro c. split; [reflexivity|]. split; [reflexivity|]. intros Hb Hs. rewrite Hb in Hs. discriminate.
Qed.

Lemma inv_run : forall sched (s : state), Inv s -> Inv (runf sched s).
Proof.
  induction sched as [|t sched IH]; intros s H; simpl; [exact H|].
  apply IH. destruct (stepf s t) as [s'|] eqn:Es; [eapply step_inv; eassumption|exact H].
Qed.

Lemma reach_inv : forall sched pkts, Inv (runf sched (initf pkts stoppers)).
Proof. intros. apply inv_run, init_inv. Qed.

(* ---------- which steps are disabled ---------- *)
Lemma cons_disabled : forall (s : state) c, step_cons fixed cache_t panic_at s c = None ->
  c_pc (s_cs _ s c) = CNone \/ c_pc (s_cs _ s c) = CWait \/ c_pc (s_cs _ s c) = CDone.
Proof.
  intros s c H. unfold step_cons in H. destruct (c_pc (s_cs _ s c)) as [| |x| | |]; auto.
  - destruct (c_q (s_cs _ s c)); discriminate.
  - destruct x; [destruct (Nat.eqb _ _); discriminate|discriminate].
  - discriminate.
Qed.

Lemma att_disabled : forall (s : state) c, step_att fixed cache_t cache_add cache_snap s c = None ->
  s_att _ s c = A0W \/ s_att _ s c = ADone.
Proof.
  intros s c H. unfold step_att in H. destruct (s_att _ s c); auto; try discriminate.
  destruct (v_recheck fixed && negb (s_ok _ s) && c_reg (s_cs _ s c)); discriminate.
Qed.

Lemma stop_disabled : forall (s : state) c, step_stop fixed cache_t s c = None -> s_stp _ s c = SDone.
Proof.
  intros s c H. unfold step_stop in H. destruct (s_stp _ s c); auto; try discriminate.
  destruct (c_reg (s_cs _ s c)); discriminate.
Qed.

Lemma close_disabled : forall (s : state), step_close fixed cache_t cache_empty ncons s = None -> s_kp _ s = KDone.
Proof.
  intros s H. unfold step_close in H. destruct (s_kp _ s); auto; try discriminate.
  destruct (sweep fixed ncons (s_cs _ s) (length (s_sent _ s))). discriminate.
Qed.

Lemma quiescent_facts : forall (s : state), Inv s -> quiet s ->
  s_kp _ s = KDone /\ s_lock _ s = None /\ s_lockq _ s = [] /\
  forall c, c < ncons -> s_att _ s c = ADone /\ s_stp _ s c = SDone /\
                         step_cons fixed cache_t panic_at s c = None.
Proof.
  intros s ((Q1 & Q2 & Q3 & Q4) & (L1 & L2 & L3) & (C1 & C2 & C3 & C4 & C5 & C6)) Hqs.
  assert (Hk : s_kp _ s = KDone) by (apply close_disabled; exact (Hqs TClose)).
  assert (Hl : s_lock _ s = None).
  { destruct (s_lock _ s) as [[|c]|] eqn:El; [| |reflexivity]; exfalso.
    - assert (Hp : s_pp _ s = P2) by (apply L1; reflexivity).
      assert (Ht : s_todo _ s <> []) by (apply Q4; rewrite Hp; discriminate).
      pose proof (Hqs TPub) as Hx. simpl in Hx. unfold step_pub in Hx. rewrite Hp in Hx.
      destruct (s_todo _ s); [congruence|discriminate].
    - assert (Ha : s_att _ s c = A1) by (apply L2; reflexivity).
      assert (Hc : c < ncons) by (apply C5; rewrite Ha; discriminate).
      pose proof (Hqs (TAtt c)) as Hx. simpl in Hx. apply Nat.ltb_lt in Hc. rewrite Hc in Hx.
      unfold step_att in Hx. rewrite Ha in Hx. discriminate. }
  assert (Hlq : s_lockq _ s = []) by (apply L3; exact Hl).
  split; [exact Hk|]. split; [exact Hl|]. split; [exact Hlq|].
  intros c Hc. apply Nat.ltb_lt in Hc.
  assert (Ha : s_att _ s c = ADone).
  { pose proof (Hqs (TAtt c)) as Hx. simpl in Hx. rewrite Hc in Hx.
    destruct (att_disabled _ _ Hx) as [Hy|Hy]; [|exact Hy].
    apply Q3 in Hy. rewrite Hlq in Hy. destruct Hy. }
  split; [exact Ha|]. split.
  - pose proof (Hqs (TStop c)) as Hx. simpl in Hx. rewrite Hc, Ha in Hx. apply stop_disabled. exact Hx.
  - pose proof (Hqs (TCons c)) as Hx. simpl in Hx. rewrite Hc in Hx. exact Hx.
Qed.

Lemma released_core : forall kp sp k, cinv kp ADone sp k -> sp <> S1 -> c_reg k = false ->
  c_pc k = CNone \/ c_pc k = CWait \/ c_pc k = CDone ->
  c_pc k = CDone /\ c_closes k = 1.
Proof.
  intros kp sp k [Hc (H1 & H2 & H3)] Hs Hr Hp.
  destruct (H2 Hr) as [Hcl|[Hx|Hx]]; [|contradiction|destruct Hp as [Hp|[Hp|Hp]]; congruence].
  destruct Hp as [Hp|[Hp|Hp]]; rewrite Hp in *.
  - destruct H3.
  - destruct H3 as [H3 _]. congruence.
  - auto.
Qed.

Lemma cinv_wait : forall kp a sp k, cinv kp a sp k -> c_pc k = CWait -> c_closed k = false.
Proof.
  intros kp a sp k [_ Ha] Hp. destruct a.
  - destruct Ha as [(_ & Hx & _) _]; congruence.
  - destruct Ha as [(_ & Hx & _) _]; congruence.
  - destruct Ha as [(_ & Hx & _) _]; congruence.
  - destruct Ha as [Hx _]; congruence.
  - destruct Ha as (_ & _ & H3). rewrite Hp in H3. apply H3.
Qed.

Lemma cinv_closes : forall kp a sp k, cinv kp a sp k -> c_closes k <= 1.
Proof. intros kp a sp k [Hc _]. rewrite Hc. destruct (c_pc k); lia. Qed.

(* ---------- C03 ---------- *)
(* local form: the stream is closed, c's attach has returned and neither its goroutine nor its stopper can move *)
Theorem released_after_close_local : forall sched pkts c,
  let s := runf sched (initf pkts stoppers) in
  s_kp _ s = KDone -> s_att _ s c = ADone ->
  stepf s (TCons c) = None -> stepf s (TStop c) = None ->
  c_pc (s_cs _ s c) = CDone /\ c_closes (s_cs _ s c) = 1 /\ c_reg (s_cs _ s c) = false.
Proof.
  intros sched pkts c s Hk Ha Hcons Hstop.
  pose proof (reach_inv sched pkts) as Hinv. fold s in Hinv.
  destruct Hinv as (_ & _ & (C1 & _ & _ & _ & C5 & _)).
  assert (Hc : c < ncons) by (apply C5; rewrite Ha; discriminate).
  apply Nat.ltb_lt in Hc. simpl in Hcons, Hstop. rewrite Hc in Hcons, Hstop. rewrite Ha in Hstop.
  apply stop_disabled in Hstop. apply cons_disabled in Hcons.
  pose proof (C1 c) as Hci. rewrite Ha, Hk in Hci.
  assert (Hr : c_reg (s_cs _ s c) = false) by (destruct Hci as [_ (Hx & _)]; apply Hx; reflexivity).
  destruct (released_core _ _ _ Hci) as [Hp Hn]; auto. rewrite Hstop. discriminate.
Qed.

Theorem released_when_quiescent : forall sched pkts,
  let s := runf sched (initf pkts stoppers) in
  quiet s -> s_kp _ s = KDone ->
  (forall c, c < ncons -> s_att _ s c <> A0 ->
     c_pc (s_cs _ s c) = CDone /\ c_closes (s_cs _ s c) = 1 /\ c_reg (s_cs _ s c) = false) /\
  s_lock _ s = None /\ s_lockq _ s = [].
Proof.
  intros sched pkts s Hqs Hk.
  pose proof (reach_inv sched pkts) as Hinv. fold s in Hinv.
  destruct (quiescent_facts s Hinv Hqs) as (_ & Hl & Hlq & Hall).
  split; [|split; assumption].
  intros c Hc _. destruct (Hall c Hc) as (Ha & _ & _).
  apply released_after_close_local; auto.
Qed.

(* global quiescence is only possible after the close (the closer is always enabled before) *)
Theorem quiescent_closed : forall (s : state), quiet s -> s_kp _ s = KDone.
Proof. intros s H. apply close_disabled. exact (H TClose). Qed.

Theorem count_is_registered : forall sched pkts,
  let s := runf sched (initf pkts stoppers) in
  s_count _ s = sumn ncons (fun c => cweight (s_cs _ s c) (s_stp _ s c)).
Proof. intros sched pkts s. pose proof (reach_inv sched pkts) as (_ & _ & (_ & C2 & _)). exact C2. Qed.

Theorem count_nonneg : forall sched pkts,
  let s := runf sched (initf pkts stoppers) in (0 <= s_count _ s)%Z.
Proof.
  intros sched pkts s. unfold s. rewrite count_is_registered. apply sumn_nonneg.
  intros c _. apply cweight_nonneg.
Qed.

(* nobody is between LoadAndDelete and the decrement: the counter is the number of registered consumers *)
Theorem count_registered_settled : forall sched pkts,
  let s := runf sched (initf pkts stoppers) in
  (forall c, c < ncons -> s_stp _ s c <> S1 /\ c_pc (s_cs _ s c) <> CExitLoaded) ->
  s_count _ s = sumn ncons (fun c => b2z (c_reg (s_cs _ s c))).
Proof.
  intros sched pkts s H. unfold s. rewrite count_is_registered. apply sumn_ext. intros c Hc.
  destruct (H c Hc) as [H1 H2]. unfold cweight. fold s.
  rewrite (not_loaded _ H2). destruct (s_stp _ s c); try contradiction; cbn [is_s1 b2z]; lia.
Qed.

Theorem count_registered_quiescent : forall sched pkts,
  let s := runf sched (initf pkts stoppers) in
  quiet s -> s_count _ s = sumn ncons (fun c => b2z (c_reg (s_cs _ s c))).
Proof.
  intros sched pkts s Hqs. apply count_registered_settled. intros c Hc.
  pose proof (reach_inv sched pkts) as Hinv. fold s in Hinv.
  destruct (quiescent_facts s Hinv Hqs) as (_ & _ & _ & Hall).
  destruct (Hall c Hc) as (_ & Hs & Hx). apply cons_disabled in Hx. fold s. rewrite Hs.
  split; [discriminate|]. destruct Hx as [Hx|[Hx|Hx]]; rewrite Hx; discriminate.
Qed.

Theorem count_zero_quiescent : forall sched pkts,
  let s := runf sched (initf pkts stoppers) in
  quiet s -> s_kp _ s = KDone -> s_count _ s = 0%Z.
Proof.
  intros sched pkts s Hqs Hk. unfold s. rewrite count_registered_quiescent by exact Hqs.
  apply sumn_zero. intros c Hc. fold s.
  destruct (released_when_quiescent sched pkts Hqs Hk) as [Hall _]. fold s in Hall.
  pose proof (reach_inv sched pkts) as Hinv. fold s in Hinv.
  destruct (quiescent_facts s Hinv Hqs) as (_ & _ & _ & Hatt). destruct (Hatt c Hc) as (Ha & _).
  destruct (Hall c Hc) as (_ & _ & Hr); [rewrite Ha; discriminate|]. rewrite Hr. reflexivity.
Qed.

(* a stop that has run to completion releases its consumer, whether or not the stream is closed *)
Theorem stopped_is_released_local : forall sched pkts c,
  let s := runf sched (initf pkts stoppers) in
  stepf s (TCons c) = None -> stepf s (TStop c) = None -> stepf s (TAtt c) = None ->
  s_att _ s c = ADone -> stoppers c = true ->
  c_pc (s_cs _ s c) = CDone /\ c_closes (s_cs _ s c) = 1 /\ c_reg (s_cs _ s c) = false.
Proof.
  intros sched pkts c s Hcons Hstop _ Ha Hb.
  pose proof (reach_inv sched pkts) as Hinv. fold s in Hinv.
  destruct Hinv as (_ & _ & (C1 & _ & _ & _ & C5 & C6)).
  assert (Hc : c < ncons) by (apply C5; rewrite Ha; discriminate).
  apply Nat.ltb_lt in Hc. simpl in Hcons, Hstop. rewrite Hc in Hcons, Hstop. rewrite Ha in Hstop.
  apply stop_disabled in Hstop. apply cons_disabled in Hcons.
  pose proof (C1 c) as Hci. rewrite Ha in Hci.
  destruct (C6 c) as (_ & _ & S3). destruct (S3 Hb Hstop) as [Hr _].
  destruct (released_core _ _ _ Hci) as [Hp Hn]; auto. rewrite Hstop. discriminate.
Qed.

Theorem stopped_is_released_quiescent : forall sched pkts c,
  let s := runf sched (initf pkts stoppers) in
  quiet s -> s_stp _ s c = SDone -> s_att _ s c = ADone -> stoppers c = true ->
  c_pc (s_cs _ s c) = CDone /\ c_closes (s_cs _ s c) = 1.
Proof.
  intros sched pkts c s Hqs _ Ha Hb.
  destruct (stopped_is_released_local sched pkts c) as (H1 & H2 & _); auto; apply Hqs.
Qed.

Theorem no_lost_wakeup : forall sched pkts c,
  let s := runf sched (initf pkts stoppers) in
  c_pc (s_cs _ s c) = CWait -> c_closed (s_cs _ s c) = false.
Proof.
  intros sched pkts c s. pose proof (reach_inv sched pkts) as (_ & _ & (C1 & _)). eapply cinv_wait. apply C1.
Qed.

Theorem closed_at_most_once : forall sched pkts c,
  let s := runf sched (initf pkts stoppers) in c_closes (s_cs _ s c) <= 1.
Proof.
  intros sched pkts c s. pose proof (reach_inv sched pkts) as (_ & _ & (C1 & _)). eapply cinv_closes. apply C1.
Qed.

(* ---------- a stop / a goroutine step / an attach step touches only its own consumer ---------- *)
Theorem stop_touches_only_that : forall V (s s' : state) c,
  step V maxq cache_t cache_empty cache_add cache_snap ncons panic_at s (TStop c) = Some s' ->
  forall c', c' <> c ->
    s_cs _ s' c' = s_cs _ s c' /\ s_att _ s' c' = s_att _ s c' /\ s_stp _ s' c' = s_stp _ s c'.
Proof.
  intros V s s' c H c' Hne. simpl in H. destruct (c <? ncons); [|discriminate].
  destruct (s_att _ s c); try discriminate. unfold step_stop in H.
  destruct (s_stp _ s c); [destruct (c_reg (s_cs _ s c))| |discriminate];
    inversion H; subst s'; simpl; rewrite ?upd_other by exact Hne; auto.
Qed.

Theorem cons_touches_only_that : forall V (s s' : state) c,
  step V maxq cache_t cache_empty cache_add cache_snap ncons panic_at s (TCons c) = Some s' ->
  forall c', c' <> c ->
    s_cs _ s' c' = s_cs _ s c' /\ s_att _ s' c' = s_att _ s c' /\ s_stp _ s' c' = s_stp _ s c'.
Proof.
  intros V s s' c H c' Hne. simpl in H. destruct (c <? ncons); [|discriminate].
  unfold step_cons in H.
  destruct (c_pc (s_cs _ s c)) as [| |x| | |]; try discriminate.
  - destruct (c_q (s_cs _ s c)); inversion H; subst s'; simpl; rewrite ?upd_other by exact Hne; auto.
  - destruct x; [destruct (Nat.eqb _ _)|]; inversion H; subst s'; simpl; rewrite ?upd_other by exact Hne; auto.
  - inversion H; subst s'; simpl; rewrite ?upd_other by exact Hne; auto.
Qed.

(* the fields of a consumer that releasing is about *)
Definition same_release_fields (k k' : cons) : Prop :=
  c_reg k' = c_reg k /\ c_closed k' = c_closed k /\ c_pc k' = c_pc k /\ c_closes k' = c_closes k /\
  c_out k' = c_out k.

Lemma aacq_cs : forall (s : state) h q c',
  (h <> HAtt c' -> s_cs _ (aacq s h q) c' = s_cs _ s c') /\
  same_release_fields (s_cs _ s c') (s_cs _ (aacq s h q) c').
Proof.
  intros s h q c'. unfold same_release_fields. destruct h as [|c]; simpl.
  - destruct (s_todo _ s); simpl; repeat split; reflexivity.
  - destruct (Nat.eq_dec c' c) as [-> | Hne].
    + rewrite upd_same. simpl. split; [congruence|]. repeat split; reflexivity.
    + rewrite upd_other by exact Hne. repeat split; reflexivity.
Qed.

Lemma aacq_stp : forall (s : state) h q, s_stp _ (aacq s h q) = s_stp _ s.
Proof. intros s h q. destruct h; simpl; [destruct (s_todo _ s)|]; reflexivity. Qed.

(* An attach step of c can hand the join mutex to an attacher c' that was blocked in Lock(); in the
   model the woken attacher takes its own cache snapshot within the same atomic step.  So the record
   of c' is unchanged unless c' was blocked in Lock() (A0W), and even then nothing that releasing is
   about changes. *)
Theorem att_touches_only_that_partial : forall sched pkts c s',
  let s := runf sched (initf pkts stoppers) in
  stepf s (TAtt c) = Some s' ->
  forall c', c' <> c ->
    (s_att _ s c' <> A0W -> s_cs _ s' c' = s_cs _ s c') /\
    same_release_fields (s_cs _ s c') (s_cs _ s' c') /\ s_stp _ s' c' = s_stp _ s c'.
Proof.
  intros sched pkts c s' s H c' Hne.
  pose proof (reach_inv sched pkts) as ((Q1 & Q2 & Q3 & Q4) & _ & _). fold s in Q1, Q2, Q3, Q4.
  assert (Hrefl : forall k, same_release_fields k k) by (intro k; repeat split; reflexivity).
  simpl in H. destruct (c <? ncons); [|discriminate]. unfold step_att in H.
  destruct (s_att _ s c) eqn:Ea; try discriminate.
  - (* A0 *)
    inversion H; subst s'; clear H. unfold acquire. simpl v_lock. cbv iota.
    destruct (s_lock _ s).
    + simpl. auto.
    + destruct (aacq_cs s (HAtt c) (s_lockq _ s) c') as [E1 E2].
      split; [intros _; apply E1; congruence|]. split; [exact E2|]. reflexivity.
  - (* A1 *)
    inversion H; subst s'; clear H. unfold release. simpl v_lock. cbv iota.
    match goal with |- context [aacq ?s1 _ _] => set (ss := s1) end.
    assert (Hss : s_cs _ ss c' = s_cs _ s c') by (subst ss; simpl; apply upd_other; exact Hne).
    assert (Hlq : s_lockq _ ss = s_lockq _ s) by reflexivity.
    rewrite Hlq. destruct (s_lockq _ s) as [|h rest] eqn:Eq.
    + simpl. rewrite upd_other by exact Hne. auto.
    + destruct (aacq_cs ss h rest c') as [E1 E2]. rewrite Hss in E1, E2.
      split; [|split; [exact E2|]].
      * intro Hw. apply E1. intro Hh. subst h. apply Hw. apply Q3. left; reflexivity.
      * rewrite aacq_stp. reflexivity.
  - (* A2 *)
    destruct (v_recheck fixed && negb (s_ok _ s) && c_reg (s_cs _ s c));
      inversion H; subst s'; simpl; rewrite upd_other by exact Hne; auto.
Qed.

End Release.

(* ---------- the code before the repairs (variant [original]): computed witnesses ---------- *)
Definition lcase_of (v : variant) (n : nat) (pk : list pkt) (stop : list bool) (sched : list tid) : lcase :=
  {| l_var := v; l_n := n; l_maxq := 4; l_gop := true; l_pkts := pk; l_stop := stop; l_sched := sched;
     l_panic := [] |}.
Definition lquiet (c : lcase) (s : lstate) : Prop :=
  quiescent (l_var c) (l_maxq c) rcache (rc_empty (l_gop c)) rc_add rc_snap (l_n c)
            (fun i => nth i (l_panic c) O) s.
Definition lstep (c : lcase) (s : lstate) (t : tid) : option lstate :=
  step (l_var c) (l_maxq c) rcache (rc_empty (l_gop c)) rc_add rc_snap (l_n c)
       (fun i => nth i (l_panic c) O) s t.

Ltac quiet_n1 :=
  let t := fresh "t" in let c := fresh "c" in
  intro t; destruct t as [| |c|c|c]; try (vm_compute; reflexivity);
  destruct c as [|c]; vm_compute; reflexivity.
Ltac quiet_n2 :=
  let t := fresh "t" in let c := fresh "c" in
  intro t; destruct t as [| |c|c|c]; try (vm_compute; reflexivity);
  destruct c as [|[|c]]; vm_compute; reflexivity.

(* D3: Close signals without the queue lock while the goroutine is between its closed-test and
   cond.Wait: everything is quiescent, the consumer waits forever, Consumer.Close never called *)
Example D3_lost_wakeup_refuted :
  let cs := lcase_of original 1 [] [] [TAtt 0; TAtt 0; TAtt 0; TClose; TClose; TClose; TCons 0] in
  let s := lrun cs in
  lquiet cs s /\ s_kp _ s = KDone /\ s_att _ s 0 = ADone /\
  c_pc (s_cs _ s 0) = CWait /\ c_closed (s_cs _ s 0) = true /\ c_closes (s_cs _ s 0) = 0.
Proof. intros cs s. split; [quiet_n1|vm_compute; repeat split]. Qed.

(* D2: attach after the close sweep: registered for ever, never closed, count stays 1 *)
Example D2_attach_after_close_refuted :
  let cs := lcase_of original 1 [] [] [TClose; TClose; TClose; TAtt 0; TAtt 0; TAtt 0; TCons 0] in
  let s := lrun cs in
  lquiet cs s /\ s_kp _ s = KDone /\ s_att _ s 0 = ADone /\
  c_reg (s_cs _ s 0) = true /\ c_pc (s_cs _ s 0) = CWait /\ c_closed (s_cs _ s 0) = false /\
  c_closes (s_cs _ s 0) = 0 /\ s_count _ s = 1%Z.
Proof. intros cs s. split; [quiet_n1|vm_compute; repeat split]. Qed.

(* D4: Remove (Load … Delete … count--) interleaved with RemoveAndCloseAll (… count = 0) *)
Example D4_negative_count_refuted :
  let cs := lcase_of original 1 [] [true]
              [TAtt 0; TAtt 0; TAtt 0; TStop 0; TClose; TClose; TClose; TStop 0] in
  (s_count _ (lrun cs) < 0)%Z.
Proof. vm_compute. reflexivity. Qed.

(* the unrestricted "an attach step leaves every other consumer's record unchanged" is false in the
   fixed model too: the Unlock of attacher 0 hands the mutex to attacher 1, which takes its snapshot *)
Example att_touches_only_that_refuted :
  let pre := lcase_of fixed 2 [{| p_id := 1; p_kind := 3 |}] [] [TPub; TPub; TPub; TAtt 0; TAtt 1] in
  let s := lrun pre in
  s_att _ s 1 = A0W /\
  match lstep pre s (TAtt 0) with
  | Some s' => c_prefill (s_cs _ s' 1) <> c_prefill (s_cs _ s 1)
  | None => False
  end.
Proof. intros pre s. split; [vm_compute; reflexivity|]. vm_compute. discriminate. Qed.

(* non-vacuity: the fixed model does reach a quiescent closed state with two released consumers
   (one stopped from outside before the close, one swept by the close while waiting) *)
Definition nonvac_case : lcase :=
  lcase_of fixed 2 [{| p_id := 1; p_kind := 2 |}] [false; true]
    [TPub; TPub; TPub; TAtt 0; TAtt 0; TAtt 0; TAtt 1; TAtt 1; TAtt 1; TCons 0; TCons 0; TCons 0;
     TStop 1; TStop 1; TCons 1; TCons 1; TCons 1; TCons 1; TClose; TClose; TCons 0].

Example nonvac_quiescent : lquiet nonvac_case (lrun nonvac_case).
Proof. quiet_n2. Qed.
