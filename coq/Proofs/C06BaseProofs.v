(* C06 — list / arithmetic lemmas used by the depacketiser proofs *)
From Coq Require Import ZArith List Bool Lia ZifyBool.
From V Require Import Bytes BytesLemmas C06Rtp.
Import ListNotations.
Open Scope Z_scope.

Ltac Zify.zify_post_hook ::= Z.div_mod_to_equations.

(* ---- select ---- *)
Lemma select_nil_l {A} (l : list A) : select [] l = [].
Proof. reflexivity. Qed.
Lemma select_nil_r {A} (m : list bool) : select m (@nil A) = [].
Proof. destruct m as [|[] m]; reflexivity. Qed.

Lemma select_app {A} (m1 m2 : list bool) (l1 l2 : list A) :
  length m1 = length l1 -> select (m1 ++ m2) (l1 ++ l2) = select m1 l1 ++ select m2 l2.
Proof.
  revert l1; induction m1 as [|b m1 IH]; intros [|x l1] L; simpl in *; try discriminate; auto.
  injection L as L. destruct b; simpl; rewrite IH; auto.
Qed.

Lemma select_split {A} (n : nat) (m : list bool) (l1 l2 : list A) :
  length l1 = n -> (n <= length m)%nat ->
  select m (l1 ++ l2) = select (firstn n m) l1 ++ select (skipn n m) l2.
Proof.
  intros L1 Lm. rewrite <- (firstn_skipn n m) at 1. apply select_app.
  rewrite firstn_length. lia.
Qed.

Lemma select_all_true {A} (m : list bool) (l : list A) :
  length m = length l -> all_true m = true -> select m l = l.
Proof.
  revert l; induction m as [|b m IH]; intros [|x l] L T; simpl in *; try discriminate; auto.
  apply andb_true_iff in T as [-> T]. injection L as L. f_equal. auto.
Qed.

Lemma all_true_app a b : all_true (a ++ b) = all_true a && all_true b.
Proof. unfold all_true. apply forallb_app. Qed.

Lemma all_true_split n m : all_true m = all_true (firstn n m) && all_true (skipn n m).
Proof. rewrite <- all_true_app, firstn_skipn. reflexivity. Qed.

Lemma all_true_repeat n : all_true (repeat true n) = true.
Proof. induction n; simpl; auto. Qed.

(* ---- chunk_by ---- *)
Lemma chunk_by_concat sizes b : concat (chunk_by sizes b) = b.
Proof.
  revert b; induction sizes as [|s r IH]; intros b; simpl.
  - apply app_nil_r.
  - rewrite IH. unfold take, drop. apply firstn_skipn.
Qed.
Lemma chunk_by_length sizes b : length (chunk_by sizes b) = S (length sizes).
Proof. revert b; induction sizes as [|s r IH]; intros b; simpl; auto. Qed.

(* ---- bytes ---- *)
Lemma is_byte_range b : is_byte b = true <-> 0 <= b < 256.
Proof. unfold is_byte. lia. Qed.

Lemma be16_decode n : 0 <= n < 65536 ->
  exists hi lo, be16 n = [hi; lo] /\ hi * 256 + lo = n /\ 0 <= hi < 256 /\ 0 <= lo < 256.
Proof.
  intros H. unfold be16. eexists; eexists; split; [reflexivity|].
  change 255 with (Z.ones 8). rewrite !Z.land_ones by lia. rewrite Z.shiftr_div_pow2 by lia.
  change (2 ^ 8) with 256. Timeout 20 lia.
Qed.

Lemma be32_bytes n : all_bytes (be32 n) = true.
Proof.
  unfold be32, all_bytes. cbn [forallb]. change 255 with (Z.ones 8). rewrite !Z.land_ones by lia.
  unfold is_byte. change (2 ^ 8) with 256. Timeout 20 lia.
Qed.

Lemma take_app_exact (a b : bytes) : take (zlen a) (a ++ b) = a.
Proof.
  unfold take, zlen. rewrite Nat2Z.id, firstn_app, Nat.sub_diag, firstn_all. simpl. apply app_nil_r.
Qed.

Lemma zlen_cons x (s : bytes) : zlen (x :: s) = 1 + zlen s.
Proof. unfold zlen. simpl length. lia. Qed.
Lemma zlen_nil : zlen [] = 0.
Proof. reflexivity. Qed.

Lemma idx_0_cons x (s : bytes) : idx (x :: s) 0 = Some x.
Proof. reflexivity. Qed.
Lemma idx_nil i : idx [] i = None.
Proof. unfold idx. destruct (i <? 0); auto. destruct (Z.to_nat i); reflexivity. Qed.

(* a finite sweep over all byte values *)
Definition byte_values : list Z := map Z.of_nat (seq 0 256).
Definition forall_bytes (f : Z -> bool) : bool := forallb f byte_values.
Lemma forall_bytes_spec f : forall_bytes f = true -> forall b, 0 <= b < 256 -> f b = true.
Proof.
  unfold forall_bytes, byte_values. intros H b Hb.
  rewrite forallb_forall in H. apply H. apply in_map_iff. exists (Z.to_nat b). split; [lia|].
  apply in_seq. lia.
Qed.

(* ---- 16-bit sequence numbers ---- *)
Lemma seq_prev_at seq0 k : seq_prev (seq_at seq0 (k + 1)) = seq_at seq0 k.
Proof. unfold seq_prev, seq_at. Timeout 20 lia. Qed.

Lemma seq_prev_at' seq0 k : seq_prev (seq_at seq0 k) = seq_at seq0 (k - 1).
Proof. unfold seq_prev, seq_at. Timeout 20 lia. Qed.

Lemma seq_no_chain seq0 j k :
  0 <= j -> j + 2 <= k -> k <= 65535 -> seq_at seq0 j <> seq_prev (seq_at seq0 k).
Proof. unfold seq_prev, seq_at. Timeout 20 lia. Qed.
