(* proofs about Model/C10Names.v *)
From Coq Require Import ZArith List Bool Lia.
From V Require Import Val Bytes C10Names.
Import ListNotations.
Open Scope Z_scope.

Lemma murmur_range : forall d, 0 <= murmur d < W32.
Proof. intros d. unfold murmur, bswap32, u32. apply Z.mod_pos_bound. reflexivity. Qed.

Lemma fname_eqb_true : forall a b, fname_eqb a b = true <-> a = b.
Proof.
  intros [a1 a2] [b1 b2]. unfold fname_eqb. cbn [fst snd]. rewrite andb_true_iff, !Z.eqb_eq.
  split; [intros [-> ->]; reflexivity | intros H; inversion H; auto].
Qed.

Lemma lookup_remove : forall d k' k,
  lookup (remove d k') k = if fname_eqb k' k then None else lookup d k.
Proof.
  induction d as [|[k0 v] d IH]; intros k' k; cbn [remove filter lookup fst].
  - destruct (fname_eqb k' k); reflexivity.
  - destruct (fname_eqb k0 k') eqn:E0; cbn [negb].
    + apply fname_eqb_true in E0. subst k0. unfold remove in IH. rewrite IH.
      destruct (fname_eqb k' k); reflexivity.
    + cbn [lookup]. unfold remove in IH. rewrite IH.
      destruct (fname_eqb k0 k) eqn:E1; [|reflexivity].
      apply fname_eqb_true in E1. subst k0.
      destruct (fname_eqb k' k) eqn:E2; [|reflexivity].
      apply fname_eqb_true in E2. subst k'.
      assert (fname_eqb k k = true) by (apply fname_eqb_true; reflexivity). congruence.
Qed.

Definition ev_stream (e : dev) : Z := match e with DWrite s _ _ => s | DDelete s _ => s end.

Section S.
  Variable path_of : Z -> bytes.

  (* every event is s's own or belongs to a stream whose path hashes differently *)
  Definition others_differ (s : Z) (es : list dev) : Prop :=
    Forall (fun e => ev_stream e = s \/ murmur (path_of (ev_stream e)) <> murmur (path_of s)) es.

  Lemma key_eqb : forall s s' n n',
    (s' = s \/ murmur (path_of s') <> murmur (path_of s)) ->
    fname_eqb (seg_name (path_of s') n') (seg_name (path_of s) n) = (s' =? s) && (n' =? n).
  Proof.
    intros s s' n n' Hd. unfold fname_eqb, seg_name. cbn [fst snd].
    destruct (Z.eqb_spec s' s) as [->|Hne].
    - rewrite Z.eqb_refl. reflexivity.
    - cbn [andb]. destruct (Z.eqb_spec (murmur (path_of s')) (murmur (path_of s))) as [E|E]; [|reflexivity].
      exfalso. destruct Hd as [Hd|Hd]; [exact (Hne Hd) | exact (Hd E)].
  Qed.

  Lemma fetch_is_own_gen : forall es s n d cur,
    others_differ s es ->
    lookup d (seg_name (path_of s) n) = option_map (pair s) cur ->
    lookup (fold_left (dstep path_of) es d) (seg_name (path_of s) n) = option_map (pair s) (own es s n cur).
  Proof.
    induction es as [|e es IH]; intros s n d cur Hd Hl; cbn [fold_left own]; [exact Hl|].
    inversion Hd as [|e0 es0 He Hes]; subst e0 es0.
    destruct e as [s' n' c | s' n']; cbn [ev_stream] in He; apply IH; try exact Hes; cbn [dstep lookup].
    - rewrite (key_eqb s s' n n' He).
      destruct ((s' =? s) && (n' =? n)) eqn:E; [|exact Hl].
      apply andb_true_iff in E. destruct E as [E _]. apply Z.eqb_eq in E. subst s'. reflexivity.
    - rewrite lookup_remove, (key_eqb s s' n n' He).
      destruct ((s' =? s) && (n' =? n)); [reflexivity | exact Hl].
  Qed.

  (* whatever the other streams do, in any interleaving, a stream that fetches its segment n gets exactly what it
     wrote itself last under that number (nothing after its own delete) *)
  Theorem fetch_is_own : forall es s n,
    others_differ s es ->
    dfetch path_of (drun path_of es) s n = option_map (pair s) (own es s n None).
  Proof. intros es s n Hd. unfold dfetch, drun. apply fetch_is_own_gen; [exact Hd | reflexivity]. Qed.
End S.

(* the hypothesis is needed: where two streams' paths hash alike, one reads the other's segment *)
Theorem equal_hash_refuted : exists path_of es s n,
  murmur (path_of 0) = murmur (path_of 1) /\
  dfetch path_of (drun path_of es) s n <> option_map (pair s) (own es s n None).
Proof.
  exists (fun _ => [47]), [DWrite 0 1 10; DWrite 1 1 11], 0, 1. split; [reflexivity|].
  vm_compute. discriminate.
Qed.

Lemma own_two_events : forall k m s n cur, (s = 0 \/ s = 1) ->
  own (two_events k m) s n cur = if (m <=? n) && (n <? m + Z.of_nat k) then Some (2 * n + s) else cur.
Proof.
  induction k as [|k IH]; intros m s n cur Hs; cbn [two_events own].
  - replace (m + Z.of_nat 0) with m by lia.
    destruct (Z.leb_spec m n), (Z.ltb_spec n m); cbn [andb]; try reflexivity; lia.
  - rewrite IH by exact Hs. rewrite Nat2Z.inj_succ.
    destruct Hs as [-> | ->]; cbn [Z.eqb andb];
      destruct (Z.eqb_spec m n); destruct (Z.leb_spec (m + 1) n); destruct (Z.ltb_spec n (m + 1 + Z.of_nat k));
      destruct (Z.leb_spec m n); destruct (Z.ltb_spec n (m + Z.succ (Z.of_nat k)));
      cbn [andb Pos.eqb]; try reflexivity; try lia; subst; f_equal; lia.
Qed.

Lemma reads_own_all : forall d pa pb s k lo,
  (forall n, lo <= n < lo + Z.of_nat k -> dfetch (two_path pa pb) d s n = Some (s, 2 * n + s)) ->
  reads_own d pa pb s k lo = true.
Proof.
  intros d pa pb s. induction k as [|k IH]; intros lo H; cbn [reads_own]; [reflexivity|].
  rewrite (H lo) by lia. rewrite !Z.eqb_refl. cbn [andb]. apply IH. intros n Hn. apply H. lia.
Qed.

Lemma two_events_streams : forall k m, Forall (fun e => ev_stream e = 0 \/ ev_stream e = 1) (two_events k m).
Proof.
  induction k as [|k IH]; intros m; cbn [two_events]; [constructor|].
  constructor; [left; reflexivity|]. constructor; [right; reflexivity|]. apply IH.
Qed.

Lemma two_reads_own : forall pa pb k s, (s = 0 \/ s = 1) -> murmur pa <> murmur pb ->
  reads_own (drun (two_path pa pb) (two_events k 1)) pa pb s k 1 = true.
Proof.
  intros pa pb k s Hs Hne. apply reads_own_all. intros n Hn.
  rewrite fetch_is_own.
  - rewrite own_two_events by exact Hs.
    destruct (Z.leb_spec 1 n); [|lia]. destruct (Z.ltb_spec n (1 + Z.of_nat k)); [|lia]. reflexivity.
  - unfold others_differ. eapply Forall_impl; [|apply two_events_streams].
    intros e He. cbn beta in He. unfold two_path.
    destruct He as [He|He], Hs as [Hs|Hs]; rewrite He, Hs; cbn [Z.eqb]; auto.
Qed.

Theorem two_model_passes : forall pa pb k, two_ok pa pb (two_model pa pb k) = true.
Proof.
  intros pa pb k. unfold two_ok, two_model. rewrite !Z.eqb_refl. cbn [andb].
  destruct (Z.eqb_spec (murmur pa) (murmur pb)) as [E|E]; [reflexivity|].
  rewrite !two_reads_own by auto. reflexivity.
Qed.

(* file names of one stream are injective in the sequence number, and the names of two streams with different
   hashes are disjoint *)
Theorem seg_name_inj : forall p n m, seg_name p n = seg_name p m -> n = m.
Proof. intros p n m H. inversion H. reflexivity. Qed.
Theorem seg_names_disjoint : forall p q n m, murmur p <> murmur q -> seg_name p n <> seg_name q m.
Proof. intros p q n m Hne H. inversion H. contradiction. Qed.
