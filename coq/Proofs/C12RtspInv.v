(* C12 — the model passes the specification monitor (c12_ok) on every request sequence;
   reachability theorems through the monitor's bookkeeping. *)
From Coq Require Import ZArith List Bool Lia.
From V Require Import Bytes StrGo BytesLemmas C12RtspSession C12RtspProofs.
Import ListNotations.
Open Scope Z_scope.

Local Opaque canonical_path parse_transport ctl_match.

(* the relation between the session (model) and the monitor's bookkeeping *)
Record J (ext watch : list bytes) (s : sess) (m : mon) : Prop := {
  j_closed : s_closed s = m_closed m;
  j_phase : s_closed s = false -> s_status s = m_phase m;
  j_unknown : s_mode s = MdUnknown -> s_vctl s = CtlOk [] /\ s_actl s = CtlOk [];
  j_desc : s_closed s = false -> s_mode s = MdPlay -> m_desc m = true;
  j_ann : s_closed s = false -> s_mode s = MdRecord -> m_ann m = true;
  j_via_d : s_closed s = false -> s_status s <> SInit -> s_mode s = MdPlay -> m_via_d m = true;
  j_via_a : s_closed s = false -> s_status s <> SInit -> s_mode s = MdRecord -> m_via_a m = true;
  j_cons : forall p, s_held s = HCons p -> s_closed s = false /\ s_status s = SPlaying;
  j_pub : forall p, s_held s = HPub p -> s_closed s = false /\ s_status s = SRecording;
  j_reg : m_reg m = registry ext (s_held s) watch;
  j_closed_init : s_closed s = true -> s_status s = SInit
}.

Lemma J_init : forall ext watch ws wp,
  J ext watch (init_sess ws wp) (mon0 (registry ext HNone watch)).
Proof.
  intros. constructor; cbn; intros; try discriminate; auto.
Qed.

Lemma smode_eq_dec : forall a b : smode, {a = b} + {a <> b}.
Proof. decide equality. Qed.
Lemma ctl_eq_dec : forall a b : ctl, {a = b} + {a <> b}.
Proof. decide equality. apply (list_eq_dec Z.eq_dec). Qed.
Lemma status_eq_dec : forall a b : status, {a = b} + {a <> b}.
Proof. decide equality. Qed.

(* J only looks at these six components of the session *)
Lemma J_keep : forall ext watch s s' m,
  J ext watch s m ->
  s_closed s' = s_closed s -> s_status s' = s_status s -> s_mode s' = s_mode s ->
  s_vctl s' = s_vctl s -> s_actl s' = s_actl s -> s_held s' = s_held s ->
  J ext watch s' m.
Proof.
  intros ext watch s s' m HJ E1 E2 E3 E4 E5 E6. destruct HJ.
  constructor; rewrite ?E1, ?E2, ?E3, ?E4, ?E5, ?E6; auto.
Qed.

Definition obs_of (watch ext' : list bytes) (s' : sess) (rs : list response) : obs_step :=
  {| o_resps := rs; o_eof := s_closed s'; o_reg := registry ext' (s_held s') watch; o_media := false |}.

Lemma is_2xx_class : forall c, is_2xx c = (code_class c =? 2).
Proof. reflexivity. Qed.

Lemma finish_2xx : forall ext' watch s' m'',
  let R := registry ext' (s_held s') watch in
  J ext' watch s' (set_mreg m'' R) ->
  (if (negb (reg_has_cons R) || status_eqb (m_phase m'') SPlaying)
      && (negb (reg_has_own R) || status_eqb (m_phase m'') SRecording)
      && (negb false || m_played m'')
      && (if m_closed m'' then s_closed s' && reg_no_self R else negb (s_closed s'))
   then Some (set_mreg m'' R) else None) = Some (set_mreg m'' R).
Proof.
  intros ext' watch s' m'' R HJ.
  pose proof (j_closed _ _ _ _ HJ) as Jc. cbn in Jc.
  assert (H1 : negb (reg_has_cons R) || status_eqb (m_phase m'') SPlaying = true).
  { destruct (reg_has_cons R) eqn:E; [|reflexivity]. cbn.
    destruct (reg_has_cons_inv _ _ _ E) as [p Hp]. destruct (j_cons _ _ _ _ HJ _ Hp) as [Hc Hs].
    pose proof (j_phase _ _ _ _ HJ Hc) as Hp'. cbn in Hp'. rewrite <- Hp', Hs. reflexivity. }
  assert (H2 : negb (reg_has_own R) || status_eqb (m_phase m'') SRecording = true).
  { destruct (reg_has_own R) eqn:E; [|reflexivity]. cbn.
    destruct (reg_has_own_inv _ _ _ E) as [p Hp]. destruct (j_pub _ _ _ _ HJ _ Hp) as [Hc Hs].
    pose proof (j_phase _ _ _ _ HJ Hc) as Hp'. cbn in Hp'. rewrite <- Hp', Hs. reflexivity. }
  rewrite H1, H2. cbn [negb orb andb]. rewrite <- Jc.
  destruct (s_closed s') eqn:Hc; [|reflexivity].
  assert (Hh : s_held s' = HNone).
  { destruct (s_held s') eqn:E; [reflexivity | |].
    - destruct (j_cons _ _ _ _ HJ _ E); congruence.
    - destruct (j_pub _ _ _ _ HJ _ E); congruence. }
  subst R. rewrite Hh, reg_no_self_none. reflexivity.
Qed.

Ltac heldtac :=
  try match goal with
  | Hc : forall p, s_held ?s = HCons p -> _, H : s_held ?s = HCons _ |- _ =>
      destruct (Hc _ H); split; congruence
  | Hc : forall p, s_held ?s = HPub p -> _, H : s_held ?s = HPub _ |- _ =>
      destruct (Hc _ H); split; congruence
  end.

Lemma mon_step_ok : forall e watch ext s m q,
  J ext watch s m -> req_wf q = true ->
  forall s' rs fs, step e s q = (s', rs, fs) ->
  exists m', mon_step m q (obs_of watch (apply_effects ext fs) s' rs) = Some m' /\
             J (apply_effects ext fs) watch s' m'.
Proof.
  intros e watch ext s m q HJ Hwf s' rs fs Hs.
  destruct (s_closed s) eqn:Hc.
  - (* connection already gone *)
    unfold step, step_gen in Hs. rewrite Hc in Hs. inversion Hs; subst; clear Hs.
    unfold mon_step, obs_of. rewrite <- (j_closed _ _ _ _ HJ), Hc. cbn.
    destruct (s_held s') eqn:Hh.
    + rewrite reg_no_self_none. eexists; split; [reflexivity|].
      destruct HJ; constructor; cbn; auto; try (intros; congruence); try (rewrite Hh; reflexivity).
    + destruct (j_cons _ _ _ _ HJ _ Hh); congruence.
    + destruct (j_pub _ _ _ _ HJ _ Hh); congruence.
  - destruct (step_basic _ _ _ _ _ _ Hc Hs) as [c [Hrs [Btd [Bop [Bill [B455 [Bref Bsame]]]]]]].
    subst rs.
    destruct (step_moves _ _ _ _ _ _ Hc Hs) as [Gcc [Gmode [Gctl [Gd [Ga [Gs [Gst [Gp [Gr Gheld]]]]]]]]].
    pose proof (j_closed _ _ _ _ HJ) as Jc. rewrite Hc in Jc.
    pose proof (j_phase _ _ _ _ HJ Hc) as Jp.
    assert (Hnomatch : s_mode s = MdUnknown ->
              forall v a, s_vctl s = CtlOk v -> s_actl s = CtlOk a ->
              ctl_match (q_url q) a || ctl_match (q_url q) v = true -> False).
    { intros Hu v a Hv Ha Hm. destruct (j_unknown _ _ _ _ HJ Hu) as [Hv0 Ha0].
      rewrite Hv0 in Hv. rewrite Ha0 in Ha. inversion Hv; inversion Ha; subst.
      rewrite (ctl_match_nil _ (req_wf_url _ Hwf)) in Hm. discriminate. }
    unfold mon_step, obs_of. rewrite <- Jc. cbn [o_resps o_eof o_reg o_media resp rs_code rs_cseq rs_sess].
    rewrite bytes_eqb_refl. cbn [andb negb].
    destruct (code_class c =? 0) eqn:Hc0; [apply Z.eqb_eq in Hc0; congruence|]. cbn [negb].
    rewrite <- Jp.
    destruct (legal (s_status s) (q_meth q)) eqn:Hleg; cbn [negb].
    + (* legal in the current state *)
      assert (Hkeep : is_2xx c = false ->
                s_mode s' = s_mode s /\ s_vctl s' = s_vctl s /\ s_actl s' = s_actl s).
      { intros H2. split; [|split].
        - destruct (smode_eq_dec (s_mode s') (s_mode s)) as [|n]; [assumption|].
          destruct (Gmode n) as [[H2' _] | [_ [Hu [v [a [Hv [Ha Hmt]]]]]]]; [congruence|].
          exfalso. eapply Hnomatch; eauto.
        - destruct (ctl_eq_dec (s_vctl s') (s_vctl s)) as [|n]; [assumption|].
          destruct (Gctl (or_introl n)) as [H2' _]. congruence.
        - destruct (ctl_eq_dec (s_actl s') (s_actl s)) as [|n]; [assumption|].
          destruct (Gctl (or_intror n)) as [H2' _]. congruence. }
      assert (Hrefused : is_2xx c = false -> q_meth q <> MTeardown ->
                apply_effects ext fs = ext /\
                s_closed s' = false /\ s_held s' = s_held s /\ J ext watch s' m).
      { intros H2 Hnt. destruct (Bref H2) as [Hst [Hh Hfs]]. subst fs.
        destruct (Hkeep H2) as [Hm [Hv Ha]]. pose proof (Bop Hnt) as Hcl.
        split; [reflexivity | split; [assumption | split; [assumption|]]].
        eapply J_keep; eauto. }
      destruct (code_class c =? 455) eqn:H455.
      * apply Z.eqb_eq in H455. pose proof (code_class_455 _ H455) as ->.
        destruct (B455 eq_refl) as [Hl | [Hrdy Hpr]]; [congruence|].
        rewrite Hrdy.
        assert (Hnt : q_meth q <> MTeardown) by (destruct Hpr as [E | E]; rewrite E; discriminate).
        replace (is_play_or_record (q_meth q)) with true by (destruct Hpr as [E | E]; rewrite E; reflexivity).
        replace (is_teardown (q_meth q)) with false by (destruct Hpr as [E | E]; rewrite E; reflexivity).
        destruct (Hrefused eq_refl Hnt) as [-> [Hcl [Hh HJ']]].
        cbn. rewrite Hcl, Hh, (j_reg _ _ _ _ HJ), reg_eqb_refl. cbn.
        eexists; split; [reflexivity | exact HJ'].
      * cbn [andb].
        destruct (code_class c =? 2) eqn:H2.
        -- (* accepted *)
           assert (Hx : is_2xx c = true) by exact H2.
           assert (Hval : meth_eqb (q_meth q) MSetup && transport_invalid (q_transport q) = false).
           { destruct (meth_eqb (q_meth q) MSetup) eqn:E; [|reflexivity]. cbn [andb].
             apply (step_setup_valid _ _ _ _ _ _ Hc Hs); [|exact Hx].
             destruct (q_meth q); try discriminate E; reflexivity. }
           cbn [andb]. rewrite Hval.
           assert (Hmode : s_mode s' = s_mode s \/
                     (q_meth q = MDescribe /\ s_mode s' = MdPlay) \/
                     (q_meth q = MAnnounce /\ s_mode s' = MdRecord)).
           { destruct (smode_eq_dec (s_mode s') (s_mode s)) as [|n]; [left; assumption|].
             destruct (Gmode n) as [[_ Hd] | [_ [Hu [v [a [Hv [Ha Hmt]]]]]]]; [right; exact Hd|].
             exfalso. eapply Hnomatch; eauto. }
           assert (Hctl : (s_vctl s' = s_vctl s /\ s_actl s' = s_actl s) \/
                          ((q_meth q = MDescribe \/ q_meth q = MAnnounce) /\ s_mode s' <> MdUnknown)).
           { destruct (ctl_eq_dec (s_vctl s') (s_vctl s)) as [Ev|n];
               [|right; destruct (Gctl (or_introl n)) as [_ Hd]; exact Hd].
             destruct (ctl_eq_dec (s_actl s') (s_actl s)) as [Ea|n];
               [left; split; assumption | right; destruct (Gctl (or_intror n)) as [_ Hd]; exact Hd]. }
           destruct (q_meth q) eqn:Hm; try discriminate Hleg.
           all: cbn [mon_accept].
           ++ (* OPTIONS *)
              assert (Hst : s_status s' = s_status s) by (apply Gst; discriminate).
              destruct (Bsame Hst ltac:(discriminate)) as [Hh ->].
              pose proof (Bop ltac:(discriminate)) as Hcl.
              destruct Hmode as [Hmo | [[? _] | [? _]]]; try discriminate.
              destruct Hctl as [[Hv Ha] | [[?|?] _]]; try discriminate.
              assert (HJ' : J ext watch s' (set_mreg m (registry ext (s_held s') watch))).
              { pose proof (J_keep _ _ _ _ _ HJ (eq_trans Hcl (eq_sym Hc)) Hst Hmo Hv Ha Hh) as K.
                destruct K; constructor; cbn; auto. }
              refine (ex_intro _ _ (conj _ HJ')); exact (finish_2xx _ _ _ _ HJ').
           ++ (* DESCRIBE *)
              assert (Hi : s_status s = SInit) by (destruct (s_status s); try discriminate Hleg; reflexivity).
              assert (Hst : s_status s' = s_status s) by (apply Gst; discriminate).
              destruct (Bsame Hst ltac:(discriminate)) as [Hh ->].
              pose proof (Bop ltac:(discriminate)) as Hcl.
              pose proof (Gd Hx eq_refl) as Hmo.
              assert (HJ' : J ext watch s'
                        (set_mreg {| m_phase := m_phase m; m_desc := true; m_ann := m_ann m; m_via_d := m_via_d m;
                                     m_via_a := m_via_a m; m_played := m_played m; m_closed := false; m_reg := m_reg m |}
                                  (registry ext (s_held s') watch))).
              { destruct HJ. constructor; cbn; intros; rewrite ?Hst, ?Hh, ?Hcl in *; try congruence; auto.
                all: heldtac. }
              refine (ex_intro _ _ (conj _ HJ')); exact (finish_2xx _ _ _ _ HJ').
           ++ (* ANNOUNCE *)
              assert (Hi : s_status s = SInit) by (destruct (s_status s); try discriminate Hleg; reflexivity).
              assert (Hst : s_status s' = s_status s) by (apply Gst; discriminate).
              destruct (Bsame Hst ltac:(discriminate)) as [Hh ->].
              pose proof (Bop ltac:(discriminate)) as Hcl.
              pose proof (Ga Hx eq_refl) as Hmo.
              assert (HJ' : J ext watch s'
                        (set_mreg {| m_phase := m_phase m; m_desc := m_desc m; m_ann := true; m_via_d := m_via_d m;
                                     m_via_a := m_via_a m; m_played := m_played m; m_closed := false; m_reg := m_reg m |}
                                  (registry ext (s_held s') watch))).
              { destruct HJ. constructor; cbn; intros; rewrite ?Hst, ?Hh, ?Hcl in *; try congruence; auto.
                all: heldtac. }
              refine (ex_intro _ _ (conj _ HJ')); exact (finish_2xx _ _ _ _ HJ').
           ++ (* SETUP *)
              pose proof (Gs Hx eq_refl) as Hst.
              destruct (Gheld ltac:(discriminate) ltac:(discriminate) ltac:(discriminate)) as [Hh ->].
              pose proof (Bop ltac:(discriminate)) as Hcl.
              destruct Hmode as [Hmo | [[? _] | [? _]]]; try discriminate.
              destruct Hctl as [[Hv Ha] | [[?|?] _]]; try discriminate.
              match goal with
              | |- exists m', (if _ then Some (set_mreg ?m2 (registry ?x (s_held ?s2) ?w)) else None) = Some m' /\ _ =>
                  assert (HJ' : J x w s2 (set_mreg m2 (registry x (s_held s2) w)))
              end.
              { rewrite <- Jp.
                destruct HJ. constructor; cbn; intros; rewrite ?Hst, ?Hh, ?Hcl, ?Hmo, ?Hv, ?Ha in *;
                try congruence; auto.
                - destruct (s_status s); reflexivity.
                - rewrite j_desc0; auto. apply orb_true_r.
                - rewrite j_ann0; auto. apply orb_true_r.
                - destruct (j_cons0 _ H) as [_ E]. rewrite E in *. split; reflexivity.
                - destruct (j_pub0 _ H) as [_ E]. rewrite E in *. split; reflexivity. }
              refine (ex_intro _ _ (conj _ HJ')); exact (finish_2xx _ _ _ _ HJ').
           ++ (* PLAY *)
              destruct (Gp Hx eq_refl) as [Hst' Hrdy].
              pose proof (Bop ltac:(discriminate)) as Hcl.
              destruct Hmode as [Hmo | [[? _] | [? _]]]; try discriminate.
              destruct Hctl as [[Hv Ha] | [[?|?] _]]; try discriminate.
              rewrite <- Jp.
              destruct (s_status s) eqn:Hst; try discriminate Hleg.
              ** (* ready -> playing *)
                 destruct (Hrdy eq_refl) as [Hpl [p [Hh ->]]].
                 rewrite (j_via_d _ _ _ _ HJ Hc ltac:(congruence) Hpl).
                 cbn [apply_effects fold_left apply_effect].
                 match goal with
                 | |- exists m', (if _ then Some (set_mreg ?m2 (registry ?x (s_held ?s2) ?w)) else None) = Some m' /\ _ =>
                     assert (HJ' : J x w s2 (set_mreg m2 (registry x (s_held s2) w)))
                 end.
                 { destruct HJ. constructor; cbn; intros; rewrite ?Hst', ?Hcl, ?Hmo, ?Hv, ?Ha in *;
                   try congruence; auto.
                   all: try (apply j_via_d0; congruence); try (apply j_via_a0; congruence). }
                 refine (ex_intro _ _ (conj _ HJ')); exact (finish_2xx _ _ _ _ HJ').
              ** (* keep-alive PLAY *)
                 destruct (Bsame ltac:(congruence) ltac:(discriminate)) as [Hh ->].
                 assert (HJ' : J ext watch s' (set_mreg m (registry ext (s_held s') watch))).
                 { pose proof (J_keep _ _ _ _ _ HJ (eq_trans Hcl (eq_sym Hc)) ltac:(congruence) Hmo Hv Ha Hh) as K.
                   destruct K; constructor; cbn; auto. }
                 refine (ex_intro _ _ (conj _ HJ')); exact (finish_2xx _ _ _ _ HJ').
           ++ (* RECORD *)
              destruct (Gr Hx eq_refl) as [Hst' Hrdy].
              pose proof (Bop ltac:(discriminate)) as Hcl.
              destruct Hmode as [Hmo | [[? _] | [? _]]]; try discriminate.
              destruct Hctl as [[Hv Ha] | [[?|?] _]]; try discriminate.
              rewrite <- Jp.
              destruct (s_status s) eqn:Hst; try discriminate Hleg.
              ** destruct (Hrdy eq_refl) as [Hpl [p [Hh ->]]].
                 rewrite (j_via_a _ _ _ _ HJ Hc ltac:(congruence) Hpl).
                 match goal with
                 | |- exists m', (if _ then Some (set_mreg ?m2 (registry ?x (s_held ?s2) ?w)) else None) = Some m' /\ _ =>
                     assert (HJ' : J x w s2 (set_mreg m2 (registry x (s_held s2) w)))
                 end.
                 { destruct HJ. constructor; cbn; intros; rewrite ?Hst', ?Hcl, ?Hmo, ?Hv, ?Ha in *;
                   try congruence; auto.
                   all: try (apply j_via_d0; congruence); try (apply j_via_a0; congruence). }
                 refine (ex_intro _ _ (conj _ HJ')); exact (finish_2xx _ _ _ _ HJ').
              ** destruct (Bsame ltac:(congruence) ltac:(discriminate)) as [Hh ->].
                 assert (HJ' : J ext watch s' (set_mreg m (registry ext (s_held s') watch))).
                 { pose proof (J_keep _ _ _ _ _ HJ (eq_trans Hcl (eq_sym Hc)) ltac:(congruence) Hmo Hv Ha Hh) as K.
                   destruct K; constructor; cbn; auto. }
                 refine (ex_intro _ _ (conj _ HJ')); exact (finish_2xx _ _ _ _ HJ').
           ++ (* TEARDOWN *)
              destruct (Btd eq_refl) as [-> [-> ->]].
              cbn [apply_effects fold_left apply_effect].
              match goal with
              | |- exists m', (if _ then Some (set_mreg ?m2 (registry ?x (s_held ?s2) ?w)) else None) = Some m' /\ _ =>
                  assert (HJ' : J x w s2 (set_mreg m2 (registry x (s_held s2) w)))
              end.
              { destruct HJ. constructor; cbn; intros; try congruence; auto. }
              refine (ex_intro _ _ (conj _ HJ')); exact (finish_2xx _ _ _ _ HJ').
        -- (* refused with another code *)
           assert (Hnt : q_meth q <> MTeardown).
           { intros E. destruct (Btd E) as [-> _]. discriminate. }
           replace (is_teardown (q_meth q)) with false by (destruct (q_meth q); try reflexivity; congruence).
           destruct (Hrefused H2 Hnt) as [-> [Hcl [Hh HJ']]].
           cbn. rewrite Hcl, Hh, (j_reg _ _ _ _ HJ), reg_eqb_refl. cbn.
           eexists; split; [reflexivity | exact HJ'].
    + (* illegal *)
      destruct (Bill eq_refl) as [-> [-> ->]]. cbn [apply_effects fold_left code_class].
      cbn. rewrite (j_reg _ _ _ _ HJ), reg_eqb_refl, Hc. cbn.
      eexists; split; [reflexivity | exact HJ].
Qed.

Lemma run_gen_ok : forall e watch qs ext s m,
  J ext watch s m -> forallb req_wf qs = true ->
  forall os ext' s', run_gen true e watch ext s qs = (os, (ext', s')) ->
  exists m', mon_run m qs os = Some m' /\ J ext' watch s' m'.
Proof.
  intros e watch qs. induction qs as [|q qs IH]; intros ext s m HJ Hwf os ext' s' Hrun.
  - cbn in Hrun. inversion Hrun; subst. exists m. split; [reflexivity | assumption].
  - cbn in Hwf. apply andb_true_iff in Hwf. destruct Hwf as [Hq Hqs].
    cbn [run_gen] in Hrun.
    destruct (step_gen true e s q) as [[s1 rs] fs] eqn:Hs.
    destruct (run_gen true e watch (apply_effects ext fs) s1 qs) as [os1 fin] eqn:Hr.
    inversion Hrun; subst; clear Hrun.
    destruct (mon_step_ok e watch ext s m q HJ Hq s1 rs fs Hs) as [m1 [Hm1 HJ1]].
    destruct (IH _ _ _ HJ1 Hqs _ _ _ Hr) as [m' [Hm' HJ']].
    exists m'. split; [|assumption].
    cbn [mon_run]. unfold obs_of in Hm1. rewrite Hm1. exact Hm'.
Qed.

(* the oracle accepts the model on every well-formed request sequence, in every environment *)
Theorem model_passes : forall e watch ext ws wspath qs,
  forallb req_wf qs = true ->
  c12_ok (registry ext HNone watch) qs (run_case true e watch ext (init_sess ws wspath) qs) = true.
Proof.
  intros e watch ext ws wspath qs Hwf. unfold run_case, c12_ok.
  destruct (run_gen true e watch ext (init_sess ws wspath) qs) as [os [ext' s']] eqn:Hr.
  destruct (run_gen_ok _ _ _ _ _ _ (J_init ext watch ws wspath) Hwf _ _ _ Hr) as [m' [Hm HJ]].
  unfold disconnect. destruct (s_closed s') eqn:Hc; cbn [fst snd]; rewrite Hm.
  - destruct (s_held s') eqn:Hh.
    + apply reg_no_self_none.
    + destruct (j_cons _ _ _ _ HJ _ Hh); congruence.
    + destruct (j_pub _ _ _ _ HJ _ Hh); congruence.
  - cbn. apply reg_no_self_none.
Qed.

(* ---------------------------------------------------------------- reachability, through the monitor *)
Lemma subseq_nil : forall tr, subseq [] tr.
Proof. destruct tr; exact I. Qed.

Lemma subseq_app_r : forall tr ms tr2, subseq ms tr -> subseq ms (tr ++ tr2).
Proof.
  induction tr as [|x tr IH]; intros ms tr2 H.
  - destruct ms; [apply subseq_nil | destruct H].
  - destruct ms as [|m ms]; [exact I|]. cbn in H |- *.
    destruct H as [[H1 [H2 H3]] | H]; [left; repeat split; auto | right; apply (IH (m :: ms)); exact H].
Qed.

Lemma meth_eqb_refl : forall m, meth_eqb m m = true.
Proof. destruct m; cbn; auto. apply Z.eqb_refl. Qed.

Lemma subseq_snoc : forall tr ms m, subseq ms tr -> subseq (ms ++ [m]) (tr ++ [(m, 2)]).
Proof.
  induction tr as [|x tr IH]; intros ms m H.
  - destruct ms; [|destruct H]. cbn. left. rewrite meth_eqb_refl. auto.
  - destruct ms as [|m0 ms].
    + cbn [app]. change (subseq [m] (x :: tr ++ [(m, 2)])). cbn. right. apply (IH [] m). apply subseq_nil.
    + cbn in H. cbn [app]. change (subseq (m0 :: ms ++ [m]) (x :: tr ++ [(m, 2)])). cbn.
      destruct H as [[H1 [H2 H3]] | H].
      * left. repeat split; auto.
      * right. apply (IH (m0 :: ms) m H).
Qed.

(* what the monitor's flags mean in terms of the events seen so far *)
Record MI (m : mon) (tr : list (meth * Z)) : Prop := {
  mi_desc : m_desc m = true -> subseq [MDescribe] tr;
  mi_ann : m_ann m = true -> subseq [MAnnounce] tr;
  mi_via_d : m_via_d m = true -> subseq [MDescribe; MSetup] tr;
  mi_via_a : m_via_a m = true -> subseq [MAnnounce; MSetup] tr;
  mi_playing : m_phase m = SPlaying -> subseq [MDescribe; MSetup; MPlay] tr;
  mi_recording : m_phase m = SRecording -> subseq [MAnnounce; MSetup; MRecord] tr
}.

Lemma MI_app : forall m tr tr2, MI m tr -> MI m (tr ++ tr2).
Proof. intros m tr tr2 []. constructor; intros; apply subseq_app_r; auto. Qed.

Lemma MI_set_mreg : forall m r tr, MI m tr -> MI (set_mreg m r) tr.
Proof. intros m r tr []. constructor; cbn; auto. Qed.

Lemma MI_accept : forall m me m2 tr,
  MI m tr -> mon_accept m me = Some m2 -> MI m2 (tr ++ [(me, 2)]).
Proof.
  intros m me m2 tr HM Ha.
  pose proof (MI_app _ _ [(me, 2)] HM) as HM'.
  destruct me; cbn in Ha.
  - inversion Ha; subst; assumption.
  - inversion Ha; subst; clear Ha. destruct HM'. constructor; cbn; intros; auto.
    apply (subseq_snoc tr [] MDescribe). apply subseq_nil.
  - inversion Ha; subst; clear Ha. destruct HM'. constructor; cbn; intros; auto.
    apply (subseq_snoc tr [] MAnnounce). apply subseq_nil.
  - inversion Ha; subst; clear Ha. destruct HM'. destruct HM. constructor; cbn; intros; auto.
    + apply orb_true_iff in H. destruct H as [H|H]; [auto|].
      apply (subseq_snoc tr [MDescribe] MSetup). auto.
    + apply orb_true_iff in H. destruct H as [H|H]; [auto|].
      apply (subseq_snoc tr [MAnnounce] MSetup). auto.
    + apply mi_playing0. destruct (m_phase m); congruence.
    + apply mi_recording0. destruct (m_phase m); congruence.
  - destruct (m_phase m) eqn:Hp; try discriminate.
    + destruct (m_via_d m) eqn:Hv; [|discriminate]. inversion Ha; subst; clear Ha.
      destruct HM'. destruct HM. constructor; cbn; intros; auto; try discriminate.
      apply (subseq_snoc tr [MDescribe; MSetup] MPlay). auto.
    + inversion Ha; subst; assumption.
  - destruct (m_phase m) eqn:Hp; try discriminate.
    + destruct (m_via_a m) eqn:Hv; [|discriminate]. inversion Ha; subst; clear Ha.
      destruct HM'. destruct HM. constructor; cbn; intros; auto; try discriminate.
      apply (subseq_snoc tr [MAnnounce; MSetup] MRecord). auto.
    + inversion Ha; subst; assumption.
  - inversion Ha; subst; clear Ha. destruct HM'. constructor; cbn; intros; auto.
  - inversion Ha; subst; assumption.
Qed.

Lemma mon_step_MI : forall m q o m' tr,
  MI m tr -> mon_step m q o = Some m' -> MI m' (tr ++ ev_of q o).
Proof.
  intros m q o m' tr HM H. unfold mon_step in H.
  destruct (m_closed m).
  - destruct (o_resps o) eqn:Hr; [|discriminate].
    destruct (_ && _); [|discriminate]. inversion H; subst.
    apply MI_set_mreg. apply MI_app. assumption.
  - destruct (o_resps o) as [|r [|r2 l]] eqn:Hr; try discriminate.
    unfold ev_of. rewrite Hr.
    destruct (negb _); [discriminate|].
    destruct (negb (legal _ _)).
    + destruct (_ && _); [|discriminate]. inversion H; subst. apply MI_app. assumption.
    + destruct (_ && _); [discriminate|].
      destruct (_ && _ && _); [discriminate|].
      destruct (code_class (rs_code r) =? 2) eqn:H2.
      * apply Z.eqb_eq in H2. rewrite H2.
        destruct (mon_accept m (q_meth q)) as [m2|] eqn:Ha; [|discriminate].
        destruct (_ && _); [|discriminate]. inversion H; subst.
        apply MI_set_mreg. eapply MI_accept; eauto.
      * destruct (_ && _); [|discriminate]. inversion H; subst. apply MI_app. assumption.
Qed.

Lemma mon_run_MI : forall qs os m m' tr,
  MI m tr -> mon_run m qs os = Some m' -> MI m' (tr ++ events qs os).
Proof.
  induction qs as [|q qs IH]; intros os m m' tr HM H.
  - destruct os; [|discriminate]. inversion H; subst. cbn. rewrite app_nil_r. assumption.
  - destruct os as [|o os]; [discriminate|]. cbn in H.
    destruct (mon_step m q o) as [m1|] eqn:Hs; [|discriminate].
    cbn [events]. rewrite app_assoc. eapply IH; [|exact H]. eapply mon_step_MI; eauto.
Qed.

Lemma MI_init : forall r, MI (mon0 r) [].
Proof. intros r. constructor; cbn; intros; discriminate. Qed.

(* playing is reached only through DESCRIBE, SETUP, PLAY answered 2xx in this order;
   recording only through ANNOUNCE, SETUP, RECORD *)
Theorem reach_playing_recording : forall e watch ext ws wspath qs os ext' s',
  forallb req_wf qs = true ->
  run_gen true e watch ext (init_sess ws wspath) qs = (os, (ext', s')) ->
  (s_status s' = SPlaying -> subseq [MDescribe; MSetup; MPlay] (events qs os)) /\
  (s_status s' = SRecording -> subseq [MAnnounce; MSetup; MRecord] (events qs os)).
Proof.
  intros e watch ext ws wspath qs os ext' s' Hwf Hr.
  destruct (run_gen_ok _ _ _ _ _ _ (J_init ext watch ws wspath) Hwf _ _ _ Hr) as [m' [Hm HJ]].
  pose proof (mon_run_MI _ _ _ _ _ (MI_init _) Hm) as HM. cbn [app] in HM.
  assert (Hop : s_status s' <> SInit -> s_closed s' = false).
  { intros Hn. destruct (s_closed s') eqn:Hc; [|reflexivity].
    exfalso. apply Hn. apply (j_closed_init _ _ _ _ HJ Hc). }
  split; intros Hst.
  - apply (mi_playing _ _ HM). rewrite <- (j_phase _ _ _ _ HJ); [assumption | apply Hop; congruence].
  - apply (mi_recording _ _ HM). rewrite <- (j_phase _ _ _ _ HJ); [assumption | apply Hop; congruence].
Qed.

(* ---------------------------------------------------------------- a concrete session (non-vacuity, and
   the behaviour before the fixes fails the oracle) *)
Module C12Ex.
Import Coq.Strings.String.
Definition t_tcp : bytes := Eval compute in C12Lit.bs "RTP/AVP/TCP;unicast;interleaved=0-1".
Definition u_base : bytes := Eval compute in C12Lit.bs "rtsp://h:554/a".
Definition u_trk : bytes := Eval compute in C12Lit.bs "rtsp://h:554/a/s".
Definition p_a : bytes := Eval compute in C12Lit.bs "/a".
End C12Ex.

Definition ex_env : env :=
  {| e_sdp := fun _ => Some {| si_v := Some (CtlOk [115]); si_a := None |};
     e_live := fun p => if bytes_eqb p C12Ex.p_a then Some (1, false) else None |}.
Definition ex_req (m : meth) (n : Z) (u : bytes) (t : bytes) : request :=
  {| q_meth := m; q_cseq := [48 + n]; q_url := u; q_path := C12Ex.p_a; q_transport := t;
     q_ctype_ok := true; q_sdp := 1 |}.
Definition ex_reqs : list request :=
  [ex_req MDescribe 1 C12Ex.u_base []; ex_req MSetup 2 C12Ex.u_trk C12Ex.t_tcp;
   ex_req MPlay 3 C12Ex.u_base []; ex_req MPlay 4 C12Ex.u_base []; ex_req MTeardown 5 C12Ex.u_base []].

Lemma example_run :
  forallb req_wf ex_reqs = true /\
  map (fun o => map rs_code (o_resps o))
      (fst (run_case true ex_env [C12Ex.p_a] [C12Ex.p_a] (init_sess false []) ex_reqs))
    = [[200]; [200]; [200]; [200]; [200]] /\
  map o_reg (fst (run_case true ex_env [C12Ex.p_a] [C12Ex.p_a] (init_sess false []) ex_reqs))
    = [[(1, 0)]; [(1, 0)]; [(1, 1)]; [(1, 1)]; [(1, 0)]] /\
  c12_ok [(1, 0)] ex_reqs (run_case true ex_env [C12Ex.p_a] [C12Ex.p_a] (init_sess false []) ex_reqs) = true.
Proof. vm_compute. repeat split; reflexivity. Qed.

(* the code before the fix: commits does not pass the oracle on this sequence (PLAY while playing unanswered) *)
Lemma orig_fails_oracle :
  c12_ok [(1, 0)] ex_reqs (run_case false ex_env [C12Ex.p_a] [C12Ex.p_a] (init_sess false []) ex_reqs) = false.
Proof. vm_compute. reflexivity. Qed.

Lemma playing_only_via_describe_setup_play : forall e watch ext ws wspath qs os ext' s',
  forallb req_wf qs = true ->
  run_gen true e watch ext (init_sess ws wspath) qs = (os, (ext', s')) ->
  s_status s' = SPlaying -> subseq [MDescribe; MSetup; MPlay] (events qs os).
Proof. intros. eapply reach_playing_recording; eauto. Qed.

Lemma recording_only_via_announce_setup_record : forall e watch ext ws wspath qs os ext' s',
  forallb req_wf qs = true ->
  run_gen true e watch ext (init_sess ws wspath) qs = (os, (ext', s')) ->
  s_status s' = SRecording -> subseq [MAnnounce; MSetup; MRecord] (events qs os).
Proof. intros. eapply reach_playing_recording; eauto. Qed.

Lemma teardown_or_disconnect_releases : forall e s q,
  s_closed s = false ->
  (q_meth q = MTeardown ->
     step e s q = (closed_of s, [resp 200 q], [ERelease (s_held s); EClose])) /\
  disconnect s = (closed_of s, [ERelease (s_held s); EClose]) /\
  (forall ext w, s_closed (closed_of s) = true /\ s_held (closed_of s) = HNone /\
                 reg_no_self (registry ext (s_held (closed_of s)) w) = true).
Proof.
  intros e s q Hc. split; [intro; apply teardown_releases; assumption|].
  split; [apply disconnect_releases; assumption | intros; apply closed_holds_nothing].
Qed.
