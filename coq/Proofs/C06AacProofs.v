(* C06 — AAC-hbr: the depacketiser inverts the packetiser *)
From Coq Require Import ZArith List Bool Lia ZifyBool.
From V Require Import Bytes BytesLemmas C06Rtp C06NalDepack C06AacDepack C06BaseProofs.
Import ListNotations.
Open Scope Z_scope.

Lemma slice_mid (a b c : bytes) : slice (a ++ b ++ c) (zlen a) (zlen a + zlen b) = Some b.
Proof.
  unfold slice. pose proof (zlen_nonneg a). pose proof (zlen_nonneg b). pose proof (zlen_nonneg c).
  rewrite !zlen_app.
  assert (X : ((0 <=? zlen a) && (zlen a <=? zlen a + zlen b) && (zlen a + zlen b <=? zlen a + (zlen b + zlen c))) = true) by lia.
  rewrite X. f_equal. replace (zlen a + zlen b - zlen a) with (zlen b) by lia.
  unfold zlen. rewrite !Nat2Z.id. rewrite skipn_app, skipn_all, Nat.sub_diag. simpl.
  rewrite firstn_app, Nat.sub_diag, firstn_all. simpl. apply app_nil_r.
Qed.

Lemma slice_some (s : bytes) i j : 0 <= i -> i <= j -> j <= zlen s -> exists x, slice s i j = Some x.
Proof. intros. unfold slice. assert (X : ((0 <=? i) && (i <=? j) && (j <=? zlen s)) = true) by lia. rewrite X. eauto. Qed.

Definition au_hdrs (aus : list bytes) : bytes := flat_map (fun au => be16 (8 * zlen au)) aus.

Lemma au_hdrs_len aus : zlen (au_hdrs aus) = 2 * Z.of_nat (length aus).
Proof.
  induction aus as [|au r IH]; [reflexivity|].
  unfold au_hdrs in *. cbn [flat_map]. rewrite zlen_app, IH. change (zlen (be16 (8 * zlen au))) with 2.
  simpl length. lia.
Qed.

Lemma zlen_concat_nonneg (l : list bytes) : 0 <= zlen (concat l).
Proof. apply zlen_nonneg. Qed.

Lemma aac_loop_ok : forall aus ts, forallb au_ok aus = true ->
  aac_loop (length aus) ts (au_hdrs aus) (concat aus) = ROk (aac_frames_from ts aus).
Proof.
  induction aus as [|au r IH]; intros ts OK; [reflexivity|].
  simpl in OK. apply andb_true_iff in OK as [Ha Hr]. unfold au_ok in Ha. apply andb_true_iff in Ha as [Hl _].
  pose proof (zlen_nonneg au) as NN.
  destruct (be16_decode (8 * zlen au)) as (hi & lo & E & V & _); [lia|].
  assert (EH : au_hdrs (au :: r) = hi :: lo :: au_hdrs r).
  { unfold au_hdrs. cbn [flat_map]. unfold bytes in *. rewrite E. reflexivity. }
  unfold bytes in *. rewrite EH. simpl length. cbn [aac_loop concat]. rewrite V.
  assert (SZ : Z.shiftr (8 * zlen au) 3 = zlen au).
  { rewrite Z.shiftr_div_pow2 by lia. change (2 ^ 3) with 8. lia. }
  rewrite SZ.
  assert (N : (zlen (au ++ concat r) <? zlen au) = false).
  { rewrite zlen_app. pose proof (zlen_nonneg (concat r)). lia. }
  rewrite N, take_app_exact, drop_app_exact, (IH _ Hr). reflexivity.
Qed.

Lemma aac_step_ok seq0 k it : aac_item_ok it = true ->
  aac_step (aac_item_pkt seq0 k it) = ROk (aac_item_frames it).
Proof.
  unfold aac_item_ok. intros OK. apply andb_true_iff in OK as [OK Hau]. apply andb_true_iff in OK as [L1 L2].
  unfold aac_item_frames, aac_step, aac_item_pkt. cbn [p_pl p_ts].
  set (aus := aac_units it) in *. set (n := Z.of_nat (length aus)) in *.
  destruct (be16_decode (16 * n)) as (hi & lo & E & V & _); [lia|].
  unfold aac_payload. fold (au_hdrs aus). fold n. unfold bytes in *. rewrite E. cbn [app].
  rewrite V.
  assert (CN : Z.shiftr (16 * n) 4 = n). { rewrite Z.shiftr_div_pow2 by lia. change (2 ^ 4) with 16. lia. }
  rewrite CN.
  pose proof (au_hdrs_len aus) as HL. fold n in HL.
  assert (ZL : (zlen (hi :: lo :: au_hdrs aus ++ concat aus) <? 2 + 2 * n) = false).
  { rewrite !zlen_cons, zlen_app. pose proof (zlen_nonneg (concat aus)). unfold bytes in *. lia. }
  unfold bytes in *. rewrite ZL.
  change (hi :: lo :: au_hdrs aus ++ concat aus) with ([hi; lo] ++ au_hdrs aus ++ concat aus).
  replace 2 with (zlen [hi; lo]) at 1 by reflexivity.
  replace (2 + 2 * n) with (zlen [hi; lo] + zlen (au_hdrs aus)) by (change (zlen [hi; lo]) with 2; unfold bytes in *; lia).
  rewrite slice_mid.
  replace (zlen [hi; lo] + zlen (au_hdrs aus)) with (zlen ([hi; lo] ++ au_hdrs aus)) by (rewrite zlen_app; reflexivity).
  rewrite app_assoc, drop_app_exact.
  unfold n. rewrite Nat2Z.id. apply aac_loop_ok. exact Hau.
Qed.

Lemma aac_run_cons p ps r :
  aac_step p = r -> is_rpanic r = false ->
  aac_run (p :: ps) = let '(fs, pn) := aac_run ps in (res_frames r ++ fs, pn).
Proof. intros <- N. simpl. destruct (aac_step p); try discriminate; reflexivity. Qed.

(* whole-or-nothing is immediate: one packet per item, no state *)
Theorem aac_items_loss : forall items seq0 k mask,
  forallb aac_item_ok items = true -> length mask = length items ->
  aac_run (select mask (packetize_aac seq0 k items)) = (aac_spec_loss items mask, false).
Proof.
  induction items as [|it r IH]; intros seq0 k mask OK LM.
  - destruct mask; reflexivity.
  - simpl in OK. apply andb_true_iff in OK as [O1 O2].
    destruct mask as [|b m]; [discriminate|]. simpl in LM. injection LM as LM.
    simpl packetize_aac. destruct b; cbn [select aac_spec_loss tl].
    + erewrite aac_run_cons; [|apply aac_step_ok; exact O1|reflexivity].
      rewrite (IH seq0 (k + 1) m O2 LM). reflexivity.
    + rewrite (IH seq0 (k + 1) m O2 LM). reflexivity.
Qed.

Theorem aac_items_all : forall items seq0 k,
  forallb aac_item_ok items = true ->
  aac_run (packetize_aac seq0 k items) = (flat_map aac_item_frames items, false).
Proof.
  induction items as [|it r IH]; intros seq0 k OK; [reflexivity|].
  simpl in OK. apply andb_true_iff in OK as [O1 O2]. simpl packetize_aac.
  erewrite aac_run_cons; [|apply aac_step_ok; exact O1|reflexivity].
  rewrite (IH seq0 (k + 1) O2). reflexivity.
Qed.
