(* C08 — proofs about the AMF0 model (Model/C08Amf0.v): big-endian round trips, the reader
   inverts the encoder on every well-formed value, float64(int) is exact below 2^53 *)
From Coq Require Import ZArith List Bool Lia ZifyBool.
From V Require Import Bytes BytesLemmas C08Amf0.
Import ListNotations.
Open Scope Z_scope.
Ltac Zify.zify_post_hook ::= Z.div_mod_to_equations.

(* ---------------------------------------------------------------- reading off the front *)
Lemma c08_rd_app n x r : length x = n -> c08_rd n (x ++ r) = Some (be_decode x, r).
Proof.
  intros H. unfold c08_rd. rewrite app_length.
  destruct (Nat.ltb_spec (length x + length r) n) as [L|L]; [lia|].
  subst n. rewrite firstn_app, Nat.sub_diag, firstn_all, skipn_app, Nat.sub_diag, skipn_all. cbn.
  now rewrite app_nil_r.
Qed.

Lemma c08_rdn_app x r : c08_rdn (zlen x) (x ++ r) = Some (x, r).
Proof.
  unfold c08_rdn, take, drop, zlen. rewrite app_length.
  destruct (Z.ltb_spec (Z.of_nat (length x)) 0) as [L|L]; [lia|].
  destruct (Z.ltb_spec (Z.of_nat (length x + length r)) (Z.of_nat (length x))) as [M|M]; [lia|].
  cbn [orb]. rewrite Nat2Z.id.
  rewrite firstn_app, Nat.sub_diag, firstn_all, skipn_app, Nat.sub_diag, skipn_all. cbn.
  now rewrite app_nil_r.
Qed.

Lemma c08_rdn_app' n x r : n = zlen x -> c08_rdn n (x ++ r) = Some (x, r).
Proof. intros ->. apply c08_rdn_app. Qed.

Lemma be16_dec v : 0 <= v < 65536 -> be_decode (c08_be16 v) = v.
Proof. intros. unfold c08_be16, be_decode, be_decode_acc. lia. Qed.
Lemma be24_dec v : 0 <= v < 16777216 -> be_decode (c08_be24 v) = v.
Proof. intros. unfold c08_be24, be_decode, be_decode_acc. lia. Qed.
Lemma be32_dec v : 0 <= v < 4294967296 -> be_decode (c08_be32 v) = v.
Proof. intros. unfold c08_be32, be_decode, be_decode_acc. lia. Qed.
Lemma be64_dec v : 0 <= v < 18446744073709551616 -> be_decode (c08_be64 v) = v.
Proof. intros. unfold c08_be64, c08_be32, be_decode, be_decode_acc, app. lia. Qed.

Lemma be16_len v : length (c08_be16 v) = 2%nat. Proof. reflexivity. Qed.
Lemma be24_len v : length (c08_be24 v) = 3%nat. Proof. reflexivity. Qed.
Lemma be32_len v : length (c08_be32 v) = 4%nat. Proof. reflexivity. Qed.
Lemma be64_len v : length (c08_be64 v) = 8%nat. Proof. reflexivity. Qed.

Lemma zlen_ge0 {A} (s : list A) : 0 <= Z.of_nat (length s). Proof. lia. Qed.

(* ---------------------------------------------------------------- AMF0 round trip *)
Lemma amf_rd_utf8_app s r : zlen s < 65536 -> amf_rd_utf8 (amf_utf8 s ++ r) = Some (s, r).
Proof.
  intros H. unfold amf_rd_utf8, amf_utf8. rewrite <- app_assoc.
  rewrite c08_rd_app by apply be16_len.
  pose proof (zlen_nonneg s).
  rewrite be16_dec by lia. rewrite Z.mod_small by lia. apply c08_rdn_app.
Qed.

Lemma amf_parse_value_app v r : amfv_wf v = true -> amf_parse_value (amf_enc v ++ r) = Some (v, r).
Proof.
  destruct v as [b|b|s]; cbn [amfv_wf amf_enc]; intros H.
  - cbn [app amf_parse_value]. change (0 =? 0) with true. cbv iota.
    rewrite c08_rd_app by apply be64_len. rewrite be64_dec by lia. reflexivity.
  - destruct b; reflexivity.
  - pose proof (zlen_nonneg s).
    destruct (Z.ltb_spec 65535 (zlen s)) as [L|L].
    + cbn [app amf_parse_value]. change (12 =? 0) with false. change (12 =? 1) with false.
      change (12 =? 2) with false. change (12 =? 12) with true. cbv iota.
      rewrite <- app_assoc. rewrite c08_rd_app by apply be32_len.
      rewrite be32_dec by lia. rewrite Z.mod_small by lia. rewrite c08_rdn_app. reflexivity.
    + cbn [app amf_parse_value]. change (2 =? 0) with false. change (2 =? 1) with false.
      change (2 =? 2) with true. cbv iota.
      rewrite amf_rd_utf8_app by lia. reflexivity.
Qed.

Lemma amf_enc_not_end v r : starts_with 9 (amf_enc v ++ r) = false.
Proof. destruct v as [b|b|s]; cbn [amf_enc]; [reflexivity|reflexivity|]. destruct (65535 <? zlen s); reflexivity. Qed.

Lemma amf_parse_props_app l : forall fuel r,
  (length l < fuel)%nat -> forallb amf_prop_wf l = true ->
  amf_parse_props fuel (amf_enc_props l ++ [0; 0; 9] ++ r) = Some (l, r).
Proof.
  induction l as [|[n v] l IH]; intros fuel r Hf Hwf.
  - destruct fuel; [cbn in Hf; lia|]. reflexivity.
  - destruct fuel; [cbn in Hf; lia|].
    cbn [forallb] in Hwf. apply andb_true_iff in Hwf as [Hp Hl].
    unfold amf_prop_wf in Hp. cbn [fst snd] in Hp. apply andb_true_iff in Hp as [Hn Hv].
    cbn [amf_enc_props amf_parse_props]. rewrite <- !app_assoc.
    rewrite amf_rd_utf8_app by lia. rewrite amf_enc_not_end. rewrite amf_parse_value_app by assumption.
    rewrite (IH fuel r) by (cbn in Hf; lia || assumption). reflexivity.
Qed.

Lemma amf_enc_props_len l : (length l <= length (amf_enc_props l))%nat.
Proof.
  induction l as [|[n v] l IH]; [cbn; lia|]. cbn [amf_enc_props length]. rewrite !app_length.
  unfold amf_utf8. rewrite app_length, be16_len. lia.
Qed.

(* amf0_roundtrip: the reader inverts the encoder on the shapes the muxer emits *)
Theorem amf0_roundtrip_lemma name props :
  zlen name < 65536 -> Z.of_nat (length props) < 4294967296 -> forallb amf_prop_wf props = true ->
  parse_script (script_enc name props) = Some (name, props).
Proof.
  intros Hn Hc Hwf. unfold script_enc, parse_script. cbn [app starts_with tl].
  change (2 =? 2) with true. cbv iota.
  rewrite amf_rd_utf8_app by assumption. unfold amf_enc_ecma. cbn [starts_with tl].
  change (8 =? 8) with true. cbv iota.
  rewrite c08_rd_app by apply be32_len. rewrite be32_dec by lia. rewrite Z.mod_small by lia.
  replace (amf_enc_props props ++ [0; 0; 9]) with (amf_enc_props props ++ [0; 0; 9] ++ []) by reflexivity.
  rewrite amf_parse_props_app; [|rewrite !app_length; pose proof (amf_enc_props_len props); cbn; lia|assumption].
  rewrite Z.eqb_refl. reflexivity.
Qed.

(* ---------------------------------------------------------------- float64(int) *)
Lemma log2_bounds a : 0 < a < 9007199254740992 ->
  0 <= Z.log2 a <= 52 /\ 2 ^ Z.log2 a <= a < 2 * 2 ^ Z.log2 a.
Proof.
  intros H. pose proof (Z.log2_nonneg a).
  assert (Z.log2 a < 53) by (apply Z.log2_lt_pow2; lia).
  destruct (Z.log2_spec a) as [A B]; [lia|]. rewrite Z.pow_succ_r in B by lia. lia.
Qed.

Lemma pow_split e : 0 <= e <= 52 -> 2 ^ e * 2 ^ (52 - e) = 4503599627370496.
Proof. intros. rewrite <- Z.pow_add_r by lia. replace (e + (52 - e)) with 52 by lia. reflexivity. Qed.

Lemma f64_of_Z_range n : - 9007199254740992 < n < 9007199254740992 ->
  0 <= f64_of_Z n < 18446744073709551616.
Proof.
  intros H. unfold f64_of_Z. destruct (Z.eqb_spec n 0) as [E|E]; [lia|].
  destruct (log2_bounds (Z.abs n)) as [[L0 L1] [P0 P1]]; [lia|].
  set (e := Z.log2 (Z.abs n)) in *. destruct (Z.leb_spec e 52) as [_|]; [|lia].
  pose proof (pow_split e (conj L0 L1)) as PS.
  assert (0 < 2 ^ (52 - e)) by (apply Z.pow_pos_nonneg; lia).
  set (P := 2 ^ (52 - e)) in *. set (Q := 2 ^ e) in *.
  assert (4503599627370496 <= Z.abs n * P) by nia.
  assert (Z.abs n * P < 9007199254740992) by nia.
  destruct (n <? 0); nia.
Qed.

Theorem f64_roundtrip_lemma n : - 9007199254740992 < n < 9007199254740992 ->
  f64_to_Z (f64_of_Z n) = Some n.
Proof.
  intros H. unfold f64_of_Z. destruct (Z.eqb_spec n 0) as [E|E]; [subst; reflexivity|].
  destruct (log2_bounds (Z.abs n)) as [[L0 L1] [P0 P1]]; [lia|].
  set (e := Z.log2 (Z.abs n)) in *. destruct (Z.leb_spec e 52) as [_|]; [|lia].
  pose proof (pow_split e (conj L0 L1)) as PS.
  assert (HP : 0 < 2 ^ (52 - e)) by (apply Z.pow_pos_nonneg; lia).
  set (P := 2 ^ (52 - e)) in *. set (Q := 2 ^ e) in *.
  assert (M0 : 4503599627370496 <= Z.abs n * P) by nia.
  assert (M1 : Z.abs n * P < 9007199254740992) by nia.
  set (m := Z.abs n * P) in *.
  set (s := if n <? 0 then 9223372036854775808 else 0).
  assert (Hs : s = 0 /\ 0 < n \/ s = 9223372036854775808 /\ n < 0)
    by (unfold s; destruct (Z.ltb_spec n 0); lia).
  unfold f64_to_Z.
  set (bits := s + (1023 + e) * 4503599627370496 + (m - 4503599627370496)).
  assert (B1 : bits / 9223372036854775808 = (if n <? 0 then 1 else 0))
    by (unfold bits; destruct (Z.ltb_spec n 0); lia).
  assert (B2 : bits / 4503599627370496 mod 2048 = 1023 + e) by (unfold bits; lia).
  assert (B3 : bits mod 4503599627370496 = m - 4503599627370496) by (unfold bits; lia).
  rewrite B1, B2, B3.
  destruct (Z.eqb_spec (1023 + e) 0); [lia|]. destruct (Z.eqb_spec (1023 + e) 2047); [lia|].
  replace (4503599627370496 + (m - 4503599627370496)) with m by lia.
  replace (1023 + e - 1023) with e by lia.
  destruct (Z.leb_spec 52 e) as [L|L].
  - assert (e = 52) by lia. subst m P. replace (52 - e) with 0 by lia. replace (e - 52) with 0 by lia.
    change (2 ^ 0) with 1. rewrite !Z.mul_1_r.
    destruct (Z.ltb_spec n 0); [change (1 =? 1) with true|change (0 =? 1) with false]; cbv iota; f_equal; lia.
  - destruct (Z.ltb_spec e 0); [lia|].
    unfold m. rewrite Z.mod_mul by lia. change (0 =? 0) with true. cbv iota.
    rewrite Z.div_mul by lia.
    destruct (Z.ltb_spec n 0); [change (1 =? 1) with true|change (0 =? 1) with false]; cbv iota; f_equal; lia.
Qed.
