(* C10 — proofs about Model/C10Hls.v *)
From Coq Require Import ZArith List Bool Lia ZifyBool.
From V Require Import Val Bytes BytesLemmas C10Hls.
Import ListNotations.
Open Scope Z_scope.

(* ================================================================== arithmetic: "%.3f" never exceeds the target *)
Lemma rne_div_upper a b : 0 < b -> 2 * b * rne_div a b <= 2 * a + b.
Proof.
  intros Hb. unfold rne_div.
  pose proof (Z.div_mod a b ltac:(lia)) as E.
  pose proof (Z.mod_pos_bound a b Hb) as M.
  set (q := a / b) in *. set (r := a mod b) in *.
  destruct (2 * r <? b) eqn:H1; [nia|].
  destruct (b <? 2 * r) eqn:H2; [nia|].
  destruct (Z.even q); nia.
Qed.

Lemma rne_div_nonneg a b : 0 < b -> 0 <= a -> 0 <= rne_div a b.
Proof.
  intros Hb Ha. unfold rne_div.
  pose proof (Z.div_pos a b Ha Hb).
  destruct (2 * (a mod b) <? b); [lia|].
  destruct (b <? 2 * (a mod b)); [lia|]. destruct (Z.even (a / b)); lia.
Qed.

(* the heart: two correctly rounded steps with a binary scale of at least 2^10 cannot reach the next second *)
Lemma millis_core x P : 0 <= x -> 1024 <= P ->
  rne_div (rne_div (x * P) TICKS * 1000) P <= (x / TICKS + 1) * 1000.
Proof.
  intros Hx HP. unfold TICKS.
  pose proof (rne_div_upper (x * P) 90000 ltac:(lia)) as H1.
  set (m := rne_div (x * P) 90000) in *.
  pose proof (rne_div_upper (m * 1000) P ltac:(lia)) as H2.
  set (t := rne_div (m * 1000) P) in *.
  pose proof (Z.div_mod x 90000 ltac:(lia)) as E.
  pose proof (Z.mod_pos_bound x 90000 ltac:(lia)) as M.
  set (q := x / 90000) in *. set (r := x mod 90000) in *.
  destruct (Z_le_gt_dec t ((q + 1) * 1000)) as [|Hgt]; [assumption|exfalso].
  assert (Ht : (q + 1) * 1000 + 1 <= t) by lia.
  assert (2 * P * ((q + 1) * 1000 + 1) <= 2 * P * t) by (apply Z.mul_le_mono_nonneg_l; lia).
  assert (x * P <= (90000 * q + 89999) * P) by (apply Z.mul_le_mono_nonneg_r; lia).
  nia.
Qed.

Lemma log2_lt_53 x : 0 < x -> x < 2 ^ 53 -> Z.log2 x < 53.
Proof. intros. apply Z.log2_lt_pow2; lia. Qed.

Lemma millis_le_target x : 0 <= x < 2 ^ 53 -> millis x <= (x / TICKS + 1) * 1000.
Proof.
  intros [H0 H1]. unfold millis, fl_div90k.
  destruct (x <=? 0) eqn:Hz.
  - assert (x = 0) by lia. subst. cbn. lia.
  - pose proof (log2_lt_53 x ltac:(lia) H1) as HL.
    pose proof (Z.log2_nonneg x) as HL0.
    set (k0 := 69 - Z.log2 x) in *.
    set (k := if 2 ^ 53 <=? Z.shiftl x k0 / TICKS then k0 - 1 else k0).
    assert (Hk : 16 <= k) by (subst k; destruct (2 ^ 53 <=? Z.shiftl x k0 / TICKS); lia).
    destruct (k <=? 0) eqn:Hk0; [lia|].
    rewrite Z.shiftl_mul_pow2 by lia.
    apply millis_core; [lia|].
    change 1024 with (2 ^ 10). apply Z.pow_le_mono_r; lia.
Qed.

(* ================================================================== small list facts *)
Lemma overlay_firstn : forall new old, firstn (length new) (overlay new old) = new.
Proof.
  intros. unfold overlay. rewrite firstn_app, Nat.sub_diag, firstn_all. cbn. apply app_nil_r.
Qed.

Lemma consecutive_app n a b :
  consecutive n (a ++ b) = consecutive n a && consecutive (n + Z.of_nat (length a)) b.
Proof.
  revert n. induction a as [|x a IH]; intros n; cbn [app consecutive length].
  - rewrite Z.add_0_r. reflexivity.
  - rewrite IH. rewrite andb_assoc. f_equal. f_equal. lia.
Qed.

Lemma consecutive_skipn k : forall n l, consecutive n l = true ->
  consecutive (n + Z.of_nat (Nat.min k (length l))) (skipn k l) = true.
Proof.
  induction k as [|k IH]; intros n l H.
  - cbn. rewrite Z.add_0_r. exact H.
  - destruct l as [|x l]; cbn [skipn length Nat.min].
    + reflexivity.
    + cbn [consecutive] in H. apply andb_true_iff in H as [_ H].
      specialize (IH _ _ H). replace (n + Z.of_nat (S (Nat.min k (length l)))) with (n + 1 + Z.of_nat (Nat.min k (length l))) by lia.
      exact IH.
Qed.

Lemma consecutive_map_in n l x : consecutive n l = true -> In x l -> n <= x < n + Z.of_nat (length l).
Proof.
  revert n. induction l as [|y l IH]; intros n H Hin; [destruct Hin|].
  cbn [consecutive] in H. apply andb_true_iff in H as [H1 H2]. cbn [length].
  destruct Hin as [->|Hin]; [lia|]. specialize (IH _ H2 Hin). lia.
Qed.

Lemma list_eqb_refl {A} (e : A -> A -> bool) (l : list A) : (forall x, e x x = true) -> list_eqb e l l = true.
Proof. intros H. induction l; cbn; [reflexivity|]. rewrite H, IHl. reflexivity. Qed.

Lemma max_dur_acc l : forall m, m <= fold_left (fun m g => if m <? s_dur g then s_dur g else m) l m.
Proof.
  induction l as [|g l IH]; intros m; cbn; [lia|].
  destruct (m <? s_dur g) eqn:E; [etransitivity; [|apply IH]; lia | apply IH].
Qed.
Lemma max_dur_acc_in l : forall m g, In g l -> s_dur g <= fold_left (fun m g => if m <? s_dur g then s_dur g else m) l m.
Proof.
  induction l as [|h l IH]; intros m g Hin; [destruct Hin|]. cbn.
  destruct Hin as [->|Hin]; [|apply IH; exact Hin].
  destruct (m <? s_dur g) eqn:E; [apply max_dur_acc | etransitivity; [|apply max_dur_acc]; lia].
Qed.
Lemma max_dur_ge l g : In g l -> s_dur g <= max_dur l.
Proof. apply max_dur_acc_in. Qed.

(* ================================================================== the primitives *)
Definition curl (s : st) : list seg := match cur s with Some g => [g] | None => [] end.

Lemma release_all_fields l : forall s,
  let s' := release_all l s in
  seqno s' = seqno s /\ cur s' = cur s /\ cache s' = cache s /\ jbase s' = jbase s /\ jn s' = jn s /\
  pl s' = pl s /\ closed s' = closed s /\ dropped s' = dropped s /\ nextb s' = nextb s /\
  free s' = rev (map s_buf l) ++ free s.
Proof.
  induction l as [|g l IH]; intros s; cbn [release_all].
  - cbn. repeat split; reflexivity.
  - specialize (IH (release g s)). cbn zeta in *. cbn [release seqno cur cache jbase jn pl closed dropped nextb free] in IH.
    destruct IH as (A&B&C&D&E&F&G&H&I&J). repeat split; try assumption.
    rewrite J. cbn [map rev]. rewrite <- app_assoc. reflexivity.
Qed.

(* segmentClose on an open segment: either dropped (number reused) or appended and the window trimmed *)
Inductive closed_as (s : st) (g : seg) (s' : st) : Prop :=
| CA_drop : s_dur g < MIN_TICKS -> seqno s' = seqno s - 1 -> pl s' = pl s -> closed s' = closed s ->
            dropped s' = dropped s ++ [g] -> free s' = s_buf g :: free s -> closed_as s g s'
| CA_keep : MIN_TICKS <= s_dur g -> seqno s' = seqno s ->
            pl s' = skipn (length (pl s) + 1 - 3) (pl s ++ [g]) -> closed s' = closed s ++ [g] ->
            dropped s' = dropped s ->
            free s' = rev (map s_buf (firstn (length (pl s) + 1 - 3) (pl s ++ [g]))) ++ free s -> closed_as s g s'.

Lemma segment_close_spec s g : cur s = Some g ->
  let s' := segment_close s in
  cur s' = None /\ cache s' = cache s /\ jbase s' = jbase s /\ jn s' = jn s /\ nextb s' = nextb s /\
  closed_as s g s'.
Proof.
  intros Hc. unfold segment_close. rewrite Hc. cbn zeta.
  destruct (s_dur g <? MIN_TICKS) eqn:Hd.
  - cbn. repeat split; try reflexivity. apply CA_drop; cbn; try reflexivity. lia.
  - unfold add_segment, clear_segments. cbn [pl set_pl add_closed set_cur].
    rewrite app_length. cbn [length].
    destruct (WINDOW <? length (pl s) + 1)%nat eqn:Hw.
    + match goal with |- context [release_all ?l ?x] => pose proof (release_all_fields l x) as R end.
      cbn zeta in R. destruct R as (A&B&C&D&E&F&G&H&I&J).
      cbn [set_pl seqno cur cache jbase jn pl closed dropped nextb free].
      cbn [set_pl add_closed set_cur seqno cur cache jbase jn pl closed dropped nextb free] in *.
      repeat split; try assumption.
      apply CA_keep; cbn [set_pl seqno cur cache jbase jn pl closed dropped nextb free]; try assumption; try lia.
      * reflexivity.
    + cbn. repeat split; try reflexivity.
      unfold WINDOW in Hw.
      assert (E : (length (pl s) + 1 - 3 = 0)%nat) by lia.
      apply CA_keep; cbn; rewrite ?E; try reflexivity. lia.
Qed.

Lemma segment_open_spec c start hdr a s : cur s = None ->
  let s' := segment_open c start hdr a s in
  exists b,
    cur s' = Some {| s_seq := seqno s + 1; s_start := start; s_dur := 0; s_hdr := hdr; s_aud := a; s_frames := []; s_buf := b |} /\
    seqno s' = seqno s + 1 /\ cache s' = cache s /\ jbase s' = jbase s /\ jn s' = jn s /\
    pl s' = pl s /\ closed s' = closed s /\ dropped s' = dropped s /\
    ((exists l1 l2, free s = l1 ++ b :: l2 /\ free s' = l1 ++ l2 /\ nextb s' = nextb s) \/
     (b = nextb s /\ free s' = free s /\ nextb s' = nextb s + 1)).
Proof.
  intros Hc. unfold segment_open. rewrite Hc. unfold alloc.
  remember (c_pick c (free s)) as n eqn:Hnn. clear Hnn.
  destruct (nth_error (free s) n) as [b|] eqn:Hn.
  - exists b. cbn. repeat split; try reflexivity. left.
    apply nth_error_split in Hn as (l1 & l2 & E & L). exists l1, l2. split; [exact E|]. split; [|reflexivity].
    rewrite E, <- L. clear. induction l1; cbn; [reflexivity|]. f_equal. exact IHl1.
  - exists (nextb s). cbn. repeat split; try reflexivity. right. repeat split; reflexivity.
Qed.

Lemma flush_cache_spec s :
  let s' := flush_cache s in
  seqno s' = seqno s /\ jbase s' = jbase s /\ jn s' = jn s /\ pl s' = pl s /\ closed s' = closed s /\
  dropped s' = dropped s /\ free s' = free s /\ nextb s' = nextb s /\
  match cache s with
  | None => s' = s
  | Some a => cache s' = None /\ cur s' = option_map (seg_write (cache_frame a)) (cur s)
  end.
Proof.
  unfold flush_cache. destruct (cache s) as [a|] eqn:Hc.
  - unfold flush_frame. destruct (cur s) as [g|] eqn:Hg; cbn; rewrite ?Hg; repeat split; reflexivity.
  - cbn. repeat split; reflexivity.
Qed.

Lemma reap_spec c start a s g : cur s = Some g ->
  let s' := reap c start a s in
  exists s1 g',
    closed_as s g s1 /\ nextb s1 = nextb s /\
    cur s' = Some g' /\ s_seq g' = seqno s1 + 1 /\ s_start g' = start /\ s_hdr g' = false /\ s_aud g' = a /\
    match cache s with
    | None => s_frames g' = [] /\ s_dur g' = 0
    | Some ca => s_frames g' = [cache_frame ca] /\ s_dur g' = (if a_pts ca <? start then 0 else a_pts ca - start)
    end /\
    cache s' = None /\ seqno s' = seqno s1 + 1 /\ pl s' = pl s1 /\ closed s' = closed s1 /\ dropped s' = dropped s1 /\
    jbase s' = jbase s /\ jn s' = jn s /\
    ((exists l1 l2, free s1 = l1 ++ s_buf g' :: l2 /\ free s' = l1 ++ l2 /\ nextb s' = nextb s1) \/
     (s_buf g' = nextb s1 /\ free s' = free s1 /\ nextb s' = nextb s1 + 1)).
Proof.
  intros Hc. unfold reap.
  pose proof (segment_close_spec s g Hc) as SC. cbn zeta in SC.
  set (s1 := segment_close s) in *. destruct SC as (C1 & C2 & C3 & C4 & C5 & CA).
  pose proof (segment_open_spec c start false a s1 C1) as SO. cbn zeta in SO.
  set (s2 := segment_open c start false a s1) in *.
  destruct SO as (b & O1 & O2 & O3 & O4 & O5 & O6 & O7 & O8 & O9).
  pose proof (flush_cache_spec s2) as FC. cbn zeta in FC.
  set (s3 := flush_cache s2) in *.
  destruct FC as (F1 & F2 & F3 & F4 & F5 & F6 & F7 & F8 & F9).
  rewrite O3, C2 in F9.
  destruct (cache s) as [ca|] eqn:Hca.
  - destruct F9 as [F9 F10]. rewrite O1 in F10. cbn [option_map] in F10.
    eexists s1, _. split; [exact CA|]. split; [exact C5|]. split; [exact F10|].
    cbn [seg_write s_seq s_start s_hdr s_aud s_frames s_dur s_buf cache_frame w_pts app].
    repeat split; try reflexivity; try congruence.
    destruct O9 as [(l1 & l2 & E1 & E2 & E3)|(E1 & E2 & E3)]; [left; exists l1, l2|right]; repeat split; congruence.
  - subst s3. rewrite F9 in *.
    eexists s1, _. split; [exact CA|]. split; [exact C5|]. split; [exact O1|].
    cbn [s_seq s_start s_hdr s_aud s_frames s_dur s_buf].
    repeat split; try reflexivity; try congruence.
Qed.

(* ================================================================== invariant 1: numbering and the window *)
Definition lastno (s : st) : Z := match cur s with Some _ => seqno s - 1 | None => seqno s end.

Record Inv1 (s : st) : Prop := {
  i_curseq : forall g, cur s = Some g -> s_seq g = seqno s;
  i_cons : consecutive (lastno s - Z.of_nat (length (pl s)) + 1) (map s_seq (pl s)) = true;
  i_len : (length (pl s) <= 3)%nat;
  i_suffix : exists pre, closed s = pre ++ pl s;
  i_recent : cur s <> None -> length (pl s) = Nat.min 3 (length (closed s))
}.

Definition shape (s : st) := (seqno s, option_map s_seq (cur s), pl s, closed s).

Lemma Inv1_shape s s' : shape s = shape s' -> Inv1 s -> Inv1 s'.
Proof.
  unfold shape. intros E [A B C D F]. injection E as E1 E2 E3 E4.
  assert (L : lastno s' = lastno s).
  { unfold lastno. destruct (cur s), (cur s'); cbn in E2; try discriminate; lia. }
  constructor.
  - intros g Hg. rewrite Hg in E2. destruct (cur s) as [g0|] eqn:H0; [|discriminate].
    cbn in E2. injection E2 as E2. rewrite <- E1, <- E2. apply A. reflexivity.
  - rewrite L, <- E3. exact B.
  - rewrite <- E3. exact C.
  - rewrite <- E3, <- E4. exact D.
  - intros Hn. rewrite <- E3, <- E4. apply F. destruct (cur s); [discriminate|]. destruct (cur s'); [discriminate|]. congruence.
Qed.

Lemma Inv1_init c : Inv1 (init c).
Proof.
  unfold init. pose proof (segment_open_spec c 0 true false init_free eq_refl) as SO. cbn zeta in SO.
  destruct SO as (b & O1 & O2 & O3 & O4 & O5 & O6 & O7 & O8 & O9).
  constructor; unfold lastno; rewrite ?O1, ?O6, ?O7, ?O2; cbn.
  - intros g Hg. injection Hg as <-. reflexivity.
  - reflexivity.
  - lia.
  - exists []. reflexivity.
  - reflexivity.
Qed.

Lemma skipn_app_suffix {A} (pre l : list A) k : exists pre', pre ++ l = pre' ++ skipn k l.
Proof. exists (pre ++ firstn k l). rewrite <- app_assoc, firstn_skipn. reflexivity. Qed.

Lemma Inv1_reap c start a s g : cur s = Some g -> Inv1 s -> Inv1 (reap c start a s).
Proof.
  intros Hc [A B C D F].
  pose proof (reap_spec c start a s g Hc) as R. cbn zeta in R.
  destruct R as (s1 & g' & CA & _ & R1 & R2 & _ & _ & _ & _ & _ & R3 & R4 & R5 & _).
  specialize (A _ Hc). specialize (F ltac:(congruence)).
  unfold lastno in B. rewrite Hc in B.
  constructor; unfold lastno; rewrite ?R1, ?R3, ?R4, ?R5.
  - intros x Hx. injection Hx as <-. exact R2.
  - destruct CA as [Hd E1 E2 E3 E4 E5 | Hd E1 E2 E3 E4 E5]; rewrite E1, E2.
    + replace (seqno s - 1 + 1 - 1) with (seqno s - 1) by lia. exact B.
    + rewrite skipn_length, app_length. cbn [length].
      assert (K : consecutive (seqno s - 1 - Z.of_nat (length (pl s)) + 1) (map s_seq (pl s ++ [g])) = true).
      { rewrite map_app, consecutive_app, B, map_length. cbn. rewrite A. lia. }
      pose proof (consecutive_skipn (length (pl s) + 1 - 3) _ _ K) as K2.
      rewrite <- map_skipn in K2 || rewrite skipn_map in K2.
      rewrite map_length, app_length in K2. cbn [length] in K2.
      match goal with |- consecutive ?n _ = true => replace n with
        (seqno s - 1 - Z.of_nat (length (pl s)) + 1 + Z.of_nat (Nat.min (length (pl s) + 1 - 3) (length (pl s) + 1))) by lia end.
      exact K2.
  - destruct CA as [Hd E1 E2 E3 E4 E5 | Hd E1 E2 E3 E4 E5]; rewrite E2; [exact C|].
    rewrite skipn_length, app_length. cbn [length]. lia.
  - destruct D as [pre D].
    destruct CA as [Hd E1 E2 E3 E4 E5 | Hd E1 E2 E3 E4 E5]; rewrite E2, E3.
    + exists pre. exact D.
    + rewrite D, <- app_assoc. apply skipn_app_suffix.
  - intros _. destruct CA as [Hd E1 E2 E3 E4 E5 | Hd E1 E2 E3 E4 E5]; rewrite E2, E3; [exact F|].
    rewrite skipn_length, !app_length. cbn [length]. lia.
Qed.

(* ================================================================== a preservation principle for WriteMpegtsFrame *)
Lemma jitter_start_snd c pts s : exists b n, snd (jitter_start c pts s) = set_jit b n s.
Proof.
  unfold jitter_start. destruct (_ && _); cbn; eauto.
Qed.

Lemma write_frame_preserves_q (P : st -> Prop) (Q : acache -> Prop) c f s :
  (forall s a, P s -> Q a -> P (set_cache (Some a) s)) ->
  (forall s a0 es src, P s -> cache s = Some a0 -> Q {| a_pts := a_pts a0; a_es := es; a_src := src |}) ->
  (forall s es src, Q {| a_pts := fst (jitter_start c (f_pts f) s); a_es := es; a_src := src |}) ->
  (forall s b n, P s -> P (set_jit b n s)) ->
  (forall s, P s -> P (flush_cache s)) ->
  (forall s g, P s -> cur s = Some g -> abs_overflow c s = true -> P (reap c (f_pts f) true s)) ->
  (forall s g, P s -> cur s = Some g -> is_audio (f_kind f) = false -> P (flush_frame (video_frame c f) s)) ->
  (forall s g, P s -> cur s = Some g -> is_key (f_kind f) = true -> overflow c s = true ->
               P (flush_frame (video_frame c f) (reap c (f_pts f) false s))) ->
  P s -> P (write_frame c f s).
Proof.
  intros Hc HQ1 HQ2 Hj Hfc Hra Hv Hrv HP. unfold write_frame.
  destruct (cur s) as [g|] eqn:Hg; [|exact HP].
  destruct (f_pay f) as [|p0 pay] eqn:Hp; [exact HP|].
  destruct (is_audio (f_kind f)) eqn:Ha.
  - destruct (cache s) as [a0|] eqn:Hca.
    + cbn zeta.
      set (s1 := set_cache _ _).
      assert (P1 : P s1).
      { subst s1. apply Hc; [apply Hj, HP|]. eapply HQ1; [exact HP | exact Hca]. }
      assert (C1 : cur s1 = Some g) by (subst s1; cbn; exact Hg).
      destruct (AAC_DELAY <? _); [apply Hfc, P1|].
      destruct (abs_overflow c s1) eqn:Ho; [eapply Hra; eauto | exact P1].
    + pose proof (HQ2 s) as HQ2'.
      destruct (jitter_start c (f_pts f) s) as [p s0] eqn:Hjs.
      destruct (jitter_start_snd c (f_pts f) s) as (b & n & E). rewrite Hjs in E. cbn in E. subst s0.
      cbn zeta. cbn [fst] in HQ2'.
      set (s1 := set_cache _ _).
      assert (P1 : P s1) by (subst s1; apply Hc; [apply Hj, HP | apply HQ2']).
      assert (C1 : cur s1 = Some g) by (subst s1; cbn; exact Hg).
      destruct (AAC_DELAY <? _); [apply Hfc, P1|].
      destruct (abs_overflow c s1) eqn:Ho; [eapply Hra; eauto | exact P1].
  - destruct (is_key (f_kind f) && overflow c s) eqn:Hk.
    + apply andb_true_iff in Hk as [K1 K2]. eapply Hrv; eauto.
    + eapply Hv; eauto.
Qed.

Lemma write_frame_preserves (P : st -> Prop) c f s :
  (forall s o, P s -> P (set_cache o s)) ->
  (forall s b n, P s -> P (set_jit b n s)) ->
  (forall s, P s -> P (flush_cache s)) ->
  (forall s g, P s -> cur s = Some g -> abs_overflow c s = true -> P (reap c (f_pts f) true s)) ->
  (forall s g, P s -> cur s = Some g -> is_audio (f_kind f) = false -> P (flush_frame (video_frame c f) s)) ->
  (forall s g, P s -> cur s = Some g -> is_key (f_kind f) = true -> overflow c s = true ->
               P (flush_frame (video_frame c f) (reap c (f_pts f) false s))) ->
  P s -> P (write_frame c f s).
Proof.
  intros Hc. apply (write_frame_preserves_q P (fun _ => True)); auto.
Qed.

Lemma shape_flush_frame w s : shape (flush_frame w s) = shape s.
Proof. unfold flush_frame, shape. destruct (cur s) as [g|] eqn:Hg; cbn; rewrite ?Hg; reflexivity. Qed.
Lemma shape_flush_cache s : shape (flush_cache s) = shape s.
Proof.
  unfold flush_cache. destruct (cache s); [|reflexivity].
  transitivity (shape (flush_frame (cache_frame a) s)); [reflexivity | apply shape_flush_frame].
Qed.

Lemma cur_flush_frame w s g : cur s = Some g -> cur (flush_frame w s) = Some (seg_write w g).
Proof. intros H. unfold flush_frame. rewrite H. reflexivity. Qed.

Lemma Inv1_write_frame c f s : Inv1 s -> Inv1 (write_frame c f s).
Proof.
  apply write_frame_preserves.
  - intros s0 o H. eapply Inv1_shape; [|exact H]. reflexivity.
  - intros s0 b n H. eapply Inv1_shape; [|exact H]. reflexivity.
  - intros s0 H. eapply Inv1_shape; [|exact H]. symmetry. apply shape_flush_cache.
  - intros s0 g H Hg _. eapply Inv1_reap; eauto.
  - intros s0 g H Hg _. eapply Inv1_shape; [|exact H]. symmetry. apply shape_flush_frame.
  - intros s0 g H Hg _ _. eapply Inv1_shape; [symmetry; apply shape_flush_frame|]. eapply Inv1_reap; eauto.
Qed.

(* the segment generator always has an open segment (until Close) *)
Lemma cur_open_write_frame c f s : cur s <> None -> cur (write_frame c f s) <> None.
Proof.
  apply (write_frame_preserves (fun s => cur s <> None)).
  - intros; assumption.
  - intros; assumption.
  - intros s0 H. pose proof (shape_flush_cache s0) as E. unfold shape in E. injection E as _ E _ _.
    destruct (cur (flush_cache s0)); [discriminate|]. destruct (cur s0); [discriminate|congruence].
  - intros s0 g _ Hg _. pose proof (reap_spec c (f_pts f) true s0 g Hg) as R. cbn zeta in R.
    destruct R as (s1 & g' & _ & _ & R1 & _). congruence.
  - intros s0 g _ Hg _. rewrite (cur_flush_frame _ _ _ Hg). discriminate.
  - intros s0 g _ Hg _ _. pose proof (reap_spec c (f_pts f) false s0 g Hg) as R. cbn zeta in R.
    destruct R as (s1 & g' & _ & _ & R1 & _). rewrite (cur_flush_frame _ _ _ R1). discriminate.
Qed.

Lemma cur_open_init c : cur (init c) <> None.
Proof.
  unfold init. pose proof (segment_open_spec c 0 true false init_free eq_refl) as SO. cbn zeta in SO.
  destruct SO as (b & O1 & _). congruence.
Qed.

(* ================================================================== the playlist window *)
Lemma entries_ok_map c tok target live : forall l n,
  consecutive n (map s_seq l) = true ->
  (forall g, In g l -> mem_z (s_seq g) live = true) ->
  (forall g, In g l -> millis (s_dur g) <= target * 1000) ->
  entries_ok c tok n target live (map (entry_of c tok) l) = true.
Proof.
  induction l as [|g l IH]; intros n Hc Hl Hm; [reflexivity|].
  cbn [map consecutive] in Hc. apply andb_true_iff in Hc as [H1 H2].
  cbn [map entries_ok entry_of e_uri e_tok e_ms].
  apply Z.eqb_eq in H1. rewrite <- H1.
  rewrite !bytes_eqb_refl, (Hl g (or_introl eq_refl)). cbn [andb].
  apply andb_true_iff. split.
  - apply Z.leb_le. apply Hm. left. reflexivity.
  - rewrite H1. apply IH; [exact H2 | |]; intros; [apply Hl | apply Hm]; right; assumption.
Qed.

Lemma mem_z_in x l : In x l -> mem_z x l = true.
Proof. intros H. unfold mem_z. apply existsb_exists. exists x. split; [exact H | apply Z.eqb_refl]. Qed.

Definition durs_ok (s : st) : Prop := forall g, In g (pl s) -> 0 <= s_dur g < 2 ^ 53.

Lemma view_ok_model c tok s v : Inv1 s -> durs_ok s -> m3u8 c tok s = Some v ->
  view_ok c tok (live_seqs s) v = true /\
  v_entries v = map (entry_of c tok) (pl s) /\ length (pl s) = 3%nat /\
  (forall g, nth_error (pl s) 0 = Some g -> v_mseq v = s_seq g).
Proof.
  intros [A B C D F] Hd Hm. unfold m3u8 in Hm.
  destruct (pl s) as [|g0 rest] eqn:Hpl; [discriminate|].
  destruct (length (g0 :: rest) <? WINDOW)%nat eqn:Hw; [discriminate|].
  injection Hm as <-. unfold WINDOW in Hw.
  assert (L : length (g0 :: rest) = 3%nat) by lia.
  split; [|split; [reflexivity|split; [exact L|]]].
  - unfold view_ok. cbn [v_entries v_mseq v_target].
    change (entry_of c tok g0 :: map (entry_of c tok) rest) with (map (entry_of c tok) (g0 :: rest)).
    rewrite map_length, L. cbn [Nat.eqb WINDOW andb].
    apply entries_ok_map.
    + cbn [map consecutive] in B |- *. apply andb_true_iff in B as [B1 B2].
      rewrite Z.eqb_refl. cbn [andb]. apply Z.eqb_eq in B1. rewrite B1. exact B2.
    + intros g Hg. apply mem_z_in. unfold live_seqs. rewrite Hpl. apply in_map. exact Hg.
    + intros g Hg. rewrite <- Hpl in Hg.
      pose proof (Hd g Hg) as R. pose proof (millis_le_target _ R) as M.
      pose proof (max_dur_ge _ _ Hg) as X. rewrite <- Hpl.
      assert (s_dur g / TICKS <= max_dur (pl s) / TICKS) by (apply Z.div_le_mono; [unfold TICKS; lia | exact X]).
      lia.
  - intros g Hg. cbn in Hg. injection Hg as <-. reflexivity.
Qed.

(* ================================================================== invariant 2: durations stay small and non-negative *)
Definition BOUND : Z := 2 ^ 34.
Record Inv2 (s : st) : Prop := {
  d_segs : forall g, In g (pl s ++ curl s) -> 0 <= s_start g /\ 0 <= s_dur g < BOUND;
  d_cache : forall a, cache s = Some a -> a_pts a < BOUND
}.

Lemma in_skipn {A} (x : A) k l : In x (skipn k l) -> In x l.
Proof. intros H. rewrite <- (firstn_skipn k l). apply in_or_app. right. exact H. Qed.

Lemma closed_as_pl_in s g s1 x : closed_as s g s1 -> In x (pl s1) -> In x (pl s) \/ x = g.
Proof.
  intros [Hd E1 E2 E3 E4 E5 | Hd E1 E2 E3 E4 E5] Hin; rewrite E2 in Hin.
  - left. exact Hin.
  - apply in_skipn, in_app_or in Hin. destruct Hin as [H|[H|[]]]; [left|right]; auto.
Qed.

Lemma seg_write_range w g : 0 <= s_start g -> 0 <= s_dur g < BOUND -> w_pts w < BOUND ->
  0 <= s_start (seg_write w g) /\ 0 <= s_dur (seg_write w g) < BOUND.
Proof.
  intros H1 H2 H3. unfold seg_write. cbn [s_start s_dur]. destruct (w_pts w <? s_start g) eqn:E; lia.
Qed.

Lemma Inv2_flush_frame w s : w_pts w < BOUND -> Inv2 s -> Inv2 (flush_frame w s).
Proof.
  intros Hw [A B]. unfold flush_frame. destruct (cur s) as [g|] eqn:Hg; [|constructor; assumption].
  constructor; cbn [set_cur pl cache]; [|exact B].
  intros x Hin. unfold curl in *. cbn [set_cur cur] in Hin. rewrite Hg in A.
  apply in_app_or in Hin. destruct Hin as [Hin|[<-|[]]].
  - apply A, in_or_app. left. exact Hin.
  - destruct (A g ltac:(apply in_or_app; right; left; reflexivity)) as [A1 A2].
    apply seg_write_range; assumption.
Qed.

Lemma Inv2_flush_cache s : Inv2 s -> Inv2 (flush_cache s).
Proof.
  intros H. unfold flush_cache. destruct (cache s) as [a|] eqn:Ha; [|exact H].
  pose proof (d_cache _ H a Ha) as Hb.
  pose proof (Inv2_flush_frame (cache_frame a) s Hb H) as [A B].
  constructor; [exact A | intros x Hx; discriminate].
Qed.

Lemma Inv2_reap c start a s g : 0 <= start < BOUND -> cur s = Some g -> Inv2 s -> Inv2 (reap c start a s).
Proof.
  intros Hs Hc [A B].
  pose proof (reap_spec c start a s g Hc) as R. cbn zeta in R.
  destruct R as (s1 & g' & CA & _ & R1 & _ & R2 & _ & _ & R3 & R4 & _ & R5 & _).
  constructor; [|intros x Hx; congruence].
  intros x Hin. unfold curl in Hin. rewrite R1, R5 in Hin.
  apply in_app_or in Hin. destruct Hin as [Hin|[<-|[]]].
  - destruct (closed_as_pl_in _ _ _ _ CA Hin) as [H| ->]; apply A, in_or_app; [left; exact H|].
    right. unfold curl. rewrite Hc. left. reflexivity.
  - rewrite R2. destruct (cache s) as [ca|] eqn:Hca.
    + destruct R3 as [_ ->]. specialize (B _ eq_refl). destruct (a_pts ca <? start) eqn:E; lia.
    + destruct R3 as [_ ->]. unfold BOUND. lia.
Qed.

Lemma jitter_start_bound c pts s : pts < 2 ^ 33 -> fst (jitter_start c pts s) < BOUND.
Proof.
  intros H. unfold jitter_start, BOUND, AAC_SYNC.
  destruct (_ && _) eqn:E; cbn [fst]; lia.
Qed.

Lemma Inv2_write_frame c f s : frame_wf f = true -> Inv2 s -> Inv2 (write_frame c f s).
Proof.
  intros Hf. unfold frame_wf, PTS_MAX in Hf.
  assert (Hp : 0 <= f_pts f < 2 ^ 33) by lia.
  apply (write_frame_preserves_q Inv2 (fun a => a_pts a < BOUND)).
  - intros s0 a [A B] Ha. constructor; [exact A|]. intros x Hx. cbn in Hx. injection Hx as <-. exact Ha.
  - intros s0 a0 es src H Hc. cbn. eapply d_cache; eauto.
  - intros s0 es src. cbn. apply jitter_start_bound. lia.
  - intros s0 b n [A B]. constructor; assumption.
  - apply Inv2_flush_cache.
  - intros s0 g H Hg _. eapply Inv2_reap; eauto. unfold BOUND. lia.
  - intros s0 g H Hg _. apply Inv2_flush_frame; [cbn; unfold BOUND; lia | exact H].
  - intros s0 g H Hg _ _. apply Inv2_flush_frame; [cbn; unfold BOUND; lia|].
    eapply Inv2_reap; eauto. unfold BOUND. lia.
Qed.

Lemma Inv2_init c : Inv2 (init c).
Proof.
  unfold init. pose proof (segment_open_spec c 0 true false init_free eq_refl) as SO. cbn zeta in SO.
  destruct SO as (b & O1 & O2 & O3 & O4 & O5 & O6 & _).
  constructor.
  - intros g Hin. unfold curl in Hin. rewrite O1, O6 in Hin. cbn in Hin. destruct Hin as [<-|[]]. cbn. unfold BOUND. lia.
  - intros a Ha. rewrite O3 in Ha. discriminate.
Qed.

Lemma Inv2_durs_ok s : Inv2 s -> durs_ok s.
Proof.
  intros [A _] g Hg. destruct (A g (in_or_app _ _ _ (or_introl Hg))) as [_ H]. unfold BOUND in H. lia.
Qed.

(* ================================================================== invariant 3: segments opened at a key frame start with it *)
Definition key_started (c : cfg) (fs : list wframe) : bool :=
  match first_video fs with
  | Some w => w_key w && is_prefix (key_header_ps (w_sps w) (w_pps w)) (w_es w)
  | None => false
  end.

Definition Inv3 (c : cfg) (s : st) : Prop :=
  forall g, In g (pl s ++ curl s) -> s_hdr g = false -> s_aud g = false -> key_started c (s_frames g) = true.

Lemma first_video_app fs w :
  first_video (fs ++ [w]) =
  match first_video fs with Some x => Some x | None => if w_pid w =? VPID then Some w else None end.
Proof.
  unfold first_video. induction fs as [|x fs IH]; cbn [app find].
  - destruct (w_pid w =? VPID); reflexivity.
  - destruct (w_pid x =? VPID); [reflexivity | exact IH].
Qed.

Lemma key_started_app c fs w : key_started c fs = true -> key_started c (fs ++ [w]) = true.
Proof.
  unfold key_started. rewrite first_video_app. destruct (first_video fs); [auto | discriminate].
Qed.

Lemma key_started_starts c fs : key_started c fs = true ->
  exists w, first_video fs = Some w /\ starts_with_key_ps (w_sps w) (w_pps w) fs = true.
Proof.
  unfold key_started, starts_with_key_ps. destruct (first_video fs) as [w|] eqn:E; [|discriminate].
  intros H. exists w. split; [reflexivity|]. exact H.
Qed.

Lemma Inv3_flush_frame c w s : Inv3 c s -> Inv3 c (flush_frame w s).
Proof.
  intros H. unfold flush_frame. destruct (cur s) as [g|] eqn:Hg; [|exact H].
  intros x Hin. unfold curl in *. cbn [set_cur cur pl] in Hin. unfold Inv3, curl in H. rewrite Hg in H.
  apply in_app_or in Hin. destruct Hin as [Hin|[<-|[]]].
  - apply H, in_or_app. left. exact Hin.
  - cbn [seg_write s_hdr s_aud s_frames]. intros H1 H2. apply key_started_app.
    apply H; [apply in_or_app; right; left; reflexivity | exact H1 | exact H2].
Qed.

Lemma Inv3_flush_cache c s : Inv3 c s -> Inv3 c (flush_cache s).
Proof.
  intros H. unfold flush_cache. destruct (cache s) as [a|]; [|exact H].
  pose proof (Inv3_flush_frame c (cache_frame a) s H) as H'. exact H'.
Qed.

Lemma Inv3_reap_pl c start a s g x : cur s = Some g -> Inv3 c s -> In x (pl (reap c start a s)) ->
  s_hdr x = false -> s_aud x = false -> key_started c (s_frames x) = true.
Proof.
  intros Hc H Hin.
  pose proof (reap_spec c start a s g Hc) as R. cbn zeta in R.
  destruct R as (s1 & g' & CA & _ & R1 & _ & R2 & _ & _ & R3 & R4 & _ & R5 & _).
  rewrite R5 in Hin. destruct (closed_as_pl_in _ _ _ _ CA Hin) as [Hx| ->]; apply H, in_or_app; [left; exact Hx|].
  right. unfold curl. rewrite Hc. left. reflexivity.
Qed.

Lemma Inv3_reap_audio c start s g : cur s = Some g -> Inv3 c s -> Inv3 c (reap c start true s).
Proof.
  intros Hc H x Hin.
  apply in_app_or in Hin. destruct Hin as [Hin|Hin]; [eapply (Inv3_reap_pl c start true s g); eauto|].
  pose proof (reap_spec c start true s g Hc) as R. cbn zeta in R.
  destruct R as (s1 & g' & CA & _ & R1 & _ & _ & _ & R2 & _).
  unfold curl in Hin. rewrite R1 in Hin. destruct Hin as [<-|[]]. intros _ Ha. congruence.
Qed.

Lemma is_key_KK k : is_key k = true -> k = KK.
Proof. destruct k; cbn; congruence. Qed.

Lemma Inv3_reap_video c f s g : cur s = Some g -> is_key (f_kind f) = true -> Inv3 c s ->
  Inv3 c (flush_frame (video_frame c f) (reap c (f_pts f) false s)).
Proof.
  intros Hc Hk H.
  pose proof (reap_spec c (f_pts f) false s g Hc) as R. cbn zeta in R.
  destruct R as (s1 & g' & CA & _ & R1 & _ & _ & _ & _ & R3 & _).
  intros x Hin. apply in_app_or in Hin.
  unfold flush_frame in Hin. rewrite R1 in Hin. unfold curl in Hin. cbn [set_cur pl cur] in Hin.
  destruct Hin as [Hin|[<-|[]]]; [eapply (Inv3_reap_pl c (f_pts f) false s g); eauto|].
  intros _ _. cbn [seg_write s_frames]. unfold key_started. rewrite first_video_app.
  assert (V : (let w := video_frame c f in w_key w && is_prefix (key_header_ps (w_sps w) (w_pps w)) (w_es w)) = true).
  { cbn zeta. unfold video_frame. cbn [w_key w_es w_sps w_pps]. rewrite Hk. cbn [andb]. apply is_prefix_app.
    change (key_header_ps (c_sps c) (c_pps c)) with (key_header c). rewrite (is_key_KK _ Hk). cbn [video_header].
    exists (f_pay f). reflexivity. }
  cbn zeta in V.
  destruct (cache s) as [ca|]; destruct R3 as [-> _]; cbn [first_video find cache_frame w_pid APID VPID Z.eqb Pos.eqb]; exact V.
Qed.

Lemma Inv3_write_frame c f s : Inv3 c s -> Inv3 c (write_frame c f s).
Proof.
  apply write_frame_preserves.
  - intros s0 o H. exact H.
  - intros s0 b n H. exact H.
  - apply Inv3_flush_cache.
  - intros s0 g H Hg _. eapply Inv3_reap_audio; eauto.
  - intros s0 g H Hg _. apply Inv3_flush_frame. exact H.
  - intros s0 g H Hg Hk _. eapply Inv3_reap_video; eauto.
Qed.

Lemma Inv3_init c : Inv3 c (init c).
Proof.
  unfold init. pose proof (segment_open_spec c 0 true false init_free eq_refl) as SO. cbn zeta in SO.
  destruct SO as (b & O1 & O2 & O3 & O4 & O5 & O6 & _).
  intros g Hin. unfold curl in Hin. rewrite O1, O6 in Hin. cbn in Hin. destruct Hin as [<-|[]]. cbn. discriminate.
Qed.

(* the discontinuity flag marks segment number 1 only *)
Definition Inv3h (s : st) : Prop := forall g, In g (pl s ++ curl s) -> s_hdr g = true -> s_seq g = 1.

Lemma Inv3h_flush_frame w s : Inv3h s -> Inv3h (flush_frame w s).
Proof.
  intros H. unfold flush_frame. destruct (cur s) as [g|] eqn:Hg; [|exact H].
  intros x Hin. unfold curl in *. cbn [set_cur cur pl] in Hin. unfold Inv3h, curl in H. rewrite Hg in H.
  apply in_app_or in Hin. destruct Hin as [Hin|[<-|[]]].
  - apply H, in_or_app. left. exact Hin.
  - cbn [seg_write s_hdr s_seq]. apply H. apply in_or_app; right; left; reflexivity.
Qed.
Lemma Inv3h_flush_cache s : Inv3h s -> Inv3h (flush_cache s).
Proof.
  intros H. unfold flush_cache. destruct (cache s) as [a|]; [|exact H].
  exact (Inv3h_flush_frame (cache_frame a) s H).
Qed.
Lemma Inv3h_reap c start a s g : cur s = Some g -> Inv3h s -> Inv3h (reap c start a s).
Proof.
  intros Hc H x Hin.
  pose proof (reap_spec c start a s g Hc) as R. cbn zeta in R.
  destruct R as (s1 & g' & CA & _ & R1 & _ & _ & R2 & _ & _ & _ & _ & R5 & _).
  unfold curl in Hin. rewrite R1, R5 in Hin. apply in_app_or in Hin. destruct Hin as [Hin|[<-|[]]].
  - destruct (closed_as_pl_in _ _ _ _ CA Hin) as [Hx| ->]; apply H, in_or_app; [left; exact Hx|].
    right. unfold curl. rewrite Hc. left. reflexivity.
  - congruence.
Qed.
Lemma Inv3h_write_frame c f s : Inv3h s -> Inv3h (write_frame c f s).
Proof.
  apply write_frame_preserves.
  - intros s0 o H. exact H.
  - intros s0 b n H. exact H.
  - apply Inv3h_flush_cache.
  - intros s0 g H Hg _. eapply Inv3h_reap; eauto.
  - intros s0 g H Hg _. apply Inv3h_flush_frame. exact H.
  - intros s0 g H Hg Hk _. apply Inv3h_flush_frame. eapply Inv3h_reap; eauto.
Qed.
Lemma Inv3h_init c : Inv3h (init c).
Proof.
  unfold init. pose proof (segment_open_spec c 0 true false init_free eq_refl) as SO. cbn zeta in SO.
  destruct SO as (b & O1 & O2 & O3 & O4 & O5 & O6 & _).
  intros g Hin. unfold curl in Hin. rewrite O1, O6 in Hin. cbn in Hin. destruct Hin as [<-|[]]. cbn. reflexivity.
Qed.

(* ================================================================== all invariants, over histories *)
Record Inv (c : cfg) (s : st) : Prop := { inv1 : Inv1 s; inv2 : Inv2 s; inv3 : Inv3 c s; inv3h : Inv3h s }.

Lemma Inv_init c : Inv c (init c).
Proof. constructor; [apply Inv1_init | apply Inv2_init | apply Inv3_init | apply Inv3h_init]. Qed.

Lemma Inv_write_frame c f s : frame_wf f = true -> Inv c s -> Inv c (write_frame c f s).
Proof.
  intros Hf [A B C D]. constructor;
    [apply Inv1_write_frame | apply Inv2_write_frame | apply Inv3_write_frame | apply Inv3h_write_frame]; assumption.
Qed.

Lemma close_all_spec s :
  let s' := close_all s in
  cur s' = None /\ pl s' = [] /\ closed s' = closed s /\ cache s' = cache s /\ seqno s' = seqno s /\ dropped s' = dropped s.
Proof.
  unfold close_all.
  set (s1 := match cur s with Some g => release g (set_cur None s) | None => s end).
  assert (E : cur s1 = None /\ pl s1 = pl s /\ closed s1 = closed s /\ cache s1 = cache s /\ seqno s1 = seqno s /\ dropped s1 = dropped s).
  { subst s1. destruct (cur s) eqn:Hc; cbn; repeat split; try reflexivity. exact Hc. }
  destruct E as (E1 & E2 & E3 & E4 & E5 & E6).
  unfold clear_segments. destruct (0 <? length (pl s1))%nat eqn:Hn.
  - rewrite Nat.sub_0_r, skipn_all.
    match goal with |- context [release_all ?l ?x] => pose proof (release_all_fields l x) as R end.
    cbn zeta in R. destruct R as (A&B&C&D&E&F&G&H&I&J).
    cbn [set_pl seqno cur cache jbase jn pl closed dropped nextb free].
    repeat split; congruence.
  - cbn zeta. assert (length (pl s1) = 0%nat) by lia. destruct (pl s1) eqn:Hp; [|discriminate].
    repeat split; congruence.
Qed.

Lemma Inv_close_all c s : Inv c s -> Inv c (close_all s).
Proof.
  intros [A B C D]. pose proof (close_all_spec s) as R. cbn zeta in R. destruct R as (R1 & R2 & R3 & R4 & R5 & R6).
  constructor.
  - constructor; unfold lastno; rewrite ?R1, ?R2, ?R3; cbn.
    + intros g Hg. discriminate.
    + reflexivity.
    + lia.
    + exists (closed s). rewrite app_nil_r. reflexivity.
    + intros H. congruence.
  - constructor.
    + intros g Hin. unfold curl in Hin. rewrite R1, R2 in Hin. destruct Hin.
    + intros a Ha. rewrite R4 in Ha. eapply d_cache; eauto.
  - intros g Hin. unfold curl in Hin. rewrite R1, R2 in Hin. destruct Hin.
  - intros g Hin. unfold curl in Hin. rewrite R1, R2 in Hin. destruct Hin.
Qed.

Definition step_st (c : cfg) (s : st) (o : op) : st :=
  match o with OFrame f => write_frame c f s | OClose => close_all s | ONewGen _ => init c | _ => s end.

Lemma Inv_cfg c c' s : Inv c s -> Inv c' s.
Proof. intros [A B C D]. constructor; assumption. Qed.

Lemma step_r_st c dtok r o : r_st (fst (step c dtok r o)) = step_st c (r_st r) o.
Proof.
  unfold step. destruct o; cbn [step_st]; try reflexivity.
  - destruct (fetch c seq (r_st r)); reflexivity.
  - destruct (m3u8 c tok (r_st r)); reflexivity.
Qed.

Lemma Inv_step_st c s o : op_wf o = true -> Inv c s -> Inv c (step_st c s o).
Proof.
  intros Hw H. destruct o; cbn [step_st]; try exact H.
  - apply Inv_write_frame; assumption.
  - apply Inv_close_all; assumption.
  - apply Inv_init.
Qed.

(* ================================================================== the oracle accepts the model *)
Lemma wframe_eqb_refl w : wframe_eqb w w = true.
Proof. unfold wframe_eqb. rewrite !Z.eqb_refl, eqb_reflx, bytes_eqb_refl. reflexivity. Qed.
Lemma segobs_eqb_refl g : segobs_eqb g g = true.
Proof. unfold segobs_eqb. rewrite eqb_reflx, (list_eqb_refl _ _ wframe_eqb_refl). reflexivity. Qed.
Lemma entry_eqb_refl e : entry_eqb e e = true.
Proof. unfold entry_eqb. rewrite eqb_reflx, Z.eqb_refl, !bytes_eqb_refl. reflexivity. Qed.
Lemma view_eqb_refl v : view_eqb v v = true.
Proof. unfold view_eqb. rewrite !Z.eqb_refl, (list_eqb_refl _ _ entry_eqb_refl). reflexivity. Qed.
Lemma newseg_eqb_refl x : newseg_eqb x x = true.
Proof. unfold newseg_eqb. rewrite Z.eqb_refl, segobs_eqb_refl. reflexivity. Qed.
Lemma opres_eqb_refl r : opres_eqb r r = true.
Proof.
  destruct r as [|b|o|b|o]; cbn; try apply eqb_reflx; try reflexivity.
  - destruct o; cbn; [apply segobs_eqb_refl | reflexivity].
  - destruct o; cbn; [apply bytes_eqb_refl | reflexivity].
Qed.

Lemma insert_sorted_length x l : length (insert_sorted x l) = S (length l).
Proof. induction l as [|y l IH]; cbn; [reflexivity|]. destruct (x <=? y); cbn; [reflexivity | rewrite IH; reflexivity]. Qed.
Lemma sort_z_length l : length (sort_z l) = length l.
Proof. unfold sort_z. induction l as [|x l IH]; cbn [fold_right length]; [reflexivity|]. rewrite insert_sorted_length, IH. reflexivity. Qed.

Lemma first_video_strip fs : first_video (map strip fs) = option_map strip (first_video fs).
Proof.
  unfold first_video. induction fs as [|w fs IH]; cbn [map find]; [reflexivity|].
  cbn [strip w_pid]. destruct (w_pid w =? VPID); [reflexivity | exact IH].
Qed.
Lemma starts_with_key_strip sps pps fs : starts_with_key_ps sps pps (map strip fs) = starts_with_key_ps sps pps fs.
Proof. unfold starts_with_key_ps. rewrite first_video_strip. destruct (first_video fs); reflexivity. Qed.

Lemma find_seg_consecutive l : forall n g, consecutive n (map s_seq l) = true -> In g l -> find_seg (s_seq g) l = Some g.
Proof.
  induction l as [|x l IH]; intros n g Hc Hin; [destruct Hin|].
  cbn [map consecutive] in Hc. apply andb_true_iff in Hc as [H1 H2]. cbn [find_seg].
  destruct Hin as [->|Hin]; [rewrite Z.eqb_refl; reflexivity|].
  pose proof (consecutive_map_in _ _ (s_seq g) H2 (in_map s_seq _ _ Hin)) as R.
  destruct (s_seq x =? s_seq g) eqn:E; [lia|]. eapply IH; eauto.
Qed.

Lemma res_ok_step c dtok r o : res_ok (o_res (snd (step c dtok r o))) = true.
Proof.
  unfold step. destruct o; cbn; try reflexivity.
  - destruct (fetch c seq (r_st r)); reflexivity.
  - destruct (nth_z (r_readers r) h) as [[fs|b fs]|]; reflexivity.
  - destruct (m3u8 c tok (r_st r)); reflexivity.
Qed.

Lemma o_fields_step c dtok r o :
  let s' := step_st c (r_st r) o in
  let ob := snd (step c dtok r o) in
  o_pl ob = match m3u8 c dtok s' with Some v => Some (v, render v) | None => None end /\
  o_live ob = live_seqs s' /\ o_files ob = dir_seqs c (r_left (fst (step c dtok r o))) s' /\
  o_new ob = map (fun g => (s_seq g, obs_of_frames (s_frames g)))
                 (filter (fun g => negb (mem_z (s_seq g) (r_prev r))) (pl s')).
Proof.
  unfold step. destruct o; cbn [step_st]; try (cbn; repeat split; reflexivity).
  - destruct (fetch c seq (r_st r)); cbn; repeat split; reflexivity.
  - destruct (m3u8 c tok (r_st r)); cbn; repeat split; reflexivity.
Qed.

Lemma filter_len_le {A} (f : A -> bool) l : (length (filter f l) <= length l)%nat.
Proof. induction l as [|x l IH]; cbn; [lia|]. destruct (f x); cbn; lia. Qed.

Lemma dir_seqs_length c lf s : Inv1 s -> (length (dir_seqs c lf s) <= 4 + length lf)%nat.
Proof.
  intros I1. unfold dir_seqs. destruct (c_mem c); [cbn; lia|].
  rewrite app_length, sort_z_length, app_length. unfold live_seqs. rewrite map_length.
  pose proof (i_len _ I1). pose proof (filter_len_le (fun n => seqno s <? n) lf).
  destruct (cur s); cbn [length]; lia.
Qed.

(* ================================================================== the playlist text, read line by line *)
Lemma split_on_acc_line l : forall rest cur, no_lf l = true ->
  split_on_acc 10 (l ++ 10 :: rest) cur = (rev cur ++ l) :: split_on_acc 10 rest [].
Proof.
  induction l as [|x l IH]; intros rest cur H.
  - cbn. rewrite app_nil_r. reflexivity.
  - unfold no_lf in H. cbn [forallb] in H. apply andb_true_iff in H as [H1 H2]. fold (no_lf l) in H2.
    cbn [app split_on_acc]. destruct (x =? 10) eqn:E; [discriminate|].
    rewrite IH by exact H2. cbn [rev]. rewrite <- app_assoc. reflexivity.
Qed.

Lemma split_unlines ls : (forall l, In l ls -> no_lf l = true) -> split_on 10 (unlines ls) = ls ++ [[]].
Proof.
  unfold split_on. induction ls as [|l ls IH]; intros H; [reflexivity|].
  unfold unlines in *. cbn [flat_map]. rewrite <- app_assoc. cbn [app].
  rewrite split_on_acc_line by (apply H; left; reflexivity). cbn [rev app]. f_equal.
  apply IH. intros l' Hl. apply H. right. exact Hl.
Qed.

Lemma render_entry_lines e : render_entry e = unlines (entry_lines e).
Proof.
  unfold render_entry, entry_lines, unlines, tok_suffix.
  destruct (e_disc e); destruct (e_tok e); cbn [app flat_map]; repeat rewrite <- app_assoc; cbn [app];
    rewrite ?app_nil_r; reflexivity.
Qed.

Lemma unlines_app a b : unlines (a ++ b) = unlines a ++ unlines b.
Proof. unfold unlines. apply flat_map_app. Qed.

Lemma render_lines v : render v = unlines (view_lines v).
Proof.
  unfold render, view_lines. rewrite unlines_app.
  assert (E : flat_map render_entry (v_entries v) = unlines (flat_map entry_lines (v_entries v))).
  { induction (v_entries v) as [|e l IH]; [reflexivity|]. cbn [flat_map]. rewrite unlines_app, render_entry_lines, IH. reflexivity. }
  rewrite E. unfold unlines. cbn [flat_map]. rewrite <- !app_assoc. reflexivity.
Qed.

Definition digit_or_minus (b : Z) : bool := negb (b =? 10).
Lemma dec_fuel_no_lf fuel : forall n acc, no_lf acc = true -> no_lf (dec_fuel fuel n acc) = true.
Proof.
  induction fuel as [|k IH]; intros n acc H; [exact H|]. cbn [dec_fuel].
  assert (H' : no_lf ((48 + n mod 10) :: acc) = true).
  { unfold no_lf in *. cbn [forallb]. rewrite H. pose proof (Z.mod_pos_bound n 10 ltac:(lia)).
    destruct (48 + n mod 10 =? 10) eqn:E; [lia | reflexivity]. }
  destruct (n / 10 =? 0); [exact H' | apply IH; exact H'].
Qed.
Lemma dec_no_lf n : no_lf (dec n) = true.
Proof.
  unfold dec. destruct (n <? 0); [|apply dec_fuel_no_lf; reflexivity].
  change (no_lf (45 :: dec_fuel 60 (- n) [])) with (negb (45 =? 10) && no_lf (dec_fuel 60 (- n) [])).
  rewrite dec_fuel_no_lf; reflexivity.
Qed.
Lemma no_lf_app a b : no_lf (a ++ b) = no_lf a && no_lf b.
Proof. unfold no_lf. apply forallb_app. Qed.
Lemma dec3_no_lf n : no_lf (dec3 n) = true.
Proof.
  unfold dec3, no_lf. cbn [forallb].
  pose proof (Z.mod_pos_bound (n / 100) 10 ltac:(lia)). pose proof (Z.mod_pos_bound (n / 10) 10 ltac:(lia)).
  pose proof (Z.mod_pos_bound n 10 ltac:(lia)).
  destruct (48 + (n / 100) mod 10 =? 10) eqn:E1; [lia|]. destruct (48 + (n / 10) mod 10 =? 10) eqn:E2; [lia|].
  destruct (48 + n mod 10 =? 10) eqn:E3; [lia|]. reflexivity.
Qed.
Lemma fmt_millis_no_lf n : no_lf (fmt_millis n) = true.
Proof. unfold fmt_millis. rewrite !no_lf_app, dec_no_lf, dec3_no_lf. reflexivity. Qed.

Lemma seg_uri_no_lf c n : no_lf (c_path c) = true -> no_lf (seg_uri c n) = true.
Proof. intros H. unfold seg_uri. rewrite !no_lf_app, H, dec_no_lf. reflexivity. Qed.
Lemma tok_suffix_no_lf t : no_lf t = true -> no_lf (tok_suffix t) = true.
Proof. intros H. unfold tok_suffix. destruct t; [reflexivity|]. rewrite no_lf_app, H. reflexivity. Qed.

Lemma seg_uri_is_uri c n t : is_uri_line (seg_uri c n ++ t) = true.
Proof. reflexivity. Qed.

(* every URI line of the served text is the segment's URI followed by "?token=" and the caller's token (nothing when
   the token is empty), byte for byte, for every token and stream path without a line feed; and these are all the
   URI lines, in the order of the listed segments *)
Lemma uri_lines_entries c tok segs : no_lf (c_path c) = true -> no_lf tok = true ->
  let ls := flat_map entry_lines (map (entry_of c tok) segs) in
  (forall l, In l ls -> no_lf l = true) /\ filter is_uri_line ls = map (fun g => uri_line c tok (s_seq g)) segs.
Proof.
  intros Hp Ht. induction segs as [|g segs [IH1 IH2]]; [split; [intros l []|reflexivity]|].
  cbn zeta. cbn [map flat_map].
  assert (U : no_lf (e_uri (entry_of c tok g) ++ tok_suffix (e_tok (entry_of c tok g))) = true).
  { cbn [entry_of e_uri e_tok]. rewrite no_lf_app, seg_uri_no_lf, tok_suffix_no_lf by assumption. reflexivity. }
  assert (I : no_lf (S_INF ++ fmt_millis (e_ms (entry_of c tok g)) ++ [44]) = true).
  { rewrite !no_lf_app, fmt_millis_no_lf. reflexivity. }
  split.
  - intros l Hl. apply in_app_or in Hl. destruct Hl as [Hl|Hl]; [|apply IH1; exact Hl].
    unfold entry_lines in Hl. apply in_app_or in Hl. destruct Hl as [Hl|[<-|[<-|[]]]]; try assumption.
    destruct (e_disc (entry_of c tok g)); [destruct Hl as [<-|[]]; reflexivity | destruct Hl].
  - rewrite filter_app, IH2. f_equal. unfold entry_lines. rewrite filter_app.
    replace (filter is_uri_line (if e_disc (entry_of c tok g) then [L_DISC] else [])) with (@nil bytes)
      by (destruct (e_disc (entry_of c tok g)); reflexivity).
    cbn [app filter]. replace (is_uri_line (S_INF ++ fmt_millis (e_ms (entry_of c tok g)) ++ [44])) with false by reflexivity.
    cbn [entry_of e_uri e_tok]. rewrite seg_uri_is_uri. reflexivity.
Qed.

Theorem playlist_uri_verbatim c tok s v : no_lf (c_path c) = true -> no_lf tok = true ->
  m3u8 c tok s = Some v ->
  uri_lines (render v) = map (uri_line c tok) (live_seqs s).
Proof.
  intros Hp Ht Hm. unfold m3u8 in Hm. destruct (pl s) as [|g0 rest] eqn:Hpl; [discriminate|].
  destruct (length (g0 :: rest) <? WINDOW)%nat; [discriminate|]. injection Hm as <-.
  unfold uri_lines. rewrite render_lines, split_unlines.
  - unfold view_lines. cbn [v_target v_mseq v_entries].
    change (entry_of c tok g0 :: map (entry_of c tok) rest) with (map (entry_of c tok) (g0 :: rest)).
    rewrite !filter_app.
    destruct (uri_lines_entries c tok (g0 :: rest) Hp Ht) as [_ E]. cbn zeta in E. rewrite E.
    unfold live_seqs. rewrite Hpl, map_map.
    assert (H0 : filter is_uri_line [L_EXTM3U; L_VERSION; L_CACHE; L_TARGET ++ dec (max_dur (g0 :: rest) / TICKS + 1);
                                       L_MSEQ ++ dec (s_seq g0); []] = []) by reflexivity.
    rewrite H0. cbn [app filter is_uri_line]. rewrite app_nil_r. reflexivity.
  - intros l Hl. unfold view_lines in Hl. cbn [v_target v_mseq v_entries] in Hl.
    change (entry_of c tok g0 :: map (entry_of c tok) rest) with (map (entry_of c tok) (g0 :: rest)) in Hl.
    apply in_app_or in Hl.
    destruct Hl as [Hl|Hl].
    + destruct Hl as [<-|[<-|[<-|[<-|[<-|[<-|[]]]]]]]; try reflexivity; rewrite no_lf_app, dec_no_lf; reflexivity.
    + destruct (uri_lines_entries c tok (g0 :: rest) Hp Ht) as [N _]. apply N. exact Hl.
Qed.

Lemma ok_step_model c dtok r o : Inv c (step_st c (r_st r) o) ->
  ok_step c dtok false (step c dtok r o) (snd (step c dtok r o)) = true.
Proof.
  intros [I1 I2 I3 I3h].
  pose proof (o_fields_step c dtok r o) as F. cbn zeta in F. destruct F as (F1 & F2 & F3 & F4).
  pose proof (res_ok_step c dtok r o) as RO.
  unfold ok_step. rewrite step_r_st.
  set (s' := step_st c (r_st r) o) in *.
  set (ob := snd (step c dtok r o)) in *.
  rewrite RO, opres_eqb_refl, (list_eqb_refl _ _ newseg_eqb_refl), !(list_eqb_refl _ _ Z.eqb_refl).
  rewrite !andb_true_r.
  repeat (apply andb_true_iff; split).
  - rewrite F1. destruct (m3u8 c dtok s') as [v|] eqn:Hm; [|reflexivity].
    rewrite bytes_eqb_refl, view_eqb_refl, F2.
    destruct (view_ok_model c dtok s' v I1 (Inv2_durs_ok _ I2) Hm) as [V _]. rewrite V. cbn [andb].
    destruct (no_lf dtok) eqn:Nt; [|reflexivity]. destruct (no_lf (c_path c)) eqn:Np; [|reflexivity]. cbn [negb orb].
    rewrite (playlist_uri_verbatim c dtok s' v Np Nt Hm). apply list_eqb_refl. apply bytes_eqb_refl.
  - rewrite F2. unfold live_seqs. rewrite map_length. apply Nat.leb_le. unfold WINDOW. apply (i_len _ I1).
  - rewrite F3. apply Nat.leb_le. unfold WINDOW. pose proof (dir_seqs_length c (r_left (fst (step c dtok r o))) s' I1). lia.
  - rewrite F4. apply forallb_forall. intros x Hx. apply in_map_iff in Hx as (g & <- & _). reflexivity.
  - rewrite F4. apply forallb_forall. intros x Hx. apply in_map_iff in Hx as (g & <- & Hg).
    apply filter_In in Hg as [Hg _]. cbn [fst snd obs_of_frames g_frames negb andb].
    rewrite starts_with_key_strip.
    destruct (s_seq g <=? 1) eqn:E1; [reflexivity|]. cbn [orb].
    unfold opened_by_audio at 1. rewrite (find_seg_consecutive _ _ _ (i_cons _ I1) Hg).
    destruct (s_aud g) eqn:Ea; [reflexivity|]. cbn [orb].
    assert (K : key_started c (s_frames g) = true).
    { apply I3; [apply in_or_app; left; exact Hg | | exact Ea].
      destruct (s_hdr g) eqn:Eh; [|reflexivity].
      pose proof (I3h g ltac:(apply in_or_app; left; exact Hg) Eh). lia. }
    destruct (key_started_starts c _ K) as (w & W1 & W2).
    unfold model_ps. rewrite (find_seg_consecutive _ _ _ (i_cons _ I1) Hg), W1. cbn [fst snd]. exact W2.
Qed.

Lemma ok_run_from dtok : forall ops c r, forallb op_wf ops = true -> Inv c (r_st r) ->
  ok_steps dtok false (run_from c dtok r ops) (map (fun x => snd (snd x)) (run_from c dtok r ops)) = true.
Proof.
  induction ops as [|o ops IH]; intros c r Hw HI; [reflexivity|].
  cbn [forallb] in Hw. apply andb_true_iff in Hw as [H1 H2].
  cbn [run_from]. destruct (step c dtok r o) as [r' ob] eqn:Hs. cbn [map ok_steps fst snd].
  pose proof (Inv_step_st c _ o H1 HI) as HI'.
  pose proof (ok_step_model c dtok r o HI') as K. rewrite Hs in K. cbn [snd] in K. rewrite K. cbn [andb].
  apply IH; [exact H2|]. pose proof (step_r_st c dtok r o) as E. rewrite Hs in E. cbn [fst] in E. rewrite E.
  apply (Inv_cfg c). exact HI'.
Qed.

Theorem model_passes_oracle c dtok ops : wf c ops = true -> ok c dtok false ops (model c dtok ops) = true.
Proof.
  intros Hw. unfold wf in Hw. apply andb_true_iff in Hw as [_ Hw].
  unfold ok, model, run. apply ok_run_from; [exact Hw | apply Inv_init].
Qed.

(* ================================================================== every source frame exactly once *)
Definition all_frames (s : st) : list wframe := flat_map s_frames (closed s) ++ flat_map s_frames (curl s).
Definition vids (l : list wframe) : list frame := flat_map w_src (filter (fun w => w_pid w =? VPID) l).
Definition auds (l : list wframe) : list frame := flat_map w_src (filter (fun w => w_pid w =? APID) l).
Definition cache_src (s : st) : list frame := match cache s with Some a => a_src a | None => [] end.
Definition cache_frames (s : st) : list wframe := match cache s with Some a => [cache_frame a] | None => [] end.
Definition nonempty (f : frame) : bool := match f_pay f with [] => false | _ => true end.
Definition video_in (f : frame) : bool := negb (is_audio (f_kind f)) && nonempty f.
Definition audio_in (f : frame) : bool := is_audio (f_kind f) && nonempty f.

Lemma vids_app a b : vids (a ++ b) = vids a ++ vids b.
Proof. unfold vids. rewrite filter_app, flat_map_app. reflexivity. Qed.
Lemma auds_app a b : auds (a ++ b) = auds a ++ auds b.
Proof. unfold auds. rewrite filter_app, flat_map_app. reflexivity. Qed.
Lemma vids_cache_frames s : vids (cache_frames s) = [].
Proof. unfold cache_frames. destruct (cache s); reflexivity. Qed.
Lemma auds_cache_frames s : auds (cache_frames s) = cache_src s.
Proof. unfold cache_frames, cache_src. destruct (cache s); cbn; [apply app_nil_r | reflexivity]. Qed.

Lemma cache_src_eq s1 s2 : cache s1 = cache s2 -> cache_src s1 = cache_src s2.
Proof. unfold cache_src. intros ->. reflexivity. Qed.
Lemma cache_src_none s : cache s = None -> cache_src s = [].
Proof. unfold cache_src. intros ->. reflexivity. Qed.

Lemma flush_frame_acct w s g : cur s = Some g ->
  all_frames (flush_frame w s) = all_frames s ++ [w] /\ cache (flush_frame w s) = cache s /\
  dropped (flush_frame w s) = dropped s.
Proof.
  intros Hc. unfold flush_frame, all_frames, curl. rewrite Hc. cbn [add_fev set_cur closed cur cache dropped flat_map seg_write s_frames].
  rewrite !app_nil_r, app_assoc. repeat split; reflexivity.
Qed.

Lemma flush_cache_acct s g : cur s = Some g ->
  all_frames (flush_cache s) = all_frames s ++ cache_frames s /\ cache (flush_cache s) = None /\
  dropped (flush_cache s) = dropped s.
Proof.
  intros Hc. unfold flush_cache, cache_frames. destruct (cache s) as [a|] eqn:Ha.
  - destruct (flush_frame_acct (cache_frame a) s g Hc) as (A & B & C).
    unfold all_frames, curl in *. cbn [set_cache closed cur cache dropped]. repeat split; assumption.
  - rewrite app_nil_r. repeat split; [exact Ha].
Qed.

Lemma reap_acct c start a s g : cur s = Some g -> MIN_TICKS <= s_dur g ->
  all_frames (reap c start a s) = all_frames s ++ cache_frames s /\ cache (reap c start a s) = None /\
  dropped (reap c start a s) = dropped s.
Proof.
  intros Hc Hd.
  pose proof (reap_spec c start a s g Hc) as R. cbn zeta in R.
  destruct R as (s1 & g' & CA & _ & R1 & _ & _ & _ & _ & R3 & R4 & _ & _ & R5 & R6 & _).
  destruct CA as [Hx E1 E2 E3 E4 E5 | Hx E1 E2 E3 E4 E5]; [lia|].
  unfold all_frames, curl, cache_frames. rewrite R1, R5, R6, E3, E4, Hc. cbn [flat_map].
  rewrite flat_map_app. cbn [flat_map]. rewrite !app_nil_r.
  repeat split; [|exact R4].
  destruct (cache s); destruct R3 as [-> _]; rewrite ?app_nil_r; reflexivity.
Qed.

Lemma write_frame_acct c f s g : 1 <= c_frag c -> cur s = Some g -> dropped s = [] ->
  let s' := write_frame c f s in
  dropped s' = [] /\
  vids (all_frames s') = vids (all_frames s) ++ (if video_in f then [f] else []) /\
  auds (all_frames s') ++ cache_src s' = (auds (all_frames s) ++ cache_src s) ++ (if audio_in f then [f] else []).
Proof.
  intros HF Hg Hd. cbn zeta. unfold write_frame, video_in, audio_in, nonempty. rewrite Hg.
  destruct (f_pay f) as [|p0 pay] eqn:Hp.
  { rewrite !andb_false_r, !app_nil_r. repeat split; [exact Hd]. }
  rewrite !andb_true_r.
  destruct (is_audio (f_kind f)) eqn:Ha; cbn [negb].
  - (* audio *)
    assert (K : forall s1 a', cur s1 = Some g -> dropped s1 = [] -> all_frames s1 = all_frames s ->
              cache s1 = Some a' -> a_src a' = cache_src s ++ [f] ->
              let s' := if AAC_DELAY <? f_pts f - a_pts a' then flush_cache s1
                        else if abs_overflow c s1 then reap c (f_pts f) true s1 else s1 in
              dropped s' = [] /\ vids (all_frames s') = vids (all_frames s) ++ [] /\
              auds (all_frames s') ++ cache_src s' = (auds (all_frames s) ++ cache_src s) ++ [f]).
    { intros s1 a' C1 D1 A1 Ca1 Sa1. cbn zeta.
      assert (CS : cache_src s1 = cache_src s ++ [f]) by (unfold cache_src at 1; rewrite Ca1; exact Sa1).
      destruct (AAC_DELAY <? f_pts f - a_pts a').
      - destruct (flush_cache_acct s1 g C1) as (A & B & C).
        rewrite C, A, vids_app, auds_app, vids_cache_frames, auds_cache_frames, A1, CS.
        rewrite (cache_src_none _ B). rewrite !app_nil_r, app_assoc. repeat split; [exact D1].
      - destruct (abs_overflow c s1) eqn:Ho.
        + unfold abs_overflow in Ho. rewrite C1 in Ho.
          destruct (reap_acct c (f_pts f) true s1 g C1 ltac:(unfold MIN_TICKS, TICKS in *; lia)) as (A & B & C).
          rewrite C, A, vids_app, auds_app, vids_cache_frames, auds_cache_frames, A1, CS.
          rewrite (cache_src_none _ B). rewrite !app_nil_r, app_assoc. repeat split; [exact D1].
        + rewrite A1, CS, app_nil_r, app_assoc. repeat split; [exact D1]. }
    destruct (cache s) as [a0|] eqn:Hca.
    + cbn zeta. match goal with |- context [set_cache (Some ?a) ?x] => specialize (K (set_cache (Some a) x) a) end.
      cbn [a_pts] in K. apply K; try reflexivity; try assumption.
      cbn. unfold cache_src. rewrite Hca. reflexivity.
    + destruct (jitter_start c (f_pts f) s) as [p s0] eqn:Hjs.
      destruct (jitter_start_snd c (f_pts f) s) as (b & n & E). rewrite Hjs in E. cbn in E. subst s0.
      cbn zeta. match goal with |- context [set_cache (Some ?a) ?x] => specialize (K (set_cache (Some a) x) a) end.
      cbn [a_pts] in K. apply K; try reflexivity; try assumption.
      cbn. unfold cache_src. rewrite Hca. reflexivity.
  - (* video *)
    assert (V1 : vids [video_frame c f] = [f]) by reflexivity.
    assert (V2 : auds [video_frame c f] = []) by reflexivity.
    destruct (is_key (f_kind f) && overflow c s) eqn:Hk.
    + apply andb_true_iff in Hk as [_ Ho]. unfold overflow, cur_dur in Ho. rewrite Hg in Ho.
      destruct (reap_acct c (f_pts f) false s g Hg ltac:(unfold MIN_TICKS, TICKS in *; lia)) as (A & B & C).
      pose proof (reap_spec c (f_pts f) false s g Hg) as R. cbn zeta in R. destruct R as (_ & g' & _ & _ & R1 & _).
      destruct (flush_frame_acct (video_frame c f) _ g' R1) as (A' & B' & C').
      rewrite C', C, A', A, !vids_app, !auds_app, vids_cache_frames, auds_cache_frames, V1, V2.
      rewrite (cache_src_eq _ _ B'), (cache_src_none _ B). rewrite !app_nil_r. repeat split; [exact Hd].
    + destruct (flush_frame_acct (video_frame c f) s g Hg) as (A' & B' & C').
      rewrite C', A', !vids_app, !auds_app, V1, V2. rewrite (cache_src_eq _ _ B'). rewrite !app_nil_r.
      repeat split; [exact Hd].
Qed.

Lemma feed_acct c fs : forall s, 1 <= c_frag c -> cur s <> None -> dropped s = [] ->
  let s' := feed c fs s in
  dropped s' = [] /\
  vids (all_frames s') = vids (all_frames s) ++ filter video_in fs /\
  auds (all_frames s') ++ cache_src s' = (auds (all_frames s) ++ cache_src s) ++ filter audio_in fs.
Proof.
  induction fs as [|f fs IH]; intros s HF Hc Hd; cbn [feed filter].
  - rewrite !app_nil_r. repeat split; [exact Hd].
  - destruct (cur s) as [g|] eqn:Hg; [|congruence].
    destruct (write_frame_acct c f s g HF Hg Hd) as (A & B & C).
    specialize (IH (write_frame c f s) HF ltac:(apply cur_open_write_frame; congruence) A).
    cbn zeta in IH. destruct IH as (A' & B' & C'). rewrite B', C', B, C.
    repeat split; [exact A' | |].
    + rewrite <- app_assoc. f_equal. destruct (video_in f); reflexivity.
    + rewrite <- !app_assoc. do 2 f_equal. destruct (audio_in f); reflexivity.
Qed.

Theorem segments_partition c fs : 1 <= c_frag c ->
  let s := feed c fs (init c) in
  dropped s = [] /\
  vids (all_frames s) = filter video_in fs /\
  auds (all_frames s) ++ cache_src s = filter audio_in fs.
Proof.
  intros HF.
  pose proof (feed_acct c fs (init c) HF (cur_open_init c)) as K.
  assert (D : dropped (init c) = []).
  { unfold init. pose proof (segment_open_spec c 0 true false init_free eq_refl) as SO. cbn zeta in SO.
    destruct SO as (b & _ & _ & _ & _ & _ & _ & _ & O8 & _). exact O8. }
  assert (A0 : all_frames (init c) = [] /\ cache_src (init c) = []).
  { unfold init, all_frames, curl, cache_src. pose proof (segment_open_spec c 0 true false init_free eq_refl) as SO. cbn zeta in SO.
    destruct SO as (b & O1 & _ & O3 & _ & _ & _ & O7 & _). rewrite O1, O3, O7. split; reflexivity. }
  destruct A0 as [A0 A1]. specialize (K D). cbn zeta in K. rewrite A0, A1 in K. exact K.
Qed.

(* ================================================================== reachable states *)
Lemma Inv_feed c fs : forall s, forallb frame_wf fs = true -> Inv c s -> Inv c (feed c fs s).
Proof.
  induction fs as [|f fs IH]; intros s Hw HI; [exact HI|].
  cbn [forallb] in Hw. apply andb_true_iff in Hw as [H1 H2]. cbn [feed]. apply IH; [exact H2|].
  apply Inv_write_frame; assumption.
Qed.

Fixpoint steps (c : cfg) (s : st) (ops : list op) : st :=
  match ops with [] => s | o :: t => steps (step_cfg c o) (step_st c s o) t end.

Lemma Inv_steps ops : forall c s, forallb op_wf ops = true -> Inv c s -> Inv c (steps c s ops).
Proof.
  induction ops as [|o ops IH]; intros c s Hw HI; [exact HI|].
  cbn [forallb] in Hw. apply andb_true_iff in Hw as [H1 H2]. cbn [steps].
  apply (Inv_cfg (step_cfg c o)). apply IH; [exact H2|].
  apply (Inv_cfg c). apply Inv_step_st; assumption.
Qed.

Lemma entries_ok_all c tok target live l : forall n e, entries_ok c tok n target live l = true -> In e l ->
  e_ms e <= target * 1000 /\ e_tok e = tok.
Proof.
  induction l as [|x l IH]; intros n e V He; [destruct He|].
  cbn [entries_ok] in V. repeat (apply andb_true_iff in V as [V ?]).
  destruct He as [<-|He]; [|eapply IH; eauto].
  split; [lia|]. apply bytes_eqb_eq. assumption.
Qed.

(* the playlist window, for every state reachable by frames / fetches / playlist calls / Close *)
Theorem playlist_window c ops tok :
  forallb op_wf ops = true ->
  let s := steps c (init c) ops in
  (length (pl s) <= 3)%nat /\
  (exists older, closed s = older ++ pl s) /\                          (* the most recent complete segments *)
  (cur s <> None -> (3 <= length (closed s))%nat -> m3u8 c tok s <> None) /\  (* served once three exist *)
  forall v, m3u8 c tok s = Some v ->
    length (v_entries v) = 3%nat /\
    v_entries v = map (entry_of c tok) (pl s) /\
    map s_seq (pl s) = [v_mseq v; v_mseq v + 1; v_mseq v + 2] /\
    view_ok c tok (live_seqs s) v = true /\
    (forall e, In e (v_entries v) -> e_ms e <= v_target v * 1000 /\ e_tok e = tok).
Proof.
  intros Hw s. pose proof (Inv_steps ops c (init c) Hw (Inv_init c)) as HI. fold s in HI.
  destruct HI as [I1 I2 I3 I3h].
  split; [apply (i_len _ I1)|]. split; [apply (i_suffix _ I1)|]. split.
  - intros Hc H3. pose proof (i_recent _ I1 Hc) as L. unfold m3u8.
    destruct (pl s) as [|g0 rest] eqn:Hp; [cbn [length] in L; lia|].
    destruct (length (g0 :: rest) <? WINDOW)%nat eqn:E; [unfold WINDOW in E; lia | discriminate].
  - intros v Hm.
    destruct (view_ok_model c tok s v I1 (Inv2_durs_ok _ I2) Hm) as (V & E & L & M).
    split; [rewrite E, map_length; exact L|]. split; [exact E|]. split; [|split; [exact V|]].
    + pose proof (i_cons _ I1) as C.
      destruct (pl s) as [|g0 [|g1 [|g2 [|g3 r]]]] eqn:Hp; try (cbn in L; lia).
      specialize (M g0 eq_refl). cbn [map consecutive] in C |- *.
      apply andb_true_iff in C as [C0 C]. apply andb_true_iff in C as [C1 C]. apply andb_true_iff in C as [C2 _].
      apply Z.eqb_eq in C0, C1, C2. rewrite M.
      assert (E1 : s_seq g1 = s_seq g0 + 1) by lia. assert (E2 : s_seq g2 = s_seq g0 + 2) by lia.
      rewrite E1, E2. reflexivity.
    + intros e He. unfold view_ok in V. apply andb_true_iff in V as [_ V]. eapply entries_ok_all; eauto.
Qed.

Theorem storage_bounded c ops :
  forallb op_wf ops = true ->
  let s := steps c (init c) ops in
  (length (pl s) <= 3)%nat /\ (length (file_seqs c s) <= 4)%nat /\
  (forall seq, fetch c seq s <> None -> In seq (live_seqs s)).
Proof.
  intros Hw s. pose proof (Inv_steps ops c (init c) Hw (Inv_init c)) as HI. fold s in HI.
  pose proof (i_len _ (inv1 _ _ HI)) as L. split; [exact L|]. split.
  - unfold file_seqs. destruct (c_mem c); [cbn; lia|].
    rewrite sort_z_length, app_length. unfold live_seqs. rewrite map_length. destruct (cur s); cbn [length]; lia.
  - intros seq Hf. unfold fetch in Hf. destruct (find_seg seq (pl s)) as [g|] eqn:E; [|congruence].
    unfold live_seqs. clear Hf L. induction (pl s) as [|x l IH]; [discriminate|].
    cbn [find_seg] in E. destruct (s_seq x =? seq) eqn:Ex; [left; cbn; lia | right; apply IH; exact E].
Qed.

(* short segments: with a fragment of at least one second nothing is ever discarded *)
Theorem short_segment_unreachable c fs : 1 <= c_frag c -> dropped (feed c fs (init c)) = [].
Proof. intros H. apply (segments_partition c fs H). Qed.

(* every listed segment not opened by the audio-driven reap (and not number 1) starts its video with a key frame
   whose elementary stream begins with AUD, SPS, PPS and a start code — the SPS/PPS being the stream's parameter
   sets that were current when that frame was packetized ([w_sps]/[w_pps]: [video_frame] records the pair of the
   configuration in force, and [steps] puts every OSetPs in force for the operations after it) *)
Theorem segment_starts_with_key c ops g :
  forallb op_wf ops = true ->
  let s := steps c (init c) ops in
  In g (pl s) -> s_seq g <> 1 -> s_aud g = false ->
  exists w, first_video (s_frames g) = Some w /\ w_key w = true /\
            is_prefix (key_header_ps (w_sps w) (w_pps w)) (w_es w) = true.
Proof.
  intros Hw s Hin Hs Ha. pose proof (Inv_steps ops c (init c) Hw (Inv_init c)) as HI. fold s in HI.
  destruct HI as [I1 I2 I3 I3h].
  assert (Hh : s_hdr g = false).
  { destruct (s_hdr g) eqn:E; [|reflexivity]. exfalso. apply Hs. apply I3h; [apply in_or_app; left; exact Hin | exact E]. }
  pose proof (I3 g ltac:(apply in_or_app; left; exact Hin) Hh Ha) as K.
  unfold key_started in K. destruct (first_video (s_frames g)) as [w|]; [|discriminate].
  apply andb_true_iff in K as [K1 K2]. exists w. repeat split; assumption.
Qed.

(* the parameter sets recorded in a written video frame are those of the configuration it was packetized under,
   and a frame operation adds no other video frame *)
Lemma video_frame_ps c f : w_sps (video_frame c f) = c_sps c /\ w_pps (video_frame c f) = c_pps c.
Proof. split; reflexivity. Qed.

Definition ps_from (c : cfg) (s0 s : st) : Prop :=
  forall g w, In g (pl s ++ curl s) -> In w (s_frames g) -> w_pid w = VPID ->
    (exists g0, In g0 (pl s0 ++ curl s0) /\ In w (s_frames g0)) \/ (w_sps w = c_sps c /\ w_pps w = c_pps c).

Lemma ps_from_flush_frame c s0 w0 s : (w_pid w0 = VPID -> w_sps w0 = c_sps c /\ w_pps w0 = c_pps c) ->
  ps_from c s0 s -> ps_from c s0 (flush_frame w0 s).
Proof.
  intros Hw H. unfold flush_frame. destruct (cur s) as [g1|] eqn:Hg; [|exact H].
  intros g w Hin Hwi Hp. unfold curl in Hin. cbn [set_cur pl cur] in Hin. unfold ps_from, curl in H. rewrite Hg in H.
  apply in_app_or in Hin. destruct Hin as [Hin|[<-|[]]].
  - eapply H; eauto. apply in_or_app. left. exact Hin.
  - cbn [seg_write s_frames] in Hwi. apply in_app_or in Hwi. destruct Hwi as [Hwi|[<-|[]]].
    + eapply (H g1); eauto. apply in_or_app. right. left. reflexivity.
    + right. apply Hw. exact Hp.
Qed.

Lemma ps_from_flush_cache c s0 s : ps_from c s0 s -> ps_from c s0 (flush_cache s).
Proof.
  intros H. unfold flush_cache. destruct (cache s) as [a|]; [|exact H].
  apply (ps_from_flush_frame c s0 (cache_frame a) s); [|exact H]. cbn. unfold APID, VPID. discriminate.
Qed.

Lemma ps_from_reap c start a s0 s g : cur s = Some g -> ps_from c s0 s -> ps_from c s0 (reap c start a s).
Proof.
  intros Hc H x w Hin Hwi Hp.
  pose proof (reap_spec c start a s g Hc) as R. cbn zeta in R.
  destruct R as (s1 & g' & CA & _ & R1 & _ & _ & _ & _ & R3 & _ & _ & R5 & _).
  unfold curl in Hin. rewrite R1, R5 in Hin. apply in_app_or in Hin. destruct Hin as [Hin|[<-|[]]].
  - destruct (closed_as_pl_in _ _ _ _ CA Hin) as [Hx| ->]; eapply H; eauto; apply in_or_app; [left; exact Hx|].
    right. unfold curl. rewrite Hc. left. reflexivity.
  - destruct (cache s) as [ca|]; destruct R3 as [E _]; rewrite E in Hwi; [|destruct Hwi].
    destruct Hwi as [<-|[]]. cbn in Hp. unfold APID, VPID in Hp. discriminate.
Qed.

Theorem write_frame_ps c f s : ps_from c s (write_frame c f s).
Proof.
  apply (write_frame_preserves (ps_from c s)).
  - intros s1 o H. exact H.
  - intros s1 b n H. exact H.
  - apply ps_from_flush_cache.
  - intros s1 g H Hg _. eapply ps_from_reap; eauto.
  - intros s1 g H Hg _. apply ps_from_flush_frame; [intros _; apply video_frame_ps | exact H].
  - intros s1 g H Hg _ _. apply ps_from_flush_frame; [intros _; apply video_frame_ps|]. eapply ps_from_reap; eauto.
  - intros g w Hin Hw _. left. exists g. split; assumption.
Qed.

(* a video-only stream never takes the audio path *)
Lemma no_audio_write_frame c f s : is_audio (f_kind f) = false ->
  (forall g, In g (pl s ++ curl s) -> s_aud g = false) ->
  (forall g, In g (pl (write_frame c f s) ++ curl (write_frame c f s)) -> s_aud g = false).
Proof.
  intros Ha H. unfold write_frame. destruct (cur s) as [g0|] eqn:Hg; [|exact H].
  destruct (f_pay f); [exact H|]. rewrite Ha.
  assert (FF : forall s1, (forall g, In g (pl s1 ++ curl s1) -> s_aud g = false) ->
               forall g, In g (pl (flush_frame (video_frame c f) s1) ++ curl (flush_frame (video_frame c f) s1)) -> s_aud g = false).
  { intros s1 H1 g Hin. unfold flush_frame in Hin. destruct (cur s1) as [g1|] eqn:Hg1; [|apply H1; exact Hin].
    unfold curl in Hin, H1. cbn [set_cur pl cur] in Hin. rewrite Hg1 in H1.
    apply in_app_or in Hin. destruct Hin as [Hin|[<-|[]]]; [apply H1, in_or_app; left; exact Hin|].
    cbn. apply H1, in_or_app. right. left. reflexivity. }
  destruct (is_key (f_kind f) && overflow c s); [|apply FF, H].
  apply FF. intros g Hin.
  pose proof (reap_spec c (f_pts f) false s g0 Hg) as R. cbn zeta in R.
  destruct R as (s1 & g' & CA & _ & R1 & _ & _ & _ & R2 & _ & _ & _ & R5 & _).
  unfold curl in Hin. rewrite R1, R5 in Hin. apply in_app_or in Hin. destruct Hin as [Hin|[<-|[]]]; [|exact R2].
  destruct (closed_as_pl_in _ _ _ _ CA Hin) as [Hx| ->]; apply H, in_or_app; [left; exact Hx|].
  right. unfold curl. rewrite Hg. left. reflexivity.
Qed.

Theorem video_only_never_audio_reap c fs :
  forallb (fun f => negb (is_audio (f_kind f))) fs = true ->
  forall g, In g (pl (feed c fs (init c))) -> s_aud g = false.
Proof.
  intros Hv.
  assert (K : forall s, (forall g, In g (pl s ++ curl s) -> s_aud g = false) ->
              forall g, In g (pl (feed c fs s) ++ curl (feed c fs s)) -> s_aud g = false).
  { induction fs as [|f fs IH]; intros s H; [exact H|].
    cbn [forallb] in Hv. apply andb_true_iff in Hv as [H1 H2]. cbn [feed]. apply IH; [exact H2|].
    apply no_audio_write_frame; [destruct (is_audio (f_kind f)); [discriminate|reflexivity] | exact H]. }
  intros g Hin. apply (K (init c)); [|apply in_or_app; left; exact Hin].
  unfold init. pose proof (segment_open_spec c 0 true false init_free eq_refl) as SO. cbn zeta in SO.
  destruct SO as (b & O1 & _ & _ & _ & _ & O6 & _). intros x Hx. unfold curl in Hx. rewrite O1, O6 in Hx.
  destruct Hx as [<-|[]]. reflexivity.
Qed.

(* ================================================================== readers *)
(* a reader handed out by the repaired memory store, or by the disk store, yields the transport stream of
   the frames of that sequence number in every later state, whatever happens to the window *)
Theorem segment_bytes_stable (tsw : list wframe -> bytes) c s seq r :
  c_copy c = true \/ c_mem c = false ->
  fetch c seq s = Some r ->
  exists g, find_seg seq (pl s) = Some g /\ forall s', read_bytes tsw r s' = tsw (s_frames g).
Proof.
  intros Hc Hf. unfold fetch in Hf. destruct (find_seg seq (pl s)) as [g|]; [|discriminate].
  exists g. split; [reflexivity|]. intros s'.
  assert (E : (c_mem c && negb (c_copy c)) = false) by (destruct Hc as [-> | ->]; [apply andb_false_r | reflexivity]).
  rewrite E in Hf. injection Hf as <-. reflexivity.
Qed.

(* D19, the code before the repair: a view of the pooled buffer.  Fragment 1 s, one key frame per second;
   (a segment is cut at every second key frame); fetch number 1 once three segments are listed, let the
   fourth segment close (number 1 leaves the window, its buffer goes back to the pool) and the fifth
   open (it takes that buffer), read: the bytes are those of segment 5.  [toy_tsw] stands for the TS writer: any function under which the
   two frame lists differ inside the common length shows the same. *)
Definition toy_tsw (fs : list wframe) : bytes := flat_map w_es fs.
Definition d19_cfg : cfg :=
  {| c_frag := 1; c_rate := 44100; c_mem := true; c_copy := false; c_path := [47; 97]; c_sps := [103]; c_pps := [104];
     c_pick := fun _ => O |}.
Definition d19_key (i : Z) : frame := {| f_kind := KK; f_pts := i * 90000; f_dts := i * 90000; f_pay := [101; i] |}.
Definition d19_before : st := feed d19_cfg (map d19_key [0; 1; 2; 3; 4; 5; 6]) (init d19_cfg).
Definition d19_after : st := feed d19_cfg (map d19_key [7; 8]) d19_before.

Theorem segment_alias_refuted :
  exists r g, fetch d19_cfg 1 d19_before = Some r /\ find_seg 1 (pl d19_before) = Some g /\
    read_bytes toy_tsw r d19_before = toy_tsw (s_frames g) /\
    read_bytes toy_tsw r d19_after <> toy_tsw (s_frames g).
Proof.
  eexists _, _. split; [vm_compute; reflexivity|]. split; [vm_compute; reflexivity|].
  split; [vm_compute; reflexivity|]. vm_compute. discriminate.
Qed.

(* D35: fragment 1 s, one key frame, then 0.2 s P-frames and audio: the audio path reaps at 2 s and the second
   segment starts its video with a P-frame *)
Definition d35_cfg : cfg :=
  {| c_frag := 1; c_rate := 44100; c_mem := true; c_copy := true; c_path := [47; 97]; c_sps := [103]; c_pps := [104];
     c_pick := fun _ => O |}.
Definition d35_gop (i : Z) : list frame :=
  [ {| f_kind := KV; f_pts := i * 18000; f_dts := i * 18000; f_pay := [65; i] |};
    {| f_kind := KA; f_pts := i * 18000 + 100; f_dts := i * 18000 + 100; f_pay := [33; i] |} ].
Definition d35_frames : list frame :=
  {| f_kind := KK; f_pts := 0; f_dts := 0; f_pay := [101; 1] |} ::
  flat_map d35_gop [1; 2; 3; 4; 5; 6; 7; 8; 9; 10; 11; 12; 13; 14; 15] ++
  [ {| f_kind := KK; f_pts := 288000; f_dts := 288000; f_pay := [101; 2] |};
    {| f_kind := KV; f_pts := 378000; f_dts := 378000; f_pay := [65; 99] |};
    {| f_kind := KK; f_pts := 396000; f_dts := 396000; f_pay := [101; 3] |} ].

Theorem long_gop_segment_refuted :
  forallb frame_wf d35_frames = true /\
  exists g, In g (pl (feed d35_cfg d35_frames (init d35_cfg))) /\ s_seq g = 2 /\ s_aud g = true /\
            starts_with_key d35_cfg (s_frames g) = false.
Proof.
  split; [vm_compute; reflexivity|].
  eexists. split; [vm_compute; right; left; reflexivity|]. vm_compute. repeat split; reflexivity.
Qed.

(* ================================================================== invariant 4: pooled buffers are exclusively owned *)
From Coq Require Import Permutation.

Definition bufs (s : st) : list Z := map s_buf (pl s) ++ map s_buf (curl s) ++ free s.
Definition Inv4 (s : st) : Prop := NoDup (bufs s) /\ forall b, In b (bufs s) -> b < nextb s.

Lemma Inv4_same s s' : bufs s' = bufs s -> nextb s' = nextb s -> Inv4 s -> Inv4 s'.
Proof. unfold Inv4. intros -> ->. auto. Qed.

Lemma bufs_flush_frame w s : bufs (flush_frame w s) = bufs s /\ nextb (flush_frame w s) = nextb s.
Proof. unfold flush_frame, bufs, curl. destruct (cur s) as [g|] eqn:Hg; cbn; rewrite ?Hg; split; reflexivity. Qed.
Lemma bufs_flush_cache s : bufs (flush_cache s) = bufs s /\ nextb (flush_cache s) = nextb s.
Proof.
  unfold flush_cache. destruct (cache s) as [a|]; [|split; reflexivity].
  destruct (bufs_flush_frame (cache_frame a) s) as [A B]. split; [exact A | exact B].
Qed.

Lemma closed_as_bufs s g s1 : cur s = Some g -> closed_as s g s1 ->
  Permutation (map s_buf (pl s1) ++ free s1) (bufs s).
Proof.
  intros Hc CA. unfold bufs, curl. rewrite Hc. cbn [map].
  destruct CA as [Hd E1 E2 E3 E4 E5 | Hd E1 E2 E3 E4 E5]; rewrite E2, E5.
  - apply Permutation_refl.
  - set (L := pl s ++ [g]). set (k := (length (pl s) + 1 - 3)%nat).
    replace (map s_buf (pl s) ++ [s_buf g] ++ free s) with (map s_buf L ++ free s)
      by (subst L; rewrite map_app, <- app_assoc; reflexivity).
    rewrite <- (firstn_skipn k L) at 3. rewrite map_app, app_assoc. apply Permutation_app_tail.
    etransitivity; [apply Permutation_app_comm|]. apply Permutation_app_tail. symmetry. apply Permutation_rev.
Qed.

Lemma nodup_app_r {A} (l l' : list A) : NoDup (l ++ l') -> NoDup l'.
Proof. induction l as [|a l IH]; cbn; [auto|]. intros N. inversion N; subst. auto. Qed.
Lemma nodup_app_l {A} (l l' : list A) : NoDup (l ++ l') -> NoDup l.
Proof.
  induction l as [|a l IH]; cbn; [constructor|]. intros N. inversion N as [|? ? Hn N']; subst.
  constructor; [intros H; apply Hn, in_or_app; left; exact H | auto].
Qed.

Lemma Inv4_reap c start a s g : cur s = Some g -> Inv4 s -> Inv4 (reap c start a s).
Proof.
  intros Hc [N B].
  pose proof (reap_spec c start a s g Hc) as R. cbn zeta in R.
  destruct R as (s1 & g' & CA & Nb & R1 & _ & _ & _ & _ & _ & _ & _ & R5 & _ & _ & _ & _ & RB).
  pose proof (closed_as_bufs s g s1 Hc CA) as P.
  assert (N1 : NoDup (map s_buf (pl s1) ++ free s1)) by (eapply Permutation_NoDup; [symmetry; exact P | exact N]).
  assert (B1 : forall b, In b (map s_buf (pl s1) ++ free s1) -> b < nextb s1).
  { intros b Hb. rewrite Nb. apply B. eapply Permutation_in; [exact P | exact Hb]. }
  unfold Inv4, bufs, curl. rewrite R1, R5. cbn [map].
  destruct RB as [(l1 & l2 & E1 & E2 & E3) | (E1 & E2 & E3)]; rewrite E2, E3.
  - assert (P2 : Permutation (map s_buf (pl s1) ++ [s_buf g'] ++ l1 ++ l2) (map s_buf (pl s1) ++ free s1)).
    { rewrite E1. apply Permutation_app_head. cbn [app]. apply Permutation_middle. }
    split; [eapply Permutation_NoDup; [symmetry; exact P2 | exact N1]|].
    intros b Hb. apply B1. eapply Permutation_in; [exact P2 | exact Hb].
  - split.
    + assert (P2 : Permutation (s_buf g' :: map s_buf (pl s1) ++ free s1) (map s_buf (pl s1) ++ [s_buf g'] ++ free s1))
        by (cbn [app]; apply Permutation_middle).
      eapply Permutation_NoDup; [exact P2|]. constructor; [|exact N1].
      intros Hin. specialize (B1 _ Hin). lia.
    + intros b Hb. apply in_app_or in Hb. destruct Hb as [Hb|[<-|Hb]].
      * specialize (B1 b (in_or_app _ _ _ (or_introl Hb))). lia.
      * lia.
      * cbn [app] in Hb. specialize (B1 b (in_or_app _ _ _ (or_intror Hb))). lia.
Qed.

Lemma Inv4_write_frame c f s : Inv4 s -> Inv4 (write_frame c f s).
Proof.
  apply write_frame_preserves.
  - intros s0 o H. exact H.
  - intros s0 b n H. exact H.
  - intros s0 H. destruct (bufs_flush_cache s0) as [A B]. eapply Inv4_same; eauto.
  - intros s0 g H Hg _. eapply Inv4_reap; eauto.
  - intros s0 g H Hg _. destruct (bufs_flush_frame (video_frame c f) s0) as [A B]. eapply Inv4_same; eauto.
  - intros s0 g H Hg _ _. destruct (bufs_flush_frame (video_frame c f) (reap c (f_pts f) false s0)) as [A B].
    eapply Inv4_same; eauto. eapply Inv4_reap; eauto.
Qed.

Lemma Inv4_init c : Inv4 (init c).
Proof.
  unfold init. pose proof (segment_open_spec c 0 true false init_free eq_refl) as SO. cbn zeta in SO.
  destruct SO as (b & O1 & _ & _ & _ & _ & O6 & _ & _ & O9).
  unfold Inv4, bufs, curl. rewrite O1, O6. cbn [map app s_buf].
  destruct O9 as [(l1 & l2 & E1 & _) | (E1 & E2 & E3)].
  - cbn in E1. destruct l1; discriminate.
  - rewrite E2, E3, E1. cbn. split; [constructor; [intros []|constructor]|]. intros x [<-|[]]. lia.
Qed.

Lemma Inv4_feed c fs : forall s, Inv4 s -> Inv4 (feed c fs s).
Proof. induction fs as [|f fs IH]; intros s H; [exact H|]. cbn [feed]. apply IH, Inv4_write_frame, H. Qed.

Lemma NoDup_map_inj {A B} (f : A -> B) l x y : NoDup (map f l) -> In x l -> In y l -> f x = f y -> x = y.
Proof.
  induction l as [|a l IH]; intros N Hx Hy E; [destruct Hx|].
  cbn [map] in N. inversion N as [|? ? Hn N']; subst.
  destruct Hx as [->|Hx], Hy as [->|Hy]; try reflexivity.
  - exfalso. apply Hn. rewrite E. apply in_map. exact Hy.
  - exfalso. apply Hn. rewrite <- E. apply in_map. exact Hx.
  - apply IH; assumption.
Qed.

(* while frames arrive: a listed segment is the only owner of its buffer, the buffer is not in the pool,
   and the buffer's bytes start with exactly the transport stream of that segment — so the copy that the
   repaired get() takes under the read lock is the segment *)
Theorem buffer_holds_segment (tsw : list wframe -> bytes) c fs g :
  let s := feed c fs (init c) in
  In g (pl s) ->
  ~ In (s_buf g) (free s) /\
  (forall g', In g' (pl s ++ curl s) -> s_buf g' = s_buf g -> g' = g) /\
  firstn (length (tsw (s_frames g))) (buffer_bytes tsw (s_buf g) s) = tsw (s_frames g).
Proof.
  intros s Hin. pose proof (Inv4_feed c fs (init c) (Inv4_init c)) as [N _]. fold s in N. unfold bufs in N.
  assert (N2 : NoDup (map s_buf (pl s ++ curl s))).
  { rewrite map_app. rewrite app_assoc in N. apply nodup_app_l in N. exact N. }
  split; [|split].
  - intros Hf. apply in_split in Hin as (l1 & l2 & E). rewrite E, map_app in N. cbn [map] in N.
    rewrite <- app_assoc in N. apply nodup_app_r in N. cbn [app] in N. inversion N as [|? ? Hn _]; subst.
    apply Hn. apply in_or_app. right. apply in_or_app. right. exact Hf.
  - intros g' Hg' E. eapply NoDup_map_inj; eauto. apply in_or_app. left. exact Hin.
  - unfold buffer_bytes, owner.
    destruct (find (fun g0 => s_buf g0 =? s_buf g) (pl s)) as [g0|] eqn:Ef.
    + apply find_some in Ef as [F1 F2]. apply Z.eqb_eq in F2.
      assert (g0 = g).
      { eapply NoDup_map_inj; [exact N2 | | | exact F2]; apply in_or_app; left; assumption. }
      subst g0. apply overlay_firstn.
    + exfalso. pose proof (find_none _ _ Ef g Hin) as K. cbn in K. rewrite Z.eqb_refl in K. discriminate.
Qed.

(* playlist -> fetch round trip in every reachable state: the URI lines of the served text are, byte for byte,
   "/streams" path "/" number ".ts" followed by "?token=" token (nothing for the empty token), one per listed
   segment in order, for EVERY token and stream path without a line feed ('%', '#', '?', '&', '=', blanks, any other
   byte); and every number so named resolves through Segment to the frames of exactly that listed segment *)
Theorem playlist_uri_roundtrip c ops tok v :
  forallb op_wf ops = true -> no_lf (c_path c) = true -> no_lf tok = true ->
  let s := steps c (init c) ops in
  m3u8 c tok s = Some v ->
  uri_lines (render v) = map (fun g => seg_uri c (s_seq g) ++ tok_suffix tok) (pl s) /\
  forall g, In g (pl s) ->
    fetch c (s_seq g) s = Some (if c_mem c && negb (c_copy c) then RAlias (s_buf g) (s_frames g) else RCopy (s_frames g)).
Proof.
  intros Hw Hp Ht s Hm. pose proof (Inv_steps ops c (init c) Hw (Inv_init c)) as HI. fold s in HI.
  split.
  - rewrite (playlist_uri_verbatim c tok s v Hp Ht Hm). unfold live_seqs. rewrite map_map. reflexivity.
  - intros g Hg. unfold fetch. rewrite (find_seg_consecutive _ _ _ (i_cons _ (inv1 _ _ HI)) Hg). reflexivity.
Qed.
