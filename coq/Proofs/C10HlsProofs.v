From Coq Require Import ZArith List Bool Lia.
From V Require Import Val Bytes C10Hls.
Import ListNotations.
Open Scope Z_scope.

Lemma overlay_firstn : forall new old, firstn (length new) (overlay new old) = new.
Proof.
  intros. unfold overlay. rewrite firstn_app, Nat.sub_diag, firstn_all. cbn. apply app_nil_r.
Qed.
