(* C19: Listener.serve over the registered matchers — which service a
   connection reaches, for every read script of the raw connection. *)
From Coq Require Import ZArith List Bool Lia.
From V Require Import Bytes BytesLemmas C19PTree C19Sniffer C19Mux C19PTreeProofs C19SnifferProofs.
Import ListNotations.
Open Scope Z_scope.

Ltac proj := cbn [sn_src sn_buf sn_rd sn_size sn_sniffing sn_lasterr sn_direct] in *.
Ltac split_all := repeat match goal with |- _ /\ _ => split end.

(* ---------- io.ReadFull under the session invariant: never panics, never runs
   out of the fuel rf_fuel provides, and what it returns extends the session's
   prefix of the stream *)
Section General.
Variable st0 : bytes.

Lemma minv_read_progress fx n s m d e s' :
  minv st0 s m -> sniffer_read fx n s = (ROk d e, s') -> (0 < n)%nat ->
  (d <> [] \/ (length (sn_src s') < length (sn_src s))%nat \/ e <> 0) /\
  (length (sn_src s') <= length (sn_src s))%nat.
Proof.
  intros (Hsn & [Hdir Hb] & Hle & Hsz & Hfull & Hm) H Hn.
  pose proof (sniffer_read_len _ _ _ _ _ H) as Hlen. split; [|exact Hlen].
  destruct s as [src buf rd size snf le dir]. proj. subst snf dir.
  unfold sniffer_read in H; proj.
  destruct (Nat.ltb rd size) eqn:E.
  - apply Nat.ltb_lt in E. specialize (Hfull E). subst size.
    rewrite Nat.leb_refl in H. injection H as <- _ _. left.
    intros C. apply (f_equal (@length Z)) in C. rewrite !firstn_length, skipn_length in C. simpl in C. lia.
  - destruct (src_read n src) as [[d0 e0] src'] eqn:ES.
    apply src_read_spec in ES as (_ & _ & _ & Hprog).
    assert (d = d0 /\ e = e0 /\ sn_src s' = src') as (-> & -> & Hs).
    { destruct (_ && _); injection H as <- <- <-; auto. }
    rewrite Hs. destruct (Hprog Hn) as [?|[?|(_ & _ & ->)]]; auto.
    right; right. unfold EOF. lia.
Qed.

Lemma read_full_minv fx : forall fuel want s m,
  minv st0 s m -> (want + length (sn_src s) + 1 <= fuel)%nat ->
  exists d e s', read_full fx fuel want s = RFOk d e s' /\ minv st0 s' (m ++ d) /\
                 (length d <= want)%nat /\ (length (sn_src s') <= length (sn_src s))%nat.
Proof.
  induction fuel as [|f IH]; intros want s m Hi Hf.
  - destruct want; [|lia]. cbn. exists [], 0, s. rewrite app_nil_r. auto.
  - destruct want as [|w].
    { cbn. exists [], 0, s. rewrite app_nil_r. auto. }
    cbn [read_full].
    destruct (sniffer_read fx (S w) s) as [r s1] eqn:ER.
    destruct (minv_read _ _ _ _ _ _ _ Hi ER) as (d & e & -> & Hi1 & Hl).
    destruct (minv_read_progress _ _ _ _ _ _ _ Hi ER ltac:(lia)) as (Hprog & Hlen).
    destruct (negb (Z.eqb e 0) || Nat.leb (S w) (length d)) eqn:Estop.
    + exists d, e, s1. auto.
    + apply orb_false_iff in Estop as [Ee El]. apply negb_false_iff, Z.eqb_eq in Ee.
      apply Nat.leb_gt in El.
      assert (S w - length d + length (sn_src s1) + 1 <= f)%nat as Hf1.
      { destruct Hprog as [Hd|[Hs|He]]; [|lia|congruence]. destruct d; [congruence|]. simpl; lia. }
      destruct (IH _ _ _ Hi1 Hf1) as (d2 & e2 & s2 & -> & Hi2 & Hl2 & Hlen2).
      exists (d ++ d2), e2, s2. rewrite app_assoc.
      split; [reflexivity|]. split; [exact Hi2|]. split; [rewrite app_length; lia | lia].
Qed.

(* Listener.serve: whatever the connection does, the result is a service whose
   table holds a prefix of the stream, or no service — never a panic *)
Lemma try_matchers_sound fx : forall tables i s d s',
  base st0 s -> tables_wf tables = true ->
  try_matchers fx i tables s = (d, s') ->
  match d with
  | DSvc j => (i <= j)%nat /\ exists t, nth_error tables (j - i) = Some t /\ any_prefix t st0 = true
  | DNone => True
  | _ => False
  end /\
  (match d with DSvc _ => sinv st0 s' [] | _ => True end).
Proof.
  induction tables as [|t ts IH]; intros i s d s' Hb Hwf H; cbn [try_matchers] in H.
  - injection H as <- <-. auto.
  - cbn [tables_wf forallb] in Hwf. apply andb_true_iff in Hwf as [Ht Hwf].
    pose proof (minv_start _ _ Hb) as Hi.
    destruct (read_full_minv fx (rf_fuel (max_depth t) (reset true s)) (max_depth t) _ _ Hi)
      as (seen & e & s2 & ERF & Hi2 & Hl & _).
    { unfold rf_fuel. lia. }
    cbv zeta in H. rewrite ERF in H.
    cbn [app] in Hi2.
    destruct (tree_match_prefix t seen) eqn:EM.
    + injection H as <- <-. split.
      * split; [lia|]. exists t. rewrite Nat.sub_diag. split; [reflexivity|].
        rewrite ptree_match_is_prefix_exists in EM by (destruct t; [discriminate | discriminate]).
        eapply any_prefix_mono; [|exact EM]. eapply minv_prefix. exact Hi2.
      * apply sinv_start. eapply minv_base. exact Hi2.
    + destruct (IH _ _ _ _ (minv_base _ _ _ Hi2) Hwf H) as (Hd & Hs).
      split; [|exact Hs]. destruct d; auto.
      destruct Hd as (Hle & t' & Hn & Hp). split; [lia|]. exists t'. split; [|exact Hp].
      replace (i0 - i)%nat with (S (i0 - S i)) by lia. exact Hn.
Qed.

End General.

Theorem mux_sound : forall fx tables sc d s',
  tables_wf tables = true -> mux_serve fx tables sc = (d, s') ->
  decision_sound tables (stream sc) d = true.
Proof.
  intros fx tables sc d s' Hwf H. unfold mux_serve in H.
  destruct (try_matchers_sound (stream sc) fx tables O _ _ _ (base_new _ sc eq_refl) Hwf H) as (Hd & _).
  destruct d; cbn; auto.
  destruct Hd as (_ & t & Hn & Hp). rewrite Nat.sub_0_r in Hn. rewrite Hn. exact Hp.
Qed.

(* a connection that never delivers a byte — silent until the sniff deadline,
   or closed at once — reaches no service *)
Lemma any_prefix_nil_false t : negb (existsb (@is_nil Z) t) = true -> any_prefix t [] = false.
Proof.
  intros H. apply negb_true_iff in H. unfold any_prefix.
  induction t as [|s t IH]; [reflexivity|]. cbn in *. destruct s; cbn in *; [discriminate|]. auto.
Qed.

(* ---------- [good]: no error before the matchers have what they need *)
Lemma stream_nil_cons it sc : stream (it :: sc) = [] -> it_data it = [] /\ stream sc = [].
Proof. cbn. intros H. apply app_eq_nil in H. exact H. Qed.

Lemma good_zero sc : good 0 sc = true.
Proof. destruct sc; reflexivity. Qed.

Lemma good_nil_stream n sc : stream sc = [] -> good n sc = true.
Proof.
  destruct sc as [|it sc]; [reflexivity|]. intros H. apply stream_nil_cons in H as [_ H].
  cbn [good]. rewrite H. cbn. rewrite orb_true_r. destruct (Nat.leb _ _); reflexivity.
Qed.

(* the head item is consumed whole *)
Lemma good_pop n it sc : good n (it :: sc) = true -> good (n - length (it_data it)) sc = true.
Proof.
  cbn [good]. destruct (Nat.leb n (length (it_data it))) eqn:E.
  - apply Nat.leb_le in E. replace (n - length (it_data it))%nat with 0%nat by lia. intros _. apply good_zero.
  - intros H. apply orb_true_iff in H as [H|H].
    + apply andb_true_iff in H as [_ H]. exact H.
    + apply good_nil_stream. destruct (stream sc); [reflexivity | discriminate].
Qed.

(* an error before [n] bytes: nothing follows *)
Lemma good_err n it sc :
  good n (it :: sc) = true -> (length (it_data it) < n)%nat -> it_err it <> 0 -> stream sc = [].
Proof.
  cbn [good]. intros H L Ee.
  assert (Nat.leb n (length (it_data it)) = false) as E by (apply Nat.leb_gt; lia). rewrite E in H.
  apply orb_true_iff in H as [H|H].
  - apply andb_true_iff in H as [H _]. apply Z.eqb_eq in H. congruence.
  - destruct (stream sc); [reflexivity | discriminate].
Qed.

Lemma good_lasterr n it sc :
  good n (it :: sc) = true -> it_err it = 0 \/ (n <= length (it_data it))%nat \/ stream sc = [].
Proof.
  cbn [good]. destruct (Nat.leb n (length (it_data it))) eqn:E.
  - apply Nat.leb_le in E. auto.
  - intros H. apply orb_true_iff in H as [H|H].
    + apply andb_true_iff in H as [H _]. apply Z.eqb_eq in H. auto.
    + right; right. destruct (stream sc); [reflexivity | discriminate].
Qed.

(* the head item is consumed in part *)
Lemma good_part n k it sc :
  good n (it :: sc) = true -> (k < length (it_data it))%nat ->
  good (n - k) ({| it_data := skipn k (it_data it); it_err := it_err it |} :: sc) = true.
Proof.
  cbn [good it_data it_err]. intros H L. rewrite skipn_length.
  destruct (Nat.leb n (length (it_data it))) eqn:E.
  - apply Nat.leb_le in E. assert (Nat.leb (n - k) (length (it_data it) - k) = true) as -> by (apply Nat.leb_le; lia).
    reflexivity.
  - apply Nat.leb_gt in E.
    assert (Nat.leb (n - k) (length (it_data it) - k) = false) as -> by (apply Nat.leb_gt; lia).
    replace (n - k - (length (it_data it) - k))%nat with (n - length (it_data it))%nat by lia. exact H.
Qed.

Lemma firstn_app_short {A} (n : nat) (a b : list A) :
  (length a <= n)%nat -> firstn n (a ++ b) = a ++ firstn (n - length a) b.
Proof. intros H. rewrite firstn_app. rewrite firstn_all2 by lia. reflexivity. Qed.

Lemma firstn_app_long {A} (n : nat) (a b : list A) :
  (n <= length a)%nat -> firstn n (a ++ b) = firstn n a.
Proof.
  intros H. rewrite firstn_app. replace (n - length a)%nat with 0%nat by lia.
  cbn. apply app_nil_r.
Qed.

Section Good.
Variable st0 : bytes.
Variable D : nat.        (* the deepest matcher *)

(* between sessions *)
Definition ginv (s : sniffer) : Prop :=
  base st0 s /\
  good (D - length (sn_buf s)) (sn_src s) = true /\
  (sn_lasterr s = 0 \/ (D <= length (sn_buf s))%nat \/ stream (sn_src s) = []).

(* ReadFull once the replay buffer is exhausted: reads of the raw connection *)
Lemma read_full_source fx : forall fuel want s,
  sn_sniffing s = true -> Nat.ltb (sn_rd s) (sn_size s) = false -> ginv s ->
  (want + length (sn_buf s) <= D)%nat ->
  (want + length (sn_src s) + 1 <= fuel)%nat ->
  exists e s', read_full fx fuel want s = RFOk (firstn want (stream (sn_src s))) e s' /\
    sn_sniffing s' = true /\ Nat.ltb (sn_rd s') (sn_size s') = false /\ ginv s' /\
    sn_buf s' = sn_buf s ++ firstn want (stream (sn_src s)).
Proof.
  induction fuel as [|f IH]; intros want s Hsn Hrd Hg Hw Hf.
  { destruct want; [|lia]. cbn. exists 0, s. rewrite app_nil_r. auto. }
  destruct want as [|w].
  { cbn. exists 0, s. rewrite app_nil_r. auto. }
  destruct Hg as ([Hdir Hb] & Hgood & Hle).
  destruct s as [src buf rd size snf le dir]. proj. subst snf dir.
  remember (S w) as want eqn:Ew.
  assert (read_full fx (S f) want {| sn_src := src; sn_buf := buf; sn_rd := rd; sn_size := size;
            sn_sniffing := true; sn_lasterr := le; sn_direct := false |} =
          let (r, s1) := sniffer_read fx want {| sn_src := src; sn_buf := buf; sn_rd := rd; sn_size := size;
            sn_sniffing := true; sn_lasterr := le; sn_direct := false |} in
          match r with
          | RPanic => RFPanic
          | ROk d e =>
              if negb (Z.eqb e 0) || Nat.leb want (length d) then RFOk d e s1
              else match read_full fx f (want - length d) s1 with
                   | RFOk d2 e2 s2 => RFOk (d ++ d2) e2 s2
                   | other => other
                   end
          end) as -> by (subst want; reflexivity).
  unfold sniffer_read; proj. rewrite Hrd. cbn [negb andb].
  destruct src as [|it sc].
  - (* script exhausted: (0, EOF) *)
    assert (src_read want [] = ([], EOF, [])) as -> by (subst want; reflexivity).
    cbn [length Nat.ltb Nat.leb andb]. cbn. rewrite firstn_nil. eexists _, _. split; [reflexivity|].
    rewrite app_nil_r. unfold ginv, base; proj. repeat split; auto.
  - assert (src_read want (it :: sc) =
            if Nat.leb (length (it_data it)) want then (it_data it, it_err it, sc)
            else (firstn want (it_data it), 0,
                  {| it_data := skipn want (it_data it); it_err := it_err it |} :: sc)) as ->
      by (subst want; reflexivity).
    cbn [stream flat_map] in *. fold (stream sc) in *.
    destruct (Nat.leb (length (it_data it)) want) eqn:Efit.
    + (* the whole item *)
      apply Nat.leb_le in Efit.
      pose proof (good_pop _ _ _ Hgood) as Hpop.
      destruct (it_data it) as [|x data] eqn:Edata.
      * (* no data *)
        cbn [length app] in *. rewrite (Nat.ltb_irrefl 0). cbn [andb].
        destruct (Z.eqb (it_err it) 0) eqn:Ee; cbn [negb orb length app].
        -- (* (0, nil): read again *)
           assert (Nat.leb want 0 = false) as -> by (apply Nat.leb_gt; lia).
           rewrite Nat.sub_0_r in *.
           set (s1 := {| sn_src := sc; sn_buf := buf; sn_rd := rd; sn_size := size;
                         sn_sniffing := true; sn_lasterr := le; sn_direct := false |}).
           assert (ginv s1) as Hg1.
           { unfold ginv, base, s1; proj. split; [auto|]. split; [exact Hpop|].
             destruct Hle as [?|[?|?]]; auto. }
           assert (want + length (sn_src s1) + 1 <= f)%nat as Hf1 by (unfold s1; proj; cbn [length] in Hf; lia).
           destruct (IH want s1 eq_refl Hrd Hg1 Hw Hf1) as (e2 & s2 & -> & H1 & H2 & H3 & H4).
           exists e2, s2. cbn [app]. auto.
        -- (* (0, err): nothing follows *)
           apply Z.eqb_neq in Ee.
           assert (stream sc = []) as Hnil.
           { eapply (good_err _ it sc); [exact Hgood | rewrite Edata; simpl; lia | exact Ee]. }
           rewrite Hnil. rewrite firstn_nil. eexists _, _. split; [reflexivity|].
           rewrite app_nil_r. unfold ginv, base; proj. split_all; auto.
           all: first [apply good_nil_stream; exact Hnil | rewrite ?Hnil; exact Hb].
      * (* data: buffered for the next matcher *)
        assert (Nat.ltb 0 (length (it_data it)) = true) as Hpos.
        { apply Nat.ltb_lt. rewrite Edata. simpl. lia. }
        rewrite <- Edata in *. clear Edata x data.
        rewrite Hpos. cbn [andb].
        destruct (negb (Z.eqb (it_err it) 0) || Nat.leb want (length (it_data it))) eqn:Estop.
        -- (* stop: error, or the buffer is full *)
           assert (firstn want (it_data it ++ stream sc) = it_data it) as ->.
           { apply orb_true_iff in Estop as [Ee|Efull].
             - apply negb_true_iff, Z.eqb_neq in Ee.
               destruct (Nat.eq_dec (length (it_data it)) want) as [El|El].
               + rewrite firstn_app_long by lia. apply firstn_all2. lia.
               + rewrite (good_err _ it sc Hgood ltac:(lia) Ee), app_nil_r. apply firstn_all2. lia.
             - apply Nat.leb_le in Efull. rewrite firstn_app_long by lia. apply firstn_all2. lia. }
           eexists _, _. split; [reflexivity|]. unfold ginv, base; proj.
           rewrite app_length. repeat split; auto.
           ++ rewrite <- app_assoc. exact Hb.
           ++ replace (D - (length buf + length (it_data it)))%nat
                with (D - length buf - length (it_data it))%nat by lia. exact Hpop.
           ++ destruct (good_lasterr _ _ _ Hgood) as [?|[?|?]]; auto. right; left. lia.
        -- (* continue *)
           apply orb_false_iff in Estop as [Ee El]. apply negb_false_iff, Z.eqb_eq in Ee.
           apply Nat.leb_gt in El.
           set (s1 := {| sn_src := sc; sn_buf := buf ++ it_data it; sn_rd := rd; sn_size := size;
                         sn_sniffing := true; sn_lasterr := it_err it; sn_direct := false |}).
           assert (ginv s1) as Hg1.
           { unfold ginv, base, s1; proj. rewrite app_length. split; [split; [reflexivity|]|split].
             - rewrite <- app_assoc. exact Hb.
             - replace (D - (length buf + length (it_data it)))%nat
                 with (D - length buf - length (it_data it))%nat by lia. exact Hpop.
             - left. exact Ee. }
           assert (want - length (it_data it) + length (sn_buf s1) <= D)%nat as Hw1
             by (unfold s1; proj; rewrite app_length; lia).
           assert (want - length (it_data it) + length (sn_src s1) + 1 <= f)%nat as Hf1
             by (unfold s1; proj; cbn [length] in Hf; lia).
           destruct (IH _ s1 eq_refl Hrd Hg1 Hw1 Hf1) as (e2 & s2 & -> & H1 & H2 & H3 & H4).
           unfold s1 in H4; proj.
           exists e2, s2. rewrite firstn_app_short by lia. split; [reflexivity|].
           rewrite H4, <- app_assoc. auto.
    + (* part of the item fills the buffer *)
      apply Nat.leb_gt in Efit.
      assert (Nat.ltb 0 (length (firstn want (it_data it))) = true) as ->.
      { apply Nat.ltb_lt. rewrite firstn_length. lia. }
      cbn [andb]. rewrite Z.eqb_refl. cbn [negb orb].
      assert (Nat.leb want (length (firstn want (it_data it))) = true) as ->.
      { apply Nat.leb_le. rewrite firstn_length. lia. }
      rewrite firstn_app_long by lia.
      eexists _, _. split; [reflexivity|]. unfold ginv, base; proj.
      rewrite app_length, firstn_length. replace (Nat.min want (length (it_data it))) with want by lia.
      repeat split; auto.
      * cbn [stream flat_map it_data]. fold (stream sc). rewrite <- Hb, <- !app_assoc. f_equal.
        rewrite app_assoc, firstn_skipn. reflexivity.
      * replace (D - (length buf + want))%nat with (D - length buf - want)%nat by lia.
        apply good_part; [exact Hgood | lia].
Qed.

(* ReadFull at the start of a session: replay buffer first, then the raw connection *)
Lemma read_full_session fx want s :
  ginv s -> (want <= D)%nat ->
  exists e s', read_full fx (rf_fuel want (reset true s)) want (reset true s) = RFOk (firstn want st0) e s' /\
               ginv s'.
Proof.
  intros Hg Hw. destruct Hg as ([Hdir Hb] & Hgood & Hle).
  destruct s as [src buf rd size snf le dir]. unfold reset, rf_fuel; proj. subst dir.
  destruct want as [|w].
  { assert (forall fuel s, read_full fx fuel 0 s = RFOk [] 0 s) as Hz by (intros [|?] ?; reflexivity).
    rewrite Hz. cbn [firstn]. eexists _, _. split; [reflexivity|]. unfold ginv, base; proj. auto. }
  remember (S w) as want eqn:Ew.
  destruct buf as [|b0 buf'] eqn:Ebuf.
  - (* nothing sniffed yet *)
    set (s1 := {| sn_src := src; sn_buf := []; sn_rd := 0; sn_size := length (@nil Z);
                  sn_sniffing := true; sn_lasterr := le; sn_direct := false |}).
    assert (ginv s1) as Hg1 by (unfold ginv, base, s1; proj; auto).
    assert (want + length (sn_buf s1) <= D)%nat as Hw1 by (unfold s1; proj; cbn [length]; lia).
    assert (want + length (sn_src s1) + 1 <= want + length src + 1)%nat as Hf1 by (unfold s1; proj; lia).
    destruct (read_full_source fx _ want s1 eq_refl eq_refl Hg1 Hw1 Hf1) as (e & s' & -> & _ & _ & Hg' & _).
    unfold s1; proj.
    cbn [app] in Hb. rewrite Hb. eexists _, _. split; [reflexivity | exact Hg'].
  - rewrite <- Ebuf in *. assert (0 < length buf)%nat as Lb by (rewrite Ebuf; simpl; lia).
    clear Ebuf b0 buf'.
    set (s0 := {| sn_src := src; sn_buf := buf; sn_rd := 0; sn_size := length buf;
                  sn_sniffing := true; sn_lasterr := le; sn_direct := false |}).
    assert (read_full fx (want + length src + 1) want s0 =
            let (r, s1) := sniffer_read fx want s0 in
            match r with
            | RPanic => RFPanic
            | ROk d e =>
                if negb (Z.eqb e 0) || Nat.leb want (length d) then RFOk d e s1
                else match read_full fx (want + length src) (want - length d) s1 with
                     | RFOk d2 e2 s2 => RFOk (d ++ d2) e2 s2
                     | other => other
                     end
            end) as ->.
    { subst want. replace (S w + length src + 1)%nat with (S (S w + length src)) by lia. reflexivity. }
    unfold sniffer_read, s0; proj.
    assert (Nat.ltb 0 (length buf) = true) as -> by (apply Nat.ltb_lt; lia).
    rewrite Nat.leb_refl, Nat.sub_0_r. cbn [skipn Nat.add]. rewrite firstn_all.
    destruct (Nat.leb want (length buf)) eqn:Efit.
    + (* the replay buffer alone fills the matcher's buffer *)
      apply Nat.leb_le in Efit.
      assert (Nat.leb want (length (firstn want buf)) = true) as ->.
      { apply Nat.leb_le. rewrite firstn_length. lia. }
      rewrite orb_true_r. rewrite <- Hb, firstn_app_long by lia.
      eexists _, _. split; [reflexivity|]. unfold ginv, base; proj. auto.
    + apply Nat.leb_gt in Efit.
      rewrite (firstn_all2 buf) by lia.
      assert (Nat.ltb (length buf) (length buf) = false) as -> by (apply Nat.ltb_irrefl).
      rewrite andb_false_r.
      assert (Nat.leb want (length buf) = false) as -> by (apply Nat.leb_gt; lia).
      rewrite orb_false_r.
      destruct (Z.eqb le 0) eqn:Ele; cbn [negb].
      * (* continue on the raw connection *)
        set (s1 := {| sn_src := src; sn_buf := buf; sn_rd := length buf; sn_size := length buf;
                      sn_sniffing := true; sn_lasterr := le; sn_direct := false |}).
        assert (ginv s1) as Hg1 by (unfold ginv, base, s1; proj; auto).
        assert (Nat.ltb (sn_rd s1) (sn_size s1) = false) as Hrd1 by (unfold s1; proj; apply Nat.ltb_irrefl).
        assert (want - length buf + length (sn_buf s1) <= D)%nat as Hw1 by (unfold s1; proj; lia).
        assert (want - length buf + length (sn_src s1) + 1 <= want + length src)%nat as Hf1 by (unfold s1; proj; lia).
        destruct (read_full_source fx _ _ s1 eq_refl Hrd1 Hg1 Hw1 Hf1) as (e & s' & -> & _ & _ & Hg' & _).
        unfold s1; proj.
        rewrite <- Hb, firstn_app_short by lia.
        eexists _, _. split; [reflexivity | exact Hg'].
      * (* the error that ended the previous sniffing is final *)
        apply Z.eqb_neq in Ele.
        destruct Hle as [?|[?|Hnil]]; [congruence | lia |].
        rewrite <- Hb, Hnil, app_nil_r, firstn_all2 by lia.
        eexists _, _. split; [reflexivity|]. unfold ginv, base; proj. repeat split; auto;
          try (rewrite Hnil, app_nil_r; reflexivity).
Qed.

Lemma try_matchers_classify fx : forall tables i s,
  ginv s -> tables_wf tables = true -> (max_depth_all tables <= D)%nat ->
  fst (try_matchers fx i tables s) = classify_from i tables st0.
Proof.
  induction tables as [|t ts IH]; intros i s Hg Hwf HD; [reflexivity|].
  cbn [tables_wf forallb] in Hwf. apply andb_true_iff in Hwf as [Ht Hwf].
  cbn [max_depth_all fold_right] in HD. fold (max_depth_all ts) in HD.
  cbn [try_matchers classify_from]. cbv zeta.
  destruct (read_full_session fx (max_depth t) s Hg ltac:(lia)) as (e & s2 & -> & Hg2).
  assert (tree_match_prefix t (firstn (max_depth t) st0) = any_prefix t st0) as ->.
  { rewrite ptree_match_is_prefix_exists by (destruct t; discriminate).
    apply any_prefix_firstn. unfold max_depth. lia. }
  destruct (any_prefix t st0); [reflexivity|].
  apply IH; auto. lia.
Qed.

End Good.

(* classification: for every read script that brings no error before the
   deepest matcher has its bytes (unless nothing follows the error), the
   listener hands the connection to the first registered table that holds a
   prefix of the client's byte stream, and closes it when there is none —
   whatever the segmentation *)
Theorem mux_classify : forall fx tables sc,
  tables_wf tables = true -> good (max_depth_all tables) sc = true ->
  fst (mux_serve fx tables sc) = classify tables (stream sc).
Proof.
  intros fx tables sc Hwf Hgood. unfold mux_serve, classify.
  apply (try_matchers_classify (stream sc) (max_depth_all tables)); auto.
  unfold ginv, base, new_sniffer; proj. cbn [length]. rewrite Nat.sub_0_r. auto.
Qed.

(* ---------- lastErr through Listener.serve *)
Lemma read_full_linv sc0 fx : forall fuel want s d e s',
  sn_sniffing s = true -> linv sc0 s -> read_full fx fuel want s = RFOk d e s' ->
  linv sc0 s' /\ sn_sniffing s' = true.
Proof.
  induction fuel as [|f IH]; intros want s d e s' Hsn Hl H.
  - destruct want; [injection H as _ _ <-; auto | discriminate].
  - destruct want as [|w]; [injection H as _ _ <-; auto|].
    cbn [read_full] in H.
    destruct (sniffer_read fx (S w) s) as [r s1] eqn:ER.
    destruct (linv_read _ _ _ _ _ _ Hsn Hl ER) as [Hl1 Hsn1].
    destruct r as [d0 e0|]; [|discriminate].
    destruct (negb (Z.eqb e0 0) || Nat.leb (S w) (length d0)).
    + injection H as _ _ <-. auto.
    + destruct (read_full fx f (S w - length d0) s1) as [d2 e2 s2| |] eqn:ERF; try discriminate.
      injection H as _ _ <-. eapply IH; eauto.
Qed.

Lemma try_matchers_final sc0 fx : forall tables i s d s',
  base (stream sc0) s -> linv sc0 s -> try_matchers fx i tables s = (d, s') ->
  match d with
  | DSvc _ => exists s2, s' = reset false s2 /\ base (stream sc0) s2 /\ linv sc0 s2
  | _ => True
  end.
Proof.
  induction tables as [|t ts IH]; intros i s d s' Hb Hl H; cbn [try_matchers] in H.
  - injection H as <- _. exact I.
  - pose proof (minv_start _ _ Hb) as Hi.
    destruct (read_full_minv (stream sc0) fx (rf_fuel (max_depth t) (reset true s)) (max_depth t) _ _ Hi)
      as (seen & e & s2 & ERF & Hi2 & _).
    { unfold rf_fuel. lia. }
    cbv zeta in H. rewrite ERF in H.
    assert (sn_sniffing (reset true s) = true) as Hsn by reflexivity.
    destruct (read_full_linv sc0 fx _ _ _ _ _ _ Hsn (linv_reset sc0 true _ Hl) ERF) as [Hl2 _].
    destruct (tree_match_prefix t seen).
    + injection H as <- <-. exists s2. split; [reflexivity|]. split; [eapply minv_base; exact Hi2 | exact Hl2].
    + eapply IH; [eapply minv_base; exact Hi2 | exact Hl2 | exact H].
Qed.

(* ---------- the oracle applied to the implementation accepts the model *)
Lemma decision_eqb_refl d : decision_eqb d d = true.
Proof. destruct d; cbn; auto using Nat.eqb_refl. Qed.

Theorem serve_model_passes : forall tables sc svc,
  tables_wf tables = true ->
  let '(d, rem0, rs) := mux_run true tables sc svc in
  ok_serve tables sc svc d (dec_closed d) (dec_handed d) rem0 rs = true.
Proof.
  intros tables sc svc Hwf. unfold mux_run.
  destruct (mux_serve true tables sc) as [d s] eqn:EM.
  pose proof (mux_sound _ _ _ _ _ Hwf EM) as Hsound.
  assert ((if good (max_depth_all tables) sc then decision_eqb d (classify tables (stream sc)) else true) = true) as Hcl.
  { destruct (good _ sc) eqn:G; [|reflexivity].
    pose proof (mux_classify true tables sc Hwf G) as Hc. rewrite EM in Hc. cbn in Hc. rewrite Hc.
    apply decision_eqb_refl. }
  unfold mux_serve in EM.
  destruct (try_matchers_sound (stream sc) true tables O _ _ _ (base_new _ sc eq_refl) Hwf EM) as (Hd & Hs).
  destruct d; try contradiction.
  - destruct (service_reads true svc s) as [rs s'] eqn:ER.
    unfold ok_serve. rewrite Hsound, Hcl. cbn [andb dec_closed dec_handed negb Nat.eqb].
    destruct (service_reads_ok (stream sc) svc _ _ _ _ Hs ER) as (Hok & _).
    destruct (try_matchers_final sc true tables O _ _ _ (base_new _ sc eq_refl) (linv_new sc) EM)
      as (s2 & -> & Hb2 & Hl2).
    pose proof (service_reads_errs_ok sc svc _ _ _ _ Hs (slinv_start sc _ Hb2 Hl2) ER) as Herr.
    unfold ok_service. cbn [length] in Hok, Herr. rewrite Hok, Herr, !andb_true_r.
    destruct Hs as (_ & Hst & _). cbn [app] in Hst. apply Nat.leb_le.
    rewrite <- Hst, app_length. unfold remaining. lia.
  - unfold ok_serve. rewrite Hsound, Hcl. reflexivity.
Qed.

(* ---------- no byte ever arrives: closed *)
Definition no_empty_string (tables : list (list bytes)) : bool :=
  forallb (fun t => negb (existsb (@is_nil Z) t)) tables.

Theorem mux_silent_closed : forall fx tables sc,
  tables_wf tables = true -> no_empty_string tables = true ->
  stream sc = [] -> fst (mux_serve fx tables sc) = DNone.
Proof.
  intros fx tables sc Hwf Hne Hnil.
  destruct (mux_serve fx tables sc) as [d s] eqn:EM.
  pose proof (mux_sound _ _ _ _ _ Hwf EM) as Hsound. rewrite Hnil in Hsound.
  destruct d; cbn in *; try discriminate; [|reflexivity].
  destruct (nth_error tables i) as [t|] eqn:En; [|discriminate].
  apply nth_error_In in En. unfold no_empty_string in Hne. rewrite forallb_forall in Hne.
  rewrite (any_prefix_nil_false t (Hne t En)) in Hsound. discriminate.
Qed.

(* ---------- the production tables against the request-line grammar *)
Lemma any_prefix_in t m rest : In m t -> any_prefix t (m ++ rest) = true.
Proof.
  intros H. unfold any_prefix. apply existsb_exists. exists m. split; [exact H|].
  apply is_prefix_app. now exists rest.
Qed.

(* method SP anything: the ten RTSP methods go to the RTSP service *)
Theorem classify_rtsp_method : forall m rest,
  In m rtsp_methods -> classify prod_tables (m ++ rest) = DSvc SVC_RTSP.
Proof.
  intros m rest H. unfold classify, prod_tables. cbn [classify_from].
  rewrite any_prefix_in; [reflexivity|].
  unfold rtsp_table. do 4 right. exact H.
Qed.

(* the eight HTTP methods other than OPTIONS go to the HTTP service *)
Theorem classify_http_method : forall m rest,
  In m http_methods_other -> classify prod_tables (m ++ SP :: rest) = DSvc SVC_HTTP.
Proof.
  intros m rest H. unfold classify, prod_tables. cbn [classify_from].
  assert (any_prefix rtsp_table (m ++ SP :: rest) = false) as ->.
  { unfold http_methods_other in H. cbn [In] in H.
    repeat (destruct H as [<-|H]; [vm_compute; reflexivity|]). contradiction. }
  rewrite any_prefix_in; [reflexivity|].
  unfold http_table. right. exact H.
Qed.

(* a byte that does not occur in [p] ends the comparison *)
Lemma is_prefix_stop p v c t :
  existsb (Z.eqb c) p = false -> is_prefix p (v ++ c :: t) = is_prefix p v.
Proof.
  revert v; induction p as [|x p IH]; intros v H; [reflexivity|].
  cbn [existsb] in H. apply orb_false_iff in H as [Hx Hp].
  destruct v as [|y v]; cbn [app is_prefix].
  - rewrite Z.eqb_sym, Hx. reflexivity.
  - rewrite IH by exact Hp. reflexivity.
Qed.

Lemma is_prefix_sep a b tgt w :
  existsb (Z.eqb SP) a = false -> existsb (Z.eqb SP) tgt = false ->
  is_prefix (a ++ SP :: b) (tgt ++ SP :: w) = bytes_eqb a tgt && is_prefix b w.
Proof.
  revert tgt; induction a as [|x a IH]; intros tgt Ha Ht.
  - destruct tgt as [|y tgt]; cbn [app is_prefix bytes_eqb].
    + rewrite Z.eqb_refl. reflexivity.
    + cbn [existsb] in Ht. apply orb_false_iff in Ht as [Hy _]. rewrite Hy. reflexivity.
  - cbn [existsb] in Ha. apply orb_false_iff in Ha as [Hx Ha].
    destruct tgt as [|y tgt]; cbn [app is_prefix bytes_eqb].
    + rewrite Z.eqb_sym, Hx. reflexivity.
    + cbn [existsb] in Ht. apply orb_false_iff in Ht as [_ Ht].
      rewrite IH by assumption. now rewrite andb_assoc.
Qed.

(* OPTIONS SP target SP version CRLF …: RTSP exactly when the target is "*" with
   an RTSP version or an rtsp:// URL; HTTP otherwise *)
Theorem classify_options : forall target version rest,
  no_sp target = true ->
  classify prod_tables (M_OPTIONS ++ SP :: target ++ SP :: version ++ CR :: LF :: rest) =
  if options_is_rtsp target version then DSvc SVC_RTSP else DSvc SVC_HTTP.
Proof.
  intros target version rest Hsp. unfold no_sp in Hsp. apply negb_true_iff in Hsp.
  unfold classify, prod_tables. cbn [classify_from].
  set (line := target ++ SP :: version ++ CR :: LF :: rest).
  assert (any_prefix http_table (M_OPTIONS ++ SP :: line) = true) as Hh.
  { apply any_prefix_in. left. reflexivity. }
  rewrite Hh.
  assert (any_prefix rtsp_table (M_OPTIONS ++ SP :: line) = options_is_rtsp target version) as ->.
  2:{ destruct (options_is_rtsp target version); reflexivity. }
  unfold any_prefix, rtsp_table. cbn [existsb].
  (* strip "OPTIONS " from the four OPTIONS entries *)
  assert (forall x, is_prefix (M_OPTIONS ++ [SP] ++ x) (M_OPTIONS ++ SP :: line) = is_prefix x line) as Hstrip.
  { intros x. change (M_OPTIONS ++ [SP] ++ x) with ((M_OPTIONS ++ [SP]) ++ x).
    change (M_OPTIONS ++ SP :: line) with ((M_OPTIONS ++ [SP]) ++ line). apply is_prefix_cancel. }
  change (M_OPTIONS ++ [SP; STAR; SP] ++ RTSP_UP) with (M_OPTIONS ++ [SP] ++ ([STAR] ++ SP :: RTSP_UP)).
  change (M_OPTIONS ++ [SP; STAR; SP] ++ RTSP_LO) with (M_OPTIONS ++ [SP] ++ ([STAR] ++ SP :: RTSP_LO)).
  rewrite !Hstrip. unfold line.
  rewrite !(is_prefix_sep [STAR]) by (reflexivity || exact Hsp).
  rewrite !(is_prefix_stop _ target SP) by reflexivity.
  rewrite !(is_prefix_stop _ version CR) by reflexivity.
  (* none of the ten methods starts with 'O' *)
  assert (forall m, In m rtsp_methods -> is_prefix m (M_OPTIONS ++ SP :: target ++ SP :: version ++ CR :: LF :: rest) = false) as Hm.
  { intros m H. unfold rtsp_methods in H. cbn [In] in H.
    repeat (destruct H as [<-|H]; [vm_compute; reflexivity|]). contradiction. }
  rewrite !Hm by (unfold rtsp_methods; cbn [In]; tauto).
  unfold options_is_rtsp. rewrite !orb_false_r.
  destruct (bytes_eqb [STAR] target); cbn [andb orb];
    destruct (is_prefix RTSP_UP version), (is_prefix RTSP_LO version),
             (is_prefix (RTSP_LO ++ COLON_SS) target), (is_prefix (RTSP_UP ++ COLON_SS) target); reflexivity.
Qed.

(* no method name at the start: neither service *)
Theorem classify_neither : forall st,
  (forall m, In m (M_OPTIONS :: rtsp_methods ++ http_methods_other) -> is_prefix m st = false) ->
  classify prod_tables st = DNone.
Proof.
  intros st H. unfold classify, prod_tables. cbn [classify_from].
  assert (forall m x, In m (M_OPTIONS :: rtsp_methods ++ http_methods_other) -> is_prefix (m ++ x) st = false) as Hx.
  { intros m x Hin. destruct (is_prefix (m ++ x) st) eqn:E; [|reflexivity].
    apply is_prefix_app_l in E. rewrite H in E by exact Hin. discriminate. }
  assert (any_prefix rtsp_table st = false) as ->.
  { unfold any_prefix, rtsp_table. cbn [existsb].
    rewrite !(Hx M_OPTIONS) by (left; reflexivity).
    rewrite !H by (cbn; tauto). reflexivity. }
  assert (any_prefix http_table st = false) as ->.
  { unfold any_prefix, http_table. cbn [existsb]. rewrite !H by (cbn; tauto). reflexivity. }
  reflexivity.
Qed.

(* at most one service, by construction: the decision is a function and the
   first matching table in registration order wins; stated for two tables that
   both match *)
Theorem classify_first_registered_wins : forall t1 t2 st,
  any_prefix t1 st = true -> classify [t1; t2] st = DSvc 0.
Proof. intros t1 t2 st H. unfold classify. cbn [classify_from]. now rewrite H. Qed.

(* ---------- loopback stream *)
Lemma prod_tables_wf : tables_wf prod_tables = true.
Proof. reflexivity. Qed.

Lemma prod_depth : max_depth_all prod_tables = 16%nat.
Proof. reflexivity. Qed.

Lemma loop_script_good head silent : good (max_depth_all prod_tables) (loop_script head silent) = true.
Proof.
  unfold loop_script. cbn [good it_data it_err].
  destruct (Nat.leb _ (length head)); [reflexivity|].
  destruct silent; [|reflexivity]. cbn [stream flat_map it_data app is_nil]. apply orb_true_r.
Qed.

Lemma loop_script_stream head silent : stream (loop_script head silent) = head.
Proof. unfold loop_script. destruct silent; cbn; now rewrite app_nil_r. Qed.

Theorem loop_model_passes : forall head fill silent,
  let '(d, handed, nrecv, eq) := loop_run head fill silent in
  ok_loop head fill silent d handed nrecv eq = true.
Proof.
  intros head fill silent. unfold loop_run.
  pose proof (mux_classify true prod_tables (loop_script head silent) prod_tables_wf (loop_script_good head silent)) as Hc.
  rewrite loop_script_stream in Hc.
  destruct (mux_serve true prod_tables (loop_script head silent)) as [d s] eqn:EM.
  pose proof (mux_sound _ _ _ _ _ prod_tables_wf EM) as Hs.
  cbn [fst] in *. unfold ok_loop. destruct d; cbn in Hs; try discriminate;
    rewrite <- Hc; cbn [decision_eqb andb Nat.eqb]; rewrite ?Nat.eqb_refl, ?Z.eqb_refl; reflexivity.
Qed.

(* with 16 bytes in the head, whatever follows (the filler) cannot change the decision *)
Theorem classify_head_decides : forall head tail,
  (15 <= length head)%nat -> classify prod_tables (head ++ tail) = classify prod_tables head.
Proof.
  intros head tail H. unfold classify, prod_tables. cbn [classify_from].
  assert (forall t, (max_len t <= 15)%nat -> any_prefix t (head ++ tail) = any_prefix t head) as Hp.
  { intros t Ht. rewrite <- (any_prefix_firstn t (head ++ tail) 15 Ht), <- (any_prefix_firstn t head 15 Ht).
    rewrite firstn_app_long by lia. reflexivity. }
  rewrite !Hp by (vm_compute; lia). reflexivity.
Qed.

(* ---------- the property's routing clause, end to end: from the raw
   connection's read script to the service, for the production registration *)
Theorem classify_spec : forall sc,
  good 16 sc = true ->
  let d := fst (mux_serve true prod_tables sc) in
  d = classify prod_tables (stream sc) /\
  (forall m rest, In m rtsp_methods -> stream sc = m ++ rest -> d = DSvc SVC_RTSP) /\
  (forall m rest, In m http_methods_other -> stream sc = m ++ SP :: rest -> d = DSvc SVC_HTTP) /\
  (forall target version rest, no_sp target = true ->
     stream sc = M_OPTIONS ++ SP :: target ++ SP :: version ++ CR :: LF :: rest ->
     d = if options_is_rtsp target version then DSvc SVC_RTSP else DSvc SVC_HTTP) /\
  ((forall m, In m (M_OPTIONS :: rtsp_methods ++ http_methods_other) -> is_prefix m (stream sc) = false) ->
     d = DNone).
Proof.
  intros sc Hg. cbv zeta.
  pose proof (mux_classify true prod_tables sc prod_tables_wf Hg) as Hc.
  split; [exact Hc|]. rewrite Hc. split_all.
  - intros m rest Hin ->. now apply classify_rtsp_method.
  - intros m rest Hin ->. now apply classify_http_method.
  - intros target version rest Hsp ->. now apply classify_options.
  - intros H. now apply classify_neither.
Qed.

(* ---------- the service behind Listener.serve gets the whole stream *)
Lemma try_matchers_len st0 fx : forall tables i s d s',
  base st0 s -> try_matchers fx i tables s = (d, s') ->
  (length (sn_src s') <= length (sn_src s))%nat.
Proof.
  induction tables as [|t ts IH]; intros i s d s' Hb H; cbn [try_matchers] in H.
  - injection H as _ <-. lia.
  - pose proof (minv_start _ _ Hb) as Hi.
    destruct (read_full_minv st0 fx (rf_fuel (max_depth t) (reset true s)) (max_depth t) _ _ Hi)
      as (seen & e & s2 & ERF & Hi2 & _ & Hl).
    { unfold rf_fuel. lia. }
    cbv zeta in H. rewrite ERF in H. cbn [reset sn_src] in Hl.
    destruct (tree_match_prefix t seen).
    + injection H as _ <-. cbn [reset sn_src]. exact Hl.
    + specialize (IH _ _ _ _ (minv_base _ _ _ Hi2) H). lia.
Qed.

Theorem mux_service_complete : forall tables sc svc i rem0 rs,
  tables_wf tables = true ->
  mux_run true tables sc svc = (DSvc i, rem0, rs) ->
  Forall (fun n => (0 < n)%nat) svc ->
  (length (stream sc) + length sc <= length svc)%nat ->
  delivered rs = stream sc.
Proof.
  intros tables sc svc i rem0 rs Hwf H Hpos Hlen. unfold mux_run in H.
  destruct (mux_serve true tables sc) as [d s] eqn:EM. unfold mux_serve in EM.
  destruct (try_matchers_sound (stream sc) true tables O _ _ _ (base_new _ sc eq_refl) Hwf EM) as (_ & Hs).
  pose proof (try_matchers_len (stream sc) true tables O _ _ _ (base_new _ sc eq_refl) EM) as Hl.
  cbn [new_sniffer sn_src] in Hl.
  destruct d; try discriminate.
  destruct (service_reads true svc s) as [rs' s'] eqn:ER. injection H as _ _ <-.
  destruct (service_reads_replay (stream sc) true svc _ _ _ _ Hs ER) as ((_ & Heq & _) & _ & _).
  cbn [app] in Heq.
  assert (todo s <= length (stream sc) + length sc)%nat as Hb.
  { destruct Hs as (_ & Hst & _). cbn [app] in Hst. apply (f_equal (@length Z)) in Hst.
    rewrite app_length in Hst. unfold todo. lia. }
  destruct (service_reads_drain (stream sc) true svc _ _ _ _ Hs Hpos ER) as [Hk|[Hp Hn]].
  - assert (todo s' = 0)%nat as Hz by lia. unfold todo in Hz.
    assert (pending s' = []) as Hp by (apply length_zero_iff_nil; lia).
    assert (stream (sn_src s') = []) as Hn by (apply length_zero_iff_nil; lia).
    rewrite Hp, Hn, !app_nil_r in Heq. exact Heq.
  - rewrite Hp, Hn in Heq. cbn in Heq. rewrite !app_nil_r in Heq. exact Heq.
Qed.

(* the same behind Listener.serve: a sniff deadline that fired while the
   matchers were reading (an error with no bytes), followed by more data, is
   not handed to the service with the replayed bytes *)
Theorem mux_sniff_timeout_not_replayed : forall tables sc svc d rem0 rs,
  tables_wf tables = true -> data_errfree sc = true ->
  mux_run true tables sc svc = (d, rem0, rs) ->
  Forall (fun e => e = 0) (replayed_errs (length (stream sc)) 0 (length (stream sc) - rem0) rs).
Proof.
  intros tables sc svc d rem0 rs Hwf Hd H.
  pose proof (serve_model_passes tables sc svc Hwf) as Hok. rewrite H in Hok.
  assert (match d with DSvc _ => True | _ => rs = [] end) as Hrs.
  { unfold mux_run in H. destruct (mux_serve true tables sc) as [d0 s0].
    destruct d0; [destruct (service_reads true svc s0)|..]; injection H as <- _ <-; exact I || reflexivity. }
  destruct d; try (rewrite Hrs; constructor).
  unfold ok_serve, ok_service in Hok.
  apply andb_true_iff in Hok as [_ Hok]. apply andb_true_iff in Hok as [_ Hok].
  apply andb_true_iff in Hok as [_ Hok].
  eapply ok_errs_replayed_zero; [apply aerr_data_errfree; exact Hd | exact Hok].
Qed.
