(* C20: what the code did before the repairs, as recorded by the harness on the unrepaired tree
   (case, observation) — each is rejected by the oracle [x_C20_ok] the check applies. *)
From Coq Require Import ZArith List Bool.
From V Require Import Val C20Pull RunC20.
Import ListNotations.
Open Scope Z_scope.

Definition vi (l : list Z) : val := VL (map VI l).
Definition wcase (cfgv : list Z) (script : list Z) : val := VL [vi cfgv; VL [VL [VI 0; vi script]]].
Definition wobs (out : Z) (reqs : list (list Z)) (mid : list Z) (again delivered : Z) (final : list Z) : val :=
  VL [VL [VI out; VL (map vi reqs); vi mid; VI again; VI delivered; vi final]].

(* D33: the camera accepts the connection, reads OPTIONS and stays silent: the requester never got
   an answer (outcome 3 = no answer within the watchdog), connection open, requester stuck *)
Lemma silent_camera_hangs_refuted :
  x_C20_ok (VL [wcase [0;3;0;0;1;1] [0;6];
                wobs 3 [[0;0;0]] [1;0;0;1] 1 0 [0;0;0;0;1]]) = VI 0 /\
  x_C20_run (wcase [0;3;0;0;1;1] [0;6]) = wobs 0 [[0;0;0]] [0;0;0;0] 1 0 [0;0;0;0;1].
Proof. split; vm_compute; reflexivity. Qed.

(* D34: a video media line without RTP formats ("m=video 0 udp 33"): index out of range in
   requestSDP, the panic reached the requester (outcome 2) and the connection stayed open *)
Lemma sdp_without_format_leaks_refuted :
  x_C20_ok (VL [wcase [0;3;2;0;1;1] [0;0;0;0;0;0];
                wobs 2 [[0;0;0];[1;0;0]] [1;0;0;0] 1 0 [0;0;0;0;1]]) = VI 0 /\
  x_C20_run (wcase [0;3;2;0;1;1] [0;0;0;0;0;0]) = wobs 0 [[0;0;0];[1;0;0]] [0;0;0;0] 1 0 [0;0;0;0;1].
Proof. split; vm_compute; reflexivity. Qed.

(* a route to rtsp://host:port (empty path) with a relative control: index out of range in
   getSetupURL, same effect; repaired code pulls the stream *)
Lemma empty_url_path_panics_refuted :
  x_C20_ok (VL [wcase [0;3;0;1;1;1] [0;0;0;0;0;0];
                wobs 2 [[0;0;0];[1;0;0]] [1;0;0;0] 1 0 [0;0;0;0;1]]) = VI 0 /\
  x_C20_run (wcase [0;3;0;1;1;1] [0;0;0;0;0;0]) =
    wobs 1 [[0;0;0];[1;0;0];[2;0;0];[2;0;1];[3;0;1]] [1;1;1;1] 1 0 [0;0;0;0;1].
Proof. split; vm_compute; reflexivity. Qed.

(* SETUP challenged with Digest and then accepted: the session id was stored with its
   ";timeout=60" parameter, so PLAY did not carry the camera's session *)
Lemma session_after_retry_refuted :
  x_C20_ok (VL [wcase [1;1;0;0;1;1] [0;0;0;2;0;0];
                wobs 1 [[0;0;0];[1;0;0];[2;0;0];[2;3;0];[3;3;0]] [1;1;1;1] 1 0 [0;0;0;0;1]]) = VI 0 /\
  x_C20_run (wcase [1;1;0;0;1;1] [0;0;0;2;0;0]) =
    wobs 1 [[0;0;0];[1;0;0];[2;0;0];[2;3;0];[3;3;1]] [1;1;1;1] 1 0 [0;0;0;0;1].
Proof. split; vm_compute; reflexivity. Qed.
