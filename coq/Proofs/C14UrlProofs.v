(* C14 — the Request-URI as a structured value: what ReadRequest's own code (the
   dangling-':' host fix) does to every URL of the grammar, and what Hostname()/Port()
   answer on the result. *)
From Coq Require Import ZArith List Bool Lia.
From Coq Require Import ZifyBool.
From V Require Import Val Bytes StrGo BytesLemmas C14RtspCodec C14RtspCodecProofs C14RtspCodecProofs2.
Import ListNotations.
Open Scope Z_scope.

(* ---------- strings.LastIndex ---------- *)
Lemma last_index_from_app c a : forall b i acc,
  last_index_from c (a ++ b) i acc = last_index_from c b (i + zlen a) (last_index_from c a i acc).
Proof.
  induction a as [|x a IH]; intros b i acc; cbn [app last_index_from].
  - rewrite zlen_nil, Z.add_0_r. reflexivity.
  - rewrite IH, zlen_cons. f_equal. lia.
Qed.
Lemma last_index_from_notin c s : forall i acc, ~ In c s -> last_index_from c s i acc = acc.
Proof.
  induction s as [|x s IH]; intros i acc N; cbn [last_index_from]; [reflexivity|].
  destruct (x =? c) eqn:E; [apply Z.eqb_eq in E; exfalso; apply N; left; exact E|].
  apply IH. intros I. apply N. right. exact I.
Qed.
Lemma last_index_from_lt c s : forall i acc, acc < i -> last_index_from c s i acc < i + zlen s.
Proof.
  induction s as [|x s IH]; intros i acc H; cbn [last_index_from]; [rewrite zlen_nil; lia|].
  rewrite zlen_cons. destruct (x =? c); [specialize (IH (i + 1) i ltac:(lia))|specialize (IH (i + 1) acc ltac:(lia))]; lia.
Qed.

Lemma last_index_notin c s : ~ In c s -> last_index c s = -1.
Proof. apply last_index_from_notin. Qed.
Lemma last_index_at c a b : ~ In c b -> last_index c (a ++ c :: b) = zlen a.
Proof.
  intros N. unfold last_index. rewrite last_index_from_app. cbn [last_index_from]. rewrite Z.eqb_refl.
  rewrite last_index_from_notin by exact N. lia.
Qed.
Lemma last_index_lt c s : last_index c s < zlen s.
Proof. unfold last_index. pose proof (last_index_from_lt c s 0 (-1) ltac:(lia)). lia. Qed.
Lemma last_index_snoc_ne c s d : d <> c -> last_index c (s ++ [d]) = last_index c s.
Proof.
  intros N. unfold last_index. rewrite last_index_from_app. cbn [last_index_from].
  replace (d =? c) with false by lia. reflexivity.
Qed.
Lemma last_index_app_notin c a b : ~ In c b -> last_index c (a ++ b) = last_index c a.
Proof. intros N. unfold last_index. rewrite last_index_from_app. apply last_index_from_notin; exact N. Qed.

(* a found last index splits the string *)
Lemma last_index_from_split c s : forall i acc k,
  last_index_from c s i acc = k -> k <> acc ->
  exists a b, s = a ++ c :: b /\ ~ In c b /\ k = i + zlen a.
Proof.
  induction s as [|x s IH]; intros i acc k H N; cbn [last_index_from] in H; [congruence|].
  destruct (x =? c) eqn:E.
  - apply Z.eqb_eq in E. subst x.
    destruct (Z.eq_dec (last_index_from c s (i + 1) i) i) as [Q|Q].
    + (* no later occurrence *)
      destruct (in_dec Z.eq_dec c s) as [I|NI].
      * exfalso. clear - I Q.
        assert (G : forall t j acc, In c t -> acc < j -> j <= last_index_from c t j acc).
        { induction t as [|y t IHs]; intros j acc In0 Hlt; [destruct In0|]. cbn [last_index_from].
          destruct (y =? c) eqn:Ey.
          - destruct (in_dec Z.eq_dec c t) as [I2|N2].
            + specialize (IHs (j + 1) j I2 ltac:(lia)). lia.
            + rewrite last_index_from_notin by exact N2. lia.
          - destruct In0 as [E0|In0]; [apply Z.eqb_neq in Ey; congruence|].
            specialize (IHs (j + 1) acc In0 ltac:(lia)). lia. }
        specialize (G s (i + 1) i I ltac:(lia)). lia.
      * exists [], s. split; [reflexivity|]. split; [exact NI|]. rewrite zlen_nil. lia.
    + destruct (IH (i + 1) i k H ltac:(lia)) as (a & b & -> & Nb & Hk).
      exists (c :: a), b. split; [reflexivity|]. split; [exact Nb|]. rewrite zlen_cons. lia.
  - destruct (IH (i + 1) acc k H N) as (a & b & -> & Nb & Hk).
    exists (x :: a), b. split; [reflexivity|]. split; [exact Nb|]. rewrite zlen_cons. lia.
Qed.
Lemma last_index_split c s : last_index c s <> -1 ->
  exists a b, s = a ++ c :: b /\ ~ In c b /\ last_index c s = zlen a.
Proof.
  intros N. destruct (last_index_from_split c s 0 (-1) (last_index c s) eq_refl N) as (a & b & E & Nb & K).
  exists a, b. split; [exact E|]. split; [exact Nb|lia].
Qed.

(* ---------- strings.TrimSuffix(h, ":") ---------- *)
Lemma trim_suffix_colon_snoc l : trim_suffix_colon (l ++ [COLON]) = l.
Proof.
  induction l as [|c l IH]; [reflexivity|].
  change ((c :: l) ++ [COLON]) with (c :: (l ++ [COLON])). cbn [trim_suffix_colon]. rewrite IH.
  destruct (l ++ [COLON]) eqn:E; [destruct l; discriminate|reflexivity].
Qed.
Lemma trim_suffix_colon_keep l d : d <> COLON -> trim_suffix_colon (l ++ [d]) = l ++ [d].
Proof.
  intros N. induction l as [|c l IH]; [cbn; replace (d =? COLON) with false by lia; reflexivity|].
  change ((c :: l) ++ [d]) with (c :: (l ++ [d])). cbn [trim_suffix_colon]. rewrite IH.
  destruct (l ++ [d]) eqn:E; [destruct l; discriminate|reflexivity].
Qed.

Lemma snoc_cases {A} (l : list A) : l = [] \/ exists l' x, l = l' ++ [x].
Proof.
  destruct l as [|a l]; [left; reflexivity|right].
  destruct (@exists_last A (a :: l) ltac:(discriminate)) as (l' & x & E). eauto.
Qed.

(* ---------- character classes ---------- *)
Lemma unreserved_not c s : forallb is_unreserved s = true -> is_unreserved c = false -> ~ In c s.
Proof. intros H Hc I. rewrite forallb_forall in H. specialize (H c I). congruence. Qed.
Lemma v6_not c s : forallb is_v6char s = true -> is_v6char c = false -> ~ In c s.
Proof. intros H Hc I. rewrite forallb_forall in H. specialize (H c I). congruence. Qed.

(* the bracketed body of an IPv6 host holds no ']' *)
Definition v6_body (a : bytes) (z : option bytes) : bytes :=
  a ++ match z with Some z => PERCENT :: z | None => [] end.
Lemma host_bytes_v6 a z : host_bytes (HV6 a z) = (LBRACK :: v6_body a z) ++ [RBRACK].
Proof. unfold host_bytes, v6_body. cbn [app]. rewrite <- app_assoc. reflexivity. Qed.
Lemma v6_body_no_rbrack a z : host_wf (HV6 a z) = true -> ~ In RBRACK (LBRACK :: v6_body a z).
Proof.
  cbn [host_wf]. rewrite !andb_true_iff. intros [[_ Ha] Hz] [I|I]; [discriminate|].
  unfold v6_body in I. apply in_app_or in I as [I|I]; [revert I; apply v6_not; [exact Ha|reflexivity]|].
  destruct z as [z|]; [|destruct I]. destruct I as [I|I]; [discriminate|].
  apply andb_true_iff in Hz as [_ Hz]. revert I. apply unreserved_not; [exact Hz|reflexivity].
Qed.

Lemma host_no_colon_name n : host_wf (HName n) = true -> ~ In COLON n /\ ~ In RBRACK n /\ ~ In LBRACK n.
Proof.
  cbn [host_wf]. rewrite andb_true_iff. intros [_ H].
  repeat split; apply unreserved_not; try exact H; reflexivity.
Qed.
Lemma digits_not c p : forallb is_digit p = true -> is_digit c = false -> ~ In c p.
Proof. intros H Hc I. rewrite forallb_forall in H. specialize (H c I). congruence. Qed.

Lemma auth_wf_parts au : auth_wf au = true ->
  host_wf (a_host au) = true /\ match a_port au with Some p => forallb is_digit p = true | None => True end.
Proof.
  unfold auth_wf. rewrite !andb_true_iff. intros [[H P] _]. split; [exact H|]. destruct (a_port au); [exact P|exact I].
Qed.

(* ---------- the host fix, exactly ---------- *)
Lemma last_rbrack_host h : host_wf h = true ->
  last_index RBRACK (host_bytes h) < zlen (host_bytes h) /\
  last_index COLON (host_bytes h) <= last_index RBRACK (host_bytes h).
Proof.
  intros W. destruct h as [n|a z].
  - destruct (host_no_colon_name n W) as (NC & NR & _). cbn [host_bytes].
    rewrite (last_index_notin _ _ NC), (last_index_notin _ _ NR). pose proof (zlen_nonneg n). lia.
  - rewrite host_bytes_v6. pose proof (v6_body_no_rbrack a z W) as NR.
    rewrite (last_index_at RBRACK (LBRACK :: v6_body a z) []) by (intros []).
    rewrite last_index_snoc_ne by discriminate. rewrite zlen_app. change (zlen [RBRACK]) with 1.
    pose proof (last_index_lt COLON (LBRACK :: v6_body a z)). lia.
Qed.

Lemma drop_empty_port_keep us h p : p <> [] ->
  drop_empty_port_au {| a_user := us; a_host := h; a_port := Some p |} = {| a_user := us; a_host := h; a_port := Some p |}.
Proof. destruct p; [congruence|reflexivity]. Qed.

Theorem host_fix_exact au : auth_wf au = true ->
  fix_host (go_host au) = go_host (drop_empty_port_au au).
Proof.
  intros W. destruct (auth_wf_parts au W) as [Wh Wp]. destruct (last_rbrack_host _ Wh) as [LR LC].
  destruct au as [us h po]. cbn [a_host a_port a_user] in *. destruct po as [p|].
  - assert (NCp : ~ In COLON p) by (apply digits_not; [exact Wp|reflexivity]).
    assert (NRp : ~ In RBRACK p) by (apply digits_not; [exact Wp|reflexivity]).
    assert (C : last_index COLON (host_bytes h ++ COLON :: p) >? last_index RBRACK (host_bytes h ++ COLON :: p) = true).
    { rewrite (last_index_at COLON _ p NCp).
      rewrite (last_index_app_notin RBRACK (host_bytes h) (COLON :: p)) by (intros [I|I]; [discriminate|contradiction]).
      lia. }
    destruct (snoc_cases p) as [->|(p' & d & ->)].
    + unfold fix_host, go_host. cbn [a_host a_port drop_empty_port_au]. rewrite C, app_nil_r.
      apply trim_suffix_colon_snoc.
    + rewrite drop_empty_port_keep by (destruct p'; discriminate).
      unfold fix_host, go_host. cbn [a_host a_port]. rewrite C.
      assert (Hd : is_digit d = true).
      { rewrite forallb_forall in Wp. apply Wp. apply in_or_app. right. left. reflexivity. }
      replace (host_bytes h ++ COLON :: p' ++ [d]) with ((host_bytes h ++ COLON :: p') ++ [d])
        by (rewrite <- app_assoc; reflexivity).
      apply trim_suffix_colon_keep. unfold is_digit, COLON in *. lia.
  - unfold fix_host, go_host. cbn [a_host a_port drop_empty_port_au]. rewrite app_nil_r.
    replace (last_index COLON (host_bytes h) >? last_index RBRACK (host_bytes h)) with false by lia. reflexivity.
Qed.

(* ReadRequest's own step on the parsed URL changes nothing but an empty port *)
Theorem fix_url_exact u : surl_wf u = true -> fix_url (gourl_of u) = gourl_of (drop_empty_port u).
Proof.
  destruct u as [|p q|sc au p q]; cbn [surl_wf]; intros W; try reflexivity.
  unfold fix_url. cbn [gourl_of drop_empty_port g_scheme g_user g_host g_path g_query].
  rewrite (host_fix_exact au W). f_equal. unfold drop_empty_port_au. destruct (a_port au) as [[|? ?]|]; reflexivity.
Qed.

(* ---------- Hostname() / Port() of the result ---------- *)
Lemma strip_brackets_name n : ~ In LBRACK n -> strip_brackets n = n.
Proof.
  destruct n as [|c n]; [reflexivity|]. intros N. cbn [strip_brackets].
  destruct (c =? LBRACK) eqn:E; [apply Z.eqb_eq in E; exfalso; apply N; left; exact E|reflexivity].
Qed.
Lemma strip_brackets_v6 a z : strip_brackets (host_bytes (HV6 a z)) = v6_body a z.
Proof.
  rewrite host_bytes_v6. cbn [app strip_brackets]. rewrite Z.eqb_refl.
  change (LBRACK :: v6_body a z ++ [RBRACK]) with ((LBRACK :: v6_body a z) ++ [RBRACK]).
  rewrite ends_with_app_last. cbn [andb]. apply removelast_last.
Qed.
Lemma host_text_body a z : host_text (HV6 a z) = v6_body a z.
Proof. reflexivity. Qed.

Lemma take_app_exact (a b : bytes) : take (zlen a) (a ++ b) = a.
Proof. apply firstn_zlen_app. Qed.

Lemma strip_host h : host_wf h = true -> strip_brackets (host_bytes h) = host_text h.
Proof.
  intros W. destruct h as [n|a z]; [|apply strip_brackets_v6].
  destruct (host_no_colon_name n W) as (_ & _ & NL). apply strip_brackets_name; exact NL.
Qed.

Theorem hostname_port_exact au : auth_wf au = true ->
  split_host_port (go_host au) = (host_text (a_host au), port_text au).
Proof.
  intros W. destruct (auth_wf_parts au W) as [Wh Wp]. destruct (last_rbrack_host _ Wh) as [LR LC].
  destruct au as [us h po]. cbn [a_host a_port a_user] in *. unfold split_host_port, go_host, port_text.
  cbn [a_host a_port]. destruct po as [p|].
  - assert (NCp : ~ In COLON p) by (apply digits_not; [exact Wp|reflexivity]).
    rewrite (last_index_at COLON _ p NCp). pose proof (zlen_nonneg (host_bytes h)).
    replace (zlen (host_bytes h) =? -1) with false by lia.
    rewrite drop_app_exact. cbn [valid_optional_port]. rewrite Z.eqb_refl, Wp. cbn [negb andb].
    rewrite take_app_exact.
    replace (host_bytes h ++ COLON :: p) with ((host_bytes h ++ [COLON]) ++ p) by (rewrite <- app_assoc; reflexivity).
    replace (zlen (host_bytes h) + 1) with (zlen (host_bytes h ++ [COLON])) by (rewrite zlen_app; reflexivity).
    rewrite drop_app_exact, strip_host by exact Wh. reflexivity.
  - rewrite app_nil_r. destruct (last_index COLON (host_bytes h) =? -1) eqn:E; cbn [negb andb].
    + rewrite strip_host by exact Wh. reflexivity.
    + (* a ':' inside the brackets: what follows it ends in ']' and is no port *)
      destruct h as [n|a z].
      { destruct (host_no_colon_name n Wh) as (NC & _). cbn [host_bytes] in E. rewrite (last_index_notin _ _ NC) in E. discriminate. }
      destruct (last_index_split COLON (host_bytes (HV6 a z)) ltac:(lia)) as (x & y & EQ & Ny & K).
      rewrite K. rewrite EQ at 1. rewrite drop_app_exact. cbn [valid_optional_port]. rewrite Z.eqb_refl. cbn [andb].
      assert (Iy : In RBRACK y).
      { rewrite host_bytes_v6 in EQ. destruct (snoc_cases y) as [->|(y' & d & ->)].
        - exfalso. apply (f_equal (@rev Z)) in EQ. rewrite !rev_app_distr in EQ. cbn in EQ. inversion EQ.
        - apply (f_equal (@rev Z)) in EQ. rewrite app_comm_cons, app_assoc, !rev_app_distr in EQ. cbn in EQ.
          inversion EQ; subst. apply in_or_app. right. left. reflexivity. }
      replace (forallb is_digit y) with false.
      2:{ symmetry. destruct (forallb is_digit y) eqn:F; [|reflexivity]. exfalso.
          revert Iy. apply digits_not; [exact F|reflexivity]. }
      rewrite strip_host by exact Wh. reflexivity.
Qed.

(* the complete statement for a request whose URL is a structured value: it is read back as
   the same URL with only an empty port dropped, and Hostname()/Port() of the result are the
   emitted host and port *)
Theorem request_url_roundtrip url q u rest :
  q_url q = gourl_of u -> surl_wf u = true -> request_wf url q = true ->
  read_request url (write_request q ++ rest) =
    Ok {| q_method := q_method q; q_url := gourl_of (drop_empty_port u); q_proto := RTSP10;
          q_hdr := norm_hdr (q_hdr q) (q_body q); q_body := q_body q |} rest /\
  match u with
  | SAbs _ au _ _ =>
      split_host_port (g_host (gourl_of (drop_empty_port u))) = (host_text (a_host au), port_text au)
  | _ => True
  end.
Proof.
  intros E W R. split.
  - rewrite (request_roundtrip url q rest R). unfold norm_request. rewrite E, (fix_url_exact u W). reflexivity.
  - destruct u as [|p qq|sc au p qq]; try exact I. cbn [surl_wf] in W.
    cbn [drop_empty_port gourl_of g_host].
    assert (W' : auth_wf (drop_empty_port_au au) = true).
    { unfold drop_empty_port_au. destruct (a_port au) as [[|? ?]|] eqn:P; try exact W.
      unfold auth_wf in *. cbn [a_host a_port a_user]. rewrite P in W. rewrite !andb_true_iff in *. tauto. }
    rewrite (hostname_port_exact _ W'). destruct au as [us h [[|? ?]|]]; reflexivity.
Qed.

(* the class of the seeded change: a fix that takes the host apart with net.SplitHostPort
   loses the brackets of an IPv6 literal with an empty port *)
Definition fix_host_split (h : bytes) : bytes :=
  let '(host, port) := split_host_port h in
  if is_nil port && ends_with COLON h then host else h.
Lemma fix_host_split_refuted :
  let au := {| a_user := None; a_host := HV6 [58; 58; 49] None; a_port := Some [] |} in
  auth_wf au = true /\ fix_host_split (go_host au) <> go_host (drop_empty_port_au au) /\
  fix_host (go_host au) = go_host (drop_empty_port_au au).
Proof. cbv zeta. split; [reflexivity|]. split; [vm_compute; discriminate|vm_compute; reflexivity]. Qed.

Theorem url_model_passes u : ok_url u (surl_print u) (gourl_of u) (fix_url (gourl_of u)) = true.
Proof.
  unfold ok_url. destruct (surl_wf u) eqn:W; [|reflexivity]. cbn [negb orb].
  rewrite (fix_url_exact u W), bytes_eqb_refl, !gourl_eqb_refl. reflexivity.
Qed.

(* ---------- the pull client's URL ---------- *)
Lemma existsb_colon_in h : existsb (Z.eqb COLON) h = true <-> In COLON h.
Proof.
  rewrite existsb_exists. split.
  - intros (x & I & E). apply Z.eqb_eq in E. subst. exact I.
  - intros I. exists COLON. split; [exact I|apply Z.eqb_refl].
Qed.

Theorem pull_host_exact au : auth_wf au = true -> v6_colon (a_host au) = true ->
  pull_host_gen true (go_host au) = go_host (pull_norm_au au).
Proof.
  intros W V. unfold pull_host_gen. rewrite (hostname_port_exact au W).
  destruct (auth_wf_parts au W) as [Wh _].
  destruct au as [us h po]. unfold port_text, go_host, pull_norm_au. cbn [a_host a_port a_user] in *.
  assert (J : join_host_port (host_text h) PORT554 = host_bytes h ++ COLON :: PORT554).
  { unfold join_host_port. destruct h as [n|a z].
    - destruct (host_no_colon_name n Wh) as (NC & _). cbn [host_text host_bytes].
      destruct (existsb (Z.eqb COLON) n) eqn:E; [apply existsb_colon_in in E; contradiction|reflexivity].
    - cbn [v6_colon] in V. apply existsb_colon_in in V.
      replace (existsb (Z.eqb COLON) (host_text (HV6 a z))) with true.
      2:{ symmetry. apply existsb_colon_in. cbn [host_text]. apply in_or_app. left. exact V. }
      rewrite host_bytes_v6, host_text_body. cbn [app]. rewrite <- app_assoc. reflexivity. }
  destruct po as [[|d p]|]; cbn [is_nil]; try rewrite J; reflexivity.
Qed.

Theorem pull_url_exact u : pull_wf u = true -> pull_url (gourl_of u) = gourl_of (pull_norm u).
Proof.
  destruct u as [|p q|sc au p q]; cbn [pull_wf]; try discriminate. rewrite andb_true_iff. intros [W V].
  unfold pull_url. cbn [gourl_of pull_norm g_scheme g_user g_host g_path g_query].
  rewrite (pull_host_exact au W V). reflexivity.
Qed.

(* the request the pull client emits carries that URL and ReadRequest leaves it alone *)
Theorem pull_model_passes u :
  ok_pull u (pull_url (gourl_of u)) (fix_url (pull_url (gourl_of u))) = true.
Proof.
  unfold ok_pull. destruct (pull_wf u) eqn:W; [|reflexivity]. cbn [negb orb].
  rewrite (pull_url_exact u W).
  assert (F : fix_url (gourl_of (pull_norm u)) = gourl_of (pull_norm u)).
  { destruct u as [|p q|sc au p q]; cbn [pull_wf] in W; try discriminate. apply andb_true_iff in W as [W V].
    assert (W' : surl_wf (pull_norm (SAbs sc au p q)) = true).
    { cbn [pull_norm surl_wf]. unfold auth_wf, pull_norm_au in *. cbn [a_host a_port a_user].
      rewrite !andb_true_iff in *. destruct W as [[H P] _]. split; [split; [exact H|]|reflexivity].
      destruct (a_port au) as [[|d p']|]; try reflexivity; exact P. }
    rewrite (fix_url_exact _ W'). cbn [pull_norm drop_empty_port]. f_equal.
    unfold drop_empty_port_au, pull_norm_au. cbn [a_port]. destruct (a_port au) as [[|d p']|]; reflexivity. }
  rewrite F, !gourl_eqb_refl. reflexivity.
Qed.

(* before the repair the brackets of an IPv6 host without a port were lost *)
Lemma pull_host_refuted :
  let au := {| a_user := None; a_host := HV6 [58; 58; 49] None; a_port := None |} in
  auth_wf au = true /\ v6_colon (a_host au) = true /\
  pull_host_gen false (go_host au) <> go_host (pull_norm_au au) /\
  pull_host_gen true (go_host au) = go_host (pull_norm_au au).
Proof. cbv zeta. repeat split; vm_compute; try reflexivity; discriminate. Qed.
