(* C12 — concurrent sessions do not influence each other's responses *)
From Coq Require Import ZArith List Bool Lia Arith.
From V Require Import Val Bytes StrGo BytesLemmas C12RtspSession C12Multi.
Import ListNotations.
Open Scope Z_scope.

Lemma nth_upd_same : forall {A} i (x d : A) l, (i < length l)%nat -> nth i (upd i x l) d = x.
Proof.
  intros A i. induction i as [|i IH]; intros x d l Hi; destruct l as [|h t]; cbn in *; try lia; [reflexivity|].
  apply IH. lia.
Qed.
Lemma nth_upd_other : forall {A} i j (x d : A) l, i <> j -> nth j (upd i x l) d = nth j l d.
Proof.
  intros A i. induction i as [|i IH]; intros j x d l Hij; destruct l as [|h t]; cbn; try reflexivity.
  - destruct j; [congruence | reflexivity].
  - destruct j; [reflexivity | apply IH; congruence].
Qed.
Lemma upd_length : forall {A} i (x : A) l, length (upd i x l) = length l.
Proof. intros A i. induction i; intros x [|h t]; cbn; auto. Qed.

(* what client i sees in ANY interleaved history is the single-session run of its own requests *)
Lemma mexpect_is_own_run : forall e sids h ss i,
  (i < length ss)%nat ->
  mexpect sids h (mrun e ss h) i =
  expect_session (nth i sids []) (own i h) (srun e (nth i ss sess_dflt) (own i h)).
Proof.
  intros e sids h. induction h as [|[j q] h IH]; intros ss i Hi; [reflexivity|].
  cbn [mrun]. destruct (step e (nth j ss sess_dflt) q) as [[s' rs] fs] eqn:Hs.
  cbn [mexpect]. unfold own. cbn [filter fst]. destruct (Nat.eqb j i) eqn:E.
  - apply Nat.eqb_eq in E. subst j. cbn [map snd srun]. rewrite Hs. cbn [expect_session].
    f_equal. rewrite (IH (upd i s' ss) i) by (rewrite upd_length; exact Hi).
    rewrite nth_upd_same by exact Hi. reflexivity.
  - apply Nat.eqb_neq in E. cbn [app].
    rewrite (IH (upd j s' ss) i) by (rewrite upd_length; exact Hi).
    rewrite nth_upd_other by exact E. reflexivity.
Qed.

Definition resp_of (i : nat) (out : list (nat * list response)) : list (list response) :=
  map snd (filter (fun x => Nat.eqb (fst x) i) out).

(* the responses themselves: projection of the interleaved run = run of the own requests *)
Theorem sessions_independent : forall e h ss i,
  (i < length ss)%nat ->
  resp_of i (mrun e ss h) = srun e (nth i ss sess_dflt) (own i h).
Proof.
  intros e h. induction h as [|[j q] h IH]; intros ss i Hi; [reflexivity|].
  cbn [mrun]. destruct (step e (nth j ss sess_dflt) q) as [[s' rs] fs] eqn:Hs.
  unfold resp_of, own. cbn [filter fst]. destruct (Nat.eqb j i) eqn:E.
  - apply Nat.eqb_eq in E. subst j. cbn [map snd srun]. rewrite Hs. f_equal.
    fold (resp_of i (mrun e (upd i s' ss) h)). rewrite IH by (rewrite upd_length; exact Hi).
    rewrite nth_upd_same by exact Hi. reflexivity.
  - apply Nat.eqb_neq in E. fold (resp_of i (mrun e (upd j s' ss) h)).
    rewrite IH by (rewrite upd_length; exact Hi). rewrite nth_upd_other by exact E. reflexivity.
Qed.

(* the only shared part is the environment; requests other than DESCRIBE / SETUP / PLAY do not even
   look at the stream registry behind it *)
Theorem step_ignores_registry : forall e e' s q,
  (forall i, e_sdp e i = e_sdp e' i) ->
  q_meth q <> MDescribe -> q_meth q <> MSetup -> q_meth q <> MPlay ->
  step e s q = step e' s q.
Proof.
  intros e e' s q Hsdp Hd Hs Hp. unfold step, step_gen.
  destruct (s_closed s); [reflexivity|].
  destruct (q_meth q) eqn:Hm; try reflexivity; try congruence.
  destruct (negb (legal_go (s_status s) MAnnounce)); [reflexivity|].
  unfold do_announce. rewrite Hsdp. reflexivity.
Qed.

Lemma mresp_eqb_refl : forall r, mresp_eqb r r = true.
Proof.
  intros r. unfold mresp_eqb. rewrite Z.eqb_refl, !bytes_eqb_refl. destruct (mr_body r); reflexivity.
Qed.
Lemma list_eqb_refl_m : forall l, list_eqb mresp_eqb l l = true.
Proof. induction l; cbn; [reflexivity | rewrite mresp_eqb_refl, IHl; reflexivity]. Qed.

Lemma ok_sessions_model : forall e h ss sids out ss2 sids2 k,
  out = mrun e ss h ->
  length sids2 = length ss2 -> (k + length ss2 = length ss)%nat ->
  (forall j, (j < length ss2)%nat ->
      nth j ss2 sess_dflt = nth (k + j) ss sess_dflt /\ nth j sids2 [] = nth (k + j) sids []) ->
  ok_sessions e k ss2 sids2 h (map (mexpect sids h out) (seq k (length ss2))) = true.
Proof.
  intros e h ss sids out ss2. induction ss2 as [|s ss2 IH]; intros sids2 k Ho Hl Hk Hn.
  - destruct sids2; [reflexivity | discriminate].
  - destruct sids2 as [|sid sids2]; [discriminate|]. cbn [length seq map ok_sessions].
    destruct (Hn O ltac:(cbn; lia)) as [Hs Hsid]. cbn [nth] in Hs, Hsid. rewrite Nat.add_0_r in Hs, Hsid.
    subst out. rewrite (mexpect_is_own_run e sids h ss k) by (cbn in Hk; lia).
    subst s sid. rewrite list_eqb_refl_m. cbn [andb].
    apply IH; [reflexivity | cbn in Hl; lia | cbn in Hk; lia |].
    intros j Hj. destruct (Hn (S j) ltac:(cbn; lia)) as [A B]. cbn [nth] in A, B.
    replace (S k + j)%nat with (k + S j)%nat by lia. split; assumption.
Qed.

(* the oracle accepts the model's own multi-session observation, for every interleaving *)
Theorem multi_model_passes : forall e ss sids h,
  length sids = length ss -> distinct sids = true -> forallb (fun x => negb (bytes_eqb x [])) sids = true ->
  ok_multi e ss sids h (mobserve e ss sids h) = true.
Proof.
  intros e ss sids h Hl Hd Hn. unfold ok_multi, mobserve. rewrite Hd, Hn. cbn [andb].
  apply (ok_sessions_model e h ss sids (mrun e ss h) ss sids 0); auto.
Qed.
