(* C01 — several multicast players of one stream.
   The stream's multicast proxy sends what it is handed to the group while it runs; it runs while
   its member list is not empty (AddMember appends, ReleaseMember removes, the last one leaving
   stops it).  A player hears the group between its own join and its own leave.
   Theorem: with every member on record, what player i receives is a function of the publishes and
   of its OWN joins and leaves only.  [record_all = false] is the code before fix f25ada3 (only the
   member that starts the proxy is recorded): refuted. *)
From Coq Require Import List Bool Arith Lia.
Import ListNotations.

Section Mcast.
Variable P : Type.                      (* a packet as sent to the group *)

Inductive mev := MJoin (i : nat) | MLeave (i : nat) | MPub (p : P).

Record mst := { ms_members : list nat; ms_listen : nat -> bool; ms_recv : nat -> list P }.

Definition mupd {A} (f : nat -> A) (i : nat) (v : A) : nat -> A := fun j => if Nat.eqb i j then v else f j.
Definition is_nil {A} (l : list A) : bool := match l with [] => true | _ => false end.

Definition mstep (record_all : bool) (s : mst) (e : mev) : mst :=
  match e with
  | MJoin i =>
      if ms_listen s i then s else
      {| ms_members := if record_all || is_nil (ms_members s) then ms_members s ++ [i] else ms_members s;
         ms_listen := mupd (ms_listen s) i true; ms_recv := ms_recv s |}
  | MLeave i =>
      if ms_listen s i then
        {| ms_members := filter (fun j => negb (Nat.eqb i j)) (ms_members s);
           ms_listen := mupd (ms_listen s) i false; ms_recv := ms_recv s |}
      else s
  | MPub p =>
      if is_nil (ms_members s) then s else
      {| ms_members := ms_members s; ms_listen := ms_listen s;
         ms_recv := fun j => if ms_listen s j then ms_recv s j ++ [p] else ms_recv s j |}
  end.

Definition mrun (record_all : bool) (evs : list mev) (s : mst) : mst := fold_left (mstep record_all) evs s.
Definition minit : mst := {| ms_members := []; ms_listen := fun _ => false; ms_recv := fun _ => [] |}.

(* what player i is owed: the publishes between its own joins and leaves *)
Fixpoint own (i : nat) (listening : bool) (evs : list mev) : list P :=
  match evs with
  | [] => []
  | MJoin j :: r => own i (if Nat.eqb j i then true else listening) r
  | MLeave j :: r => own i (if Nat.eqb j i then false else listening) r
  | MPub p :: r => if listening then p :: own i listening r else own i listening r
  end.

(* every listener is on record *)
Definition minv (s : mst) : Prop := forall j, ms_listen s j = true -> In j (ms_members s).

Lemma minv_step : forall s e, minv s -> minv (mstep true s e).
Proof.
  intros s [i|i|p] H; simpl.
  - destruct (ms_listen s i) eqn:E; [exact H|]. intros j Hj. simpl in *. unfold mupd in Hj.
    apply in_or_app. destruct (Nat.eqb i j) eqn:Eij.
    + right. apply Nat.eqb_eq in Eij. subst. left. reflexivity.
    + left. apply H. exact Hj.
  - destruct (ms_listen s i) eqn:E; [|exact H]. intros j Hj. simpl in *. unfold mupd in Hj.
    destruct (Nat.eqb i j) eqn:Eij; [discriminate|]. apply filter_In. split; [apply H; exact Hj|].
    rewrite Eij. reflexivity.
  - destruct (is_nil (ms_members s)); [exact H|]. exact H.
Qed.

Lemma members_run : forall evs s i, minv s ->
  ms_recv (mrun true evs s) i = ms_recv s i ++ own i (ms_listen s i) evs.
Proof.
  induction evs as [|e evs IH]; intros s i H; simpl.
  - rewrite app_nil_r. reflexivity.
  - unfold mrun in *. simpl. rewrite (IH _ i (minv_step s e H)). destruct e as [j|j|p]; simpl.
    + destruct (ms_listen s j) eqn:E; simpl.
      * destruct (Nat.eqb j i) eqn:Eji; [apply Nat.eqb_eq in Eji; subst; rewrite E|]; reflexivity.
      * unfold mupd. destruct (Nat.eqb j i); reflexivity.
    + destruct (ms_listen s j) eqn:E; simpl.
      * unfold mupd. destruct (Nat.eqb j i); reflexivity.
      * destruct (Nat.eqb j i) eqn:Eji; [apply Nat.eqb_eq in Eji; subst; rewrite E|]; reflexivity.
    + destruct (ms_members s) as [|m ms] eqn:Em; simpl.
      * destruct (ms_listen s i) eqn:E; [|reflexivity]. specialize (H i E). rewrite Em in H. contradiction.
      * destruct (ms_listen s i); [rewrite <- app_assoc|]; reflexivity.
Qed.

(* what member i receives depends only on the publishes and on its own join/leave events *)
Theorem multicast_members_independent : forall evs i,
  ms_recv (mrun true evs minit) i = own i false evs.
Proof. intros evs i. rewrite members_run; [reflexivity|]. intros j Hj. discriminate. Qed.

Definition touches (i : nat) (e : mev) : bool :=
  match e with MJoin j | MLeave j => Nat.eqb j i | MPub _ => true end.

Lemma own_filter : forall i evs b, own i b (filter (touches i) evs) = own i b evs.
Proof.
  induction evs as [|[j|j|p] evs IH]; intros b; simpl; try reflexivity.
  - destruct (Nat.eqb j i) eqn:E; simpl; rewrite ?E; apply IH.
  - destruct (Nat.eqb j i) eqn:E; simpl; rewrite ?E; apply IH.
  - destruct b; rewrite IH; reflexivity.
Qed.

(* ... so deleting every other player's joins and leaves from the history changes nothing for i *)
Theorem multicast_other_members_invisible : forall evs i,
  ms_recv (mrun true evs minit) i = ms_recv (mrun true (filter (touches i) evs) minit) i.
Proof. intros. rewrite !multicast_members_independent, own_filter. reflexivity. Qed.
End Mcast.

(* only the first member on record (the code before f25ada3): player 1 stays in PLAY but hears
   nothing once player 0, who started the proxy, has left *)
Example first_member_only_refuted :
  let evs := [MJoin nat 0; MJoin nat 1; MPub nat 7; MLeave nat 0; MPub nat 8; MPub nat 9] in
  ms_recv nat (mrun nat false evs (minit nat)) 1 = [7] /\
  own nat 1 false evs = [7; 8; 9] /\
  ms_recv nat (mrun nat true evs (minit nat)) 1 = [7; 8; 9].
Proof. vm_compute. repeat split. Qed.
