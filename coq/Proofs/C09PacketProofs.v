(* C09 — one transport packet: the writer's packet (all three stuffing shapes)
   parses back to header fields and payload, for every length *)
From Coq Require Import ZArith List Bool Lia ZifyBool.
From V Require Import Bytes BytesLemmas C09TsFrame C09TsWriter C09TsDemux C09BitLemmas C09CodecProofs.
Import ListNotations.
Open Scope Z_scope.
Ltac Zify.zify_post_hook ::= Z.div_mod_to_equations.

(* ---- lengths ---- *)
Lemma zlen_cons x (s : bytes) : zlen (x :: s) = 1 + zlen s.
Proof. unfold zlen. cbn [length]. lia. Qed.
Lemma zlen_nil : zlen [] = 0. Proof. reflexivity. Qed.
Lemma zlen_take n (s : bytes) : 0 <= n -> zlen (take n s) = Z.min n (zlen s).
Proof. intros. unfold zlen, take. rewrite firstn_length. lia. Qed.
Lemma zlen_drop n (s : bytes) : 0 <= n -> zlen (drop n s) = Z.max 0 (zlen s - n).
Proof. intros. unfold zlen, drop. rewrite skipn_length. lia. Qed.
Lemma take_drop n (s : bytes) : s = take n s ++ drop n s.
Proof. unfold take, drop. symmetry. apply firstn_skipn. Qed.
Lemma zlen_repeat b n : 0 <= n -> zlen (repeat_byte b n) = n.
Proof. intros. unfold zlen, repeat_byte. rewrite repeat_length. lia. Qed.
Lemma take_all n (s : bytes) : zlen s <= n -> take n s = s.
Proof. intros. unfold take. apply firstn_all2. unfold zlen in *. lia. Qed.
Lemma drop_all n (s : bytes) : zlen s <= n -> drop n s = [].
Proof. intros. unfold drop. apply skipn_all2. unfold zlen in *. lia. Qed.
Lemma zlen_0_nil (s : bytes) : zlen s = 0 -> s = [].
Proof. destruct s; [reflexivity | rewrite zlen_cons; pose proof (zlen_nonneg s); lia]. Qed.

Lemma take_app_n n (a b : bytes) : n = zlen a -> take n (a ++ b) = a.
Proof. intros ->. apply take_app_exact. Qed.
Lemma drop_app_n n (a b : bytes) : n = zlen a -> drop n (a ++ b) = b.
Proof. intros ->. apply drop_app_exact'. Qed.

Lemma len188 (p : bytes) : zlen p = 188 -> Nat.eqb (length p) N188 = true.
Proof. intros H. apply Nat.eqb_eq. unfold N188, zlen in *. lia. Qed.

(* ---- header ---- *)
Lemma parse_packet_plain pid cc first X : 0 <= pid < 8192 -> zlen X = 184 ->
  parse_packet (hdr4_a pid cc first false ++ X) =
  Some {| k_pusi := first; k_pid := pid; k_cc := cc mod 16; k_rai := false; k_pcr := None;
          k_aflen := -1; k_payload := X |}.
Proof.
  intros Hp HX. unfold parse_packet.
  rewrite len188 by (rewrite zlen_app; unfold hdr4_a; rewrite !zlen_cons, zlen_nil; lia).
  unfold hdr4_a. cbn [app negb].
  set (b1 := pid / 256 + (if first then 64 else 0)).
  set (b3 := 16 + cc mod 16 + 0).
  assert (Hb1 : b1 / 128 = 0 /\ b1 mod 32 = pid / 256 /\ b1 / 64 mod 2 = if first then 1 else 0)
    by (subst b1; destruct first; lia).
  assert (Hb3 : b3 / 64 = 0 /\ b3 / 16 mod 4 = 1 /\ b3 mod 16 = cc mod 16) by (subst b3; lia).
  destruct Hb1 as (E1 & E2 & E3). destruct Hb3 as (E4 & E5 & E6).
  rewrite E1, E2, E3, E4, E5, E6.
  change (71 =? 71) with true. change (0 =? 0) with true. change (1 =? 1) with true. cbn [andb negb].
  replace (pid / 256 * 256 + pid mod 256) with pid by lia.
  destruct first; reflexivity.
Qed.

Lemma parse_packet_adapt pid cc first X : 0 <= pid < 8192 -> zlen X = 184 ->
  parse_packet (hdr4_a pid cc first true ++ X) = parse_af first pid (cc mod 16) X.
Proof.
  intros Hp HX. unfold parse_packet.
  rewrite len188 by (rewrite zlen_app; unfold hdr4_a; rewrite !zlen_cons, zlen_nil; lia).
  unfold hdr4_a. cbn [app negb].
  set (b1 := pid / 256 + (if first then 64 else 0)).
  set (b3 := 16 + cc mod 16 + 32).
  assert (Hb1 : b1 / 128 = 0 /\ b1 mod 32 = pid / 256 /\ b1 / 64 mod 2 = if first then 1 else 0)
    by (subst b1; destruct first; lia).
  assert (Hb3 : b3 / 64 = 0 /\ b3 / 16 mod 4 = 3 /\ b3 mod 16 = cc mod 16) by (subst b3; lia).
  destruct Hb1 as (E1 & E2 & E3). destruct Hb3 as (E4 & E5 & E6).
  rewrite E1, E2, E3, E4, E5, E6.
  change (71 =? 71) with true. change (0 =? 0) with true. change (3 =? 1) with false.
  change (3 =? 3) with true. cbn [andb negb].
  replace (pid / 256 * 256 + pid mod 256) with pid by lia.
  destruct first; reflexivity.
Qed.

(* ---- the three adaptation-field shapes the writer produces ---- *)
Lemma parse_af_pcr pusi pid cc v gap payload :
  zlen gap <= 175 ->
  parse_af pusi pid cc ((7 + zlen gap) :: 80 :: pcr6 v ++ gap ++ payload) =
  Some {| k_pusi := pusi; k_pid := pid; k_cc := cc; k_rai := true; k_pcr := Some (v mod M33);
          k_aflen := 7 + zlen gap; k_payload := payload |}.
Proof.
  intros Hg. pose proof (zlen_nonneg gap) as Hg0. unfold parse_af.
  replace ((0 <=? 7 + zlen gap) && (7 + zlen gap <=? 182)) with true by lia. cbn [negb].
  assert (El : 7 + zlen gap = zlen (80 :: pcr6 v ++ gap)).
  { rewrite zlen_cons, zlen_app. change (zlen (pcr6 v)) with 6. lia. }
  replace (80 :: pcr6 v ++ gap ++ payload) with ((80 :: pcr6 v ++ gap) ++ payload)
    by (cbn [app]; rewrite <- app_assoc; reflexivity).
  rewrite (take_app_n _ _ _ El), (drop_app_n _ _ _ El).
  change (80 mod 16 =? 0) with true. change (80 / 64 mod 2 =? 1) with true.
  change (80 / 16 mod 2 =? 1) with true. cbn [negb].
  replace (7 + zlen gap <? 7) with false by lia.
  change 6%nat with (length (pcr6 v)). rewrite firstn_app_len.
  rewrite pcr6_ext, pcr6_base. reflexivity.
Qed.

Lemma parse_af_zero pusi pid cc payload :
  parse_af pusi pid cc (0 :: payload) =
  Some {| k_pusi := pusi; k_pid := pid; k_cc := cc; k_rai := false; k_pcr := None;
          k_aflen := 0; k_payload := payload |}.
Proof. reflexivity. Qed.

Lemma parse_af_stuff pusi pid cc l payload :
  1 <= l <= 182 ->
  parse_af pusi pid cc (l :: 0 :: repeat_byte 255 (l - 1) ++ payload) =
  Some {| k_pusi := pusi; k_pid := pid; k_cc := cc; k_rai := false; k_pcr := None;
          k_aflen := l; k_payload := payload |}.
Proof.
  intros Hl. unfold parse_af.
  replace ((0 <=? l) && (l <=? 182)) with true by lia. cbn [negb].
  assert (El : l = zlen (0 :: repeat_byte 255 (l - 1))).
  { rewrite zlen_cons, zlen_repeat by lia. lia. }
  replace (0 :: repeat_byte 255 (l - 1) ++ payload) with ((0 :: repeat_byte 255 (l - 1)) ++ payload)
    by reflexivity.
  rewrite (take_app_n _ _ _ El), (drop_app_n _ _ _ El).
  reflexivity.
Qed.

(* ---- WriteMpegtsFrame's packet, all shapes ---- *)
Definition is_some {A} (o : option A) : bool := match o with Some _ => true | None => false end.

Definition kpkt (first : bool) (pid cc : Z) (pcr : option Z) (aflen : Z) (payload : bytes) : tspkt :=
  {| k_pusi := first; k_pid := pid; k_cc := cc mod 16; k_rai := is_some pcr;
     k_pcr := match pcr with Some v => Some (v mod M33) | None => None end;
     k_aflen := aflen; k_payload := payload |}.

Lemma ts_packet_spec pid cc first pcr ph data :
  0 <= pid < 8192 -> zlen ph <= 19 -> data <> [] ->
  exists chunk aflen,
    data = chunk ++ snd (ts_packet pid cc first pcr ph data) /\ chunk <> [] /\
    zlen (fst (ts_packet pid cc first pcr ph data)) = 188 /\
    parse_packet (fst (ts_packet pid cc first pcr ph data)) = Some (kpkt first pid cc pcr aflen (ph ++ chunk)).
Proof.
  intros Hp Hph Hd.
  pose proof (zlen_nonneg ph) as Hph0. pose proof (zlen_nonneg data) as Hd0.
  assert (Hd1 : 1 <= zlen data).
  { destruct data; [congruence | rewrite zlen_cons; pose proof (zlen_nonneg data); lia]. }
  unfold ts_packet. rewrite !hdr4_arith by lia.
  destruct pcr as [v |].
  - (* key frame: 8-byte adaptation field with PCR already written *)
    rewrite !write_pcr_arith.
    change (zlen ([7; 80] ++ pcr6 v)) with 8.
    set (body := 188 - (4 + 8 + zlen ph)).
    assert (Hb : 157 <= body <= 176) by (subst body; lia).
    rewrite zlen_take by lia.
    destruct (body <=? Z.min body (zlen data)) eqn:E; cbn [fst snd].
    + (* full packet *)
      exists (take body data), 7.
      assert (Hc : zlen (take body data) = body) by (rewrite zlen_take by lia; lia).
      split; [apply take_drop |]. split; [intros Hnil; rewrite Hnil, zlen_nil in Hc; lia |].
      split.
      * rewrite !zlen_app. unfold hdr4_a. rewrite !zlen_cons, zlen_nil.
        change (zlen (pcr6 v)) with 6. lia.
      * rewrite parse_packet_adapt; [| lia |].
        2:{ rewrite !zlen_app, !zlen_cons, zlen_nil. change (zlen (pcr6 v)) with 6. lia. }
        cbn [app].
        pose proof (parse_af_pcr first pid (cc mod 16) v [] (ph ++ take body data)) as H.
        rewrite zlen_nil in H. cbn [app] in H. change (7 + 0) with 7 in H.
        rewrite H by lia. reflexivity.
    + (* last packet: the field grows by stuffSize *)
      set (stuff := body - Z.min body (zlen data)).
      assert (Hs : 1 <= stuff <= 175 /\ stuff = body - zlen data) by (subst stuff; lia).
      destruct Hs as (Hs & Hs').
      exists data, (7 + stuff).
      split; [rewrite app_nil_r; reflexivity |]. split; [exact Hd |].
      set (gap := take stuff (ph ++ repeat_byte 0 188)).
      assert (Hg : zlen gap = stuff).
      { subst gap. rewrite zlen_take by lia. rewrite zlen_app, zlen_repeat by lia. lia. }
      rewrite u8_mod. replace ((7 + stuff) mod 256) with (7 + stuff) by lia.
      split.
      * rewrite !zlen_app. unfold hdr4_a. rewrite !zlen_cons, zlen_nil.
        change (zlen (pcr6 v)) with 6. lia.
      * rewrite parse_packet_adapt; [| lia |].
        2:{ rewrite !zlen_app, !zlen_cons, zlen_nil. change (zlen (pcr6 v)) with 6. lia. }
        cbn [app]. rewrite <- Hg.
        rewrite parse_af_pcr by lia. reflexivity.
  - (* no adaptation field yet *)
    rewrite zlen_nil.
    set (body := 188 - (4 + 0 + zlen ph)).
    assert (Hb : 165 <= body <= 184) by (subst body; lia).
    rewrite zlen_take by lia.
    destruct (body <=? Z.min body (zlen data)) eqn:E; cbn [fst snd].
    + exists (take body data), (-1).
      assert (Hc : zlen (take body data) = body) by (rewrite zlen_take by lia; lia).
      split; [apply take_drop |]. split; [intros Hnil; rewrite Hnil, zlen_nil in Hc; lia |].
      cbn [app].
      split.
      * rewrite !zlen_app. unfold hdr4_a. rewrite !zlen_cons, zlen_nil. lia.
      * rewrite parse_packet_plain; [reflexivity | lia |].
        rewrite !zlen_app. lia.
    + set (stuff := body - Z.min body (zlen data)).
      assert (Hs : 1 <= stuff <= 183 /\ stuff = body - zlen data) by (subst stuff; lia).
      destruct Hs as (Hs & Hs').
      exists data, (stuff - 1).
      split; [rewrite app_nil_r; reflexivity |]. split; [exact Hd |].
      rewrite u8_mod. replace ((stuff - 1) mod 256) with (stuff - 1) by lia.
      destruct (2 <=? stuff) eqn:E2.
      * split.
        -- rewrite !zlen_app. unfold hdr4_a. rewrite !zlen_cons, zlen_nil, zlen_repeat by lia. lia.
        -- rewrite parse_packet_adapt; [| lia |].
           2:{ rewrite !zlen_app, !zlen_cons, zlen_nil, zlen_repeat by lia. lia. }
           cbn [app].
           replace (stuff - 2) with (stuff - 1 - 1) by lia.
           rewrite parse_af_stuff by lia. reflexivity.
      * assert (stuff = 1) by lia. subst stuff.
        split.
        -- rewrite !zlen_app. unfold hdr4_a. rewrite !zlen_cons, zlen_nil. lia.
        -- rewrite parse_packet_adapt; [| lia |].
           2:{ rewrite !zlen_app, !zlen_cons, zlen_nil. lia. }
           cbn [app]. replace (body - Z.min body (zlen data) - 1) with 0 by lia.
           rewrite parse_af_zero. reflexivity.
Qed.
