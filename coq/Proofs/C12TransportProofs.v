(* C12 — RTPTransport.ParseTransport (model): the error verdict is exactly the order-independent
   specification [transport_invalid]: an error raised by one parameter is never cleared by a later one *)
From Coq Require Import ZArith List Bool Lia Permutation.
From V Require Import Bytes StrGo BytesLemmas C12RtspSession.
Import ListNotations.
Open Scope Z_scope.
Import C12Lit.

Lemma tok_bad_unicast : forall tcp, tok_bad tcp k_unicast = false.
Proof. intros []; vm_compute; reflexivity. Qed.

Lemma is_range_key_mode : is_range_key k_mode = false.
Proof. vm_compute. reflexivity. Qed.

Lemma append_not_multicast : bytes_eqb k_append k_multicast = false.
Proof. vm_compute. reflexivity. Qed.

(* one token: the error flag only grows, by exactly the token's own fault; TCP-ness never changes *)
Lemma tok_step_err : forall t e tok,
  let tcp := ttype_eqb (t_type t) TTcp in
  snd (tok_step (t, e) tok) = e || tok_bad tcp tok /\
  ttype_eqb (t_type (fst (tok_step (t, e) tok))) TTcp = tcp.
Proof.
  intros t e tok tcp. subst tcp. unfold tok_step.
  destruct (bytes_eqb tok k_unicast && ttype_eqb (t_type t) TMcast) eqn:Hu.
  - apply andb_true_iff in Hu. destruct Hu as [Ht Hm].
    apply bytes_eqb_eq in Ht. subst tok. rewrite tok_bad_unicast, orb_false_r. cbn.
    destruct (t_type t); try discriminate. split; reflexivity.
  - destruct (bytes_eqb tok k_multicast && ttype_eqb (t_type t) TTcp) eqn:Hm.
    + unfold tok_bad. rewrite Hm. cbn. rewrite orb_true_r. split; reflexivity.
    + destruct (bytes_eqb tok k_append) eqn:Ha.
      * unfold tok_bad. rewrite Hm, Ha. cbn. rewrite orb_false_r. split; reflexivity.
      * unfold tok_bad. rewrite Hm, Ha. destruct (pair_scan tok) as [k v].
        destruct (bytes_eqb k k_mode) eqn:Hk.
        -- apply bytes_eqb_eq in Hk. subst k. rewrite is_range_key_mode. cbn. rewrite orb_false_r.
           split; reflexivity.
        -- fold (is_range_key k). destruct (is_range_key k); cbn; [|rewrite orb_false_r]; split; reflexivity.
Qed.

Lemma fold_tok_err : forall toks t e,
  snd (fold_left tok_step toks (t, e)) = e || existsb (tok_bad (ttype_eqb (t_type t) TTcp)) toks.
Proof.
  induction toks as [|tok toks IH]; intros t e; cbn [fold_left existsb]; [rewrite orb_false_r; reflexivity|].
  destruct (tok_step_err t e tok) as [He Ht].
  destruct (tok_step (t, e) tok) as [t1 e1] eqn:Hs. cbn [fst snd] in *.
  rewrite IH, Ht, He. rewrite orb_assoc. reflexivity.
Qed.

(* ParseTransport fails exactly on the invalid headers, whatever transport state it starts from *)
Theorem parse_transport_err_is_spec : forall t0 ts,
  snd (parse_transport t0 ts) = transport_invalid ts.
Proof.
  intros t0 ts. unfold parse_transport, transport_invalid.
  destruct (cut 59 ts) as [[spec0 rest]|]; [|reflexivity].
  destruct (bytes_eqb (trim_space spec0) k_avp_tcp).
  - rewrite fold_tok_err. reflexivity.
  - destruct (bytes_eqb (trim_space spec0) k_avp || bytes_eqb (trim_space spec0) k_avp_udp).
    + rewrite fold_tok_err. reflexivity.
    + reflexivity.
Qed.

Lemma existsb_perm : forall {A} (f : A -> bool) l l', Permutation l l' -> existsb f l = existsb f l'.
Proof.
  intros A f l l' H. induction H; cbn; try congruence.
  - rewrite !orb_assoc, (orb_comm (f y)). reflexivity.
Qed.

(* order independence of the error: any rearrangement of the parameters gives the same verdict —
   in particular a well-formed parameter after a malformed one does not clear the error *)
Theorem transport_error_order_independent : forall toks toks' t e,
  Permutation toks toks' ->
  snd (fold_left tok_step toks (t, e)) = snd (fold_left tok_step toks' (t, e)).
Proof. intros. rewrite !fold_tok_err. f_equal. apply existsb_perm. assumption. Qed.

Theorem transport_error_is_sticky : forall toks1 bad toks2 t e,
  tok_bad (ttype_eqb (t_type t) TTcp) bad = true ->
  snd (fold_left tok_step (toks1 ++ bad :: toks2) (t, e)) = true.
Proof.
  intros. rewrite fold_tok_err, existsb_app. cbn. rewrite H. rewrite !orb_true_r. reflexivity.
Qed.

(* non-vacuity: a fault is a fault wherever it stands *)
Module C12TrEx.
Import Coq.Strings.String.
Definition bad_then_ttl : bytes := Eval compute in bs "RTP/AVP/TCP;unicast;interleaved=a-b;ttl=16".
Definition ttl_then_bad : bytes := Eval compute in bs "RTP/AVP/TCP;ttl=16;unicast;interleaved=a-b".
Definition mc_on_tcp : bytes := Eval compute in bs "RTP/AVP/TCP;multicast;interleaved=0-1;ttl=16".
Definition bad_port : bytes := Eval compute in bs "RTP/AVP;unicast;client_port=none;ttl=16;destination=1.2.3.4;mode=play".
Definition good : bytes := Eval compute in bs "RTP/AVP/TCP;unicast;interleaved=0-1;ttl=16".
End C12TrEx.

Lemma transport_examples :
  transport_invalid C12TrEx.bad_then_ttl = true /\ transport_invalid C12TrEx.ttl_then_bad = true /\
  transport_invalid C12TrEx.mc_on_tcp = true /\ transport_invalid C12TrEx.bad_port = true /\
  transport_invalid C12TrEx.good = false /\
  parse_transport {| t_mode := MdPlay; t_type := TUnknown |} C12TrEx.good = ({| t_mode := MdPlay; t_type := TTcp |}, false).
Proof. vm_compute. repeat split. Qed.
