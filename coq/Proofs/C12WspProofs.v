(* C12 — proofs about the WSP session model (Model/C12Wsp.v) *)
From Coq Require Import ZArith List Bool Lia.
From V Require Import Bytes StrGo BytesLemmas C12RtspSession C12TransportProofs C12RtspProofs C12Wsp.
Import ListNotations.
Open Scope Z_scope.

(* the string-level functions play no role in the automaton proofs *)
Local Opaque canonical_path parse_transport ctl_match.

Ltac break_hyp :=
  match goal with
  | H : context [match ?x with _ => _ end] |- _ => destruct x eqn:?
  end.

Ltac wopen :=
  unfold wstep, wstep_orig, wstep_gen, wrtsp_step, wdo_play, wdo_describe, wdo_setup, wready_of, wset_play, live in *.

(* ---------------------------------------------------------------- one response per request *)
Lemma wone_response_per_request : forall e s rq s' rs fs,
  w_closed s = false -> wanswerable s (rq_cmd rq) = true ->
  wstep e s rq = (s', rs, fs) ->
  exists r, rs = [r] /\ wp_seq r = rq_seq rq /\
    match rq_cmd rq with
    | CWrap q => wp_code r = 200 /\
                 exists rr, wp_rtsp r = Some rr /\ rs_cseq rr = wq_cseq q /\ rs_sess rr = true
    | _ => wp_rtsp r = None
    end.
Proof.
  intros e s rq s' rs fs Hc Ha. unfold wstep, wstep_gen. rewrite Hc.
  destruct (rq_cmd rq) eqn:Hcmd; cbn in Ha; try discriminate;
    try (apply negb_true_iff in Ha); rewrite ?Ha; cbn [negb andb].
  - intro H; inv_pairs. eexists; repeat split.
  - intro H; inv_pairs. eexists; repeat split.
  - destruct (wrtsp_step true e s q) as [[s1 c] fs1].
    destruct (is_wteardown (wq_meth q)); intro H; inv_pairs;
      (eexists; split; [reflexivity | split; [reflexivity | split; [reflexivity|]]]);
      eexists; repeat split.
  - destruct (mine && w_inited s && true); intro H; inv_pairs; eexists; repeat split.
Qed.

(* ---------------------------------------------------------------- what one wrapped request can do *)
Definition wnext_ready (st : wstatus) : wstatus := match st with WInit => WReady | x => x end.

(* everything but the transport, which a refused SETUP may leave changed (ParseTransport) *)
Definition wsame_core (s s' : wsess) : Prop :=
  w_status s' = w_status s /\ w_held s' = w_held s /\ w_paused s' = w_paused s /\
  w_vctl s' = w_vctl s /\ w_actl s' = w_actl s.

Lemma wrtsp_spec : forall e s q s' c fs,
  wrtsp_step true e s q = (s', c, fs) ->
  (* never touched by a request *)
  (w_path s' = w_path s /\ w_inited s' = w_inited s /\ w_closed s' = w_closed s /\ w_joined s' = w_joined s) /\
  code_class c <> 0 /\
  (wlegal (w_status s) (wq_meth q) = false -> s' = s /\ c = 455 /\ fs = []) /\
  (c = 455 -> wlegal (w_status s) (wq_meth q) = false) /\
  (is_2xx c = false -> wsame_core s s' /\ fs = [] /\ wq_meth q <> WmTeardown) /\
  (is_2xx c = true -> c = 200 /\
     match wq_meth q with
     | WmOptions | WmTeardown => s' = s /\ fs = []
     | WmDescribe => w_status s = WInit /\ w_status s' = WInit /\ w_held s' = w_held s /\
                     w_paused s' = w_paused s /\ fs = []
     | WmSetup => w_status s' = wnext_ready (w_status s) /\ w_held s' = w_held s /\ w_paused s' = w_paused s /\
                  w_vctl s' = w_vctl s /\ w_actl s' = w_actl s /\ fs = [] /\
                  exists v, w_vctl s = CtlOk v /\ v <> []
     | WmPlay => w_status s' = WPlaying /\ w_paused s' = false /\ w_vctl s' = w_vctl s /\ w_actl s' = w_actl s /\
                 ((w_status s = WPlaying /\ w_held s' = w_held s /\ fs = []) \/
                  (w_status s = WReady /\
                   ((w_held s = HNone /\ exists p, w_held s' = HCons p /\ fs = [EAttach p]) \/
                    (w_held s <> HNone /\ w_held s' = w_held s /\ fs = []))))
     | WmPause => w_status s = WPlaying /\ s' = wset_paused s true /\ fs = []
     | _ => False
     end).
Proof.
  intros e s q s' c fs. wopen. unfold wsame_core.
  destruct (w_status s) eqn:Hst; destruct (wq_meth q) eqn:Hm; cbn [wlegal_go wlegal negb];
  repeat break_goal; intro; repeat break_match; inv_pairs; cbn in *;
  repeat match goal with
  | H : bytes_eqb _ [] = false |- _ => apply bytes_eqb_neq in H
  end.
  all: try (split; [solve [auto]|]). all: try (split; [discriminate|]).
  all: (split; [intro; try discriminate; auto|]); (split; [intro; try discriminate; auto|]).
  all: (split; [intro; try discriminate; repeat split; auto; try discriminate|]).
  all: intro H2x; first [discriminate H2x | (split; [reflexivity|])]; auto 10.
  all: try (repeat split; auto; try (rewrite Hst; reflexivity); eexists; split; eauto; fail).
  all: try (repeat split; auto; right; split; auto; left; split; auto; eexists; split; reflexivity).
  all: try (repeat split; auto; right; split; auto; right; repeat split; auto; discriminate).
  all: congruence.
Qed.

(* a SETUP is answered 2xx only when its Transport header is valid *)
Lemma wrtsp_setup_valid : forall e s q s' c fs,
  wrtsp_step true e s q = (s', c, fs) -> wq_meth q = WmSetup -> is_2xx c = true ->
  transport_invalid (wq_transport q) = false.
Proof.
  intros e s q s' c fs Hr Hm H2. unfold wrtsp_step in Hr. rewrite Hm in Hr.
  destruct (negb (wlegal_go true (w_status s) WmSetup)); [inversion Hr; subst; discriminate H2|].
  destruct (wdo_setup s q) as [s1 c1] eqn:Hd. inversion Hr; subst; clear Hr.
  unfold wdo_setup, wready_of in Hd.
  repeat break_match; inv_pairs; try discriminate H2;
  match goal with
  | H : parse_transport (w_tr s) (wq_transport q) = (_, false) |- _ =>
      rewrite <- (parse_transport_err_is_spec (w_tr s) (wq_transport q)), H; reflexivity
  end.
Qed.

Lemma is_wteardown_true : forall m, is_wteardown m = true <-> m = WmTeardown.
Proof. destruct m; cbn; split; intro; try discriminate; reflexivity. Qed.
Lemma is_wteardown_false : forall m, is_wteardown m = false <-> m <> WmTeardown.
Proof. destruct m; cbn; split; intro; try discriminate; try congruence; reflexivity. Qed.

(* a WRAP on an established channel: the RTSP step, answered once; TEARDOWN then ends the channel *)
Lemma wstep_wrap : forall e s rq q s' rs fs,
  w_closed s = false -> w_inited s = true -> rq_cmd rq = CWrap q ->
  wstep e s rq = (s', rs, fs) ->
  exists s1 c fs1, wrtsp_step true e s q = (s1, c, fs1) /\
     rs = [wanswer 200 rq (Some (wresp c q))] /\
     (wq_meth q = WmTeardown -> s' = wclosed_of s1 /\ fs = fs1 ++ [ERelease (w_held s1); EClose]) /\
     (wq_meth q <> WmTeardown -> s' = s1 /\ fs = fs1).
Proof.
  intros e s rq q s' rs fs Hc Hi Hcmd. unfold wstep, wstep_gen. rewrite Hcmd, Hc, Hi. cbn [negb].
  destruct (wrtsp_step true e s q) as [[s1 c] fs1].
  destruct (is_wteardown (wq_meth q)) eqn:Ht; intro H; inv_pairs; do 3 eexists;
    (split; [reflexivity | split; [reflexivity|]]).
  - apply is_wteardown_true in Ht. split; [auto | congruence].
  - apply is_wteardown_false in Ht. split; [congruence | auto].
Qed.

(* ---------------------------------------------------------------- derived statements *)
Lemma willegal_is_refused_noop : forall e s rq q,
  w_closed s = false -> w_inited s = true -> rq_cmd rq = CWrap q ->
  wlegal (w_status s) (wq_meth q) = false ->
  wstep e s rq = (s, [wanswer 200 rq (Some (wresp 455 q))], []).
Proof.
  intros e s rq q Hc Hi Hcmd Hl. destruct (wstep e s rq) as [[s' rs] fs] eqn:Hs.
  destruct (wstep_wrap _ _ _ _ _ _ _ Hc Hi Hcmd Hs) as [s1 [c [fs1 [Hr [-> [_ Hnt]]]]]].
  destruct (wrtsp_spec _ _ _ _ _ _ Hr) as [_ [_ [Hill _]]].
  destruct (Hill Hl) as [-> [-> ->]].
  assert (Hm : wq_meth q <> WmTeardown) by (intro E; rewrite E in Hl; destruct (w_status s); discriminate).
  destruct (Hnt Hm) as [-> ->]. reflexivity.
Qed.

(* the messages that end the channel: TEARDOWN, and anything the protocol does not allow there *)
Definition wends (s : wsess) (c : wcmd) : bool :=
  match c with
  | CDataJoin _ => false
  | CWrap q => if w_inited s then is_wteardown (wq_meth q) else true
  | CSwitch => negb (w_inited s)
  | CInit | CGetInfo => w_inited s
  | CCtlJoin => true
  end.

(* a consumer is attached only by a PLAY answered 200 in state ready; nothing is ever published;
   release and close happen only when the channel ends *)
Lemma weffects_only_on_success : forall e s rq s' rs fs f,
  w_closed s = false -> wstep e s rq = (s', rs, fs) -> In f fs ->
  match f with
  | EAttach p => exists q, rq_cmd rq = CWrap q /\ wq_meth q = WmPlay /\
                 rs = [wanswer 200 rq (Some (wresp 200 q))] /\ w_inited s = true /\
                 w_status s = WReady /\ w_status s' = WPlaying /\ w_held s' = HCons p
  | ERegister _ => False
  | ERelease h => h = w_held s /\ w_inited s = true /\ wends s (rq_cmd rq) = true /\ w_closed s' = true
  | EClose => wends s (rq_cmd rq) = true /\ w_closed s' = true
  end.
Proof.
  intros e s rq s' rs fs f Hc Hs Hin.
  destruct (rq_cmd rq) eqn:Hcmd.
  1-3,5-6: unfold wstep, wstep_gen in Hs; rewrite Hcmd, ?Hc in Hs; cbn [negb] in Hs;
    destruct (w_inited s) eqn:Hi; cbn [negb andb] in Hs; repeat break_hyp; inv_pairs; cbn in Hin;
    repeat (destruct Hin as [<- | Hin]); try destruct Hin; cbn; rewrite ?Hi; auto.
  destruct (w_inited s) eqn:Hi.
  - destruct (wstep_wrap _ _ _ _ _ _ _ Hc Hi Hcmd Hs) as [s1 [c [fs1 [Hr [-> [Htd Hnt]]]]]].
    destruct (wrtsp_spec _ _ _ _ _ _ Hr) as [_ [_ [_ [_ [Href Hacc]]]]].
    destruct (is_2xx c) eqn:H2.
    + destruct (Hacc eq_refl) as [-> Hm]. destruct (wq_meth q) eqn:Hme; try (destruct Hm; fail).
      * destruct Hm as [-> ->]. destruct (Hnt ltac:(discriminate)) as [-> ->]. destruct Hin.
      * destruct Hm as [_ [_ [_ [_ ->]]]]. destruct (Hnt ltac:(discriminate)) as [-> ->]. destruct Hin.
      * destruct Hm as [_ [_ [_ [_ [_ [-> _]]]]]]. destruct (Hnt ltac:(discriminate)) as [-> ->]. destruct Hin.
      * destruct (Hnt ltac:(discriminate)) as [-> ->].
        destruct Hm as [Hst' [_ [_ [_ [[_ [_ ->]] | [Hrdy [[_ [p [Hh ->]]] | [_ [_ ->]]]]]]]]]; try (destruct Hin; fail).
        destruct Hin as [<- | []]. exists q. repeat split; auto.
      * destruct Hm as [_ [-> ->]]. destruct (Hnt ltac:(discriminate)) as [-> ->]. destruct Hin.
      * destruct Hm as [-> ->]. destruct (Htd eq_refl) as [-> ->]. cbn in Hin.
        destruct Hin as [<- | [<- | []]]; cbn; rewrite ?Hi, ?Hme; auto.
    + destruct (Href eq_refl) as [_ [-> Hm]]. destruct (Hnt Hm) as [-> ->]. destruct Hin.
  - unfold wstep, wstep_gen in Hs. rewrite Hcmd, Hc, Hi in Hs. cbn in Hs. inv_pairs.
    destruct Hin as [<- | []]. cbn. rewrite Hi. auto.
Qed.

Lemma wteardown_releases : forall e s rq q,
  w_closed s = false -> w_inited s = true -> rq_cmd rq = CWrap q -> wq_meth q = WmTeardown ->
  wstep e s rq = (wclosed_of s, [wanswer 200 rq (Some (wresp 200 q))], [ERelease (w_held s); EClose]).
Proof.
  intros e s rq q Hc Hi Hcmd Hm. unfold wstep, wstep_gen, wrtsp_step. rewrite Hcmd, Hc, Hi, Hm. reflexivity.
Qed.

Lemma wdisconnect_releases : forall s,
  w_closed s = false -> w_inited s = true ->
  wdisconnect s = (wclosed_of s, [ERelease (w_held s); EClose]).
Proof. intros s Hc Hi. unfold wdisconnect. rewrite Hc, Hi. reflexivity. Qed.

Lemma wclosed_holds_nothing : forall s ext w,
  w_closed (wclosed_of s) = true /\ w_held (wclosed_of s) = HNone /\ wflows (wclosed_of s) = false /\
  reg_no_self (registry ext (w_held (wclosed_of s)) w) = true.
Proof. intros. cbn. repeat split. apply reg_no_self_none. Qed.

Lemma wteardown_or_disconnect_releases : forall e s rq q,
  w_closed s = false -> w_inited s = true ->
  (rq_cmd rq = CWrap q -> wq_meth q = WmTeardown ->
     wstep e s rq = (wclosed_of s, [wanswer 200 rq (Some (wresp 200 q))], [ERelease (w_held s); EClose])) /\
  wdisconnect s = (wclosed_of s, [ERelease (w_held s); EClose]) /\
  (forall ext w, w_closed (wclosed_of s) = true /\ w_held (wclosed_of s) = HNone /\
                 wflows (wclosed_of s) = false /\
                 reg_no_self (registry ext (w_held (wclosed_of s)) w) = true).
Proof.
  intros e s rq q Hc Hi. split; [intros; apply wteardown_releases; assumption|].
  split; [apply wdisconnect_releases; assumption | intros; apply wclosed_holds_nothing].
Qed.

(* a closed channel answers nothing on the control side and does nothing *)
Lemma wclosed_is_silent : forall e s rq,
  w_closed s = true -> (forall b, rq_cmd rq <> CDataJoin b) -> wstep e s rq = (s, [], []).
Proof.
  intros e s rq Hc Hn. unfold wstep, wstep_gen. rewrite Hc.
  destruct (rq_cmd rq); try reflexivity. exfalso. eapply Hn. reflexivity.
Qed.

(* after any refused request the channel is usable: still open, same status, holdings, pause and
   data channel, no effect, and the next message is answered exactly once *)
Lemma wusable_after_refusal : forall e s rq q s' c fs,
  w_closed s = false -> w_inited s = true -> rq_cmd rq = CWrap q ->
  wstep e s rq = (s', [wanswer 200 rq (Some (wresp c q))], fs) -> is_2xx c = false ->
  w_closed s' = false /\ w_inited s' = true /\ w_status s' = w_status s /\ w_held s' = w_held s /\
  w_paused s' = w_paused s /\ w_joined s' = w_joined s /\ fs = [] /\
  forall rq2, wanswerable s' (rq_cmd rq2) = true ->
    exists r, snd (fst (wstep e s' rq2)) = [r] /\ wp_seq r = rq_seq rq2 /\
      match rq_cmd rq2 with
      | CWrap q2 => wp_code r = 200 /\
                    exists rr, wp_rtsp r = Some rr /\ rs_cseq rr = wq_cseq q2 /\ rs_sess rr = true
      | _ => wp_rtsp r = None
      end.
Proof.
  intros e s rq q s' c fs Hc Hi Hcmd Hs H2.
  destruct (wstep_wrap _ _ _ _ _ _ _ Hc Hi Hcmd Hs) as [s1 [c' [fs1 [Hr [Hrs [_ Hnt]]]]]].
  assert (c' = c) by (unfold wanswer, wresp in Hrs; inversion Hrs; reflexivity). subst c'.
  destruct (wrtsp_spec _ _ _ _ _ _ Hr) as [[_ [Hi' [Hc' Hj']]] [_ [_ [_ [Href _]]]]].
  destruct (Href H2) as [[Hst [Hh [Hp _]]] [-> Hm]]. destruct (Hnt Hm) as [Es ->]. subst s1.
  assert (Hcl : w_closed s' = false) by congruence.
  repeat split; try congruence.
  intros rq2 Ha. destruct (wstep e s' rq2) as [[s2 rs2] fs2] eqn:Hs2.
  exact (wone_response_per_request _ _ _ _ _ _ Hcl Ha Hs2).
Qed.

(* ---------------------------------------------------------------- the status table before the fix *)
(* PAUSE before SETUP was let through to onPause and answered 200 *)
Lemma wpause_in_init_refuted : exists e s rq q,
  w_closed s = false /\ w_inited s = true /\ rq_cmd rq = CWrap q /\
  wlegal (w_status s) (wq_meth q) = false /\
  snd (fst (wstep_orig e s rq)) = [wanswer 200 rq (Some (wresp 200 q))].
Proof.
  exists {| e_sdp := fun _ => None; e_live := fun _ => None |}.
  exists (wset_inited (winit_sess [47])).
  pose (q := {| wq_meth := WmPause; wq_cseq := [49]; wq_url := [117]; wq_transport := [] |}).
  exists {| rq_seq := [49]; rq_cmd := CWrap q |}. exists q.
  repeat split; reflexivity.
Qed.

(* ================================================================ the model passes the monitor *)
(* the relation between the session (model) and the monitor's bookkeeping *)
Record WJ (ext watch : list bytes) (s : wsess) (m : wmon) : Prop := {
  wj_closed : w_closed s = wm_closed m;
  wj_chan : w_inited s = wm_chan m;
  wj_phase : w_closed s = false -> w_status s = wm_phase m;
  wj_desc : forall v, w_vctl s = CtlOk v -> v <> [] -> wm_desc m = true;
  wj_via : w_closed s = false -> w_status s <> WInit -> wm_via_d m = true;
  wj_played : w_closed s = false -> w_status s = WPlaying -> wm_played m = true;
  wj_paused : w_closed s = false -> w_paused s = wm_paused m;
  wj_joined : w_joined s = true -> wm_joined m = true;
  wj_cons : forall p, w_held s = HCons p -> w_closed s = false /\ w_inited s = true /\ w_status s = WPlaying;
  wj_nopub : forall p, w_held s <> HPub p;
  wj_pre : w_inited s = false -> w_status s = WInit;
  wj_closed_init : w_closed s = true -> w_status s = WInit;
  wj_reg : wm_reg m = registry ext (w_held s) watch
}.

Lemma WJ_init : forall ext watch path, WJ ext watch (winit_sess path) (wmon0 (registry ext HNone watch)).
Proof. intros. constructor; cbn; intros; try discriminate; try congruence; auto. Qed.

Definition wobs_of (watch ext : list bytes) (s' : wsess) (rs : list wresponse) : wobs_step :=
  {| wo_resps := rs; wo_eof := w_closed s'; wo_reg := registry ext (w_held s') watch;
     wo_media := wmedia_of ext s' |}.

Lemma wstatus_eqb_eq : forall a b, wstatus_eqb a b = true <-> a = b.
Proof. destruct a, b; cbn; split; intro; try discriminate; reflexivity. Qed.

(* the model lets media through only when the monitor allows it *)
Lemma WJ_media_ok : forall ext watch s m rs,
  WJ ext watch s m -> wmedia_ok m (wobs_of watch ext s rs) = true.
Proof.
  intros ext watch s m rs HJ. unfold wmedia_ok, wobs_of. cbn [wo_media].
  destruct (wmedia_of ext s) eqn:Hm; [|reflexivity]. cbn [negb orb].
  unfold wmedia_of in Hm. apply andb_true_iff in Hm. destruct Hm as [Hf _].
  unfold wflows in Hf. repeat (apply andb_true_iff in Hf; destruct Hf as [Hf ?]).
  apply wstatus_eqb_eq in Hf.
  match goal with H : negb (w_closed s) = true |- _ => apply negb_true_iff in H; rename H into Hc end.
  match goal with H : negb (w_paused s) = true |- _ => apply negb_true_iff in H; rename H into Hp end.
  rewrite (wj_played _ _ _ _ HJ Hc Hf), <- (wj_paused _ _ _ _ HJ Hc), Hp,
          (wj_joined _ _ _ _ HJ ltac:(assumption)), <- (wj_closed _ _ _ _ HJ), Hc.
  reflexivity.
Qed.

Lemma WJ_no_media_closed : forall ext s, w_closed s = true -> wmedia_of ext s = false.
Proof.
  intros ext s Hc. unfold wmedia_of, wflows. rewrite Hc. cbn. rewrite !andb_false_r. reflexivity.
Qed.

Lemma WJ_held_none_closed : forall ext watch s m, WJ ext watch s m -> w_closed s = true -> w_held s = HNone.
Proof.
  intros ext watch s m HJ Hc. destruct (w_held s) eqn:Hh; [reflexivity | |].
  - destruct (wj_cons _ _ _ _ HJ _ Hh); congruence.
  - destruct (wj_nopub _ _ _ _ HJ _ Hh).
Qed.

Lemma WJ_held_none_pre : forall ext watch s m, WJ ext watch s m -> w_inited s = false -> w_held s = HNone.
Proof.
  intros ext watch s m HJ Hc. destruct (w_held s) eqn:Hh; [reflexivity | |].
  - destruct (wj_cons _ _ _ _ HJ _ Hh) as [_ [? _]]; congruence.
  - destruct (wj_nopub _ _ _ _ HJ _ Hh).
Qed.

(* WJ only looks at these components of the session *)
Lemma WJ_keep : forall ext watch s s' m,
  WJ ext watch s m ->
  w_closed s' = w_closed s -> w_inited s' = w_inited s -> w_status s' = w_status s ->
  w_vctl s' = w_vctl s -> w_paused s' = w_paused s -> w_joined s' = w_joined s -> w_held s' = w_held s ->
  WJ ext watch s' m.
Proof.
  intros ext watch s s' m HJ E1 E2 E3 E4 E5 E6 E7. destruct HJ.
  constructor; rewrite ?E1, ?E2, ?E3, ?E4, ?E5, ?E6, ?E7; auto.
Qed.

Lemma wfinish_2xx : forall ext watch s' m'' rs,
  let R := registry ext (w_held s') watch in
  WJ ext watch s' (wset_mreg m'' R) ->
  (if (negb (reg_has_cons R) || wstatus_eqb (wm_phase m'') WPlaying) && negb (reg_has_own R)
      && wmedia_ok m'' (wobs_of watch ext s' rs)
      && (if wm_closed m'' then w_closed s' && reg_no_self R else negb (w_closed s'))
   then Some (wset_mreg m'' R) else None) = Some (wset_mreg m'' R).
Proof.
  intros ext watch s' m'' rs R HJ.
  pose proof (wj_closed _ _ _ _ HJ) as Jc. cbn in Jc.
  assert (H1 : negb (reg_has_cons R) || wstatus_eqb (wm_phase m'') WPlaying = true).
  { destruct (reg_has_cons R) eqn:E; [|reflexivity]. cbn.
    destruct (reg_has_cons_inv _ _ _ E) as [p Hp]. destruct (wj_cons _ _ _ _ HJ _ Hp) as [Hc [_ Hs]].
    pose proof (wj_phase _ _ _ _ HJ Hc) as Hp'. cbn in Hp'. rewrite <- Hp', Hs. reflexivity. }
  assert (H2 : reg_has_own R = false).
  { destruct (reg_has_own R) eqn:E; [|reflexivity].
    destruct (reg_has_own_inv _ _ _ E) as [p Hp]. destruct (wj_nopub _ _ _ _ HJ _ Hp). }
  assert (H3 : wmedia_ok m'' (wobs_of watch ext s' rs) = true).
  { exact (WJ_media_ok _ _ _ _ rs HJ). }
  rewrite H1, H2, H3. cbn [negb orb andb]. rewrite <- Jc.
  destruct (w_closed s') eqn:Hc; [|reflexivity].
  subst R. rewrite (WJ_held_none_closed _ _ _ _ HJ Hc), reg_no_self_none. reflexivity.
Qed.

Lemma WJ_set_reg : forall ext watch s m,
  WJ ext watch s m -> WJ ext watch s (wset_mreg m (registry ext (w_held s) watch)).
Proof. intros ext watch s m []. constructor; cbn; eauto. Qed.

Lemma wstatus_eq_dec : forall a b : wstatus, {a = b} + {a <> b}.
Proof. decide equality. Qed.

Ltac wj_cons_tac :=
  match goal with
  | Hc : forall p, w_held ?s = HCons p -> _, H : w_held ?s = HCons _ |- _ =>
      destruct (Hc _ H) as [? [? ?]]; repeat split; congruence
  end.

(* a WRAP on an established channel *)
Lemma wmon_wrap_ok : forall e watch ext s m rq q,
  WJ ext watch s m -> w_closed s = false -> w_inited s = true -> rq_cmd rq = CWrap q ->
  forall s' rs fs, wstep e s rq = (s', rs, fs) ->
  exists m', wmon_wrap m rq q (wobs_of watch ext s' rs) = Some m' /\ WJ ext watch s' m'.
Proof.
  intros e watch ext s m rq q HJ Hc Hi Hcmd s' rs fs Hs.
  destruct (wstep_wrap _ _ _ _ _ _ _ Hc Hi Hcmd Hs) as [s1 [c [fs1 [Hr [-> [Htd Hnt]]]]]].
  destruct (wrtsp_spec _ _ _ _ _ _ Hr) as [[Fp [Fi [Fc Fj]]] [Hcc [Hill [H455 [Href Hacc]]]]].
  pose proof (wj_closed _ _ _ _ HJ) as Jc. rewrite Hc in Jc.
  pose proof (wj_phase _ _ _ _ HJ Hc) as Jp. pose proof (wj_reg _ _ _ _ HJ) as Jr.
  unfold wmon_wrap. unfold wobs_of at 1. cbn [wo_resps wanswer wp_rtsp wp_code wp_seq wresp rs_code rs_cseq rs_sess].
  rewrite !bytes_eqb_refl. cbn [andb Z.eqb Pos.eqb].
  destruct (code_class c =? 0) eqn:Hc0; [apply Z.eqb_eq in Hc0; congruence|]. cbn [negb].
  rewrite <- Jp.
  destruct (wlegal (w_status s) (wq_meth q)) eqn:Hleg; cbn [negb].
  - (* legal in the current state *)
    assert (Hrefused : is_2xx c = false ->
              s' = s1 /\ w_closed s1 = false /\ w_held s1 = w_held s /\ WJ ext watch s1 m).
    { intros H2. destruct (Href H2) as [[Hst [Hh [Hp [Hv Ha]]]] [-> Hm]].
      destruct (Hnt Hm) as [-> _]. split; [reflexivity|]. split; [congruence|]. split; [congruence|].
      apply (WJ_keep _ _ s s1 m HJ); congruence. }
    destruct (code_class c =? 455) eqn:Hk.
    { apply Z.eqb_eq in Hk. pose proof (code_class_455 _ Hk) as Hk'. pose proof (H455 Hk'). congruence. }
    destruct (code_class c =? 2) eqn:H2.
    + (* accepted *)
      assert (Hx : is_2xx c = true) by exact H2.
      assert (Hval : wmeth_eqb (wq_meth q) WmSetup && transport_invalid (wq_transport q) = false).
      { destruct (wmeth_eqb (wq_meth q) WmSetup) eqn:E; [|reflexivity]. cbn [andb].
        apply (wrtsp_setup_valid _ _ _ _ _ _ Hr); [|exact Hx].
        destruct (wq_meth q); try discriminate E; reflexivity. }
      cbn [andb]. rewrite Hval.
      destruct (Hacc Hx) as [-> Hm]. clear Href Hill H455.
      destruct (wq_meth q) eqn:Hme; try (destruct Hm; fail); cbn [wmon_accept]; cbn [wo_reg wo_eof wobs_of].
      * (* OPTIONS *)
        destruct Hm as [-> ->]. destruct (Hnt ltac:(discriminate)) as [-> _].
        refine (ex_intro _ _ (conj (wfinish_2xx _ _ _ _ _ (WJ_set_reg _ _ _ _ HJ)) (WJ_set_reg _ _ _ _ HJ))).
      * (* DESCRIBE *)
        destruct Hm as [Hi0 [Hst [Hh [Hp ->]]]]. destruct (Hnt ltac:(discriminate)) as [-> _].
        match goal with
        | |- exists m', (if _ then Some (wset_mreg ?m2 (registry ?x (w_held ?s2) ?w)) else None) = Some m' /\ _ =>
            assert (HJ' : WJ x w s2 (wset_mreg m2 (registry x (w_held s2) w)))
        end.
        { destruct HJ. constructor; cbn; intros; rewrite ?Hst, ?Hh, ?Hp, ?Fi, ?Fc, ?Fj in *; try congruence; eauto.
          all: try wj_cons_tac. }
        refine (ex_intro _ _ (conj (wfinish_2xx _ _ _ _ _ HJ') HJ')).
      * (* SETUP *)
        destruct Hm as [Hst [Hh [Hp [Hv [Ha [-> [v [Hvv Hvn]]]]]]]]. destruct (Hnt ltac:(discriminate)) as [-> _].
        match goal with
        | |- exists m', (if _ then Some (wset_mreg ?m2 (registry ?x (w_held ?s2) ?w)) else None) = Some m' /\ _ =>
            assert (HJ' : WJ x w s2 (wset_mreg m2 (registry x (w_held s2) w)))
        end.
        { pose proof (wj_desc _ _ _ _ HJ _ Hvv Hvn) as Hd.
          destruct HJ. constructor; cbn; intros; rewrite ?Hst, ?Hh, ?Hp, ?Hv, ?Fi, ?Fc, ?Fj in *; try congruence; eauto.
          - rewrite <- Jp. destruct (w_status s); reflexivity.
          - rewrite Hd. apply orb_true_r.
          - apply wj_played0; auto. destruct (w_status s); try discriminate; reflexivity.
          - destruct (wj_cons0 _ H) as [? [? E]]. rewrite E. auto. }
        refine (ex_intro _ _ (conj (wfinish_2xx _ _ _ _ _ HJ') HJ')).
      * (* PLAY *)
        destruct (Hnt ltac:(discriminate)) as [-> ->].
        destruct Hm as [Hst' [Hp' [Hv [Ha Hcases]]]].
        rewrite <- Jp. destruct (w_status s) eqn:Hst; try discriminate Hleg.
        -- (* ready -> playing *)
           rewrite (wj_via _ _ _ _ HJ Hc ltac:(congruence)). cbv iota beta.
           match goal with
           | |- exists m', (if _ then Some (wset_mreg ?m2 (registry ?x (w_held ?s2) ?w)) else None) = Some m' /\ _ =>
               assert (HJ' : WJ x w s2 (wset_mreg m2 (registry x (w_held s2) w)))
           end.
           { destruct HJ. constructor; cbn; intros; rewrite ?Hst', ?Hp', ?Hv, ?Fi, ?Fc, ?Fj in *; try congruence; eauto.
             destruct Hcases as [[? _] | [_ [[Hn [p' [Hh' _]]] | [Hn [Hh' _]]]]]; try discriminate;
               rewrite Hh'; [discriminate | auto]. }
           refine (ex_intro _ _ (conj (wfinish_2xx _ _ _ _ _ HJ') HJ')).
        -- (* PLAY while playing: resume *)
           destruct Hcases as [[_ [Hh _]] | [? _]]; [|discriminate].
           match goal with
           | |- exists m', (if _ then Some (wset_mreg ?m2 (registry ?x (w_held ?s2) ?w)) else None) = Some m' /\ _ =>
               assert (HJ' : WJ x w s2 (wset_mreg m2 (registry x (w_held s2) w)))
           end.
           { destruct HJ. constructor; cbn; intros; rewrite ?Hst', ?Hp', ?Hv, ?Hh, ?Fi, ?Fc, ?Fj in *; try congruence; eauto.
             all: try (apply wj_via0; congruence); try (apply wj_played0; congruence). }
           refine (ex_intro _ _ (conj (wfinish_2xx _ _ _ _ _ HJ') HJ')).
      * (* PAUSE *)
        destruct Hm as [Hst [-> ->]]. destruct (Hnt ltac:(discriminate)) as [-> _].
        rewrite <- Jp, Hst.
        match goal with
        | |- exists m', (if _ then Some (wset_mreg ?m2 (registry ?x (w_held ?s2) ?w)) else None) = Some m' /\ _ =>
            assert (HJ' : WJ x w s2 (wset_mreg m2 (registry x (w_held s2) w)))
        end.
        { destruct HJ. constructor; cbn; intros; try congruence; eauto. }
        refine (ex_intro _ _ (conj (wfinish_2xx _ _ _ _ _ HJ') HJ')).
      * (* TEARDOWN *)
        destruct Hm as [-> ->]. destruct (Htd eq_refl) as [-> _].
        match goal with
        | |- exists m', (if _ then Some (wset_mreg ?m2 (registry ?x (w_held ?s2) ?w)) else None) = Some m' /\ _ =>
            assert (HJ' : WJ x w s2 (wset_mreg m2 (registry x (w_held s2) w)))
        end.
        { destruct HJ. constructor; cbn; intros; try congruence; eauto. }
        refine (ex_intro _ _ (conj (wfinish_2xx _ _ _ _ _ HJ') HJ')).
    + (* refused with another code *)
      destruct (Hrefused H2) as [-> [Hcl [Hh HJ']]].
      destruct (Href H2) as [_ [_ Hm]].
      replace (is_wteardown (wq_meth q)) with false by (symmetry; apply is_wteardown_false; exact Hm).
      cbn [wobs_of wo_eof wo_reg negb andb]. rewrite Hcl, Hh, Jr, reg_eqb_refl. cbn [negb andb].
      rewrite (WJ_media_ok _ _ _ _ _ HJ'). eexists; split; [reflexivity | exact HJ'].
  - (* illegal *)
    destruct (Hill eq_refl) as [-> [-> ->]].
    assert (Hm : wq_meth q <> WmTeardown) by (intro E; rewrite E in Hleg; destruct (w_status s); discriminate).
    destruct (Hnt Hm) as [-> _].
    change (code_class 455 =? 455) with true.
    cbn [wobs_of wo_eof wo_reg negb andb]. rewrite Hc, Jr, reg_eqb_refl. cbn [negb andb].
    rewrite (WJ_media_ok _ _ _ _ _ HJ). eexists; split; [reflexivity | exact HJ].
Qed.

Lemma wbare_answer : forall rq c, wbare rq (wanswer c rq None) = true.
Proof. intros. unfold wbare, wanswer. cbn. rewrite bytes_eqb_refl. reflexivity. Qed.

Lemma WJ_reg_no_self_closed : forall ext watch s m,
  WJ ext watch s m -> w_closed s = true -> reg_no_self (registry ext (w_held s) watch) = true.
Proof. intros. rewrite (WJ_held_none_closed _ _ _ _ H H0). apply reg_no_self_none. Qed.

Lemma wmedia_ok_mreg : forall m r o, wmedia_ok (wset_mreg m r) o = wmedia_ok m o.
Proof. reflexivity. Qed.

(* a message that ends the channel without an answer *)
Lemma wviolation_ok : forall ext watch s m rq s',
  WJ ext watch s m -> w_closed s = false -> w_closed s' = true -> w_held s' = HNone ->
  w_inited s' = w_inited s -> w_vctl s' = w_vctl s -> (w_joined s' = true -> w_joined s = true) ->
  w_status s' = WInit ->
  exists m', wmon_violation m rq (wobs_of watch ext s' []) = Some m' /\ WJ ext watch s' m'.
Proof.
  intros ext watch s m rq s' HJ Hc Hc' Hh Hi Hv Hj Hst.
  unfold wmon_violation, wobs_of. cbn [wo_resps wo_eof wo_reg wo_media].
  rewrite (WJ_no_media_closed _ _ Hc'), Hc', Hh, reg_no_self_none. cbn.
  eexists; split; [reflexivity|].
  destruct HJ. constructor; cbn; intros; rewrite ?Hc', ?Hh, ?Hi, ?Hv in *; try congruence; eauto.
Qed.

Lemma wmon_step_ok : forall e watch ext s m rq,
  WJ ext watch s m ->
  forall s' rs fs, wstep e s rq = (s', rs, fs) ->
  exists m', wmon_step m rq (wobs_of watch ext s' rs) = Some m' /\ WJ ext watch s' m'.
Proof.
  intros e watch ext s m rq HJ s' rs fs Hs.
  pose proof (wj_closed _ _ _ _ HJ) as Jc. pose proof (wj_chan _ _ _ _ HJ) as Ji.
  pose proof (wj_reg _ _ _ _ HJ) as Jr.
  destruct (rq_cmd rq) eqn:Hcmd.
  6: { (* a data channel JOIN *)
    unfold wstep, wstep_gen in Hs. rewrite Hcmd in Hs.
    unfold wmon_step. rewrite Hcmd. unfold wobs_of at 1. cbn [wo_resps].
    destruct (mine && w_inited s && negb (w_closed s)) eqn:Hmay; inv_pairs;
      rewrite wbare_answer; cbn [andb wp_code wanswer];
      rewrite <- Ji, <- Jc, Hmay; cbn [wobs_of wo_eof wo_reg w_closed w_held wset_joined];
      rewrite Jr, reg_eqb_refl, !eqb_reflx; cbn [andb].
    - assert (HJ' : WJ ext watch (wset_joined s true) (wset_mjoined m (wm_joined m || true))).
      { destruct HJ. constructor; cbn; intros; eauto. apply orb_true_r. }
      change (is_2xx 200) with true. cbn [Bool.eqb andb].
      rewrite (WJ_media_ok _ _ _ _ [wanswer 200 rq None] HJ').
      eexists; split; [reflexivity | exact HJ'].
    - assert (HJ' : WJ ext watch s' (wset_mjoined m (wm_joined m || false))).
      { rewrite orb_false_r. destruct HJ. constructor; cbn; intros; eauto. }
      change (is_2xx 404) with false. cbn [Bool.eqb andb].
      rewrite (WJ_media_ok _ _ _ _ [wanswer 404 rq None] HJ').
      eexists; split; [reflexivity | exact HJ']. }
  all: unfold wmon_step; rewrite Hcmd; rewrite <- Jc, <- Ji.
  all: destruct (w_closed s) eqn:Hc.
  (* the channel is already gone *)
  1,3,5,7,9: unfold wstep, wstep_gen in Hs; rewrite Hcmd, Hc in Hs; inv_pairs;
    unfold wobs_of; cbn [wo_resps wo_eof wo_reg wo_media];
    rewrite Hc, (WJ_no_media_closed _ _ Hc), (WJ_reg_no_self_closed _ _ _ _ HJ Hc); cbn;
    (eexists; split; [reflexivity | apply WJ_set_reg; exact HJ]).
  all: destruct (w_inited s) eqn:Hi; cbn [negb].
  7: exact (wmon_wrap_ok e watch ext s m rq q HJ Hc Hi Hcmd s' rs fs Hs).
  all: unfold wstep, wstep_gen in Hs; rewrite Hcmd, Hc, Hi in Hs; cbn [negb] in Hs.
  - (* INIT on an established channel *)
    inv_pairs. apply (wviolation_ok ext watch s m rq (wclosed_of s) HJ Hc); try reflexivity; cbn; discriminate.
  - (* INIT *)
    inv_pairs. unfold wobs_of. cbn [wo_resps wo_eof wo_reg wo_media wset_inited w_closed w_held].
    rewrite wbare_answer, Hc, Jr, reg_eqb_refl. cbn [andb negb wp_code wanswer Z.eqb Pos.eqb].
    assert (Hm : wmedia_of ext (wset_inited s) = false).
    { unfold wmedia_of. cbn. rewrite (WJ_held_none_pre _ _ _ _ HJ Hi). apply andb_false_r. }
    rewrite Hm. cbn. eexists; split; [reflexivity|].
    destruct HJ. constructor; cbn; intros; eauto.
    destruct (wj_cons0 _ H) as [? [? ?]]; congruence.
  - (* GET_INFO on an established channel *)
    inv_pairs. apply (wviolation_ok ext watch s m rq (wclosed_of s) HJ Hc); try reflexivity; cbn; discriminate.
  - (* GET_INFO during the handshake *)
    inv_pairs. unfold wobs_of. cbn [wo_resps wo_eof wo_reg wo_media].
    rewrite Hc, Jr, reg_eqb_refl.
    assert (Hm : wmedia_of ext s' = false).
    { unfold wmedia_of. rewrite (WJ_held_none_pre _ _ _ _ HJ Hi). apply andb_false_r. }
    rewrite Hm. cbn. eexists; split; [reflexivity | exact HJ].
  - (* SWITCH *)
    inv_pairs. unfold wobs_of at 1. cbn [wo_resps].
    rewrite wbare_answer. cbn [wobs_of wo_eof wo_reg wp_code wanswer]. rewrite Hc, Jr, reg_eqb_refl.
    rewrite (WJ_media_ok _ _ _ _ [wanswer 200 rq None] HJ). cbn. eexists; split; [reflexivity | exact HJ].
  - (* SWITCH before INIT *)
    inv_pairs. apply (wviolation_ok ext watch s m rq (wset_closed s) HJ Hc); try reflexivity; cbn; auto.
    + apply (WJ_held_none_pre _ _ _ _ HJ Hi).
    + apply (wj_pre _ _ _ _ HJ Hi).
  - (* WRAP before INIT *)
    inv_pairs. apply (wviolation_ok ext watch s m rq (wset_closed s) HJ Hc); try reflexivity; cbn; auto.
    + apply (WJ_held_none_pre _ _ _ _ HJ Hi).
    + apply (wj_pre _ _ _ _ HJ Hi).
  - inv_pairs. apply (wviolation_ok ext watch s m rq (wclosed_of s) HJ Hc); try reflexivity; cbn; discriminate.
  - inv_pairs. apply (wviolation_ok ext watch s m rq (wset_closed s) HJ Hc); try reflexivity; cbn; auto.
    + apply (WJ_held_none_pre _ _ _ _ HJ Hi).
    + apply (wj_pre _ _ _ _ HJ Hi).
Qed.

Lemma wrun_gen_ok : forall e watch ext rqs s m,
  WJ ext watch s m ->
  forall os s', wrun_gen true e watch ext s rqs = (os, s') ->
  exists m', wmon_run m rqs os = Some m' /\ WJ ext watch s' m'.
Proof.
  intros e watch ext rqs. induction rqs as [|rq rqs IH]; intros s m HJ os s' Hrun.
  - cbn in Hrun. inversion Hrun; subst. exists m. split; [reflexivity | assumption].
  - cbn [wrun_gen] in Hrun.
    destruct (wstep_gen true e s rq) as [[s1 rs] fs] eqn:Hs.
    destruct (wrun_gen true e watch ext s1 rqs) as [os1 fin] eqn:Hr.
    inversion Hrun; subst; clear Hrun.
    destruct (wmon_step_ok e watch ext s m rq HJ s1 rs fs Hs) as [m1 [Hm1 HJ1]].
    destruct (IH _ _ HJ1 _ _ Hr) as [m' [Hm' HJ']].
    exists m'. split; [|assumption].
    cbn [wmon_run]. unfold wobs_of in Hm1. rewrite Hm1. exact Hm'.
Qed.

(* the oracle accepts the model on every message sequence, in every environment *)
Theorem wmodel_passes : forall e watch ext path rqs,
  c12w_ok (registry ext HNone watch) rqs (wrun_case true e watch ext (winit_sess path) rqs) = true.
Proof.
  intros e watch ext path rqs. unfold wrun_case, c12w_ok.
  destruct (wrun_gen true e watch ext (winit_sess path) rqs) as [os s'] eqn:Hr.
  destruct (wrun_gen_ok _ _ _ _ _ _ (WJ_init ext watch path) _ _ Hr) as [m' [Hm HJ]].
  unfold wdisconnect. destruct (w_closed s') eqn:Hc; [|destruct (w_inited s') eqn:Hi]; cbn [fst snd]; rewrite Hm;
    cbn [w_held wclosed_of wset_closed].
  - apply (WJ_reg_no_self_closed _ _ _ _ HJ Hc).
  - apply reg_no_self_none.
  - rewrite (WJ_held_none_pre _ _ _ _ HJ Hi). apply reg_no_self_none.
Qed.

(* ---------------------------------------------------------------- reachability, through the monitor *)
Lemma wsubseq_nil : forall tr, wsubseq [] tr.
Proof. destruct tr; exact I. Qed.

Lemma wsubseq_app_r : forall tr ms tr2, wsubseq ms tr -> wsubseq ms (tr ++ tr2).
Proof.
  induction tr as [|x tr IH]; intros ms tr2 H.
  - destruct ms; [apply wsubseq_nil | destruct H].
  - destruct ms as [|m ms]; [exact I|]. cbn in H |- *.
    destruct H as [[H1 [H2 H3]] | H]; [left; repeat split; auto | right; apply (IH (m :: ms)); exact H].
Qed.

Lemma wmeth_eqb_refl : forall m, wmeth_eqb m m = true.
Proof. destruct m; cbn; auto. apply Z.eqb_refl. Qed.

Lemma wsubseq_snoc : forall tr ms m, wsubseq ms tr -> wsubseq (ms ++ [m]) (tr ++ [(m, 2)]).
Proof.
  induction tr as [|x tr IH]; intros ms m H.
  - destruct ms; [|destruct H]. cbn. left. rewrite wmeth_eqb_refl. auto.
  - destruct ms as [|m0 ms].
    + cbn [app]. change (wsubseq [m] (x :: tr ++ [(m, 2)])). cbn. right. apply (IH [] m). apply wsubseq_nil.
    + cbn in H. cbn [app]. change (wsubseq (m0 :: ms ++ [m]) (x :: tr ++ [(m, 2)])). cbn.
      destruct H as [[H1 [H2 H3]] | H].
      * left. repeat split; auto.
      * right. apply (IH (m0 :: ms) m H).
Qed.

(* what the monitor's flags mean in terms of the events seen so far *)
Record WMI (m : wmon) (tr : list (wmeth * Z)) : Prop := {
  wmi_desc : wm_desc m = true -> wsubseq [WmDescribe] tr;
  wmi_via_d : wm_via_d m = true -> wsubseq [WmDescribe; WmSetup] tr;
  wmi_playing : wm_phase m = WPlaying -> wsubseq [WmDescribe; WmSetup; WmPlay] tr;
  wmi_played : wm_played m = true -> wsubseq [WmDescribe; WmSetup; WmPlay] tr
}.

Lemma WMI_app : forall m tr tr2, WMI m tr -> WMI m (tr ++ tr2).
Proof. intros m tr tr2 []. constructor; intros; apply wsubseq_app_r; auto. Qed.

Lemma WMI_same : forall m m2 tr,
  WMI m tr -> wm_desc m2 = wm_desc m -> wm_via_d m2 = wm_via_d m -> wm_phase m2 = wm_phase m ->
  wm_played m2 = wm_played m -> WMI m2 tr.
Proof. intros m m2 tr [] E1 E2 E3 E4. constructor; rewrite ?E1, ?E2, ?E3, ?E4; auto. Qed.

Lemma WMI_accept : forall m me m2 tr,
  WMI m tr -> wmon_accept m me = Some m2 -> WMI m2 (tr ++ [(me, 2)]).
Proof.
  intros m me m2 tr HM Ha.
  pose proof (WMI_app _ _ [(me, 2)] HM) as HM'.
  destruct me; cbn in Ha.
  - inversion Ha; subst; assumption.
  - inversion Ha; subst; clear Ha. destruct HM'. constructor; cbn; intros; auto.
    apply (wsubseq_snoc tr [] WmDescribe). apply wsubseq_nil.
  - inversion Ha; subst; clear Ha. destruct HM'. destruct HM. constructor; cbn; intros; auto.
    + apply orb_true_iff in H. destruct H as [H|H]; [auto|].
      apply (wsubseq_snoc tr [WmDescribe] WmSetup). auto.
    + apply wmi_playing0. destruct (wm_phase m); congruence.
  - destruct (wm_phase m) eqn:Hp; try discriminate.
    + destruct (wm_via_d m) eqn:Hv; [|discriminate]. inversion Ha; subst; clear Ha.
      destruct HM'. destruct HM. constructor; cbn; intros; auto;
      apply (wsubseq_snoc tr [WmDescribe; WmSetup] WmPlay); auto.
    + inversion Ha; subst; clear Ha. destruct HM'. constructor; cbn; intros; auto.
  - destruct (wm_phase m) eqn:Hp; try discriminate.
    inversion Ha; subst; clear Ha. destruct HM'. constructor; cbn; intros; auto.
  - inversion Ha; subst; clear Ha. eapply WMI_same; [exact HM' | reflexivity ..].
  - inversion Ha; subst; assumption.
  - inversion Ha; subst; assumption.
Qed.

Ltac dif H :=
  match type of H with
  | (if ?c then _ else _) = _ => destruct c eqn:?; [|try discriminate H]
  end.

Lemma wmon_step_MI : forall m rq o m' tr,
  WMI m tr -> wmon_step m rq o = Some m' -> WMI m' (tr ++ wev_of rq o).
Proof.
  intros m rq o m' tr HM H. unfold wmon_step in H.
  assert (Hkeep : forall m2, wm_desc m2 = wm_desc m -> wm_via_d m2 = wm_via_d m -> wm_phase m2 = wm_phase m ->
                    wm_played m2 = wm_played m -> WMI m2 (tr ++ wev_of rq o)).
  { intros. eapply WMI_same; [apply WMI_app; exact HM | auto ..]. }
  assert (Hviol : forall m2, wmon_violation m rq o = Some m2 -> WMI m2 (tr ++ wev_of rq o)).
  { unfold wmon_violation. intros m2 Hv. dif Hv. dif Hv; dif Hv; inversion Hv; subst; apply Hkeep; reflexivity. }
  destruct (rq_cmd rq) eqn:Hcmd.
  6: { destruct (wo_resps o) as [|r [|r2 l]]; try discriminate.
       dif H. inversion H; subst. apply Hkeep; reflexivity. }
  all: destruct (wm_closed m);
    [ destruct (wo_resps o); [|discriminate]; dif H; inversion H; subst; apply Hkeep; reflexivity |].
  all: destruct (wm_chan m); cbn [negb] in H; auto.
  - destruct (wo_resps o) as [|r [|r2 l]]; try discriminate.
    dif H. inversion H; subst. apply Hkeep; reflexivity.
  - dif H. inversion H; subst. apply Hkeep; reflexivity.
  - destruct (wo_resps o) as [|r [|r2 l]]; try discriminate.
    dif H. inversion H; subst. apply Hkeep; reflexivity.
  - (* WRAP *)
    unfold wmon_wrap in H. unfold wev_of. rewrite Hcmd.
    destruct (wo_resps o) as [|r [|r2 l]]; try discriminate.
    destruct (wp_rtsp r) as [rr|]; [|discriminate].
    dif H; [discriminate|].
    dif H.
    + dif H. inversion H; subst. apply WMI_app. assumption.
    + dif H; [discriminate|].
      dif H; [discriminate|].
      destruct (code_class (rs_code rr) =? 2) eqn:H2.
      * apply Z.eqb_eq in H2. rewrite H2.
        destruct (wmon_accept m (wq_meth q)) as [m2|] eqn:Ha; [|discriminate].
        dif H. inversion H; subst.
        eapply WMI_same; [eapply WMI_accept; eauto | reflexivity ..].
      * dif H. inversion H; subst. apply WMI_app. assumption.
Qed.

Lemma wmon_run_MI : forall rqs os m m' tr,
  WMI m tr -> wmon_run m rqs os = Some m' -> WMI m' (tr ++ wevents rqs os).
Proof.
  induction rqs as [|rq rqs IH]; intros os m m' tr HM H.
  - destruct os; [|discriminate]. inversion H; subst. cbn. rewrite app_nil_r. assumption.
  - destruct os as [|o os]; [discriminate|]. cbn in H.
    destruct (wmon_step m rq o) as [m1|] eqn:Hs; [|discriminate].
    cbn [wevents]. rewrite app_assoc. eapply IH; [|exact H]. eapply wmon_step_MI; eauto.
Qed.

Lemma WMI_init : forall r, WMI (wmon0 r) [].
Proof. intros r. constructor; cbn; intros; discriminate. Qed.

(* playing is reached only through DESCRIBE, SETUP, PLAY answered 2xx in this order *)
Theorem wplaying_only_via_describe_setup_play : forall e watch ext path rqs os s',
  wrun_gen true e watch ext (winit_sess path) rqs = (os, s') ->
  w_status s' = WPlaying -> wsubseq [WmDescribe; WmSetup; WmPlay] (wevents rqs os).
Proof.
  intros e watch ext path rqs os s' Hr Hst.
  destruct (wrun_gen_ok _ _ _ _ _ _ (WJ_init ext watch path) _ _ Hr) as [m' [Hm HJ]].
  pose proof (wmon_run_MI _ _ _ _ _ (WMI_init _) Hm) as HM. cbn [app] in HM.
  destruct (w_closed s') eqn:Hc.
  - (* a closed session is back in the initial state *)
    rewrite (wj_closed_init _ _ _ _ HJ Hc) in Hst. discriminate.
  - apply (wmi_playing _ _ HM). rewrite <- (wj_phase _ _ _ _ HJ Hc). assumption.
Qed.

(* media reaches the client only in a session that went through DESCRIBE, SETUP, PLAY *)
Theorem wmedia_only_after_play : forall e watch ext path rqs os s',
  wrun_gen true e watch ext (winit_sess path) rqs = (os, s') ->
  wflows s' = true -> wsubseq [WmDescribe; WmSetup; WmPlay] (wevents rqs os).
Proof.
  intros e watch ext path rqs os s' Hr Hf.
  eapply wplaying_only_via_describe_setup_play; eauto.
  unfold wflows in Hf. repeat (apply andb_true_iff in Hf; destruct Hf as [Hf ?]).
  apply wstatus_eqb_eq in Hf. assumption.
Qed.

(* in every reachable state: a consumer is held only by an established, open, playing session,
   nothing is ever published, and media flows only while a consumer is held *)
Theorem wholds_only_while_playing : forall e watch ext path rqs os s',
  wrun_gen true e watch ext (winit_sess path) rqs = (os, s') ->
  (forall p, w_held s' = HCons p -> w_closed s' = false /\ w_inited s' = true /\ w_status s' = WPlaying) /\
  (forall p, w_held s' <> HPub p) /\
  (w_inited s' = false -> w_held s' = HNone /\ w_status s' = WInit) /\
  (w_closed s' = true -> w_held s' = HNone /\ w_status s' = WInit).
Proof.
  intros e watch ext path rqs os s' Hr.
  destruct (wrun_gen_ok _ _ _ _ _ _ (WJ_init ext watch path) _ _ Hr) as [m' [_ HJ]].
  split; [exact (wj_cons _ _ _ _ HJ)|]. split; [exact (wj_nopub _ _ _ _ HJ)|].
  split; intro H.
  - split; [exact (WJ_held_none_pre _ _ _ _ HJ H) | exact (wj_pre _ _ _ _ HJ H)].
  - split; [exact (WJ_held_none_closed _ _ _ _ HJ H) | exact (wj_closed_init _ _ _ _ HJ H)].
Qed.

(* ---------------------------------------------------------------- a concrete session (non-vacuity, and
   the status table before the fix fails the oracle) *)
Module C12WEx.
Import Coq.Strings.String.
Definition t_tcp : bytes := Eval compute in C12Lit.bs "RTP/AVP/TCP;unicast;interleaved=0-1".
Definition u_base : bytes := Eval compute in C12Lit.bs "rtsp://h:554/a".
Definition u_trk : bytes := Eval compute in C12Lit.bs "rtsp://h:554/a/s".
Definition p_a : bytes := Eval compute in C12Lit.bs "/a".
End C12WEx.

Definition wex_env : env :=
  {| e_sdp := fun _ => Some {| si_v := Some (CtlOk [115]); si_a := None |};
     e_live := fun p => if bytes_eqb p C12WEx.p_a then Some (1, false) else None |}.
Definition wex_wrap (n : Z) (m : wmeth) (u t : bytes) : wrequest :=
  {| rq_seq := [48 + n]; rq_cmd := CWrap {| wq_meth := m; wq_cseq := [48 + n]; wq_url := u; wq_transport := t |} |}.
Definition wex_reqs : list wrequest :=
  [ {| rq_seq := [49]; rq_cmd := CInit |};
    {| rq_seq := [50]; rq_cmd := CDataJoin true |};
    wex_wrap 3 WmDescribe C12WEx.u_base [];
    wex_wrap 4 WmSetup C12WEx.u_trk C12WEx.t_tcp;
    wex_wrap 5 WmPlay C12WEx.u_base [];
    wex_wrap 6 WmPause C12WEx.u_base [];
    wex_wrap 7 WmPlay C12WEx.u_base [];
    wex_wrap 8 WmTeardown C12WEx.u_base [] ].
(* PAUSE before SETUP *)
Definition wex_reqs_bad : list wrequest :=
  [ {| rq_seq := [49]; rq_cmd := CInit |}; wex_wrap 2 WmPause C12WEx.u_base [] ].

Definition wcodes (o : wobs_step) : list (Z * Z) :=
  map (fun r => (wp_code r, match wp_rtsp r with Some rr => rs_code rr | None => 0 end)) (wo_resps o).

Lemma wexample_run :
  map wcodes (fst (wrun_case true wex_env [C12WEx.p_a] [C12WEx.p_a] (winit_sess C12WEx.p_a) wex_reqs))
    = [[(200, 0)]; [(200, 0)]; [(200, 200)]; [(200, 200)]; [(200, 200)]; [(200, 200)]; [(200, 200)]; [(200, 200)]] /\
  map wo_reg (fst (wrun_case true wex_env [C12WEx.p_a] [C12WEx.p_a] (winit_sess C12WEx.p_a) wex_reqs))
    = [[(1, 0)]; [(1, 0)]; [(1, 0)]; [(1, 0)]; [(1, 1)]; [(1, 1)]; [(1, 1)]; [(1, 0)]] /\
  map wo_media (fst (wrun_case true wex_env [C12WEx.p_a] [C12WEx.p_a] (winit_sess C12WEx.p_a) wex_reqs))
    = [false; false; false; false; true; false; true; false] /\
  c12w_ok [(1, 0)] wex_reqs (wrun_case true wex_env [C12WEx.p_a] [C12WEx.p_a] (winit_sess C12WEx.p_a) wex_reqs) = true.
Proof. vm_compute. repeat split; reflexivity. Qed.

(* the status table before the fix does not pass the oracle: PAUSE before SETUP answered 200 *)
Lemma worig_fails_oracle :
  c12w_ok [(1, 0)] wex_reqs_bad
    (wrun_case false wex_env [C12WEx.p_a] [C12WEx.p_a] (winit_sess C12WEx.p_a) wex_reqs_bad) = false /\
  c12w_ok [(1, 0)] wex_reqs_bad
    (wrun_case true wex_env [C12WEx.p_a] [C12WEx.p_a] (winit_sess C12WEx.p_a) wex_reqs_bad) = true.
Proof. vm_compute. split; reflexivity. Qed.

(* ---------------------------------------------------------------- interleaved channels
   the channel of a track is changed only by a SETUP that was let through by the status table,
   i.e. before PLAY: while playing the set of tracks that reach the client is fixed *)
Lemma wchannels_only_by_setup : forall e s rq s' rs fs,
  wstep e s rq = (s', rs, fs) ->
  w_vch s' <> w_vch s \/ w_ach s' <> w_ach s ->
  exists q, rq_cmd rq = CWrap q /\ wq_meth q = WmSetup /\ w_status s <> WPlaying /\
            w_inited s = true /\ w_closed s = false.
Proof.
  intros e s rq s' rs fs Hs Hne. unfold wstep, wstep_gen in Hs.
  destruct (rq_cmd rq) eqn:Hcmd; destruct (w_closed s) eqn:Hc; destruct (w_inited s) eqn:Hi;
    cbn [negb andb] in Hs;
    try (repeat break_hyp; inv_pairs; cbn in Hne; destruct Hne as [N | N]; exfalso; apply N; reflexivity).
  exists q. split; [reflexivity|].
  destruct (wrtsp_step true e s q) as [[s1 c] fs1] eqn:Hr.
  assert (Hne1 : w_vch s1 <> w_vch s \/ w_ach s1 <> w_ach s).
  { destruct (is_wteardown (wq_meth q)); inv_pairs; exact Hne. }
  clear Hs Hne. unfold wrtsp_step, wdo_play, wdo_describe, wdo_setup, wready_of, wset_play, live in Hr.
  destruct (wq_meth q) eqn:Hm; destruct (w_status s) eqn:Hst; cbn [wlegal_go negb] in Hr;
    repeat break_hyp; inv_pairs; cbn in Hne1;
    try (destruct Hne1 as [N | N]; exfalso; apply N; reflexivity);
    repeat split; auto; discriminate.
Qed.

(* no frame for a session whose tracks were never set up with a usable channel *)
Lemma wmedia_needs_track : forall ext s,
  wmedia_of ext s = true -> wflows s = true /\ (chan_ok (w_vch s) = true \/ chan_ok (w_ach s) = true).
Proof.
  intros ext s H. unfold wmedia_of, wtracks in H.
  apply andb_true_iff in H. destruct H as [H _]. apply andb_true_iff in H. destruct H as [Hf Ht].
  split; [assumption | apply orb_true_iff; assumption].
Qed.
