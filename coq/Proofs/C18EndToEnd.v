(* C18: the two levels put together — a manager flushing through the repaired
   EncodeJSONFile, the process dying anywhere, and the server restarting. *)
From Coq Require Import ZArith List Bool.
From V Require Import Bytes C18Tables C18CrashFs C18TableProofs C18CrashProofs.
Import ListNotations.
Open Scope Z_scope.

Section EndToEnd.
  Context {E X : Type}.
  Variable M : tops E X.
  Variable encode : list E -> bytes.
  Variable decode : bytes -> option (list E).
  Variable tgt tmp : path.
  Hypothesis tmp_fresh : tmp <> tgt.
  Hypothesis RT : roundtrip encode decode.

  (* what the file system holds, seen as the [disk] of Model/C18Tables.v *)
  Definition disk_list (d : @disk E) : list E := match d with None => t_default M | Some l => l end.
  Definition fs_holds (s : fs) (d : @disk E) : Prop := fload decode (t_default M) tgt s = Some (disk_list d).

  (* the table of a server started on file system [s]; None = LoadAll fails, the server panics *)
  Definition restart_table (s : fs) : option (list E) :=
    option_map (filter_map (t_reinit M)) (fload decode (t_default M) tgt s).

  (* the file operations of manager.Flush with the JSON provider *)
  Definition flush_ops (st : mstate E) : list fsop :=
    if pend_empty st then [] else safe_flush tgt tmp (encode (m_tab st)).

  Lemma restart_table_holds s d : fs_holds s d -> restart_table s = Some (load M d).
  Proof. unfold fs_holds, restart_table, load, disk_list. intros ->. reflexivity. Qed.

  (* the process dies anywhere in a flush; the restarted server has the table a restart would have
     had before the flush, or exactly the table that was being flushed — it always starts *)
  Theorem crash_restart_table (st : mstate E) d s :
    Forall (stable M) (m_tab st) -> fs_holds s d ->
    forall i k s', In (i, k, s') (crash_states s (flush_ops st)) ->
    restart_table s' = Some (load M d) \/ restart_table s' = Some (m_tab st).
  Proof.
    intros S H i k s' I. unfold flush_ops in I. destruct (pend_empty st).
    - apply no_flush_no_change in I. subst s'. left. apply restart_table_holds. exact H.
    - destruct (crash_atomic encode decode (t_default M) tgt tmp tmp_fresh RT s _ (m_tab st) H i k s' I) as [L|L].
      + left. apply restart_table_holds. exact L.
      + right. unfold restart_table. rewrite L. cbn. f_equal. apply (filter_map_stable M). exact S.
  Qed.

  (* the flush completed: the file system holds the manager's disk of Model/C18Tables.v *)
  Theorem flush_completed_holds (st : mstate E) d s :
    fs_holds s d -> fs_holds (run s (flush_ops st)) (snd (do_flush st d)).
  Proof.
    intros H. unfold flush_ops, do_flush. destruct (pend_empty st); cbn [snd run fold_left]; [exact H|].
    unfold fs_holds. cbn [disk_list]. apply (flush_reload encode decode (t_default M) tgt tmp tmp_fresh RT).
  Qed.
End EndToEnd.
