From Coq Require Import ZArith List Bool Lia Permutation.
From V Require Import Bytes.
Import ListNotations.
Open Scope Z_scope.

Lemma bytes_eqb_eq a b : bytes_eqb a b = true <-> a = b.
Proof.
  revert b; induction a as [|x a IH]; intros [|y b]; simpl; split; intros H;
    try reflexivity; try discriminate.
  - apply andb_true_iff in H as [H1 H2]. apply Z.eqb_eq in H1. apply IH in H2. congruence.
  - inversion H; subst. rewrite Z.eqb_refl. simpl. apply IH. reflexivity.
Qed.

Lemma bytes_eqb_refl a : bytes_eqb a a = true.
Proof. apply bytes_eqb_eq; reflexivity. Qed.

Lemma bytes_eqb_neq a b : bytes_eqb a b = false <-> a <> b.
Proof.
  split; intros H.
  - intros E. apply bytes_eqb_eq in E. congruence.
  - destruct (bytes_eqb a b) eqn:E; [|reflexivity]. apply bytes_eqb_eq in E. contradiction.
Qed.

Lemma bytes_eqb_sym a b : bytes_eqb a b = bytes_eqb b a.
Proof.
  destruct (bytes_eqb a b) eqn:E.
  - apply bytes_eqb_eq in E; subst. symmetry; apply bytes_eqb_refl.
  - symmetry. apply bytes_eqb_neq. apply bytes_eqb_neq in E. congruence.
Qed.

Lemma is_prefix_app p s : is_prefix p s = true <-> exists r, s = p ++ r.
Proof.
  revert s; induction p as [|x p IH]; intros s; simpl.
  - split; [intros _; exists s; reflexivity | reflexivity].
  - destruct s as [|y s].
    + split; [discriminate | intros [r H]; discriminate].
    + rewrite andb_true_iff, Z.eqb_eq, IH. split.
      * intros [-> [r ->]]. exists r; reflexivity.
      * intros [r H]. inversion H; subst. split; [reflexivity | exists r; reflexivity].
Qed.

Lemma is_prefix_length p s : is_prefix p s = true -> (length p <= length s)%nat.
Proof. intros H. apply is_prefix_app in H as [r ->]. rewrite app_length. lia. Qed.

Lemma is_prefix_firstn p s : is_prefix p s = true -> firstn (length p) s = p.
Proof.
  intros H. apply is_prefix_app in H as [r ->].
  rewrite firstn_app, Nat.sub_diag, firstn_all. simpl. apply app_nil_r.
Qed.

(* two prefixes of one string with the same length are equal *)
Lemma prefixes_same_length p q s :
  is_prefix p s = true -> is_prefix q s = true -> length p = length q -> p = q.
Proof.
  intros Hp Hq L. rewrite <- (is_prefix_firstn p s Hp), <- (is_prefix_firstn q s Hq), L. reflexivity.
Qed.

Lemma zlen_nonneg s : 0 <= zlen s.
Proof. unfold zlen; lia. Qed.

Lemma zlen_app a b : zlen (a ++ b) = zlen a + zlen b.
Proof. unfold zlen; rewrite app_length; lia. Qed.

Lemma drop_app_exact a b : drop (zlen a) (a ++ b) = b.
Proof.
  unfold drop, zlen. rewrite Nat2Z.id, skipn_app, skipn_all, Nat.sub_diag. reflexivity.
Qed.

Lemma ends_with_app_last s c : ends_with c (s ++ [c]) = true.
Proof. unfold ends_with, last_byte. rewrite rev_app_distr. simpl. apply Z.eqb_refl. Qed.

Lemma ends_with_split c s : ends_with c s = true -> exists s', s = s' ++ [c].
Proof.
  unfold ends_with, last_byte. destruct (rev s) as [|x r] eqn:E; [discriminate|].
  intros H. apply Z.eqb_eq in H; subst x.
  exists (rev r). rewrite <- (rev_involutive s), E. reflexivity.
Qed.

Lemma last_byte_app s c : last_byte (s ++ [c]) = Some c.
Proof. unfold last_byte. rewrite rev_app_distr. reflexivity. Qed.

Lemma last_byte_none s : last_byte s = None -> s = [].
Proof.
  unfold last_byte. destruct (rev s) eqn:E; [|discriminate]. intros _.
  rewrite <- (rev_involutive s), E. reflexivity.
Qed.

(* find over a permutation when at most one element satisfies the predicate *)
Lemma find_unique_perm {A} (f : A -> bool) (t t' : list A) :
  Permutation t t' ->
  (forall a b, In a t -> In b t -> f a = true -> f b = true -> a = b) ->
  find f t = find f t'.
Proof.
  intros P U.
  destruct (find f t) as [a|] eqn:Ea; destruct (find f t') as [b|] eqn:Eb; try reflexivity.
  - apply find_some in Ea as [Ia Fa]. apply find_some in Eb as [Ib Fb].
    f_equal. apply U; auto. eapply Permutation_in; [apply Permutation_sym; exact P|exact Ib].
  - apply find_some in Ea as [Ia Fa].
    pose proof (find_none _ _ Eb a (Permutation_in _ P Ia)). congruence.
  - apply find_some in Eb as [Ib Fb].
    pose proof (find_none _ _ Ea b (Permutation_in _ (Permutation_sym P) Ib)). congruence.
Qed.

Lemma forallb_perm {A} (f : A -> bool) t t' : Permutation t t' -> forallb f t = forallb f t'.
Proof.
  induction 1; simpl; try congruence.
  - rewrite !andb_assoc, (andb_comm (f y)). reflexivity.
Qed.

Lemma find_ext {A} (f g : A -> bool) l : (forall x, f x = g x) -> find f l = find g l.
Proof. intros H. induction l as [|a l IH]; simpl; [reflexivity|]. rewrite H, IH. reflexivity. Qed.

Lemma NoDup_app_iff_local {A} (l : list A) (x : A) : NoDup l -> ~ In x l -> NoDup (l ++ [x]).
Proof.
  induction l as [|a l IH]; simpl; intros N I; [constructor; [intros []|constructor]|].
  inversion N as [|? ? N1 N2]; subst. constructor.
  - intros H. apply in_app_or in H as [H|[H|[]]]; [contradiction|]. subst. apply I. left. reflexivity.
  - apply IH; [exact N2|]. intros H. apply I. right. exact H.
Qed.
