(* C09 — source level: Annex-B layout of the video PES, ADTS framing of the
   audio PES, and the oracle on the packetizers' output *)
From Coq Require Import ZArith List Bool Lia ZifyBool.
From V Require Import Bytes BytesLemmas C09Adts C09TsFrame C09TsWriter C09TsDemux
  C09BitLemmas C09CodecProofs C09PacketProofs C09StreamProofs.
Import ListNotations.
Open Scope Z_scope.
Ltac Zify.zify_post_hook ::= Z.div_mod_to_equations.

(* ---- Annex-B ---- *)
Lemma annexb_layout sps pps nal t : is_paramset_type t = false ->
  prepare_avc_header sps pps t ++ nal = spec_video_es sps pps nal t.
Proof.
  intros Hp. unfold prepare_avc_header, spec_video_es, spec_video_units. rewrite Hp.
  destruct (t =? 5) eqn:E5.
  - apply Z.eqb_eq in E5. subst t. cbn [Z.eqb Pos.eqb orb].
    destruct sps as [| s0 sps]; destruct pps as [| p0 pps]; cbn [app annexb_encode annexb_encode_tail AUD_NAL AUD_UNIT SC4 SC3];
      rewrite <- ?app_assoc; cbn [app]; rewrite <- ?app_assoc; reflexivity.
  - destruct (t =? 1), (t =? 6); cbn [orb app annexb_encode annexb_encode_tail AUD_NAL AUD_UNIT SC4 SC3]; reflexivity.
Qed.

(* before the repair: an in-band SPS/PPS/AUD went out behind an empty header *)
Lemma annexb_paramset_refuted :
  exists sps pps c f,
    packetize_h264_prefix sps pps c = PkFrame f /\
    f_hdr f ++ f_pay f = c_pay c /\ is_prefix SC3 (f_hdr f ++ f_pay f) = false /\
    is_prefix SC4 (f_hdr f ++ f_pay f) = false.
Proof.
  exists [0x67; 1], [0x68; 2], {| c_video := true; c_dts := 0; c_pts := 0; c_pay := [0x67; 0x42; 0; 0x1e] |}.
  eexists. split; [reflexivity |]. vm_compute. auto.
Qed.

(* ---- ADTS ---- *)
Lemma zrange_forall (P : Z -> bool) (n : nat) :
  forallb P (map Z.of_nat (seq 0 n)) = true -> forall z, 0 <= z < Z.of_nat n -> P z = true.
Proof.
  intros H z Hz. rewrite forallb_forall in H. apply H.
  replace z with (Z.of_nat (Z.to_nat z)) by lia. apply in_map. apply in_seq. lia.
Qed.

Definition adts_a (profile sidx chan n : Z) : bytes :=
  [255; 241; profile * 64 + sidx * 4 + chan / 4; (chan mod 4) * 64 + (n + 7) / 2048;
   ((n + 7) / 8) mod 256; ((n + 7) mod 8) * 32 + 31; 252].

Lemma adts_b2 profile sidx chan : 0 <= profile < 4 -> 0 <= sidx < 16 -> 0 <= chan < 8 ->
  Z.lor (Z.lor (Z.land (a_u8 (Z.shiftl profile 6)) 192) (Z.land (a_u8 (Z.shiftl sidx 2)) 60))
        (Z.land (Z.shiftr chan 2) 1) = profile * 64 + sidx * 4 + chan / 4.
Proof.
  intros Hp Hs Hc.
  pose (P := fun p => forallb (fun s => forallb (fun c =>
     Z.lor (Z.lor (Z.land (a_u8 (Z.shiftl p 6)) 192) (Z.land (a_u8 (Z.shiftl s 2)) 60))
           (Z.land (Z.shiftr c 2) 1) =? p * 64 + s * 4 + c / 4) (map Z.of_nat (seq 0 8))) (map Z.of_nat (seq 0 16))).
  assert (H : forallb P (map Z.of_nat (seq 0 4)) = true) by (vm_compute; reflexivity).
  pose proof (zrange_forall P 4 H profile ltac:(lia)) as H1. unfold P in H1.
  pose proof (zrange_forall _ 16 H1 sidx ltac:(lia)) as H2. cbv beta in H2.
  pose proof (zrange_forall _ 8 H2 chan ltac:(lia)) as H3. cbv beta in H3.
  apply Z.eqb_eq in H3. exact H3.
Qed.

Lemma adts_b3 chan q : 0 <= chan < 8 -> 0 <= q < 4 ->
  Z.lor (Z.land (a_u8 (Z.shiftl chan 6)) 192) (a_u8 (Z.land q 3)) = (chan mod 4) * 64 + q.
Proof.
  intros Hc Hq.
  pose (P := fun c => forallb (fun q =>
     Z.lor (Z.land (a_u8 (Z.shiftl c 6)) 192) (a_u8 (Z.land q 3)) =? (c mod 4) * 64 + q) (map Z.of_nat (seq 0 4))).
  assert (H : forallb P (map Z.of_nat (seq 0 8)) = true) by (vm_compute; reflexivity).
  pose proof (zrange_forall P 8 H chan ltac:(lia)) as H1. unfold P in H1.
  pose proof (zrange_forall _ 4 H1 q ltac:(lia)) as H2. cbv beta in H2.
  apply Z.eqb_eq in H2. exact H2.
Qed.

Lemma adts_b5 r : 0 <= r < 8 ->
  Z.lor (a_u8 (Z.land (r * 32) 224)) 31 = r * 32 + 31.
Proof.
  intros Hr.
  pose (P := fun r => Z.lor (a_u8 (Z.land (r * 32) 224)) 31 =? r * 32 + 31).
  assert (H : forallb P (map Z.of_nat (seq 0 8)) = true) by (vm_compute; reflexivity).
  pose proof (zrange_forall P 8 H r ltac:(lia)) as H1. unfold P in H1.
  apply Z.eqb_eq in H1. exact H1.
Qed.

Lemma a_u8_mod z : a_u8 z = z mod 256.
Proof. unfold a_u8. change 255 with (Z.ones 8). rewrite Z.land_ones by lia. reflexivity. Qed.

Lemma adts_header_arith profile sidx chan n :
  0 <= profile < 4 -> 0 <= sidx < 16 -> 0 <= chan < 8 -> 0 <= n -> n + 7 < 8192 ->
  adts_header profile sidx chan n = adts_a profile sidx chan n.
Proof.
  intros Hp Hs Hc Hn Hn'. unfold adts_header, adts_a.
  rewrite adts_b2 by lia.
  rewrite (shiftr_div (n + 7) 11) by lia. rewrite (shiftr_div (n + 7) 3) by lia.
  rewrite (shiftl_mul (n + 7) 5) by lia.
  change (2 ^ 11) with 2048. change (2 ^ 3) with 8. change (2 ^ 5) with 32.
  assert (E3 : Z.land ((n + 7) / 2048) 3 = (n + 7) / 2048).
  { change 3 with (2 ^ 2 - 1). rewrite land_ones' by lia. lia. }
  rewrite <- E3 at 1.
  rewrite adts_b3 by lia. rewrite E3.
  assert (E4 : a_u8 (Z.land ((n + 7) / 8) 255) = (n + 7) / 8 mod 256).
  { rewrite a_u8_mod. change 255 with (2 ^ 8 - 1). rewrite land_ones' by lia. change (2 ^ 8) with 256. lia. }
  rewrite E4.
  (* (F*32) land 0xe0 depends on F mod 8 only *)
  assert (E5 : Z.land ((n + 7) * 32) 224 = Z.land (((n + 7) mod 8) * 32) 224).
  { change 224 with (Z.land 255 224). rewrite !Z.land_assoc.
    change 255 with (Z.ones 8). rewrite !Z.land_ones by lia. f_equal. lia. }
  rewrite E5, adts_b5 by lia.
  repeat (apply (f_equal2 (@cons Z)); [try reflexivity; lia |]). reflexivity.
Qed.

Lemma adts_parse1_header profile sidx chan pay rest :
  0 <= profile < 4 -> 0 <= sidx < 16 -> 0 <= chan < 8 -> zlen pay + 7 < 8192 ->
  adts_parse1 (adts_a profile sidx chan (zlen pay) ++ pay ++ rest) =
  Some ({| ad_profile := profile; ad_sidx := sidx; ad_chan := chan; ad_payload := pay |}, rest).
Proof.
  intros Hp Hs Hc Hn. pose proof (zlen_nonneg pay) as Hn0. pose proof (zlen_nonneg rest) as Hr0.
  unfold adts_a. cbn [app]. unfold adts_parse1.
  set (n := zlen pay) in *.
  change (255 =? 255) with true. change (241 / 16 =? 15) with true.
  change (241 / 2 mod 4 =? 0) with true. change (241 mod 2 =? 1) with true. cbn [andb].
  change (252 mod 4 =? 0) with true.
  set (b2 := profile * 64 + sidx * 4 + chan / 4).
  set (b3 := chan mod 4 * 64 + (n + 7) / 2048).
  set (b4 := (n + 7) / 8 mod 256).
  set (b5 := (n + 7) mod 8 * 32 + 31).
  assert (Hf : b3 mod 4 * 2048 + b4 * 8 + b5 / 32 = n + 7) by (subst b3 b4 b5; lia).
  rewrite Hf. rewrite zlen_app. fold n.
  replace ((7 <=? n + 7) && (n + 7 - 7 <=? n + zlen rest) && true) with true by lia.
  replace (n + 7 - 7) with n by lia.
  subst n. rewrite take_app_exact, drop_app_exact'.
  replace (b2 / 64) with profile by (subst b2; lia).
  replace (b2 / 4 mod 16) with sidx by (subst b2; lia).
  replace (b2 mod 2 * 4 + b3 / 64) with chan by (subst b2 b3; lia).
  reflexivity.
Qed.

Definition adts_enc (a : asc) (pay : bytes) : bytes := to_adts_header a (zlen pay) ++ pay.
Definition adts_dec (a : asc) (pay : bytes) : adts_frame :=
  {| ad_profile := asc_obj a - 1; ad_sidx := asc_sidx a; ad_chan := asc_chan a; ad_payload := pay |}.

Lemma asc_plain_bounds a : asc_plain a = true ->
  1 <= asc_obj a <= 4 /\ 0 <= asc_sidx a <= 12 /\ 0 <= asc_chan a <= 7.
Proof. unfold asc_plain. intros H. lia. Qed.

Lemma adts_enc_parse1 a pay rest : asc_plain a = true -> zlen pay + 7 < 8192 ->
  adts_parse1 (adts_enc a pay ++ rest) = Some (adts_dec a pay, rest).
Proof.
  intros Ha Hn. apply asc_plain_bounds in Ha. pose proof (zlen_nonneg pay).
  unfold adts_enc, to_adts_header. rewrite a_u8_mod.
  replace ((asc_obj a - 1) mod 256) with (asc_obj a - 1) by lia.
  rewrite adts_header_arith by lia. rewrite <- app_assoc.
  rewrite adts_parse1_header by lia. reflexivity.
Qed.

Lemma adts_enc_cons a pay rest : exists x s, adts_enc a pay ++ rest = x :: s /\ (length rest < length (x :: s))%nat.
Proof.
  unfold adts_enc, to_adts_header, adts_header. cbn [app]. eexists. eexists. split; [reflexivity |].
  cbn [length]. rewrite !app_length. lia.
Qed.

(* frames whose lengths chain: any number of consecutive ADTS frames parses back *)
Lemma adts_chain_fuel a pays : asc_plain a = true -> Forall (fun p => zlen p + 7 < 8192) pays ->
  forall fuel, (length (concat (map (adts_enc a) pays)) <= fuel)%nat ->
  adts_parse_fuel fuel (concat (map (adts_enc a) pays)) = Some (map (adts_dec a) pays).
Proof.
  intros Ha Hall. induction Hall as [| p pays Hp Hall IH]; intros fuel Hf.
  - destruct fuel; reflexivity.
  - cbn [map concat] in *.
    destruct (adts_enc_cons a p (concat (map (adts_enc a) pays))) as (x & s & Es & Hlt).
    destruct fuel as [| k]; [rewrite Es in Hf; cbn in Hf; lia |].
    rewrite Es. cbn [adts_parse_fuel]. rewrite <- Es.
    rewrite adts_enc_parse1 by assumption.
    rewrite IH; [reflexivity |]. rewrite Es in Hf. cbn [length] in *. lia.
Qed.

Theorem adts_chain a pays : asc_plain a = true -> Forall (fun p => zlen p + 7 < 8192) pays ->
  adts_parse (concat (map (adts_enc a) pays)) = Some (map (adts_dec a) pays).
Proof. intros. apply adts_chain_fuel; auto. Qed.

Lemma adts_single a pay : asc_plain a = true -> zlen pay + 7 < 8192 ->
  adts_parse (to_adts_header a (zlen pay) ++ pay) = Some [adts_dec a pay].
Proof.
  intros Ha Hn.
  assert (Hall : Forall (fun p => zlen p + 7 < 8192) [pay]) by (constructor; [exact Hn | constructor]).
  pose proof (adts_chain a [pay] Ha Hall) as H.
  cbn [map concat] in H. rewrite app_nil_r in H. exact H.
Qed.

Lemma adts_frame_eqb_refl f : adts_frame_eqb f f = true.
Proof. unfold adts_frame_eqb. rewrite !Z.eqb_refl, bytes_eqb_refl. reflexivity. Qed.

(* ---- the packetizers ---- *)
Lemma video_unit_ok sps pps a c t u :
  c_video c = true -> nal_type (c_pay c) = Some t -> is_paramset_type t = false ->
  unit_ok {| f_pid := TS_VIDEO_PID; f_sid := TS_VIDEO_AVC; f_dts := to_90k (c_dts c); f_pts := to_90k (c_pts c);
             f_hdr := prepare_avc_header sps pps t; f_pay := c_pay c; f_key := t =? 5 |} u = true ->
  src_unit_ok sps pps a c u = true.
Proof.
  intros Hv Ht Hp H. unfold src_unit_ok. rewrite Hv, Ht.
  unfold unit_ok in H. cbn [f_pid f_sid f_dts f_pts f_hdr f_pay f_key] in H.
  apply andb_true_iff in H. destruct H as (Hfl & H). rewrite Hfl.
  destruct (parse_pes (u_data u)) as [p |]; [| discriminate].
  apply andb_true_iff in H. destruct H as (Hst & Hb). rewrite Hst.
  apply bytes_eqb_eq in Hb. rewrite Hb, annexb_layout by exact Hp.
  rewrite bytes_eqb_refl. reflexivity.
Qed.

Lemma audio_unit_ok sps pps a c u :
  c_video c = false -> asc_plain a = true -> zlen (c_pay c) + 7 < 8192 ->
  unit_ok {| f_pid := TS_AUDIO_PID; f_sid := TS_AUDIO_AAC; f_dts := to_90k (c_pts c); f_pts := to_90k (c_pts c);
             f_hdr := to_adts_header a (zlen (c_pay c)); f_pay := c_pay c; f_key := false |} u = true ->
  src_unit_ok sps pps a c u = true.
Proof.
  intros Hv Ha Hn H. unfold src_unit_ok. rewrite Hv.
  unfold unit_ok in H. cbn [f_pid f_sid f_dts f_pts f_hdr f_pay f_key] in H.
  apply andb_true_iff in H. destruct H as (Hfl & H). rewrite Hfl.
  destruct (parse_pes (u_data u)) as [p |]; [| discriminate].
  apply andb_true_iff in H. destruct H as (Hst & Hb). rewrite Hst.
  apply bytes_eqb_eq in Hb. rewrite Hb, adts_single by assumption.
  unfold adts_dec. rewrite adts_frame_eqb_refl. reflexivity.
Qed.

Lemma packetize_all_spec a afs : asc_plain a = true ->
  forallb (fun af => wf_cframe (a_c af)) afs = true ->
  exists fs, packetize_all a afs = Some fs /\ wf_frames fs = true /\
    forall us, units_ok unit_ok (filter has_payload fs) us = true ->
               units_ok (asrc_unit_ok a) (filter asrc_carried afs) us = true.
Proof.
  intros Ha. induction afs as [| af afs IH]; intros Hwf.
  - exists []. repeat split; auto.
  - cbn [forallb] in Hwf. apply andb_true_iff in Hwf. destruct Hwf as (Hc & Hwf).
    destruct (IH Hwf) as (fs & Hfs & Hwfs & Hunits). clear IH.
    destruct af as [sps pps c]. cbn [a_c] in Hc.
    cbn [packetize_all filter a_sps a_pps a_c]. unfold packetize. unfold asrc_carried at 1. cbn [a_c].
    unfold src_carried. unfold wf_cframe in Hc.
    destruct (c_video c) eqn:Hv.
    + (* video *)
      unfold packetize_h264.
      destruct (c_pay c) as [| b0 pay'] eqn:Epay; [rewrite !andb_false_r in Hc; discriminate |].
      rewrite <- Epay. assert (Ht : nal_type (c_pay c) = Some (Z.land b0 31)) by (rewrite Epay; reflexivity).
      rewrite Ht. destruct (is_paramset_type (Z.land b0 31)) eqn:Ep; cbn [negb].
      * exists fs. auto.
      * rewrite Hfs. eexists. split; [reflexivity |]. split; [unfold wf_frames in *; cbn [forallb]; rewrite Hwfs; reflexivity |].
        intros us. cbn [filter]. unfold has_payload at 1. cbn [f_pay]. rewrite Epay at 1.
        destruct us as [| u us]; [cbn; discriminate |]. cbn [units_ok].
        intros H. apply andb_true_iff in H. destruct H as (Hu & Hus).
        unfold asrc_unit_ok at 1. cbn [a_sps a_pps a_c].
        rewrite (video_unit_ok sps pps a c (Z.land b0 31) u Hv Ht Ep Hu), (Hunits us Hus). reflexivity.
    + (* audio *)
      assert (Hn : zlen (c_pay c) + 7 < 8192).
      { apply andb_true_iff in Hc. destruct Hc as (_ & Hc). apply Z.ltb_lt in Hc. exact Hc. }
      unfold packetize_aac. rewrite Hfs. eexists. split; [reflexivity |].
      split; [unfold wf_frames in *; cbn [forallb]; rewrite Hwfs; reflexivity |].
      intros us. cbn [filter]. unfold has_payload at 1. cbn [f_pay].
      destruct (c_pay c) as [| b0 pay'] eqn:Epay.
      * apply Hunits.
      * rewrite <- Epay. destruct us as [| u us]; [cbn; discriminate |]. cbn [units_ok].
        intros H. apply andb_true_iff in H. destruct H as (Hu & Hus).
        unfold asrc_unit_ok at 1. cbn [a_sps a_pps a_c].
        rewrite (audio_unit_ok sps pps a c u Hv Ha ltac:(rewrite Epay; exact Hn) Hu), (Hunits us Hus). reflexivity.
Qed.

(* events: parameter sets may change between frames; every key frame carries the ones current at its time *)
Theorem mux_events_passes sps0 pps0 a evs : wf_mux_ev sps0 pps0 a evs = true ->
  exists out, mux_events sps0 pps0 a evs = MuxBytes out /\
              ok_muxa a (annotate sps0 pps0 evs) out = true.
Proof.
  unfold wf_mux_ev, wf_aframes. intros H. apply andb_true_iff in H. destruct H as (Ha & Hwf).
  destruct (packetize_all_spec a _ Ha Hwf) as (fs & Hfs & Hwfs & Hunits).
  unfold mux_events. rewrite Hfs. eexists. split; [reflexivity |].
  destruct (ts_stream_spec fs Hwfs) as (ks & us & _ & _ & Hu & Hok).
  unfold ok_muxa. rewrite Hu, psi_units_ok, (Hunits us Hok). reflexivity.
Qed.

Lemma annotate_frames_wf sps pps cs :
  forallb (fun af => wf_cframe (a_c af)) (annotate sps pps (map EvFrame cs)) = forallb wf_cframe cs.
Proof. induction cs as [| c cs IH]; [reflexivity |]. cbn [map annotate forallb a_c]. rewrite IH. reflexivity. Qed.

Theorem mux_passes sps pps a cs : wf_mux a cs = true ->
  exists out, mux_all sps pps a cs = MuxBytes out /\ ok_mux sps pps a cs out = true.
Proof.
  intros H. apply mux_events_passes. unfold wf_mux_ev, wf_aframes. rewrite annotate_frames_wf. exact H.
Qed.
