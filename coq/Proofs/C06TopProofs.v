(* C06 — the named theorems (statements used by Properties/C06.v), the oracle
   theorem on the wire-level case record, and witnesses of the behaviour before
   the fixes (D8, D9) and of the remaining known finding (D10). *)
From Coq Require Import ZArith List Bool Lia ZifyBool.
From V Require Import Val Bytes BytesLemmas C06Rtp C06NalDepack C06H264Depack C06H265Depack C06AacDepack
  C06SyncClock C06Demux C06BaseProofs C06NalProofs C06H26xProofs C06AacProofs C06DemuxProofs C06PickProofs RunC06.
Import ListNotations.
Open Scope Z_scope.

Theorem h264_roundtrip : forall seq0 items st,
  forallb (item_ok z264) items = true -> w_ready (g_w st) = true ->
  exists st', depack264 st (packetize264 seq0 items)
              = (st', filter (fun f => keep264 (u_pl f)) (flat_map item_frames items), false).
Proof.
  intros seq0 items st OK R. destruct (h264_items_all seq0 items 0 st OK R) as [st' [E _]]. exists st'. exact E.
Qed.

Theorem h265_roundtrip : forall seq0 items st,
  forallb (item_ok z265) items = true -> w_ready (g_w st) = true ->
  exists st', depack265 st (packetize265 seq0 items) = (st', flat_map item_frames items, false).
Proof.
  intros seq0 items st OK R. destruct (h265_items_all seq0 items 0 st OK R) as [st' [E _]]. exists st'.
  unfold keep265 in E. rewrite filter_true in E. exact E.
Qed.

Theorem aac_roundtrip : forall seq0 items,
  forallb aac_item_ok items = true ->
  aac_run (packetize_aac seq0 0 items) = (flat_map aac_item_frames items, false).
Proof. intros. apply aac_items_all. assumption. Qed.

Theorem fu_whole_or_nothing_264 : forall seq0 items mask,
  forallb (item_ok z264) items = true ->
  length mask = total_pk items -> Z.of_nat (total_pk items) <= 65536 ->
  exists st', depack264 st264_init (select mask (packetize264 seq0 items))
              = (st', spec_loss keep264 items mask, false).
Proof.
  intros seq0 items mask OK LM B.
  assert (ST : stale seq0 [] 0) by (left; reflexivity).
  assert (K0 : 0 <= 0) by lia.
  assert (B' : 0 + Z.of_nat (total_pk items) <= 65536) by lia.
  destruct (h264_items_loss seq0 items 0 [] (mkW true true true true) mask OK eq_refl ST K0 LM B') as (F' & w' & E & _).
  exists (mkG F' w'). exact E.
Qed.

Theorem fu_whole_or_nothing_265 : forall seq0 items mask,
  forallb (item_ok z265) items = true ->
  length mask = total_pk items -> Z.of_nat (total_pk items) <= 65536 ->
  exists st', depack265 st265_init (select mask (packetize265 seq0 items))
              = (st', spec_loss keep265 items mask, false).
Proof.
  intros seq0 items mask OK LM B.
  assert (ST : stale seq0 [] 0) by (left; reflexivity).
  assert (K0 : 0 <= 0) by lia.
  assert (B' : 0 + Z.of_nat (total_pk items) <= 65536) by lia.
  destruct (h265_items_loss seq0 items 0 [] (mkW true true true true) mask OK eq_refl ST K0 LM B') as (F' & w' & E & _).
  exists (mkG F' w'). exact E.
Qed.

Theorem aac_whole_or_nothing : forall seq0 items mask,
  forallb aac_item_ok items = true -> length mask = length items ->
  aac_run (select mask (packetize_aac seq0 0 items)) = (aac_spec_loss items mask, false).
Proof. intros. apply aac_items_loss; assumption. Qed.

(* what spec_loss means: a unit is in the output iff every packet of its item survived *)
Theorem spec_loss_full keep items mask :
  length mask = total_pk items -> all_true mask = true ->
  spec_loss keep items mask = filter (fun f => keep (u_pl f)) (flat_map item_frames items).
Proof.
  revert mask. induction items as [|it r IH]; intros mask LM AT; [reflexivity|].
  simpl in *. rewrite (all_true_split (npk it)) in AT. apply andb_true_iff in AT as [A1 A2].
  rewrite A1, IH; auto; [|rewrite skipn_length; lia]. rewrite filter_app. reflexivity.
Qed.

(* ---- presentation times ---- *)
Theorem pts_same_timestamp : forall c clock base it o,
  c <> CAAC -> In o (map (to_oframe c clock base) (true_frames c it)) ->
  o_pts o = pts_of clock base (item_ts it).
Proof.
  intros c clock base it o NA H. apply in_map_iff in H as (f & <- & Hin). unfold to_oframe. cbn [o_pts].
  destruct c; [| |contradiction]; simpl in Hin.
  - apply filter_In in Hin as [Hin _]. apply in_map_iff in Hin as (u & <- & _). reflexivity.
  - apply in_map_iff in Hin as (u & <- & _). reflexivity.
Qed.

(* differences of presentation times are differences of the scaled distances
   to the clock base: the 0.5 s delay cancels and nothing else enters *)
Theorem pts_affine : forall clock base t1 t2,
  pts_of clock base t2 - pts_of clock base t1 = scale clock (t2 - base) - scale clock (t1 - base).
Proof. intros. unfold pts_of. lia. Qed.

(* D10: with a wrapping 32-bit timestamp a later unit is presented 13 hours earlier *)
Theorem pts_wrap_refuted : exists clock base t1 t2,
  t1 < t2 /\ t2 - t1 = 512 /\ pts_of clock base (ts32 t2) < pts_of clock base (ts32 t1).
Proof. exists 90000, 0, 4294967040, 4294967552. vm_compute. repeat split; reflexivity. Qed.

(* ---- the oracle applied to the implementation ---- *)
Theorem C06_model_passes_run : forall k,
  k_mode k = 0 ->
  case_wf (k_cd k) (k_clock k) (k_seq0 k) (k_items k) (k_mask k) = true ->
  let '(fs, pn) := run_case k in ok_case k fs pn = true.
Proof.
  intros k M WF. unfold run_case, ok_case, case_events. rewrite M. cbn [Z.eqb].
  pose proof (model_passes_loss _ _ _ _ _ WF) as H.
  destruct (drun (k_cd k) (k_clock k) dst_init (select (k_mask k) (tevents (k_cd k) (k_seq0 k) 0 (k_items k)))) as [[st fs] pn].
  exact H.
Qed.

(* both modes: loss mask (exact) and rearrangement (nothing spliced or invented) *)
Theorem C06_model_passes_all : forall k,
  case_guard k = true -> let '(fs, pn) := run_case k in ok_case k fs pn = true.
Proof.
  intros k G. unfold case_guard in G. destruct (k_mode k =? 0) eqn:M.
  - apply C06_model_passes_run; auto. lia.
  - apply andb_true_iff in G as [OK FEW].
    unfold run_case, ok_case, case_events. rewrite M.
    pose proof (model_passes_pick (k_cd k) (k_clock k) (k_seq0 k) (k_items k) (k_ix k) OK) as H.
    destruct (drun (k_cd k) (k_clock k) dst_init (pick (k_ix k) (tevents (k_cd k) (k_seq0 k) 0 (k_items k)))) as [[st fs] pn].
    apply H. lia.
Qed.

(* fu_never_spliced at the depacketiser level: packets of one packetisation in
   ANY order, with repetitions and omissions; whatever comes out is a source unit *)
Theorem fu_never_spliced_264 : forall seq0 items ix,
  forallb (item_ok z264) items = true -> Z.of_nat (total_pk items) <= 65536 ->
  exists st' fs, depack264 st264_init (pick ix (packetize264 seq0 items)) = (st', fs, false) /\
                 forall f, In f fs -> In f (filter (fun f => keep264 (u_pl f)) (flat_map item_frames items)).
Proof.
  intros seq0 items ix OK FEW.
  destruct (h264_never_spliced seq0 items OK FEW (pick ix (packetize264 seq0 items)) [] (mkW true true true true))
    as (F' & w' & fs & E & _ & _ & A).
  - apply Forall_forall. intros p Hp. apply pick_in in Hp.
    exact (h264_packetize_prov seq0 items items [] p eq_refl Hp).
  - left. reflexivity.
  - reflexivity.
  - exists (mkG F' w'), fs. split; [exact E|exact A].
Qed.

Theorem fu_never_spliced_265 : forall seq0 items ix,
  forallb (item_ok z265) items = true -> Z.of_nat (total_pk items) <= 65536 ->
  exists st' fs, depack265 st265_init (pick ix (packetize265 seq0 items)) = (st', fs, false) /\
                 forall f, In f fs -> In f (flat_map item_frames items).
Proof.
  intros seq0 items ix OK FEW.
  destruct (h265_never_spliced seq0 items OK FEW (pick ix (packetize265 seq0 items)) [] (mkW true true true true))
    as (F' & w' & fs & E & _ & _ & A).
  - apply Forall_forall. intros p Hp. apply pick_in in Hp.
    exact (h265_packetize_prov seq0 items items [] p eq_refl Hp).
  - left. reflexivity.
  - reflexivity.
  - exists (mkG F' w'), fs. split; [exact E|]. intros f Hf. specialize (A f Hf).
    unfold allowed, fkeep, keep265 in A. rewrite filter_true in A. exact A.
Qed.

(* ---- behaviour before the fixes ---- *)
(* D8: h264 depacketizeFuA without the empty-buffer check *)
Definition fu_step_d8 (c : codec) (st : gst) (p : packet) : gst * res :=
  let pl := p_pl p in
  let w := g_w st in
  match idx pl (c_fu_off c - 1) with
  | None => (st, RPanic)
  | Some fuh =>
    let start := Z.land (Z.shiftr fuh 7) 1 =? 1 in
    let fin := Z.land (Z.shiftr fuh 6) 1 =? 1 in
    let frags0 := if start then [] else g_frags st in
    let chained := match last_seq frags0 with
                   | None => true                  (* pre-fix: anything enters an empty buffer *)
                   | Some ls => ls =? seq_prev (p_seq p)
                   end in
    if negb chained then (mkG [] w, ROk [])
    else
      let frags1 := frags0 ++ [(p_seq p, pl)] in
      if negb fin then (mkG frags1 w, ROk [])
      else match fu_data (c_fu_off c) frags1 with
           | None => (mkG [] w, RPanic)
           | Some d => let '(w', r) := gwrite c w (p_ts p) (c_rebuild c pl fuh ++ d) in (mkG [] w', r)
           end
  end.

(* the unit 61 11 22 aa bb cc dd in three fragments; the start fragment is lost;
   the pre-fix code emits the truncated unit 61 aa bb cc dd, the fixed model nothing *)
Definition d8_items := [IFrag 1000 true [97; 17; 34; 170; 187; 204; 221] [2; 2]].
Theorem h264_fu_start_loss_refuted :
  let ps := select [false; true; true] (packetize264 11 d8_items) in
  (exists st1 st2, fu_step_d8 c264 st264_init (nth 0 ps (mkP 0 0 false [])) = (st1, ROk []) /\
                   fu_step_d8 c264 st1 (nth 1 ps (mkP 0 0 false [])) = (st2, ROk [mkU 1000 [97; 170; 187; 204; 221]]))
  /\ snd (fst (depack264 st264_init ps)) = [].
Proof. vm_compute. split; [eexists; eexists; split; reflexivity | reflexivity]. Qed.

(* D9: STAP-A loop that rewrites F/NRI of each aggregated header from the STAP-A header *)
Definition stapa_rewrite (stap_hdr : Z) (u : bytes) : bytes :=
  match u with h :: r => Z.lor (Z.land stap_hdr 96) (Z.land h 31) :: r | [] => [] end.
Theorem stap_nri_rewrite_refuted :
  let us := [[6; 1; 2]; [101; 9]] in
  let pl := p_pl (nth 0 (packetize264 13 [IAgg 1000 true us]) (mkP 0 0 false [])) in
  pl = [120; 0; 3; 6; 1; 2; 0; 2; 101; 9] /\
  map (stapa_rewrite 120) us = [[102; 1; 2]; [101; 9]] /\
  map (stapa_rewrite 120) us <> us /\
  snd (fst (depack264 st264_init (packetize264 13 [IAgg 1000 true us]))) = map (mkU 1000) us.
Proof. vm_compute. repeat split; try reflexivity. discriminate. Qed.

(* non-vacuity: a plan with aggregation, a 4-fragment unit crossing the
   sequence wrap, a sender report and a lost middle fragment is well-formed;
   the specification keeps the aggregated units and drops the fragmented one *)
Definition nv_items : list titem :=
  [TSr 1000 5 6; TData (IAgg 3000 false [[103; 66; 0]; [104; 206]]);
   TData (IFrag 6000 true [101; 1; 2; 3; 4; 5; 6; 7] [2; 2; 2]); TData (ISingle 9000 true [9; 240])].
Definition nv_mask := [true; true; true; true; false; true; true].
Theorem C06_nonvacuous :
  case_wf CH264 90000 65534 nv_items nv_mask = true /\
  tspec CH264 90000 0 nv_items nv_mask =
    [mkO 0 522222222 [103; 66; 0]; mkO 0 522222222 [104; 206]; mkO 0 588888888 [9; 240]].
Proof. vm_compute. split; reflexivity. Qed.

(* known finding pts-rebase-at-first-sr: with a sender report behind media the code's
   stamping (tspec, which the model follows) is not the one-clock specification *)
Theorem pts_rebase_refuted :
  let items := [TData (ISingle 93600 true [65; 1; 2]); TSr 2147483648 0 0; TData (ISingle 97200 true [65; 3; 4])] in
  sr_before_data false items = false /\
  tspec CH264 90000 0 items [true; true; true] = [mkO 0 1540000000 [65; 1; 2]; mkO 0 (-23859349422222) [65; 3; 4]] /\
  tspec_one CH264 90000 items [true; true; true] <> tspec CH264 90000 0 items [true; true; true].
Proof. vm_compute. repeat split; try reflexivity. discriminate. Qed.
