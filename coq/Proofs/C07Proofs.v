(* C07 — totality of the depacketisers / sender-report decoder / cache
   classifiers on every byte string, and resynchronisation after garbage. *)
From Coq Require Import ZArith List Bool Lia ZifyBool.
From V Require Import Val Bytes BytesLemmas C06Rtp C06NalDepack C06H264Depack C06H265Depack C06AacDepack
  C06SyncClock C06Demux C06BaseProofs C06NalProofs C06H26xProofs C06AacProofs C06DemuxProofs C07Cache C07Contain.
Import ListNotations.
Open Scope Z_scope.

(* ================= generic depacketiser: no panic, invariant kept ================= *)
Section Total.
Variable c : codec.
Hypothesis T_single : forall pl, c_kind c pl = KSingle -> pl <> [].
Hypothesis T_fu : forall pl, c_kind c pl = KFu ->
  (zlen pl <? c_fu_off c) = false /\ (exists fuh, idx pl (c_fu_off c - 1) = Some fuh) /\
  forall fuh, c_rebuild c pl fuh <> [].
Hypothesis T_write : forall w pl, pl <> [] ->
  exists w' b, c_write c w pl = Some (w', b) /\ (w_ready w = true -> w_ready w' = true).

Definition frames_nonempty (fs : list uframe) : Prop := forall f, In f fs -> u_pl f <> [].

Lemma gwrite_total w ts pl : pl <> [] ->
  exists w' fs, gwrite c w ts pl = (w', ROk fs) /\ (w_ready w = true -> w_ready w' = true) /\ frames_nonempty fs.
Proof.
  intros N. destruct (T_write w pl N) as (w' & b & E & R). unfold gwrite. rewrite E.
  destruct b; eexists; eexists; split; try reflexivity; split; auto.
  - intros f [<-|[]]. exact N.
  - intros f [].
Qed.

Lemma take_nonempty n (s : bytes) : 1 <= n -> n <= zlen s -> take n s <> [].
Proof.
  intros A B. unfold take, zlen in *. destruct s as [|x s]; [simpl in B; lia|].
  destruct (Z.to_nat n) eqn:E; [lia|]. simpl. discriminate.
Qed.

Lemma res_cons_nopanic fs r : is_rpanic r = false -> is_rpanic (res_cons fs r) = false.
Proof. destruct r; simpl; auto. Qed.

Lemma frames_nonempty_app a b : frames_nonempty a -> frames_nonempty b -> frames_nonempty (a ++ b).
Proof. intros A B f H. apply in_app_or in H as [H|H]; auto. Qed.

Lemma res_frames_cons fs r : is_rpanic r = false -> res_frames (res_cons fs r) = fs ++ res_frames r.
Proof. destruct r; simpl; auto; discriminate. Qed.

Lemma agg_loop_total : forall fuel w ts rest, (length rest < fuel)%nat ->
  exists w' r, agg_loop c fuel w ts rest = (w', r) /\ is_rpanic r = false /\
               (w_ready w = true -> w_ready w' = true) /\ frames_nonempty (res_frames r).
Proof.
  induction fuel as [|f IH]; intros w ts rest L; [lia|].
  destruct rest as [|hi [|lo rest1]]; cbn [agg_loop].
  - exists w, (RErr []). repeat split; auto. intros x [].
  - exists w, (RErr []). repeat split; auto. intros x [].
  - destruct (hi * 256 + lo <? 1) eqn:N1. { exists w, (ROk []). repeat split; auto. intros x []. }
    destruct (zlen rest1 <? hi * 256 + lo) eqn:N2. { exists w, (RErr []). repeat split; auto. intros x []. }
    destruct (gwrite_total w ts (take (hi * 256 + lo) rest1)) as (w1 & fs & E & R1 & NE1).
    { apply take_nonempty; lia. }
    rewrite E.
    destruct (drop (hi * 256 + lo) rest1) as [|b0 rest2] eqn:ED.
    + exists w1, (ROk fs). repeat split; auto.
    + destruct (IH w1 ts (b0 :: rest2)) as (w2 & r & E2 & NP & R2 & NE2).
      { rewrite <- ED. unfold drop. rewrite skipn_length. simpl in L.
        assert (1 <= Z.to_nat (hi * 256 + lo))%nat by lia. lia. }
      rewrite E2. exists w2, (res_cons fs r). repeat split; auto using res_cons_nopanic.
      rewrite res_frames_cons by auto. apply frames_nonempty_app; auto.
Qed.

Lemma fu_data_total off : forall fr, forallb (fun f => off <=? zlen (snd f)) fr = true ->
  exists d, fu_data off fr = Some d.
Proof.
  induction fr as [|[s pl] fr IH]; intros H; simpl in *; [eauto|].
  apply andb_true_iff in H as [H1 H2]. destruct (IH H2) as [d E].
  assert (X : (zlen pl <? off) = false) by lia. rewrite X, E. eauto.
Qed.

Lemma gstep_total st p : gst_wf c st = true ->
  exists st' r, gstep c st p = (st', r) /\ is_rpanic r = false /\ gst_wf c st' = true /\
                (w_ready (g_w st) = true -> w_ready (g_w st') = true) /\ frames_nonempty (res_frames r).
Proof.
  intros WF. unfold gstep.
  destruct (c_kind c (p_pl p)) eqn:K.
  - exists st, (ROk []). repeat split; auto. intros x [].
  - destruct (gwrite_total (g_w st) (p_ts p) (p_pl p) (T_single _ K)) as (w' & fs & E & R & NE).
    rewrite E. exists (mkG (g_frags st) w'), (ROk fs). repeat split; auto.
  - destruct (agg_loop_total (S (length (p_pl p))) (g_w st) (p_ts p) (drop (c_agg_off c) (p_pl p))) as (w' & r & E & NP & R & NE).
    { unfold drop. rewrite skipn_length. lia. }
    rewrite E. exists (mkG (g_frags st) w'), r. repeat split; auto.
  - destruct (T_fu _ K) as (L & [fuh I] & RB). unfold fu_step. rewrite I.
    set (start := Z.land (Z.shiftr fuh 7) 1 =? 1). set (fin := Z.land (Z.shiftr fuh 6) 1 =? 1).
    assert (PW : (c_fu_off c <=? zlen (p_pl p)) = true) by lia.
    destruct (start && c_start_returns c).
    { eexists; eexists; split; [reflexivity|]. repeat split; auto.
      - unfold gst_wf. simpl. rewrite PW. reflexivity.
      - intros x []. }
    set (frags0 := if start then [] else g_frags st).
    assert (WF0 : forallb (fun f => c_fu_off c <=? zlen (snd f)) frags0 = true).
    { unfold frags0. destruct start; auto. }
    destruct (negb match last_seq frags0 with Some ls => ls =? seq_prev (p_seq p) | None => start end).
    { eexists; eexists; split; [reflexivity|]. repeat split; auto. intros x []. }
    assert (WF1 : forallb (fun f => c_fu_off c <=? zlen (snd f)) (frags0 ++ [(p_seq p, p_pl p)]) = true).
    { rewrite forallb_app, WF0. simpl. rewrite PW. reflexivity. }
    destruct (negb fin).
    { eexists; eexists; split; [reflexivity|]. repeat split; auto. intros x []. }
    destruct (fu_data_total _ _ WF1) as [d ED]. rewrite ED.
    destruct (gwrite_total (g_w st) (p_ts p) (c_rebuild c (p_pl p) fuh ++ d)) as (w' & fs & E & R & NE).
    { intros X. apply app_eq_nil in X as [X _]. exact (RB fuh X). }
    rewrite E. exists (mkG [] w'), (ROk fs). repeat split; auto.
  - exists st, (RErr []). repeat split; auto. intros x [].
Qed.
End Total.

(* ---- the two codecs ---- *)
Lemma T264_single pl : k264 pl = KSingle -> pl <> [].
Proof. intros H. destruct pl; [vm_compute in H; discriminate|discriminate]. Qed.
Lemma T264_fu pl : k264 pl = KFu ->
  (zlen pl <? 2) = false /\ (exists fuh, idx pl (2 - 1) = Some fuh) /\ forall fuh, rebuild264 pl fuh <> [].
Proof.
  unfold k264. destruct pl as [|h [|f r]]; [intros H; vm_compute in H; discriminate| |].
  - rewrite idx_0_cons. cbv zeta. destruct (Z.land h 31 <? 24); [discriminate|].
    destruct (Z.land h 31 =? 24); [discriminate|]. destruct (Z.land h 31 =? 28); [|discriminate].
    change (zlen [h] <? 2) with true. discriminate.
  - intros _. split; [rewrite !zlen_cons; pose proof (zlen_nonneg r); lia|].
    split; [exists f; reflexivity|]. intros fuh. unfold rebuild264. rewrite idx_0_cons. discriminate.
Qed.
Lemma T264_write w pl : pl <> [] ->
  exists w' b, write264 w pl = Some (w', b) /\ (w_ready w = true -> w_ready w' = true).
Proof.
  intros N. destruct pl as [|h r]; [contradiction|]. unfold write264. rewrite idx_0_cons. cbv zeta.
  destruct (Z.land h 31 =? 12); [exists w, false; auto|].
  destruct w as [rd a b c0]. cbn [w_ready w_a w_b w_c].
  destruct (Z.land h 31 =? 7); [|destruct (Z.land h 31 =? 8)]; destruct rd, a, b, c0; cbn;
    eexists; eexists; (split; [reflexivity|]); intros H; first [reflexivity | assumption | discriminate H].
Qed.

Lemma T265_single pl : k265 pl = KSingle -> pl <> [].
Proof. intros H. destruct pl; [vm_compute in H; discriminate|discriminate]. Qed.
Lemma T265_fu pl : k265 pl = KFu ->
  (zlen pl <? 3) = false /\ (exists fuh, idx pl (3 - 1) = Some fuh) /\ forall fuh, rebuild265 pl fuh <> [].
Proof.
  unfold k265. destruct (zlen pl <? 2) eqn:L2; [discriminate|].
  destruct pl as [|h0 [|h1 [|f r]]]; try (rewrite ?zlen_cons, ?zlen_nil in L2; lia).
  - rewrite idx_0_cons. cbv zeta. destruct (Z.land (Z.shiftr h0 1) 63 =? 48); [discriminate|].
    destruct (Z.land (Z.shiftr h0 1) 63 =? 49); [|discriminate].
    change (zlen [h0; h1] <? 3) with true. discriminate.
  - intros _. split; [rewrite !zlen_cons; pose proof (zlen_nonneg r); lia|].
    split; [exists f; reflexivity|]. intros fuh. unfold rebuild265. rewrite idx_0_cons, idx_1. discriminate.
Qed.
Lemma T265_write w pl : pl <> [] ->
  exists w' b, write265 w pl = Some (w', b) /\ (w_ready w = true -> w_ready w' = true).
Proof.
  intros N. destruct pl as [|h r]; [contradiction|]. unfold write265. rewrite idx_0_cons. cbv zeta.
  destruct w as [rd a b c0]. cbn [w_ready w_a w_b w_c].
  destruct (Z.land (Z.shiftr h 1) 63 =? 32); [|destruct (Z.land (Z.shiftr h 1) 63 =? 33); [|destruct (Z.land (Z.shiftr h 1) 63 =? 34)]];
    destruct rd, a, b, c0; cbn;
    eexists; eexists; (split; [reflexivity|]); intros H; first [reflexivity | assumption | discriminate H].
Qed.

Definition h264_step_total := gstep_total c264 T264_single T264_fu T264_write.
Definition h265_step_total := gstep_total c265 T265_single T265_fu T265_write.

(* ---- AAC ---- *)
Lemma aac_loop_total : forall n ts hdrs data, length hdrs = (2 * n)%nat -> is_rpanic (aac_loop n ts hdrs data) = false.
Proof.
  induction n as [|n IH]; intros ts hdrs data L; [reflexivity|].
  destruct hdrs as [|h0 [|h1 hdrs']]; simpl in L; try lia.
  cbn [aac_loop]. destruct (zlen data <? Z.shiftr (h0 * 256 + h1) 3); [reflexivity|].
  apply res_cons_nopanic. apply IH. lia.
Qed.

Lemma aac_step_total p : all_bytes (p_pl p) = true -> is_rpanic (aac_step p) = false.
Proof.
  intros AB. unfold aac_step. destruct (p_pl p) as [|b0 [|b1 r]] eqn:E; try reflexivity.
  unfold all_bytes in AB. simpl in AB. apply andb_true_iff in AB as [B0 AB]. apply andb_true_iff in AB as [B1 _].
  apply is_byte_range in B0. apply is_byte_range in B1.
  set (count := Z.shiftr (b0 * 256 + b1) 4).
  assert (C0 : 0 <= count). { unfold count. rewrite Z.shiftr_div_pow2 by lia. change (2 ^ 4) with 16. lia. }
  destruct (zlen (b0 :: b1 :: r) <? 2 + 2 * count) eqn:L; [reflexivity|].
  unfold slice.
  assert (X : ((0 <=? 2) && (2 <=? 2 + 2 * count) && (2 + 2 * count <=? zlen (b0 :: b1 :: r))) = true) by lia.
  rewrite X. apply aac_loop_total.
  rewrite firstn_length, skipn_length. unfold zlen in L. simpl length in *. lia.
Qed.

(* ---- sender report ---- *)
Lemma sr_decode_total data : sr_decode data <> CPanic.
Proof.
  unfold sr_decode. destruct (zlen data <? 20) eqn:L; [discriminate|].
  assert (I : exists t, idx data 1 = Some t).
  { unfold idx. simpl. destruct data as [|a [|b r]]; rewrite ?zlen_cons, ?zlen_nil in L; try lia. simpl. eauto. }
  destruct I as [t ->]. destruct (t =? 200); [|discriminate].
  destruct (slice_some data 8 12) as [x1 ->]; try lia.
  destruct (slice_some data 12 16) as [x2 ->]; try lia.
  destruct (slice_some data 16 20) as [x3 ->]; try lia. discriminate.
Qed.

(* ================= the demuxer level ================= *)
Section Demux.
Variables (c : cd) (clock : Z).

Lemma dstep_total st e : dst_ok c st = true -> ev_ok e = true ->
  exists st' fs, dstep c clock st e = (st', fs, false) /\ dst_ok c st' = true /\
                 (dst_ready st = true -> dst_ready st' = true) /\
                 (d_base st <> 0 -> d_base st' = d_base st).
Proof.
  intros OK EV. destruct e as [p|data]; cbn [dstep].
  - unfold media_step. destruct c; unfold dst_ok, dst_ready in *.
    + destruct (h264_step_total (d_g st) p OK) as (g' & r & E & NP & WF & R & _). rewrite E, NP.
      eexists; eexists; split; [reflexivity|]. cbn [d_g d_base]. auto.
    + destruct (h265_step_total (d_g st) p OK) as (g' & r & E & NP & WF & R & _). rewrite E, NP.
      eexists; eexists; split; [reflexivity|]. cbn [d_g d_base]. auto.
    + rewrite (aac_step_total p EV). eexists; eexists; split; [reflexivity|]. cbn [d_g d_base]. auto.
  - destruct (d_base st =? 0) eqn:B0.
    + pose proof (sr_decode_total data) as NP. destruct (sr_decode data); try contradiction;
        eexists; eexists; split; try reflexivity; repeat split; auto; cbn [d_base]; intros; lia.
    + eexists; eexists; split; [reflexivity|]. auto.
Qed.

Theorem drun_total : forall es st, dst_ok c st = true -> forallb ev_ok es = true ->
  exists st' fs, drun c clock st es = (st', fs, false) /\ dst_ok c st' = true /\
                 (dst_ready st = true -> dst_ready st' = true) /\
                 (d_base st <> 0 -> d_base st' = d_base st).
Proof.
  induction es as [|e r IH]; intros st OK EV.
  - exists st, []. repeat split; auto.
  - simpl in EV. apply andb_true_iff in EV as [E1 E2].
    destruct (dstep_total st e OK E1) as (st1 & f1 & S1 & OK1 & R1 & B1).
    destruct (IH st1 OK1 E2) as (st2 & f2 & S2 & OK2 & R2 & B2).
    cbn [drun]. rewrite S1, S2. exists st2, (f1 ++ f2). repeat split; auto.
    intros NZ. rewrite B2; rewrite B1; auto.
Qed.

(* a legal item, all of its packets, from ANY ready state *)
Lemma data_item_all seq0 k it g :
  data_ok c it = true -> no_ts_wrap_item c it = true -> w_ready (g_w g) = true ->
  exists g', mrun c g (data_pkts c seq0 k it) = (g', true_frames c it, false) /\ w_ready (g_w g') = true.
Proof.
  intros OK NW R. unfold no_ts_wrap_item in NW. apply andb_true_iff in NW as [T0 TB].
  destruct c; simpl data_ok in OK; simpl data_pkts; simpl true_frames.
  - rewrite mrun_264. destruct (h264_item_all seq0 k it g OK R) as (g' & E & R' & _).
    rewrite E. exists g'. split; auto. unfold item_frames. rewrite ts32_small by lia. reflexivity.
  - rewrite mrun_265. destruct (h265_item_all seq0 k it g OK R) as (g' & E & R' & _).
    rewrite E. exists g'. split; auto. unfold item_frames. rewrite ts32_small by lia.
    unfold keep265. rewrite filter_true. reflexivity.
  - rewrite mrun_aac. exists g. split; auto. simpl aac_run. rewrite (aac_step_ok seq0 k it OK).
    simpl. rewrite app_nil_r. unfold aac_item_frames. rewrite ts32_small by lia. unfold aac_units.
    rewrite aac_frames_nowrap by lia. reflexivity.
Qed.

Theorem resync : forall items seq0 k st,
  suffix_ok c items = true -> dst_ready st = true ->
  exists st', drun c clock st (suffix_events c seq0 k items)
              = (st', suffix_frames c clock (d_base st) items, false).
Proof.
  unfold suffix_events, suffix_frames.
  induction items as [|it r IH]; intros seq0 k st OK R.
  - exists st. reflexivity.
  - simpl in OK. apply andb_true_iff in OK as [O1 O2]. apply andb_true_iff in O1 as [OD NW].
    destruct st as [g base]. unfold dst_ready in R. cbn [d_g d_base] in *.
    destruct (data_item_all seq0 k it g OD NW R) as (g' & E & R').
    pose proof (drun_data c clock base _ _ _ _ _ E) as E1.
    destruct (IH seq0 (k + tadv c (TData it)) (mkD g' base) O2 R') as [st2 E2].
    cbn [map tevents titem_evs]. rewrite (drun_app _ _ _ _ _ _ _ E1). cbn [d_base] in E2. rewrite E2.
    exists st2. simpl flat_map. rewrite map_app. reflexivity.
Qed.

End Demux.

Lemma dst_init_ok c : dst_ok c dst_init = true.
Proof. destruct c; reflexivity. Qed.

(* whatever came before, the legal suffix is converted exactly and nothing dies *)
Theorem stream_resync c clock seq0 k es items :
  forallb ev_ok es = true -> suffix_ok c items = true ->
  exists st1 f1 st2,
    drun c clock dst_init es = (st1, f1, false) /\
    drun c clock dst_init (es ++ suffix_events c seq0 k items)
      = (st2, f1 ++ suffix_frames c clock (d_base st1) items, false).
Proof.
  intros EV OK.
  destruct (drun_total c clock es dst_init (dst_init_ok c) EV) as (st1 & f1 & E1 & OK1 & R1 & _).
  destruct (resync c clock items seq0 k st1 OK (R1 eq_refl)) as [st2 E2].
  exists st1, f1, st2. split; auto. rewrite (drun_app _ _ _ _ _ _ _ E1), E2. reflexivity.
Qed.

(* ---- the oracle ---- *)
Lemma list_eqb_refl' {A} (e : A -> A -> bool) (l : list A) : (forall x, e x x = true) -> list_eqb e l l = true.
Proof. intros H. induction l; simpl; auto. rewrite H, IHl. reflexivity. Qed.

Lemma ends_with_app e (a w : list oframe) : (forall x, e x x = true) -> ends_with_frames e (a ++ w) w = true.
Proof.
  intros H. unfold ends_with_frames. rewrite app_length.
  replace (length a + length w - length w)%nat with (length a) by lia.
  rewrite skipn_app, skipn_all, Nat.sub_diag. simpl. rewrite list_eqb_refl' by auto.
  apply andb_true_iff. split; auto. apply Nat.leb_le. lia.
Qed.

Lemma nopts_map c clock b1 b2 fs :
  list_eqb oframe_eqb_nopts (map (to_oframe c clock b1) fs) (map (to_oframe c clock b2) fs) = true.
Proof.
  induction fs as [|f r IH]; simpl; auto. rewrite IH. unfold oframe_eqb_nopts, to_oframe. cbn [o_mt o_pl].
  rewrite Z.eqb_refl, bytes_eqb_refl. reflexivity.
Qed.

Lemma ends_with_app_nopts c clock b1 b2 a fs :
  ends_with_frames oframe_eqb_nopts (a ++ map (to_oframe c clock b1) fs) (map (to_oframe c clock b2) fs) = true.
Proof.
  unfold ends_with_frames. rewrite app_length, !map_length.
  replace (length a + length fs - length fs)%nat with (length a) by lia.
  rewrite skipn_app, skipn_all, Nat.sub_diag. simpl. rewrite nopts_map.
  apply andb_true_iff. split; auto. apply Nat.leb_le. lia.
Qed.

(* unpinned: payloads and media type of the suffix, for every preceding input *)
Theorem model_passes_unpinned c clock seq0 k es items base :
  forallb ev_ok es = true -> suffix_ok c items = true ->
  let '(_, fs, pn) := drun c clock dst_init (es ++ suffix_events c seq0 k items) in
  ok_suffix c clock false base items fs pn = true.
Proof.
  intros EV OK. destruct (stream_resync c clock seq0 k es items EV OK) as (st1 & f1 & st2 & E1 & E2).
  rewrite E2. unfold ok_suffix, suffix_frames. simpl negb. simpl andb. apply ends_with_app_nopts.
Qed.

(* pinned: a leading sender report with a non-zero RTP time fixes the clock
   base for good, so presentation times of the suffix are determined too *)
Theorem model_passes_pinned c clock seq0 k rt msw lsw es items :
  u32 rt = true -> rt <> 0 -> forallb ev_ok es = true -> suffix_ok c items = true ->
  let '(_, fs, pn) := drun c clock dst_init (ESr (sr_bytes rt msw lsw) :: es ++ suffix_events c seq0 k items) in
  ok_suffix c clock true rt items fs pn = true.
Proof.
  intros U NZ EV OK.
  assert (S1 : dstep c clock dst_init (ESr (sr_bytes rt msw lsw)) = (mkD (d_g dst_init) rt, [], false)).
  { cbn [dstep]. change (d_base dst_init =? 0) with true. cbv iota. rewrite (sr_decode_ok rt msw lsw U). reflexivity. }
  set (st0 := mkD (d_g dst_init) rt).
  assert (OK0 : dst_ok c st0 = true) by (destruct c; reflexivity).
  destruct (drun_total c clock es st0 OK0 EV) as (st1 & f1 & E1 & OK1 & R1 & B1).
  destruct (resync c clock items seq0 k st1 OK (R1 eq_refl)) as [st2 E2].
  cbn [drun]. rewrite S1. fold st0. rewrite (drun_app _ _ _ _ _ _ _ E1), E2.
  rewrite (B1 NZ). cbn [d_base st0]. unfold ok_suffix. simpl negb. simpl andb.
  apply ends_with_app. apply oframe_eqb_refl.
Qed.

(* ================= cache classifiers ================= *)
Lemma agg_scan_total typ nal : forall fuel rest a, (length rest < fuel)%nat -> agg_scan typ nal fuel rest a <> None.
Proof.
  induction fuel as [|f IH]; intros rest a L; [lia|].
  destruct rest as [|hi [|lo rest1]]; cbn [agg_scan]; try discriminate.
  destruct (hi * 256 + lo <? 1) eqn:N1; [discriminate|].
  destruct rest1 as [|h r]; [discriminate|].
  destruct (zlen (h :: r) <=? hi * 256 + lo) eqn:N2; [discriminate|].
  apply IH. unfold drop. rewrite skipn_length. simpl length in *.
  assert (1 <= Z.to_nat (hi * 256 + lo))%nat by lia. lia.
Qed.

Theorem classify264_total pl : classify264 pl <> None.
Proof.
  unfold classify264. destruct (zlen pl <? 3) eqn:L; [discriminate|].
  destruct pl as [|h [|f r]]; rewrite ?zlen_cons, ?zlen_nil in L; try lia.
  rewrite idx_0_cons. cbv zeta.
  destruct ((24 <=? Z.land h 31) && (Z.land h 31 <=? 27)).
  { apply agg_scan_total. unfold drop. rewrite skipn_length. lia. }
  destruct ((Z.land h 31 =? 28) || (Z.land h 31 =? 29)); [|discriminate].
  rewrite idx_1. destruct (Z.land (Z.shiftr f 7) 1 =? 1); discriminate.
Qed.

Theorem classify265_total pl : classify265 pl <> None.
Proof.
  unfold classify265. destruct (zlen pl <? 3) eqn:L; [discriminate|].
  destruct pl as [|h [|f [|g r]]]; rewrite ?zlen_cons, ?zlen_nil in L; try lia.
  rewrite idx_0_cons. cbv zeta.
  destruct (Z.land (Z.shiftr h 1) 63 =? 48).
  { apply agg_scan_total. unfold drop. rewrite skipn_length. lia. }
  destruct (Z.land (Z.shiftr h 1) 63 =? 49); [|discriminate].
  rewrite idx_2. destruct (Z.land (Z.shiftr g 7) 1 =? 1); discriminate.
Qed.
