(* C06 — proofs about the generic NAL depacketiser (C06NalDepack.v): round trip
   from any state, whole-or-nothing under every loss pattern. *)
From Coq Require Import ZArith List Bool Lia ZifyBool.
From V Require Import Bytes BytesLemmas C06Rtp C06NalDepack C06BaseProofs.
Import ListNotations.
Open Scope Z_scope.

Lemma grun_nil c st : grun c st [] = (st, [], false).
Proof. reflexivity. Qed.

Lemma grun_cons c st p ps st' r :
  gstep c st p = (st', r) -> is_rpanic r = false ->
  grun c st (p :: ps) = let '(st'', fs, pn) := grun c st' ps in (st'', res_frames r ++ fs, pn).
Proof. intros E N. simpl. unfold bytes in *; rewrite E. destruct r; try discriminate; reflexivity. Qed.

Lemma grun_app c a : forall st b st1 f1,
  grun c st a = (st1, f1, false) ->
  grun c st (a ++ b) = let '(st2, f2, pn) := grun c st1 b in (st2, f1 ++ f2, pn).
Proof.
  induction a as [|p a IH]; intros st b st1 f1 H.
  - simpl in H. injection H as -> <-. simpl. destruct (grun c st1 b) as [[? ?] ?]. reflexivity.
  - simpl in H |- *. destruct (gstep c st p) as [st' r].
    destruct r as [fs|fs|]; try discriminate.
    + destruct (grun c st' a) as [[st2 f2] pn] eqn:E. injection H as -> <- ->.
      rewrite (IH _ b _ _ E). destruct (grun c st1 b) as [[? ?] ?]. simpl. rewrite app_assoc. reflexivity.
    + destruct (grun c st' a) as [[st2 f2] pn] eqn:E. injection H as -> <- ->.
      rewrite (IH _ b _ _ E). destruct (grun c st1 b) as [[? ?] ?]. simpl. rewrite app_assoc. reflexivity.
Qed.

Lemma last_seq_app F s pl : last_seq (F ++ [(s, pl)]) = Some s.
Proof. unfold last_seq. rewrite rev_app_distr. reflexivity. Qed.

Lemma fu_data_app off F : forall D s pl,
  fu_data off F = Some D -> (zlen pl <? off) = false ->
  fu_data off (F ++ [(s, pl)]) = Some (D ++ drop off pl).
Proof.
  induction F as [|[s0 pl0] F IH]; intros D s pl H L; simpl in *.
  - injection H as <-. rewrite L. rewrite app_nil_r. reflexivity.
  - destruct (zlen pl0 <? off); try discriminate.
    destruct (fu_data off F) as [d|] eqn:E; try discriminate. injection H as <-.
    rewrite (IH d s pl eq_refl L). rewrite app_assoc. reflexivity.
Qed.

Lemma filter_cons_app {A} (f : A -> bool) x l :
  filter f (x :: l) = (if f x then [x] else []) ++ filter f l.
Proof. simpl. destruct (f x); reflexivity. Qed.

Lemma agg_body_length us : (length us <= length (agg_body us))%nat.
Proof.
  induction us as [|u r IH]; [simpl; lia|].
  unfold agg_body in *. cbn [flat_map]. rewrite !app_length. change (length (be16 (zlen u))) with 2%nat. cbn [length]. lia.
Qed.

Ltac blia := unfold bytes in *; simpl length in *; lia.

Section Generic.
Variable c : codec.
Variable z : pkz.
Variable keep : bytes -> bool.
Variable seq0 : Z.

Hypothesis H_single : forall u, z_single_ok z u = true -> c_kind c u = KSingle /\ u <> [].
Hypothesis H_agg : forall us, us <> [] -> forallb agg_unit_ok us = true ->
  c_kind c (z_agg_hdr z us ++ agg_body us) = KAgg /\
  drop (c_agg_off c) (z_agg_hdr z us ++ agg_body us) = agg_body us.
Hypothesis H_fu : forall u s e ch, z_frag_ok z u = true -> all_bytes u = true ->
  let pl := z_fu_hdr z u s e ++ ch in
  c_kind c pl = KFu /\ u <> [] /\
  exists fuh, idx pl (c_fu_off c - 1) = Some fuh /\
    (Z.land (Z.shiftr fuh 7) 1 =? 1) = s /\ (Z.land (Z.shiftr fuh 6) 1 =? 1) = e /\
    (zlen pl <? c_fu_off c) = false /\ drop (c_fu_off c) pl = ch /\
    c_rebuild c pl fuh ++ z_fu_body z u = u.
Hypothesis H_write : forall w pl, w_ready w = true -> pl <> [] ->
  exists w', c_write c w pl = Some (w', keep pl) /\ w_ready w' = true.

Definition fkeep (f : uframe) : bool := keep (u_pl f).

Lemma gwrite_ok w ts pl : w_ready w = true -> pl <> [] ->
  exists w', gwrite c w ts pl = (w', ROk (if keep pl then [mkU ts pl] else [])) /\ w_ready w' = true.
Proof.
  intros R N. destruct (H_write w pl R N) as [w' [E R']]. exists w'. split; auto.
  unfold gwrite. unfold bytes in *; rewrite E. destruct (keep pl); reflexivity.
Qed.

(* ---- aggregation ---- *)
Lemma agg_body_cons_nonempty u r : agg_body (u :: r) <> [].
Proof. unfold agg_body. simpl. unfold be16. simpl. discriminate. Qed.

Lemma agg_loop_ok : forall us fuel w ts,
  us <> [] -> forallb agg_unit_ok us = true -> (length us <= fuel)%nat -> w_ready w = true ->
  exists w', agg_loop c fuel w ts (agg_body us) = (w', ROk (filter fkeep (map (mkU ts) us)))
             /\ w_ready w' = true.
Proof.
  induction us as [|u r IH]; intros fuel w ts NE OK FU R; [contradiction|].
  destruct fuel as [|fuel]; [simpl in FU; lia|].
  simpl in OK. apply andb_true_iff in OK as [Hu Hr].
  unfold agg_unit_ok in Hu. apply andb_true_iff in Hu as [Hu Hb]. apply andb_true_iff in Hu as [Hl1 Hl2].
  destruct (be16_decode (zlen u)) as (hi & lo & E & V & _); [lia|].
  assert (EB : agg_body (u :: r) = hi :: lo :: (u ++ agg_body r)).
  { unfold agg_body. cbn [flat_map]. unfold bytes in *; rewrite E. rewrite <- app_assoc. reflexivity. }
  rewrite EB. cbn [agg_loop]. rewrite V.
  assert (N1 : (zlen u <? 1) = false) by lia. rewrite N1.
  assert (N2 : (zlen (u ++ agg_body r) <? zlen u) = false).
  { rewrite zlen_app. pose proof (zlen_nonneg (agg_body r)). lia. }
  rewrite N2. rewrite take_app_exact, drop_app_exact.
  assert (UN : u <> []). { intros ->. rewrite zlen_nil in Hl1. lia. }
  destruct (gwrite_ok w ts u R UN) as [w1 [EW R1]]. rewrite EW.
  rewrite map_cons, filter_cons_app. unfold fkeep at 1. cbn [u_pl].
  destruct r as [|u2 r'].
  - simpl. exists w1. rewrite app_nil_r. auto.
  - destruct (agg_body (u2 :: r')) as [|b0 rest] eqn:EB2; [exfalso; eapply agg_body_cons_nonempty; eauto|].
    destruct (IH fuel w1 ts) as [w2 [E2 R2]]; auto; [discriminate| simpl in FU |- *; lia |].
    unfold bytes in *; rewrite E2. exists w2. split; auto.
Qed.

(* ---- fragmentation ---- *)
Lemma fu_pkts_cons k ts mk u first ch r :
  exists mk', fu_pkts z seq0 k ts mk u first (ch :: r) =
    mkP (seq_at seq0 k) ts mk' (z_fu_hdr z u first (match r with [] => true | _ => false end) ++ ch)
    :: fu_pkts z seq0 (k + 1) ts mk u false r.
Proof. destruct r; simpl; eexists; reflexivity. Qed.

Lemma fu_pkts_length k ts mk u : forall chunks first,
  length (fu_pkts z seq0 k ts mk u first chunks) = length chunks.
Proof.
  intros chunks. revert k. induction chunks as [|ch r IH]; intros k first; [reflexivity|].
  destruct (fu_pkts_cons k ts mk u first ch r) as [mk' EQc]; unfold bytes in *; rewrite EQc; clear EQc. simpl. rewrite IH. reflexivity.
Qed.

(* staleness: the buffer cannot be continued by any packet with index >= k *)
Definition stale_strict (F : list (Z * bytes)) (k : Z) : Prop :=
  F = [] \/ exists j, 0 <= j /\ j + 2 <= k /\ last_seq F = Some (seq_at seq0 j).

Lemma stale_strict_mono F k k' : k <= k' -> stale_strict F k -> stale_strict F k'.
Proof. intros L [->|(j & A & B & C)]; [left; auto|right; exists j; repeat split; auto; lia]. Qed.

Section OneUnit.
Variables (u : bytes) (ts : Z).
Hypothesis Hfok : z_frag_ok z u = true.
Hypothesis Hub : all_bytes u = true.

Let pl (s e : bool) (ch : bytes) := z_fu_hdr z u s e ++ ch.

Lemma gstep_fu st sq mk s e ch :
  gstep c st (mkP sq ts mk (pl s e ch)) = fu_step c st (mkP sq ts mk (pl s e ch)).
Proof.
  unfold gstep. cbn [p_pl]. destruct (H_fu u s e ch Hfok Hub) as [K _]. unfold pl. rewrite K. reflexivity.
Qed.

Lemma fu_start st sq mk ch :
  gstep c st (mkP sq ts mk (pl true false ch)) = (mkG [(sq, pl true false ch)] (g_w st), ROk []).
Proof.
  rewrite gstep_fu. unfold fu_step. cbn [p_pl p_seq p_ts].
  destruct (H_fu u true false ch Hfok Hub) as (_ & _ & fuh & I & S & E & L & D & B).
  fold (pl true false ch) in I. rewrite I, S, E.
  destruct (c_start_returns c); simpl; reflexivity.
Qed.

Lemma fu_mid F w sq mk ch ls :
  last_seq F = Some ls -> ls = seq_prev sq ->
  gstep c (mkG F w) (mkP sq ts mk (pl false false ch)) = (mkG (F ++ [(sq, pl false false ch)]) w, ROk []).
Proof.
  intros LS ->. rewrite gstep_fu. unfold fu_step. cbn [p_pl p_seq p_ts g_frags g_w].
  destruct (H_fu u false false ch Hfok Hub) as (_ & _ & fuh & I & S & E & L & D & B).
  fold (pl false false ch) in I. rewrite I, S, E. cbn [andb]. rewrite LS, Z.eqb_refl. reflexivity.
Qed.

Lemma fu_end F w sq mk ch ls D0 :
  last_seq F = Some ls -> ls = seq_prev sq -> fu_data (c_fu_off c) F = Some D0 ->
  D0 ++ ch = z_fu_body z u -> w_ready w = true ->
  exists w', gstep c (mkG F w) (mkP sq ts mk (pl false true ch))
             = (mkG [] w', ROk (if keep u then [mkU ts u] else [])) /\ w_ready w' = true.
Proof.
  intros LS -> FD BD R. rewrite gstep_fu. unfold fu_step. cbn [p_pl p_seq p_ts g_frags g_w].
  destruct (H_fu u false true ch Hfok Hub) as (_ & UN & fuh & I & S & E & L & D & B).
  fold (pl false true ch) in I, L, D, B. rewrite I, S, E. cbn [andb]. rewrite LS, Z.eqb_refl. cbn [negb].
  rewrite (fu_data_app _ _ _ sq _ FD L). rewrite D, BD, B.
  destruct (gwrite_ok w ts u R UN) as [w' [EW R']]. rewrite EW. exists w'. auto.
Qed.

Lemma fu_nochain F w sq mk e ch :
  (F = [] \/ exists ls, last_seq F = Some ls /\ ls <> seq_prev sq) ->
  gstep c (mkG F w) (mkP sq ts mk (pl false e ch)) = (mkG [] w, ROk []).
Proof.
  intros H. rewrite gstep_fu. unfold fu_step. cbn [p_pl p_seq p_ts g_frags g_w].
  destruct (H_fu u false e ch Hfok Hub) as (_ & _ & fuh & I & S & E & L & D & B).
  fold (pl false e ch) in I. rewrite I, S. cbn [andb].
  destruct H as [-> | (ls & LS & NE)].
  - reflexivity.
  - rewrite LS. assert (X : (ls =? seq_prev sq) = false) by lia. rewrite X. reflexivity.
Qed.

(* all remaining fragments arrive: the unit comes out *)
Lemma fu_suffix_all mk : forall chunks k F w D0,
  chunks <> [] -> w_ready w = true ->
  last_seq F = Some (seq_at seq0 (k - 1)) -> fu_data (c_fu_off c) F = Some D0 ->
  D0 ++ concat chunks = z_fu_body z u ->
  exists w', grun c (mkG F w) (fu_pkts z seq0 k ts mk u false chunks)
             = (mkG [] w', (if keep u then [mkU ts u] else []), false) /\ w_ready w' = true.
Proof.
  induction chunks as [|ch r IH]; intros k F w D0 NE R LS FD BD; [contradiction|].
  destruct (fu_pkts_cons k ts mk u false ch r) as [mk' EQc]; unfold bytes in *; rewrite EQc; clear EQc.
  destruct r as [|ch2 r'].
  - simpl in BD. rewrite app_nil_r in BD.
    destruct (fu_end F w (seq_at seq0 k) mk' ch _ D0 LS) as [w' [E R']]; auto.
    { symmetry. apply seq_prev_at'. }
    erewrite grun_cons; [|exact E|reflexivity]. simpl. exists w'. rewrite app_nil_r. auto.
  - erewrite grun_cons; [|apply (fu_mid F w _ mk' ch _ LS); symmetry; apply seq_prev_at'|reflexivity].
    destruct (H_fu u false false ch Hfok Hub) as (_ & _ & fuh & I & S & E & L & D & B).
    destruct (IH (k + 1) (F ++ [(seq_at seq0 k, pl false false ch)]) w (D0 ++ ch)) as [w' [E' R']]; auto.
    + discriminate.
    + rewrite last_seq_app. f_equal. f_equal. lia.
    + rewrite (fu_data_app _ _ _ _ _ FD L). unfold pl. rewrite D. reflexivity.
    + rewrite <- app_assoc. exact BD.
    + unfold pl, bytes in *. unfold bytes in *; rewrite E'. exists w'. simpl. auto.
Qed.

(* the whole unit from any state *)
Lemma fu_item_all k mk sizes st :
  sizes <> [] -> w_ready (g_w st) = true ->
  exists w', grun c st (fu_pkts z seq0 k ts mk u true (chunk_by sizes (z_fu_body z u)))
            = (mkG [] w', (if keep u then [mkU ts u] else []), false) /\ w_ready w' = true.
Proof.
  intros NE R. pose proof (chunk_by_concat sizes (z_fu_body z u)) as CC.
  destruct sizes as [|s0 sz]; [contradiction|]. simpl chunk_by in *.
  set (ch := take s0 (z_fu_body z u)) in *.
  destruct (chunk_by sz (drop s0 (z_fu_body z u))) as [|ch2 r'] eqn:ER.
  { pose proof (chunk_by_length sz (drop s0 (z_fu_body z u))) as X. rewrite ER in X. discriminate. }
  destruct (fu_pkts_cons k ts mk u true ch (ch2 :: r')) as [mk' EQc]; unfold bytes in *; rewrite EQc; clear EQc.
  erewrite grun_cons; [|apply fu_start|reflexivity].
  destruct (H_fu u true false ch Hfok Hub) as (_ & _ & fuh & I & S & E & L & D & B).
  destruct (fu_suffix_all mk (ch2 :: r') (k + 1) [(seq_at seq0 k, pl true false ch)] (g_w st) ch)
    as [w' [E' R']]; auto.
  - discriminate.
  - unfold last_seq. simpl. f_equal. f_equal. lia.
  - simpl. fold (pl true false ch) in L, D. rewrite L, D, app_nil_r. reflexivity.
  - unfold pl, bytes in *. unfold bytes in *; rewrite E'. exists w'. simpl. auto.
Qed.

Lemma fu_suffix_dead mk : forall chunks k F w mask,
  stale_strict F k -> k + Z.of_nat (length chunks) <= 65536 ->
  exists F', grun c (mkG F w) (select mask (fu_pkts z seq0 k ts mk u false chunks)) = (mkG F' w, [], false)
             /\ stale_strict F' (k + Z.of_nat (length chunks)).
Proof.
  induction chunks as [|ch r IH]; intros k F w mask ST B.
  - simpl fu_pkts. rewrite select_nil_r. exists F. split; [reflexivity|].
    eapply stale_strict_mono; [|exact ST]. lia.
  - destruct (fu_pkts_cons k ts mk u false ch r) as [mk' EQc]; unfold bytes in *; rewrite EQc; clear EQc.
    simpl length in B.
    destruct mask as [|b m].
    + simpl. exists F. split; auto. eapply stale_strict_mono; [|exact ST]. lia.
    + destruct b; cbn [select].
      * erewrite grun_cons; [| apply fu_nochain | reflexivity].
        2:{ destruct ST as [->|(j & J0 & J2 & LS)]; [left; auto|].
            right. exists (seq_at seq0 j). split; auto. apply seq_no_chain; lia. }
        destruct (IH (k + 1) [] w m) as [F' [E ST']]; [left; auto | blia |].
        unfold bytes in *; rewrite E. exists F'. split; [reflexivity|]. eapply stale_strict_mono; [|exact ST']. blia.
      * destruct (IH (k + 1) F w m) as [F' [E ST']]; [eapply stale_strict_mono; [|exact ST]; lia | blia |].
        unfold bytes in *; rewrite E. exists F'. split; [reflexivity|]. eapply stale_strict_mono; [|exact ST']. blia.
Qed.

(* a good chain followed by at least one loss: nothing comes out *)
Lemma fu_suffix_partial mk : forall chunks k F w mask,
  1 <= k -> last_seq F = Some (seq_at seq0 (k - 1)) ->
  length mask = length chunks -> all_true mask = false ->
  k + Z.of_nat (length chunks) <= 65536 ->
  exists F', grun c (mkG F w) (select mask (fu_pkts z seq0 k ts mk u false chunks)) = (mkG F' w, [], false)
             /\ stale_strict F' (k + Z.of_nat (length chunks)).
Proof.
  induction chunks as [|ch r IH]; intros k F w mask K1 LS LM AT B.
  - destruct mask; try discriminate.
  - destruct mask as [|b m]; [discriminate|]. simpl in LM. injection LM as LM.
    simpl length in B.
    destruct (fu_pkts_cons k ts mk u false ch r) as [mk' EQc]; unfold bytes in *; rewrite EQc; clear EQc.
    destruct b; cbn [select].
    + simpl in AT.
      destruct r as [|ch2 r']. { destruct m; [discriminate AT|discriminate LM]. }
      erewrite grun_cons; [|apply (fu_mid F w _ mk' ch _ LS); symmetry; apply seq_prev_at'|reflexivity].
      destruct (IH (k + 1) (F ++ [(seq_at seq0 k, pl false false ch)]) w m) as [F' [E ST']]; auto; try blia.
      { rewrite last_seq_app. f_equal. f_equal. lia. }
      unfold bytes in *; rewrite E. exists F'. split; [reflexivity|]. eapply stale_strict_mono; [|exact ST']. blia.
    + destruct (fu_suffix_dead mk r (k + 1) F w m) as [F' [E ST']]; [|blia|].
      { right. exists (k - 1). repeat split; auto; lia. }
      unfold bytes in *; rewrite E. exists F'. split; [reflexivity|]. eapply stale_strict_mono; [|exact ST']. blia.
Qed.

End OneUnit.

(* between items: the buffer is empty or ends with a packet of index < k *)
Definition stale (F : list (Z * bytes)) (k : Z) : Prop :=
  F = [] \/ exists j, 0 <= j /\ j + 1 <= k /\ last_seq F = Some (seq_at seq0 j).

Lemma stale_mono F k k' : k <= k' -> stale F k -> stale F k'.
Proof. intros L [->|(j & A & B & C)]; [left; auto|right; exists j; repeat split; auto; lia]. Qed.
Lemma stale_strict_stale F k : stale_strict F k -> stale F k.
Proof. intros [->|(j & A & B & C)]; [left; auto|right; exists j; repeat split; auto; lia]. Qed.
Lemma stale_stale_strict F k : stale F k -> stale_strict F (k + 1).
Proof. intros [->|(j & A & B & C)]; [left; auto|right; exists j; repeat split; auto; lia]. Qed.

Lemma item_pkts_length k it : length (item_pkts z seq0 k it) = npk it.
Proof.
  destruct it; simpl; auto. rewrite fu_pkts_length, chunk_by_length. reflexivity.
Qed.

Lemma item_ok_single_nonempty ts mk u : item_ok z (ISingle ts mk u) = true -> u <> [].
Proof. simpl. intros H. apply andb_true_iff in H as [H _]. apply H_single in H. tauto. Qed.

(* one item, all of its packets, from any state *)
Lemma item_all k it st :
  item_ok z it = true -> w_ready (g_w st) = true ->
  exists st', grun c st (item_pkts z seq0 k it) = (st', filter fkeep (item_frames it), false)
              /\ w_ready (g_w st') = true
              /\ (g_frags st' = g_frags st \/ g_frags st' = []).
Proof.
  intros OK R. destruct it as [ts mk u|ts mk us|ts mk u sizes]; simpl item_pkts; unfold item_frames; simpl item_units; simpl item_ts.
  - simpl in OK. apply andb_true_iff in OK as [OK _]. destruct (H_single u OK) as [K UN].
    destruct (gwrite_ok (g_w st) (ts32 ts) u R UN) as [w' [EW R']].
    erewrite grun_cons; [| unfold gstep; cbn [p_pl p_ts]; rewrite K, EW; reflexivity | destruct (keep u); reflexivity].
    simpl. exists (mkG (g_frags st) w'). rewrite app_nil_r. repeat split; auto.
    all: try (unfold fkeep; cbn [u_pl]; destruct (keep u); reflexivity).
  - simpl in OK. apply andb_true_iff in OK as [NE OK].
    assert (NE' : us <> []) by (intros ->; discriminate).
    destruct (H_agg us NE' OK) as [K D].
    destruct (agg_loop_ok us (S (length (z_agg_hdr z us ++ agg_body us))) (g_w st) (ts32 ts) NE' OK) as [w' [EA R']]; auto.
    { rewrite app_length. pose proof (agg_body_length us). simpl. lia. }
    erewrite grun_cons; [| unfold gstep; cbn [p_pl p_ts]; rewrite K, D, EA; reflexivity | reflexivity].
    simpl. exists (mkG (g_frags st) w'). rewrite app_nil_r. repeat split; auto.
  - simpl in OK. apply andb_true_iff in OK as [OK NE]. apply andb_true_iff in OK as [FO UB].
    assert (NE' : sizes <> []) by (intros ->; discriminate).
    destruct (fu_item_all u (ts32 ts) FO UB k mk sizes st NE' R) as [w' [E R']].
    unfold bytes in *; rewrite E. exists (mkG [] w'). simpl. repeat split; auto.
    all: try (unfold fkeep; cbn [u_pl]; destruct (keep u); reflexivity).
Qed.

(* one item under a loss mask *)
Lemma item_loss k it F w mask :
  item_ok z it = true -> w_ready w = true -> stale F k -> 0 <= k ->
  length mask = npk it -> k + Z.of_nat (npk it) <= 65536 ->
  exists F' w', grun c (mkG F w) (select mask (item_pkts z seq0 k it))
                = (mkG F' w', (if all_true mask then filter fkeep (item_frames it) else []), false)
                /\ w_ready w' = true /\ stale F' (k + Z.of_nat (npk it)).
Proof.
  intros OK R ST K0 LM B.
  destruct (all_true mask) eqn:AT.
  - rewrite select_all_true; auto; [|rewrite item_pkts_length; auto].
    destruct (item_all k it (mkG F w) OK R) as [st' (E & R' & FR)].
    destruct st' as [F' w']. exists F', w'. cbn [g_frags g_w] in *. repeat split; auto.
    destruct FR as [-> | ->]; [eapply stale_mono; [|exact ST]; lia | left; auto].
  - destruct it as [ts mk u|ts mk us|ts mk u sizes].
    + simpl in LM. destruct mask as [|b [|? ?]]; try discriminate. destruct b; [discriminate AT|].
      simpl. exists F, w. repeat split; auto. eapply stale_mono; [|exact ST]. lia.
    + simpl in LM. destruct mask as [|b [|? ?]]; try discriminate. destruct b; [discriminate AT|].
      simpl. exists F, w. repeat split; auto. eapply stale_mono; [|exact ST]. lia.
    + simpl in OK. apply andb_true_iff in OK as [OK NE]. apply andb_true_iff in OK as [FO UB].
      simpl item_pkts. simpl npk in *.
      pose proof (chunk_by_length sizes (z_fu_body z u)) as CL.
      destruct (chunk_by sizes (z_fu_body z u)) as [|ch r]; [discriminate|].
      simpl in CL. injection CL as CL.
      destruct mask as [|b m]; [discriminate|]. simpl in LM. injection LM as LM.
      destruct (fu_pkts_cons k (ts32 ts) mk u true ch r) as [mk' EQc]; unfold bytes in *; rewrite EQc; clear EQc.
      assert (LR : Z.of_nat (S (length sizes)) = 1 + Z.of_nat (length r)) by lia.
      destruct b; cbn [select].
      * simpl in AT.
        destruct r as [|ch2 r'].
        { destruct m; [discriminate AT|]. simpl in LM, CL. blia. }
        erewrite grun_cons; [|apply (fu_start u (ts32 ts) FO UB)|reflexivity].
        destruct (fu_suffix_partial u (ts32 ts) FO UB mk (ch2 :: r') (k + 1)
                    [(seq_at seq0 k, z_fu_hdr z u true false ++ ch)] w m) as [F' [E ST']]; auto; try blia.
        { unfold last_seq. simpl. f_equal. f_equal. lia. }
        cbn [g_w]. unfold bytes in *; rewrite E. exists F', w. repeat split; auto.
        apply stale_strict_stale. refine (stale_strict_mono _ _ _ _ ST'). blia.
      * destruct (fu_suffix_dead u (ts32 ts) FO UB mk r (k + 1) F w m) as [F' [E ST']]; [apply stale_stale_strict; auto | blia |].
        unfold bytes in *; rewrite E. exists F', w. repeat split; auto.
        apply stale_strict_stale. refine (stale_strict_mono _ _ _ _ ST'). blia.
Qed.

Lemma packetize_length items : forall k, length (packetize z seq0 k items) = total_pk items.
Proof.
  induction items as [|it r IH]; intros k; simpl; auto.
  rewrite app_length, item_pkts_length, IH. reflexivity.
Qed.

(* round trip, from any state *)
Theorem items_all : forall items k st,
  forallb (item_ok z) items = true -> w_ready (g_w st) = true ->
  exists st', grun c st (packetize z seq0 k items)
              = (st', filter fkeep (flat_map item_frames items), false)
              /\ w_ready (g_w st') = true.
Proof.
  induction items as [|it r IH]; intros k st OK R.
  - simpl. exists st. auto.
  - simpl in OK. apply andb_true_iff in OK as [OK1 OK2].
    destruct (item_all k it st OK1 R) as [st1 (E1 & R1 & _)].
    destruct (IH (k + Z.of_nat (npk it)) st1 OK2 R1) as [st2 (E2 & R2)].
    simpl packetize. rewrite (grun_app _ _ _ _ _ _ E1), E2.
    exists st2. split; auto. simpl flat_map. unfold fkeep. rewrite filter_app. reflexivity.
Qed.

(* whole-or-nothing under every loss pattern *)
Theorem items_loss : forall items k F w mask,
  forallb (item_ok z) items = true -> w_ready w = true -> stale F k -> 0 <= k ->
  length mask = total_pk items -> k + Z.of_nat (total_pk items) <= 65536 ->
  exists F' w', grun c (mkG F w) (select mask (packetize z seq0 k items))
                = (mkG F' w', spec_loss keep items mask, false)
                /\ w_ready w' = true /\ stale F' (k + Z.of_nat (total_pk items)).
Proof.
  induction items as [|it r IH]; intros k F w mask OK R ST K0 LM B.
  - simpl. rewrite select_nil_r. exists F, w. repeat split; auto. simpl. replace (k + 0) with k by lia. auto.
  - simpl in OK. apply andb_true_iff in OK as [OK1 OK2].
    simpl total_pk in *. simpl packetize.
    rewrite (select_split (npk it)); [|apply item_pkts_length|lia].
    destruct (item_loss k it F w (firstn (npk it) mask) OK1 R ST K0) as (F1 & w1 & E1 & R1 & ST1).
    { rewrite firstn_length. lia. } { lia. }
    destruct (IH (k + Z.of_nat (npk it)) F1 w1 (skipn (npk it) mask) OK2 R1 ST1) as (F2 & w2 & E2 & R2 & ST2).
    { lia. } { rewrite skipn_length. lia. } { lia. }
    rewrite (grun_app _ _ _ _ _ _ E1), E2. exists F2, w2. repeat split; auto.
    replace (k + Z.of_nat (npk it + total_pk r)) with (k + Z.of_nat (npk it) + Z.of_nat (total_pk r)) by lia. auto.
Qed.

(* ================= never spliced: arbitrary rearrangements ================= *)
(* Packets are drawn from one packetisation in any order, with repetitions and
   omissions.  Every unit that comes out is a unit of the plan. *)
Section Splice.
Variable items : list item.
Hypothesis items_ok : forallb (item_ok z) items = true.
Hypothesis items_few : Z.of_nat (total_pk items) <= 65536.

(* item [it] occupies the packet indices kit .. kit + npk it - 1 *)
Definition located (kit : Z) (it : item) : Prop :=
  exists pre post, items = pre ++ it :: post /\ kit = Z.of_nat (total_pk pre).

Lemma total_pk_app a b : total_pk (a ++ b) = (total_pk a + total_pk b)%nat.
Proof. induction a as [|x a IH]; simpl; [reflexivity|]. rewrite IH. lia. Qed.

Lemma located_range kit it : located kit it -> 0 <= kit /\ kit + Z.of_nat (npk it) <= 65536.
Proof.
  intros (pre & post & E & K). pose proof items_few as F. rewrite E, total_pk_app in F. simpl in F. lia.
Qed.

Lemma located_ok kit it : located kit it -> item_ok z it = true /\ In it items.
Proof.
  intros (pre & post & E & K). assert (I : In it items) by (rewrite E; apply in_or_app; right; left; reflexivity).
  split; auto. pose proof items_ok as O. rewrite forallb_forall in O. auto.
Qed.

Lemma located_unique kit it kit' it' x :
  located kit it -> located kit' it' ->
  kit <= x < kit + Z.of_nat (npk it) -> kit' <= x < kit' + Z.of_nat (npk it') ->
  it = it' /\ kit = kit'.
Proof.
  intros (pre & post & E & K) (pre' & post' & E' & K') R R'.
  rewrite E in E'. apply app_eq_app in E' as [l [[P Q]|[P Q]]].
  - destruct l as [|y l].
    + rewrite app_nil_r in P. simpl in Q. injection Q as <- _. subst. auto.
    + simpl in Q. injection Q as <- Q. subst pre. rewrite total_pk_app in K. simpl in K. lia.
  - destruct l as [|y l].
    + rewrite app_nil_r in P. simpl in Q. injection Q as <- _. subst. auto.
    + simpl in Q. injection Q as <- Q. subst pre'. rewrite total_pk_app in K'. simpl in K'. lia.
Qed.

(* where a packet comes from *)
Inductive prov : packet -> Prop :=
| PSingle kit ts mk u : located kit (ISingle ts mk u) -> prov (mkP (seq_at seq0 kit) (ts32 ts) mk u)
| PAgg kit ts mk us : located kit (IAgg ts mk us) ->
    prov (mkP (seq_at seq0 kit) (ts32 ts) mk (z_agg_hdr z us ++ agg_body us))
| PFrag kit ts mk mk' u sizes i : located kit (IFrag ts mk u sizes) -> (i < S (length sizes))%nat ->
    prov (mkP (seq_at seq0 (kit + Z.of_nat i)) (ts32 ts) mk'
              (z_fu_hdr z u (Nat.eqb i 0) (Nat.eqb (S i) (S (length sizes)))
               ++ nth i (chunk_by sizes (z_fu_body z u)) [])).

Lemma fu_pkts_prov kit ts mk u sizes : located kit (IFrag ts mk u sizes) ->
  forall chunks j first, (j + length chunks = S (length sizes))%nat -> first = Nat.eqb j 0 ->
  (forall i, (i < length chunks)%nat -> nth i chunks [] = nth (j + i) (chunk_by sizes (z_fu_body z u)) []) ->
  forall p, In p (fu_pkts z seq0 (kit + Z.of_nat j) (ts32 ts) mk u first chunks) -> prov p.
Proof.
  intros LOC. induction chunks as [|ch r IH]; intros j first LEN FST NTH p IN; [destruct IN|].
  destruct (fu_pkts_cons (kit + Z.of_nat j) (ts32 ts) mk u first ch r) as [mk' EQc]; unfold bytes in *; rewrite EQc in IN; clear EQc.
  destruct IN as [<-|IN].
  - pose proof (NTH 0%nat) as N0. simpl in N0. rewrite Nat.add_0_r in N0. rewrite N0 by lia.
    replace (match r with [] => true | _ :: _ => false end) with (Nat.eqb (S j) (S (length sizes))).
    + subst first. apply (PFrag kit ts mk mk' u sizes j LOC). simpl in LEN. lia.
    + simpl in LEN. destruct r; simpl in LEN.
      * apply Nat.eqb_eq. lia.
      * apply Nat.eqb_neq. lia.
  - replace (kit + Z.of_nat j + 1) with (kit + Z.of_nat (S j)) in IN by lia.
    apply (IH (S j) false); auto.
    + simpl in LEN. lia.
    + intros i Hi. specialize (NTH (S i)). simpl in NTH. rewrite NTH by (simpl; lia). f_equal. lia.
Qed.

Lemma packetize_prov : forall post pre p, items = pre ++ post ->
  In p (packetize z seq0 (Z.of_nat (total_pk pre)) post) -> prov p.
Proof.
  induction post as [|it r IH]; intros pre p E IN; [destruct IN|].
  simpl in IN. apply in_app_or in IN as [IN|IN].
  - assert (LOC : located (Z.of_nat (total_pk pre)) it) by (exists pre, r; auto).
    destruct it as [ts mk u|ts mk us|ts mk u sizes]; simpl in IN.
    + destruct IN as [<-|[]]. apply PSingle. exact LOC.
    + destruct IN as [<-|[]]. apply PAgg. exact LOC.
    + replace (Z.of_nat (total_pk pre)) with (Z.of_nat (total_pk pre) + Z.of_nat 0) in IN by lia.
      eapply (fu_pkts_prov _ ts mk u sizes LOC _ 0%nat true); eauto.
      rewrite chunk_by_length. reflexivity.
  - apply (IH (pre ++ [it]) p).
    + rewrite <- app_assoc. exact E.
    + rewrite total_pk_app. simpl. rewrite Nat.add_0_r. rewrite Nat2Z.inj_add. exact IN.
Qed.

Definition allowed (f : uframe) : Prop := In f (filter fkeep (flat_map item_frames items)).

Lemma allowed_item it f : In it items -> In f (filter fkeep (item_frames it)) -> allowed f.
Proof.
  intros I H. unfold allowed. apply filter_In in H as [H K]. apply filter_In. split; auto.
  apply in_flat_map. exists it. auto.
Qed.

(* the buffer is empty or holds the first t (non-final) fragments of one located item *)
Definition good_buf (F : list (Z * bytes)) : Prop :=
  F = [] \/
  exists kit ts mk u sizes t,
    located kit (IFrag ts mk u sizes) /\ (1 <= t < S (length sizes))%nat /\
    last_seq F = Some (seq_at seq0 (kit + Z.of_nat t - 1)) /\
    fu_data (c_fu_off c) F = Some (concat (firstn t (chunk_by sizes (z_fu_body z u)))).

Lemma concat_firstn_succ (l : list bytes) t : (t < length l)%nat ->
  concat (firstn (S t) l) = concat (firstn t l) ++ nth t l [].
Proof.
  revert t. induction l as [|x l IH]; intros t L; simpl in L; [lia|].
  destruct t.
  - simpl. rewrite app_nil_r. reflexivity.
  - change (firstn (S (S t)) (x :: l)) with (x :: firstn (S t) l).
    change (firstn (S t) (x :: l)) with (x :: firstn t l).
    change (nth (S t) (x :: l) []) with (nth t l []). cbn [concat].
    rewrite IH by lia. rewrite app_assoc. reflexivity.
Qed.

Lemma seq_at_inj a b : 0 <= a < 65536 -> 0 <= b < 65536 -> seq_at seq0 a = seq_at seq0 b -> a = b.
Proof. unfold seq_at. intros. lia. Qed.

Lemma splice_step F w p : prov p -> good_buf F -> w_ready w = true ->
  exists F' w' r, gstep c (mkG F w) p = (mkG F' w', r) /\ is_rpanic r = false /\
                  good_buf F' /\ w_ready w' = true /\ (forall f, In f (res_frames r) -> allowed f).
Proof.
  intros PV GB R. destruct PV as [kit ts mk u LOC|kit ts mk us LOC|kit ts mk mk' u sizes i LOC Hi].
  - destruct (located_ok _ _ LOC) as [OK IN].
    destruct (item_all kit (ISingle ts mk u) (mkG F w) OK R) as (st' & E & R' & FR).
    simpl item_pkts in E. simpl in E. destruct (gstep c (mkG F w) (mkP (seq_at seq0 kit) (ts32 ts) mk u)) as [st1 r1] eqn:G.
    destruct r1 as [fs|fs|]; try discriminate; injection E as <- E;
      exists (g_frags st1), (g_w st1); eexists; (split; [destruct st1; reflexivity|]); split; auto;
      cbn [g_frags g_w] in *; (split; [destruct FR as [-> | ->]; [auto|left; reflexivity]|]); split; auto;
      intros f Hf; simpl in Hf; rewrite app_nil_r in E; rewrite E in Hf; eapply allowed_item; eauto.
  - destruct (located_ok _ _ LOC) as [OK IN].
    destruct (item_all kit (IAgg ts mk us) (mkG F w) OK R) as (st' & E & R' & FR).
    simpl item_pkts in E. simpl in E.
    destruct (gstep c (mkG F w) (mkP (seq_at seq0 kit) (ts32 ts) mk (z_agg_hdr z us ++ agg_body us))) as [st1 r1] eqn:G.
    destruct r1 as [fs|fs|]; try discriminate; injection E as <- E;
      exists (g_frags st1), (g_w st1); eexists; (split; [destruct st1; reflexivity|]); split; auto;
      cbn [g_frags g_w] in *; (split; [destruct FR as [-> | ->]; [auto|left; reflexivity]|]); split; auto;
      intros f Hf; simpl in Hf; rewrite app_nil_r in E; rewrite E in Hf; eapply allowed_item; eauto.
  - destruct (located_ok _ _ LOC) as [OK IN]. destruct (located_range _ _ LOC) as [K0 KB]. simpl npk in KB.
    simpl in OK. apply andb_true_iff in OK as [OK NE]. apply andb_true_iff in OK as [FO UB].
    set (chunks := chunk_by sizes (z_fu_body z u)) in *.
    assert (CL : length chunks = S (length sizes)) by apply chunk_by_length.
    destruct i as [|i'].
    + (* start fragment: the buffer restarts with it *)
      assert (E2 : Nat.eqb 1 (S (length sizes)) = false).
      { apply Nat.eqb_neq. destruct sizes; [discriminate NE|simpl; lia]. }
      change (Nat.eqb 0 0) with true. rewrite E2. replace (kit + Z.of_nat 0) with kit by lia.
      rewrite (fu_start u (ts32 ts) FO UB (mkG F w) (seq_at seq0 kit) mk' (nth 0 chunks [])).
      eexists; eexists; eexists; split; [reflexivity|]. split; [reflexivity|]. split; [|split; [exact R|intros f []]].
      right. exists kit, ts, mk, u, sizes, 1%nat. split; auto. split.
      { destruct sizes; [discriminate NE|simpl; lia]. }
      split.
      { unfold last_seq. simpl. f_equal. f_equal. lia. }
      destruct (H_fu u true false (nth 0 chunks []) FO UB) as (_ & _ & fuh & I & SB & EB & L & D & B).
      cbn [fu_data]. unfold bytes in *. rewrite L, D. fold chunks.
      destruct chunks as [|c0 cr]; [discriminate CL|]. simpl. rewrite !app_nil_r. reflexivity.
    + (* a later fragment *)
      change (Nat.eqb (S i') 0) with false.
      set (idx := kit + Z.of_nat (S i')) in *.
      destruct GB as [->|(kit2 & ts2 & mk2 & u2 & sizes2 & t & LOC2 & Ht & LS & FD)].
      * rewrite (fu_nochain u (ts32 ts) FO UB [] w (seq_at seq0 idx) mk' _ (nth (S i') chunks [])) by (left; reflexivity).
        eexists; eexists; eexists; split; [reflexivity|]. split; [reflexivity|]. split; [left; reflexivity|]. split; [exact R|intros f []].
      * destruct (located_range _ _ LOC2) as [K02 KB2]. simpl npk in KB2.
        destruct (Z.eq_dec (kit2 + Z.of_nat t) idx) as [EQ|NEQ].
        -- (* the next fragment of the buffered unit *)
           destruct (located_unique kit2 (IFrag ts2 mk2 u2 sizes2) kit (IFrag ts mk u sizes) idx LOC2 LOC) as [EI EK].
           { simpl npk. lia. } { simpl npk. unfold idx. lia. }
           injection EI as -> -> -> ->. subst kit2.
           assert (TI : t = S i') by (unfold idx in EQ; lia). subst t.
           assert (LS' : last_seq F = Some (seq_prev (seq_at seq0 idx))).
           { rewrite LS, seq_prev_at'. unfold idx. repeat f_equal; lia. }
           destruct (Nat.eqb (S (S i')) (S (length sizes))) eqn:EE.
           ++ apply Nat.eqb_eq in EE.
              destruct (fu_end u (ts32 ts) FO UB F w (seq_at seq0 idx) mk' (nth (S i') chunks []) _
                          (concat (firstn (S i') chunks)) LS' eq_refl FD) as [w' [E R']]; auto.
              { rewrite <- concat_firstn_succ by lia. rewrite firstn_all2 by lia. apply chunk_by_concat. }
              rewrite E. eexists; eexists; eexists; split; [reflexivity|]. split; [reflexivity|].
              split; [left; reflexivity|]. split; [exact R'|].
              intros f Hf. simpl in Hf. apply (allowed_item (IFrag ts mk u sizes)); auto.
              all: try (unfold item_frames; simpl; unfold fkeep at 1; cbn [u_pl]; destruct (keep u); [exact Hf|destruct Hf]).
           ++ apply Nat.eqb_neq in EE.
              rewrite (fu_mid u (ts32 ts) FO UB F w (seq_at seq0 idx) mk' (nth (S i') chunks []) _ LS' eq_refl).
              eexists; eexists; eexists; split; [reflexivity|]. split; [reflexivity|]. split; [|split; [exact R|intros f []]].
              right. exists kit, ts, mk, u, sizes, (S (S i')). split; auto. split; [lia|]. split.
              { rewrite last_seq_app. f_equal. f_equal. unfold idx. lia. }
              destruct (H_fu u false false (nth (S i') chunks []) FO UB) as (_ & _ & fuh & I & SB & EB & L & D & B).
              unfold bytes in *. rewrite (fu_data_app _ _ _ _ _ FD L), D. fold chunks.
              assert (LT : (S i' < length chunks)%nat) by (rewrite CL; lia).
              f_equal. symmetry. apply concat_firstn_succ. exact LT.
        -- (* a fragment that does not continue the buffer: the unit is dropped *)
           rewrite (fu_nochain u (ts32 ts) FO UB F w (seq_at seq0 idx) mk' _ (nth (S i') chunks [])).
           ++ eexists; eexists; eexists; split; [reflexivity|]. split; [reflexivity|]. split; [left; reflexivity|]. split; [exact R|intros f []].
           ++ right. eexists. split; [exact LS|]. rewrite seq_prev_at'. intros X. apply seq_at_inj in X; unfold idx in *; lia.
Qed.

Theorem never_spliced : forall ps F w, Forall prov ps -> good_buf F -> w_ready w = true ->
  exists F' w' fs, grun c (mkG F w) ps = (mkG F' w', fs, false) /\ good_buf F' /\ w_ready w' = true /\
                   (forall f, In f fs -> allowed f).
Proof.
  induction ps as [|p r IH]; intros F w PV GB R.
  - exists F, w, []. repeat split; auto. intros f [].
  - inversion PV as [|? ? P1 P2]; subst.
    destruct (splice_step F w p P1 GB R) as (F1 & w1 & r1 & E1 & NP & GB1 & R1 & A1).
    destruct (IH F1 w1 P2 GB1 R1) as (F2 & w2 & fs2 & E2 & GB2 & R2 & A2).
    erewrite grun_cons; [|exact E1|exact NP]. rewrite E2.
    exists F2, w2, (res_frames r1 ++ fs2). repeat split; auto.
    intros f Hf. apply in_app_or in Hf as [Hf|Hf]; auto.
Qed.

End Splice.

End Generic.
