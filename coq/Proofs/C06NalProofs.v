(* C06 — proofs about the generic NAL depacketiser (C06NalDepack.v): round trip
   from any state, whole-or-nothing under every loss pattern. *)
From Coq Require Import ZArith List Bool Lia ZifyBool.
From V Require Import Bytes BytesLemmas C06Rtp C06NalDepack C06BaseProofs.
Import ListNotations.
Open Scope Z_scope.

Lemma grun_nil c st : grun c st [] = (st, [], false).
Proof. reflexivity. Qed.

Lemma grun_cons c st p ps st' r :
  gstep c st p = (st', r) -> is_rpanic r = false ->
  grun c st (p :: ps) = let '(st'', fs, pn) := grun c st' ps in (st'', res_frames r ++ fs, pn).
Proof. intros E N. simpl. unfold bytes in *; rewrite E. destruct r; try discriminate; reflexivity. Qed.

Lemma grun_app c a : forall st b st1 f1,
  grun c st a = (st1, f1, false) ->
  grun c st (a ++ b) = let '(st2, f2, pn) := grun c st1 b in (st2, f1 ++ f2, pn).
Proof.
  induction a as [|p a IH]; intros st b st1 f1 H.
  - simpl in H. injection H as -> <-. simpl. destruct (grun c st1 b) as [[? ?] ?]. reflexivity.
  - simpl in H |- *. destruct (gstep c st p) as [st' r].
    destruct r as [fs|fs|]; try discriminate.
    + destruct (grun c st' a) as [[st2 f2] pn] eqn:E. injection H as -> <- ->.
      rewrite (IH _ b _ _ E). destruct (grun c st1 b) as [[? ?] ?]. simpl. rewrite app_assoc. reflexivity.
    + destruct (grun c st' a) as [[st2 f2] pn] eqn:E. injection H as -> <- ->.
      rewrite (IH _ b _ _ E). destruct (grun c st1 b) as [[? ?] ?]. simpl. rewrite app_assoc. reflexivity.
Qed.

Lemma last_seq_app F s pl : last_seq (F ++ [(s, pl)]) = Some s.
Proof. unfold last_seq. rewrite rev_app_distr. reflexivity. Qed.

Lemma fu_data_app off F : forall D s pl,
  fu_data off F = Some D -> (zlen pl <? off) = false ->
  fu_data off (F ++ [(s, pl)]) = Some (D ++ drop off pl).
Proof.
  induction F as [|[s0 pl0] F IH]; intros D s pl H L; simpl in *.
  - injection H as <-. rewrite L. rewrite app_nil_r. reflexivity.
  - destruct (zlen pl0 <? off); try discriminate.
    destruct (fu_data off F) as [d|] eqn:E; try discriminate. injection H as <-.
    rewrite (IH d s pl eq_refl L). rewrite app_assoc. reflexivity.
Qed.

Lemma filter_cons_app {A} (f : A -> bool) x l :
  filter f (x :: l) = (if f x then [x] else []) ++ filter f l.
Proof. simpl. destruct (f x); reflexivity. Qed.

Lemma agg_body_length us : (length us <= length (agg_body us))%nat.
Proof.
  induction us as [|u r IH]; [simpl; lia|].
  unfold agg_body in *. cbn [flat_map]. rewrite !app_length. change (length (be16 (zlen u))) with 2%nat. cbn [length]. lia.
Qed.

Ltac blia := unfold bytes in *; simpl length in *; lia.

Section Generic.
Variable c : codec.
Variable z : pkz.
Variable keep : bytes -> bool.
Variable seq0 : Z.

Hypothesis H_single : forall u, z_single_ok z u = true -> c_kind c u = KSingle /\ u <> [].
Hypothesis H_agg : forall us, us <> [] -> forallb agg_unit_ok us = true ->
  c_kind c (z_agg_hdr z us ++ agg_body us) = KAgg /\
  drop (c_agg_off c) (z_agg_hdr z us ++ agg_body us) = agg_body us.
Hypothesis H_fu : forall u s e ch, z_frag_ok z u = true -> all_bytes u = true ->
  let pl := z_fu_hdr z u s e ++ ch in
  c_kind c pl = KFu /\ u <> [] /\
  exists fuh, idx pl (c_fu_off c - 1) = Some fuh /\
    (Z.land (Z.shiftr fuh 7) 1 =? 1) = s /\ (Z.land (Z.shiftr fuh 6) 1 =? 1) = e /\
    (zlen pl <? c_fu_off c) = false /\ drop (c_fu_off c) pl = ch /\
    c_rebuild c pl fuh ++ z_fu_body z u = u.
Hypothesis H_write : forall w pl, w_ready w = true -> pl <> [] ->
  exists w', c_write c w pl = Some (w', keep pl) /\ w_ready w' = true.

Definition fkeep (f : uframe) : bool := keep (u_pl f).

Lemma gwrite_ok w ts pl : w_ready w = true -> pl <> [] ->
  exists w', gwrite c w ts pl = (w', ROk (if keep pl then [mkU ts pl] else [])) /\ w_ready w' = true.
Proof.
  intros R N. destruct (H_write w pl R N) as [w' [E R']]. exists w'. split; auto.
  unfold gwrite. unfold bytes in *; rewrite E. destruct (keep pl); reflexivity.
Qed.

(* ---- aggregation ---- *)
Lemma agg_body_cons_nonempty u r : agg_body (u :: r) <> [].
Proof. unfold agg_body. simpl. unfold be16. simpl. discriminate. Qed.

Lemma agg_loop_ok : forall us fuel w ts,
  us <> [] -> forallb agg_unit_ok us = true -> (length us <= fuel)%nat -> w_ready w = true ->
  exists w', agg_loop c fuel w ts (agg_body us) = (w', ROk (filter fkeep (map (mkU ts) us)))
             /\ w_ready w' = true.
Proof.
  induction us as [|u r IH]; intros fuel w ts NE OK FU R; [contradiction|].
  destruct fuel as [|fuel]; [simpl in FU; lia|].
  simpl in OK. apply andb_true_iff in OK as [Hu Hr].
  unfold agg_unit_ok in Hu. apply andb_true_iff in Hu as [Hu Hb]. apply andb_true_iff in Hu as [Hl1 Hl2].
  destruct (be16_decode (zlen u)) as (hi & lo & E & V & _); [lia|].
  assert (EB : agg_body (u :: r) = hi :: lo :: (u ++ agg_body r)).
  { unfold agg_body. cbn [flat_map]. unfold bytes in *; rewrite E. rewrite <- app_assoc. reflexivity. }
  rewrite EB. cbn [agg_loop]. rewrite V.
  assert (N1 : (zlen u <? 1) = false) by lia. rewrite N1.
  assert (N2 : (zlen (u ++ agg_body r) <? zlen u) = false).
  { rewrite zlen_app. pose proof (zlen_nonneg (agg_body r)). lia. }
  rewrite N2. rewrite take_app_exact, drop_app_exact.
  assert (UN : u <> []). { intros ->. rewrite zlen_nil in Hl1. lia. }
  destruct (gwrite_ok w ts u R UN) as [w1 [EW R1]]. rewrite EW.
  rewrite map_cons, filter_cons_app. unfold fkeep at 1. cbn [u_pl].
  destruct r as [|u2 r'].
  - simpl. exists w1. rewrite app_nil_r. auto.
  - destruct (agg_body (u2 :: r')) as [|b0 rest] eqn:EB2; [exfalso; eapply agg_body_cons_nonempty; eauto|].
    destruct (IH fuel w1 ts) as [w2 [E2 R2]]; auto; [discriminate| simpl in FU |- *; lia |].
    unfold bytes in *; rewrite E2. exists w2. split; auto.
Qed.

(* ---- fragmentation ---- *)
Lemma fu_pkts_cons k ts mk u first ch r :
  exists mk', fu_pkts z seq0 k ts mk u first (ch :: r) =
    mkP (seq_at seq0 k) ts mk' (z_fu_hdr z u first (match r with [] => true | _ => false end) ++ ch)
    :: fu_pkts z seq0 (k + 1) ts mk u false r.
Proof. destruct r; simpl; eexists; reflexivity. Qed.

Lemma fu_pkts_length k ts mk u : forall chunks first,
  length (fu_pkts z seq0 k ts mk u first chunks) = length chunks.
Proof.
  intros chunks. revert k. induction chunks as [|ch r IH]; intros k first; [reflexivity|].
  destruct (fu_pkts_cons k ts mk u first ch r) as [mk' EQc]; unfold bytes in *; rewrite EQc; clear EQc. simpl. rewrite IH. reflexivity.
Qed.

(* staleness: the buffer cannot be continued by any packet with index >= k *)
Definition stale_strict (F : list (Z * bytes)) (k : Z) : Prop :=
  F = [] \/ exists j, 0 <= j /\ j + 2 <= k /\ last_seq F = Some (seq_at seq0 j).

Lemma stale_strict_mono F k k' : k <= k' -> stale_strict F k -> stale_strict F k'.
Proof. intros L [->|(j & A & B & C)]; [left; auto|right; exists j; repeat split; auto; lia]. Qed.

Section OneUnit.
Variables (u : bytes) (ts : Z).
Hypothesis Hfok : z_frag_ok z u = true.
Hypothesis Hub : all_bytes u = true.

Let pl (s e : bool) (ch : bytes) := z_fu_hdr z u s e ++ ch.

Lemma gstep_fu st sq mk s e ch :
  gstep c st (mkP sq ts mk (pl s e ch)) = fu_step c st (mkP sq ts mk (pl s e ch)).
Proof.
  unfold gstep. cbn [p_pl]. destruct (H_fu u s e ch Hfok Hub) as [K _]. unfold pl. rewrite K. reflexivity.
Qed.

Lemma fu_start st sq mk ch :
  gstep c st (mkP sq ts mk (pl true false ch)) = (mkG [(sq, pl true false ch)] (g_w st), ROk []).
Proof.
  rewrite gstep_fu. unfold fu_step. cbn [p_pl p_seq p_ts].
  destruct (H_fu u true false ch Hfok Hub) as (_ & _ & fuh & I & S & E & L & D & B).
  fold (pl true false ch) in I. rewrite I, S, E.
  destruct (c_start_returns c); simpl; reflexivity.
Qed.

Lemma fu_mid F w sq mk ch ls :
  last_seq F = Some ls -> ls = seq_prev sq ->
  gstep c (mkG F w) (mkP sq ts mk (pl false false ch)) = (mkG (F ++ [(sq, pl false false ch)]) w, ROk []).
Proof.
  intros LS ->. rewrite gstep_fu. unfold fu_step. cbn [p_pl p_seq p_ts g_frags g_w].
  destruct (H_fu u false false ch Hfok Hub) as (_ & _ & fuh & I & S & E & L & D & B).
  fold (pl false false ch) in I. rewrite I, S, E. cbn [andb]. rewrite LS, Z.eqb_refl. reflexivity.
Qed.

Lemma fu_end F w sq mk ch ls D0 :
  last_seq F = Some ls -> ls = seq_prev sq -> fu_data (c_fu_off c) F = Some D0 ->
  D0 ++ ch = z_fu_body z u -> w_ready w = true ->
  exists w', gstep c (mkG F w) (mkP sq ts mk (pl false true ch))
             = (mkG [] w', ROk (if keep u then [mkU ts u] else [])) /\ w_ready w' = true.
Proof.
  intros LS -> FD BD R. rewrite gstep_fu. unfold fu_step. cbn [p_pl p_seq p_ts g_frags g_w].
  destruct (H_fu u false true ch Hfok Hub) as (_ & UN & fuh & I & S & E & L & D & B).
  fold (pl false true ch) in I, L, D, B. rewrite I, S, E. cbn [andb]. rewrite LS, Z.eqb_refl. cbn [negb].
  rewrite (fu_data_app _ _ _ sq _ FD L). rewrite D, BD, B.
  destruct (gwrite_ok w ts u R UN) as [w' [EW R']]. rewrite EW. exists w'. auto.
Qed.

Lemma fu_nochain F w sq mk e ch :
  (F = [] \/ exists ls, last_seq F = Some ls /\ ls <> seq_prev sq) ->
  gstep c (mkG F w) (mkP sq ts mk (pl false e ch)) = (mkG [] w, ROk []).
Proof.
  intros H. rewrite gstep_fu. unfold fu_step. cbn [p_pl p_seq p_ts g_frags g_w].
  destruct (H_fu u false e ch Hfok Hub) as (_ & _ & fuh & I & S & E & L & D & B).
  fold (pl false e ch) in I. rewrite I, S. cbn [andb].
  destruct H as [-> | (ls & LS & NE)].
  - reflexivity.
  - rewrite LS. assert (X : (ls =? seq_prev sq) = false) by lia. rewrite X. reflexivity.
Qed.

(* all remaining fragments arrive: the unit comes out *)
Lemma fu_suffix_all mk : forall chunks k F w D0,
  chunks <> [] -> w_ready w = true ->
  last_seq F = Some (seq_at seq0 (k - 1)) -> fu_data (c_fu_off c) F = Some D0 ->
  D0 ++ concat chunks = z_fu_body z u ->
  exists w', grun c (mkG F w) (fu_pkts z seq0 k ts mk u false chunks)
             = (mkG [] w', (if keep u then [mkU ts u] else []), false) /\ w_ready w' = true.
Proof.
  induction chunks as [|ch r IH]; intros k F w D0 NE R LS FD BD; [contradiction|].
  destruct (fu_pkts_cons k ts mk u false ch r) as [mk' EQc]; unfold bytes in *; rewrite EQc; clear EQc.
  destruct r as [|ch2 r'].
  - simpl in BD. rewrite app_nil_r in BD.
    destruct (fu_end F w (seq_at seq0 k) mk' ch _ D0 LS) as [w' [E R']]; auto.
    { symmetry. apply seq_prev_at'. }
    erewrite grun_cons; [|exact E|reflexivity]. simpl. exists w'. rewrite app_nil_r. auto.
  - erewrite grun_cons; [|apply (fu_mid F w _ mk' ch _ LS); symmetry; apply seq_prev_at'|reflexivity].
    destruct (H_fu u false false ch Hfok Hub) as (_ & _ & fuh & I & S & E & L & D & B).
    destruct (IH (k + 1) (F ++ [(seq_at seq0 k, pl false false ch)]) w (D0 ++ ch)) as [w' [E' R']]; auto.
    + discriminate.
    + rewrite last_seq_app. f_equal. f_equal. lia.
    + rewrite (fu_data_app _ _ _ _ _ FD L). unfold pl. rewrite D. reflexivity.
    + rewrite <- app_assoc. exact BD.
    + unfold pl, bytes in *. unfold bytes in *; rewrite E'. exists w'. simpl. auto.
Qed.

(* the whole unit from any state *)
Lemma fu_item_all k mk sizes st :
  sizes <> [] -> w_ready (g_w st) = true ->
  exists w', grun c st (fu_pkts z seq0 k ts mk u true (chunk_by sizes (z_fu_body z u)))
            = (mkG [] w', (if keep u then [mkU ts u] else []), false) /\ w_ready w' = true.
Proof.
  intros NE R. pose proof (chunk_by_concat sizes (z_fu_body z u)) as CC.
  destruct sizes as [|s0 sz]; [contradiction|]. simpl chunk_by in *.
  set (ch := take s0 (z_fu_body z u)) in *.
  destruct (chunk_by sz (drop s0 (z_fu_body z u))) as [|ch2 r'] eqn:ER.
  { pose proof (chunk_by_length sz (drop s0 (z_fu_body z u))) as X. rewrite ER in X. discriminate. }
  destruct (fu_pkts_cons k ts mk u true ch (ch2 :: r')) as [mk' EQc]; unfold bytes in *; rewrite EQc; clear EQc.
  erewrite grun_cons; [|apply fu_start|reflexivity].
  destruct (H_fu u true false ch Hfok Hub) as (_ & _ & fuh & I & S & E & L & D & B).
  destruct (fu_suffix_all mk (ch2 :: r') (k + 1) [(seq_at seq0 k, pl true false ch)] (g_w st) ch)
    as [w' [E' R']]; auto.
  - discriminate.
  - unfold last_seq. simpl. f_equal. f_equal. lia.
  - simpl. fold (pl true false ch) in L, D. rewrite L, D, app_nil_r. reflexivity.
  - unfold pl, bytes in *. unfold bytes in *; rewrite E'. exists w'. simpl. auto.
Qed.

Lemma fu_suffix_dead mk : forall chunks k F w mask,
  stale_strict F k -> k + Z.of_nat (length chunks) <= 65536 ->
  exists F', grun c (mkG F w) (select mask (fu_pkts z seq0 k ts mk u false chunks)) = (mkG F' w, [], false)
             /\ stale_strict F' (k + Z.of_nat (length chunks)).
Proof.
  induction chunks as [|ch r IH]; intros k F w mask ST B.
  - simpl fu_pkts. rewrite select_nil_r. exists F. split; [reflexivity|].
    eapply stale_strict_mono; [|exact ST]. lia.
  - destruct (fu_pkts_cons k ts mk u false ch r) as [mk' EQc]; unfold bytes in *; rewrite EQc; clear EQc.
    simpl length in B.
    destruct mask as [|b m].
    + simpl. exists F. split; auto. eapply stale_strict_mono; [|exact ST]. lia.
    + destruct b; cbn [select].
      * erewrite grun_cons; [| apply fu_nochain | reflexivity].
        2:{ destruct ST as [->|(j & J0 & J2 & LS)]; [left; auto|].
            right. exists (seq_at seq0 j). split; auto. apply seq_no_chain; lia. }
        destruct (IH (k + 1) [] w m) as [F' [E ST']]; [left; auto | blia |].
        unfold bytes in *; rewrite E. exists F'. split; [reflexivity|]. eapply stale_strict_mono; [|exact ST']. blia.
      * destruct (IH (k + 1) F w m) as [F' [E ST']]; [eapply stale_strict_mono; [|exact ST]; lia | blia |].
        unfold bytes in *; rewrite E. exists F'. split; [reflexivity|]. eapply stale_strict_mono; [|exact ST']. blia.
Qed.

(* a good chain followed by at least one loss: nothing comes out *)
Lemma fu_suffix_partial mk : forall chunks k F w mask,
  1 <= k -> last_seq F = Some (seq_at seq0 (k - 1)) ->
  length mask = length chunks -> all_true mask = false ->
  k + Z.of_nat (length chunks) <= 65536 ->
  exists F', grun c (mkG F w) (select mask (fu_pkts z seq0 k ts mk u false chunks)) = (mkG F' w, [], false)
             /\ stale_strict F' (k + Z.of_nat (length chunks)).
Proof.
  induction chunks as [|ch r IH]; intros k F w mask K1 LS LM AT B.
  - destruct mask; try discriminate.
  - destruct mask as [|b m]; [discriminate|]. simpl in LM. injection LM as LM.
    simpl length in B.
    destruct (fu_pkts_cons k ts mk u false ch r) as [mk' EQc]; unfold bytes in *; rewrite EQc; clear EQc.
    destruct b; cbn [select].
    + simpl in AT.
      destruct r as [|ch2 r']. { destruct m; [discriminate AT|discriminate LM]. }
      erewrite grun_cons; [|apply (fu_mid F w _ mk' ch _ LS); symmetry; apply seq_prev_at'|reflexivity].
      destruct (IH (k + 1) (F ++ [(seq_at seq0 k, pl false false ch)]) w m) as [F' [E ST']]; auto; try blia.
      { rewrite last_seq_app. f_equal. f_equal. lia. }
      unfold bytes in *; rewrite E. exists F'. split; [reflexivity|]. eapply stale_strict_mono; [|exact ST']. blia.
    + destruct (fu_suffix_dead mk r (k + 1) F w m) as [F' [E ST']]; [|blia|].
      { right. exists (k - 1). repeat split; auto; lia. }
      unfold bytes in *; rewrite E. exists F'. split; [reflexivity|]. eapply stale_strict_mono; [|exact ST']. blia.
Qed.

End OneUnit.

(* between items: the buffer is empty or ends with a packet of index < k *)
Definition stale (F : list (Z * bytes)) (k : Z) : Prop :=
  F = [] \/ exists j, 0 <= j /\ j + 1 <= k /\ last_seq F = Some (seq_at seq0 j).

Lemma stale_mono F k k' : k <= k' -> stale F k -> stale F k'.
Proof. intros L [->|(j & A & B & C)]; [left; auto|right; exists j; repeat split; auto; lia]. Qed.
Lemma stale_strict_stale F k : stale_strict F k -> stale F k.
Proof. intros [->|(j & A & B & C)]; [left; auto|right; exists j; repeat split; auto; lia]. Qed.
Lemma stale_stale_strict F k : stale F k -> stale_strict F (k + 1).
Proof. intros [->|(j & A & B & C)]; [left; auto|right; exists j; repeat split; auto; lia]. Qed.

Lemma item_pkts_length k it : length (item_pkts z seq0 k it) = npk it.
Proof.
  destruct it; simpl; auto. rewrite fu_pkts_length, chunk_by_length. reflexivity.
Qed.

Lemma item_ok_single_nonempty ts mk u : item_ok z (ISingle ts mk u) = true -> u <> [].
Proof. simpl. intros H. apply andb_true_iff in H as [H _]. apply H_single in H. tauto. Qed.

(* one item, all of its packets, from any state *)
Lemma item_all k it st :
  item_ok z it = true -> w_ready (g_w st) = true ->
  exists st', grun c st (item_pkts z seq0 k it) = (st', filter fkeep (item_frames it), false)
              /\ w_ready (g_w st') = true
              /\ (g_frags st' = g_frags st \/ g_frags st' = []).
Proof.
  intros OK R. destruct it as [ts mk u|ts mk us|ts mk u sizes]; simpl item_pkts; unfold item_frames; simpl item_units; simpl item_ts.
  - simpl in OK. apply andb_true_iff in OK as [OK _]. destruct (H_single u OK) as [K UN].
    destruct (gwrite_ok (g_w st) (ts32 ts) u R UN) as [w' [EW R']].
    erewrite grun_cons; [| unfold gstep; cbn [p_pl p_ts]; rewrite K, EW; reflexivity | destruct (keep u); reflexivity].
    simpl. exists (mkG (g_frags st) w'). rewrite app_nil_r. repeat split; auto.
    all: try (unfold fkeep; cbn [u_pl]; destruct (keep u); reflexivity).
  - simpl in OK. apply andb_true_iff in OK as [NE OK].
    assert (NE' : us <> []) by (intros ->; discriminate).
    destruct (H_agg us NE' OK) as [K D].
    destruct (agg_loop_ok us (S (length (z_agg_hdr z us ++ agg_body us))) (g_w st) (ts32 ts) NE' OK) as [w' [EA R']]; auto.
    { rewrite app_length. pose proof (agg_body_length us). simpl. lia. }
    erewrite grun_cons; [| unfold gstep; cbn [p_pl p_ts]; rewrite K, D, EA; reflexivity | reflexivity].
    simpl. exists (mkG (g_frags st) w'). rewrite app_nil_r. repeat split; auto.
  - simpl in OK. apply andb_true_iff in OK as [OK NE]. apply andb_true_iff in OK as [FO UB].
    assert (NE' : sizes <> []) by (intros ->; discriminate).
    destruct (fu_item_all u (ts32 ts) FO UB k mk sizes st NE' R) as [w' [E R']].
    unfold bytes in *; rewrite E. exists (mkG [] w'). simpl. repeat split; auto.
    all: try (unfold fkeep; cbn [u_pl]; destruct (keep u); reflexivity).
Qed.

(* one item under a loss mask *)
Lemma item_loss k it F w mask :
  item_ok z it = true -> w_ready w = true -> stale F k -> 0 <= k ->
  length mask = npk it -> k + Z.of_nat (npk it) <= 65536 ->
  exists F' w', grun c (mkG F w) (select mask (item_pkts z seq0 k it))
                = (mkG F' w', (if all_true mask then filter fkeep (item_frames it) else []), false)
                /\ w_ready w' = true /\ stale F' (k + Z.of_nat (npk it)).
Proof.
  intros OK R ST K0 LM B.
  destruct (all_true mask) eqn:AT.
  - rewrite select_all_true; auto; [|rewrite item_pkts_length; auto].
    destruct (item_all k it (mkG F w) OK R) as [st' (E & R' & FR)].
    destruct st' as [F' w']. exists F', w'. cbn [g_frags g_w] in *. repeat split; auto.
    destruct FR as [-> | ->]; [eapply stale_mono; [|exact ST]; lia | left; auto].
  - destruct it as [ts mk u|ts mk us|ts mk u sizes].
    + simpl in LM. destruct mask as [|b [|? ?]]; try discriminate. destruct b; [discriminate AT|].
      simpl. exists F, w. repeat split; auto. eapply stale_mono; [|exact ST]. lia.
    + simpl in LM. destruct mask as [|b [|? ?]]; try discriminate. destruct b; [discriminate AT|].
      simpl. exists F, w. repeat split; auto. eapply stale_mono; [|exact ST]. lia.
    + simpl in OK. apply andb_true_iff in OK as [OK NE]. apply andb_true_iff in OK as [FO UB].
      simpl item_pkts. simpl npk in *.
      pose proof (chunk_by_length sizes (z_fu_body z u)) as CL.
      destruct (chunk_by sizes (z_fu_body z u)) as [|ch r]; [discriminate|].
      simpl in CL. injection CL as CL.
      destruct mask as [|b m]; [discriminate|]. simpl in LM. injection LM as LM.
      destruct (fu_pkts_cons k (ts32 ts) mk u true ch r) as [mk' EQc]; unfold bytes in *; rewrite EQc; clear EQc.
      assert (LR : Z.of_nat (S (length sizes)) = 1 + Z.of_nat (length r)) by lia.
      destruct b; cbn [select].
      * simpl in AT.
        destruct r as [|ch2 r'].
        { destruct m; [discriminate AT|]. simpl in LM, CL. blia. }
        erewrite grun_cons; [|apply (fu_start u (ts32 ts) FO UB)|reflexivity].
        destruct (fu_suffix_partial u (ts32 ts) FO UB mk (ch2 :: r') (k + 1)
                    [(seq_at seq0 k, z_fu_hdr z u true false ++ ch)] w m) as [F' [E ST']]; auto; try blia.
        { unfold last_seq. simpl. f_equal. f_equal. lia. }
        cbn [g_w]. unfold bytes in *; rewrite E. exists F', w. repeat split; auto.
        apply stale_strict_stale. refine (stale_strict_mono _ _ _ _ ST'). blia.
      * destruct (fu_suffix_dead u (ts32 ts) FO UB mk r (k + 1) F w m) as [F' [E ST']]; [apply stale_stale_strict; auto | blia |].
        unfold bytes in *; rewrite E. exists F', w. repeat split; auto.
        apply stale_strict_stale. refine (stale_strict_mono _ _ _ _ ST'). blia.
Qed.

Lemma packetize_length items : forall k, length (packetize z seq0 k items) = total_pk items.
Proof.
  induction items as [|it r IH]; intros k; simpl; auto.
  rewrite app_length, item_pkts_length, IH. reflexivity.
Qed.

(* round trip, from any state *)
Theorem items_all : forall items k st,
  forallb (item_ok z) items = true -> w_ready (g_w st) = true ->
  exists st', grun c st (packetize z seq0 k items)
              = (st', filter fkeep (flat_map item_frames items), false)
              /\ w_ready (g_w st') = true.
Proof.
  induction items as [|it r IH]; intros k st OK R.
  - simpl. exists st. auto.
  - simpl in OK. apply andb_true_iff in OK as [OK1 OK2].
    destruct (item_all k it st OK1 R) as [st1 (E1 & R1 & _)].
    destruct (IH (k + Z.of_nat (npk it)) st1 OK2 R1) as [st2 (E2 & R2)].
    simpl packetize. rewrite (grun_app _ _ _ _ _ _ E1), E2.
    exists st2. split; auto. simpl flat_map. unfold fkeep. rewrite filter_app. reflexivity.
Qed.

(* whole-or-nothing under every loss pattern *)
Theorem items_loss : forall items k F w mask,
  forallb (item_ok z) items = true -> w_ready w = true -> stale F k -> 0 <= k ->
  length mask = total_pk items -> k + Z.of_nat (total_pk items) <= 65536 ->
  exists F' w', grun c (mkG F w) (select mask (packetize z seq0 k items))
                = (mkG F' w', spec_loss keep items mask, false)
                /\ w_ready w' = true /\ stale F' (k + Z.of_nat (total_pk items)).
Proof.
  induction items as [|it r IH]; intros k F w mask OK R ST K0 LM B.
  - simpl. rewrite select_nil_r. exists F, w. repeat split; auto. simpl. replace (k + 0) with k by lia. auto.
  - simpl in OK. apply andb_true_iff in OK as [OK1 OK2].
    simpl total_pk in *. simpl packetize.
    rewrite (select_split (npk it)); [|apply item_pkts_length|lia].
    destruct (item_loss k it F w (firstn (npk it) mask) OK1 R ST K0) as (F1 & w1 & E1 & R1 & ST1).
    { rewrite firstn_length. lia. } { lia. }
    destruct (IH (k + Z.of_nat (npk it)) F1 w1 (skipn (npk it) mask) OK2 R1 ST1) as (F2 & w2 & E2 & R2 & ST2).
    { lia. } { rewrite skipn_length. lia. } { lia. }
    rewrite (grun_app _ _ _ _ _ _ E1), E2. exists F2, w2. repeat split; auto.
    replace (k + Z.of_nat (npk it + total_pk r)) with (k + Z.of_nat (npk it) + Z.of_nat (total_pk r)) by lia. auto.
Qed.

End Generic.
