(* Proofs about the conversion-goroutine LTS (Model/C03Worker.v). *)
From Coq Require Import ZArith List Bool Arith Lia.
From V Require Import C03Worker.
Import ListNotations.

(* ------------------------------------------------------------------ helpers *)
Lemma wsomes_app : forall a b, wsomes (a ++ b) = wsomes a ++ wsomes b.
Proof.
  induction a as [|[i|] a IH]; intros b; cbn; [reflexivity | rewrite IH; reflexivity | apply IH].
Qed.

Lemma wrun_app : forall push a b s, wrun push (a ++ b) s = wrun push b (wrun push a s).
Proof. intros; unfold wrun; apply fold_left_app. Qed.

Lemma wrun_snoc : forall push a t s, wrun push (a ++ [t]) s = wstep push (wrun push a s) t.
Proof. intros; rewrite wrun_app; reflexivity. Qed.

(* ------------------------------------------------------------------ invariants *)
(* for both variants of Close *)
Definition winv_any (items : list Z) (s : wst) : Prop :=
  (w_pc s = WWait -> w_q s = []) /\
  (w_kpc s = WK0 -> w_closed s = false) /\
  (w_kpc s <> WK0 -> w_closed s = true) /\
  (w_closed s = false -> w_pc s <> WDone) /\
  (w_pushed s ++ w_todo s = items) /\
  (w_pc s <> WDone -> w_pushed s = w_out s ++ winflight (w_pc s) ++ wsomes (w_q s)) /\
  (exists rest, w_pushed s = w_out s ++ rest).

(* for the repaired Close (Push(nil)) *)
Definition winv_push (s : wst) : Prop :=
  (w_pc s = WWoken -> w_q s <> []) /\
  (In None (w_q s) -> w_kpc s = WKDone) /\
  (w_pc s = WGot None -> w_kpc s = WKDone) /\
  (w_kpc s = WKDone ->
     w_pc s = WDone \/ w_pc s = WStart \/ w_pc s = WGot None \/ In None (w_q s)).

Lemma winv_any_init : forall items, winv_any items (winit items).
Proof.
  intros items; unfold winv_any, winit; cbn.
  repeat split; try congruence; try discriminate. exists []; reflexivity.
Qed.

Lemma winv_push_init : forall items, winv_push (winit items).
Proof.
  intros items; unfold winv_push, winit; cbn.
  repeat split; try congruence; try discriminate; try tauto.
Qed.

Ltac wcrush :=
  repeat match goal with
  | |- _ /\ _ => split
  | |- _ -> _ => intro
  | H : _ /\ _ |- _ => destruct H
  | H : exists _, _ |- _ => destruct H
  end.

(* closes the side conditions of the invariant-preservation lemmas *)
Ltac wspec :=
  repeat match goal with
  | H : ?P -> _ |- _ =>
      let h := fresh in assert (h : P) by (reflexivity || discriminate); specialize (H h); clear h
  end.
Ltac wside :=
  cbn in *; try congruence; try discriminate; try tauto;
  try (wspec; cbn in *; first [congruence | discriminate | tauto]);
  try solve [wspec; cbn in *; intuition (congruence || discriminate)].

Ltac wlists :=
  try (eexists; rewrite <- ?app_assoc; cbn; reflexivity);
  try (rewrite ?wsomes_app; cbn; rewrite ?app_nil_r, <- ?app_assoc; cbn; reflexivity).

Lemma winv_any_step : forall push items s t,
  winv_any items s -> winv_any items (wstep push s t).
Proof.
  intros push items [closed q pc out kpc todo pushed] t
    (Hwait & Hk0 & Hk1 & Hcl & Hitems & Hcons & [rest Hpre]); cbn in *.
  subst items.
  assert (Hc : pc = WDone \/ pushed = out ++ winflight pc ++ wsomes q).
  { destruct pc; try (right; apply Hcons; discriminate). left; reflexivity. }
  clear Hcons.
  assert (Hc' : exists rest, pushed = out ++ rest /\ (pc <> WDone -> rest = winflight pc ++ wsomes q)).
  { destruct Hc as [Hc|Hc]; [exists rest; split; [assumption|congruence] | eexists; split; [exact Hc|reflexivity]]. }
  clear Hc Hpre rest. destruct Hc' as (rest & Hpre & Hc). subst pushed.
  destruct t; cbn.
  - (* worker *)
    unfold wstep_worker, wloop_test, wtake; cbn.
    destruct pc as [ | | | |[i|]| ]; try (specialize (Hc ltac:(discriminate)); subst rest);
      destruct closed; destruct q as [|[j|] q']; cbn in *;
      unfold winv_any; cbn; wcrush; wside; wlists.
  - (* closer *)
    unfold wstep_closer, wpush, wsignal; cbn.
    destruct kpc; destruct push; destruct closed;
      destruct pc as [ | | | |[i|]| ]; try (specialize (Hc ltac:(discriminate)); subst rest);
      cbn in *; unfold winv_any; cbn; wcrush; wside; wlists.
  - (* producer *)
    unfold wstep_prod, wpush, wsignal; cbn.
    destruct todo as [|i0 r];
      destruct pc as [ | | | |[i|]| ]; try (specialize (Hc ltac:(discriminate)); subst rest);
      cbn in *; unfold winv_any; cbn; wcrush; wside; wlists.
Qed.

Lemma wapp_not_nil : forall A (q : list A) x, q ++ [x] <> [].
Proof. intros A [|a q] x; discriminate. Qed.

Ltac wq :=
  try apply wapp_not_nil;
  try solve [repeat right; apply in_or_app; right; left; reflexivity];
  try solve [wspec; cbn in *; rewrite ?in_app_iff in *; cbn in *; intuition (congruence || discriminate)].

Lemma winv_push_step : forall items s t,
  winv_any items s -> winv_push s -> winv_push (wstep true s t).
Proof.
  intros items [closed q pc out kpc todo pushed] t
    (Hwait & Hk0 & Hk1 & Hcl & _ & _ & _) (Hwoken & Hnil & Hgot & Hdone); cbn in *.
  destruct t; cbn.
  - unfold wstep_worker, wloop_test, wtake; cbn.
    destruct pc as [ | | | |[i|]| ]; destruct kpc; destruct closed; destruct q as [|[j|] q']; cbn in *;
      unfold winv_push; cbn; wcrush; wside.
  - unfold wstep_closer, wpush, wsignal; cbn.
    destruct kpc; destruct closed; destruct pc as [ | | | |[i|]| ]; cbn in *;
      unfold winv_push; cbn; wcrush; wside; wq.
  - unfold wstep_prod, wpush, wsignal; cbn.
    destruct todo as [|i0 r]; destruct kpc; destruct pc as [ | | | |[i|]| ]; cbn in *;
      unfold winv_push; cbn; wcrush; wside; wq.
Qed.

Lemma winv_any_run : forall push items sched s,
  winv_any items s -> winv_any items (wrun push sched s).
Proof.
  intros push items sched; induction sched as [|t r IH]; intros s H; cbn; [assumption|].
  apply IH, winv_any_step, H.
Qed.

Lemma winv_push_run : forall items sched s,
  winv_any items s -> winv_push s -> winv_push (wrun true sched s).
Proof.
  intros items sched; induction sched as [|t r IH]; intros s Ha Hp; cbn; [assumption|].
  apply IH; [apply winv_any_step, Ha | eapply winv_push_step; eassumption].
Qed.

Lemma winv_any_reach : forall push items sched, winv_any items (wrun push sched (winit items)).
Proof. intros; apply winv_any_run, winv_any_init. Qed.

Lemma winv_push_reach : forall items sched, winv_push (wrun true sched (winit items)).
Proof. intros; eapply winv_push_run; [apply winv_any_init | apply winv_push_init]. Qed.

(* ------------------------------------------------------------------ (a) no lost wake-up *)
Lemma winv_not_waiting : forall items s,
  winv_any items s -> winv_push s -> w_kpc s = WKDone -> w_pc s <> WWait.
Proof.
  intros items s (Hwait & _) (_ & _ & _ & Hdone) Hk Hw.
  specialize (Hwait Hw). destruct (Hdone Hk) as [H|[H|[H|H]]]; try congruence.
  rewrite Hwait in H; exact H.
Qed.

Theorem worker_no_lost_wakeup : forall items sched,
  let s := wrun true sched (winit items) in
  w_kpc s = WKDone -> w_pc s <> WWait.
Proof.
  intros items sched s; eapply winv_not_waiting; [apply winv_any_reach | apply winv_push_reach].
Qed.

(* ------------------------------------------------------------------ (b) the goroutine ends *)
Theorem worker_terminates : forall items sched,
  let s := wrun true sched (winit items) in
  w_kpc s = WKDone -> worker_can_move s = false -> w_pc s = WDone.
Proof.
  intros items sched s Hk Hq.
  pose proof (worker_no_lost_wakeup items sched Hk) as Hnw. fold s in Hnw.
  unfold worker_can_move in Hq. destruct (w_pc s); try discriminate; congruence.
Qed.

(* once Close has returned the worker ends within two steps of its own, whatever the others do *)
Definition wmeasure (pc : wpc) : nat :=
  match pc with WDone => 0 | WStart | WGot _ => 1 | WPop | WWoken | WWait => 2 end.

Lemma wmeasure_step : forall items s t,
  winv_any items s -> winv_push s -> w_kpc s = WKDone ->
  w_kpc (wstep true s t) = WKDone /\
  wmeasure (w_pc (wstep true s t)) <= wmeasure (w_pc s) - (match t with TW => 1 | _ => 0 end).
Proof.
  intros items s t Ha Hp Hk.
  pose proof (winv_not_waiting items s Ha Hp Hk) as Hnw.
  destruct Ha as (Hwait & Hk0 & Hk1 & _). destruct Hp as (Hwoken & _ & _ & Hdone).
  destruct s as [closed q pc out kpc todo pushed]; cbn in *. subst kpc.
  assert (Hcl : closed = true) by (apply Hk1; discriminate). subst closed.
  specialize (Hdone eq_refl).
  destruct t; cbn.
  - unfold wstep_worker, wloop_test, wtake; cbn.
    destruct pc as [ | | | |[i|]| ]; try congruence; cbn; try (split; [reflexivity|cbn; lia]).
    + destruct q as [|x q']; cbn.
      * destruct Hdone as [H|[H|[H|H]]]; try discriminate; destruct H.
      * split; [reflexivity|cbn; lia].
    + destruct q as [|x q']; cbn; (split; [reflexivity|cbn; lia]).
  - split; [reflexivity|lia].
  - unfold wstep_prod, wpush, wsignal; cbn.
    destruct todo as [|i r]; cbn; [split; [reflexivity|lia]|].
    destruct pc; try congruence; cbn; (split; [reflexivity|lia]).
Qed.

Lemma wmeasure_run : forall items sched s,
  winv_any items s -> winv_push s -> w_kpc s = WKDone ->
  wmeasure (w_pc (wrun true sched s)) <= wmeasure (w_pc s) - count_tw sched.
Proof.
  intros items sched; induction sched as [|t r IH]; intros s Ha Hp Hk; cbn.
  - lia.
  - pose proof (winv_any_step true items s t Ha) as Ha'.
    pose proof (winv_push_step items s t Ha Hp) as Hp'.
    destruct (wmeasure_step items s t Ha Hp Hk) as [Hk' Hm].
    specialize (IH _ Ha' Hp' Hk'). fold (wrun true r (wstep true s t)).
    destruct t; cbn in *; lia.
Qed.

Theorem worker_ends_within_two_steps : forall items sched sched',
  let s := wrun true sched (winit items) in
  w_kpc s = WKDone -> 2 <= count_tw sched' -> w_pc (wrun true sched' s) = WDone.
Proof.
  intros items sched sched' s Hk Hn.
  pose proof (wmeasure_run items sched' s (winv_any_reach _ _ _) (winv_push_reach _ _) Hk) as H.
  assert (wmeasure (w_pc s) <= 2) by (destruct (w_pc s); cbn; lia).
  destruct (w_pc (wrun true sched' s)); cbn in H; try lia; reflexivity.
Qed.

(* the worker meets a nil only after Close has returned (no spurious wake-up of the loop) *)
Theorem worker_nil_only_after_close : forall items sched,
  let s := wrun true sched (winit items) in
  (w_pc s = WGot None \/ In None (w_q s)) -> w_kpc s = WKDone.
Proof.
  intros items sched s. destruct (winv_push_reach items sched) as (_ & Hnil & Hgot & _).
  intros [H|H]; auto.
Qed.

(* ------------------------------------------------------------------ (c) order, nothing invented *)
Theorem worker_processes_in_order : forall push items sched,
  let s := wrun push sched (winit items) in
  w_pushed s ++ w_todo s = items /\
  (exists rest, w_pushed s = w_out s ++ rest) /\
  (w_pc s <> WDone -> w_pushed s = w_out s ++ winflight (w_pc s) ++ wsomes (w_q s)) /\
  (w_pc s = WWait -> w_out s = w_pushed s) /\
  (w_pc s = WDone -> w_closed s = true).
Proof.
  intros push items sched s.
  destruct (winv_any_reach push items sched) as (Hwait & _ & _ & Hcl & Hit & Hcons & Hpre).
  fold s in Hwait, Hcl, Hit, Hcons, Hpre.
  repeat split; auto.
  - intros Hw. rewrite (Hcons ltac:(congruence)), Hw, (Hwait Hw); cbn. rewrite app_nil_r; reflexivity.
  - intros Hd. destruct (w_closed s); [reflexivity|]. exfalso; apply (Hcl eq_refl Hd).
Qed.

(* ------------------------------------------------------------------ (d) the bare Signal loses the wake-up *)
Definition lost_wakeup_items : list Z := [7%Z].
Definition lost_wakeup_sched : list wtid := [TW; TP; TW; TW; TK; TK; TW].

Lemma wstuck_forever : forall sched s,
  w_pc s = WWait -> w_kpc s = WKDone -> w_todo s = [] -> wrun false sched s = s.
Proof.
  induction sched as [|t r IH]; intros s Hw Hk Ht; cbn; [reflexivity|].
  assert (Hs : wstep false s t = s).
  { destruct s as [closed q pc out kpc todo pushed]; cbn in *; subst.
    destruct t; reflexivity. }
  rewrite Hs; apply IH; assumption.
Qed.

Theorem worker_lost_wakeup_refuted :
  exists items sched,
    let s := wrun false sched (winit items) in
    w_kpc s = WKDone /\ w_closed s = true /\ w_todo s = [] /\ w_out s = items /\ w_pc s = WWait /\
    forall sched', w_pc (wrun false sched' s) = WWait /\ worker_can_move (wrun false sched' s) = false.
Proof.
  exists lost_wakeup_items, lost_wakeup_sched.
  assert (E : wrun false lost_wakeup_sched (winit lost_wakeup_items) =
              {| w_closed := true; w_q := []; w_pc := WWait; w_out := [7%Z]; w_kpc := WKDone;
                 w_todo := []; w_pushed := [7%Z] |}) by (vm_compute; reflexivity).
  cbv zeta. rewrite E; cbn.
  repeat split; try reflexivity; rewrite wstuck_forever; reflexivity.
Qed.

(* the same schedule on the repaired code ends the goroutine *)
Example worker_repaired_on_witness :
  let s := wrun true lost_wakeup_sched (winit lost_wakeup_items) in
  w_pc s = WGot None /\ w_pc (wrun true [TW] s) = WDone.
Proof. vm_compute; split; reflexivity. Qed.

(* ------------------------------------------------------------------ (e) non-vacuity *)
(* items 1 2: 1 is processed; the worker is parked before Pop having tested closed = false (the
   window of the lost wake-up) while Close runs to completion; 2 is pushed behind the nil; the worker
   pops the nil and ends, 2 is dropped *)
Definition wnonvac_items : list Z := [1; 2]%Z.
Definition wnonvac_sched : list wtid := [TW; TP; TW; TW; TK; TK; TP; TW; TW].

Example worker_nonvacuous :
  let s := wrun true wnonvac_sched (winit wnonvac_items) in
  w_pc (wrun true [TW; TP; TW; TW; TK; TK; TP; TW] (winit wnonvac_items)) = WGot None /\
  w_kpc s = WKDone /\ worker_can_move s = false /\ w_pc s = WDone /\
  w_out s = [1]%Z /\ w_pushed s = [1; 2]%Z /\ w_todo s = [].
Proof. vm_compute; repeat split; reflexivity. Qed.

(* Close may drop items that were pushed before it began: nothing beyond the prefix is promised *)
Example worker_close_may_drop :
  exists items sched,
    let s := wrun true sched (winit items) in
    w_pc s = WDone /\ w_kpc s = WKDone /\ w_pushed s = items /\ w_out s <> w_pushed s.
Proof.
  exists [1; 2]%Z, [TW; TP; TP; TW; TK; TK; TW].
  vm_compute; repeat split; try reflexivity; discriminate.
Qed.

(* without a Close the worker waits only on an empty queue with everything processed *)
Theorem worker_idle_has_processed_all : forall push items sched,
  let s := wrun push sched (winit items) in
  worker_can_move s = false -> w_closed s = false -> w_q s = [] /\ w_out s = w_pushed s.
Proof.
  intros push items sched s Hq Hc.
  destruct (worker_processes_in_order push items sched) as (_ & _ & _ & Hw & Hd). fold s in Hw, Hd.
  destruct (winv_any_reach push items sched) as (Hwait & _). fold s in Hwait.
  unfold worker_can_move in Hq. destruct (w_pc s) eqn:E; try discriminate.
  - split; auto.
  - specialize (Hd eq_refl); congruence.
Qed.


(* ------------------------------------------------------------------ harness granularity *)
Lemma hstep_is_wrun : forall push s t, exists l, hstep push s t = wrun push l s.
Proof.
  intros push s t; destruct t; cbn.
  - exists [TW]; reflexivity.
  - unfold heager. destruct (w_pc (wstep_closer push (wstep_closer push s))) eqn:E;
      try (exists [TK; TK]; reflexivity). exists [TK; TK; TW]; reflexivity.
  - unfold heager. destruct (w_pc (wstep_prod s)) eqn:E;
      try (exists [TP]; reflexivity). exists [TP; TW]; reflexivity.
Qed.

Lemma hfold_is_wrun : forall push hs s, exists l, fold_left (hstep push) hs s = wrun push l s.
Proof.
  intros push hs; induction hs as [|t r IH]; intros s; cbn.
  - exists []; reflexivity.
  - destruct (hstep_is_wrun push s t) as [l1 E1]. destruct (IH (hstep push s t)) as [l2 E2].
    exists (l1 ++ l2). rewrite wrun_app, <- E1; exact E2.
Qed.

(* every run at harness granularity is a run of the LTS *)
Theorem hrun_is_wrun : forall push hs items,
  exists sched, hrun push hs items = wrun push sched (winit items).
Proof.
  intros push hs items. unfold hrun, hinit.
  destruct (hfold_is_wrun push hs (wstep_worker (winit items))) as [l E].
  exists (TW :: l). exact E.
Qed.

(* ------------------------------------------------------------------ the oracle *)
Lemma zprefixb_app : forall a r, zprefixb a (a ++ r) = true.
Proof. induction a as [|x a IH]; intros r; cbn; [reflexivity|]. rewrite Z.eqb_refl; apply IH. Qed.

Lemma zlist_eqb_refl : forall a, zlist_eqb a a = true.
Proof. induction a as [|x a IH]; cbn; [reflexivity|]. rewrite Z.eqb_refl; exact IH. Qed.

Lemma zprefixb_sound : forall a b, zprefixb a b = true -> exists r, b = a ++ r.
Proof.
  induction a as [|x a IH]; intros b H; cbn in *.
  - exists b; reflexivity.
  - destruct b as [|y b]; [discriminate|]. apply andb_prop in H; destruct H as [H1 H2].
    apply Z.eqb_eq in H1; subst y. destruct (IH b H2) as [r E]. exists r; rewrite E; reflexivity.
Qed.

Lemma zlist_eqb_sound : forall a b, zlist_eqb a b = true -> a = b.
Proof.
  induction a as [|x a IH]; intros [|y b] H; cbn in *; try discriminate; [reflexivity|].
  apply andb_prop in H; destruct H as [H1 H2]. apply Z.eqb_eq in H1; subst y.
  rewrite (IH b H2); reflexivity.
Qed.

Lemma firstn_pushed : forall (a b : list Z), firstn (length (a ++ b) - length b) (a ++ b) = a.
Proof.
  intros a b. rewrite app_length. replace (length a + length b - length b) with (length a) by lia.
  rewrite firstn_app, Nat.sub_diag, firstn_all; cbn. apply app_nil_r.
Qed.

(* what the oracle says about an arbitrary state that satisfies the invariants *)
Lemma ok_worker_of_inv : forall items s,
  winv_any items s -> winv_push s -> ok_worker items (wobserve s) = true.
Proof.
  intros items s Ha Hp.
  pose proof (winv_not_waiting items s Ha Hp) as Hnw.
  destruct Ha as (Hwait & Hk0 & Hk1 & Hcl & Hit & Hcons & [rest Hpre]).
  unfold ok_worker, wobserve; cbn [o_pc o_out o_kpc o_todo].
  subst items. rewrite firstn_pushed.
  assert (Hlen : (length (w_todo s) <=? length (w_pushed s ++ w_todo s)) = true)
    by (apply Nat.leb_le; rewrite app_length; lia).
  rewrite Hlen; cbn [andb].
  assert (Hpref : zprefixb (w_out s) (w_pushed s) = true) by (rewrite Hpre; apply zprefixb_app).
  rewrite Hpref.
  destruct (w_kpc s) eqn:Ek; destruct (w_pc s) eqn:Ep; cbn; try reflexivity;
    try (exfalso; apply Hnw; reflexivity).
  (* Close not begun, worker waiting: everything pushed has been processed *)
  rewrite (Hcons ltac:(discriminate)), (Hwait eq_refl); cbn. rewrite app_nil_r. apply zlist_eqb_refl.
Qed.

Theorem worker_model_passes : forall items hs,
  ok_worker items (wobserve (hrun true hs items)) = true.
Proof.
  intros items hs. destruct (hrun_is_wrun true hs items) as [sched E]. rewrite E.
  apply ok_worker_of_inv; [apply winv_any_reach | apply winv_push_reach].
Qed.

(* the oracle rejects the lost wake-up: the observation of the pre-repair run fails it *)
Example worker_oracle_rejects_lost_wakeup :
  ok_worker lost_wakeup_items (wobserve (hrun false [TP; TW; TW; TK; TW] lost_wakeup_items)) = false.
Proof. vm_compute; reflexivity. Qed.

(* what an accepted observation means *)
Theorem ok_worker_sound : forall items o,
  ok_worker items o = true ->
  (o_kpc o = 5%Z -> o_pc o <> 3%Z) /\
  (o_kpc o = 5%Z -> o_pc o = 3%Z \/ o_pc o = 5%Z -> o_pc o = 5%Z) /\
  (exists rest, firstn (length items - o_todo o) items = o_out o ++ rest) /\
  (o_kpc o = 0%Z -> o_pc o = 3%Z -> o_out o = firstn (length items - o_todo o) items).
Proof.
  intros items o H. unfold ok_worker in H.
  repeat (apply andb_prop in H; destruct H as [H ?]).
  repeat split.
  - intros Hk Hp. rewrite Hk, Hp in *. discriminate.
  - intros Hk [Hp|Hp]; rewrite Hk, Hp in *; [discriminate|reflexivity].
  - apply zprefixb_sound; assumption.
  - intros Hk Hp. rewrite Hk, Hp in *. cbn in *. apply zlist_eqb_sound; assumption.
Qed.

(* ------------------------------------------------------------------ on the wire *)
From V Require Import Val RunC03Worker.

Lemma dec_enc_wobs : forall o, dec_wobs (enc_wobs o) = o.
Proof.
  intros [pc out kpc todo]; unfold dec_wobs, enc_wobs, nthv, vlist, vnat, as_nat; cbn.
  rewrite map_map; cbn. rewrite map_id, Nat2Z.id. reflexivity.
Qed.

(* the extracted oracle accepts the extracted model's own prediction, for every case *)
Theorem worker_model_passes_on_the_wire : forall c,
  as_bool (nthv 1 c) = true -> x_C03_worker_ok (VL [c; x_C03_worker_run c]) = VI 1%Z.
Proof.
  intros c Hp. unfold x_C03_worker_ok, x_C03_worker_run.
  change (nthv 0 (VL [c; ?x])) with c. change (nthv 1 (VL [c; ?x])) with x.
  rewrite dec_enc_wobs, Hp, worker_model_passes. reflexivity.
Qed.
