(* C02 part A — laws of the pack cache model (Model/Cache.v): after any packet list the cache
   replays exactly what the specification [spec_snap] says, and what [spec_snap] says is spelled
   out declaratively: the last packet of each parameter kind, then the video packets from the last
   key-start packet on. *)
From Coq Require Import ZArith List Bool Lia.
From V Require Import StreamLts Cache.
Import ListNotations.
Open Scope Z_scope.

(* ---------- last_of ---------- *)

Lemma last_of_nil : forall k, last_of k [] = None.
Proof. reflexivity. Qed.

Lemma last_of_snoc : forall k l p,
  last_of k (l ++ [p]) = if is_param k p then Some p else last_of k l.
Proof.
  intros k l p. unfold last_of. rewrite rev_app_distr. cbn [rev app filter].
  destruct (is_param k p); reflexivity.
Qed.

Lemma last_of_cons : forall k p l,
  last_of k (p :: l) =
  match last_of k l with Some q => Some q | None => if is_param k p then Some p else None end.
Proof.
  intros k p l. unfold last_of. cbn [rev]. rewrite filter_app. cbn [filter].
  destruct (filter (is_param k) (rev l)) as [|q r]; cbn [app].
  - destruct (is_param k p); reflexivity.
  - reflexivity.
Qed.

(* declarative reading: [last_of k l = Some p] iff l = l1 ++ p :: l2, p of kind k, none in l2 *)
Lemma last_of_Some : forall k l p,
  last_of k l = Some p <->
  exists l1 l2, l = l1 ++ p :: l2 /\ p_kind p = k /\ forall q, In q l2 -> p_kind q <> k.
Proof.
  intros k l. induction l as [|a l IH]; intros p.
  - rewrite last_of_nil. split; [discriminate|]. intros (l1 & l2 & H & _). destruct l1; discriminate.
  - rewrite last_of_cons. destruct (last_of k l) as [q|] eqn:E.
    + split.
      * intros H. inversion H; subst q. destruct (proj1 (IH p) eq_refl) as (l1 & l2 & -> & Hk & Hn).
        exists (a :: l1), l2. auto.
      * intros (l1 & l2 & H & Hk & Hn). destruct l1 as [|b l1]; cbn in H; inversion H; subst.
        -- destruct (proj1 (IH q) eq_refl) as (m1 & m2 & -> & Hq & _).
           exfalso. apply (Hn q); [apply in_or_app; right; left; reflexivity|exact Hq].
        -- assert (Some q = Some p) as X; [|inversion X; reflexivity].
           apply (proj2 (IH p)). exists l1, l2. auto.
    + assert (Hno : forall q, In q l -> p_kind q <> k).
      { intros q Hq Hk. apply in_split in Hq. destruct Hq as (m1 & m2 & ->).
        (* take the last one of kind k in m2 or q itself *)
        clear IH. revert E. unfold last_of. rewrite rev_app_distr. cbn [rev]. rewrite !filter_app.
        cbn [filter]. unfold is_param at 2. rewrite (proj2 (Z.eqb_eq _ _) Hk).
        destruct (filter (is_param k) (rev m2)); cbn; discriminate. }
      unfold is_param. destruct (Z.eqb_spec (p_kind a) k) as [Hk|Hk].
      * split.
        -- intros H; inversion H; subst a. exists [], l. auto.
        -- intros (l1 & l2 & H & Hp & Hn). destruct l1 as [|b l1]; cbn in H; injection H as Ha Hl.
           ++ rewrite Ha; reflexivity.
           ++ exfalso. apply (Hno p); [rewrite Hl; apply in_or_app; right; left; reflexivity|exact Hp].
      * split; [discriminate|].
        intros (l1 & l2 & H & Hp & Hn). destruct l1 as [|b l1]; cbn in H; injection H as Ha Hl.
        -- rewrite Ha in Hk. contradiction.
        -- exfalso. apply (Hno p); [rewrite Hl; apply in_or_app; right; left; reflexivity|exact Hp].
Qed.

Lemma last_of_None : forall k l, last_of k l = None <-> forall q, In q l -> p_kind q <> k.
Proof.
  intros k l. induction l as [|a l IH].
  - split; [intros _ q []|reflexivity].
  - rewrite last_of_cons. destruct (last_of k l) as [q|] eqn:E.
    + split; [discriminate|]. intros H. exfalso.
      destruct (proj1 (last_of_Some k l q) E) as (l1 & l2 & -> & Hk & _).
      apply (H q); [right; apply in_or_app; right; left; reflexivity|exact Hk].
    + unfold is_param. destruct (Z.eqb_spec (p_kind a) k) as [Hk|Hk].
      * split; [discriminate|]. intros H. exfalso. apply (H a); [left; reflexivity|exact Hk].
      * split; [|reflexivity]. intros _ q [<-|Hq]; [exact Hk|]. apply (proj1 IH eq_refl q Hq).
Qed.

(* ---------- gop_of ---------- *)

Lemma gop_of_acc_app : forall l1 l2 acc,
  gop_of_acc acc (l1 ++ l2) = gop_of_acc (gop_of_acc acc l1) l2.
Proof.
  induction l1 as [|p l1 IH]; intros l2 acc; [reflexivity|].
  cbn [app gop_of_acc]. destruct (is_media p); [|apply IH].
  destruct (p_key p); [apply IH|]. destruct acc; apply IH.
Qed.

Lemma gop_of_acc_nokey : forall l acc,
  (forall q, In q l -> is_media q = true -> p_key q = false) ->
  gop_of_acc acc l = match acc with [] => [] | _ => acc ++ filter is_media l end.
Proof.
  induction l as [|p l IH]; intros acc H.
  - cbn. destruct acc; [reflexivity|]. rewrite app_nil_r. reflexivity.
  - cbn [gop_of_acc filter]. destruct (is_media p) eqn:M.
    + rewrite (H p (or_introl eq_refl) M).
      destruct acc as [|a acc].
      * apply IH. intros q Hq. apply H. right; exact Hq.
      * rewrite IH by (intros q Hq; apply H; right; exact Hq).
        cbn [app]. rewrite <- app_assoc. reflexivity.
    + apply IH. intros q Hq. apply H. right; exact Hq.
Qed.

Lemma p_key_media : forall p, p_key p = true -> is_media p = true.
Proof.
  intros p H. unfold p_key in H. apply Z.eqb_eq in H. unfold is_media. rewrite H. reflexivity.
Qed.

(* declarative reading of [gop_of] *)
Lemma gop_of_key_split : forall l1 k l2,
  p_key k = true -> (forall q, In q l2 -> p_key q = false) ->
  gop_of (l1 ++ k :: l2) = k :: filter is_media l2.
Proof.
  intros l1 k l2 Hk Hn. unfold gop_of. rewrite gop_of_acc_app. cbn [gop_of_acc].
  rewrite (p_key_media k Hk), Hk. rewrite gop_of_acc_nokey; [reflexivity|].
  intros q Hq _. apply Hn, Hq.
Qed.

Lemma gop_of_no_key : forall l, (forall q, In q l -> p_key q = false) -> gop_of l = [].
Proof.
  intros l H. unfold gop_of. rewrite gop_of_acc_nokey; [reflexivity|]. intros q Hq _. apply H, Hq.
Qed.

(* every list either has no key packet or splits at its last one *)
Lemma last_key_split : forall l : list pkt,
  (forall q, In q l -> p_key q = false) \/
  exists l1 k l2, l = l1 ++ k :: l2 /\ p_key k = true /\ forall q, In q l2 -> p_key q = false.
Proof.
  induction l as [|a l [IH|(l1 & k & l2 & -> & Hk & Hn)]].
  - left. intros q [].
  - destruct (p_key a) eqn:Ka.
    + right. exists [], a, l. auto.
    + left. intros q [<-|Hq]; auto.
  - right. exists (a :: l1), k, l2. auto.
Qed.

(* ---------- the cache after a packet list ---------- *)

Definition merge (o n : option pkt) : option pkt := match n with Some q => Some q | None => o end.

Definition rc_add_media (c : rcache) (p : pkt) : rcache :=
  if rc_gopon c then
    if p_key p then
      {| rc_gopon := true; rc_vps := rc_vps c; rc_sps := rc_sps c; rc_pps := rc_pps c; rc_gop := [p] |}
    else match rc_gop c with
         | [] => c
         | _ => {| rc_gopon := true; rc_vps := rc_vps c; rc_sps := rc_sps c; rc_pps := rc_pps c;
                   rc_gop := rc_gop c ++ [p] |}
         end
  else c.

Lemma rc_add_other : forall c p,
  p_kind p <> 0 -> p_kind p <> 5 -> p_kind p <> 3 -> p_kind p <> 4 -> rc_add c p = rc_add_media c p.
Proof.
  intros c p H0 H5 H3 H4. unfold rc_add, rc_add_media.
  destruct (p_kind p) as [|q|q]; [congruence| |reflexivity].
  do 3 (try destruct q as [q|q|]); try reflexivity; congruence.
Qed.

Lemma fold_rc_add : forall l c,
  let c' := fold_left rc_add l c in
  rc_gopon c' = rc_gopon c /\
  rc_vps c' = merge (rc_vps c) (last_of 5 l) /\
  rc_sps c' = merge (rc_sps c) (last_of 3 l) /\
  rc_pps c' = merge (rc_pps c) (last_of 4 l) /\
  rc_gop c' = if rc_gopon c then gop_of_acc (rc_gop c) l else rc_gop c.
Proof.
  induction l as [|p l IH]; intros c; cbn zeta.
  - cbn. destruct (rc_gopon c); auto.
  - cbn [fold_left]. specialize (IH (rc_add c p)). cbn zeta in IH.
    destruct IH as (Hg & Hv & Hs & Hp & Hq).
    rewrite Hg, Hv, Hs, Hp, Hq. rewrite !last_of_cons. cbn [gop_of_acc].
    unfold is_param, is_media.
    destruct (Z.eqb_spec (p_kind p) 0) as [K0|K0].
    { unfold rc_add; rewrite K0; cbn.
      destruct (last_of 5 l), (last_of 3 l), (last_of 4 l), (rc_gopon c); cbn; auto. }
    destruct (Z.eqb_spec (p_kind p) 5) as [K5|K5].
    { unfold rc_add; rewrite K5; cbn.
      destruct (last_of 5 l), (last_of 3 l), (last_of 4 l), (rc_gopon c); cbn; auto. }
    destruct (Z.eqb_spec (p_kind p) 3) as [K3|K3].
    { unfold rc_add; rewrite K3; cbn.
      destruct (last_of 5 l), (last_of 3 l), (last_of 4 l), (rc_gopon c); cbn; auto. }
    destruct (Z.eqb_spec (p_kind p) 4) as [K4|K4].
    { unfold rc_add; rewrite K4; cbn.
      destruct (last_of 5 l), (last_of 3 l), (last_of 4 l), (rc_gopon c); cbn; auto. }
    rewrite rc_add_other by assumption. unfold rc_add_media. cbn [negb andb].
    destruct (rc_gopon c) eqn:G.
    + destruct (p_key p) eqn:K2.
      * cbn. destruct (last_of 5 l), (last_of 3 l), (last_of 4 l); cbn; auto.
      * destruct (rc_gop c) eqn:Q; cbn; rewrite ?G, ?Q;
          destruct (last_of 5 l), (last_of 3 l), (last_of 4 l); cbn; auto.
    + rewrite G. destruct (last_of 5 l), (last_of 3 l), (last_of 4 l); cbn; auto.
Qed.

Theorem cache_is_spec : forall gopon l,
  rc_snap (fold_left rc_add l (rc_empty gopon)) = spec_snap gopon l.
Proof.
  intros gopon l. destruct (fold_rc_add l (rc_empty gopon)) as (Hg & Hv & Hs & Hp & Hq).
  unfold rc_snap, spec_snap. rewrite Hg, Hv, Hs, Hp, Hq. cbn [rc_empty rc_gopon rc_vps rc_sps rc_pps rc_gop].
  unfold merge, gop_of.
  destruct (last_of 5 l), (last_of 3 l), (last_of 4 l), gopon; reflexivity.
Qed.

(* ---------- readable corollaries ---------- *)

Lemma last_of_In : forall k l p, last_of k l = Some p -> In p l.
Proof.
  intros k l p H. apply last_of_Some in H. destruct H as (l1 & l2 & -> & _).
  apply in_or_app; right; left; reflexivity.
Qed.

Lemma gop_of_acc_incl : forall l acc p, In p (gop_of_acc acc l) -> In p acc \/ In p l.
Proof.
  induction l as [|a l IH]; intros acc p H; [left; exact H|].
  cbn [gop_of_acc] in H. destruct (is_media a).
  - destruct (p_key a).
    + apply IH in H. destruct H as [[<-|[]]|H]; [right; left; reflexivity|right; right; exact H].
    + destruct acc as [|b acc].
      * apply IH in H. destruct H as [[]|H]. right; right; exact H.
      * apply IH in H. destruct H as [H|H]; [|right; right; exact H].
        apply in_app_or in H. destruct H as [H|[<-|[]]]; [left; exact H|right; left; reflexivity].
  - apply IH in H. destruct H as [H|H]; [left; exact H|right; right; exact H].
Qed.

(* nothing is invented: every replayed packet was published *)
Theorem snap_incl : forall gopon l p, In p (spec_snap gopon l) -> In p l.
Proof.
  intros gopon l p H. unfold spec_snap in H.
  repeat (apply in_app_or in H; destruct H as [H|H]).
  - destruct (last_of 5 l) eqn:E; [destruct H as [<-|[]]; eapply last_of_In; eauto|destruct H].
  - destruct (last_of 3 l) eqn:E; [destruct H as [<-|[]]; eapply last_of_In; eauto|destruct H].
  - destruct (last_of 4 l) eqn:E; [destruct H as [<-|[]]; eapply last_of_In; eauto|destruct H].
  - destruct gopon; [|destruct H]. apply gop_of_acc_incl in H. destruct H as [[]|H]; exact H.
Qed.

(* the parameter part: VPS, SPS, PPS in this order, each the LAST packet of its kind in [l]
   (absent iff no packet of that kind was published) *)
Definition latest (k : Z) (l : list pkt) (o : option pkt) : Prop :=
  match o with
  | Some p => exists l1 l2, l = l1 ++ p :: l2 /\ p_kind p = k /\ forall q, In q l2 -> p_kind q <> k
  | None => forall q, In q l -> p_kind q <> k
  end.

Theorem snap_params_latest : forall gopon l,
  exists v s p, spec_snap gopon l = opt_list v ++ opt_list s ++ opt_list p ++ (if gopon then gop_of l else []) /\
                latest 5 l v /\ latest 3 l s /\ latest 4 l p.
Proof.
  intros gopon l. exists (last_of 5 l), (last_of 3 l), (last_of 4 l). split; [reflexivity|].
  repeat split.
  - unfold latest. destruct (last_of 5 l) eqn:E; [apply last_of_Some|apply last_of_None]; exact E.
  - unfold latest. destruct (last_of 3 l) eqn:E; [apply last_of_Some|apply last_of_None]; exact E.
  - unfold latest. destruct (last_of 4 l) eqn:E; [apply last_of_Some|apply last_of_None]; exact E.
Qed.

(* the GOP part: empty when no key-start packet was published; otherwise, splitting [l] at its
   LAST key-start packet k, it is k followed by every later video packet (kinds other than
   0 / SPS / PPS / VPS), in order — so it starts with a key packet and loses nothing after it *)
Theorem snap_gop_starts_with_key : forall l,
  ((forall q, In q l -> p_key q = false) /\ gop_of l = []) \/
  (exists l1 k l2, l = l1 ++ k :: l2 /\ p_key k = true /\ (forall q, In q l2 -> p_key q = false) /\
                   gop_of l = k :: filter is_media l2).
Proof.
  intros l. destruct (last_key_split l) as [H|(l1 & k & l2 & -> & Hk & Hn)].
  - left. split; [exact H|apply gop_of_no_key, H].
  - right. exists l1, k, l2. repeat split; auto. apply gop_of_key_split; auto.
Qed.

(* with cache_gop off nothing but the parameter sets is replayed *)
Theorem snap_gop_off : forall l,
  spec_snap false l = opt_list (last_of 5 l) ++ opt_list (last_of 3 l) ++ opt_list (last_of 4 l).
Proof. intros l. unfold spec_snap. rewrite !app_nil_r. reflexivity. Qed.

(* ---------- the cache goes by arrival order and packet kind only ---------- *)

(* A packet of the model is (identity, kind); the identity stands for everything else the real packet
   carries: payload bytes, sequence number, RTP / FLV TIMESTAMP.  The cache commutes with every
   relabelling [f] of the packets that keeps their kinds — in particular with replacing one
   timestamp assignment by another: which POSITIONS of the packet list are replayed does not depend
   on the timestamps (monotone, wrapped past 2^32, decreasing, equal ...). *)
Definition rc_map (f : pkt -> pkt) (c : rcache) : rcache :=
  {| rc_gopon := rc_gopon c; rc_vps := option_map f (rc_vps c); rc_sps := option_map f (rc_sps c);
     rc_pps := option_map f (rc_pps c); rc_gop := map f (rc_gop c) |}.

Lemma rc_add_map : forall f, (forall p, p_kind (f p) = p_kind p) ->
  forall c p, rc_add (rc_map f c) (f p) = rc_map f (rc_add c p).
Proof.
  intros f Hf c p.
  destruct (Z.eq_dec (p_kind p) 0) as [K0|K0]; [unfold rc_add; rewrite Hf, K0; reflexivity|].
  destruct (Z.eq_dec (p_kind p) 5) as [K5|K5]; [unfold rc_add; rewrite Hf, K5; reflexivity|].
  destruct (Z.eq_dec (p_kind p) 3) as [K3|K3]; [unfold rc_add; rewrite Hf, K3; reflexivity|].
  destruct (Z.eq_dec (p_kind p) 4) as [K4|K4]; [unfold rc_add; rewrite Hf, K4; reflexivity|].
  rewrite !rc_add_other by (rewrite ?Hf; assumption).
  unfold rc_add_media, p_key. rewrite Hf. cbn [rc_map rc_gopon rc_gop].
  destruct (rc_gopon c); [|reflexivity].
  destruct (p_kind p =? 2); [reflexivity|].
  destruct (rc_gop c) as [|g gs]; cbn [map]; [reflexivity|].
  unfold rc_map. cbn. rewrite map_app. reflexivity.
Qed.

Lemma rc_fold_map : forall f, (forall p, p_kind (f p) = p_kind p) ->
  forall l c, fold_left rc_add (map f l) (rc_map f c) = rc_map f (fold_left rc_add l c).
Proof.
  intros f Hf. induction l as [|p l IH]; intros c; [reflexivity|].
  cbn [map fold_left]. rewrite rc_add_map by exact Hf. apply IH.
Qed.

Lemma rc_snap_map : forall f c, rc_snap (rc_map f c) = map f (rc_snap c).
Proof.
  intros f c. unfold rc_snap, rc_map. cbn. rewrite !map_app.
  destruct (rc_vps c), (rc_sps c), (rc_pps c), (rc_gopon c); reflexivity.
Qed.

Theorem cache_commutes_with_relabelling : forall f, (forall p, p_kind (f p) = p_kind p) ->
  forall gopon l,
  rc_snap (fold_left rc_add (map f l) (rc_empty gopon)) = map f (rc_snap (fold_left rc_add l (rc_empty gopon))).
Proof.
  intros f Hf gopon l. change (rc_empty gopon) with (rc_map f (rc_empty gopon)) at 1.
  rewrite rc_fold_map by exact Hf. apply rc_snap_map.
Qed.

(* two timestamp assignments of the same packet list = two kind-preserving relabellings f1, f2 of it
   (the identity of a model packet stands for all its other attributes, the timestamp included):
   both snapshots are the SAME selection [sel] of the list — the specification of part A — each in
   its own labelling: they agree up to the timestamps themselves *)
Theorem cache_ignores_timestamps : forall f1 f2,
  (forall p, p_kind (f1 p) = p_kind p) -> (forall p, p_kind (f2 p) = p_kind p) ->
  forall gopon l,
  let sel := spec_snap gopon l in
  rc_snap (fold_left rc_add (map f1 l) (rc_empty gopon)) = map f1 sel /\
  rc_snap (fold_left rc_add (map f2 l) (rc_empty gopon)) = map f2 sel.
Proof.
  intros f1 f2 H1 H2 gopon l sel. unfold sel. rewrite <- cache_is_spec.
  split; apply cache_commutes_with_relabelling; assumption.
Qed.
