(* C12 — the session's effects on the registry: at most one stream, repeated requests in the recording
   state are no-ops, everything created is released *)
From Coq Require Import ZArith List Bool Lia.
From V Require Import Val Bytes StrGo BytesLemmas C12RtspSession C12RtspProofs C12Effects.
Import ListNotations.
Open Scope Z_scope.

Local Opaque canonical_path parse_transport ctl_match.

Lemma list_eqb_refl_t : forall l, list_eqb triple_eqb l l = true.
Proof. induction l as [|[[a b] c] l IH]; cbn; [reflexivity|]. unfold triple_eqb at 1. cbn. rewrite !Z.eqb_refl, IH. reflexivity. Qed.

(* what one step can do to the registry *)
Lemma step_reg_shape : forall e s q s' rs fs,
  s_closed s = false -> step e s q = (s', rs, fs) ->
  (* in the recording state nothing but TEARDOWN changes anything *)
  (s_status s = SRecording -> q_meth q <> MTeardown -> s' = s /\ fs = []) /\
  (* a stream is registered exactly when the session enters the recording state *)
  (s_status s <> SRecording -> s_status s' = SRecording ->
     exists p, fs = [ERegister p] /\ s_held s' = HPub p /\ s_closed s' = false) /\
  (s_status s' <> SRecording \/ s_status s = SRecording -> regs fs = 0) /\
  (q_meth q = MTeardown -> s' = closed_of s /\ fs = [ERelease (s_held s); EClose]) /\
  (q_meth q <> MTeardown -> rels fs = 0 /\ s_closed s' = false) /\
  (forall p, s_held s' = HPub p -> s_held s = HPub p \/ s_status s' = SRecording).
Proof.
  intros e s q s' rs fs Hc. step_crush Hc s q;
  repeat match goal with
  | H : do_describe _ _ _ = _ |- _ => apply do_describe_spec in H
  | H : do_announce _ _ _ = _ |- _ => apply do_announce_spec in H
  | H : do_setup _ _ _ = _ |- _ => apply do_setup_spec in H
  end;
  destruct_hyps; subst; cbn in *;
  repeat split; intros; try congruence; try discriminate; auto;
  destruct_hyps; subst; cbn in *; try congruence; try discriminate;
  try (eexists; repeat split; first [reflexivity | assumption]);
  try (left; congruence);
  try (match goal with H : s_status _ = next_ready _ |- _ => rewrite Hst in H; cbn in H; congruence end).
Qed.

(* repeated RECORD (or PLAY, ANNOUNCE, SETUP, DESCRIBE, anything but TEARDOWN) in the recording state:
   answered, and a no-op on the session and on the registry *)
Theorem recording_is_stable : forall e s q,
  s_closed s = false -> s_status s = SRecording -> q_meth q <> MTeardown ->
  exists c, step e s q = (s, [resp c q], []).
Proof.
  intros e s q Hc Hr Hm. destruct (step e s q) as [[s' rs] fs] eqn:Hs.
  destruct (step_basic _ _ _ _ _ _ Hc Hs) as [c [-> _]].
  destruct (step_reg_shape _ _ _ _ _ _ Hc Hs) as [R1 _]. destruct (R1 Hr Hm) as [-> ->].
  exists c. reflexivity.
Qed.

Theorem repeated_record_is_noop : forall e s q,
  s_closed s = false -> s_status s = SRecording -> q_meth q = MRecord ->
  step e s q = (s, [resp 200 q], []).
Proof.
  intros e s q Hc Hr Hm. unfold step, step_gen, do_record. rewrite Hc, Hm, Hr. reflexivity.
Qed.

(* the invariant of a session's history: nothing created yet, or exactly one stream which is either the
   one the open, recording session holds, or already given back by the closed session *)
Definition eff_inv (s : sess) (created live : Z) : Prop :=
  (created = 0 /\ live = 0 /\ s_status s <> SRecording /\ (forall p, s_held s <> HPub p)) \/
  (created = 1 /\ ((s_closed s = false /\ s_status s = SRecording /\ live = 1 /\ exists p, s_held s = HPub p) \/
                    (s_closed s = true /\ live = 0))).

Lemma eff_inv_step : forall e s q s' rs fs created live,
  eff_inv s created live -> step e s q = (s', rs, fs) ->
  eff_inv s' (created + regs fs) (live + regs fs - rels fs).
Proof.
  intros e s q s' rs fs created live Hi Hs.
  destruct (s_closed s) eqn:Hc.
  - unfold step, step_gen in Hs. rewrite Hc in Hs. inversion Hs; subst. cbn.
    replace (created + 0) with created by lia. replace (live + 0 - 0) with live by lia. exact Hi.
  - destruct (step_reg_shape _ _ _ _ _ _ Hc Hs) as [R1 [R2 [R3 [R4 [R5 R6]]]]].
    destruct Hi as [[-> [-> [Hnr Hh]]] | [-> [[_ [Hr [-> [p Hp]]]] | [Hcl _]]]]; [| |congruence].
    + destruct (meth_eqb (q_meth q) MTeardown) eqn:Et.
      * assert (Hm : q_meth q = MTeardown) by (destruct (q_meth q); try discriminate; reflexivity).
        destruct (R4 Hm) as [-> ->]. left. unfold regs, rels. cbn.
        destruct (s_held s) eqn:E; cbn; repeat split; try discriminate; try lia.
        exfalso. eapply Hh. reflexivity.
      * assert (Hm : q_meth q <> MTeardown) by (intro E; rewrite E in Et; discriminate).
        destruct (R5 Hm) as [Hrel Hop]. rewrite Hrel.
        destruct (status_eqb (s_status s') SRecording) eqn:Es.
        -- assert (Hr' : s_status s' = SRecording) by (destruct (s_status s'); try discriminate; reflexivity).
           destruct (R2 Hnr Hr') as [p [-> [Hp Hcl]]]. right. unfold regs. cbn.
           split; [reflexivity|]. left. repeat split; auto. eauto.
        -- assert (Hr' : s_status s' <> SRecording) by (intro E; rewrite E in Es; discriminate).
           rewrite (R3 (or_introl Hr')). left. repeat split; try lia; auto.
           intros p Hp. destruct (R6 p Hp) as [E | E]; [eapply Hh; eauto | congruence].
    + destruct (meth_eqb (q_meth q) MTeardown) eqn:Et.
      * assert (Hm : q_meth q = MTeardown) by (destruct (q_meth q); try discriminate; reflexivity).
        destruct (R4 Hm) as [-> ->]. right. rewrite Hp. unfold regs, rels. cbn. split; [reflexivity|].
        right. split; reflexivity.
      * assert (Hm : q_meth q <> MTeardown) by (intro E; rewrite E in Et; discriminate).
        destruct (R1 Hr Hm) as [-> ->]. right. unfold regs, rels. cbn. split; [reflexivity|].
        left. repeat split; auto. eauto.
Qed.

Lemma eff_inv_init : forall ws wp, eff_inv (init_sess ws wp) 0 0.
Proof. intros. left. cbn. repeat split; try discriminate. Qed.

Lemma eff_run_inv : forall e n qs s created live os s' c' l',
  eff_inv s created live -> eff_run e n s created live qs = (os, (s', c', l')) ->
  eff_inv s' c' l' /\
  forall o, In o os -> fst (fst o) <= 1 /\ 0 <= snd (fst o) <= fst (fst o).
Proof.
  intros e n qs. induction qs as [|q qs IH]; intros s created live os s' c' l' Hi Hr.
  - cbn in Hr. inversion Hr; subst. split; [assumption | intros o []].
  - cbn [eff_run] in Hr. destruct (step e s q) as [[s1 rs] fs] eqn:Hs.
    destruct (eff_run e n s1 (created + regs fs) (live + regs fs - rels fs) qs) as [os1 fin] eqn:Hr1.
    inversion Hr; subst; clear Hr.
    pose proof (eff_inv_step _ _ _ _ _ _ _ _ Hi Hs) as Hi1.
    destruct (IH _ _ _ _ _ _ _ Hi1 Hr1) as [Hf Hall]. split; [assumption|].
    intros o [<- | Ho]; [|apply Hall; assumption]. cbn [fst snd].
    destruct Hi1 as [[-> [-> _]] | [-> [[_ [_ [-> _]]] | [_ ->]]]]; lia.
Qed.

(* a session owns at most one stream, at every point of every history *)
Theorem session_owns_at_most_one_stream : forall e n ws wp qs o,
  In o (fst (eff_run e n (init_sess ws wp) 0 0 qs)) ->
  fst (fst o) <= 1 /\ 0 <= snd (fst o) <= fst (fst o).
Proof.
  intros e n ws wp qs o Ho.
  destruct (eff_run e n (init_sess ws wp) 0 0 qs) as [os [[s' c'] l']] eqn:Hr.
  destruct (eff_run_inv _ _ _ _ _ _ _ _ _ _ (eff_inv_init ws wp) Hr) as [_ Hall]. apply Hall. exact Ho.
Qed.

Lemma triple_eqb_refl : forall t, triple_eqb t t = true.
Proof. intros [[a b] c]. unfold triple_eqb. cbn. rewrite !Z.eqb_refl. reflexivity. Qed.

(* everything a session's history created is given back by TEARDOWN or by the disconnect, and the oracle
   applied to the implementation accepts the model *)
Theorem effects_model_passes : forall e n ws wp qs,
  let r := eff_run e n (init_sess ws wp) 0 0 qs in
  let created := snd (fst (snd r)) in
  ok_effects e n (init_sess ws wp) qs (fst r)
    {| ef_live := 0; ef_cons := 0; ef_attached := (if 0 <? created then n else 0);
       ef_released := (if 0 <? created then n else 0) |} = true.
Proof.
  intros e n ws wp qs r created. subst r created. unfold ok_effects.
  destruct (eff_run e n (init_sess ws wp) 0 0 qs) as [os [[s' c'] l']] eqn:Hr. cbn [fst snd].
  destruct (eff_run_inv _ _ _ _ _ _ _ _ _ _ (eff_inv_init ws wp) Hr) as [Hf _].
  assert (Hend : l' - rels (snd (disconnect s')) = 0).
  { unfold disconnect. destruct Hf as [[_ [-> [_ Hh]]] | [_ [[Hc [_ [-> [p Hp]]]] | [Hc ->]]]].
    - destruct (s_closed s'); cbn; [reflexivity|]. unfold rels. cbn.
      destruct (s_held s') eqn:E; cbn; try reflexivity. exfalso. eapply Hh. reflexivity.
    - rewrite Hc, Hp. reflexivity.
    - rewrite Hc. reflexivity. }
  rewrite Hend. rewrite (list_eqb_refl_t os). cbn. rewrite !Z.eqb_refl. reflexivity.
Qed.

