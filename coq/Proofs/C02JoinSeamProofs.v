(* C02 — the model passes the seam oracle (Model/C02JoinSeam.v) for EVERY queue limit: from
   join_contiguous_any_replay_length_rcache (LtsJoinProofs) and C01's delivered_prefix_of_pushed. *)
From Coq Require Import ZArith List Bool Arith Lia.
From V Require Import Val StreamLts Cache LtsWire LtsOracle CacheProofs LtsJoinProofs C02JoinSeam.
From V Require LtsFanoutProofs.
Import ListNotations.

Lemma snk_is_nk : forall w, snk w = nk w.
Proof. induction w as [|p w IH]; cbn; [reflexivity|]. rewrite IH. reflexivity. Qed.

Lemma prefixZ_app : forall a t, prefixZ a (a ++ t) = true.
Proof. induction a as [|x a IH]; intros t; cbn [app prefixZ]; [reflexivity|]. rewrite Z.eqb_refl. apply IH. Qed.

Lemma app_eq_compat : forall (a b x y : list Z), a ++ x = b ++ y ->
  (exists t, b = a ++ t) \/ (exists t, a = b ++ t).
Proof.
  induction a as [|h a IH]; intros b x y H.
  - left. exists b. reflexivity.
  - destruct b as [|g b]; [right; exists (h :: a); reflexivity|].
    cbn in H. injection H as -> H. destruct (IH b x y H) as [[t ->]|[t ->]]; [left|right]; exists t; reflexivity.
Qed.

Lemma variant_fixed_eq : forall v, variant_fixed v = true -> v = fixed.
Proof.
  intros [a b c d] H. unfold variant_fixed in H. cbn in H.
  destruct a, b, c, d; try discriminate. reflexivity.
Qed.

Lemma nth_map_seq : forall (A : Type) (f : nat -> A) n i d, (i < n)%nat -> nth i (map f (seq 0 n)) d = f i.
Proof.
  intros A f n i d H. rewrite (nth_indep _ d (f 0%nat)) by (rewrite map_length, seq_length; exact H).
  rewrite map_nth, seq_nth by exact H. reflexivity.
Qed.

Theorem seam_model_passes : forall c : lcase, seam_ok c (obs_of_state (l_n c) (lrun c)) = true.
Proof.
  intros c. unfold seam_ok. destruct (variant_fixed (l_var c) && _) eqn:G; [|reflexivity].
  apply andb_prop in G. destruct G as [Gv Gc]. apply variant_fixed_eq in Gv.
  assert (HF : Forall (fun t => t <> TClose) (l_sched c)).
  { apply Forall_forall. intros t Ht E. rewrite forallb_forall in Gc. specialize (Gc t Ht).
    rewrite E in Gc. discriminate. }
  apply forallb_forall. intros i Hi. apply in_seq in Hi.
  unfold obs_of_state. cbn [o_cons]. rewrite nth_map_seq by lia.
  unfold seam_cons_ok. destruct (c_regat (s_cs rcache (lrun c) i)) as [r|] eqn:Hr; [|reflexivity].
  cbv zeta.
  set (pan := fun j => nth j (l_panic c) O). set (stp := fun j => nth j (l_stop c) false).
  assert (Es : lrun c = run fixed (l_maxq c) rcache (rc_empty (l_gop c)) rc_add rc_snap (l_n c) pan (l_sched c)
                          (init rcache (rc_empty (l_gop c)) (l_pkts c) stp)).
  { unfold lrun. rewrite Gv. reflexivity. }
  rewrite Es in *.
  destruct (join_contiguous_any_replay_length_rcache (l_maxq c) (l_gop c) (l_n c) pan (l_pkts c) stp
              (l_sched c) HF i r Hr) as [E1 E2].
  destruct (LtsFanoutProofs.delivered_prefix_of_pushed (l_maxq c) rcache (rc_empty (l_gop c)) rc_add rc_snap
              (l_n c) pan (l_pkts c) stp (l_sched c) i) as [rest Ho].
  cbv zeta in E1, E2, Ho.
  set (s := run fixed (l_maxq c) rcache (rc_empty (l_gop c)) rc_add rc_snap (l_n c) pan (l_sched c)
                (init rcache (rc_empty (l_gop c)) (l_pkts c) stp)) in *.
  set (k := s_cs rcache s i) in *.
  change (swindow (s_sent rcache s) r (c_unregat k)) with (jwindow (s_sent rcache s) r (c_unregat k)).
  set (w := jwindow (s_sent rcache s) r (c_unregat k)) in *.
  rewrite snk_is_nk. apply andb_true_iff. split.
  - cbn [cobs_of o_out]. fold k.
    rewrite E1 in Ho. apply (f_equal (map p_id)) in Ho. rewrite !map_app in Ho.
    rewrite app_assoc in Ho. symmetry in Ho.
    destruct (app_eq_compat _ _ _ _ Ho) as [[t ->]|[t ->]]; rewrite prefixZ_app; rewrite ?orb_true_r; reflexivity.
  - cbn [cobs_of o_reg o_disc]. fold k. destruct (c_reg k); [|reflexivity]. cbn [andb].
    destruct (Nat.eqb_spec (length (nk w)) (length w)) as [El|]; [|reflexivity].
    assert (F : nk w = w) by (destruct (nk_full_or_short w) as [F|F]; [exact F|lia]).
    destruct (E2 F) as [-> _]. reflexivity.
Qed.
